(* C04/C05 — the side conditions are satisfiable by a non-trivial history, and the cases they
   exclude (open findings D20: re-attaching an entity that already has a parent; D22: two
   interfaces of one node receiving one message) really break the invariant on the faithful model
   (closed by computation). The same histories replayed on the Go code are the recorded findings. *)
From Acme.C04 Require Import ProofsTac Proofs_Step Spec.

(* boolean form of the side conditions *)
Definition free_or (p : option handle) (h : handle) : bool := bool_decide (p = None ∨ p = Some h).

Definition recv_slot_freeb (s : state) (i m : handle) : bool :=
  match ifaces s !! i, msgs s !! m with
  | Some Ii, Some M => bool_decide (m_receivers M !! i_node Ii = None ∨ m_receivers M !! i_node Ii = Some i)
  | _, _ => true
  end.

Definition op_okb (s : state) (o : op) : bool :=
  match o with
  | NetAddBus n (Some b) => match buses s !! b with Some B => free_or (b_parent B) n | None => true end
  | BusAddNodeInterface b (Some i) =>
      match ifaces s !! i with
      | Some Ii => match nodes s !! i_node Ii with
                   | Some ND => bool_decide (i ∈ nd_ifaces ND) && free_or (i_parent Ii) b
                   | None => false end
      | None => true end
  | IfAddSent i (Some m) => match msgs s !! m with Some M => free_or (m_sender M) i | None => true end
  | EnumAddValue e (Some v) _ => match evals s !! v with Some V => free_or (v_parent V) e | None => true end
  | IfAddReceived i (Some m) => recv_slot_freeb s i m
  | MsgAddReceiver m (Some i) => recv_slot_freeb s i m
  | _ => true
  end.

Lemma op_okb_spec s o : op_okb s o = true → op_ok s o.
Proof.
  destruct o; cbn; try done.
  - destruct ob as [b|]; [|done]. intros Hb B HB. rewrite HB in Hb. by apply bool_decide_eq_true in Hb.
  - destruct oi as [i|]; [|done]. intros Hb. split.
    + intros Ii HI. rewrite HI in Hb. destruct (nodes s !! i_node Ii) as [ND|]; [|done].
      apply andb_true_iff in Hb as [Hb _]. apply bool_decide_eq_true in Hb. eauto.
    + intros Ii HI. rewrite HI in Hb. destruct (nodes s !! i_node Ii) as [ND|]; [|done].
      apply andb_true_iff in Hb as [_ Hb]. by apply bool_decide_eq_true in Hb.
  - destruct om as [m|]; [|done]. intros Hb M HM. rewrite HM in Hb. by apply bool_decide_eq_true in Hb.
  - destruct om as [m|]; [|done]. unfold recv_slot_freeb. intros Hb Ii M HI HM. rewrite HI, HM in Hb.
    by apply bool_decide_eq_true in Hb.
  - destruct oi as [i|]; [|done]. unfold recv_slot_freeb. intros Hb Ii M HI HM. rewrite HI, HM in Hb.
    by apply bool_decide_eq_true in Hb.
  - destruct ov as [v|]; [|done]. intros Hb V HV. rewrite HV in Hb. by apply bool_decide_eq_true in Hb.
Qed.

(* all steps of a history satisfy the side conditions *)
Fixpoint all_okb (s : state) (ops : list op) : bool :=
  match ops with [] => true | o :: ops => op_okb s o && all_okb (step s o).1 ops end.

Lemma reach_all_okb ops s : Reach s → all_okb s ops = true → Reach (fold_left (λ s o, (step s o).1) ops s).
Proof.
  revert s. induction ops as [|o ops IH]; intros s Hr Hok; cbn; [done|].
  cbn in Hok. apply andb_true_iff in Hok as [Ho Hok]. apply IH; [|done].
  constructor; [done|]. by apply op_okb_spec.
Qed.

(* a history with attach, static CAN-ID, id change, renames, receivers, enum edits, interface
   removal and removal through the outer container; every call is accepted *)
Definition sample_history : list op :=
  [ NewNetwork; NewBus 1%N; NewNode 2%N 7%Z 2; NewMessage 3%N 5%Z 8%Z; NewMessage 4%N 6%Z 8%Z; NewEnum;
    NewEnumValue 1%N 3%Z;
    NetAddBus 1%positive (Some 2%positive); BusAddNodeInterface 2%positive (Some 4%positive);
    IfAddSent 4%positive (Some 6%positive); IfAddSent 4%positive (Some 7%positive);
    MsgSetStatic 6%positive 100%Z; MsgUpdateID 6%positive 9%Z; MsgUpdateName 7%positive 9%N;
    MsgAddReceiver 6%positive (Some 5%positive);
    NodeUpdateName 3%positive 8%N; NodeUpdateID 3%positive 1%Z;
    EnumAddValue 8%positive (Some 9%positive) true; EvalUpdateIndex 9%positive 5%Z true;
    NodeRemoveInterface 3%positive 0%Z; NetRemoveAllBuses 1%positive ].

Definition all_accepted (ops : list op) : bool :=
  (fold_left (λ '(s, acc) o, let '(s', r) := step s o in (s', acc && negb (is_err r))) ops (init, true)).2.

Example op_ok_satisfiable :
  all_okb init sample_history = true ∧ all_accepted sample_history = true ∧ Reach (run sample_history).
Proof.
  assert (all_okb init sample_history = true) as H by (vm_compute; reflexivity).
  split; [exact H|]. split; [vm_compute; reflexivity|].
  unfold run. exact (reach_all_okb sample_history init reach_init H).
Qed.

(* ---- the excluded cases --------------------------------------------------------------------- *)

(* D20: a bus added to a second network is listed by both *)
Definition reattach_bus : list op :=
  [ NewNetwork; NewNetwork; NewBus 1%N; NetAddBus 1%positive (Some 3%positive); NetAddBus 2%positive (Some 3%positive) ].

Definition listed_twice (s : state) (n1 n2 b : handle) : bool :=
  match nets s !! n1, nets s !! n2 with
  | Some N1, Some N2 => bool_decide (b ∈ n_buses N1) && bool_decide (b ∈ n_buses N2)
  | _, _ => false
  end.

Lemma listed_twice_not_inv s n1 n2 b : n1 ≠ n2 → listed_twice s n1 n2 b = true → ¬ Inv s.
Proof.
  intros Hne Hl Hinv. unfold listed_twice in Hl.
  destruct (nets s !! n1) as [N1|] eqn:H1; [|discriminate Hl].
  destruct (nets s !! n2) as [N2|] eqn:H2; [|discriminate Hl].
  apply andb_true_iff in Hl as [Hb1%bool_decide_eq_true Hb2%bool_decide_eq_true].
  destruct (inv_net_down _ Hinv _ _ _ H1 Hb1) as (B1 & HB1 & Hp1).
  destruct (inv_net_down _ Hinv _ _ _ H2 Hb2) as (B2 & HB2 & Hp2). simplify_eq.
Qed.

Theorem exclusive_without_side_condition_refuted :
  ∃ ops n1 n2 b, n1 ≠ n2 ∧ all_accepted ops = true ∧ listed_twice (run ops) n1 n2 b = true ∧ ¬ Inv (run ops).
Proof.
  exists reattach_bus, 1%positive, 2%positive, 3%positive.
  assert (listed_twice (run reattach_bus) 1%positive 2%positive 3%positive = true) as Hl by (vm_compute; reflexivity).
  assert ((1%positive : handle) ≠ 2%positive) as Hne by done.
  split; [exact Hne|]. split; [vm_compute; reflexivity|]. split; [exact Hl|].
  exact (listed_twice_not_inv _ _ _ _ Hne Hl).
Qed.

(* D22: the second interface of a node replaces the first in the receivers of the message, which
   still sits in the received set of the first *)
Definition two_receivers : list op :=
  [ NewNode 1%N 1%Z 2; NewMessage 2%N 1%Z 8%Z; MsgAddReceiver 4%positive (Some 2%positive);
    MsgAddReceiver 4%positive (Some 3%positive) ].

Definition received_not_listed (s : state) (i m : handle) : bool :=
  match ifaces s !! i, msgs s !! m with
  | Some Ii, Some M => bool_decide (m ∈ i_received Ii) && negb (bool_decide (m_receivers M !! i_node Ii = Some i))
  | _, _ => false
  end.

Lemma received_not_listed_not_inv s i m : received_not_listed s i m = true → ¬ Inv s.
Proof.
  intros Hl Hinv. unfold received_not_listed in Hl.
  destruct (ifaces s !! i) as [Ii|] eqn:H1; [|discriminate Hl].
  destruct (msgs s !! m) as [M|] eqn:H2; [|discriminate Hl].
  apply andb_true_iff in Hl as [Hb1%bool_decide_eq_true Hb2%negb_true_iff].
  apply bool_decide_eq_false in Hb2.
  destruct (inv_recv_up _ Hinv _ _ _ H1 Hb1) as (M0 & HM0 & Hr). simplify_eq.
Qed.

Theorem receivers_without_side_condition_refuted :
  ∃ ops i m, all_accepted ops = true ∧ received_not_listed (run ops) i m = true ∧ ¬ Inv (run ops).
Proof.
  exists two_receivers, 2%positive, 4%positive.
  assert (received_not_listed (run two_receivers) 2%positive 4%positive = true) as Hl by (vm_compute; reflexivity).
  split; [vm_compute; reflexivity|]. split; [exact Hl|].
  exact (received_not_listed_not_inv _ _ _ Hl).
Qed.

(* ---- a released key is immediately reusable, a used key is refused (concrete instance) ---------- *)
Definition results (ops : list op) : list result :=
  (fold_left (λ '(s, acc) o, let '(s', r) := step s o in (s', acc ++ [r])) ops (init, [])).2.

(* interface 2 of node 1 sends message 3 named 1; message 4 is also named 1 and has the same id:
   adding it is refused for the name, then (after 3 is renamed) for the id, then (after 3 got another
   id) accepted; static CAN-ID 7 of message 3 is then refused for 4 and accepted once 3 released it *)
Definition reuse_history : list op :=
  [ NewNode 1%N 1%Z 1; NewMessage 1%N 5%Z 8%Z; NewMessage 1%N 5%Z 8%Z;
    IfAddSent 2%positive (Some 3%positive);
    IfAddSent 2%positive (Some 4%positive);        (* name in use *)
    MsgUpdateName 3%positive 2%N;
    IfAddSent 2%positive (Some 4%positive);        (* id in use *)
    MsgUpdateID 3%positive 6%Z;
    IfAddSent 2%positive (Some 4%positive);        (* accepted *)
    MsgSetStatic 3%positive 7%Z;
    MsgSetStatic 4%positive 7%Z;                   (* static CAN-ID in use *)
    MsgUpdateID 3%positive 9%Z;                    (* releases 7 *)
    MsgSetStatic 4%positive 7%Z ].                 (* accepted *)

Example released_key_reused :
  results reuse_history =
  [ Ok; Ok; Ok; Ok; Err [(Duplicated, WName)]; Ok; Err [(Duplicated, WMessageID)]; Ok; Ok; Ok;
    Err [(Duplicated, WCANID)]; Ok; Ok ].
Proof. vm_compute. reflexivity. Qed.

Lemma covered_count : length covered_mutators = 33 ∧ length all_mutators = 59.
Proof. split; vm_compute; reflexivity. Qed.

(* ---- side condition (c): an interface removed from its node is attached to a bus, then the node
   is renamed: Node.UpdateName visits the listed interfaces only, the bus keeps the old name ---- *)
Definition removed_interface_history : list op :=
  [ NewBus 0%N; NewNode 1%N 1%Z 2; NodeRemoveInterface 2%positive 1%Z;
    BusAddNodeInterface 1%positive (Some 4%positive); NodeUpdateName 2%positive 7%N ].

Definition stale_node_name (s : state) (b : handle) (nm : name) : bool :=
  match buses s !! b with
  | Some B => match b_nodeNames B !! nm with
              | Some nd => match nodes s !! nd with
                           | Some ND => negb (bool_decide (nd_name ND = nm))
                           | None => true end
              | None => false end
  | None => false
  end.

Lemma stale_node_name_not_inv s b nm : stale_node_name s b nm = true → ¬ Inv s.
Proof.
  intros Hl Hinv. unfold stale_node_name in Hl.
  destruct (buses s !! b) as [B|] eqn:HB; [|discriminate Hl].
  destruct (b_nodeNames B !! nm) as [nd|] eqn:Hn; [|discriminate Hl].
  apply (inv_bus_names s Hinv b B HB) in Hn. unfold key_node_name in Hn.
  case_decide; [|done]. destruct (nodes s !! nd) as [ND|]; [|done]. cbn in Hn. simplify_eq.
  by rewrite bool_decide_eq_true_2 in Hl.
Qed.

Theorem removed_interface_refuted :
  ∃ ops b nm, all_accepted ops = true ∧ stale_node_name (run ops) b nm = true ∧ ¬ Inv (run ops).
Proof.
  exists removed_interface_history, 1%positive, 1%N.
  assert (stale_node_name (run removed_interface_history) 1%positive 1%N = true) as Hl by (vm_compute; reflexivity).
  split; [vm_compute; reflexivity|]. split; [exact Hl|].
  exact (stale_node_name_not_inv _ _ _ Hl).
Qed.
