(* C05 — layer 3 of the entity state machine: references of shared definitions (I8).
   A product construction over the flat-registry model: [state3] = the layer-1 [state] plus the
   reference sets (withRefs.refs of signal types, units, enums, attributes, CAN-ID builders) and the
   fields that point to a shared definition (signal type / unit / enum, attribute assignments of an
   entity, custom builder of a bus). Layer-1 operations act on [base] only, layer-3 operations on
   the extension only; the new handle of a constructor comes from the one global counter.
   A Go [set[EntityID, R]] of references is a [gset handle] (absent = empty).
   No proofs in this file. *)
From Acme.C04 Require Export Invariant.

Inductive skind := SStd | SEnum | SMux.

Record sig_rec := mkSig {
  sg_kind : skind;
  sg_type : option handle;     (* StandardSignal.typ *)
  sg_unit : option handle;     (* StandardSignal.unit *)
  sg_enum : option handle;     (* EnumSignal.enum *)
}.

(* attributes: kind and range of an attribute definition, value of an assignment.  Float bounds and
   values are given in thousandths; strings are opaque keys like names *)
Inductive attr_kind := AString | AInt (mn mx : Z) | AFloat (mn mx : Z) | AEnum (values : list name).
Inductive attr_value := VInt (z : Z) | VFloat (z : Z) | VStr (x : name) | VOther.

Record state3 := mkState3 {
  base : state;
  sigs : gmap handle sig_rec;
  type_refs : gmap handle (gset handle);     (* SignalType.refs: signals *)
  unit_refs : gmap handle (gset handle);     (* SignalUnit.refs: signals *)
  enum_refs : gmap handle (gset handle);     (* SignalEnum.refs: signals *)
  attr_refs : gmap handle (gset handle);     (* attribute.refs: assignments, keyed by the entity id *)
  assigns : gmap handle (gset handle);       (* withAttributes.attAssignments of an entity: attributes *)
  builder_refs : gmap handle (gset handle);  (* CANIDBuilder.refs: buses *)
  bus_builder : gmap handle handle;          (* Bus.canIDBuilder when it is not the default builder *)
  attrs : gmap handle attr_kind;             (* attribute definitions: kind and range *)
}.

Global Instance eta_sig : Settable _ := settable! mkSig <sg_kind; sg_type; sg_unit; sg_enum>.
Global Instance eta_state3 : Settable _ :=
  settable! mkState3 <base; sigs; type_refs; unit_refs; enum_refs; attr_refs; assigns; builder_refs; bus_builder; attrs>.

Definition init3 : state3 := mkState3 init ∅ ∅ ∅ ∅ ∅ ∅ ∅ ∅ ∅.

Definition refs_of (m : gmap handle (gset handle)) (h : handle) : gset handle := default ∅ (m !! h).
Definition add_ref (h x : handle) (m : gmap handle (gset handle)) : gmap handle (gset handle) :=
  <[h := {[x]} ∪ refs_of m h]> m.
Definition del_ref (h x : handle) (m : gmap handle (gset handle)) : gmap handle (gset handle) :=
  <[h := refs_of m h ∖ {[x]}]> m.
Definition del_ref_opt (oh : option handle) (x : handle) (m : gmap handle (gset handle)) :=
  match oh with Some h => del_ref h x m | None => m end.

Definition ok3 (s : state3) : state3 * result := (s, Ok).
Definition err3 (s : state3) (c : cause) (w : wrap) : state3 * result := (s, Err [(c, w)]).
Definition bad3 (s : state3) : state3 * result := (s, Err [(BadHandle, WNone)]).

Definition alloc3 (s : state3) : handle * state3 := (next (base s), s <| base ::= (λ b, b <| next ::= Pos.succ |>) |>).

Inductive op3 :=
  | L1 (o : op)                                        (* every layer-1 operation (incl. NewOther: constructors of
                                                          types, units, attributes, builders, multiplexers, Clone) *)
  | NewStdSignal (ot : option handle)
  | NewEnumSignal (oe : option handle)
  | StdSetType (sg : handle) (ot : option handle) (fits : bool)
  | StdSetUnit (sg : handle) (ou : option handle)
  | EnumSetEnum (sg : handle) (oe : option handle) (fits : bool)
  | Assign (ent : handle) (oa : option handle) (v : attr_value)        (* the value check is derived from the kind of the attribute *)
  | RemoveAssign (ent key : handle)
  | RemoveAllAssign (ent : handle)
  | BusSetBuilder (b : handle) (ocb : option handle)
  | NewAttr (k : attr_kind)                            (* NewStringAttribute / NewIntegerAttribute / NewFloatAttribute / NewEnumAttribute *)
  | AttrClone (a : handle).                            (* Attribute.Clone: a new definition of the same kind, no references *)

(* NewStandardSignal(name, typ) *)
Definition new_std_signal (s : state3) (ot : option handle) : state3 * result :=
  match ot with
  | None => err3 s Nil WArgument
  | Some t =>
    let '(h, s) := alloc3 s in
    ok3 (s <| sigs ::= <[h := mkSig SStd (Some t) None None]> |> <| type_refs ::= add_ref t h |>)
  end.

(* NewEnumSignal(name, enum) *)
Definition new_enum_signal (s : state3) (oe : option handle) : state3 * result :=
  match oe with
  | None => err3 s Nil WArgument
  | Some e =>
    let '(h, s) := alloc3 s in
    ok3 (s <| sigs ::= <[h := mkSig SEnum None None (Some e)]> |> <| enum_refs ::= add_ref e h |>)
  end.

(* StandardSignal.SetType *)
Definition std_set_type (s : state3) (sg : handle) (ot : option handle) (fits : bool) : state3 * result :=
  match sigs s !! sg with
  | Some G =>
    match sg_kind G, ot with
    | SStd, None => err3 s Nil WArgument
    | SStd, Some t =>
      if fits then
        ok3 (s <| type_refs := add_ref t sg (del_ref_opt (sg_type G) sg (type_refs s)) |>
               <| sigs := <[sg := G <| sg_type := Some t |>]> (sigs s) |>)
      else err3 s Layout WNone
    | _, _ => bad3 s
    end
  | None => bad3 s
  end.

(* StandardSignal.SetUnit (no error result; nil clears the unit) *)
Definition std_set_unit (s : state3) (sg : handle) (ou : option handle) : state3 * result :=
  match sigs s !! sg with
  | Some G =>
    match sg_kind G with
    | SStd =>
      let ur := del_ref_opt (sg_unit G) sg (unit_refs s) in
      ok3 (s <| unit_refs := match ou with Some u => add_ref u sg ur | None => ur end |>
             <| sigs := <[sg := G <| sg_unit := ou |>]> (sigs s) |>)
    | _ => bad3 s
    end
  | None => bad3 s
  end.

(* EnumSignal.SetEnum *)
Definition enum_set_enum (s : state3) (sg : handle) (oe : option handle) (fits : bool) : state3 * result :=
  match sigs s !! sg with
  | Some G =>
    match sg_kind G, oe with
    | SEnum, None => err3 s Nil WArgument
    | SEnum, Some e =>
      if fits then
        ok3 (s <| enum_refs := add_ref e sg (del_ref_opt (sg_enum G) sg (enum_refs s)) |>
               <| sigs := <[sg := G <| sg_enum := Some e |>]> (sigs s) |>)
      else err3 s Layout WNone
    | _, _ => bad3 s
    end
  | None => bad3 s
  end.

(* withAttributes.addAttributeAssignment *)
Definition assign_attr (s : state3) (ent : handle) (oa : option handle) (verr : option cause) : state3 * result :=
  match oa with
  | None => err3 s Nil WArgument
  | Some a =>
    match verr with
    | Some c => err3 s c WAttributeValue
    | None => ok3 (s <| assigns ::= add_ref ent a |> <| attr_refs ::= add_ref a ent |>)
    end
  end.

(* the value check of withAttributes.addAttributeAssignment: the dynamic type of the value against the
   kind of the attribute, then its range / membership *)
Definition attr_verr (k : attr_kind) (v : attr_value) : option cause :=
  match v, k with
  | VInt z, AInt mn mx => if ((z <? mn) || (mx <? z))%Z then Some OutOfBounds else None
  | VInt _, _ => Some InvalidType
  | VFloat z, AFloat mn mx => if ((z <? mn) || (mx <? z))%Z then Some OutOfBounds else None
  | VFloat _, _ => Some InvalidType
  | VStr _, AString => None
  | VStr x, AEnum vs => if bool_decide (x ∈ vs) then None else Some NotFound
  | VStr _, _ => Some InvalidType
  | VOther, _ => Some InvalidType
  end.

Definition assign_value (s : state3) (ent : handle) (oa : option handle) (v : attr_value) : state3 * result :=
  match oa with
  | None => assign_attr s ent None None
  | Some a =>
    match attrs s !! a with
    | Some k => assign_attr s ent oa (attr_verr k v)
    | None => bad3 s
    end
  end.

Definition new_attr (s : state3) (k : attr_kind) : state3 * result :=
  let '(h, s) := alloc3 s in ok3 (s <| attrs ::= <[h := k]> |>).

Definition attr_clone (s : state3) (a : handle) : state3 * result :=
  match attrs s !! a with Some k => new_attr s k | None => bad3 s end.

(* withAttributes.removeAttributeAssignment *)
Definition remove_assign (s : state3) (ent key : handle) : state3 * result :=
  if decide (key ∈ refs_of (assigns s) ent) then
    ok3 (s <| assigns ::= del_ref ent key |> <| attr_refs ::= del_ref key ent |>)
  else err3 s NotFound WNone.

(* withAttributes.RemoveAllAttributeAssignments *)
Definition remove_all_assign (s : state3) (ent : handle) : state3 * result :=
  ok3 (s <| attr_refs := foldr (λ a acc, del_ref a ent acc) (attr_refs s) (elements (refs_of (assigns s) ent)) |>
         <| assigns ::= <[ent := ∅]> |>).

(* Bus.SetCANIDBuilder (nil selects the default builder again, whose references are its own bus) *)
Definition bus_set_builder (s : state3) (b : handle) (ocb : option handle) : state3 * result :=
  let br := del_ref_opt (bus_builder s !! b) b (builder_refs s) in
  match ocb with
  | None => ok3 (s <| builder_refs := br |> <| bus_builder ::= delete b |>)
  | Some cb => ok3 (s <| builder_refs := add_ref cb b br |> <| bus_builder ::= <[b := cb]> |>)
  end.

Definition step3 (s : state3) (o : op3) : state3 * result :=
  match o with
  | L1 o => let '(b, r) := step (base s) o in (s <| base := b |>, r)
  | NewStdSignal ot => new_std_signal s ot
  | NewEnumSignal oe => new_enum_signal s oe
  | StdSetType sg ot f => std_set_type s sg ot f
  | StdSetUnit sg ou => std_set_unit s sg ou
  | EnumSetEnum sg oe f => enum_set_enum s sg oe f
  | Assign e oa v => assign_value s e oa v
  | RemoveAssign e k => remove_assign s e k
  | RemoveAllAssign e => remove_all_assign s e
  | BusSetBuilder b ocb => bus_set_builder s b ocb
  | NewAttr k => new_attr s k
  | AttrClone a => attr_clone s a
  end.

Definition run3 (ops : list op3) : state3 := fold_left (λ s o, (step3 s o).1) ops init3.

(* ---- I8: every shared definition lists as references exactly the entities that use it ---------- *)
Record RefsOK (s : state3) : Prop := {
  refs_type : ∀ t x, x ∈ refs_of (type_refs s) t ↔ ∃ G, sigs s !! x = Some G ∧ sg_type G = Some t;
  refs_unit : ∀ u x, x ∈ refs_of (unit_refs s) u ↔ ∃ G, sigs s !! x = Some G ∧ sg_unit G = Some u;
  refs_enum : ∀ e x, x ∈ refs_of (enum_refs s) e ↔ ∃ G, sigs s !! x = Some G ∧ sg_enum G = Some e;
  refs_attr : ∀ a x, x ∈ refs_of (attr_refs s) a ↔ a ∈ refs_of (assigns s) x;
  refs_builder : ∀ cb b, b ∈ refs_of (builder_refs s) cb ↔ bus_builder s !! b = Some cb;
  refs_fresh : ∀ h : handle, (next (base s) ≤ h)%positive → sigs s !! h = None;
  (* stored handles denote entities that exist: below the allocation counter *)
  refs_bound : ∀ x G, sigs s !! x = Some G →
      (∀ t, sg_type G = Some t → (t < next (base s))%positive) ∧
      (∀ u, sg_unit G = Some u → (u < next (base s))%positive) ∧
      (∀ e, sg_enum G = Some e → (e < next (base s))%positive);
  refs_bound_attr : ∀ x a, a ∈ refs_of (assigns s) x → (a < next (base s))%positive;
  refs_bound_builder : ∀ b cb, bus_builder s !! b = Some cb → (cb < next (base s))%positive;
}.

(* handle arguments denote existing entities *)
Definition below (s : state3) (oh : option handle) : Prop := ∀ h, oh = Some h → (h < next (base s))%positive.
Definition op_ok3 (s : state3) (o : op3) : Prop :=
  match o with
  | L1 o => op_ok (base s) o
  | NewStdSignal oh | NewEnumSignal oh | StdSetType _ oh _ | StdSetUnit _ oh | EnumSetEnum _ oh _
  | Assign _ oh _ | BusSetBuilder _ oh => below s oh
  | _ => True
  end.

Definition Inv3 (s : state3) : Prop := Inv (base s) ∧ RefsOK s.

Inductive Reach3 : state3 → Prop :=
  | reach3_init : Reach3 init3
  | reach3_step s o : Reach3 s → op_ok3 s o → Reach3 (step3 s o).1.

(* C05: "every shared definition reports as its references exactly the entities that currently use
   it, also after replacement, removal, bulk removal and cloning" *)
Definition ReferencesExact (s : state3) : Prop :=
  (∀ t x, x ∈ refs_of (type_refs s) t ↔ ∃ G, sigs s !! x = Some G ∧ sg_type G = Some t) ∧
  (∀ u x, x ∈ refs_of (unit_refs s) u ↔ ∃ G, sigs s !! x = Some G ∧ sg_unit G = Some u) ∧
  (∀ e x, x ∈ refs_of (enum_refs s) e ↔ ∃ G, sigs s !! x = Some G ∧ sg_enum G = Some e) ∧
  (∀ a x, x ∈ refs_of (attr_refs s) a ↔ a ∈ refs_of (assigns s) x) ∧
  (∀ cb b, b ∈ refs_of (builder_refs s) cb ↔ bus_builder s !! b = Some cb) ∧
  (* a definition created now (constructor or Clone: the next handle) has no references *)
  (let h := next (base s) in
   refs_of (type_refs s) h = ∅ ∧ refs_of (unit_refs s) h = ∅ ∧ refs_of (enum_refs s) h = ∅ ∧
   refs_of (attr_refs s) h = ∅ ∧ refs_of (builder_refs s) h = ∅).
