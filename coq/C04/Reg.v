(* C04/C05 — layer 2 of the entity state machine: signals inside messages and multiplexers by
   name, at any nesting depth (I1, I2 of DESIGN §4). A product construction over the layer-3 state:
   [state2] = [state3] plus, per signal, name / parentMsg / parentMuxSig; per message the top-level
   signals (SignalLayout.signals as a set), the registry Message.signals and Message.signalNames;
   per multiplexer its shape (group count, group size), MultiplexerSignal.signals / signalNames /
   fixedSignals / signalGroupIDs.  Payload geometry is abstracted: every layout check is the oracle
   bit [fits] (taken from the implementation's result), except the one fact the recursion needs —
   a multiplexer only fits a group that is larger than its own group size.
   The operations follow message.go / mux_signal.go / signal.go after the fixes 7434f7d (nested
   names checked), 938f8ce (RemoveSignal of a nested signal), 5ad230c (registration at every depth).
   No proofs in this file. *)
From stdpp Require Export sorting.
From Acme.C04 Require Export Refs.

Record state2 := mkState2 {
  l3 : state3;
  sname : gmap handle name;                     (* signal -> entity.name *)
  spmsg : gmap handle handle;                   (* signal.parentMsg (absent = nil) *)
  spmux : gmap handle handle;                   (* signal.parentMuxSig *)
  mtop : gmap handle (gset handle);             (* Message.signalLayout.signals, as a set *)
  msigs : gmap handle (gset handle);            (* Message.signals *)
  mnames : gmap handle (gmap name handle);      (* Message.signalNames *)
  xshape : gmap handle (Z * Z);                 (* multiplexer: groupCount, groupSize *)
  xsigs : gmap handle (gset handle);            (* MultiplexerSignal.signals *)
  xnames : gmap handle (gmap name handle);      (* MultiplexerSignal.signalNames *)
  xfixed : gmap handle (gset handle);           (* MultiplexerSignal.fixedSignals *)
  xgids : gmap handle (gmap handle (list Z));   (* MultiplexerSignal.signalGroupIDs *)
}.

Global Instance eta_state2 : Settable _ :=
  settable! mkState2 <l3; sname; spmsg; spmux; mtop; msigs; mnames; xshape; xsigs; xnames; xfixed; xgids>.

Definition init2 : state2 := mkState2 init3 ∅ ∅ ∅ ∅ ∅ ∅ ∅ ∅ ∅ ∅ ∅.

Definition names_of (m : gmap handle (gmap name handle)) (h : handle) : gmap name handle := default ∅ (m !! h).
Definition gids_of (m : gmap handle (gmap handle (list Z))) (h : handle) : gmap handle (list Z) := default ∅ (m !! h).

Definition next2 (s : state2) : handle := next (base (l3 s)).

Definition ok2 (s : state2) : state2 * result := (s, Ok).
Definition err2 (s : state2) (c : cause) (w : wrap) : state2 * result := (s, Err [(c, w)]).
Definition bad2 (s : state2) : state2 * result := (s, Err [(BadHandle, WNone)]).

(* ---- descendants of a signal through multiplexer membership ---------------------------------- *)
(* the nesting depth is bounded by the group size: a multiplexer only fits a strictly larger group *)
Definition rank (s : state2) (x : handle) : nat :=
  match xshape s !! x with Some (_, g) => Z.to_nat g | None => O end.

Fixpoint descF (xs : gmap handle (gset handle)) (n : nat) (x : handle) : list handle :=
  x :: match n with
       | O => []
       | S n => flat_map (descF xs n) (elements (refs_of xs x))
       end.

(* the signal itself and every signal it holds, at any depth *)
Definition desc (s : state2) (x : handle) : list handle := descF (xsigs s) (rank s x) x.

Definition name_of (s : state2) (x : handle) : name := default 0%N (sname s !! x).
Definition named (s : state2) (l : list handle) : list (name * handle) := (λ x, (name_of s x, x)) <$> l.

(* ---- registration in a message (Message.addSignal / removeSignal) ---------------------------- *)
Definition upd_all {V} (l : list handle) (v : V) (m : gmap handle V) : gmap handle V :=
  foldr (λ x acc, <[x := v]> acc) m l.

Definition register (s : state2) (m : handle) (l : list handle) : state2 :=
  s <| msigs ::= <[m := list_to_set l ∪ refs_of (msigs s) m]> |>
    <| mnames ::= <[m := insert_all (named s l) (names_of (mnames s) m)]> |>
    <| spmsg ::= upd_all l m |>.

Definition unregister (s : state2) (m : handle) (l : list handle) : state2 :=
  s <| msigs ::= <[m := refs_of (msigs s) m ∖ list_to_set l]> |>
    <| mnames ::= <[m := delete_all (named s l).*1 (names_of (mnames s) m)]> |>
    <| spmsg ::= delete_all l |>.

(* Message.verifyNestedSignalNames: the names of the signals held by an incoming multiplexer are
   distinct among themselves (and from the multiplexer's own) and not used by another signal of
   the message *)
Definition nested_ok (s : state2) (m x : handle) : bool :=
  let ds := desc s x in
  bool_decide (NoDup (named s ds).*1) &&
  forallb (λ d, match names_of (mnames s) m !! name_of s d with
                | Some o => bool_decide (o = d)
                | None => true end) (tail ds).

(* ---- constructors -------------------------------------------------------------------------------- *)
Definition lift3 (s : state2) (o : op3) : state2 * result :=
  let '(t, r) := step3 (l3 s) o in (s <| l3 := t |>, r).

(* NewStandardSignal(name, typ) / NewEnumSignal(name, enum) *)
Definition new_signal2 (s : state2) (nm : name) (o : op3) : state2 * result :=
  let h := next2 s in
  match lift3 s o with
  | (s', Ok) => ok2 (s' <| sname ::= <[h := nm]> |>)
  | (s', Err e) => (s', Err e)
  end.

(* NewMultiplexerSignal(name, groupCount, groupSize) *)
Definition new_mux2 (s : state2) (nm : name) (count gsize : Z) : state2 * result :=
  if (count =? 0)%Z then err2 s Zero WArgument
  else if (count <? 0)%Z then err2 s Negative WArgument
  else if (gsize =? 0)%Z then err2 s Zero WArgument
  else if (gsize <? 0)%Z then err2 s Negative WArgument
  else
    let h := next2 s in
    match lift3 s (L1 NewOther) with
    | (s', _) => ok2 (s' <| sname ::= <[h := nm]> |> <| xshape ::= <[h := (count, gsize)]> |>)
    end.

(* ---- Message.AppendSignal / InsertSignal (registry part; the position is geometry) ------------- *)
Definition msg_attach (s : state2) (m : handle) (os : option handle) (fits : bool) : state2 * result :=
  match msgs (base (l3 s)) !! m with
  | None => bad2 s
  | Some _ =>
    match os with
    | None => err2 s Nil WArgument
    | Some x =>
      match sname s !! x with
      | None => bad2 s
      | Some nm =>
        match names_of (mnames s) m !! nm with
        | Some _ => err2 s Duplicated WName
        | None =>
          if negb (nested_ok s m x) then err2 s Duplicated WName
          else if negb fits then err2 s Layout WNone
          else ok2 (register s m (desc s x) <| mtop ::= add_ref m x |>)
        end
      end
    end
  end.

(* ---- MultiplexerSignal.removeSignal ---------------------------------------------------------------- *)
Definition detach_child (s : state2) (u c : handle) : state2 :=
  let s1 := s <| xsigs ::= del_ref u c |>
              <| xnames ::= <[u := delete (name_of s c) (names_of (xnames s) u)]> |>
              <| spmux ::= delete c |> in
  match spmsg s !! u with
  | Some m => unregister s1 m (desc s c)
  | None => s1
  end.

(* MultiplexerSignal.RemoveSignal(entity id) *)
Definition mux_remove (s : state2) (u key : handle) : state2 * result :=
  match xshape s !! u with
  | None => bad2 s
  | Some _ =>
    if decide (key ∈ refs_of (xsigs s) u) then
      ok2 (detach_child s u key <| xfixed ::= del_ref u key |> <| xgids ::= <[u := delete key (gids_of (xgids s) u)]> |>)
    else err2 s NotFound WRemoveEntity
  end.

(* Message.RemoveSignal(entity id) *)
Definition msg_remove_signal (s : state2) (m key : handle) : state2 * result :=
  match msgs (base (l3 s)) !! m with
  | None => bad2 s
  | Some _ =>
    if decide (key ∈ refs_of (msigs s) m) then
      match spmux s !! key with
      | Some u => mux_remove s u key
      | None => ok2 (unregister s m (desc s key) <| mtop ::= del_ref m key |>)
      end
    else err2 s NotFound WRemoveEntity
  end.

(* Message.RemoveAllSignals *)
Definition msg_remove_all_signals (s : state2) (m : handle) : state2 * result :=
  match msgs (base (l3 s)) !! m with
  | None => bad2 s
  | Some _ =>
    ok2 (s <| spmsg ::= delete_all (elements (refs_of (msigs s) m)) |>
           <| msigs ::= <[m := ∅]> |> <| mnames ::= <[m := ∅]> |> <| mtop ::= <[m := ∅]> |>)
  end.

(* ---- Signal.UpdateName -------------------------------------------------------------------------------- *)
Definition rename_in (old new : name) (x : handle) (m : gmap name handle) : gmap name handle :=
  <[new := x]> (delete old m).

Definition sig_update_name (s : state2) (x : handle) (new : name) : state2 * result :=
  match sname s !! x with
  | None => bad2 s
  | Some old =>
    if decide (old = new) then ok2 s else
    (* MultiplexerSignal.verifySignalName *)
    let mux_err :=
      match spmux s !! x with
      | Some u =>
        match names_of (xnames s) u !! new with
        | Some o => negb (bool_decide (o = x))
        | None => match spmsg s !! u with
                  | Some m => bool_decide (is_Some (names_of (mnames s) m !! new))
                  | None => false end
        end
      | None => false
      end in
    if mux_err then err2 s Duplicated WName else
    let msg_err :=
      match spmsg s !! x with
      | Some m => bool_decide (is_Some (names_of (mnames s) m !! new))
      | None => false
      end in
    if msg_err then err2 s Duplicated WName else
    ok2 (s <| mnames := match spmsg s !! x with
                        | Some m => <[m := rename_in old new x (names_of (mnames s) m)]> (mnames s)
                        | None => mnames s end |>
           <| xnames := match spmux s !! x with
                        | Some u => <[u := rename_in old new x (names_of (xnames s) u)]> (xnames s)
                        | None => xnames s end |>
           <| sname := <[x := new]> (sname s) |>)
  end.

(* ---- MultiplexerSignal.InsertSignal ------------------------------------------------------------------ *)
Definition dedup (l : list Z) : list Z := remove_dups l.

(* the first failing group id check of the loop over the given ids *)
Fixpoint gid_err (count : Z) (is_fixed : bool) (prev : list Z) (l : list Z) : option cause :=
  match l with
  | [] => None
  | g :: l =>
    if (g <? 0)%Z then Some Negative
    else if (count <=? g)%Z then Some OutOfBounds
    else if is_fixed || bool_decide (g ∈ prev) then Some Duplicated
    else gid_err count is_fixed prev l
  end.

Definition mux_attach_child (s : state2) (u x : handle) : state2 :=
  let s1 := s <| xsigs ::= add_ref u x |>
              <| xnames ::= <[u := <[name_of s x := x]> (names_of (xnames s) u)]> |>
              <| spmux ::= <[x := u]> |> in
  match spmsg s !! u with
  | Some m => register s1 m (desc s x)
  | None => s1
  end.

Definition mux_insert (s : state2) (u : handle) (os : option handle) (fits : bool) (ids : list Z) : state2 * result :=
  match xshape s !! u with
  | None => bad2 s
  | Some (count, gsize) =>
    match os with
    | None => err2 s Nil WArgument
    | Some x =>
      match sname s !! x with
      | None => bad2 s
      | Some nm =>
        (* verifySignalName *)
        let name_err :=
          match names_of (xnames s) u !! nm with
          | Some o => negb (bool_decide (o = x))
          | None => match spmsg s !! u with
                    | Some m => bool_decide (is_Some (names_of (mnames s) m !! nm))
                    | None => false end
          end in
        if name_err then err2 s Duplicated WName else
        let nested_err := match spmsg s !! u with Some m => negb (nested_ok s m x) | None => false end in
        if nested_err then err2 s Duplicated WName else
        (* geometry: the oracle bit; the group-id checks of the loop come before the layout check of a
           group, so a refusal for an id is reported when the oracle saw no geometric refusal *)
        if negb fits then err2 s Layout WNone else
        (* the one geometric fact the recursion needs: a multiplexer only fits a strictly larger group *)
        let too_big := bool_decide (is_Some (xshape s !! x) ∧ (rank s u ≤ rank s x)%nat) in
        let present := bool_decide (x ∈ refs_of (xsigs s) u) in
        let is_fixed := bool_decide (x ∈ refs_of (xfixed s) u) in
        let prev := default [] (gids_of (xgids s) u !! x) in
        match ids with
        | [] =>
          if present then err2 s Duplicated WGroupID
          else if too_big then err2 s Layout WNone
          else ok2 (mux_attach_child s u x <| xfixed ::= add_ref u x |>)
        | _ =>
          let ids := dedup ids in
          match gid_err count is_fixed prev ids with
          | Some c => err2 s c WGroupID
          | None =>
            if too_big then err2 s Layout WNone else
            ok2 (mux_attach_child s u x
                   <| xgids ::= <[u := <[x := merge_sort Z.le (prev ++ ids)]> (gids_of (xgids s) u)]> |>)
          end
        end
      end
    end
  end.

(* ---- MultiplexerSignal.ClearSignalGroup / ClearAllSignalGroups ------------------------------------- *)
Definition clear_one (u : handle) (g : Z) (c : handle) (s : state2) : state2 :=
  if bool_decide (c ∈ refs_of (xfixed s) u) then s else
  match gids_of (xgids s) u !! c with
  | Some ids =>
    if bool_decide (g ∈ ids) then
      if (length ids =? 1)%nat then
        detach_child s u c <| xgids ::= <[u := delete c (gids_of (xgids s) u)]> |>
      else s <| xgids ::= <[u := <[c := filter (λ i, i ≠ g) ids]> (gids_of (xgids s) u)]> |>
    else s
  | None => s
  end.

Definition mux_clear_group (s : state2) (u : handle) (g : Z) : state2 * result :=
  match xshape s !! u with
  | None => bad2 s
  | Some (count, _) =>
    if (g <? 0)%Z then err2 s Negative WGroupID
    else if (count <=? g)%Z then err2 s OutOfBounds WGroupID
    else ok2 (foldr (clear_one u g) s (elements (refs_of (xsigs s) u)))
  end.

Definition mux_clear_all (s : state2) (u : handle) : state2 * result :=
  match xshape s !! u with
  | None => bad2 s
  | Some _ =>
    ok2 (foldr (λ c acc, detach_child acc u c) s (elements (refs_of (xsigs s) u))
           <| xgids ::= <[u := ∅]> |> <| xfixed ::= <[u := ∅]> |>)
  end.

(* ---- Message.UpdateSizeByte, Bus.SetType ------------------------------------------------------------------ *)
Definition set_base (s : state2) (b : state) : state2 := s <| l3 := (l3 s) <| base := b |> |>.

(* NodeInterface.verifyMessageSize of the sender: the bus the sender is attached to, if any *)
Definition sender_bus_too_big (b : state) (M : msg_rec) (n : Z) : bool :=
  match m_sender M with
  | Some i => match ifaces b !! i with Some Ii => parent_bus_too_big b (i_parent Ii) n | None => false end
  | None => false
  end.

(* Message.UpdateSizeByte: negative; unchanged; size in bits not representable; refused by the bus of the
   sender; layout.resize: the last signal would no longer fit (geometry: oracle bit, cause TooSmall) *)
Definition msg_resize (s : state2) (m : handle) (n : Z) (fits : bool) : state2 * result :=
  let b := base (l3 s) in
  match msgs b !! m with
  | None => bad2 s
  | Some M =>
    if (n <? 0)%Z then err2 s Negative WMessageSize
    else if (m_size M =? n)%Z then ok2 s
    else if (2 ^ 60 - 1 <? n)%Z then err2 s TooBig WMessageSize
    else if sender_bus_too_big b M n then err2 s TooBig WMessageSize
    else if negb fits then err2 s TooSmall WMessageSize
    else ok2 (set_base s (b <| msgs := <[m := M <| m_size := n |>]> (msgs b) |>))
  end.

(* Bus.SetType: a plain assignment (nothing is verified against the messages already on the bus) *)
Definition bus_set_type (s : state2) (bh : handle) (t : Z) : state2 * result :=
  let b := base (l3 s) in
  match buses b !! bh with
  | None => bad2 s
  | Some B => ok2 (set_base s (b <| buses := <[bh := B <| b_type := t |>]> (buses b) |>))
  end.

(* ---- Clone of an enum value / of an enum -------------------------------------------------------------- *)
(* SignalEnumValue.Clone: a new value with the same name and index and no parent *)
Definition eval_clone (s : state2) (v : handle) : state2 * result :=
  match evals (base (l3 s)) !! v with
  | None => bad2 s
  | Some V => lift3 s (L1 (NewEnumValue (v_name V) (v_index V)))
  end.

Definition idx_le (a b : Z * handle) : Prop := (a.1 ≤ b.1)%Z.
Global Instance idx_le_dec a b : Decision (idx_le a b) := Z_le_dec _ _.

(* the values of an enum by ascending index (SignalEnum.Values) *)
Definition values_by_index (s : state) (E : enum_rec) : list (Z * handle) :=
  merge_sort idx_le (omap (λ v, (λ V, (v_index V, v)) <$> evals s !! v) (elements (e_values E))).

(* one value of the clone: the constructor, then AddValue on the clone (which has no references, so
   the geometric oracle bit of AddValue is irrelevant: true) *)
Definition clone_value (e' : handle) (s0 : state) (acc : state2) (iv : Z * handle) : state2 :=
  match evals s0 !! iv.2 with
  | Some V =>
    let v' := next2 acc in
    let acc1 := (lift3 acc (L1 (NewEnumValue (v_name V) (v_index V)))).1 in
    (lift3 acc1 (L1 (EnumAddValue e' (Some v') true))).1
  | None => acc
  end.

(* SignalEnum.Clone: a new enum, and per value of the original (ascending index) a clone of the value
   added to it; the handles are those the harness assigns: enum first, then the values in the order
   of Values() *)
Definition enum_clone (s : state2) (e : handle) : state2 * result :=
  match enums (base (l3 s)) !! e with
  | None => bad2 s
  | Some E =>
    let s0 := base (l3 s) in
    let e' := next2 s in
    ok2 (fold_left (clone_value e' s0) (values_by_index s0 E) (lift3 s (L1 NewEnum)).1)
  end.

(* ---- the operations ------------------------------------------------------------------------------------ *)
Inductive op2 :=
  | L3 (o : op3)                                   (* every operation of layers 1 and 3 except the signal constructors *)
  | NewStd2 (nm : name) (ot : option handle)
  | NewEnum2 (nm : name) (oe : option handle)
  | NewMux2 (nm : name) (count gsize : Z)
  | MsgAttach (m : handle) (os : option handle) (fits : bool)     (* AppendSignal and InsertSignal *)
  | MsgRemoveSignal (m key : handle)
  | MsgRemoveAllSignals (m : handle)
  | SigUpdateName (x : handle) (new : name)
  | MuxInsert (u : handle) (os : option handle) (fits : bool) (ids : list Z)
  | MuxRemove (u key : handle)
  | MuxClearGroup (u : handle) (g : Z)
  | MuxClearAll (u : handle)
  | EnumClone (e : handle)                          (* SignalEnum.Clone *)
  | EvalClone (v : handle)                          (* SignalEnumValue.Clone *)
  | MsgResize (m : handle) (n : Z) (fits : bool)    (* Message.UpdateSizeByte *)
  | BusSetType (b : handle) (t : Z).                (* Bus.SetType *)

Definition step2 (s : state2) (o : op2) : state2 * result :=
  match o with
  | L3 o => lift3 s o
  | NewStd2 nm ot => new_signal2 s nm (NewStdSignal ot)
  | NewEnum2 nm oe => new_signal2 s nm (NewEnumSignal oe)
  | NewMux2 nm c g => new_mux2 s nm c g
  | MsgAttach m os f => msg_attach s m os f
  | MsgRemoveSignal m k => msg_remove_signal s m k
  | MsgRemoveAllSignals m => msg_remove_all_signals s m
  | SigUpdateName x nm => sig_update_name s x nm
  | MuxInsert u os f ids => mux_insert s u os f ids
  | MuxRemove u k => mux_remove s u k
  | MuxClearGroup u g => mux_clear_group s u g
  | MuxClearAll u => mux_clear_all s u
  | EnumClone e => enum_clone s e
  | EvalClone v => eval_clone s v
  | MsgResize m n f => msg_resize s m n f
  | BusSetType b t => bus_set_type s b t
  end.

Definition run2 (ops : list op2) : state2 := fold_left (λ s o, (step2 s o).1) ops init2.
