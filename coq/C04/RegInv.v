(* C04/C05 — the invariant of layer 2 (I1, I2 of DESIGN §4): every registry of a message / of a
   multiplexer is exactly what the parent pointers of the signals say, at every nesting depth.
   Definitions only. *)
From Acme.C04 Require Export Reg.

Section keys2.
  Context (s : state2).
  (* signal [x] as registered in message [m] / held by multiplexer [u] *)
  Definition key_sig_msg (m x : handle) : option name :=
    if decide (spmsg s !! x = Some m) then sname s !! x else None.
  Definition key_sig_mux (u x : handle) : option name :=
    if decide (spmux s !! x = Some u) then sname s !! x else None.
End keys2.

(* [Under s x y]: y is x or is held by x through multiplexer membership, at any depth *)
Inductive Under (s : state2) (x : handle) : handle → Prop :=
  | under_refl : Under s x x
  | under_child c y : spmux s !! c = Some x → Under s c y → Under s x y.

Record RegCore (s : state2) : Prop := {
  (* whatever has a parent or a multiplexer shape is a signal (has a name) *)
  r_dom : ∀ x, is_Some (spmsg s !! x) ∨ is_Some (spmux s !! x) ∨ is_Some (xshape s !! x) → is_Some (sname s !! x);
  r_fresh : ∀ h : handle, (next2 s ≤ h)%positive → sname s !! h = None;
  r_shape : ∀ u c g, xshape s !! u = Some (c, g) → (0 < c ∧ 0 < g)%Z;
  (* I1: message registry and name index = the signals whose parentMsg is the message; the payload
     holds those of them that sit in no multiplexer *)
  r_top : ∀ m x, x ∈ refs_of (mtop s) m ↔ spmsg s !! x = Some m ∧ spmux s !! x = None;
  r_reg : ∀ m x, x ∈ refs_of (msigs s) m ↔ spmsg s !! x = Some m;
  r_mnames : ∀ m, IndexOK (key_sig_msg s m) (names_of (mnames s) m);
  (* I2: multiplexer registry and name index = the signals whose parentMuxSig is the multiplexer *)
  r_xsigs : ∀ u x, x ∈ refs_of (xsigs s) u ↔ spmux s !! x = Some u;
  r_xnames : ∀ u, IndexOK (key_sig_mux s u) (names_of (xnames s) u);
  (* a multiplexed signal belongs to the message of its multiplexer; nesting is well founded *)
  r_child_msg : ∀ x u, spmux s !! x = Some u → spmsg s !! x = spmsg s !! u;
  r_rank : ∀ x u, spmux s !! x = Some u → is_Some (xshape s !! u) ∧ (rank s x < rank s u)%nat;
}.

(* group membership: a held signal is fixed or has a non-empty duplicate-free list of group ids *)
Definition GroupsOK (s : state2) (u : handle) : Prop :=
  (∀ x, x ∈ refs_of (xsigs s) u ↔ x ∈ refs_of (xfixed s) u ∨ is_Some (gids_of (xgids s) u !! x)) ∧
  (∀ x ids, gids_of (xgids s) u !! x = Some ids → ids ≠ [] ∧ NoDup ids ∧ x ∉ refs_of (xfixed s) u).

Definition RegOK (s : state2) : Prop := RegCore s ∧ ∀ u, GroupsOK s u.

Definition Inv2 (s : state2) : Prop := Inv3 (l3 s) ∧ RegOK s.

(* side conditions: as in layer 1 (open finding D20) an attach is not applied to a signal that
   already sits elsewhere *)
Definition op_ok2 (s : state2) (o : op2) : Prop :=
  match o with
  | L3 o => op_ok3 (l3 s) o
  | NewStd2 _ oh | NewEnum2 _ oh => below (l3 s) oh
  | MsgAttach m (Some x) _ => spmux s !! x = None ∧ (spmsg s !! x = None ∨ spmsg s !! x = Some m)
  | MuxInsert u (Some x) _ _ => (spmux s !! x = None ∧ spmsg s !! x = None) ∨ spmux s !! x = Some u
  | _ => True
  end.

Inductive Reach2 : state2 → Prop :=
  | reach2_init : Reach2 init2
  | reach2_step s o : Reach2 s → op_ok2 s o → Reach2 (step2 s o).1.

(* ---- the statements of the properties for signals (C04 first clause, C05 signal links) ---------- *)

(* GetSignalByName reads Message.signalNames *)
Definition lookup_signal_by_name (s : state2) (m : handle) (nm : name) : option handle :=
  names_of (mnames s) m !! nm.

(* [InMessage s m x]: x is reachable from the payload of m through multiplexer groups *)
Definition InMessage (s : state2) (m x : handle) : Prop :=
  ∃ t, t ∈ refs_of (mtop s) m ∧ Under s t x.

Definition SignalSpec (s : state2) : Prop :=
  (* within a message no two signals at any multiplexing depth share a name *)
  (∀ m x y, InMessage s m x → InMessage s m y → sname s !! x = sname s !! y → x = y) ∧
  (* a lookup by name returns exactly the signal of the message that carries the name *)
  (∀ m nm x, lookup_signal_by_name s m nm = Some x ↔ InMessage s m x ∧ sname s !! x = Some nm) ∧
  (* a signal reports a message exactly when it is reachable from the payload of that message,
     and the registry of the message is that set *)
  (∀ m x, spmsg s !! x = Some m ↔ InMessage s m x) ∧
  (∀ m x, x ∈ refs_of (msigs s) m ↔ InMessage s m x) ∧
  (* a signal reports a multiplexer exactly when that multiplexer holds it *)
  (∀ u x, spmux s !! x = Some u ↔ x ∈ refs_of (xsigs s) u) ∧
  (* exclusivity: one payload position or one multiplexer, never both; one message *)
  (∀ m x, x ∈ refs_of (mtop s) m → spmux s !! x = None) ∧
  (∀ m1 m2 x, InMessage s m1 x → InMessage s m2 x → m1 = m2) ∧
  (* names are unique among the signals a multiplexer holds directly *)
  (∀ u x y, x ∈ refs_of (xsigs s) u → y ∈ refs_of (xsigs s) u → sname s !! x = sname s !! y → x = y).

(* the same clauses, one definition per sentence of the catalogue *)
(* C04: "signal names are unique within a message at any multiplexing depth" (and among the signals
   a multiplexer holds) *)
Definition SignalNamesUnique (s : state2) : Prop :=
  (∀ m x y, InMessage s m x → InMessage s m y → sname s !! x = sname s !! y → x = y) ∧
  (∀ u x y, x ∈ refs_of (xsigs s) u → y ∈ refs_of (xsigs s) u → sname s !! x = sname s !! y → x = y).

(* C04: "lookups by name return exactly the entity with that name" *)
Definition GetSignalByNameSpec (s : state2) : Prop :=
  ∀ m nm x, lookup_signal_by_name s m nm = Some x ↔ InMessage s m x ∧ sname s !! x = Some nm.

(* C05: the parent a signal reports (message, multiplexer) lists it, and conversely *)
Definition SignalParentLinks (s : state2) : Prop :=
  (∀ m x, spmsg s !! x = Some m ↔ InMessage s m x) ∧
  (∀ m x, x ∈ refs_of (msigs s) m ↔ InMessage s m x) ∧
  (∀ u x, spmux s !! x = Some u ↔ x ∈ refs_of (xsigs s) u).

(* C05: a signal sits in at most one payload or one multiplexer, and in one message *)
Definition SignalExclusive (s : state2) : Prop :=
  (∀ m x, x ∈ refs_of (mtop s) m → spmux s !! x = None) ∧
  (∀ m1 m2 x, InMessage s m1 x → InMessage s m2 x → m1 = m2) ∧
  (∀ u1 u2 x, x ∈ refs_of (xsigs s) u1 → x ∈ refs_of (xsigs s) u2 → u1 = u2).
