(* C04/C05/C06 — the statements of the properties over the model, as definitions (no proofs here):
   what the theorems of coq/Properties/C04.v, C05.v, C06.v assert for every reachable state. *)
From Acme.C04 Require Export Invariant.

(* ---- lookups by name (the Go Get…ByName functions read the name index, then the id map) ---- *)
Definition lookup_bus_by_name (s : state) (n : handle) (nm : name) : option handle :=
  N ← nets s !! n; n_busNames N !! nm.
Definition lookup_node_by_name (s : state) (b : handle) (nm : name) : option handle :=
  B ← buses s !! b; nd ← b_nodeNames B !! nm; b_nodeInts B !! nd.       (* GetNodeInterfaceByNodeName *)
Definition lookup_sent_by_name (s : state) (i : handle) (nm : name) : option handle :=
  Ii ← ifaces s !! i; i_sentNames Ii !! nm.                             (* GetSentMessageByName *)
Definition lookup_value_by_name (s : state) (e : handle) (nm : name) : option handle :=
  E ← enums s !! e; e_valueNames E !! nm.


(* C04: a lookup by name returns exactly the entity that currently carries the name *)
Definition LookupByNameSpec (s : state) : Prop :=

  (∀ n N nm b, nets s !! n = Some N →
     (lookup_bus_by_name s n nm = Some b ↔ b ∈ n_buses N ∧ ∃ B, buses s !! b = Some B ∧ b_name B = nm)) ∧
  (∀ b B nm i, buses s !! b = Some B →
     (lookup_node_by_name s b nm = Some i ↔
      ∃ nd ND, b_nodeInts B !! nd = Some i ∧ nodes s !! nd = Some ND ∧ nd_name ND = nm)) ∧
  (∀ i Ii nm m, ifaces s !! i = Some Ii →
     (lookup_sent_by_name s i nm = Some m ↔ m ∈ i_sent Ii ∧ ∃ M, msgs s !! m = Some M ∧ m_name M = nm)) ∧
  (∀ e E nm v, enums s !! e = Some E →
     (lookup_value_by_name s e nm = Some v ↔ v ∈ e_values E ∧ ∃ V, evals s !! v = Some V ∧ v_name V = nm)).

(* C04: no two children of a container share a name / identifier *)
Definition KeysUnique (s : state) : Prop :=

  (* network: bus names *)
  (∀ n N b1 b2 B1 B2, nets s !! n = Some N → b1 ∈ n_buses N → b2 ∈ n_buses N →
     buses s !! b1 = Some B1 → buses s !! b2 = Some B2 → b_name B1 = b_name B2 → b1 = b2) ∧
  (* bus: node names and node ids *)
  (∀ b B nd1 nd2 N1 N2, buses s !! b = Some B → is_Some (b_nodeInts B !! nd1) → is_Some (b_nodeInts B !! nd2) →
     nodes s !! nd1 = Some N1 → nodes s !! nd2 = Some N2 →
     (nd_name N1 = nd_name N2 ∨ nd_id N1 = nd_id N2) → nd1 = nd2) ∧
  (* interface: message names, message ids (generated CAN-ID), static CAN-IDs *)
  (∀ i Ii m1 m2 M1 M2, ifaces s !! i = Some Ii → m1 ∈ i_sent Ii → m2 ∈ i_sent Ii →
     msgs s !! m1 = Some M1 → msgs s !! m2 = Some M2 →
     (m_name M1 = m_name M2 ∨
      (m_hasStatic M1 = false ∧ m_hasStatic M2 = false ∧ m_id M1 = m_id M2) ∨
      (m_hasStatic M1 = true ∧ m_hasStatic M2 = true ∧ m_static M1 = m_static M2)) → m1 = m2) ∧
  (* bus: static CAN-IDs over all attached interfaces *)
  (∀ b m1 m2 M1 M2 i1 i2 I1 I2, msgs s !! m1 = Some M1 → msgs s !! m2 = Some M2 →
     m_sender M1 = Some i1 → m_sender M2 = Some i2 → ifaces s !! i1 = Some I1 → ifaces s !! i2 = Some I2 →
     i_parent I1 = Some b → i_parent I2 = Some b → is_Some (buses s !! b) →
     m_hasStatic M1 = true → m_hasStatic M2 = true → m_static M1 = m_static M2 → m1 = m2) ∧
  (* enum: value names and indexes *)
  (∀ e E v1 v2 V1 V2, enums s !! e = Some E → v1 ∈ e_values E → v2 ∈ e_values E →
     evals s !! v1 = Some V1 → evals s !! v2 = Some V2 →
     (v_name V1 = v_name V2 ∨ v_index V1 = v_index V2) → v1 = v2).

(* C05: a child reports a parent exactly when the parent lists the child *)
Definition LinksSymmetric (s : state) : Prop :=

  (∀ n N b, nets s !! n = Some N → (b ∈ n_buses N ↔ ∃ B, buses s !! b = Some B ∧ b_parent B = Some n)) ∧
  (∀ b B i, buses s !! b = Some B →
     ((∃ nd, b_nodeInts B !! nd = Some i) ↔ ∃ Ii, ifaces s !! i = Some Ii ∧ i_parent Ii = Some b)) ∧
  (∀ i Ii m, ifaces s !! i = Some Ii → (m ∈ i_sent Ii ↔ ∃ M, msgs s !! m = Some M ∧ m_sender M = Some i)) ∧
  (∀ i Ii m, ifaces s !! i = Some Ii →
     (m ∈ i_received Ii ↔ ∃ M, msgs s !! m = Some M ∧ m_receivers M !! i_node Ii = Some i)) ∧
  (∀ e E v, enums s !! e = Some E → (v ∈ e_values E ↔ ∃ V, evals s !! v = Some V ∧ v_parent V = Some e)).

(* C05: no entity is listed by two containers of the same kind *)
Definition ContainersExclusive (s : state) : Prop :=

  (∀ n1 n2 N1 N2 b, nets s !! n1 = Some N1 → nets s !! n2 = Some N2 → b ∈ n_buses N1 → b ∈ n_buses N2 → n1 = n2) ∧
  (∀ b1 b2 B1 B2 nd1 nd2 i, buses s !! b1 = Some B1 → buses s !! b2 = Some B2 →
     b_nodeInts B1 !! nd1 = Some i → b_nodeInts B2 !! nd2 = Some i → b1 = b2 ∧ nd1 = nd2) ∧
  (∀ i1 i2 I1 I2 m, ifaces s !! i1 = Some I1 → ifaces s !! i2 = Some I2 → m ∈ i_sent I1 → m ∈ i_sent I2 → i1 = i2) ∧
  (∀ e1 e2 E1 E2 v, enums s !! e1 = Some E1 → enums s !! e2 = Some E2 → v ∈ e_values E1 → v ∈ e_values E2 → e1 = e2).

(* C05: a node's interfaces are numbered 0..n-1 in order *)
Definition NodeInterfacesContiguous (s : state) : Prop :=
  ∀ nd ND, nodes s !! nd = Some ND →
  nd_count ND = Z.of_nat (length (nd_ifaces ND)) ∧
  ∀ k, (k < length (nd_ifaces ND))%nat →
    ∃ i Ii, nd_ifaces ND !! k = Some i ∧ ifaces s !! i = Some Ii ∧ i_node Ii = nd ∧ i_number Ii = Z.of_nat k.
