(* C04/C05/C06 — the statements of the properties over the model, as definitions (no proofs here):
   what the theorems of coq/Properties/C04.v, C05.v, C06.v assert for every reachable state. *)
From Acme.C04 Require Export Invariant.

(* ---- lookups by name (the Go Get…ByName functions read the name index, then the id map) ---- *)
Definition lookup_bus_by_name (s : state) (n : handle) (nm : name) : option handle :=
  N ← nets s !! n; n_busNames N !! nm.
Definition lookup_node_by_name (s : state) (b : handle) (nm : name) : option handle :=
  B ← buses s !! b; nd ← b_nodeNames B !! nm; b_nodeInts B !! nd.       (* GetNodeInterfaceByNodeName *)
Definition lookup_sent_by_name (s : state) (i : handle) (nm : name) : option handle :=
  Ii ← ifaces s !! i; i_sentNames Ii !! nm.                             (* GetSentMessageByName *)
Definition lookup_value_by_name (s : state) (e : handle) (nm : name) : option handle :=
  E ← enums s !! e; e_valueNames E !! nm.


(* C04: a lookup by name returns exactly the entity that currently carries the name *)
Definition LookupByNameSpec (s : state) : Prop :=

  (∀ n N nm b, nets s !! n = Some N →
     (lookup_bus_by_name s n nm = Some b ↔ b ∈ n_buses N ∧ ∃ B, buses s !! b = Some B ∧ b_name B = nm)) ∧
  (∀ b B nm i, buses s !! b = Some B →
     (lookup_node_by_name s b nm = Some i ↔
      ∃ nd ND, b_nodeInts B !! nd = Some i ∧ nodes s !! nd = Some ND ∧ nd_name ND = nm)) ∧
  (∀ i Ii nm m, ifaces s !! i = Some Ii →
     (lookup_sent_by_name s i nm = Some m ↔ m ∈ i_sent Ii ∧ ∃ M, msgs s !! m = Some M ∧ m_name M = nm)) ∧
  (∀ e E nm v, enums s !! e = Some E →
     (lookup_value_by_name s e nm = Some v ↔ v ∈ e_values E ∧ ∃ V, evals s !! v = Some V ∧ v_name V = nm)).

(* C04: no two children of a container share a name / identifier *)
Definition KeysUnique (s : state) : Prop :=

  (* network: bus names *)
  (∀ n N b1 b2 B1 B2, nets s !! n = Some N → b1 ∈ n_buses N → b2 ∈ n_buses N →
     buses s !! b1 = Some B1 → buses s !! b2 = Some B2 → b_name B1 = b_name B2 → b1 = b2) ∧
  (* bus: node names and node ids *)
  (∀ b B nd1 nd2 N1 N2, buses s !! b = Some B → is_Some (b_nodeInts B !! nd1) → is_Some (b_nodeInts B !! nd2) →
     nodes s !! nd1 = Some N1 → nodes s !! nd2 = Some N2 →
     (nd_name N1 = nd_name N2 ∨ nd_id N1 = nd_id N2) → nd1 = nd2) ∧
  (* interface: message names, message ids (generated CAN-ID), static CAN-IDs *)
  (∀ i Ii m1 m2 M1 M2, ifaces s !! i = Some Ii → m1 ∈ i_sent Ii → m2 ∈ i_sent Ii →
     msgs s !! m1 = Some M1 → msgs s !! m2 = Some M2 →
     (m_name M1 = m_name M2 ∨
      (m_hasStatic M1 = false ∧ m_hasStatic M2 = false ∧ m_id M1 = m_id M2) ∨
      (m_hasStatic M1 = true ∧ m_hasStatic M2 = true ∧ m_static M1 = m_static M2)) → m1 = m2) ∧
  (* bus: static CAN-IDs over all attached interfaces *)
  (∀ b m1 m2 M1 M2 i1 i2 I1 I2, msgs s !! m1 = Some M1 → msgs s !! m2 = Some M2 →
     m_sender M1 = Some i1 → m_sender M2 = Some i2 → ifaces s !! i1 = Some I1 → ifaces s !! i2 = Some I2 →
     i_parent I1 = Some b → i_parent I2 = Some b → is_Some (buses s !! b) →
     m_hasStatic M1 = true → m_hasStatic M2 = true → m_static M1 = m_static M2 → m1 = m2) ∧
  (* enum: value names and indexes *)
  (∀ e E v1 v2 V1 V2, enums s !! e = Some E → v1 ∈ e_values E → v2 ∈ e_values E →
     evals s !! v1 = Some V1 → evals s !! v2 = Some V2 →
     (v_name V1 = v_name V2 ∨ v_index V1 = v_index V2) → v1 = v2).

(* C05: a child reports a parent exactly when the parent lists the child *)
Definition LinksSymmetric (s : state) : Prop :=

  (∀ n N b, nets s !! n = Some N → (b ∈ n_buses N ↔ ∃ B, buses s !! b = Some B ∧ b_parent B = Some n)) ∧
  (∀ b B i, buses s !! b = Some B →
     ((∃ nd, b_nodeInts B !! nd = Some i) ↔ ∃ Ii, ifaces s !! i = Some Ii ∧ i_parent Ii = Some b)) ∧
  (∀ i Ii m, ifaces s !! i = Some Ii → (m ∈ i_sent Ii ↔ ∃ M, msgs s !! m = Some M ∧ m_sender M = Some i)) ∧
  (∀ i Ii m, ifaces s !! i = Some Ii →
     (m ∈ i_received Ii ↔ ∃ M, msgs s !! m = Some M ∧ m_receivers M !! i_node Ii = Some i)) ∧
  (∀ e E v, enums s !! e = Some E → (v ∈ e_values E ↔ ∃ V, evals s !! v = Some V ∧ v_parent V = Some e)).

(* C05: no entity is listed by two containers of the same kind *)
Definition ContainersExclusive (s : state) : Prop :=

  (∀ n1 n2 N1 N2 b, nets s !! n1 = Some N1 → nets s !! n2 = Some N2 → b ∈ n_buses N1 → b ∈ n_buses N2 → n1 = n2) ∧
  (∀ b1 b2 B1 B2 nd1 nd2 i, buses s !! b1 = Some B1 → buses s !! b2 = Some B2 →
     b_nodeInts B1 !! nd1 = Some i → b_nodeInts B2 !! nd2 = Some i → b1 = b2 ∧ nd1 = nd2) ∧
  (∀ i1 i2 I1 I2 m, ifaces s !! i1 = Some I1 → ifaces s !! i2 = Some I2 → m ∈ i_sent I1 → m ∈ i_sent I2 → i1 = i2) ∧
  (∀ e1 e2 E1 E2 v, enums s !! e1 = Some E1 → enums s !! e2 = Some E2 → v ∈ e_values E1 → v ∈ e_values E2 → e1 = e2).

(* C05: a node's interfaces are numbered 0..n-1 in order *)
Definition NodeInterfacesContiguous (s : state) : Prop :=
  ∀ nd ND, nodes s !! nd = Some ND →
  nd_count ND = Z.of_nat (length (nd_ifaces ND)) ∧
  ∀ k, (k < length (nd_ifaces ND))%nat →
    ∃ i Ii, nd_ifaces ND !! k = Some i ∧ ifaces s !! i = Some Ii ∧ i_node Ii = nd ∧ i_number Ii = Z.of_nat k.

(* ---- C06: documented preconditions and causes, written from the doc comments of the Go methods
   in terms of the *contents* (children listed by the containers and the fields of the children),
   never in terms of the uniqueness indexes -------------------------------------------------------- *)
Section decl.
  Context (s : state).
  Local Open Scope Z_scope.

  (* some bus of network [n] is named [nm] *)
  Definition net_has_bus_named (n : handle) (nm : name) : Prop :=
    ∃ N b B, nets s !! n = Some N ∧ b ∈ n_buses N ∧ buses s !! b = Some B ∧ b_name B = nm.
  (* some node attached to bus [b] is named [nm] / has id [id] *)
  Definition bus_has_node_named (b : handle) (nm : name) : Prop :=
    ∃ B nd i ND, buses s !! b = Some B ∧ b_nodeInts B !! nd = Some i ∧ nodes s !! nd = Some ND ∧ nd_name ND = nm.
  Definition bus_has_node_id (b : handle) (id : Z) : Prop :=
    ∃ B nd i ND, buses s !! b = Some B ∧ b_nodeInts B !! nd = Some i ∧ nodes s !! nd = Some ND ∧ nd_id ND = id.
  (* some message sent by interface [i] … *)
  Definition iface_sends (i : handle) (P : msg_rec → Prop) : Prop :=
    ∃ Ii m M, ifaces s !! i = Some Ii ∧ m ∈ i_sent Ii ∧ msgs s !! m = Some M ∧ P M.
  (* some message sent on bus [b] … *)
  Definition bus_carries (b : handle) (P : msg_rec → Prop) : Prop :=
    ∃ B nd i, buses s !! b = Some B ∧ b_nodeInts B !! nd = Some i ∧ iface_sends i P.
  Definition has_static (c : Z) (M : msg_rec) : Prop := m_hasStatic M = true ∧ m_static M = c.
  Definition has_plain_id (id : Z) (M : msg_rec) : Prop := m_hasStatic M = false ∧ m_id M = id.
  (* some value of enum [e] … *)
  Definition enum_has_value (e : handle) (P : eval_rec → Prop) : Prop :=
    ∃ E v V, enums s !! e = Some E ∧ v ∈ e_values E ∧ evals s !! v = Some V ∧ P V.

  (* the explicit handle arguments denote entities of the right kind *)
  Definition wf (o : op) : Prop :=
    match o with
    | NewNetwork | NewBus _ | NewNode _ _ _ | NewMessage _ _ _ | NewEnum | NewEnumValue _ _ | NewOther => True
    | NetAddBus n ob => is_Some (nets s !! n) ∧ ∀ b, ob = Some b → is_Some (buses s !! b)
    | NetRemoveBus n _ | NetRemoveAllBuses n => is_Some (nets s !! n)
    | BusUpdateName b _ | BusRemoveNodeInterface b _ | BusRemoveAllNodeInterfaces b => is_Some (buses s !! b)
    | BusAddNodeInterface b oi => is_Some (buses s !! b) ∧ ∀ i, oi = Some i → is_Some (ifaces s !! i)
    | NodeUpdateName nd _ | NodeUpdateID nd _ | NodeAddInterface nd | NodeRemoveInterface nd _ => is_Some (nodes s !! nd)
    | IfAddSent i om | IfAddReceived i om => is_Some (ifaces s !! i) ∧ ∀ m, om = Some m → is_Some (msgs s !! m)
    | IfRemoveSent i _ | IfRemoveAllSent i | IfRemoveReceived i _ | IfRemoveAllReceived i => is_Some (ifaces s !! i)
    | MsgUpdateName m _ | MsgUpdateID m _ | MsgSetStatic m _ | MsgRemoveReceiver m _ => is_Some (msgs s !! m)
    | MsgAddReceiver m oi => is_Some (msgs s !! m) ∧ ∀ i, oi = Some i → is_Some (ifaces s !! i)
    | EnumAddValue e ov _ => is_Some (enums s !! e) ∧ ∀ v, ov = Some v → is_Some (evals s !! v)
    | EnumRemoveValue e _ | EnumRemoveAllValues e => is_Some (enums s !! e)
    | EvalUpdateName v _ | EvalUpdateIndex v _ _ => is_Some (evals s !! v)
    end.

  (* [viol o (c, w)]: a documented precondition of [o] is violated and [c] (with innermost typed
     wrapper [w]) is the documented cause *)
  Definition viol (o : op) (cw : cause * wrap) : Prop :=
    match o with
    | NetAddBus n ob =>
        (ob = None ∧ cw = (Nil, WArgument)) ∨
        (∃ b B, ob = Some b ∧ buses s !! b = Some B ∧ net_has_bus_named n (b_name B) ∧ cw = (Duplicated, WName))
    | NetRemoveBus n key => (∀ N, nets s !! n = Some N → key ∉ n_buses N) ∧ cw = (NotFound, WRemoveEntity)
    | BusUpdateName b new =>
        ∃ B n, buses s !! b = Some B ∧ b_name B ≠ new ∧ b_parent B = Some n ∧ net_has_bus_named n new ∧
               cw = (Duplicated, WUpdateName)
    | BusAddNodeInterface b oi =>
        (oi = None ∧ cw = (Nil, WArgument)) ∨
        (∃ i Ii ND, oi = Some i ∧ ifaces s !! i = Some Ii ∧ nodes s !! i_node Ii = Some ND ∧
           ((bus_has_node_named b (nd_name ND) ∧ cw = (Duplicated, WName)) ∨
            (bus_has_node_id b (nd_id ND) ∧ cw = (Duplicated, WNodeID)) ∨
            ((∃ B, buses s !! b = Some B ∧ iface_sends i (λ M, too_big B (m_size M) = true)) ∧ cw = (TooBig, WMessageSize)) ∨
            (iface_sends i (λ M, m_hasStatic M = true ∧ bus_carries b (has_static (m_static M))) ∧
             cw = (Duplicated, WCANID))))
    | BusRemoveNodeInterface b key =>
        (∀ B, buses s !! b = Some B → b_nodeInts B !! key = None) ∧ cw = (NotFound, WRemoveEntity)
    | NodeUpdateName nd new =>
        ∃ ND i Ii b, nodes s !! nd = Some ND ∧ nd_name ND ≠ new ∧ i ∈ nd_ifaces ND ∧ ifaces s !! i = Some Ii ∧
                     i_parent Ii = Some b ∧ bus_has_node_named b new ∧ cw = (Duplicated, WName)
    | NodeUpdateID nd new =>
        ∃ ND i Ii b, nodes s !! nd = Some ND ∧ nd_id ND ≠ new ∧ i ∈ nd_ifaces ND ∧ ifaces s !! i = Some Ii ∧
                     i_parent Ii = Some b ∧ bus_has_node_id b new ∧ cw = (Duplicated, WNodeID)
    | NodeRemoveInterface nd k =>
        (k < 0 ∧ cw = (Negative, WArgument)) ∨
        (∃ ND, nodes s !! nd = Some ND ∧ Z.of_nat (length (nd_ifaces ND)) ≤ k ∧ cw = (OutOfBounds, WArgument))
    | IfAddSent i om =>
        (om = None ∧ cw = (Nil, WArgument)) ∨
        (∃ m M Ii, om = Some m ∧ msgs s !! m = Some M ∧ ifaces s !! i = Some Ii ∧
           ((iface_sends i (λ M', m_name M' = m_name M) ∧ cw = (Duplicated, WName)) ∨
            ((∃ b B, i_parent Ii = Some b ∧ buses s !! b = Some B ∧ too_big B (m_size M) = true) ∧ cw = (TooBig, WMessageSize)) ∨
            (m_hasStatic M = true ∧ iface_sends i (has_static (m_static M)) ∧ cw = (Duplicated, WCANID)) ∨
            (m_hasStatic M = true ∧ (∃ b, i_parent Ii = Some b ∧ bus_carries b (has_static (m_static M))) ∧
             cw = (Duplicated, WCANID)) ∨
            (m_hasStatic M = false ∧ iface_sends i (has_plain_id (m_id M)) ∧ cw = (Duplicated, WMessageID))))
    | IfRemoveSent i key => (∀ Ii, ifaces s !! i = Some Ii → key ∉ i_sent Ii) ∧ cw = (NotFound, WRemoveEntity)
    | IfAddReceived i om =>
        (om = None ∧ cw = (Nil, WArgument)) ∨
        (∃ m Ii, om = Some m ∧ ifaces s !! i = Some Ii ∧ m ∈ i_sent Ii ∧ cw = (ReceiverIsSender, WAddEntity))
    | MsgAddReceiver m oi =>
        (oi = None ∧ cw = (Nil, WArgument)) ∨
        (∃ i Ii, oi = Some i ∧ ifaces s !! i = Some Ii ∧ m ∈ i_sent Ii ∧ cw = (ReceiverIsSender, WAddEntity))
    | IfRemoveReceived i key => (∀ Ii, ifaces s !! i = Some Ii → key ∉ i_received Ii) ∧ cw = (NotFound, WRemoveEntity)
    | MsgRemoveReceiver m key =>
        (∀ M, msgs s !! m = Some M → m_receivers M !! key = None) ∧ cw = (NotFound, WRemoveEntity)
    | MsgUpdateName m new =>
        ∃ M i, msgs s !! m = Some M ∧ m_name M ≠ new ∧ m_sender M = Some i ∧
               iface_sends i (λ M', m_name M' = new) ∧ cw = (Duplicated, WName)
    | MsgUpdateID m new =>
        ∃ M i, msgs s !! m = Some M ∧ ¬ (m_id M = new ∧ m_hasStatic M = false) ∧ m_sender M = Some i ∧
               iface_sends i (has_plain_id new) ∧ cw = (Duplicated, WMessageID)
    | MsgSetStatic m c =>
        ∃ M i Ii, msgs s !! m = Some M ∧ m_sender M = Some i ∧ ifaces s !! i = Some Ii ∧
          (iface_sends i (has_static c) ∨ ∃ b, i_parent Ii = Some b ∧ bus_carries b (has_static c)) ∧
          cw = (Duplicated, WCANID)
    | EnumAddValue e ov fits =>
        (ov = None ∧ cw = (Nil, WArgument)) ∨
        (∃ v V E, ov = Some v ∧ evals s !! v = Some V ∧ enums s !! e = Some E ∧
           ((enum_has_value e (λ V', v_index V' = v_index V) ∧ cw = (Duplicated, WAddEntity)) ∨
            (e_maxIndex E < v_index V ∧ fits = false ∧ cw = (Layout, WValueIndex)) ∨
            (enum_has_value e (λ V', v_name V' = v_name V) ∧ cw = (Duplicated, WName))))
    | EnumRemoveValue e key => (∀ E, enums s !! e = Some E → key ∉ e_values E) ∧ cw = (NotFound, WRemoveEntity)
    | EvalUpdateName v new =>
        ∃ V e, evals s !! v = Some V ∧ v_name V ≠ new ∧ v_parent V = Some e ∧
               enum_has_value e (λ V', v_name V' = new) ∧ cw = (Duplicated, WName)
    | EvalUpdateIndex v new fits =>
        ∃ V e E, evals s !! v = Some V ∧ v_index V ≠ new ∧ v_parent V = Some e ∧ enums s !! e = Some E ∧
          ((enum_has_value e (λ V', v_index V' = new) ∧ cw = (Duplicated, WUpdateIndex)) ∨
           (e_maxIndex E < new ∧ fits = false ∧ cw = (Layout, WValueIndex)))
    | _ => False
    end.

  (* the documented precondition: well-formed arguments and no violation *)
  Definition pre (o : op) : Prop := wf o ∧ ∀ cw, ¬ viol o cw.
  (* a documented cause of refusal *)
  Definition doc_cause (o : op) (cw : cause * wrap) : Prop := viol o cw ∨ (¬ wf o ∧ cw = (BadHandle, WNone)).
End decl.

(* C06: the result of every call is determined by the documented precondition *)
Definition StepSpec (s : state) (o : op) : Prop :=
  match (step s o).2 with
  | Ok => pre s o
  | Err cs => cs ≠ [] ∧ ∀ cw, cw ∈ cs → doc_cause s o cw
  end.

(* ---- coverage of the operation alphabet (DESIGN Appendix A, constructors and link / registry
   mutators: the operations that can touch I1–I10) -------------------------------------------------
   [inv_step] is proved for the operations the model has ([op], Step.v). The full statement is
   "every operation of the alphabet is modelled and preserves the invariant"; the operations on
   signals inside messages / multiplexers (layer 2: I1, I2) and on shared definitions (layer 3: I8)
   are not modelled yet — they are covered by the Go-side predicates of the harness only. *)
Inductive mutator :=
  (* modelled (layer 1) *)
  | M_NewNetwork | M_NewBus | M_NewNode | M_NewMessage | M_NewSignalEnum | M_NewSignalEnumValue
  | M_Network_AddBus | M_Network_RemoveBus | M_Network_RemoveAllBuses
  | M_Bus_UpdateName | M_Bus_AddNodeInterface | M_Bus_RemoveNodeInterface | M_Bus_RemoveAllNodeInterfaces
  | M_Node_UpdateName | M_Node_UpdateID | M_Node_AddInterface | M_Node_RemoveInterface
  | M_NodeInterface_AddSentMessage | M_NodeInterface_RemoveSentMessage | M_NodeInterface_RemoveAllSentMessages
  | M_NodeInterface_AddReceivedMessage | M_NodeInterface_RemoveReceivedMessage
  | M_NodeInterface_RemoveAllReceivedMessages
  | M_Message_UpdateName | M_Message_UpdateID | M_Message_SetStaticCANID | M_Message_AddReceiver
  | M_Message_RemoveReceiver
  | M_SignalEnum_AddValue | M_SignalEnum_RemoveValue | M_SignalEnum_RemoveAllValues
  | M_SignalEnumValue_UpdateName | M_SignalEnumValue_UpdateIndex
  (* layer 2: signals by name inside messages and multiplexers *)
  | M_NewStandardSignal | M_NewEnumSignal | M_NewMultiplexerSignal
  | M_Message_AppendSignal | M_Message_InsertSignal | M_Message_RemoveSignal | M_Message_RemoveAllSignals
  | M_Signal_UpdateName
  | M_MultiplexerSignal_InsertSignal | M_MultiplexerSignal_RemoveSignal | M_MultiplexerSignal_ClearSignalGroup
  | M_MultiplexerSignal_ClearAllSignalGroups
  (* layer 3: references *)
  | M_NewSignalType | M_NewSignalUnit | M_NewAttribute | M_NewCANIDBuilder | M_Clone
  | M_StandardSignal_SetType | M_StandardSignal_SetUnit | M_EnumSignal_SetEnum
  | M_AssignAttribute | M_RemoveAttributeAssignment | M_RemoveAllAttributeAssignments
  | M_Bus_SetCANIDBuilder
  (* size of a message / type of a bus: what the size limit of an attach is about *)
  | M_Message_UpdateSizeByte | M_Bus_SetType.

Definition all_mutators : list mutator :=
  [ M_NewNetwork; M_NewBus; M_NewNode; M_NewMessage; M_NewSignalEnum; M_NewSignalEnumValue;
    M_Network_AddBus; M_Network_RemoveBus; M_Network_RemoveAllBuses;
    M_Bus_UpdateName; M_Bus_AddNodeInterface; M_Bus_RemoveNodeInterface; M_Bus_RemoveAllNodeInterfaces;
    M_Node_UpdateName; M_Node_UpdateID; M_Node_AddInterface; M_Node_RemoveInterface;
    M_NodeInterface_AddSentMessage; M_NodeInterface_RemoveSentMessage; M_NodeInterface_RemoveAllSentMessages;
    M_NodeInterface_AddReceivedMessage; M_NodeInterface_RemoveReceivedMessage;
    M_NodeInterface_RemoveAllReceivedMessages;
    M_Message_UpdateName; M_Message_UpdateID; M_Message_SetStaticCANID; M_Message_AddReceiver;
    M_Message_RemoveReceiver;
    M_SignalEnum_AddValue; M_SignalEnum_RemoveValue; M_SignalEnum_RemoveAllValues;
    M_SignalEnumValue_UpdateName; M_SignalEnumValue_UpdateIndex;
    M_NewStandardSignal; M_NewEnumSignal; M_NewMultiplexerSignal;
    M_Message_AppendSignal; M_Message_InsertSignal; M_Message_RemoveSignal; M_Message_RemoveAllSignals;
    M_Signal_UpdateName;
    M_MultiplexerSignal_InsertSignal; M_MultiplexerSignal_RemoveSignal; M_MultiplexerSignal_ClearSignalGroup;
    M_MultiplexerSignal_ClearAllSignalGroups;
    M_NewSignalType; M_NewSignalUnit; M_NewAttribute; M_NewCANIDBuilder; M_Clone;
    M_StandardSignal_SetType; M_StandardSignal_SetUnit; M_EnumSignal_SetEnum;
    M_AssignAttribute; M_RemoveAttributeAssignment; M_RemoveAllAttributeAssignments;
    M_Bus_SetCANIDBuilder; M_Message_UpdateSizeByte; M_Bus_SetType ].

(* the model operation(s) of a mutator, given sample arguments; [None]: not modelled *)
Definition model_op (m : mutator) : option op :=
  let h := 1%positive in
  match m with
  | M_NewNetwork => Some NewNetwork | M_NewBus => Some (NewBus 0%N) | M_NewNode => Some (NewNode 0%N 0%Z 0)
  | M_NewMessage => Some (NewMessage 0%N 0%Z 0%Z) | M_NewSignalEnum => Some NewEnum
  | M_NewSignalEnumValue => Some (NewEnumValue 0%N 0%Z)
  | M_Network_AddBus => Some (NetAddBus h None) | M_Network_RemoveBus => Some (NetRemoveBus h h)
  | M_Network_RemoveAllBuses => Some (NetRemoveAllBuses h)
  | M_Bus_UpdateName => Some (BusUpdateName h 0%N) | M_Bus_AddNodeInterface => Some (BusAddNodeInterface h None)
  | M_Bus_RemoveNodeInterface => Some (BusRemoveNodeInterface h h)
  | M_Bus_RemoveAllNodeInterfaces => Some (BusRemoveAllNodeInterfaces h)
  | M_Node_UpdateName => Some (NodeUpdateName h 0%N) | M_Node_UpdateID => Some (NodeUpdateID h 0%Z)
  | M_Node_AddInterface => Some (NodeAddInterface h) | M_Node_RemoveInterface => Some (NodeRemoveInterface h 0%Z)
  | M_NodeInterface_AddSentMessage => Some (IfAddSent h None)
  | M_NodeInterface_RemoveSentMessage => Some (IfRemoveSent h h)
  | M_NodeInterface_RemoveAllSentMessages => Some (IfRemoveAllSent h)
  | M_NodeInterface_AddReceivedMessage => Some (IfAddReceived h None)
  | M_NodeInterface_RemoveReceivedMessage => Some (IfRemoveReceived h h)
  | M_NodeInterface_RemoveAllReceivedMessages => Some (IfRemoveAllReceived h)
  | M_Message_UpdateName => Some (MsgUpdateName h 0%N) | M_Message_UpdateID => Some (MsgUpdateID h 0%Z)
  | M_Message_SetStaticCANID => Some (MsgSetStatic h 0%Z) | M_Message_AddReceiver => Some (MsgAddReceiver h None)
  | M_Message_RemoveReceiver => Some (MsgRemoveReceiver h h)
  | M_SignalEnum_AddValue => Some (EnumAddValue h None true) | M_SignalEnum_RemoveValue => Some (EnumRemoveValue h h)
  | M_SignalEnum_RemoveAllValues => Some (EnumRemoveAllValues h)
  | M_SignalEnumValue_UpdateName => Some (EvalUpdateName h 0%N)
  | M_SignalEnumValue_UpdateIndex => Some (EvalUpdateIndex h 0%Z true)
  | _ => None
  end.

Definition covered_mutators : list mutator := filter (λ m, bool_decide (is_Some (model_op m))) all_mutators.

(* FULL STATEMENT (not proved): every mutator of the alphabet is modelled, so that [inv_step]
   speaks about all of them *)
Definition inv_step_full_statement : Prop := ∀ m, m ∈ all_mutators → is_Some (model_op m).
