(* C04 — the operation alphabet of DESIGN Appendix A in terms of the layer-2 model: every mutator has
   a model operation (sample arguments).  Message.AppendSignal and Message.InsertSignal are one model
   operation (the position is geometry: oracle bit); the constructors of definitions without children
   (types, units, attributes, CAN-ID builders) and Clone of those only consume a handle; SignalEnum.Clone and
   SignalEnumValue.Clone are the operations EnumClone / EvalClone.
   Definitions only. *)
From Acme.C04 Require Export Spec RegInv.

Definition model_op2 (m : mutator) : option op2 :=
  let h := 1%positive in
  match model_op m with
  | Some o => Some (L3 (L1 o))
  | None =>
    match m with
    | M_NewStandardSignal => Some (NewStd2 0%N None) | M_NewEnumSignal => Some (NewEnum2 0%N None)
    | M_NewMultiplexerSignal => Some (NewMux2 0%N 1%Z 1%Z)
    | M_Message_AppendSignal | M_Message_InsertSignal => Some (MsgAttach h None true)
    | M_Message_RemoveSignal => Some (MsgRemoveSignal h h)
    | M_Message_RemoveAllSignals => Some (MsgRemoveAllSignals h)
    | M_Signal_UpdateName => Some (SigUpdateName h 0%N)
    | M_MultiplexerSignal_InsertSignal => Some (MuxInsert h None true [])
    | M_MultiplexerSignal_RemoveSignal => Some (MuxRemove h h)
    | M_MultiplexerSignal_ClearSignalGroup => Some (MuxClearGroup h 0%Z)
    | M_MultiplexerSignal_ClearAllSignalGroups => Some (MuxClearAll h)
    | M_NewSignalType | M_NewSignalUnit | M_NewCANIDBuilder => Some (L3 (L1 NewOther))
    | M_NewAttribute => Some (L3 (NewAttr AString))
    | M_Clone => Some (EnumClone h)   (* Clone of a definition without children only consumes a handle (NewOther); SignalEnumValue.Clone is EvalClone *)
    | M_StandardSignal_SetType => Some (L3 (StdSetType h None true))
    | M_StandardSignal_SetUnit => Some (L3 (StdSetUnit h None))
    | M_EnumSignal_SetEnum => Some (L3 (EnumSetEnum h None true))
    | M_AssignAttribute => Some (L3 (Assign h None VOther))
    | M_RemoveAttributeAssignment => Some (L3 (RemoveAssign h h))
    | M_RemoveAllAttributeAssignments => Some (L3 (RemoveAllAssign h))
    | M_Bus_SetCANIDBuilder => Some (L3 (BusSetBuilder h None))
    | M_Message_UpdateSizeByte => Some (MsgResize h 8%Z true)
    | M_Bus_SetType => Some (BusSetType h 0%Z)
    | _ => None
    end
  end.

(* every mutator of the alphabet is modelled by [step2] *)
Definition inv2_step_full_statement : Prop := ∀ m, m ∈ all_mutators → is_Some (model_op2 m).

(* every property statement of C04 and C05 about one state of the three-layer model, for other streams
   to cite: uniqueness of all keys, lookups by name, containment links in both directions and
   exclusive, interface numbering, exact references, and the same for signals in messages and
   multiplexers at any depth *)
Definition ModelInvariants (s : state2) : Prop :=
  let b := base (l3 s) in
  KeysUnique b ∧ LookupByNameSpec b ∧ LinksSymmetric b ∧ ContainersExclusive b ∧ NodeInterfacesContiguous b ∧
  ReferencesExact (l3 s) ∧
  SignalNamesUnique s ∧ GetSignalByNameSpec s ∧ SignalParentLinks s ∧ SignalExclusive s.
