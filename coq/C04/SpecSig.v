(* C06 — documented preconditions of the operations of layers 3 and 2, written on the contents
   (the signals reachable from the payload of a message: [InMessage]; the signals a multiplexer
   holds; the assignments of an entity), never on the name indexes.  Same shape as Spec.v:
   [wf] (the handle arguments denote entities of the right kind), [viol] (a documented precondition
   is violated, with the documented cause), [pre], [doc_cause], [StepSpec].
   Payload geometry is an oracle argument of the operations ([fits]); the value check of an attribute
   assignment is derived from the modelled kind and range of the attribute ([attr_verr]); the one geometric fact the model decides itself is "a multiplexer only fits a strictly
   larger group".  Definitions only. *)
From Acme.C04 Require Export Spec RegInv.

(* ---- layer 3 -------------------------------------------------------------------------------------- *)
Definition wf3 (s : state3) (o : op3) : Prop :=
  match o with
  | L1 o => Spec.wf (base s) o
  | StdSetType sg _ _ | StdSetUnit sg _ => ∃ G, sigs s !! sg = Some G ∧ sg_kind G = SStd
  | EnumSetEnum sg _ _ => ∃ G, sigs s !! sg = Some G ∧ sg_kind G = SEnum
  | Assign _ oa _ => ∀ a, oa = Some a → is_Some (attrs s !! a)
  | AttrClone a => is_Some (attrs s !! a)
  | _ => True
  end.

Definition viol3 (s : state3) (o : op3) (cw : cause * wrap) : Prop :=
  match o with
  | L1 o => Spec.viol (base s) o cw
  | NewStdSignal oh | NewEnumSignal oh => oh = None ∧ cw = (Nil, WArgument)
  | StdSetType _ oh fits | EnumSetEnum _ oh fits =>
      (oh = None ∧ cw = (Nil, WArgument)) ∨ (is_Some oh ∧ fits = false ∧ cw = (Layout, WNone))
  | Assign _ oa v =>
      (* nil attribute; or the value does not have the type of the attribute (InvalidType), lies outside
         its range (OutOfBounds), is not one of the values of an enum attribute (NotFound): attr_verr *)
      (oa = None ∧ cw = (Nil, WArgument)) ∨
      (∃ a k c, oa = Some a ∧ attrs s !! a = Some k ∧ attr_verr k v = Some c ∧ cw = (c, WAttributeValue))
  | RemoveAssign ent key => key ∉ refs_of (assigns s) ent ∧ cw = (NotFound, WNone)
  | _ => False
  end.

Definition pre3 (s : state3) (o : op3) : Prop := wf3 s o ∧ ∀ cw, ¬ viol3 s o cw.
Definition doc_cause3 (s : state3) (o : op3) (cw : cause * wrap) : Prop :=
  viol3 s o cw ∨ (¬ wf3 s o ∧ cw = (BadHandle, WNone)).
Definition StepSpec3 (s : state3) (o : op3) : Prop :=
  match (step3 s o).2 with
  | Ok => pre3 s o
  | Err cs => cs ≠ [] ∧ ∀ cw, cw ∈ cs → doc_cause3 s o cw
  end.

(* ---- layer 2 -------------------------------------------------------------------------------------- *)
Section decl2.
  Context (s : state2).

  (* some signal of message [m] (at any depth) / some signal held by multiplexer [u] carries [nm] *)
  Definition msg_has_signal_named (m : handle) (nm : name) : Prop :=
    ∃ y, InMessage s m y ∧ sname s !! y = Some nm.
  Definition mux_holds_named (u : handle) (nm : name) : Prop :=
    ∃ y, y ∈ refs_of (xsigs s) u ∧ sname s !! y = Some nm.

  (* the names of the signals an incoming multiplexer [x] holds (at any depth) clash among
     themselves or with another signal of message [m] (Message.verifyNestedSignalNames) *)
  Definition nested_clash (m x : handle) : Prop :=
    ¬ NoDup (name_of s <$> desc s x) ∨
    ∃ d y, d ∈ desc s x ∧ d ≠ x ∧ y ≠ d ∧ InMessage s m y ∧ sname s !! y = sname s !! d.

  Definition wf2 (o : op2) : Prop :=
    match o with
    | L3 o => wf3 (l3 s) o
    | NewStd2 _ _ | NewEnum2 _ _ | NewMux2 _ _ _ => True
    | MsgAttach m os _ => is_Some (msgs (base (l3 s)) !! m) ∧ ∀ x, os = Some x → is_Some (sname s !! x)
    | MsgRemoveSignal m _ | MsgRemoveAllSignals m => is_Some (msgs (base (l3 s)) !! m)
    | SigUpdateName x _ => is_Some (sname s !! x)
    | MuxInsert u os _ _ => is_Some (xshape s !! u) ∧ ∀ x, os = Some x → is_Some (sname s !! x)
    | MuxRemove u _ | MuxClearGroup u _ | MuxClearAll u => is_Some (xshape s !! u)
    | EnumClone e => is_Some (enums (base (l3 s)) !! e)
    | EvalClone v => is_Some (evals (base (l3 s)) !! v)
    | MsgResize m _ _ => is_Some (msgs (base (l3 s)) !! m)
    | BusSetType b _ => is_Some (buses (base (l3 s)) !! b)
    end.

  Definition viol2 (o : op2) (cw : cause * wrap) : Prop :=
    match o with
    | L3 o => viol3 (l3 s) o cw
    | NewStd2 _ oh | NewEnum2 _ oh => oh = None ∧ cw = (Nil, WArgument)
    | NewMux2 _ c g =>
        (c = 0 ∧ cw = (Zero, WArgument)) ∨ (c < 0 ∧ cw = (Negative, WArgument)) ∨
        (g = 0 ∧ cw = (Zero, WArgument)) ∨ (g < 0 ∧ cw = (Negative, WArgument))
    | MsgAttach m os fits =>
        (os = None ∧ cw = (Nil, WArgument)) ∨
        (∃ x nm, os = Some x ∧ sname s !! x = Some nm ∧
           ((msg_has_signal_named m nm ∧ cw = (Duplicated, WName)) ∨
            (nested_clash m x ∧ cw = (Duplicated, WName)) ∨
            (fits = false ∧ cw = (Layout, WNone))))
    | MsgRemoveSignal m key => ¬ InMessage s m key ∧ cw = (NotFound, WRemoveEntity)
    | SigUpdateName x new =>
        ∃ old, sname s !! x = Some old ∧ old ≠ new ∧
          ((∃ u, spmux s !! x = Some u ∧ mux_holds_named u new) ∨
           (∃ m, spmsg s !! x = Some m ∧ msg_has_signal_named m new)) ∧ cw = (Duplicated, WName)
    | MuxInsert u os fits ids =>
        (os = None ∧ cw = (Nil, WArgument)) ∨
        (∃ x nm, os = Some x ∧ sname s !! x = Some nm ∧
           (((∃ y, y ≠ x ∧ y ∈ refs_of (xsigs s) u ∧ sname s !! y = Some nm) ∧ cw = (Duplicated, WName)) ∨
            (x ∉ refs_of (xsigs s) u ∧ (∃ m, spmsg s !! u = Some m ∧ msg_has_signal_named m nm) ∧ cw = (Duplicated, WName)) ∨
            ((∃ m, spmsg s !! u = Some m ∧ nested_clash m x) ∧ cw = (Duplicated, WName)) ∨
            (fits = false ∧ cw = (Layout, WNone)) ∨
            (ids = [] ∧ x ∈ refs_of (xsigs s) u ∧ cw = (Duplicated, WGroupID)) ∨
            (∃ g count gs, g ∈ ids ∧ xshape s !! u = Some (count, gs) ∧
               ((g < 0 ∧ cw = (Negative, WGroupID)) ∨ (count ≤ g ∧ cw = (OutOfBounds, WGroupID)) ∨
                ((x ∈ refs_of (xfixed s) u ∨ ∃ prev, gids_of (xgids s) u !! x = Some prev ∧ g ∈ prev) ∧
                 cw = (Duplicated, WGroupID)))) ∨
            (is_Some (xshape s !! x) ∧ (rank s u ≤ rank s x)%nat ∧ cw = (Layout, WNone))))
    | MuxRemove u key => key ∉ refs_of (xsigs s) u ∧ cw = (NotFound, WRemoveEntity)
    | MuxClearGroup u g =>
        ∃ count gs, xshape s !! u = Some (count, gs) ∧
          ((g < 0 ∧ cw = (Negative, WGroupID)) ∨ (count ≤ g ∧ cw = (OutOfBounds, WGroupID)))
    | MsgResize m n fits =>
        (* the new size is negative; or it differs from the current one and: its size in bits is not
           representable, or the bus the sender is attached to does not take it (its REAL type: CAN 2.0A
           takes 8 bytes, any other type nothing), or the payload does not fit (geometry: oracle) *)
        (n < 0 ∧ cw = (Negative, WMessageSize)) ∨
        (∃ M, msgs (base (l3 s)) !! m = Some M ∧ m_size M ≠ n ∧
           ((2 ^ 60 - 1 < n ∧ cw = (TooBig, WMessageSize)) ∨
            ((∃ i Ii b B, m_sender M = Some i ∧ ifaces (base (l3 s)) !! i = Some Ii ∧ i_parent Ii = Some b ∧
                          buses (base (l3 s)) !! b = Some B ∧ too_big B n = true) ∧ cw = (TooBig, WMessageSize)) ∨
            (fits = false ∧ cw = (TooSmall, WMessageSize))))
    | _ => False
    end%Z.

  Definition pre2 (o : op2) : Prop := wf2 o ∧ ∀ cw, ¬ viol2 o cw.
  Definition doc_cause2 (o : op2) (cw : cause * wrap) : Prop := viol2 o cw ∨ (¬ wf2 o ∧ cw = (BadHandle, WNone)).
End decl2.

(* C06: the result of every call of the whole alphabet is determined by the documented precondition *)
Definition StepSpec2 (s : state2) (o : op2) : Prop :=
  match (step2 s o).2 with
  | Ok => pre2 s o
  | Err cs => cs ≠ [] ∧ ∀ cw, cw ∈ cs → doc_cause2 s o cw
  end.
