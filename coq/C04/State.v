(* C04/C05/C06 — entity state machine, layer 1 (flat registries).

   The Go object graph is a heap-like [state]: one [gmap handle record] per entity kind.
   A handle is the creation index the harness assigns (one global counter, mirroring the
   global EntityID namespace; a NodeInterface has no EntityID in Go but gets a handle too).
   Pointers become [option handle].  The code's redundant indexes and back-links are separate
   fields, updated by the operations exactly where the Go code updates them, so that "the index
   agrees with the contents" is a theorem (Proofs*.v) and not a definition.

   A Go [set[EntityID,*T]] whose key is always the entity id of the stored pointer
   (Network.buses, NodeInterface.sentMessages / receivedMessages, SignalEnum.values) is a
   [gset handle]; a set whose key is something else (Bus.nodeInts and Message.receivers are keyed
   by the *node's* entity id and hold an interface) stays a [gmap].

   No proofs in this file. *)
From stdpp Require Export gmap.
From RecordUpdate Require Export RecordSet.
Export RecordSetNotations.

Definition handle := positive.
(* names are opaque keys with decidable equality: the harness maps each Go string to a number *)
Definition name := N.

(* error causes = the sentinels of errors.go that layer 1 can produce, plus
   [Layout] (a refusal decided by payload geometry, which belongs to the C01/C07 stream: the
   sentinels ErrNoSpaceLeft / ErrIntersect / ErrOutOfBounds / ErrTooBig under a SignalSizeError or
   StartBitError) and [BadHandle] (model only: an operation applied to a handle of the wrong
   kind, which Go's type system excludes). *)
Inductive cause :=
  | Duplicated | NotFound | Negative | OutOfBounds | Zero | Nil | NoSpaceLeft | Intersect
  | InvalidType | ReceiverIsSender | TooSmall | TooBig | Layout | BadHandle.

(* innermost typed wrapper (errors.As) around the sentinel *)
Inductive wrap :=
  | WNone | WArgument | WName | WNodeID | WCANID | WMessageID | WMessageSize
  | WAddEntity | WRemoveEntity | WUpdateName | WUpdateIndex | WValueIndex | WGroupID
  | WAttributeValue.

(* [Err l]: l is the admissible set — where Go picks among several failing sub-checks in map
   iteration order, each of them is admitted *)
Inductive result := Ok | Err (l : list (cause * wrap)).

Global Instance cause_eq_dec : EqDecision cause.
Proof. solve_decision. Defined.
Global Instance wrap_eq_dec : EqDecision wrap.
Proof. solve_decision. Defined.
Global Instance result_eq_dec : EqDecision result.
Proof. solve_decision. Defined.

Definition is_err (r : result) : bool := match r with Ok => false | Err _ => true end.

Record net_rec := mkNet {
  n_buses : gset handle;              (* Network.buses *)
  n_busNames : gmap name handle;      (* Network.busNames *)
}.
Record bus_rec := mkBus {
  b_name : name;
  b_parent : option handle;           (* Bus.parentNetwork *)
  b_nodeInts : gmap handle handle;    (* Bus.nodeInts: node handle -> interface handle *)
  b_nodeNames : gmap name handle;     (* Bus.nodeNames: node name -> node handle *)
  b_nodeIDs : gmap Z handle;          (* Bus.nodeIDs: node id -> node handle *)
  b_static : gmap Z handle;           (* Bus.messageStaticCANIDs: static CAN-ID -> message *)
  b_type : Z;                         (* Bus.typ (0 = BusTypeCAN2A, set by Bus.SetType) *)
}.
Record node_rec := mkNode {
  nd_name : name;
  nd_id : Z;
  nd_ifaces : list handle;            (* Node.interfaces *)
  nd_count : Z;                       (* Node.interfaceCount *)
}.
Record iface_rec := mkIface {
  i_node : handle;                    (* NodeInterface.node (immutable) *)
  i_number : Z;                       (* NodeInterface.number *)
  i_parent : option handle;           (* NodeInterface.parentBus *)
  i_sent : gset handle;               (* sentMessages *)
  i_sentNames : gmap name handle;     (* sentMessageNames *)
  i_sentIDs : gmap Z handle;          (* sentMessageIDs (messages without static CAN-ID) *)
  i_sentStatic : gmap Z handle;       (* sentMessageStaticCANIDs *)
  i_received : gset handle;           (* receivedMessages *)
}.
Record msg_rec := mkMsg {
  m_name : name;
  m_id : Z;
  m_static : Z;
  m_hasStatic : bool;
  m_size : Z;                         (* sizeByte (only compared with the bus limit here) *)
  m_sender : option handle;           (* senderNodeInt *)
  m_receivers : gmap handle handle;   (* receivers: node handle -> interface handle *)
}.
Record enum_rec := mkEnum {
  e_values : gset handle;             (* SignalEnum.values *)
  e_valueNames : gmap name handle;
  e_valueIdx : gmap Z handle;
  e_maxIndex : Z;
}.
Record eval_rec := mkEval {
  v_name : name;
  v_index : Z;
  v_parent : option handle;           (* SignalEnumValue.parentEnum *)
}.

Record state := mkState {
  next : handle;
  nets : gmap handle net_rec;
  buses : gmap handle bus_rec;
  nodes : gmap handle node_rec;
  ifaces : gmap handle iface_rec;
  msgs : gmap handle msg_rec;
  enums : gmap handle enum_rec;
  evals : gmap handle eval_rec;
}.

Global Instance eta_net : Settable _ := settable! mkNet <n_buses; n_busNames>.
Global Instance eta_bus : Settable _ :=
  settable! mkBus <b_name; b_parent; b_nodeInts; b_nodeNames; b_nodeIDs; b_static; b_type>.
Global Instance eta_node : Settable _ := settable! mkNode <nd_name; nd_id; nd_ifaces; nd_count>.
Global Instance eta_iface : Settable _ :=
  settable! mkIface <i_node; i_number; i_parent; i_sent; i_sentNames; i_sentIDs; i_sentStatic; i_received>.
Global Instance eta_msg : Settable _ :=
  settable! mkMsg <m_name; m_id; m_static; m_hasStatic; m_size; m_sender; m_receivers>.
Global Instance eta_enum : Settable _ := settable! mkEnum <e_values; e_valueNames; e_valueIdx; e_maxIndex>.
Global Instance eta_eval : Settable _ := settable! mkEval <v_name; v_index; v_parent>.
Global Instance eta_state : Settable _ :=
  settable! mkState <next; nets; buses; nodes; ifaces; msgs; enums; evals>.

Definition init : state := mkState 1%positive ∅ ∅ ∅ ∅ ∅ ∅ ∅.

(* outcome constructors *)
Definition ok (s : state) : state * result := (s, Ok).
Definition err (s : state) (c : cause) (w : wrap) : state * result := (s, Err [(c, w)]).
Definition bad (s : state) : state * result := (s, Err [(BadHandle, WNone)]).

(* set.modifyKey(old, new, v) = remove(old); add(new, v) *)
Definition modify_key {K} `{Countable K} {V} (old new : K) (v : V) (m : gmap K V) : gmap K V :=
  <[new := v]> (delete old m).

(* Bus.verifyMessageSize: a CAN 2.0A bus (type 0) accepts payloads of at most 8 bytes, a bus of any
   other type accepts none *)
Definition too_big (B : bus_rec) (size : Z) : bool := if (b_type B =? 0)%Z then (8 <? size)%Z else true.
