(* C04/C05/C06 — operation alphabet and the step function (layer 1). No proofs in this file. *)
From Acme.C04 Require Export Ops.

(* arguments: handles, names, integers; a pointer argument is an [option handle] ([None] = nil);
   [fits] is the layout oracle of SignalEnum.verifyValueIndex (see Ops.v) *)
Inductive op :=
  (* constructors *)
  | NewNetwork
  | NewBus (nm : name)
  | NewNode (nm : name) (id : Z) (count : nat)
  | NewMessage (nm : name) (id size : Z)
  | NewEnum
  | NewEnumValue (nm : name) (idx : Z)
  | NewOther
  (* network *)
  | NetAddBus (n : handle) (ob : option handle)
  | NetRemoveBus (n key : handle)
  | NetRemoveAllBuses (n : handle)
  (* bus *)
  | BusUpdateName (b : handle) (new : name)
  | BusAddNodeInterface (b : handle) (oi : option handle)
  | BusRemoveNodeInterface (b key : handle)
  | BusRemoveAllNodeInterfaces (b : handle)
  (* node *)
  | NodeUpdateName (nd : handle) (new : name)
  | NodeUpdateID (nd : handle) (new : Z)
  | NodeAddInterface (nd : handle)
  | NodeRemoveInterface (nd : handle) (k : Z)
  (* node interface *)
  | IfAddSent (i : handle) (om : option handle)
  | IfRemoveSent (i key : handle)
  | IfRemoveAllSent (i : handle)
  | IfAddReceived (i : handle) (om : option handle)
  | IfRemoveReceived (i key : handle)
  | IfRemoveAllReceived (i : handle)
  (* message *)
  | MsgUpdateName (m : handle) (new : name)
  | MsgUpdateID (m : handle) (new : Z)
  | MsgSetStatic (m : handle) (c : Z)
  | MsgAddReceiver (m : handle) (oi : option handle)
  | MsgRemoveReceiver (m key : handle)
  (* enum / enum value *)
  | EnumAddValue (e : handle) (ov : option handle) (fits : bool)
  | EnumRemoveValue (e key : handle)
  | EnumRemoveAllValues (e : handle)
  | EvalUpdateName (v : handle) (new : name)
  | EvalUpdateIndex (v : handle) (new : Z) (fits : bool).

Definition step (s : state) (o : op) : state * result :=
  match o with
  | NewNetwork => new_network s
  | NewBus nm => new_bus s nm
  | NewNode nm id c => new_node s nm id c
  | NewMessage nm id sz => new_message s nm id sz
  | NewEnum => new_enum s
  | NewEnumValue nm idx => new_enum_value s nm idx
  | NewOther => new_other s
  | NetAddBus n ob => net_add_bus s n ob
  | NetRemoveBus n k => net_remove_bus s n k
  | NetRemoveAllBuses n => net_remove_all_buses s n
  | BusUpdateName b nm => bus_update_name s b nm
  | BusAddNodeInterface b oi => bus_add_node_interface s b oi
  | BusRemoveNodeInterface b k => bus_remove_node_interface s b k
  | BusRemoveAllNodeInterfaces b => bus_remove_all_node_interfaces s b
  | NodeUpdateName nd nm => node_update_name s nd nm
  | NodeUpdateID nd id => node_update_id s nd id
  | NodeAddInterface nd => node_add_interface s nd
  | NodeRemoveInterface nd k => node_remove_interface s nd k
  | IfAddSent i om => iface_add_sent s i om
  | IfRemoveSent i k => iface_remove_sent s i k
  | IfRemoveAllSent i => iface_remove_all_sent s i
  | IfAddReceived i om => iface_add_received s i om
  | IfRemoveReceived i k => iface_remove_received s i k
  | IfRemoveAllReceived i => iface_remove_all_received s i
  | MsgUpdateName m nm => msg_update_name s m nm
  | MsgUpdateID m id => msg_update_id s m id
  | MsgSetStatic m c => msg_set_static s m c
  | MsgAddReceiver m oi => msg_add_receiver s m oi
  | MsgRemoveReceiver m k => msg_remove_receiver s m k
  | EnumAddValue e ov f => enum_add_value s e ov f
  | EnumRemoveValue e k => enum_remove_value s e k
  | EnumRemoveAllValues e => enum_remove_all_values s e
  | EvalUpdateName v nm => eval_update_name s v nm
  | EvalUpdateIndex v idx f => eval_update_index s v idx f
  end.

Definition run (ops : list op) : state := fold_left (λ s o, (step s o).1) ops init.
