(* C07 — predicates over the C01 state machine (Acme.C01.Model) that speak about multiplexers. *)
From Coq Require Import ZArith List Bool Arith.
From Acme.C01 Require Import Layout State Model.
Import ListNotations.
Open Scope Z_scope.

(* the groups of multiplexer u that list x *)
Definition holds (s : state) (u g x : nat) : Prop := In x (gget s u g).
Definition valid_group (s : state) (u g : nat) : Prop := (Z.of_nat g < mux_count s u).
