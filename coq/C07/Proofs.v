(* C07 — membership invariant of the multiplexers (fixed = every group, grouped = exactly the ids)
   and its preservation by every operation. *)
From Coq Require Import ZArith List Bool Arith Lia.
From Acme.C01 Require Import Layout State Model ProofsLayout ProofsInv.
Import ListNotations.
Open Scope Z_scope.

Record InvM (s : state) : Prop := {
  m_len : forall u c g, kind s u = KMux c g -> (u < nsig s)%nat -> length (ugroups s u) = Z.to_nat c /\ 1 <= c;
  m_fixed : forall u x, ufixed s u x = true ->
      ugids s u x = None /\ forall g, (g < length (ugroups s u))%nat -> In x (gget s u g);
  m_ids : forall u x ids, ugids s u x = Some ids ->
      ufixed s u x = false /\ NoDup ids /\ ids <> []
      /\ (forall g, In g ids -> 0 <= g /\ (Z.to_nat g < length (ugroups s u))%nat)
      /\ (forall g : nat, In x (gget s u g) <-> In (Z.of_nat g) ids);
  m_in : forall u g x, In x (gget s u g) -> ufixed s u x = true \/ ugids s u x <> None;
  m_usigs : forall u x, memb x (usigs s u) = true <-> (ufixed s u x = true \/ ugids s u x <> None);
  m_pmux : forall u g x, In x (gget s u g) -> pmux s x = Some u;
  m_pmux2 : forall u x, memb x (usigs s u) = true -> pmux s x = Some u;
  m_pmux3 : forall u x, pmux s x = Some u -> memb x (usigs s u) = true;
  m_unalloc : forall u x, (nsig s <= u)%nat -> ufixed s u x = false /\ ugids s u x = None /\ usigs s u = [];
  m_fixed_mux : forall u x, ufixed s u x = true -> is_mux s u = true /\ (u < nsig s)%nat;
  m_usigs_nd : forall u, NoDup (usigs s u)
}.

(* the multiplexer-relevant part of a state *)
Definition mcore (s : state) := (nsig s, ugroups s, ufixed s, ugids s, usigs s, pmux s).

Lemma InvM_core : forall s s', mcore s' = mcore s ->
  (forall u c g, (u < nsig s)%nat -> (kind s' u = KMux c g <-> kind s u = KMux c g)) ->
  InvM s -> InvM s'.
Proof.
  intros s s' E Hk H. unfold mcore in E. inversion E as [[E1 E2 E3 E4 E5 E6]].
  assert (Hg : forall u g, gget s' u g = gget s u g) by (intros; unfold gget; rewrite E2; reflexivity).
  destruct H. constructor.
  - intros u c g K Hu. rewrite E1 in Hu. rewrite E2. apply (m_len0 u c g); [apply (Hk u c g Hu); assumption|exact Hu].
  - intros u x. rewrite E3, E4, E2. intros F. destruct (m_fixed0 u x F) as [A B]. split; [exact A|].
    intros g Hg'. rewrite Hg. apply B. exact Hg'.
  - intros u x ids. rewrite E4, E3, E2. intros F. destruct (m_ids0 u x ids F) as (A & B & C & D & G).
    repeat split; try assumption; try (apply D; assumption); rewrite Hg; apply G.
  - intros u g x. rewrite Hg, E3, E4. apply m_in0.
  - intros u x. rewrite E5, E3, E4. apply m_usigs0.
  - intros u g x. rewrite Hg, E6. apply m_pmux0.
  - intros u x. rewrite E5, E6. apply m_pmux4.
  - intros u x. rewrite E5, E6. apply m_pmux5.
  - intros u x. rewrite E1, E3, E4, E5. apply m_unalloc0.
  - intros u x. rewrite E3, E1. intros F. destruct (m_fixed_mux0 u x F) as [A B]. split; [|exact B].
    unfold is_mux in *. destruct (kind s u) as [| |c g] eqn:K; try discriminate.
    rewrite (proj2 (Hk u c g B) K). reflexivity.
  - intros u. rewrite E5. apply m_usigs_nd0.
Qed.

Lemma usigs_msg_add : forall s m x, usigs (msg_add_signal s m x) = usigs s. Proof. reflexivity. Qed.
Lemma pmux_msg_add : forall s m x, pmux (msg_add_signal s m x) = pmux s. Proof. reflexivity. Qed.
Lemma usigs_msg_remove : forall s m x, usigs (msg_remove_signal s m x) = usigs s. Proof. reflexivity. Qed.
Lemma pmux_msg_remove : forall s m x, pmux (msg_remove_signal s m x) = pmux s. Proof. reflexivity. Qed.
#[export] Hint Rewrite usigs_msg_add pmux_msg_add usigs_msg_remove pmux_msg_remove : reg.

Lemma mcore_msg_add : forall s m x, mcore (msg_add_signal s m x) = mcore s. Proof. reflexivity. Qed.
Lemma mcore_msg_remove : forall s m x, mcore (msg_remove_signal s m x) = mcore s. Proof. reflexivity. Qed.
Lemma kind_same_mux : forall s s', kind s' = kind s -> forall u c g, (u < nsig s)%nat -> (kind s' u = KMux c g <-> kind s u = KMux c g).
Proof. intros s s' E u c g _. rewrite E. tauto. Qed.

Lemma InvM_core2 : forall s s', mcore s' = mcore s -> kind s' = kind s -> InvM s -> InvM s'.
Proof. intros s s' E K H. eapply InvM_core; [exact E|apply kind_same_mux; exact K|exact H]. Qed.

(* states that differ from s only outside the multiplexer fields *)
Ltac mcore_same s0 H := apply (InvM_core2 s0); [reflexivity | reflexivity | exact H].

Lemma invm_new_msg : forall s n, InvM s -> InvM (fst (step s (ONewMsg n))).
Proof. intros s n H. cbn [step fst]. mcore_same s H. Qed.
Lemma invm_new_enum : forall s, InvM s -> InvM (fst (step s ONewEnum)).
Proof. intros s H. cbn [step fst]. mcore_same s H. Qed.

Lemma invm_append : forall s m x, InvM s -> InvM (fst (step_append s m x)).
Proof.
  intros s m x H. unfold step_append. destruct (memb x (gnames s m)); [exact H|].
  destruct (verify_append (sz s) (rel s) (glsize s m) (glay s m) x); [exact H|]. cbn [do_append fst].
  apply (InvM_core2 s); [rewrite mcore_msg_add; reflexivity|autorewrite with reg; reflexivity|exact H].
Qed.
Lemma invm_insert : forall s m x b, InvM s -> InvM (fst (step_insert s m x b)).
Proof.
  intros s m x b H. unfold step_insert. destruct (memb x (gnames s m)); [exact H|].
  destruct (verify_insert (sz s) (rel s) (glsize s m) (glay s m) x b); [exact H|]. cbn [do_insert fst].
  apply (InvM_core2 s); [rewrite mcore_msg_add; reflexivity|autorewrite with reg; reflexivity|exact H].
Qed.
Lemma invm_remove_all : forall s m, InvM s -> InvM (fst (step_remove_all s m)).
Proof. intros s m H. unfold step_remove_all. cbn [fst]. mcore_same s H. Qed.
Lemma invm_shift : forall (left : bool) s m x a, InvM s -> InvM (fst (step_shift left s m x a)).
Proof.
  intros left s m x a H. unfold step_shift. destruct (negb (memb x (gsigs s m))); [exact H|].
  destruct left.
  - destruct (do_shift_left (sz s) (rel s) (glay s m) x a). cbn [fst]. mcore_same s H.
  - destruct (do_shift_right (sz s) (rel s) (glsize s m) (glay s m) x a). cbn [fst]. mcore_same s H.
Qed.
Lemma invm_compact : forall s m, InvM s -> InvM (fst (step_compact s m)).
Proof. intros s m H. unfold step_compact. cbn [fst]. mcore_same s H. Qed.
Lemma invm_resize : forall s m n, InvM s -> InvM (fst (step_resize s m n)).
Proof.
  intros s m n H. unfold step_resize. destruct (n <? 0); [exact H|]. destruct (gbytes s m =? n); [exact H|]. destruct (2 ^ 60 - 1 <? n); [exact H|].
  destruct (verify_resize (sz s) (rel s) (glsize s m) (glay s m) (n * 8)); [exact H|]. cbn [fst]. mcore_same s H.
Qed.

(* size-change machinery only writes positions *)
Lemma mcore_msg_modify : forall s m x a, mcore (fst (msg_modify_size s m x a)) = mcore s /\ kind (fst (msg_modify_size s m x a)) = kind s.
Proof.
  intros. unfold msg_modify_size. destruct (a =? 0); [split; reflexivity|].
  destruct (negb (memb x (gsigs s m))); [split; reflexivity|].
  destruct (if 0 <? a then _ else _) as [e pos]. destruct e; split; reflexivity.
Qed.
Lemma mcore_modify_groups : forall gs s u x a, mcore (fst (modify_groups s u x a gs)) = mcore s /\ kind (fst (modify_groups s u x a gs)) = kind s.
Proof.
  intros. rewrite modify_groups_pos. split; reflexivity.
Qed.
Lemma mcore_mux_modify : forall s u x a, mcore (fst (mux_modify_size s u x a)) = mcore s /\ kind (fst (mux_modify_size s u x a)) = kind s.
Proof.
  intros. unfold mux_modify_size. destruct (a =? 0); [split; reflexivity|].
  destruct (negb (memb x (usigs s u))); [split; reflexivity|].
  destruct (mux_verify_size s u x a); try (split; reflexivity).
  destruct (groups_of s u x) as [gs|]; [|split; reflexivity].
  pose proof (mcore_modify_groups gs s u x a) as P. destruct (modify_groups s u x a gs). exact P.
Qed.
Lemma mcore_sig_modify : forall s x a, mcore (fst (sig_modify_size s x a)) = mcore s /\ kind (fst (sig_modify_size s x a)) = kind s.
Proof.
  intros. unfold sig_modify_size. destruct (pmux s x); [apply mcore_mux_modify|].
  destruct (pmsg s x); [apply mcore_msg_modify|split; reflexivity].
Qed.
Lemma mcore_refs_modify : forall refs s a, mcore (fst (refs_modify s refs a)) = mcore s /\ kind (fst (refs_modify s refs a)) = kind s.
Proof.
  induction refs as [|r t IH]; intros s a; cbn [refs_modify]; [split; reflexivity|].
  pose proof (mcore_sig_modify s r a) as [P1 P2]. destruct (sig_modify_size s r a) as [s' e]. cbn [fst] in *.
  destruct e; try (split; assumption). destruct (IH s' a) as [Q1 Q2]. split; congruence.
Qed.
Lemma mcore_enum_modify : forall s e a, mcore (fst (enum_modify_size s e a)) = mcore s /\ kind (fst (enum_modify_size s e a)) = kind s.
Proof. intros. unfold enum_modify_size. destruct (a =? 0); [split; reflexivity|apply mcore_refs_modify]. Qed.

Lemma invm_set_type : forall s x n, InvM s -> InvM (fst (step_set_type s x n)).
Proof.
  intros s x n H. unfold step_set_type. destruct (kind s x) as [old| |] eqn:Ek; try exact H.
  destruct (n <=? 0); [exact H|].
  pose proof (mcore_sig_modify s x (n - old)) as [P1 P2]. destruct (sig_modify_size s x (n - old)) as [s1 r]. cbn [fst] in *.
  destruct r; cbn [fst]; try (apply (InvM_core2 s); assumption).
  eapply InvM_core; [exact P1| |exact H]. intros u c g Hu. cbn. unfold upd.
  destruct (Nat.eqb_spec u x) as [->|NE]; [rewrite Ek; split; discriminate|]. rewrite P2. tauto.
Qed.

Lemma invm_set_enum : forall s x e, InvM s -> InvM (fst (step_set_enum s x e)).
Proof.
  intros s x e H. unfold step_set_enum. destruct (kind s x) as [|old|] eqn:Ek; try exact H.
  pose proof (mcore_sig_modify s x (esize s e - sz s x)) as [P1 P2].
  destruct (sig_modify_size s x (esize s e - sz s x)) as [s1 r]. cbn [fst] in *.
  destruct r; cbn [fst]; try (apply (InvM_core2 s); assumption).
  eapply InvM_core; [exact P1| |exact H]. intros u c g Hu. cbn. unfold upd.
  destruct (Nat.eqb_spec u x) as [->|NE]; [rewrite Ek; split; discriminate|]. rewrite P2. tauto.
Qed.

Lemma invm_add_value : forall s e idx, InvM s -> InvM (fst (step_add_value s e idx)).
Proof.
  intros s e idx H. unfold step_add_value.
  set (s0 := set_nval _ _).
  assert (H0 : InvM s0) by (apply (InvM_core2 s); [reflexivity|reflexivity|exact H]).
  destruct (verify_value_index s0 e idx); try exact H0.
  destruct (emax s0 e <? idx) eqn:El.
  - pose proof (mcore_enum_modify s0 e (esize_of (emin s0 e) idx - esize s0 e)) as [P1 P2].
    destruct (enum_modify_size s0 e (esize_of (emin s0 e) idx - esize s0 e)) as [s1 r]. cbn [fst] in *.
    destruct r; cbn [fst]; try (apply (InvM_core2 s0); assumption).
    destruct (emax s1 e <? idx); apply (InvM_core2 s0); try assumption; cbn; try exact P1; try exact P2.
  - cbn [fst]. rewrite El. apply (InvM_core2 s0); [reflexivity|reflexivity|exact H0].
Qed.

Lemma invm_remove_value : forall s e v, InvM s -> InvM (fst (step_remove_value s e v)).
Proof.
  intros s e v H. unfold step_remove_value. destruct (negb (memb v (evals s e))); [exact H|]. cbn [fst].
  destruct (vidx s v =? emax s e); apply (InvM_core2 s); try reflexivity; exact H.
Qed.
Lemma invm_remove_all_values : forall s e, InvM s -> InvM (fst (step_remove_all_values s e)).
Proof. intros s e H. unfold step_remove_all_values. cbn [fst]. mcore_same s H. Qed.

Lemma invm_update_index : forall s v idx, InvM s -> InvM (fst (step_update_index s v idx)).
Proof.
  intros s v idx H. unfold step_update_index. destruct (vidx s v =? idx); [exact H|].
  destruct (vpar s v) as [e|]; [|cbn [fst]; mcore_same s H].
  destruct (verify_value_index s e idx); try exact H.
  set (amt := esize_of (emin s e) _ - esize s e).
  pose proof (mcore_enum_modify s e amt) as [P1 P2]. destruct (enum_modify_size s e amt) as [s1 r]. cbn [fst] in *.
  destruct r; cbn [fst]; apply (InvM_core2 s); try assumption; cbn; assumption.
Qed.

Lemma invm_mux_shift : forall (left : bool) s u x a, InvM s -> InvM (fst (step_mux_shift left s u x a)).
Proof.
  intros left s u x a H. unfold step_mux_shift. destruct (ugids s u x) as [ids|]; [|exact H].
  destruct ids as [|g [|g2 r]]; try exact H.
  destruct (if left then _ else _) as [pos d]. cbn [fst]. mcore_same s H.
Qed.

(* fresh signal handles *)
Lemma InvM_alloc : forall s s' k,
  InvA s -> InvM s ->
  nsig s' = S (nsig s) -> kind s' = upd (kind s) (nsig s) k ->
  (forall u, u <> nsig s -> ugroups s' u = ugroups s u) ->
  (forall c g, k = KMux c g -> length (ugroups s' (nsig s)) = Z.to_nat c /\ 1 <= c) ->
  (forall g, nth g (ugroups s' (nsig s)) [] = []) ->
  ufixed s' = ufixed s -> ugids s' = ugids s -> usigs s' = usigs s -> pmux s' = pmux s ->
  InvM s'.
Proof.
  intros s s' k HA H En Ek Eg Hlen Hnil Ef Ei Eu Ep.
  assert (Hg : forall u g, gget s' u g = gget s u g).
  { intros u g. unfold gget. destruct (Nat.eq_dec u (nsig s)) as [->|NE]; [|rewrite Eg by exact NE; reflexivity].
    rewrite Hnil. rewrite (a_unalloc s HA) by lia. destruct g; reflexivity. }
  destruct (m_unalloc s H (nsig s) 0%nat ltac:(lia)) as (_ & _ & Eus).
  constructor.
  - intros u c g K Hu. rewrite Ek in K. unfold upd in K. destruct (Nat.eqb_spec u (nsig s)) as [->|NE].
    + apply (Hlen c g K).
    + rewrite Eg by exact NE. apply (m_len s H u c g K). lia.
  - intros u x. rewrite Ef, Ei. intros F. destruct (m_fixed s H u x F) as [A B]. split; [exact A|].
    intros g Hg'. rewrite Hg. apply B.
    destruct (Nat.eq_dec u (nsig s)) as [->|NE]; [|rewrite Eg in Hg' by exact NE; exact Hg'].
    destruct (m_unalloc s H (nsig s) x ltac:(lia)) as (C & _). congruence.
  - intros u x ids. rewrite Ei, Ef. intros F. destruct (m_ids s H u x ids F) as (A & B & C & D & G).
    assert (NE : u <> nsig s).
    { intros ->. destruct (m_unalloc s H (nsig s) x ltac:(lia)) as (_ & C' & _). congruence. }
    rewrite Eg by exact NE. repeat split; try assumption; try (apply D; assumption); rewrite Hg; apply G.
  - intros u g x. rewrite Hg, Ef, Ei. apply (m_in s H).
  - intros u x. rewrite Eu, Ef, Ei. apply (m_usigs s H).
  - intros u g x. rewrite Hg, Ep. apply (m_pmux s H).
  - intros u x. rewrite Eu, Ep. apply (m_pmux2 s H).
  - intros u x. rewrite Eu, Ep. apply (m_pmux3 s H).
  - intros u x Hu. rewrite Ef, Ei, Eu. apply (m_unalloc s H). lia.
  - intros u x. rewrite Ef, En. intros F. destruct (m_fixed_mux s H u x F) as [A B]. split; [|lia].
    unfold is_mux in *. rewrite Ek. rewrite upd_other by lia. exact A.
  - intros u. rewrite Eu. apply (m_usigs_nd s H).
Qed.

Lemma invm_new_std : forall s n, InvA s -> InvM s -> InvM (fst (step s (ONewStd n))).
Proof.
  intros s n HA H. cbn [step]. destruct (n <? 0); [exact H|]. destruct (n =? 0); [exact H|]. cbn [fst].
  eapply (InvM_alloc s _ (KStd n) HA H); try reflexivity.
  - intros c g E. discriminate.
  - intros g. cbn. rewrite (a_unalloc s HA) by lia. destruct g; reflexivity.
Qed.
Lemma invm_new_enumsig : forall s e, InvA s -> InvM s -> InvM (fst (step s (ONewEnumSig e))).
Proof.
  intros s e HA H. cbn [step]. destruct (venum s e); [|exact H]. cbn [fst].
  eapply (InvM_alloc s _ (KEnum e) HA H); try reflexivity.
  - intros c g E. discriminate.
  - intros g. cbn. rewrite (a_unalloc s HA) by lia. destruct g; reflexivity.
Qed.
Lemma invm_new_mux : forall s c g, InvA s -> InvM s -> InvM (fst (step s (ONewMux c g))).
Proof.
  intros s c g HA H. cbn [step]. destruct (Z.ltb_spec c 0); [exact H|]. destruct (Z.eqb_spec c 0); [exact H|].
  destruct (g <? 0); [exact H|]. destruct (g =? 0); [exact H|]. destruct (2 ^ 63 - 65 <? g); [exact H|]. cbn [fst].
  eapply (InvM_alloc s _ (KMux c g) HA H); try reflexivity.
  - intros u Hu. cbn. rewrite upd_other by exact Hu. reflexivity.
  - intros c' g' E. inversion E; subst. cbn. rewrite upd_same. rewrite repeat_length. split; [reflexivity|lia].
  - intros g'. cbn. rewrite upd_same. apply nth_repeat_nil.
Qed.

(* --- a signal leaves a multiplexer completely --------------------------------------------------- *)

Lemma InvM_detach : forall s s' u x,
  InvM s -> memb x (usigs s u) = true ->
  nsig s' = nsig s -> kind s' = kind s ->
  (forall u', u' <> u -> ugroups s' u' = ugroups s u') ->
  length (ugroups s' u) = length (ugroups s u) ->
  (forall g y, In y (gget s' u g) <-> In y (gget s u g) /\ y <> x) ->
  (forall u' x', ufixed s' u' x' = if Nat.eqb u' u && Nat.eqb x' x then false else ufixed s u' x') ->
  (forall u' x', ugids s' u' x' = if Nat.eqb u' u && Nat.eqb x' x then None else ugids s u' x') ->
  (forall u', usigs s' u' = if Nat.eqb u' u then lrem x (usigs s u) else usigs s u') ->
  (forall y, pmux s' y = upd (pmux s) x None y) ->
  InvM s'.
Proof.
  intros s s' u x H Hmem En Ek Eg Elen Hgr Ef Ei Eu Ep.
  assert (Hpx : pmux s x = Some u) by (apply (m_pmux2 s H); exact Hmem).
  assert (Hgo : forall u' g, u' <> u -> gget s' u' g = gget s u' g) by (intros; unfold gget; rewrite Eg by assumption; reflexivity).
  assert (Hsel : forall u' x', Nat.eqb u' u && Nat.eqb x' x = true <-> u' = u /\ x' = x).
  { intros. rewrite andb_true_iff, !Nat.eqb_eq. tauto. }
  constructor.
  - intros u' c g K Hu. rewrite En in Hu. destruct (Nat.eq_dec u' u) as [->|NE].
    + rewrite Elen. apply (m_len s H u c g); [rewrite <- Ek; exact K|exact Hu].
    + rewrite Eg by exact NE. apply (m_len s H u' c g); [rewrite <- Ek; exact K|exact Hu].
  - intros u' x'. rewrite Ef, Ei. destruct (Nat.eqb u' u && Nat.eqb x' x) eqn:E; [discriminate|].
    intros F. destruct (m_fixed s H u' x' F) as [A B]. split; [exact A|]. intros g Hg.
    destruct (Nat.eq_dec u' u) as [->|NE].
    + rewrite Elen in Hg. apply Hgr. split; [apply B; exact Hg|]. intros ->. rewrite Nat.eqb_refl in E. rewrite Nat.eqb_refl in E. discriminate.
    + rewrite Hgo by exact NE. rewrite Eg in Hg by exact NE. apply B. exact Hg.
  - intros u' x' ids. rewrite Ei, Ef. destruct (Nat.eqb u' u && Nat.eqb x' x) eqn:E; [discriminate|].
    intros F. destruct (m_ids s H u' x' ids F) as (A & B & C & D & G).
    split; [exact A|split; [exact B|split; [exact C|]]].
    destruct (Nat.eq_dec u' u) as [->|NE].
    + split; [intros g Hg; rewrite Elen; apply D; exact Hg|]. intros g. rewrite Hgr, <- G.
      split; [tauto|]. intros Hin. split; [exact Hin|]. intros ->. rewrite !Nat.eqb_refl in E. discriminate.
    + split; [intros g Hg; rewrite Eg by exact NE; apply D; exact Hg|]. intros g. rewrite Hgo by exact NE. apply G.
  - intros u' g x' Hin. rewrite Ef, Ei. destruct (Nat.eq_dec u' u) as [->|NE].
    + apply Hgr in Hin. destruct Hin as [Hin NEx]. destruct (Nat.eqb_spec x' x); [contradiction|].
      rewrite andb_false_r. apply (m_in s H u g x'). exact Hin.
    + destruct (Nat.eqb_spec u' u); [contradiction|]. cbn [andb]. rewrite Hgo in Hin by exact NE. apply (m_in s H u' g x'). exact Hin.
  - intros u' x'. rewrite Eu, Ef, Ei. destruct (Nat.eqb_spec u' u) as [->|NE]; cbn [andb]; [|apply (m_usigs s H)].
    destruct (Nat.eqb_spec x' x) as [->|NEx].
    + split; [intros C; apply memb_In in C; apply lrem_In in C; tauto|intros [C|C]; [discriminate|congruence]].
    + rewrite <- (m_usigs s H u x'). split; intros C.
      * apply memb_In in C. apply lrem_In in C. apply memb_In. tauto.
      * apply memb_In. apply lrem_In. apply memb_In in C. tauto.
  - intros u' g x' Hin. rewrite Ep. unfold upd. destruct (Nat.eqb_spec x' x) as [->|NEx].
    + exfalso. destruct (Nat.eq_dec u' u) as [->|NE].
      * apply Hgr in Hin. tauto.
      * rewrite Hgo in Hin by exact NE. pose proof (m_pmux s H u' g x Hin). congruence.
    + destruct (Nat.eq_dec u' u) as [->|NE].
      * apply Hgr in Hin. apply (m_pmux s H u g x'). tauto.
      * rewrite Hgo in Hin by exact NE. apply (m_pmux s H u' g x'). exact Hin.
  - intros u' x'. rewrite Eu, Ep. unfold upd. destruct (Nat.eqb_spec u' u) as [->|NE].
    + intros C. apply memb_In in C. apply lrem_In in C. destruct C as [C NEx].
      destruct (Nat.eqb_spec x' x); [contradiction|]. apply (m_pmux2 s H). apply memb_In. exact C.
    + intros C. destruct (Nat.eqb_spec x' x) as [->|NEx]; [|apply (m_pmux2 s H); exact C].
      pose proof (m_pmux2 s H u' x C). congruence.
  - intros u' x'. rewrite Eu, Ep. unfold upd. destruct (Nat.eqb_spec x' x) as [->|NEx]; [discriminate|].
    intros C. pose proof (m_pmux3 s H u' x' C) as Hm. destruct (Nat.eqb_spec u' u) as [->|NE]; [|exact Hm].
    apply memb_In. apply lrem_In. apply memb_In in Hm. split; assumption.
  - intros u' x' Hu. rewrite En in Hu. rewrite Ef, Ei, Eu.
    destruct (m_unalloc s H u' x' Hu) as (A & B & C).
    destruct (Nat.eqb_spec u' u) as [->|NE]; cbn [andb].
    + rewrite C in Hmem. discriminate.
    + repeat split; assumption.
  - intros u' x'. rewrite Ef, En. destruct (Nat.eqb u' u && Nat.eqb x' x); [discriminate|]. intros F.
    unfold is_mux. rewrite Ek. apply (m_fixed_mux s H u' x' F).
  - intros u'. rewrite Eu. destruct (Nat.eqb u' u); [apply lrem_NoDup|]; apply (m_usigs_nd s H).
Qed.

Lemma usigs_mux_remove : forall s u x u', usigs (mux_remove_signal s u x) u' = if Nat.eqb u' u then lrem x (usigs s u) else usigs s u'.
Proof.
  intros. unfold mux_remove_signal. cbn. destruct (pmsg s u); cbn; unfold upd; destruct (Nat.eqb u' u); reflexivity.
Qed.
Lemma pmux_mux_remove : forall s u x y, pmux (mux_remove_signal s u x) y = upd (pmux s) x None y.
Proof. intros. unfold mux_remove_signal. cbn. destruct (pmsg s u); reflexivity. Qed.
Lemma usigs_mux_add : forall s u x u', usigs (mux_add_signal s u x) u' = if Nat.eqb u' u then ladd x (usigs s u) else usigs s u'.
Proof.
  intros. unfold mux_add_signal. cbn. destruct (pmsg s u); cbn; unfold upd; destruct (Nat.eqb u' u); reflexivity.
Qed.
Lemma pmux_mux_add : forall s u x y, pmux (mux_add_signal s u x) y = upd (pmux s) x (Some u) y.
Proof. intros. unfold mux_add_signal. cbn. destruct (pmsg s u); reflexivity. Qed.

Lemma gget_upd_same : forall (gr : nat -> list (list nat)) u gs g, nth g (upd gr u gs u) [] = nth g gs [].
Proof. intros. rewrite upd_same. reflexivity. Qed.

Lemma remove_from_groups_In : forall gl gs x k y, (k < length gs)%nat ->
  (In y (nth k (remove_from_groups gs gl x) []) <-> In y (nth k gs []) /\ (y <> x \/ ~ In k gl)).
Proof.
  unfold remove_from_groups. induction gl as [|a r IH]; intros gs x k y Hk; cbn [fold_left].
  - cbn [In]. tauto.
  - rewrite IH by (rewrite set_nth_length; exact Hk).
    destruct (Nat.eq_dec a k) as [->|NE].
    + rewrite nth_set_nth_same by exact Hk. rewrite do_remove_In. cbn [In]. intuition.
    + rewrite nth_set_nth_other by exact NE. cbn [In]. intuition.
Qed.
Lemma remove_from_groups_length : forall gl gs x, length (remove_from_groups gs gl x) = length gs.
Proof.
  unfold remove_from_groups. induction gl as [|a r IH]; intros gs x; cbn [fold_left]; [reflexivity|].
  rewrite IH. apply set_nth_length.
Qed.

Lemma invm_mux_remove : forall s u x, InvM s -> InvM (fst (step_mux_remove s u x)).
Proof.
  intros s u x H. unfold step_mux_remove. destruct (memb x (usigs s u)) eqn:Emem; cbn [negb]; [|exact H].
  destruct (ufixed s u x) eqn:Efx.
  - cbn [fst]. eapply (InvM_detach s _ u x H Emem).
    + cbn. autorewrite with reg. reflexivity.
    + cbn. autorewrite with reg. reflexivity.
    + intros u' NE. cbn. autorewrite with reg. cbn. rewrite upd_other by exact NE. reflexivity.
    + cbn. autorewrite with reg. cbn. rewrite upd_same. apply map_length.
    + intros g y. unfold gget. cbn. autorewrite with reg. cbn. rewrite upd_same.
      rewrite (nth_map_nil (fun l => do_remove l x)) by reflexivity. apply do_remove_In.
    + intros u' x'. cbn. unfold upd2. destruct (Nat.eqb u' u); cbn [andb]; [|autorewrite with reg; reflexivity].
      destruct (Nat.eqb x' x); autorewrite with reg; reflexivity.
    + intros u' x'. cbn. autorewrite with reg. destruct (Nat.eqb_spec u' u) as [->|]; cbn [andb]; [|reflexivity].
      destruct (Nat.eqb_spec x' x) as [->|]; [|reflexivity]. apply (m_fixed s H u x Efx).
    + intros u'. cbn. rewrite usigs_mux_remove. reflexivity.
    + intros y. cbn. rewrite pmux_mux_remove. reflexivity.
  - destruct (ugids s u x) as [ids|] eqn:Eids; [|exact H]. cbn [fst].
    destruct (m_ids s H u x ids Eids) as (_ & Hnd & Hne & Hval & Hiff).
    eapply (InvM_detach s _ u x H Emem).
    + cbn. autorewrite with reg. reflexivity.
    + cbn. autorewrite with reg. reflexivity.
    + intros u' NE. cbn. autorewrite with reg. cbn. rewrite upd_other by exact NE. reflexivity.
    + cbn. autorewrite with reg. cbn. rewrite upd_same. apply remove_from_groups_length.
    + intros g y. unfold gget. cbn. autorewrite with reg. cbn. rewrite upd_same.
      destruct (Nat.lt_ge_cases g (length (ugroups s u))) as [Hlt|Hge].
      * rewrite remove_from_groups_In by exact Hlt. split; [|tauto]. intros [Hin [NEx|Hng]]; [tauto|].
        split; [exact Hin|]. intros ->. apply Hng. apply in_map_iff. exists (Z.of_nat g). split; [lia|].
        apply Hiff. exact Hin.
      * rewrite !nth_overflow; [cbn; tauto|exact Hge|rewrite remove_from_groups_length; exact Hge].
    + intros u' x'. cbn. autorewrite with reg. destruct (Nat.eqb_spec u' u) as [->|]; cbn [andb]; [|reflexivity].
      destruct (Nat.eqb_spec x' x) as [->|]; [exact Efx|reflexivity].
    + intros u' x'. cbn. unfold upd2. destruct (Nat.eqb u' u); cbn [andb]; [|autorewrite with reg; reflexivity].
      destruct (Nat.eqb x' x); autorewrite with reg; reflexivity.
    + intros u'. cbn. rewrite usigs_mux_remove. reflexivity.
    + intros y. cbn. rewrite pmux_mux_remove. reflexivity.
Qed.

Lemma invm_remove : forall s m x, InvM s -> InvM (fst (step_remove s m x)).
Proof.
  intros s m x H. unfold step_remove. destruct (negb (memb x (gsigs s m))); [exact H|].
  destruct (pmux s x) as [u|]; [apply invm_mux_remove; exact H|]. cbn [fst].
  apply (InvM_core2 s); [reflexivity|reflexivity|exact H].
Qed.

(* --- ClearSignalGroup ---------------------------------------------------------------------------- *)

Lemma lremZ_In : forall g l y, In y (lremZ g l) <-> In y l /\ y <> g.
Proof. intros. unfold lremZ. rewrite filter_In. destruct (Z.eqb_spec y g); cbn; intuition congruence. Qed.

Lemma lremZ_nonempty : forall g l, NoDup l -> In g l -> length l <> 1%nat -> lremZ g l <> [].
Proof.
  intros g l Hnd Hin Hlen Hnil. destruct l as [|a [|b r]]; [destruct Hin|cbn in Hlen; congruence|].
  inversion Hnd as [|? ? Hna Hnd']; subst.
  assert (Ha : ~ (In a (lremZ g (a :: b :: r)))) by (rewrite Hnil; intros []).
  assert (Hb : ~ (In b (lremZ g (a :: b :: r)))) by (rewrite Hnil; intros []).
  rewrite lremZ_In in Ha, Hb.
  assert (a = g) by (destruct (Z.eq_dec a g); [assumption|exfalso; apply Ha; split; [left; reflexivity|assumption]]).
  assert (b = g) by (destruct (Z.eq_dec b g); [assumption|exfalso; apply Hb; split; [right; left; reflexivity|assumption]]).
  subst. apply Hna. left; reflexivity.
Qed.

(* x leaves group n of u only *)
Lemma InvM_leave_group : forall s u x ids g,
  InvM s -> ufixed s u x = false -> ugids s u x = Some ids -> In g ids -> length ids <> 1%nat ->
  InvM (set_ugids (set_ugroups s (upd (ugroups s) u (set_nth (ugroups s u) (Z.to_nat g) (do_remove (gget s u (Z.to_nat g)) x))))
          (upd2 (ugids s) u x (Some (lremZ g ids)))).
Proof.
  intros s u x ids g H Efx Eids Hg Hlen.
  destruct (m_ids s H u x ids Eids) as (_ & Hnd & Hne & Hval & Hiff).
  destruct (Hval g Hg) as [Hg0 Hglt].
  set (n := Z.to_nat g) in *.
  set (s' := set_ugids _ _).
  assert (Hgo : forall u' k, u' <> u -> gget s' u' k = gget s u' k).
  { intros u' k NE. unfold gget. cbn. rewrite upd_other by exact NE. reflexivity. }
  assert (Hgu : forall k y, In y (gget s' u k) <-> In y (gget s u k) /\ (k <> n \/ y <> x)).
  { intros k y. unfold gget. cbn. rewrite upd_same. destruct (Nat.eq_dec n k) as [<-|NE].
    - rewrite nth_set_nth_same by exact Hglt. rewrite do_remove_In. unfold gget. intuition.
    - rewrite nth_set_nth_other by exact NE. intuition. }
  assert (Hlenu : length (ugroups s' u) = length (ugroups s u)) by (cbn; rewrite upd_same; apply set_nth_length).
  assert (Hids' : forall u' x', ugids s' u' x' = if Nat.eqb u' u && Nat.eqb x' x then Some (lremZ g ids) else ugids s u' x').
  { intros u' x'. cbn. unfold upd2. destruct (Nat.eqb u' u); cbn [andb]; [|reflexivity]. destruct (Nat.eqb x' x); reflexivity. }
  constructor.
  - intros u' c g' K Hu. cbn in K, Hu. destruct (Nat.eq_dec u' u) as [->|NE].
    + rewrite Hlenu. apply (m_len s H u c g' K Hu).
    + cbn. rewrite upd_other by exact NE. apply (m_len s H u' c g' K Hu).
  - intros u' x' F. change (ufixed s' u' x') with (ufixed s u' x') in F. destruct (m_fixed s H u' x' F) as [A B].
    rewrite Hids'. destruct (Nat.eqb_spec u' u) as [->|NE]; cbn [andb].
    + destruct (Nat.eqb_spec x' x) as [->|NEx]; [congruence|]. split; [exact A|]. intros k Hk. rewrite Hlenu in Hk.
      apply Hgu. split; [apply B; exact Hk|right; exact NEx].
    + split; [exact A|]. intros k Hk. rewrite Hgo by exact NE. apply B. cbn in Hk. rewrite upd_other in Hk by exact NE. exact Hk.
  - intros u' x' ids'. rewrite Hids'. change (ufixed s' u' x') with (ufixed s u' x').
    destruct (Nat.eqb_spec u' u) as [->|NE]; cbn [andb].
    + destruct (Nat.eqb_spec x' x) as [->|NEx].
      * intros E. inversion E; subst ids'. split; [exact Efx|]. split; [apply NoDup_filter; exact Hnd|].
        split; [apply lremZ_nonempty; assumption|]. split.
        -- intros g' Hg'. apply lremZ_In in Hg'. rewrite Hlenu. apply Hval. tauto.
        -- intros k. rewrite Hgu, lremZ_In, <- Hiff. split.
           ++ intros [Hin [NEk|C]]; [|congruence]. split; [exact Hin|]. unfold n in NEk. lia.
           ++ intros [Hin NEg]. split; [exact Hin|]. left. unfold n. lia.
      * intros F. destruct (m_ids s H u x' ids' F) as (A & B & C & D & G).
        split; [exact A|split; [exact B|split; [exact C|]]]. split; [intros g' Hg'; rewrite Hlenu; apply D; exact Hg'|].
        intros k. rewrite Hgu, <- G. split; [tauto|]. intros Hin. split; [exact Hin|right; exact NEx].
    + intros F. destruct (m_ids s H u' x' ids' F) as (A & B & C & D & G).
      split; [exact A|split; [exact B|split; [exact C|]]].
      split; [intros g' Hg'; cbn; rewrite upd_other by exact NE; apply D; exact Hg'|]. intros k. rewrite Hgo by exact NE. apply G.
  - intros u' k x' Hin. change (ufixed s' u' x') with (ufixed s u' x'). rewrite Hids'.
    destruct (Nat.eq_dec u' u) as [->|NE].
    + apply Hgu in Hin. destruct Hin as [Hin _]. rewrite Nat.eqb_refl. cbn [andb].
      destruct (Nat.eqb_spec x' x) as [->|]; [right; discriminate|apply (m_in s H u k x' Hin)].
    + destruct (Nat.eqb_spec u' u); [contradiction|]. cbn [andb]. rewrite Hgo in Hin by exact NE. apply (m_in s H u' k x' Hin).
  - intros u' x'. change (usigs s' u') with (usigs s u'). change (ufixed s' u' x') with (ufixed s u' x'). rewrite Hids'.
    rewrite (m_usigs s H u' x'). destruct (Nat.eqb_spec u' u) as [->|]; cbn [andb]; [|tauto].
    destruct (Nat.eqb_spec x' x) as [->|]; [|tauto]. rewrite Eids. split; intros _; right; discriminate.
  - intros u' k x' Hin. change (pmux s' x') with (pmux s x'). destruct (Nat.eq_dec u' u) as [->|NE].
    + apply Hgu in Hin. apply (m_pmux s H u k x'). tauto.
    + rewrite Hgo in Hin by exact NE. apply (m_pmux s H u' k x' Hin).
  - intros u' x'. apply (m_pmux2 s H u' x').
  - intros u' x'. apply (m_pmux3 s H u' x').
  - intros u' x' Hu. cbn in Hu. change (ufixed s' u' x') with (ufixed s u' x'). change (usigs s' u') with (usigs s u'). rewrite Hids'.
    destruct (m_unalloc s H u' x' Hu) as (A & B & C).
    destruct (Nat.eqb_spec u' u) as [->|]; cbn [andb]; [|repeat split; assumption].
    destruct (Nat.eqb_spec x' x) as [->|]; [congruence|repeat split; assumption].
  - intros u' x'. apply (m_fixed_mux s H u' x').
  - intros u'. apply (m_usigs_nd s H u').
Qed.

(* the loop keeps the membership invariant and never reaches its panic branch *)
Lemma clear_group_loop_ok : forall xs s u g,
  InvM s -> 0 <= g -> (Z.to_nat g < length (ugroups s u))%nat ->
  NoDup xs -> (forall y, In y xs -> In y (gget s u (Z.to_nat g))) ->
  InvM (fst (clear_group_loop s u g xs)) /\ snd (clear_group_loop s u g xs) = false.
Proof.
  induction xs as [|x r IH]; intros s u g H Hg Hlt Hnd Hin; cbn [clear_group_loop]; [split; [exact H|reflexivity]|].
  inversion Hnd as [|? ? Hnx Hnd']; subst.
  assert (Hxin : In x (gget s u (Z.to_nat g))) by (apply Hin; left; reflexivity).
  destruct (ufixed s u x) eqn:Efx.
  - apply IH; try assumption. intros y Hy. apply Hin. right; exact Hy.
  - set (n := Z.to_nat g) in *.
    set (s1 := set_ugroups s (upd (ugroups s) u (set_nth (ugroups s u) n (do_remove (gget s u n) x)))).
    change (ugids s1 u x) with (ugids s u x).
    destruct (ugids s u x) as [ids|] eqn:Eids.
    2:{ exfalso. destruct (m_in s H u n x Hxin) as [C|C]; congruence. }
    destruct (m_ids s H u x ids Eids) as (_ & Hndi & Hne & Hval & Hiff).
    assert (Hgi : In g ids) by (apply Hiff in Hxin; unfold n in Hxin; rewrite Z2Nat.id in Hxin by lia; exact Hxin).
    assert (Hrest : forall s', (forall k y, In y (gget s' u k) <-> In y (gget s u k) /\ (k <> n \/ y <> x)) ->
               forall y, In y r -> In y (gget s' u n)).
    { intros s' Hgr y Hy. apply Hgr. split; [apply Hin; right; exact Hy|right]. intros ->. contradiction. }
    assert (Hg1 : forall k y, In y (gget s1 u k) <-> In y (gget s u k) /\ (k <> n \/ y <> x)).
    { intros k y. unfold gget. cbn. rewrite upd_same. destruct (Nat.eq_dec n k) as [<-|NE].
      - rewrite nth_set_nth_same by exact Hlt. rewrite do_remove_In. unfold gget. intuition.
      - rewrite nth_set_nth_other by exact NE. intuition. }
    destruct (length ids =? 1)%nat eqn:El.
    + (* last group of x: it leaves the multiplexer *)
      apply Nat.eqb_eq in El.
      assert (Eid : ids = [g]).
      { destruct ids as [|a [|b t]]; cbn in El; try lia. destruct Hgi as [->|[]]. reflexivity. }
      assert (Hmem : memb x (usigs s u) = true) by (apply (m_usigs s H); right; congruence).
      set (s2 := set_ugids (mux_remove_signal s1 u x) (upd2 (ugids (mux_remove_signal s1 u x)) u x None)).
      assert (H2 : InvM s2).
      { eapply (InvM_detach s s2 u x H Hmem).
        - unfold s2. cbn. autorewrite with reg. reflexivity.
        - unfold s2. cbn. autorewrite with reg. reflexivity.
        - intros u' NE. unfold s2. cbn. autorewrite with reg. cbn. rewrite upd_other by exact NE. reflexivity.
        - unfold s2. cbn. autorewrite with reg. cbn. rewrite upd_same. apply set_nth_length.
        - intros k y. assert (E : gget s2 u k = gget s1 u k) by (unfold s2, gget; cbn; autorewrite with reg; reflexivity).
          rewrite E, Hg1. split; [|tauto]. intros [Hy [NEk|NEx]]; [|tauto]. split; [exact Hy|].
          intros ->. apply NEk. apply Hiff in Hy. rewrite Eid in Hy. destruct Hy as [Hy|[]]. unfold n. lia.
        - intros u' x'. unfold s2. cbn. autorewrite with reg. destruct (Nat.eqb_spec u' u) as [->|]; cbn [andb]; [|reflexivity].
          destruct (Nat.eqb_spec x' x) as [->|]; [exact Efx|reflexivity].
        - intros u' x'. unfold s2. cbn. unfold upd2. destruct (Nat.eqb u' u); cbn [andb]; [|autorewrite with reg; reflexivity].
          destruct (Nat.eqb x' x); autorewrite with reg; reflexivity.
        - intros u'. unfold s2. cbn. rewrite usigs_mux_remove. reflexivity.
        - intros y. unfold s2. cbn. rewrite pmux_mux_remove. reflexivity. }
      apply IH; try assumption.
      * unfold s2. cbn. autorewrite with reg. cbn. rewrite upd_same. rewrite set_nth_length. exact Hlt.
      * intros y Hy. assert (E : gget s2 u (Z.to_nat g) = gget s1 u n) by (unfold s2, gget; cbn; autorewrite with reg; reflexivity).
        rewrite E. apply (Hrest s1 Hg1 y Hy).
    + apply Nat.eqb_neq in El.
      set (s2 := set_ugids s1 (upd2 (ugids s1) u x (Some (lremZ g ids)))).
      assert (H2 : InvM s2) by (unfold s2, s1, n; exact (InvM_leave_group s u x ids g H Efx Eids Hgi El)).
      apply IH; try assumption.
      * unfold s2. cbn. rewrite upd_same. rewrite set_nth_length. exact Hlt.
      * intros y Hy. assert (E : gget s2 u (Z.to_nat g) = gget s1 u n) by reflexivity. rewrite E. apply (Hrest s1 Hg1 y Hy).
Qed.

Lemma invm_clear_group_loop : forall xs s u g,
  InvM s -> 0 <= g -> (Z.to_nat g < length (ugroups s u))%nat ->
  NoDup xs -> (forall y, In y xs -> In y (gget s u (Z.to_nat g))) ->
  InvM (fst (clear_group_loop s u g xs)).
Proof. intros xs s u g H Hg Hlt Hnd Hin. apply (proj1 (clear_group_loop_ok xs s u g H Hg Hlt Hnd Hin)). Qed.

Lemma invm_mux_clear_group : forall s u g, InvA s -> InvM s -> vmux s u = true -> InvM (fst (step_mux_clear_group s u g)).
Proof.
  intros s u g HA H Hu. unfold step_mux_clear_group. unfold verify_gid.
  destruct (Z.ltb_spec g 0); [exact H|]. destruct (Z.leb_spec (mux_count s u) g); [exact H|].
  pose proof (invm_clear_group_loop (gget s u (Z.to_nat g)) s u g H ltac:(lia)) as P.
  destruct (clear_group_loop s u g (gget s u (Z.to_nat g))) as [s1 p]. cbn [fst] in *. apply P.
  - unfold vmux in Hu. apply andb_true_iff in Hu. destruct Hu as [Hv Hm]. unfold is_mux in Hm. unfold mux_count in *.
    destruct (kind s u) as [| |c gs] eqn:Ek; try discriminate.
    destruct (m_len s H u c gs Ek (vsig_lt s u Hv)) as [El _]. rewrite El. lia.
  - eapply ok_NoDup. apply (a_ok s HA (LG u (Z.to_nat g))).
  - intros y Hy. exact Hy.
Qed.

(* --- ClearAllSignalGroups --------------------------------------------------------------------- *)

Lemma fold_mux_remove_spec : forall xs s u,
  let s1 := fold_left (fun acc x => mux_remove_signal acc u x) xs s in
  nsig s1 = nsig s /\ kind s1 = kind s /\ ugroups s1 = ugroups s /\ ufixed s1 = ufixed s /\ ugids s1 = ugids s
  /\ (forall u', u' <> u -> usigs s1 u' = usigs s u')
  /\ (forall y, In y (usigs s1 u) -> In y (usigs s u) /\ ~ In y xs)
  /\ (forall y, pmux s1 y = if memb y xs then None else pmux s y).
Proof.
  induction xs as [|x r IH]; intros s u; cbn [fold_left].
  - cbn zeta. split; [reflexivity|]. split; [reflexivity|]. split; [reflexivity|]. split; [reflexivity|]. split; [reflexivity|].
    split; [intros; reflexivity|]. split; [intros y Hy; split; [exact Hy|intros []]|intros y; reflexivity].
  - destruct (IH (mux_remove_signal s u x) u) as (A & B & C & D & E & F & G & P). cbn zeta in *.
    autorewrite with reg in *.
    split; [exact A|]. split; [exact B|]. split; [exact C|]. split; [exact D|]. split; [exact E|].
    split; [|split].
    + intros u' NE. rewrite F by exact NE. rewrite usigs_mux_remove. destruct (Nat.eqb_spec u' u); [contradiction|reflexivity].
    + intros y Hy. destruct (G y Hy) as [G1 G2]. rewrite usigs_mux_remove in G1. rewrite Nat.eqb_refl in G1. apply lrem_In in G1.
      split; [tauto|]. intros [<-|Hin]; [tauto|contradiction].
    + intros y. rewrite P. rewrite pmux_mux_remove. unfold memb at 2. cbn [existsb]. fold (memb y r).
      unfold upd. destruct (Nat.eqb_spec y x) as [->|NE]; cbn [orb].
      * destruct (memb x r); reflexivity.
      * reflexivity.
Qed.

Lemma invm_mux_clear_all : forall s u, InvM s -> InvM (fst (step_mux_clear_all s u)).
Proof.
  intros s u H. unfold step_mux_clear_all. cbn [fst].
  set (s1 := fold_left (fun acc x => mux_remove_signal acc u x) (usigs s u) s).
  destruct (fold_mux_remove_spec (usigs s u) s u) as (A & B & C & D & E & F & G & P). fold s1 in A, B, C, D, E, F, G, P.
  assert (Hus : usigs s1 u = []).
  { destruct (usigs s1 u) as [|a t] eqn:Eu; [reflexivity|]. exfalso. destruct (G a ltac:(left; reflexivity)) as [G1 G2]. contradiction. }
  set (s' := set_ufixed _ _).
  assert (Hgo : forall u' k, u' <> u -> gget s' u' k = gget s u' k).
  { intros u' k NE. unfold gget. cbn. rewrite upd_other by exact NE. rewrite C. reflexivity. }
  assert (Hgu : forall k, gget s' u k = []).
  { intros k. unfold gget. cbn. rewrite upd_same. apply nth_map_const_nil. }
  assert (Hfx : forall u' x', ufixed s' u' x' = if Nat.eqb u' u then false else ufixed s u' x').
  { intros. cbn. rewrite D. reflexivity. }
  assert (Hid : forall u' x', ugids s' u' x' = if Nat.eqb u' u then None else ugids s u' x').
  { intros. cbn. rewrite E. reflexivity. }
  constructor.
  - intros u' c g K Hu. cbn in K, Hu. rewrite B in K. rewrite A in Hu. cbn. unfold upd.
    destruct (Nat.eqb_spec u' u) as [->|NE]; [rewrite map_length|]; rewrite C; apply (m_len s H _ c g K Hu).
  - intros u' x'. rewrite Hfx, Hid. destruct (Nat.eqb_spec u' u) as [->|NE]; [discriminate|].
    intros Fx. destruct (m_fixed s H u' x' Fx) as [X Y]. split; [exact X|]. intros k Hk. rewrite Hgo by exact NE. apply Y.
    cbn in Hk. rewrite upd_other in Hk by exact NE. rewrite C in Hk. exact Hk.
  - intros u' x' ids. rewrite Hfx, Hid. destruct (Nat.eqb_spec u' u) as [->|NE]; [discriminate|].
    intros Fi. destruct (m_ids s H u' x' ids Fi) as (X1 & X2 & X3 & X4 & X5).
    split; [exact X1|split; [exact X2|split; [exact X3|]]]. split.
    + intros g Hg. cbn. rewrite upd_other by exact NE. rewrite C. apply X4. exact Hg.
    + intros k. rewrite Hgo by exact NE. apply X5.
  - intros u' k x' Hin. rewrite Hfx, Hid. destruct (Nat.eqb_spec u' u) as [->|NE]; [rewrite Hgu in Hin; destruct Hin|].
    rewrite Hgo in Hin by exact NE. apply (m_in s H u' k x' Hin).
  - intros u' x'. rewrite Hfx, Hid. change (usigs s' u') with (usigs s1 u').
    destruct (Nat.eqb_spec u' u) as [->|NE].
    + rewrite Hus. cbn. split; [discriminate|intros [X|X]; [discriminate|congruence]].
    + rewrite F by exact NE. apply (m_usigs s H).
  - intros u' k x' Hin. change (pmux s' x') with (pmux s1 x'). rewrite P.
    destruct (Nat.eq_dec u' u) as [->|NE]; [rewrite Hgu in Hin; destruct Hin|].
    rewrite Hgo in Hin by exact NE. pose proof (m_pmux s H u' k x' Hin) as Px.
    destruct (memb x' (usigs s u)) eqn:Em; [|exact Px]. pose proof (m_pmux2 s H u x' Em). congruence.
  - intros u' x'. change (usigs s' u') with (usigs s1 u'). change (pmux s' x') with (pmux s1 x'). rewrite P.
    destruct (Nat.eq_dec u' u) as [->|NE]; [rewrite Hus; discriminate|]. rewrite F by exact NE. intros Hm.
    pose proof (m_pmux2 s H u' x' Hm) as Px. destruct (memb x' (usigs s u)) eqn:Em; [|exact Px].
    pose proof (m_pmux2 s H u x' Em). congruence.
  - intros u' x'. change (usigs s' u') with (usigs s1 u'). change (pmux s' x') with (pmux s1 x'). rewrite P.
    destruct (memb x' (usigs s u)) eqn:Em; [discriminate|]. intros Cp. pose proof (m_pmux3 s H u' x' Cp) as Hm.
    destruct (Nat.eq_dec u' u) as [->|NE]; [congruence|]. rewrite F by exact NE. exact Hm.
  - intros u' x' Hu. cbn in Hu. rewrite A in Hu. rewrite Hfx, Hid. change (usigs s' u') with (usigs s1 u').
    destruct (m_unalloc s H u' x' Hu) as (X & Y & Z).
    destruct (Nat.eqb_spec u' u) as [->|NE]; [repeat split; try reflexivity; exact Hus|].
    rewrite F by exact NE. repeat split; assumption.
  - intros u' x'. rewrite Hfx. destruct (Nat.eqb u' u); [discriminate|]. intros Fx.
    destruct (m_fixed_mux s H u' x' Fx) as [X Y]. split; [|cbn; rewrite A; exact Y].
    unfold is_mux in *. cbn. rewrite B. exact X.
  - intros u'. change (usigs s' u') with (usigs s1 u'). destruct (Nat.eq_dec u' u) as [->|NE]; [rewrite Hus; constructor|].
    rewrite F by exact NE. apply (m_usigs_nd s H).
Qed.

(* --- InsertSignal ---------------------------------------------------------------------------------- *)

Lemma InvM_attach : forall s s' u x (T : nat -> Prop) (newfixed : bool) (newids : option (list Z)),
  InvM s ->
  (forall u', u' <> u -> memb x (usigs s u') = false) ->
  is_mux s u = true -> (u < nsig s)%nat ->
  nsig s' = nsig s -> kind s' = kind s ->
  (forall u', u' <> u -> ugroups s' u' = ugroups s u') ->
  length (ugroups s' u) = length (ugroups s u) ->
  (forall k, T k -> (k < length (ugroups s u))%nat) ->
  (forall k y, In y (gget s' u k) <-> In y (gget s u k) \/ (y = x /\ T k)) ->
  (forall u' x', ufixed s' u' x' = if Nat.eqb u' u && Nat.eqb x' x then newfixed else ufixed s u' x') ->
  (forall u' x', ugids s' u' x' = if Nat.eqb u' u && Nat.eqb x' x then newids else ugids s u' x') ->
  (forall u', usigs s' u' = if Nat.eqb u' u then ladd x (usigs s u) else usigs s u') ->
  (forall y, pmux s' y = upd (pmux s) x (Some u) y) ->
  (newfixed = true -> newids = None /\ forall k, (k < length (ugroups s u))%nat -> T k \/ In x (gget s u k)) ->
  (forall ids, newids = Some ids -> newfixed = false /\ NoDup ids /\ ids <> []
     /\ (forall g, In g ids -> 0 <= g /\ (Z.to_nat g < length (ugroups s u))%nat)
     /\ (forall k : nat, (In x (gget s u k) \/ T k) <-> In (Z.of_nat k) ids)) ->
  (newfixed = true \/ newids <> None) ->
  InvM s'.
Proof.
  intros s s' u x T newfixed newids H Hother Hmux Hu En Ek Eg Elen HT Hgr Ef Ei Eu Ep Hfx Hids Hsome.
  assert (Hgo : forall u' g, u' <> u -> gget s' u' g = gget s u' g) by (intros; unfold gget; rewrite Eg by assumption; reflexivity).
  constructor.
  - intros u' c g K Hu'. rewrite En in Hu'. rewrite Ek in K. destruct (Nat.eq_dec u' u) as [->|NE].
    + rewrite Elen. apply (m_len s H u c g K Hu').
    + rewrite Eg by exact NE. apply (m_len s H u' c g K Hu').
  - intros u' x'. rewrite Ef, Ei. destruct (Nat.eqb_spec u' u) as [->|NE]; cbn [andb].
    + destruct (Nat.eqb_spec x' x) as [->|NEx].
      * intros F. destruct (Hfx F) as [A B]. split; [exact A|]. intros k Hk. rewrite Elen in Hk. apply Hgr.
        destruct (B k Hk) as [Tk|Hin]; [right; split; [reflexivity|exact Tk]|left; exact Hin].
      * intros F. destruct (m_fixed s H u x' F) as [A B]. split; [exact A|]. intros k Hk. rewrite Elen in Hk.
        apply Hgr. left. apply B. exact Hk.
    + intros F. destruct (m_fixed s H u' x' F) as [A B]. split; [exact A|]. intros k Hk. rewrite Hgo by exact NE.
      apply B. rewrite Eg in Hk by exact NE. exact Hk.
  - intros u' x' ids. rewrite Ei, Ef. destruct (Nat.eqb_spec u' u) as [->|NE]; cbn [andb].
    + destruct (Nat.eqb_spec x' x) as [->|NEx].
      * intros F. destruct (Hids ids F) as (A & B & C & D & G). split; [exact A|split; [exact B|split; [exact C|]]].
        split; [intros g Hg; rewrite Elen; apply D; exact Hg|]. intros k. rewrite Hgr, <- G.
        split; [intros [X|[_ X]]; [left; exact X|right; exact X]|intros [X|X]; [left; exact X|right; split; [reflexivity|exact X]]].
      * intros F. destruct (m_ids s H u x' ids F) as (A & B & C & D & G). split; [exact A|split; [exact B|split; [exact C|]]].
        split; [intros g Hg; rewrite Elen; apply D; exact Hg|]. intros k. rewrite Hgr, <- G.
        split; [intros [X|[X _]]; [exact X|contradiction]|intros X; left; exact X].
    + intros F. destruct (m_ids s H u' x' ids F) as (A & B & C & D & G). split; [exact A|split; [exact B|split; [exact C|]]].
      split; [intros g Hg; rewrite Eg by exact NE; apply D; exact Hg|]. intros k. rewrite Hgo by exact NE. apply G.
  - intros u' k x' Hin. rewrite Ef, Ei. destruct (Nat.eqb_spec u' u) as [->|NE]; cbn [andb].
    + destruct (Nat.eqb_spec x' x) as [->|NEx].
      * destruct Hsome as [X|X]; [left; exact X|right; exact X].
      * apply Hgr in Hin. destruct Hin as [Hin|[C _]]; [apply (m_in s H u k x' Hin)|contradiction].
    + rewrite Hgo in Hin by exact NE. apply (m_in s H u' k x' Hin).
  - intros u' x'. rewrite Eu, Ef, Ei. destruct (Nat.eqb_spec u' u) as [->|NE]; cbn [andb]; [|apply (m_usigs s H)].
    destruct (Nat.eqb_spec x' x) as [->|NEx].
    + split; [intros _; destruct Hsome as [X|X]; [left; exact X|right; exact X]|intros _; apply memb_In; apply ladd_In; left; reflexivity].
    + rewrite <- (m_usigs s H u x'). split; intros C.
      * apply memb_In in C. apply ladd_In in C. destruct C as [C|C]; [contradiction|apply memb_In; exact C].
      * apply memb_In. apply ladd_In. right. apply memb_In. exact C.
  - intros u' k x' Hin. rewrite Ep. unfold upd. destruct (Nat.eqb_spec x' x) as [->|NEx].
    + destruct (Nat.eq_dec u' u) as [->|NE]; [reflexivity|]. exfalso.
      rewrite Hgo in Hin by exact NE. destruct (m_in s H u' k x Hin) as [F|F].
      * assert (memb x (usigs s u') = true) by (apply (m_usigs s H); left; exact F). rewrite Hother in H0 by exact NE. discriminate.
      * assert (memb x (usigs s u') = true) by (apply (m_usigs s H); right; exact F). rewrite Hother in H0 by exact NE. discriminate.
    + destruct (Nat.eq_dec u' u) as [->|NE].
      * apply Hgr in Hin. destruct Hin as [Hin|[C _]]; [apply (m_pmux s H u k x' Hin)|contradiction].
      * rewrite Hgo in Hin by exact NE. apply (m_pmux s H u' k x' Hin).
  - intros u' x'. rewrite Eu, Ep. unfold upd. destruct (Nat.eqb_spec u' u) as [->|NE].
    + intros C. destruct (Nat.eqb_spec x' x) as [->|NEx]; [reflexivity|].
      apply memb_In in C. apply ladd_In in C. destruct C as [C|C]; [contradiction|]. apply (m_pmux2 s H). apply memb_In. exact C.
    + intros C. destruct (Nat.eqb_spec x' x) as [->|NEx]; [rewrite Hother in C by exact NE; discriminate|apply (m_pmux2 s H); exact C].
  - intros u' x'. rewrite Eu, Ep. unfold upd. destruct (Nat.eqb_spec x' x) as [->|NEx].
    + intros C. inversion C; subst u'. rewrite Nat.eqb_refl. apply memb_In. apply ladd_In. left; reflexivity.
    + intros C. pose proof (m_pmux3 s H u' x' C) as Hm. destruct (Nat.eqb_spec u' u) as [->|NE]; [|exact Hm].
      apply memb_In. apply ladd_In. right. apply memb_In. exact Hm.
  - intros u' x' Hu'. rewrite En in Hu'. rewrite Ef, Ei, Eu. destruct (m_unalloc s H u' x' Hu') as (A & B & C).
    destruct (Nat.eqb_spec u' u) as [->|NE]; [lia|]. cbn [andb]. repeat split; assumption.
  - intros u' x'. rewrite Ef, En. unfold is_mux. rewrite Ek. destruct (Nat.eqb_spec u' u) as [->|NE]; cbn [andb].
    + intros _. split; [exact Hmux|exact Hu].
    + apply (m_fixed_mux s H u' x').
  - intros u'. rewrite Eu. destruct (Nat.eqb u' u); [apply ladd_NoDup|]; apply (m_usigs_nd s H).
Qed.

Lemma insert_sortZ_In : forall x l y, In y (insert_sortZ x l) <-> y = x \/ In y l.
Proof.
  induction l as [|a r IH]; intros y; cbn [insert_sortZ]; [cbn; intuition|].
  destruct (x <=? a); cbn [In]; [intuition|]. rewrite IH. intuition.
Qed.
Lemma sortZ_In : forall l y, In y (sortZ l) <-> In y l.
Proof.
  induction l as [|a r IH]; intros y; cbn [sortZ fold_right]; [tauto|].
  fold (sortZ r). rewrite insert_sortZ_In, IH. cbn [In]. intuition.
Qed.
Lemma insert_sortZ_NoDup : forall x l, NoDup l -> ~ In x l -> NoDup (insert_sortZ x l).
Proof.
  induction l as [|a r IH]; intros Hnd Hn; cbn [insert_sortZ]; [constructor; [intros []|constructor]|].
  destruct (x <=? a); [constructor; assumption|].
  inversion Hnd as [|? ? Ha Hr]; subst. constructor.
  - rewrite insert_sortZ_In. intros [->|C]; [apply Hn; left; reflexivity|contradiction].
  - apply IH; [exact Hr|]. intros C. apply Hn. right; exact C.
Qed.
Lemma sortZ_NoDup : forall l, NoDup l -> NoDup (sortZ l).
Proof.
  induction l as [|a r IH]; intros Hnd; cbn [sortZ fold_right]; [constructor|]. fold (sortZ r).
  inversion Hnd as [|? ? Ha Hr]; subst. apply insert_sortZ_NoDup; [apply IH; exact Hr|]. rewrite sortZ_In. exact Ha.
Qed.

Lemma ins_all_In : forall pos gs x b k y,
  In y (nth k (snd (insert_all pos gs x b)) []) <-> In y (nth k gs []) \/ (y = x /\ (k < length gs)%nat).
Proof.
  intros pos gs x b k y. destruct gs as [|l0 r]; cbn [insert_all snd].
  - destruct k; cbn; intuition lia.
  - destruct k as [|k']; cbn [nth length].
    + rewrite insert_at_In. intuition lia.
    + destruct (Nat.lt_ge_cases k' (length r)) as [Hlt|Hge].
      * rewrite (nth_map_lt _ r k' [] [] Hlt). rewrite insert_at_In. intuition lia.
      * rewrite !nth_overflow; [cbn; intuition lia|exact Hge|rewrite map_length; exact Hge].
Qed.

Lemma ins_ids_In : forall pos gs ids x b k y, NoDup (map Z.to_nat ids) ->
  In y (nth k (snd (insert_ids pos gs ids x b)) []) <->
  In y (nth k gs []) \/ (y = x /\ In k (map Z.to_nat ids) /\ (k < length gs)%nat).
Proof.
  intros pos gs ids x b k y Hnd. destruct ids as [|g r]; cbn [insert_ids snd]; [cbn; intuition|].
  cbn [map] in Hnd. inversion Hnd as [|? ? Hn Hnd']; subst.
  rewrite ins_from_spec by exact Hnd'. rewrite set_nth_length. cbn [map In].
  destruct (memb k (map Z.to_nat r)) eqn:Em; cbn [andb].
  - apply memb_In in Em. assert (NE : Z.to_nat g <> k) by (intros <-; contradiction).
    destruct (Nat.ltb_spec k (length gs)).
    + rewrite insert_at_In. rewrite nth_set_nth_other by exact NE. intuition.
    + rewrite nth_set_nth_other by exact NE. intuition lia.
  - assert (Hnr : ~ In k (map Z.to_nat r)) by (intros C; apply memb_In in C; congruence).
    destruct (Nat.eq_dec (Z.to_nat g) k) as [E|NE].
    + subst k. destruct (Nat.lt_ge_cases (Z.to_nat g) (length gs)).
      * rewrite nth_set_nth_same by assumption. rewrite insert_at_In. intuition.
      * rewrite nth_set_nth_oob by assumption. intuition lia.
    + rewrite nth_set_nth_other by exact NE. intuition.
Qed.

Lemma usigs_attached : forall s u x, InvM s -> memb x (usigs s u) = true -> attached s x.
Proof.
  intros s u x H Hm. apply (m_usigs s H) in Hm. destruct Hm as [F|F].
  - destruct (m_fixed_mux s H u x F) as [Hmx Hu]. unfold is_mux in Hmx.
    destruct (kind s u) as [| |c g] eqn:K; try discriminate.
    destruct (m_len s H u c g K Hu) as [El Hc]. destruct (m_fixed s H u x F) as [_ B].
    exists (LG u 0%nat). cbn [lay]. apply B. rewrite El. lia.
  - destruct (ugids s u x) as [ids|] eqn:E; [|congruence].
    destruct (m_ids s H u x ids E) as (_ & _ & Hne & Hval & Hiff).
    destruct ids as [|g r]; [congruence|]. destruct (Hval g (or_introl eq_refl)) as [Hg _].
    exists (LG u (Z.to_nat g)). cbn [lay]. apply Hiff. rewrite Z2Nat.id by lia. left; reflexivity.
Qed.

Lemma NoDup_app_intro : forall (l1 l2 : list Z), NoDup l1 -> NoDup l2 -> (forall g, In g l1 -> In g l2 -> False) -> NoDup (l1 ++ l2).
Proof.
  induction l1 as [|a r IH]; intros l2 H1 H2 Hd; cbn [app]; [exact H2|].
  inversion H1 as [|? ? Ha Hr]; subst. constructor.
  - rewrite in_app_iff. intros [C|C]; [contradiction|apply (Hd a); [left; reflexivity|exact C]].
  - apply IH; [exact Hr|exact H2|]. intros g G1 G2. apply (Hd g); [right; exact G1|exact G2].
Qed.

Lemma invm_mux_insert : forall s u x b gids, InvA s -> InvM s -> vmux s u = true -> vsig s x = true ->
  ok_op s (OMuxInsert u x b gids) -> InvM (fst (step_mux_insert s u x b gids)).
Proof.
  intros s u x b gids HA H Hu Hx Hop. cbn [ok_op] in Hop. unfold step_mux_insert.
  destruct (if memb x (unames s u) then false else match pmsg s u with Some m => memb x (gnames s m) | None => false end); [exact H|].
  assert (Hmux : is_mux s u = true) by (unfold vmux in Hu; apply andb_true_iff in Hu; tauto).
  assert (Hult : (u < nsig s)%nat) by (apply vmux_lt; exact Hu).
  assert (Hlen : length (ugroups s u) = Z.to_nat (mux_count s u) /\ 1 <= mux_count s u).
  { unfold is_mux in Hmux. unfold mux_count. destruct (kind s u) as [| |c g] eqn:K; try discriminate. apply (m_len s H u c g K Hult). }
  assert (Hother : forall u', u' <> u -> memb x (usigs s u') = false).
  { intros u' NE. destruct (memb x (usigs s u')) eqn:E; [|reflexivity]. exfalso.
    destruct Hop as [NA|[P _]]; [apply NA; eapply usigs_attached; eauto|].
    pose proof (m_pmux2 s H u x P). pose proof (m_pmux2 s H u' x E). congruence. }
  destruct gids as [|g0 gr].
  - (* fixed *)
    destruct (memb x (usigs s u)) eqn:Ep; [exact H|].
    assert (Hnf : ufixed s u x = false /\ ugids s u x = None).
    { destruct (ufixed s u x) eqn:F.
      - assert (memb x (usigs s u) = true) by (apply (m_usigs s H); left; exact F). congruence.
      - split; [reflexivity|]. destruct (ugids s u x) eqn:G; [|reflexivity].
        assert (memb x (usigs s u) = true) by (apply (m_usigs s H); right; congruence). congruence. }
    destruct Hnf as [Hnfx Hnid].
    assert (Hnin : forall k, ~ In x (gget s u k)).
    { intros k Hin. destruct (m_in s H u k x Hin) as [C|C]; congruence. }
    destruct (first_err (fun l => verify_insert (sz s) (rel s) (mux_gsize s u) l x b) (ugroups s u)) eqn:Ev; [exact H|].
    destruct (insert_all (rel s) (ugroups s u) x b) as [pos gs] eqn:Ei. cbn [fst].
    assert (Egs : gs = snd (insert_all (rel s) (ugroups s u) x b)) by (rewrite Ei; reflexivity).
    eapply (InvM_attach s _ u x (fun k => (k < length (ugroups s u))%nat) true None H Hother Hmux Hult).
    + cbn. autorewrite with reg. reflexivity.
    + cbn. autorewrite with reg. reflexivity.
    + intros u' NE. cbn. autorewrite with reg. cbn. rewrite upd_other by exact NE. reflexivity.
    + cbn. autorewrite with reg. cbn. rewrite upd_same. rewrite Egs. apply ins_all_length.
    + intros k Hk. exact Hk.
    + intros k y. unfold gget. cbn. autorewrite with reg. cbn. rewrite upd_same. rewrite Egs. apply ins_all_In.
    + intros u' x'. cbn. autorewrite with reg. cbn. unfold upd2. destruct (Nat.eqb u' u); cbn [andb]; [|reflexivity].
      destruct (Nat.eqb x' x); reflexivity.
    + intros u' x'. cbn. autorewrite with reg. cbn. destruct (Nat.eqb_spec u' u) as [->|]; cbn [andb]; [|reflexivity].
      destruct (Nat.eqb_spec x' x) as [->|]; [exact Hnid|reflexivity].
    + intros u'. cbn. rewrite usigs_mux_add. reflexivity.
    + intros y. cbn. rewrite pmux_mux_add. reflexivity.
    + intros _. split; [reflexivity|]. intros k Hk. left. exact Hk.
    + intros ids C. discriminate.
    + left. reflexivity.
  - (* group ids *)
    set (ids := dedup (g0 :: gr) []).
    set (present := memb x (usigs s u)). set (fixed := ufixed s u x).
    set (prev := match ugids s u x with Some l => l | None => [] end).
    destruct (verify_ids s u x b present fixed prev ids) eqn:Ev; [exact H|].
    destruct (insert_ids (rel s) (ugroups s u) ids x b) as [pos gs] eqn:Ei. cbn [fst].
    assert (Egs : gs = snd (insert_ids (rel s) (ugroups s u) ids x b)) by (rewrite Ei; reflexivity).
    destruct (dedup_spec (g0 :: gr) []) as [Hnd _]. fold ids in Hnd.
    assert (Hne : ids <> []) by (unfold ids; cbn [dedup membZ existsb]; discriminate).
    unfold verify_ids in Ev. pose proof (first_err_none _ _ Ev) as Hall. cbn beta in Hall.
    assert (Hfacts : forall g, In g ids -> 0 <= g < mux_count s u /\ fixed = false /\ ~ In g prev).
    { intros g Hg. specialize (Hall g Hg). unfold verify_gid in Hall.
      destruct (Z.ltb_spec g 0); [discriminate|]. destruct (Z.leb_spec (mux_count s u) g); [discriminate|].
      destruct fixed; [discriminate|]. cbn [orb] in Hall.
      destruct (membZ g prev) eqn:Em; [discriminate|]. split; [lia|split; [reflexivity|]].
      intros C. apply membZ_In in C. congruence. }
    assert (Hfx : fixed = false).
    { destruct ids as [|g1 r1]; [congruence|]. apply (Hfacts g1 (or_introl eq_refl)). }
    assert (Hpos : forall g, In g ids -> 0 <= g) by (intros g Hg; apply (Hfacts g Hg)).
    assert (HndN : NoDup (map Z.to_nat ids)) by (apply NoDup_map_to_nat; assumption).
    assert (Hmap : forall k, In k (map Z.to_nat ids) <-> In (Z.of_nat k) ids).
    { intros k. rewrite in_map_iff. split.
      - intros [g [E Hg]]. subst k. rewrite Z2Nat.id by (apply Hpos; exact Hg). exact Hg.
      - intros Hk. exists (Z.of_nat k). split; [lia|exact Hk]. }
    assert (Hprev : forall k, In x (gget s u k) <-> In (Z.of_nat k) prev).
    { intros k. unfold prev. destruct (ugids s u x) as [l|] eqn:G.
      - apply (m_ids s H u x l G).
      - split; [|intros []]. intros Hin. destruct (m_in s H u k x Hin) as [C|C]; [unfold fixed in Hfx; congruence|congruence]. }
    assert (HprevOK : NoDup prev /\ forall g, In g prev -> 0 <= g /\ (Z.to_nat g < length (ugroups s u))%nat).
    { unfold prev. destruct (ugids s u x) as [l|] eqn:G; [|split; [constructor|intros g []]].
      destruct (m_ids s H u x l G) as (_ & A & _ & B & _). split; assumption. }
    eapply (InvM_attach s _ u x (fun k => In (Z.of_nat k) ids) false (Some (sortZ (prev ++ ids))) H Hother Hmux Hult).
    + cbn. autorewrite with reg. reflexivity.
    + cbn. autorewrite with reg. reflexivity.
    + intros u' NE. cbn. autorewrite with reg. cbn. rewrite upd_other by exact NE. reflexivity.
    + cbn. autorewrite with reg. cbn. rewrite upd_same. rewrite Egs. apply ins_ids_length.
    + intros k Hk. destruct (Hfacts _ Hk) as [Hr _]. destruct Hlen as [El _]. rewrite El. lia.
    + intros k y. unfold gget. cbn. autorewrite with reg. cbn. rewrite upd_same. rewrite Egs.
      rewrite ins_ids_In by exact HndN. rewrite Hmap. split; [intros [A|(A & B & _)]; [left; exact A|right; split; assumption]|].
      intros [A|[A B]]; [left; exact A|right]. split; [exact A|split; [exact B|]].
      destruct (Hfacts _ B) as [Hr _]. destruct Hlen as [El _]. rewrite El. lia.
    + intros u' x'. cbn. autorewrite with reg. destruct (Nat.eqb_spec u' u) as [->|]; cbn [andb]; [|reflexivity].
      destruct (Nat.eqb_spec x' x) as [->|]; [exact Hfx|reflexivity].
    + intros u' x'. cbn. autorewrite with reg. cbn. unfold upd2. destruct (Nat.eqb u' u); cbn [andb]; [|reflexivity].
      destruct (Nat.eqb x' x); reflexivity.
    + intros u'. cbn. rewrite usigs_mux_add. reflexivity.
    + intros y. cbn. rewrite pmux_mux_add. reflexivity.
    + intros C. discriminate.
    + intros ids' E. inversion E; subst ids'. split; [reflexivity|].
      destruct HprevOK as [Pnd Pval]. split.
      * apply sortZ_NoDup. apply NoDup_app_intro; try assumption. intros g Hg1 Hg2. destruct (Hfacts g Hg2) as (_ & _ & C). contradiction.
      * split.
        -- intros C. destruct ids as [|g1 r1]; [congruence|]. assert (Hin : In g1 (sortZ (prev ++ g1 :: r1))).
           { apply sortZ_In. apply in_or_app. right. left. reflexivity. } rewrite C in Hin. destruct Hin.
        -- split.
           ++ intros g Hg. rewrite sortZ_In in Hg. apply in_app_or in Hg. destruct Hg as [Hg|Hg]; [apply Pval; exact Hg|].
              destruct (Hfacts g Hg) as [Hr _]. destruct Hlen as [El _]. rewrite El. lia.
           ++ intros k. rewrite sortZ_In, in_app_iff, Hprev. tauto.
    + right. discriminate.
Qed.

(* --- every operation ------------------------------------------------------------------------------ *)

Theorem invm_step : forall s o, InvA s -> InvM s -> ok_op s o -> InvM (fst (step s o)).
Proof.
  intros s o HA H Hop. destruct o; cbn [step].
  - apply invm_new_msg; exact H.
  - apply invm_new_std; assumption.
  - apply invm_new_enum; exact H.
  - apply invm_new_enumsig; assumption.
  - apply invm_new_mux; assumption.
  - destruct (vmsg s m && vsig s x); [apply invm_append|]; exact H.
  - destruct (vmsg s m && vsig s x); [apply invm_insert|]; exact H.
  - destruct (vmsg s m); [apply invm_remove|]; exact H.
  - destruct (vmsg s m); [apply invm_remove_all|]; exact H.
  - destruct (vmsg s m); [apply invm_shift|]; exact H.
  - destruct (vmsg s m); [apply invm_shift|]; exact H.
  - destruct (vmsg s m); [apply invm_compact|]; exact H.
  - destruct (vmsg s m); [apply invm_resize|]; exact H.
  - destruct (vmsg s m); exact H.
  - destruct (vsig s x); [apply invm_set_type|]; exact H.
  - destruct (vsig s x && venum s e); [apply invm_set_enum|]; exact H.
  - destruct (venum s e); [apply invm_add_value|]; exact H.
  - destruct (venum s e); [apply invm_remove_value|]; exact H.
  - destruct (venum s e); [apply invm_remove_all_values|]; exact H.
  - destruct (venum s e); [cbn [fst]; mcore_same s H|exact H].
  - destruct (vval s v); [apply invm_update_index|]; exact H.
  - destruct (vmux s u) eqn:Eu; cbn [andb]; [|exact H]. destruct (vsig s x) eqn:Ex; [|exact H].
    apply invm_mux_insert; assumption.
  - destruct (vmux s u); [apply invm_mux_remove|]; exact H.
  - destruct (vmux s u) eqn:Eu; [apply invm_mux_clear_group; assumption|exact H].
  - destruct (vmux s u); [apply invm_mux_clear_all|]; exact H.
  - destruct (vmux s u); [apply invm_mux_shift|]; exact H.
  - destruct (vmux s u); [apply invm_mux_shift|]; exact H.
  - destruct (vmsg s m); [|exact H]. unfold step_resize_bus. destruct (bytes <? 0); [exact H|]. destruct (gbytes s m =? bytes); [exact H|].
    destruct (2 ^ 60 - 1 <? bytes); [exact H|]. destruct (lim <? bytes); [exact H|]. apply invm_resize; exact H.
  - destruct (vsig s x); exact H.
Qed.

Lemma invm_init : InvM init.
Proof.
  constructor.
  - intros u c g K. cbn in K. discriminate.
  - intros u x F. cbn in F. discriminate.
  - intros u x ids C. cbn in C. discriminate.
  - intros u g x Hin. unfold gget in Hin. cbn in Hin. destruct g; destruct Hin.
  - intros u x. cbn. split; [discriminate|intros [C|C]; [discriminate|congruence]].
  - intros u g x Hin. unfold gget in Hin. cbn in Hin. destruct g; destruct Hin.
  - intros u x C. cbn in C. discriminate.
  - intros u x C. cbn in C. discriminate.
  - intros u x _. cbn. repeat split.
  - intros u x F. cbn in F. discriminate.
  - intros u. cbn. constructor.
Qed.

Lemma inv_both_from : forall ops s, InvA s -> InvM s -> ok_hist_from s ops ->
  InvA (fold_left (fun s o => fst (step s o)) ops s) /\ InvM (fold_left (fun s o => fst (step s o)) ops s).
Proof.
  induction ops as [|o r IH]; intros s HA HM Hh; cbn [fold_left]; [split; assumption|].
  destruct Hh as [Ho Hr]. apply IH; [apply inv_step; assumption|apply invm_step; assumption|exact Hr].
Qed.

Theorem invm_reachable : forall ops, ok_hist ops -> InvM (run ops).
Proof. intros ops Hh. unfold run. apply (inv_both_from ops init inv_init invm_init Hh). Qed.

(* the membership theorems, in the words of the property *)
Lemma membership_fixed_reachable : forall ops, ok_hist ops -> forall u x, ufixed (run ops) u x = true ->
  (forall g, (Z.of_nat g < mux_count (run ops) u) -> In x (gget (run ops) u g))
  /\ ugids (run ops) u x = None.
Proof.
  intros ops Hh u x F. pose proof (invm_reachable ops Hh) as H.
  destruct (m_fixed _ H u x F) as [A B]. split; [|exact A].
  intros g Hg. apply B. destruct (m_fixed_mux _ H u x F) as [Hm Hu]. unfold is_mux in Hm. unfold mux_count in Hg.
  destruct (kind (run ops) u) as [| |c gs] eqn:K; try discriminate.
  destruct (m_len _ H u c gs K Hu) as [El _]. rewrite El. lia.
Qed.

Lemma membership_ids_reachable : forall ops, ok_hist ops -> forall u x ids, ugids (run ops) u x = Some ids ->
  (forall g : nat, In x (gget (run ops) u g) <-> In (Z.of_nat g) ids)
  /\ NoDup ids /\ ids <> [] /\ (forall g, In g ids -> 0 <= g < mux_count (run ops) u) /\ ufixed (run ops) u x = false.
Proof.
  intros ops Hh u x ids E. pose proof (invm_reachable ops Hh) as H. pose proof (inv_reachable ops Hh) as HA.
  destruct (m_ids _ H u x ids E) as (A & B & C & D & G). split; [exact G|]. split; [exact B|]. split; [exact C|]. split; [|exact A].
  intros g Hg. destruct (D g Hg) as [D1 D2]. split; [exact D1|].
  (* a non-empty group exists, so u is an allocated multiplexer *)
  assert (Hin : In x (gget (run ops) u (Z.to_nat g))) by (apply G; rewrite Z2Nat.id by lia; exact Hg).
  pose proof (a_alloc _ HA (LG u (Z.to_nat g)) x Hin) as Hx.
  unfold mux_count. destruct (kind (run ops) u) as [n|e|c gs] eqn:K.
  - exfalso. pose proof (a_ok _ HA (LG u (Z.to_nat g))) as Hok. cbn [lay lsz] in Hok. unfold mux_gsize in Hok. rewrite K in Hok.
    pose proof (ok_In _ _ _ _ _ _ Hok Hin). lia.
  - exfalso. pose proof (a_ok _ HA (LG u (Z.to_nat g))) as Hok. cbn [lay lsz] in Hok. unfold mux_gsize in Hok. rewrite K in Hok.
    pose proof (ok_In _ _ _ _ _ _ Hok Hin). lia.
  - destruct (Nat.lt_ge_cases u (nsig (run ops))) as [Hu|Hu].
    + destruct (m_len _ H u c gs K Hu) as [El _]. rewrite El in D2. lia.
    + exfalso. rewrite (a_unalloc _ HA u Hu) in D2. cbn in D2. lia.
Qed.

(* every signal of a group is fixed or grouped, and its parent multiplexer is that multiplexer *)
Lemma membership_cover_reachable : forall ops, ok_hist ops -> forall u g x, In x (gget (run ops) u g) ->
  (ufixed (run ops) u x = true \/ ugids (run ops) u x <> None) /\ pmux (run ops) x = Some u.
Proof.
  intros ops Hh u g x Hin. pose proof (invm_reachable ops Hh) as H. split; [apply (m_in _ H u g x Hin)|apply (m_pmux _ H u g x Hin)].
Qed.

(* --- the hypotheses that remain once the membership invariant is available ----------------------- *)

(* C05's link invariant restricted to x, message level only: a top-level signal knows its message
   and is registered there; a signal in no layout has no parent *)
Definition link_top (s : state) (x : nat) : Prop :=
  (forall m, In x (glay s m) -> pmux s x = None /\ pmsg s x = Some m /\ memb x (gsigs s m) = true)
  /\ (~ attached s x -> pmux s x = None /\ pmsg s x = None).

Definition resize_ok_w (s : state) (x : nat) (a : Z) : Prop := link_top s x /\ single_moved s (rel s) x a.
Definition enum_resize_ok_w (s : state) (e : nat) (a : Z) : Prop :=
  (forall x, In x (erefs s e) -> resize_ok_w s x a) /\ (0 < a -> unshared s (erefs s e)).

Definition ok_op_w (s : state) (o : op) : Prop :=
  match o with
  | ONewMsg n => msg_size_ok n
  | OAppend m x | OInsert m x _ => ~ attached s x
  | OMuxInsert u x _ _ =>
      ~ attached s x \/ (memb x (usigs s u) = true /\ forall L, In x (lay s L) -> exists g, L = LG u g)
  | OSetType x n => resize_ok_w s x (n - sz s x)
  | OSetEnum x e => resize_ok_w s x (esize s e - sz s x)
  | OAddValue e idx => emax s e < idx -> esize_of (emin s e) idx <> esize s e ->
      enum_resize_ok_w s e (esize_of (emin s e) idx - esize s e)
  | OUpdateIndex v idx =>
      forall e, vpar s v = Some e ->
        esize_of (emin s e) (Z.max (Z.max 0 idx) (max_index s (lrem v (evals s e)))) <> esize s e ->
        enum_resize_ok_w s e (esize_of (emin s e) (Z.max (Z.max 0 idx) (max_index s (lrem v (evals s e)))) - esize s e)
  | OSetMinSize e n => forall x, In x (erefs s e) -> attached s x -> esize_of n (emax s e) <= esize s e
  | _ => True
  end.

Lemma link_ok_of_top : forall s x, InvA s -> InvM s -> link_top s x -> link_ok s x.
Proof.
  intros s x HA H [Ltop Lfree]. split; [|split; [|split; [|split]]].
  - exact Ltop.
  - intros u g Hin. pose proof (m_pmux s H u g x Hin) as P. split; [exact P|].
    assert (Hmem : memb x (usigs s u) = true) by (apply (m_usigs s H); apply (m_in s H u g x Hin)). split; [exact Hmem|].
    unfold groups_of. destruct (ufixed s u x) eqn:F.
    + destruct (m_fixed_mux s H u x F) as [Hmx Hu]. unfold is_mux in Hmx. unfold mux_count. destruct (kind s u) as [| |c gs] eqn:K; try discriminate.
      destruct (m_len s H u c gs K Hu) as [El Hc]. eexists. split; [reflexivity|]. apply in_seq.
      assert (g < length (ugroups s u))%nat.
      { destruct (Nat.lt_ge_cases g (length (ugroups s u))) as [A|A]; [exact A|]. unfold gget in Hin. rewrite nth_overflow in Hin by exact A. destruct Hin. }
      lia.
    + destruct (m_in s H u g x Hin) as [C|C]; [congruence|]. destruct (ugids s u x) as [ids|] eqn:Ei; [|congruence].
      destruct (m_ids s H u x ids Ei) as (_ & _ & _ & _ & Hiff). eexists. split; [reflexivity|].
      apply in_map_iff. exists (Z.of_nat g). split; [lia|apply Hiff; exact Hin].
  - intros u gs P E. unfold groups_of in E. destruct (ufixed s u x); [inversion E; apply seq_NoDup|].
    destruct (ugids s u x) as [ids|] eqn:Ei; [|discriminate]. inversion E; subst gs.
    destruct (m_ids s H u x ids Ei) as (_ & Hnd & _ & Hval & _). apply NoDup_map_to_nat; [exact Hnd|]. intros g Hg. apply (Hval g Hg).
  - exact Lfree.
  - intros u gs P E g Hg. unfold groups_of in E. destruct (ufixed s u x) eqn:F.
    + inversion E; subst gs. apply in_seq in Hg. destruct (m_fixed s H u x F) as [_ Hall]. apply Hall.
      destruct (m_fixed_mux s H u x F) as [Hmx Hu]. unfold is_mux in Hmx. unfold mux_count in Hg.
      destruct (kind s u) as [| |c gsz] eqn:K; try discriminate. destruct (m_len s H u c gsz K Hu) as [El _]. lia.
    + destruct (ugids s u x) as [ids|] eqn:Ei; [|discriminate]. inversion E; subst gs.
      destruct (m_ids s H u x ids Ei) as (_ & _ & _ & Hval & Hiff). apply in_map_iff in Hg. destruct Hg as [z [<- Hz]].
      apply Hiff. destruct (Hval z Hz) as [Hz0 _]. rewrite Z2Nat.id by exact Hz0. exact Hz.
Qed.

Lemma ok_op_of_w : forall s o, InvA s -> InvM s -> ok_op_w s o -> ok_op s o.
Proof.
  intros s o HA H Hw. destruct o; cbn [ok_op ok_op_w] in *; try exact Hw; try exact I.
  - destruct Hw as [Lt Hs]. split; [apply link_ok_of_top; assumption|exact Hs].
  - destruct Hw as [Lt Hs]. split; [apply link_ok_of_top; assumption|exact Hs].
  - intros A B. destruct (Hw A B) as [R U]. split; [|exact U]. intros x Hx. destruct (R x Hx) as [Lt Hs].
    split; [apply link_ok_of_top; assumption|exact Hs].
  - intros e A B. destruct (Hw e A B) as [R U]. split; [|exact U]. intros x Hx. destruct (R x Hx) as [Lt Hs].
    split; [apply link_ok_of_top; assumption|exact Hs].
  - intros ids Ei g Eg g' Hin. subst ids. destruct (m_ids s H u x [g] Ei) as (_ & _ & _ & Hval & Hiff).
    apply Hiff in Hin. destruct Hin as [Hin|[]]. lia.
  - intros ids Ei g Eg g' Hin. subst ids. destruct (m_ids s H u x [g] Ei) as (_ & _ & _ & Hval & Hiff).
    apply Hiff in Hin. destruct Hin as [Hin|[]]. lia.
Qed.

Fixpoint ok_hist_w_from (s : state) (ops : list op) : Prop :=
  match ops with
  | [] => True
  | o :: r => ok_op_w s o /\ ok_hist_w_from (fst (step s o)) r
  end.
Definition ok_hist_w (ops : list op) : Prop := ok_hist_w_from init ops.

Lemma ok_hist_of_w_from : forall ops s, InvA s -> InvM s -> ok_hist_w_from s ops -> ok_hist_from s ops.
Proof.
  induction ops as [|o r IH]; intros s HA H Hw; cbn [ok_hist_from ok_hist_w_from] in *; [exact I|].
  destruct Hw as [Ho Hr]. pose proof (ok_op_of_w s o HA H Ho) as Hop. split; [exact Hop|].
  apply IH; [apply inv_step; assumption|apply invm_step; assumption|exact Hr].
Qed.

Theorem ok_hist_of_w : forall ops, ok_hist_w ops -> ok_hist ops.
Proof. intros ops Hw. apply (ok_hist_of_w_from ops init inv_init invm_init Hw). Qed.

(* --- insert_refused_iff ---------------------------------------------------------------------------- *)

Definition is_ok (r : result) : Prop := r = ROk.

(* [b, b + size x) lies inside group g of u and is free there *)
Definition range_free (s : state) (u g x : nat) (b : Z) : Prop :=
  0 <= b /\ b + sz s x <= mux_gsize s u
  /\ forall t, In t (gget s u g) -> b + sz s x <= rel s t \/ rel s t + sz s t <= b.

(* the name of x is free: x is already known to the multiplexer, or unknown to the owning message *)
Definition name_free (s : state) (u x : nat) : Prop :=
  memb x (unames s u) = true \/ match pmsg s u with Some m => memb x (gnames s m) = false | None => True end.

Lemma verify_insert_range_free : forall s u g x b, InvA s ->
  (verify_insert (sz s) (rel s) (mux_gsize s u) (gget s u g) x b = None <-> range_free s u g x b).
Proof.
  intros s u g x b HA. pose proof (a_ok s HA (LG u g)) as Hok. cbn [lay lsz] in Hok.
  rewrite (verify_insert_spec _ _ _ _ _ _ Hok). unfold range_free, disjoint_from. pose proof (a_size s HA x).
  split; [intros (A & B & C & D); repeat split; try lia; exact D|intros (A & B & C); repeat split; try lia; exact C].
Qed.

Lemma first_err_none_iff : forall {A} (f : A -> option cause) l, first_err f l = None <-> forall a, In a l -> f a = None.
Proof.
  intros A f l. split; [apply first_err_none|]. induction l as [|a r IH]; intros Hall; cbn [first_err]; [reflexivity|].
  rewrite (Hall a (or_introl eq_refl)). apply IH. intros a' Ha'. apply Hall. right; exact Ha'.
Qed.

Lemma dedup_In : forall l seen g, In g (dedup l seen) <-> In g l /\ ~ In g seen.
Proof.
  induction l as [|a r IH]; intros seen g; cbn [dedup]; [cbn; tauto|].
  destruct (membZ a seen) eqn:E.
  - rewrite IH. apply membZ_In in E. cbn [In]. split; [tauto|]. intros [[->|Hin] Hn]; [contradiction|tauto].
  - assert (Hn : ~ In a seen) by (intros C; apply membZ_In in C; congruence).
    cbn [In]. rewrite IH. cbn [In]. split.
    + intros [->|[Hin Hns]]; [tauto|tauto].
    + intros [[->|Hin] Hns]; [left; reflexivity|]. destruct (Z.eq_dec a g) as [->|NE]; [left; reflexivity|right]. tauto.
Qed.

Definition insert_conditions (s : state) (u x : nat) (b : Z) (gids : list Z) : Prop :=
  match gids with
  | [] => memb x (usigs s u) = false /\ forall g, (g < length (ugroups s u))%nat -> range_free s u g x b
  | _ => forall g, In g gids ->
           0 <= g < mux_count s u /\ ~ In x (gget s u (Z.to_nat g))
           /\ (memb x (usigs s u) = true -> b = rel s x) /\ range_free s u (Z.to_nat g) x b
  end.

Definition name_clash (s : state) (u x : nat) : bool :=
  if memb x (unames s u) then false else match pmsg s u with Some m => memb x (gnames s m) | None => false end.

Lemma name_clash_free : forall s u x, name_clash s u x = false <-> name_free s u x.
Proof.
  intros. unfold name_clash, name_free. destruct (memb x (unames s u)).
  - split; [intros _; left; reflexivity|reflexivity].
  - destruct (pmsg s u) as [m|].
    + destruct (memb x (gnames s m)).
      * split; [discriminate|intros [C|C]; discriminate].
      * split; [intros _; right; reflexivity|reflexivity].
    + split; [intros _; right; exact I|reflexivity].
Qed.

(* x is held by group g of u exactly when it is fixed or g is one of its ids *)
Lemma holds_iff : forall s u x g, InvM s -> (g < length (ugroups s u))%nat ->
  (In x (gget s u g) <-> ufixed s u x = true \/ In (Z.of_nat g) (match ugids s u x with Some l => l | None => [] end)).
Proof.
  intros s u x g H Hg. split.
  - intros Hin. destruct (m_in s H u g x Hin) as [F|F]; [left; exact F|right].
    destruct (ugids s u x) as [ids|] eqn:E; [|congruence]. apply (m_ids s H u x ids E). exact Hin.
  - intros [F|F]; [apply (m_fixed s H u x F); exact Hg|].
    destruct (ugids s u x) as [ids|] eqn:E; [|destruct F]. apply (m_ids s H u x ids E). exact F.
Qed.

(* Insertion without group ids is accepted exactly when the name is free, the signal is not yet in
   the multiplexer and the range is free in every group; insertion with group ids exactly when the
   name is free and every id is inside 0..count-1, does not already hold the signal, the start bit
   is the one the signal already has (if it is in the multiplexer) and the range is free there. *)
Lemma mux_insert_accepted_iff : forall s u x b gids, InvA s -> InvM s -> vmux s u = true ->
  (is_ok (snd (step_mux_insert s u x b gids)) <-> name_free s u x /\ insert_conditions s u x b gids).
Proof.
  intros s u x b gids HA H Hu. rewrite <- name_clash_free. unfold step_mux_insert, is_ok.
  fold (name_clash s u x). destruct (name_clash s u x); [cbn [snd]; split; [discriminate|intros [C _]; discriminate]|].
  assert (Hmux : is_mux s u = true) by (unfold vmux in Hu; apply andb_true_iff in Hu; tauto).
  assert (Hult : (u < nsig s)%nat) by (apply vmux_lt; exact Hu).
  assert (Hlen : length (ugroups s u) = Z.to_nat (mux_count s u) /\ 1 <= mux_count s u).
  { unfold is_mux in Hmux. unfold mux_count. destruct (kind s u) as [| |c g] eqn:K; try discriminate. apply (m_len s H u c g K Hult). }
  destruct Hlen as [El Hc].
  destruct gids as [|g0 gr]; unfold insert_conditions.
  - destruct (memb x (usigs s u)); [cbn [snd]; split; [discriminate|intros [_ [C _]]; discriminate]|].
    destruct (first_err (fun l => verify_insert (sz s) (rel s) (mux_gsize s u) l x b) (ugroups s u)) eqn:Ev.
    + cbn [snd]. split; [discriminate|]. intros [_ [_ Hall]]. exfalso.
      assert (first_err (fun l => verify_insert (sz s) (rel s) (mux_gsize s u) l x b) (ugroups s u) = None); [|congruence].
      apply first_err_none_iff. intros l Hl. apply In_nth with (d := []) in Hl. destruct Hl as [g [Hg <-]].
      apply (verify_insert_range_free s u g x b HA). apply Hall. exact Hg.
    + destruct (insert_all (rel s) (ugroups s u) x b). cbn [snd]. split; [intros _|reflexivity]. split; [reflexivity|split; [reflexivity|]].
      intros g Hg. apply (verify_insert_range_free s u g x b HA). apply (first_err_none _ _ Ev). apply nth_In. exact Hg.
  - set (ids := dedup (g0 :: gr) []).
    set (present := memb x (usigs s u)). set (fixed := ufixed s u x).
    set (prev := match ugids s u x with Some l => l | None => [] end).
    assert (Hids : forall g, In g ids <-> In g (g0 :: gr)) by (intros g; unfold ids; rewrite dedup_In; cbn [In]; tauto).
    assert (Hcond : forall g, 0 <= g < mux_count s u ->
       ((if fixed || membZ g prev then Some Duplicated
         else if present && negb (b =? rel s x) then Some Duplicated
              else verify_insert (sz s) (rel s) (mux_gsize s u) (gget s u (Z.to_nat g)) x b) = None
        <-> ~ In x (gget s u (Z.to_nat g)) /\ (present = true -> b = rel s x) /\ range_free s u (Z.to_nat g) x b)).
    { intros g Hg. assert (Hgl : (Z.to_nat g < length (ugroups s u))%nat) by (rewrite El; lia).
      rewrite (holds_iff s u x (Z.to_nat g) H Hgl). rewrite Z2Nat.id by lia. fold prev. fold fixed.
      destruct fixed; cbn [orb]; [split; [discriminate|intros [C _]; exfalso; apply C; left; reflexivity]|].
      destruct (membZ g prev) eqn:Em.
      - apply membZ_In in Em. split; [discriminate|intros [C _]; exfalso; apply C; right; exact Em].
      - assert (Hn : ~ In g prev) by (intros C; apply membZ_In in C; congruence).
        destruct present; cbn [andb].
        + destruct (Z.eqb_spec b (rel s x)) as [E|NE]; cbn [negb].
          * rewrite (verify_insert_range_free s u (Z.to_nat g) x b HA). split; [intros R; split; [intros [C|C]; [discriminate|contradiction]|split; [intros _; exact E|exact R]]|intros (_ & _ & R); exact R].
          * split; [discriminate|intros (_ & C & _); exfalso; apply NE; apply C; reflexivity].
        + rewrite (verify_insert_range_free s u (Z.to_nat g) x b HA). split; [intros R; split; [intros [C|C]; [discriminate|contradiction]|split; [discriminate|exact R]]|intros (_ & _ & R); exact R]. }
    destruct (verify_ids s u x b present fixed prev ids) eqn:Ev.
    + cbn [snd]. split; [discriminate|]. intros [_ Hall]. exfalso.
      assert (verify_ids s u x b present fixed prev ids = None); [|congruence].
      unfold verify_ids. apply first_err_none_iff. intros g Hg. apply Hids in Hg. destruct (Hall g Hg) as (A & B & C & D).
      unfold verify_gid. destruct (Z.ltb_spec g 0); [lia|]. destruct (Z.leb_spec (mux_count s u) g); [lia|].
      apply (Hcond g A). split; [exact B|split; [exact C|exact D]].
    + destruct (insert_ids (rel s) (ugroups s u) ids x b). cbn [snd]. split; [intros _|reflexivity]. split; [reflexivity|].
      intros g Hg. apply Hids in Hg. unfold verify_ids in Ev. pose proof (first_err_none _ _ Ev g Hg) as Hv. cbn beta in Hv.
      unfold verify_gid in Hv. destruct (Z.ltb_spec g 0); [discriminate|]. destruct (Z.leb_spec (mux_count s u) g); [discriminate|].
      assert (A : 0 <= g < mux_count s u) by lia. split; [exact A|]. apply (Hcond g A). exact Hv.
Qed.

(* --- statements over histories with the weaker hypotheses ------------------------------------------ *)

Lemma inv_reachable_w : forall ops, ok_hist_w ops -> InvA (run ops) /\ InvM (run ops).
Proof. intros ops Hw. pose proof (ok_hist_of_w ops Hw) as Hh. split; [apply inv_reachable|apply invm_reachable]; exact Hh. Qed.

Lemma step_keeps_invariants : forall s o, InvA s -> InvM s -> ok_op_w s o ->
  InvA (fst (step s o)) /\ InvM (fst (step s o)).
Proof.
  intros s o HA H Hw. pose proof (ok_op_of_w s o HA H Hw) as Hop. split; [apply inv_step|apply invm_step]; assumption.
Qed.

(* GetStartBit: one step of the recursion *)
Lemma abs_start_step : forall f s x u, pmux s x = Some u ->
  abs_start (S f) s x = abs_start f s u + selw (mux_count s u) + rel s x.
Proof. intros f s x u E. cbn [abs_start]. rewrite E. reflexivity. Qed.
Lemma abs_start_top : forall f s x, pmux s x = None -> abs_start f s x = rel s x.
Proof. intros f s x E. destruct f; cbn [abs_start]; [reflexivity|rewrite E; reflexivity]. Qed.

Definition abs_start_bit_full : Prop :=
  forall ops, ok_hist_w ops -> forall x u, pmux (run ops) x = Some u ->
    start_bit (run ops) x = start_bit (run ops) u + selw (mux_count (run ops) u) + rel (run ops) x.

Lemma membership_fixed_w : forall ops, ok_hist_w ops -> forall u x, ufixed (run ops) u x = true ->
  (forall g, (Z.of_nat g < mux_count (run ops) u) -> In x (gget (run ops) u g))
  /\ ugids (run ops) u x = None.
Proof. intros ops Hw. apply membership_fixed_reachable. apply ok_hist_of_w. exact Hw. Qed.
Lemma membership_ids_w : forall ops, ok_hist_w ops -> forall u x ids, ugids (run ops) u x = Some ids ->
  (forall g : nat, In x (gget (run ops) u g) <-> In (Z.of_nat g) ids)
  /\ NoDup ids /\ ids <> [] /\ (forall g, In g ids -> 0 <= g < mux_count (run ops) u) /\ ufixed (run ops) u x = false.
Proof. intros ops Hw. apply membership_ids_reachable. apply ok_hist_of_w. exact Hw. Qed.
Lemma membership_cover_w : forall ops, ok_hist_w ops -> forall u g x, In x (gget (run ops) u g) ->
  (ufixed (run ops) u x = true \/ ugids (run ops) u x <> None) /\ pmux (run ops) x = Some u.
Proof. intros ops Hw. apply membership_cover_reachable. apply ok_hist_of_w. exact Hw. Qed.

(* A multiplexer's stored size is its group size plus the selector width (moved here from
   Properties/C07.v, which may only `exact` lemmas). *)
Lemma mux_size_proof : forall s u c g, kind s u = KMux c g -> sz s u = (g + selw c)%Z.
Proof. intros s u c g H. unfold sz. rewrite H. reflexivity. Qed.

(* --- size and selector width ------------------------------------------------------------------- *)

Lemma mux_size_spec : forall s u c g, kind s u = KMux c g -> sz s u = g + selw c.
Proof. intros s u c g H. unfold sz. rewrite H. reflexivity. Qed.

(* the selector width is the least number of bits (at least one) that can address `count` groups *)
Lemma selw_spec : forall c, 1 <= c ->
  1 <= selw c /\ c <= 2 ^ selw c /\ (2 <= c -> 2 ^ (selw c - 1) < c).
Proof.
  intros c Hc. unfold selw, calc_size. destruct (Z.eqb_spec (c - 1) 0) as [E|NE].
  - assert (c = 1) by lia. subst. cbn. lia.
  - destruct (Z.ltb_spec (c - 1) 0); [lia|].
    pose proof (Z.log2_spec (c - 1) ltac:(lia)) as [L1 L2]. pose proof (Z.log2_nonneg (c - 1)).
    replace (Z.log2 (c - 1) + 1 - 1) with (Z.log2 (c - 1)) by lia.
    replace (Z.log2 (c - 1) + 1) with (Z.succ (Z.log2 (c - 1))) by lia. split; [lia|split; [lia|intros _; lia]].
Qed.

(* --- the parent chain is well-founded: GetStartBit at every depth ------------------------------- *)

(* a multiplexed signal is strictly smaller than its multiplexer, which is an allocated multiplexer *)
Lemma parent_bigger : forall s x u, InvA s -> InvM s -> pmux s x = Some u ->
  sz s x < sz s u /\ (u < nsig s)%nat /\ (x < nsig s)%nat.
Proof.
  intros s x u HA H Ep. pose proof (m_pmux3 s H u x Ep) as Hm.
  assert (Hg : exists g, In x (gget s u g)).
  { apply (m_usigs s H) in Hm. destruct Hm as [F|F].
    - destruct (m_fixed_mux s H u x F) as [Hmx Hu]. unfold is_mux in Hmx. destruct (kind s u) as [| |c g] eqn:K; try discriminate.
      destruct (m_len s H u c g K Hu) as [El Hc]. destruct (m_fixed s H u x F) as [_ B]. exists 0%nat. apply B. rewrite El. lia.
    - destruct (ugids s u x) as [ids|] eqn:E; [|congruence]. destruct (m_ids s H u x ids E) as (_ & _ & Hne & Hval & Hiff).
      destruct ids as [|g r]; [congruence|]. destruct (Hval g (or_introl eq_refl)) as [Hg0 _].
      exists (Z.to_nat g). apply Hiff. rewrite Z2Nat.id by lia. left; reflexivity. }
  destruct Hg as [g Hin]. pose proof (a_ok s HA (LG u g)) as Hok. cbn [lay lsz] in Hok.
  pose proof (ok_In _ _ _ _ _ _ Hok Hin) as (B1 & B2 & B3).
  pose proof (a_alloc s HA (LG u g) x Hin) as Hx.
  assert (Hu : (u < nsig s)%nat).
  { destruct (Nat.lt_ge_cases u (nsig s)) as [A|A]; [exact A|]. rewrite (lay_nil_unalloc s u g HA A) in Hin. destruct Hin. }
  split; [|split; assumption].
  unfold mux_gsize in B3. unfold sz at 2. destruct (kind s u) as [n|e|c gs] eqn:K; try lia.
  destruct (m_len s H u c gs K Hu) as [_ Hc]. destruct (selw_spec c Hc) as [W _]. lia.
Qed.

(* the chain of parents of x, at most f steps *)
Fixpoint chain (f : nat) (s : state) (x : nat) : list nat :=
  x :: match f, pmux s x with
       | S f', Some u => chain f' s u
       | _, _ => []
       end.

(* does the chain of x reach a root within f steps? *)
Fixpoint root_within (f : nat) (s : state) (x : nat) : bool :=
  match pmux s x with
  | None => true
  | Some u => match f with O => false | S f' => root_within f' s u end
  end.

Lemma abs_start_stable : forall f s x, root_within f s x = true -> abs_start (S f) s x = abs_start f s x.
Proof.
  induction f as [|f IH]; intros s x Hr; cbn [root_within] in Hr.
  - destruct (pmux s x) eqn:E; [discriminate|]. cbn [abs_start]. rewrite E. reflexivity.
  - destruct (pmux s x) as [u|] eqn:E.
    + change (abs_start (S (S f)) s x) with (match pmux s x with Some u => abs_start (S f) s u + selw (mux_count s u) + rel s x | None => rel s x end).
      change (abs_start (S f) s x) with (match pmux s x with Some u => abs_start f s u + selw (mux_count s u) + rel s x | None => rel s x end).
      rewrite E. rewrite (IH s u Hr). reflexivity.
    + cbn [abs_start]. rewrite E. reflexivity.
Qed.

Lemma root_within_mono : forall f s x, root_within f s x = true -> root_within (S f) s x = true.
Proof.
  induction f as [|f IH]; intros s x Hr; cbn [root_within] in *.
  - destruct (pmux s x); [discriminate|reflexivity].
  - destruct (pmux s x) as [u|]; [|reflexivity]. apply (IH s u Hr).
Qed.

Lemma chain_length_false : forall f s x, root_within f s x = false -> length (chain (S f) s x) = S (S f).
Proof.
  induction f as [|f IH]; intros s x Hr; cbn [root_within] in Hr.
  - destruct (pmux s x) as [u|] eqn:E; [|discriminate]. cbn [chain]. rewrite E. cbn. reflexivity.
  - destruct (pmux s x) as [u|] eqn:E; [|discriminate]. change (chain (S (S f)) s x) with (x :: match pmux s x with Some u => chain (S f) s u | None => [] end).
    rewrite E. cbn [length]. rewrite (IH s u Hr). reflexivity.
Qed.

(* along the chain the sizes grow strictly, and everything behind the head is allocated *)
Lemma chain_props : forall f s x, InvA s -> InvM s ->
  (forall y, In y (tl (chain f s x)) -> sz s x < sz s y /\ (y < nsig s)%nat) /\ NoDup (chain f s x).
Proof.
  induction f as [|f IH]; intros s x HA H; cbn [chain].
  - split; [intros y []|constructor; [intros []|constructor]].
  - destruct (pmux s x) as [u|] eqn:E; [|split; [intros y []|constructor; [intros []|constructor]]].
    destruct (parent_bigger s x u HA H E) as (Hlt & Hu & Hx). destruct (IH s u HA H) as [Ht Hnd]. cbn [tl].
    assert (Hall : forall y, In y (chain f s u) -> sz s x < sz s y /\ (y < nsig s)%nat).
    { intros y Hy. destruct f; cbn [chain] in Hy.
      - destruct Hy as [<-|[]]. split; assumption.
      - destruct Hy as [<-|Hy]; [split; assumption|]. assert (Hy' : In y (tl (chain (S f) s u))) by (cbn [chain tl]; exact Hy).
        destruct (Ht y Hy') as [A B]. split; [lia|exact B]. }
    split; [exact Hall|]. constructor; [|exact Hnd]. intros Hin. destruct (Hall x Hin). lia.
Qed.

Lemma root_within_reach : forall s x, InvA s -> InvM s -> root_within (nsig s) s x = true.
Proof.
  intros s x HA H. destruct (root_within (nsig s) s x) eqn:E; [reflexivity|]. exfalso.
  pose proof (chain_length_false (nsig s) s x E) as Hl.
  destruct (chain_props (S (nsig s)) s x HA H) as [Ht Hnd].
  assert (Hnd' : NoDup (tl (chain (S (nsig s)) s x))).
  { destruct (chain (S (nsig s)) s x); [constructor|]. inversion Hnd; assumption. }
  assert (Hincl : incl (tl (chain (S (nsig s)) s x)) (seq 0 (nsig s))).
  { intros y Hy. apply in_seq. destruct (Ht y Hy). lia. }
  pose proof (NoDup_incl_length Hnd' Hincl) as Hle. rewrite seq_length in Hle.
  destruct (chain (S (nsig s)) s x) as [|a r]; cbn [length tl] in *; lia.
Qed.

(* GetStartBit at every nesting depth, in every state satisfying the invariants *)
Lemma abs_start_bit_inv : forall s x u, InvA s -> InvM s -> pmux s x = Some u ->
  start_bit s x = start_bit s u + selw (mux_count s u) + rel s x.
Proof.
  intros s x u HA H E. unfold start_bit. destruct (parent_bigger s x u HA H E) as (_ & Hu & Hx).
  destruct (nsig s) as [|n] eqn:En; [lia|].
  change (abs_start (S n) s x) with (match pmux s x with Some u => abs_start n s u + selw (mux_count s u) + rel s x | None => rel s x end).
  rewrite E. f_equal. f_equal. symmetry. apply abs_start_stable.
  (* the chain of u is one shorter than that of x, which ends within S n steps *)
  pose proof (root_within_reach s x HA H) as Hr. rewrite En in Hr. cbn [root_within] in Hr. rewrite E in Hr. exact Hr.
Qed.

Lemma abs_start_bit_full_proved : abs_start_bit_full.
Proof.
  intros ops Hw x u E. destruct (inv_reachable_w ops Hw) as [HA H]. apply abs_start_bit_inv; assumption.
Qed.

Lemma start_bit_top : forall s x, pmux s x = None -> start_bit s x = rel s x.
Proof. intros s x E. unfold start_bit. apply abs_start_top. exact E. Qed.
