(* C01/C07 — effect (post-state) theorems: what an accepted attach / detach / clear leaves behind,
   stated on the layouts themselves (not on the bookkeeping): the signal is where it was put, in
   exactly the layouts the operation names, and nothing else changed. *)
From Coq Require Import ZArith List Bool Arith Lia.
From Acme.C01 Require Import Layout State Model ProofsLayout ProofsInv ProofsSpec.
From Acme.C07 Require Import Proofs.
Import ListNotations.
Open Scope Z_scope.

(* ---------------------------------------------------------------------------------------- *)
(* Message.InsertSignal / AppendSignal                                                       *)
(* ---------------------------------------------------------------------------------------- *)

Lemma insert_effect : forall s m x b, is_ok (snd (step_insert s m x b)) ->
  let s' := fst (step_insert s m x b) in
  rel s' x = b
  /\ (forall y, y <> x -> rel s' y = rel s y)
  /\ (forall y, sz s' y = sz s y)
  /\ (forall y, In y (glay s' m) <-> y = x \/ In y (glay s m))
  /\ (forall m', m' <> m -> glay s' m' = glay s m')
  /\ ugroups s' = ugroups s
  /\ (~ In x (glay s m) ->
      forall it, In it (msg_view s' m) <-> it = (x, b, sz s x) \/ In it (msg_view s m)).
Proof.
  intros s m x b. unfold step_insert, is_ok. destruct (memb x (gnames s m)); [discriminate|].
  destruct (verify_insert (sz s) (rel s) (glsize s m) (glay s m) x b); [discriminate|]. intros _.
  cbn [do_insert fst]. cbn zeta.
  assert (Esz : forall y, sz (msg_add_signal (set_glay (set_rel s (upd (rel s) x b)) (upd (glay s) m (insert_at (rel s) (glay s m) x b))) m x) y = sz s y).
  { intros y. apply sz_reg; autorewrite with reg; reflexivity. }
  autorewrite with reg. cbn. rewrite !upd_same.
  split; [reflexivity|]. split; [intros y Hy; apply upd_other; exact Hy|]. split; [exact Esz|].
  split; [intros y; apply insert_at_In|]. split; [intros m' Hm'; apply upd_other; exact Hm'|]. split; [reflexivity|].
  intros Hn it. unfold msg_view, view. autorewrite with reg. cbn. rewrite ?upd_same. rewrite !in_map_iff. split.
  - intros [y [<- Hy]]. apply insert_at_In in Hy. destruct Hy as [->|Hy].
    + left. rewrite upd_same, Esz. reflexivity.
    + right. exists y. split; [|exact Hy]. rewrite upd_other by (intros ->; contradiction). rewrite Esz. reflexivity.
  - intros [->|[y [<- Hy]]].
    + exists x. split; [rewrite upd_same, Esz; reflexivity|apply insert_at_In; left; reflexivity].
    + exists y. split; [|apply insert_at_In; right; exact Hy]. rewrite upd_other by (intros ->; contradiction). rewrite Esz. reflexivity.
Qed.

Lemma append_effect : forall s m x, is_ok (snd (step_append s m x)) ->
  let s' := fst (step_append s m x) in
  rel s' x = last_end (sz s) (rel s) (glay s m)
  /\ (forall y, y <> x -> rel s' y = rel s y)
  /\ (forall y, sz s' y = sz s y)
  /\ glay s' m = glay s m ++ [x]
  /\ (forall m', m' <> m -> glay s' m' = glay s m')
  /\ ugroups s' = ugroups s.
Proof.
  intros s m x. unfold step_append, is_ok. destruct (memb x (gnames s m)); [discriminate|].
  destruct (verify_append (sz s) (rel s) (glsize s m) (glay s m) x); [discriminate|]. intros _.
  cbn [do_append fst]. cbn zeta. autorewrite with reg. cbn. rewrite !upd_same.
  split; [reflexivity|]. split; [intros y Hy; apply upd_other; exact Hy|].
  split; [intros y; apply sz_reg; autorewrite with reg; reflexivity|].
  split; [reflexivity|]. split; [intros m' Hm'; apply upd_other; exact Hm'|reflexivity].
Qed.

(* Message.RemoveSignal of a top-level signal *)
Lemma remove_effect : forall s m x, pmux s x = None -> is_ok (snd (step_remove s m x)) ->
  let s' := fst (step_remove s m x) in
  rel s' = rel s
  /\ (forall y, In y (glay s' m) <-> In y (glay s m) /\ y <> x)
  /\ (forall m', m' <> m -> glay s' m' = glay s m')
  /\ ugroups s' = ugroups s.
Proof.
  intros s m x Hp. unfold step_remove, is_ok. destruct (negb (memb x (gsigs s m))); [discriminate|]. rewrite Hp. intros _.
  cbn [fst]. cbn zeta. autorewrite with reg. cbn. rewrite upd_same. autorewrite with reg.
  split; [reflexivity|]. split; [intros y; apply do_remove_In|]. split; [intros m' Hm'; rewrite upd_other by exact Hm'; autorewrite with reg; reflexivity|reflexivity].
Qed.

(* ---------------------------------------------------------------------------------------- *)
(* MultiplexerSignal.InsertSignal                                                            *)
(* ---------------------------------------------------------------------------------------- *)

Lemma dedup_In : forall l seen g, In g (dedup l seen) <-> In g l /\ ~ In g seen.
Proof.
  induction l as [|a r IH]; intros seen g; cbn [dedup]; [cbn; tauto|].
  destruct (membZ a seen) eqn:E.
  - rewrite IH. apply membZ_In in E. cbn [In]. split; [tauto|]. intros [[->|C] N]; [contradiction|tauto].
  - assert (Na : ~ In a seen) by (intros C; apply membZ_In in C; congruence).
    cbn [In]. rewrite IH. cbn [In]. split.
    + intros [->|[A B]]; [tauto|]. split; [tauto|]. intros C. apply B. right; exact C.
    + intros [[->|A] B]; [left; reflexivity|]. destruct (Z.eq_dec a g) as [->|NE]; [left; reflexivity|right].
      split; [exact A|]. intros [C|C]; [contradiction|contradiction].
Qed.

(* the groups the accepted insertion names: every group (no ids) or the listed ones *)
Definition named_group (s : state) (u : nat) (gids : list Z) (g : nat) : Prop :=
  (g < length (ugroups s u))%nat /\ (gids = [] \/ In (Z.of_nat g) gids).

Lemma mux_insert_effect : forall s u x b gids, ugroups s u <> [] ->
  is_ok (snd (step_mux_insert s u x b gids)) ->
  let s' := fst (step_mux_insert s u x b gids) in
  rel s' x = b
  /\ (forall y, y <> x -> rel s' y = rel s y)
  /\ (forall y, sz s' y = sz s y)
  /\ (forall g y, In y (gget s' u g) <-> In y (gget s u g) \/ (y = x /\ named_group s u gids g))
  /\ (forall u', u' <> u -> ugroups s' u' = ugroups s u')
  /\ glay s' = glay s
  /\ (gids = [] -> ufixed s' u x = true)
  /\ memb x (usigs s' u) = true.
Proof.
  intros s u x b gids Hgne. unfold step_mux_insert, is_ok.
  destruct (if memb x (unames s u) then false else _); [discriminate|].
  destruct gids as [|g0 gr].
  - destruct (memb x (usigs s u)); [discriminate|].
    destruct (first_err _ _) eqn:Ev; [discriminate|]. intros _.
    destruct (insert_all (rel s) (ugroups s u) x b) as [pos gs] eqn:Ei. cbn [fst]. cbn zeta.
    assert (Egs : gs = snd (insert_all (rel s) (ugroups s u) x b)) by (rewrite Ei; reflexivity).
    assert (Epos : pos = fst (insert_all (rel s) (ugroups s u) x b)) by (rewrite Ei; reflexivity).
    rewrite ins_all_pos in Epos by exact Hgne. subst pos.
    autorewrite with reg. cbn. rewrite upd_same.
    split; [first [reflexivity|apply upd_same]|]. split; [intros y Hy; apply upd_other; exact Hy|].
    split; [intros y; apply sz_reg; autorewrite with reg; reflexivity|].
    split.
    { intros g y. unfold gget. autorewrite with reg. cbn. rewrite upd_same. rewrite Egs. rewrite ins_all_In.
      unfold named_group. split; [intros [A|[A B]]; [left; exact A|right; split; [exact A|split; [exact B|left; reflexivity]]]|].
      intros [A|[A [B _]]]; [left; exact A|right; split; assumption]. }
    split; [intros u' Hu'; apply upd_other; exact Hu'|]. split; [reflexivity|].
    split; [intros _; unfold upd2; rewrite !Nat.eqb_refl; reflexivity|].
    unfold mux_add_signal. cbn. destruct (pmsg _ u); cbn; rewrite upd_same; apply memb_In; apply ladd_In; left; reflexivity.
  - set (gids := g0 :: gr). set (ids := dedup gids []).
    destruct (verify_ids s u x b _ _ _ ids) eqn:Ev; [discriminate|]. intros _.
    assert (Hne : ids <> []) by (unfold ids, gids; cbn [dedup membZ existsb]; discriminate).
    destruct (insert_ids (rel s) (ugroups s u) ids x b) as [pos gs] eqn:Ei. cbn [fst]. cbn zeta.
    assert (Egs : gs = snd (insert_ids (rel s) (ugroups s u) ids x b)) by (rewrite Ei; reflexivity).
    assert (Epos : pos = fst (insert_ids (rel s) (ugroups s u) ids x b)) by (rewrite Ei; reflexivity).
    rewrite ins_ids_pos in Epos by exact Hne. subst pos.
    unfold verify_ids in Ev. pose proof (first_err_none _ _ Ev) as Hall. cbn beta in Hall.
    assert (Hnn : forall g, In g ids -> 0 <= g).
    { intros g Hg. specialize (Hall g Hg). unfold verify_gid in Hall. destruct (Z.ltb_spec g 0); [discriminate|lia]. }
    assert (Hnd : NoDup (map Z.to_nat ids)).
    { apply NoDup_map_to_nat; [apply (proj1 (dedup_spec gids []))|exact Hnn]. }
    autorewrite with reg. cbn. rewrite upd_same.
    split; [first [reflexivity|apply upd_same]|]. split; [intros y Hy; apply upd_other; exact Hy|].
    split; [intros y; apply sz_reg; autorewrite with reg; reflexivity|].
    split.
    { intros g y. unfold gget. autorewrite with reg. cbn. rewrite upd_same. rewrite Egs. rewrite (ins_ids_In _ _ _ _ _ _ _ Hnd).
      assert (Hk : In g (map Z.to_nat ids) <-> In (Z.of_nat g) gids).
      { rewrite in_map_iff. split.
        - intros [z [Ez Hz]]. pose proof (Hnn z Hz). apply (dedup_In gids [] z) in Hz. destruct Hz as [Hz _].
          replace (Z.of_nat g) with z by lia. exact Hz.
        - intros Hz. exists (Z.of_nat g). split; [lia|]. apply (dedup_In gids [] (Z.of_nat g)). split; [exact Hz|intros []]. }
      unfold named_group. rewrite Hk. split.
      - intros [A|[A [B C]]]; [left; exact A|right; split; [exact A|split; [exact C|right; exact B]]].
      - intros [A|[A [C [D|B]]]]; [left; exact A|discriminate D|right; split; [exact A|split; [exact B|exact C]]]. }
    split; [intros u' Hu'; apply upd_other; exact Hu'|]. split; [reflexivity|].
    split; [intros C; discriminate C|].
    unfold mux_add_signal. cbn. destruct (pmsg _ u); cbn; rewrite upd_same; apply memb_In; apply ladd_In; left; reflexivity.
Qed.

(* ---------------------------------------------------------------------------------------- *)
(* MultiplexerSignal.RemoveSignal / ClearSignalGroup / ClearAllSignalGroups                  *)
(* ---------------------------------------------------------------------------------------- *)

Lemma mux_remove_effect : forall s u x, InvM s -> is_ok (snd (step_mux_remove s u x)) ->
  let s' := fst (step_mux_remove s u x) in
  rel s' = rel s
  /\ (forall g y, In y (gget s' u g) <-> In y (gget s u g) /\ y <> x)
  /\ (forall u', u' <> u -> ugroups s' u' = ugroups s u')
  /\ glay s' = glay s
  /\ ufixed s' u x = false /\ ugids s' u x = None /\ memb x (usigs s' u) = false.
Proof.
  intros s u x H. unfold step_mux_remove, is_ok. destruct (memb x (usigs s u)) eqn:Em; cbn [negb]; [|discriminate].
  assert (Hnomem : forall s1, usigs s1 u = usigs s u -> pmsg s1 = pmsg s -> memb x (usigs (mux_remove_signal s1 u x) u) = false).
  { intros s1 E1 E2.
    assert (Hl : memb x (lrem x (usigs s u)) = false).
    { apply Bool.not_true_is_false. intros C. apply memb_In in C. apply lrem_In in C. destruct C as [_ C]. congruence. }
    unfold mux_remove_signal. cbn. destruct (pmsg s1 u); cbn; rewrite upd_same; rewrite E1; exact Hl. }
  destruct (ufixed s u x) eqn:Efx.
  - intros _. cbn [fst]. cbn zeta. destruct (m_fixed s H u x Efx) as [Eids _].
    split; [cbn; autorewrite with reg; cbn; autorewrite with reg; reflexivity|].
    split.
    { intros g y. unfold gget. cbn. autorewrite with reg. cbn. autorewrite with reg. cbn. rewrite upd_same.
      rewrite (nth_map_nil (fun l => do_remove l x)) by reflexivity. apply do_remove_In. }
    split; [intros u' Hu'; cbn; autorewrite with reg; cbn; autorewrite with reg; cbn; apply upd_other; exact Hu'|].
    split; [cbn; autorewrite with reg; cbn; autorewrite with reg; reflexivity|].
    split; [cbn; unfold upd2; rewrite !Nat.eqb_refl; reflexivity|].
    split; [cbn; autorewrite with reg; cbn; autorewrite with reg; exact Eids|].
    cbn. apply Hnomem; reflexivity.
  - destruct (ugids s u x) as [ids|] eqn:Ei; [|discriminate]. intros _. cbn [fst]. cbn zeta.
    destruct (m_ids s H u x ids Ei) as (_ & _ & _ & Hval & Hiff).
    split; [cbn; autorewrite with reg; cbn; autorewrite with reg; reflexivity|].
    split.
    { intros g y. unfold gget. cbn. autorewrite with reg. cbn. autorewrite with reg. cbn. rewrite upd_same.
      destruct (Nat.lt_ge_cases g (length (ugroups s u))) as [Hlt|Hge].
      - rewrite (remove_from_groups_In _ _ _ _ _ Hlt). split.
        + intros [A [B|B]]; [split; assumption|]. split; [exact A|]. intros ->. apply B.
          apply in_map_iff. exists (Z.of_nat g). split; [lia|]. apply Hiff. exact A.
        + intros [A B]. split; [exact A|left; exact B].
      - rewrite !nth_overflow; [cbn; tauto|exact Hge|rewrite remove_from_groups_length; exact Hge]. }
    split; [intros u' Hu'; cbn; autorewrite with reg; cbn; autorewrite with reg; cbn; apply upd_other; exact Hu'|].
    split; [cbn; autorewrite with reg; cbn; autorewrite with reg; reflexivity|].
    split; [cbn; autorewrite with reg; cbn; autorewrite with reg; exact Efx|].
    split; [cbn; unfold upd2; rewrite !Nat.eqb_refl; reflexivity|].
    cbn. apply Hnomem; reflexivity.
Qed.

(* ClearSignalGroup: the loop over the signals of group n *)
Lemma clear_loop_effect : forall xs s u g, (Z.to_nat g < length (ugroups s u))%nat ->
  snd (clear_group_loop s u g xs) = false ->
  let s' := fst (clear_group_loop s u g xs) in
  let n := Z.to_nat g in
  rel s' = rel s /\ glay s' = glay s /\ ufixed s' = ufixed s
  /\ (forall u' k, u' <> u \/ k <> n -> gget s' u' k = gget s u' k)
  /\ (forall y, In y (gget s' u n) <-> In y (gget s u n) /\ (ufixed s u y = true \/ ~ In y xs)).
Proof.
  induction xs as [|x r IH]; intros s u g Hlt Hp; cbn [clear_group_loop] in *.
  - cbn. split; [reflexivity|]. split; [reflexivity|]. split; [reflexivity|]. split; [intros; reflexivity|].
    intros y. split; [intros A; split; [exact A|right; intros []]|intros [A _]; exact A].
  - destruct (ufixed s u x) eqn:Efx.
    + destruct (IH s u g Hlt Hp) as (A & B & C & D & E). split; [exact A|]. split; [exact B|]. split; [exact C|]. split; [exact D|].
      intros y. split.
      * intros Hy. destruct (proj1 (E y) Hy) as [P [Q|Q]]; [split; [exact P|left; exact Q]|].
        split; [exact P|]. destruct (Nat.eq_dec y x) as [->|NE]; [left; exact Efx|right; intros [C'|C']; [congruence|contradiction]].
      * intros [P [Q|Q]]; apply E; (split; [exact P|]); [left; exact Q|right; intros C'; apply Q; right; exact C'].
    + set (n := Z.to_nat g) in *.
      set (s1 := set_ugroups s (upd (ugroups s) u (set_nth (ugroups s u) n (do_remove (gget s u n) x)))) in *.
      assert (G1 : forall u' k, u' <> u \/ k <> n -> gget s1 u' k = gget s u' k).
      { intros u' k Hk. unfold gget, s1. cbn. destruct (Nat.eq_dec u' u) as [->|NE].
        - rewrite upd_same. destruct Hk as [C|C]; [congruence|]. apply nth_set_nth_other. congruence.
        - rewrite upd_other by exact NE. reflexivity. }
      assert (G2 : forall y, In y (gget s1 u n) <-> In y (gget s u n) /\ y <> x).
      { intros y. unfold gget at 1. unfold s1. cbn. rewrite upd_same. rewrite nth_set_nth_same by exact Hlt. apply do_remove_In. }
      assert (L1 : (n < length (ugroups s1 u))%nat) by (unfold s1; cbn; rewrite upd_same; rewrite set_nth_length; exact Hlt).
      destruct (ugids s1 u x) as [ids|] eqn:Ei; [|cbn in Hp; discriminate].
      assert (Hfin : forall s2, rel s2 = rel s1 -> glay s2 = glay s1 -> ufixed s2 = ufixed s1 -> ugroups s2 = ugroups s1 ->
                snd (clear_group_loop s2 u g r) = false ->
                let s' := fst (clear_group_loop s2 u g r) in
                rel s' = rel s /\ glay s' = glay s /\ ufixed s' = ufixed s
                /\ (forall u' k, u' <> u \/ k <> n -> gget s' u' k = gget s u' k)
                /\ (forall y, In y (gget s' u n) <-> In y (gget s u n) /\ (ufixed s u y = true \/ ~ In y (x :: r)))).
      { intros s2 E1 E2 E3 E4 Hp2.
        assert (L2 : (Z.to_nat g < length (ugroups s2 u))%nat) by (rewrite E4; exact L1).
        destruct (IH s2 u g L2 Hp2) as (A & B & C & D & E).
        assert (Gs2 : forall u' k, gget s2 u' k = gget s1 u' k) by (intros; unfold gget; rewrite E4; reflexivity).
        split; [rewrite A, E1; reflexivity|]. split; [rewrite B, E2; reflexivity|]. split; [rewrite C, E3; reflexivity|].
        split; [intros u' k Hk; rewrite (D u' k Hk), Gs2; apply G1; exact Hk|].
        intros y. unfold n. rewrite E. fold n. rewrite Gs2, G2. rewrite E3. change (ufixed s1 u y) with (ufixed s u y). split.
        - intros [[P Q] [F|F]]; (split; [exact P|]); [left; exact F|right; intros [C'|C']; [congruence|contradiction]].
        - intros [P [F|F]].
          + split; [split; [exact P|intros ->; congruence]|left; exact F].
          + split; [split; [exact P|intros ->; apply F; left; reflexivity]|right; intros C'; apply F; right; exact C']. }
      destruct (length ids =? 1)%nat.
      * apply Hfin; try (cbn; autorewrite with reg; reflexivity). exact Hp.
      * apply Hfin; try reflexivity. exact Hp.
Qed.

Lemma mux_clear_group_effect : forall s u g, is_ok (snd (step_mux_clear_group s u g)) ->
  (Z.to_nat g < length (ugroups s u))%nat ->
  let s' := fst (step_mux_clear_group s u g) in
  let n := Z.to_nat g in
  rel s' = rel s /\ glay s' = glay s
  /\ (forall u' k, u' <> u \/ k <> n -> gget s' u' k = gget s u' k)
  /\ (forall y, In y (gget s' u n) <-> In y (gget s u n) /\ ufixed s u y = true).
Proof.
  intros s u g. unfold step_mux_clear_group, is_ok. destruct (verify_gid s u g); [discriminate|].
  pose proof (clear_loop_effect (gget s u (Z.to_nat g)) s u g) as P.
  destruct (clear_group_loop s u g (gget s u (Z.to_nat g))) as [s1 p]. cbn [fst snd] in *.
  destruct p; [discriminate|]. intros _ Hlt. destruct (P Hlt eq_refl) as (A & B & C & D & E).
  split; [exact A|]. split; [exact B|]. split; [exact D|]. intros y. rewrite E. split.
  - intros [P1 [F|F]]; [split; assumption|contradiction].
  - intros [P1 F]. split; [exact P1|left; exact F].
Qed.

Lemma fold_mux_remove_fields : forall xs s u,
  let s' := fold_left (fun acc x => mux_remove_signal acc u x) xs s in
  rel s' = rel s /\ glay s' = glay s /\ ugroups s' = ugroups s.
Proof.
  induction xs as [|x r IH]; intros s u; cbn [fold_left]; [repeat split; reflexivity|].
  destruct (IH (mux_remove_signal s u x) u) as (A & B & C). cbn zeta in *. rewrite A, B, C. autorewrite with reg. repeat split; reflexivity.
Qed.

Lemma mux_clear_all_effect : forall s u,
  let s' := fst (step_mux_clear_all s u) in
  rel s' = rel s /\ glay s' = glay s
  /\ (forall g, gget s' u g = [])
  /\ (forall u', u' <> u -> ugroups s' u' = ugroups s u')
  /\ (forall x, ufixed s' u x = false /\ ugids s' u x = None).
Proof.
  intros s u. unfold step_mux_clear_all. cbn [fst]. cbn zeta.
  destruct (fold_mux_remove_fields (usigs s u) s u) as (A & B & C). cbn zeta in *.
  split; [cbn; exact A|].
  split; [cbn; exact B|].
  split; [intros g; unfold gget; cbn; rewrite upd_same; apply nth_map_const_nil|].
  split; [intros u' Hu'; cbn; rewrite upd_other by exact Hu'; rewrite C; reflexivity|].
  intros x. cbn. rewrite Nat.eqb_refl. split; reflexivity.
Qed.

(* ---------------------------------------------------------------------------------------- *)
(* the same under the membership invariant                                                   *)
(* ---------------------------------------------------------------------------------------- *)

Lemma mux_groups_len : forall s u, InvM s -> vmux s u = true -> length (ugroups s u) = Z.to_nat (mux_count s u) /\ 1 <= mux_count s u.
Proof.
  intros s u H Hv. unfold vmux in Hv. apply andb_true_iff in Hv. destruct Hv as [Hlt Hm]. apply Nat.ltb_lt in Hlt.
  unfold is_mux in Hm. unfold mux_count. destruct (kind s u) as [| |c g] eqn:K; try discriminate. apply (m_len s H u c g K Hlt).
Qed.

Lemma mux_groups_nonempty : forall s u, InvM s -> vmux s u = true -> ugroups s u <> [].
Proof. intros s u H Hv E. destruct (mux_groups_len s u H Hv) as [A B]. rewrite E in A. cbn in A. lia. Qed.

(* inserted without group ids: afterwards in EVERY group, at the one requested position; with group ids: in
   exactly those groups (a signal that was in no layout before) *)
Lemma mux_insert_membership : forall s u x b gids, InvM s -> vmux s u = true -> ~ attached s x ->
  is_ok (snd (step_mux_insert s u x b gids)) ->
  let s' := fst (step_mux_insert s u x b gids) in
  rel s' x = b
  /\ (forall g, In x (gget s' u g) <->
                (g < length (ugroups s u))%nat /\ (gids = [] \/ In (Z.of_nat g) gids))
  /\ (forall g y, y <> x -> (In y (gget s' u g) <-> In y (gget s u g)))
  /\ (forall y, y <> x -> rel s' y = rel s y).
Proof.
  intros s u x b gids H Hv Hna Hok.
  destruct (mux_insert_effect s u x b gids (mux_groups_nonempty s u H Hv) Hok) as (A & B & _ & D & _).
  cbn zeta. split; [exact A|]. split; [|split; [|exact B]].
  - intros g. rewrite D. unfold named_group. split.
    + intros [C|[_ C]]; [exfalso; apply Hna; exists (LG u g); exact C|exact C].
    + intros C. right. split; [reflexivity|exact C].
  - intros g y Hy. rewrite D. split; [intros [C|[C _]]; [exact C|contradiction]|intros C; left; exact C].
Qed.

Lemma mux_clear_group_effect_f : forall s u g, InvM s -> vmux s u = true -> is_ok (snd (step_mux_clear_group s u g)) ->
  let s' := fst (step_mux_clear_group s u g) in
  let n := Z.to_nat g in
  rel s' = rel s /\ glay s' = glay s
  /\ (forall u' k, u' <> u \/ k <> n -> gget s' u' k = gget s u' k)
  /\ (forall y, In y (gget s' u n) <-> In y (gget s u n) /\ ufixed s u y = true).
Proof.
  intros s u g H Hv Hok. apply mux_clear_group_effect; [exact Hok|].
  unfold step_mux_clear_group, is_ok in Hok. unfold verify_gid in Hok.
  destruct (Z.ltb_spec g 0); [discriminate|]. destruct (Z.leb_spec (mux_count s u) g); [discriminate|].
  destruct (mux_groups_len s u H Hv) as [A _]. rewrite A. lia.
Qed.
