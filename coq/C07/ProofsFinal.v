(* glue lemmas that need both the C01 specification lemmas and the registry invariant *)
From Coq Require Import ZArith List Bool Arith Lia.
From Acme.C01 Require Import Layout State Model ProofsLayout ProofsInv ProofsSpec ProofsFrame ProofsAccept.
From Acme.C07 Require Import Proofs ProofsReg.
Open Scope Z_scope.

Lemma set_type_accepted_iff_inv : forall s m x old n, InvA s -> InvM s -> InvR s ->
  kind s x = KStd old -> 1 <= n -> In x (glay s m) ->
  (ProofsSpec.is_ok (snd (step_set_type s x n)) <-> n - old <= free_behind s m x).
Proof. intros s m x old n HA H R K Hn Hin. apply set_type_accepted_iff; try assumption. apply link_ok_of_inv; assumption. Qed.

Lemma frame_positions_f : forall s o y, InvA s -> InvM s -> InvR s -> ok_op_f s o ->
  rel (fst (step s o)) y <> rel s y -> may_move s o y.
Proof. intros s o y HA H R Hf. apply frame_positions; [exact HA|]. apply ok_op_of_f; assumption. Qed.

(* --- T2 for the size-changing operations, under the invariants and the final hypotheses ----------- *)

Lemma set_type_accepted_iff_f : forall s x old n, InvA s -> InvM s -> InvR s ->
  kind s x = KStd old -> 1 <= n -> single_moved s (rel s) x (n - old) ->
  (ProofsSpec.is_ok (snd (step_set_type s x n)) <-> change_fits s (rel s) x (n - old)).
Proof.
  intros s x old n HA H R K Hn Hs. apply set_type_accepted_iff_all; try assumption.
  split; [apply link_ok_of_inv; assumption|exact Hs].
Qed.

Lemma set_enum_accepted_iff_f : forall s x e old, InvA s -> InvM s -> InvR s ->
  kind s x = KEnum old -> single_moved s (rel s) x (esize s e - sz s x) ->
  (ProofsSpec.is_ok (snd (step_set_enum s x e)) <-> change_fits s (rel s) x (esize s e - sz s x)).
Proof.
  intros s x e old HA H R K Hs. apply (set_enum_accepted_iff s x e old); try assumption.
  split; [apply link_ok_of_inv; assumption|exact Hs].
Qed.

Lemma add_value_accepted_iff_f : forall s e idx, InvA s -> InvM s -> InvR s -> ok_op_f s (OAddValue e idx) ->
  (ProofsSpec.is_ok (snd (step_add_value s e idx)) <->
   ~ In idx (eidx s e) /\ (emax s e < idx -> enum_change_fits s e (esize_of (emin s e) idx - esize s e))).
Proof. intros s e idx HA H R Hf. apply add_value_accepted_iff; [exact HA|]. apply ok_op_of_f; assumption. Qed.

Lemma update_index_accepted_iff_f : forall s v idx, InvA s -> InvM s -> InvR s -> ok_op_f s (OUpdateIndex v idx) ->
  (ProofsSpec.is_ok (snd (step_update_index s v idx)) <->
   vidx s v = idx \/ vpar s v = None
   \/ exists e, vpar s v = Some e /\ ~ In idx (eidx s e)
                /\ (emax s e < idx -> enum_change_fits s e (esize_of (emin s e) idx - esize s e))).
Proof. intros s v idx HA H R Hf. apply update_index_accepted_iff; [exact HA|]. apply ok_op_of_f; assumption. Qed.

Lemma mux_ids_nonempty : forall s u x, InvM s -> ugids s u x <> Some nil.
Proof. intros s u x H E. destruct (m_ids s H u x nil E) as (_ & _ & C & _). congruence. Qed.

Lemma mux_shift_left_spec_f : forall s u x a, InvA s -> InvM s ->
  exists d, snd (step_mux_shift true s u x a) = RShift d
    /\ d = rel s x - rel (fst (step_mux_shift true s u x a)) x
    /\ (forall y, y <> x -> rel (fst (step_mux_shift true s u x a)) y = rel s y)
    /\ (forall g, mux_moves s u x a g ->
          rel (fst (step_mux_shift true s u x a)) x = left_target s (gget s u (Z.to_nat g)) x a /\ 0 <= d <= a)
    /\ ((forall g, ~ mux_moves s u x a g) -> d = 0).
Proof. intros s u x a HA H. apply mux_shift_left_spec; [exact HA|apply mux_ids_nonempty; exact H]. Qed.

Lemma mux_shift_right_spec_f : forall s u x a, InvA s -> InvM s ->
  exists d, snd (step_mux_shift false s u x a) = RShift d
    /\ d = rel (fst (step_mux_shift false s u x a)) x - rel s x
    /\ (forall y, y <> x -> rel (fst (step_mux_shift false s u x a)) y = rel s y)
    /\ (forall g, mux_moves s u x a g ->
          rel (fst (step_mux_shift false s u x a)) x = right_target s (mux_gsize s u) (gget s u (Z.to_nat g)) x a /\ 0 <= d <= a)
    /\ ((forall g, ~ mux_moves s u x a g) -> d = 0).
Proof. intros s u x a HA H. apply mux_shift_right_spec; [exact HA|apply mux_ids_nonempty; exact H]. Qed.

Lemma frame_order_f : forall s o L y z, InvA s -> InvM s -> InvR s -> ok_op_f s o ->
  In y (lay s L) -> In z (lay s L) -> In y (lay (fst (step s o)) L) -> In z (lay (fst (step s o)) L) ->
  (rel s y < rel s z <-> rel (fst (step s o)) y < rel (fst (step s o)) z).
Proof. intros s o L y z HA H R Hf. apply frame_order; [exact HA|]. apply ok_op_of_f; assumption. Qed.
