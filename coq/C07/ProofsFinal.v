(* glue lemmas that need both the C01 specification lemmas and the registry invariant *)
From Coq Require Import ZArith List Bool Arith Lia.
From Acme.C01 Require Import Layout State Model ProofsLayout ProofsInv ProofsSpec ProofsFrame.
From Acme.C07 Require Import Proofs ProofsReg.
Open Scope Z_scope.

Lemma set_type_accepted_iff_inv : forall s m x old n, InvA s -> InvM s -> InvR s ->
  kind s x = KStd old -> 1 <= n -> In x (glay s m) ->
  (ProofsSpec.is_ok (snd (step_set_type s x n)) <-> n - old <= free_behind s m x).
Proof. intros s m x old n HA H R K Hn Hin. apply set_type_accepted_iff; try assumption. apply link_ok_of_inv; assumption. Qed.

Lemma frame_positions_f : forall s o y, InvA s -> InvM s -> InvR s -> ok_op_f s o ->
  rel (fst (step s o)) y <> rel s y -> may_move s o y.
Proof. intros s o y HA H R Hf. apply frame_positions_partial; [exact HA|]. apply ok_op_of_f; assumption. Qed.
