(* C01/C07 — the name tables are inside an invariant: the name table of a multiplexer is its member
   list, the name table of a message names exactly the signals of its registry (hence, with InvR, of
   its layout tree). Preserved by all 29 operations without any hypothesis. With it the raw name
   conditions of the acceptance theorems become statements about the tree. *)
From Coq Require Import ZArith List Bool Arith Lia.
From Acme.C01 Require Import Layout State Model ProofsLayout ProofsInv ProofsSpec.
From Acme.C07 Require Import Proofs ProofsReg.
Import ListNotations.
Open Scope Z_scope.

Record InvN (s : state) : Prop := {
  n_mux : forall u, unames s u = usigs s u;
  n_msg : forall m x, In x (gnames s m) <-> In x (gsigs s m)
}.

Definition ncore (s : state) := (usigs s, unames s, gsigs s, gnames s).

Lemma InvN_core : forall s s', ncore s' = ncore s -> InvN s -> InvN s'.
Proof.
  intros s s' E N. unfold ncore in E. inversion E as [[E1 E2 E3 E4]]. destruct N. constructor.
  - intros u. rewrite E1, E2. apply n_mux0.
  - intros m x. rewrite E3, E4. apply n_msg0.
Qed.
Ltac nsame s0 N := apply (InvN_core s0); [reflexivity|exact N].

(* the names below a multiplexer are the signals below it *)
Lemma dnames_desc : forall s, (forall u, unames s u = usigs s u) -> forall f x y, In y (dnames f s x) <-> In y (desc f s x).
Proof.
  intros s Hn. induction f as [|f IH]; intros x y; cbn [dnames desc]; [tauto|].
  rewrite in_app_iff, !in_flat_map, Hn. split.
  - intros [Hy|[c [Hc Hy]]].
    + exists y. split; [exact Hy|left; reflexivity].
    + exists c. split; [exact Hc|]. right. destruct (is_mux s c); [apply IH; exact Hy|contradiction].
  - intros [c [Hc [->|Hy]]]; [left; exact Hc|]. right. exists c. split; [exact Hc|].
    destruct (is_mux s c); [apply IH; exact Hy|contradiction].
Qed.

Lemma invn_msg_add : forall s m x, InvN s -> InvN (msg_add_signal s m x).
Proof.
  intros s m x [N1 N2]. unfold msg_add_signal. constructor.
  - intros u. cbn. apply N1.
  - intros m' y. cbn. unfold upd. destruct (Nat.eqb_spec m' m) as [->|NE]; [|apply N2].
    rewrite !ladd_all_In, !ladd_In. pose proof (N2 m y) as E.
    destruct (is_mux s x); [pose proof (dnames_desc s N1 (nsig s) x y) as D; intuition|cbn [In]; intuition].
Qed.

Lemma invn_msg_remove : forall s m x, InvN s -> InvN (msg_remove_signal s m x).
Proof.
  intros s m x [N1 N2]. unfold msg_remove_signal. constructor.
  - intros u. cbn. apply N1.
  - intros m' y. cbn [gnames gsigs set_gnames set_gsigs set_pmsg_all set_pmsg]. unfold upd. destruct (Nat.eqb_spec m' m) as [->|NE]; [|apply N2].
    rewrite !lrem_all_In, !lrem_In. pose proof (N2 m y) as E.
    destruct (is_mux s x).
    + pose proof (dnames_desc s N1 (nsig s) x y) as D.
      split; intros [[A B] C]; (split; [split; [apply E; exact A|exact B]|intros K; apply C; apply D; exact K]).
    + split; intros [[A B] C]; (split; [split; [apply E; exact A|exact B]|exact C]).
Qed.

Lemma invn_mux_add : forall s u x, InvN s -> InvN (mux_add_signal s u x).
Proof.
  intros s u x [N1 N2]. unfold mux_add_signal.
  set (s3 := set_pmux _ _).
  assert (N3 : InvN s3).
  { constructor; [|intros m y; cbn; apply N2]. intros u'. cbn. unfold upd. destruct (Nat.eqb u' u); [rewrite N1; reflexivity|apply N1]. }
  destruct (pmsg s3 u); [apply invn_msg_add; exact N3|exact N3].
Qed.

Lemma invn_mux_remove : forall s u x, InvN s -> InvN (mux_remove_signal s u x).
Proof.
  intros s u x [N1 N2]. unfold mux_remove_signal.
  set (s3 := set_pmux _ _).
  assert (N3 : InvN s3).
  { constructor; [|intros m y; cbn; apply N2]. intros u'. cbn. unfold upd. destruct (Nat.eqb u' u); [rewrite N1; reflexivity|apply N1]. }
  destruct (pmsg s3 u); [apply invn_msg_remove; exact N3|exact N3].
Qed.

Lemma invn_fold_mux_remove : forall xs s u, InvN s -> InvN (fold_left (fun acc x => mux_remove_signal acc u x) xs s).
Proof. induction xs as [|x r IH]; intros s u N; cbn [fold_left]; [exact N|]. apply IH. apply invn_mux_remove. exact N. Qed.

Lemma invn_clear_group_loop : forall xs s u g, InvN s -> InvN (fst (clear_group_loop s u g xs)).
Proof.
  induction xs as [|x r IH]; intros s u g N; cbn [clear_group_loop]; [exact N|].
  destruct (ufixed s u x); [apply IH; exact N|]. set (s1 := set_ugroups _ _).
  assert (N1 : InvN s1) by (nsame s N).
  destruct (ugids s1 u x) as [ids|]; [|exact N1]. destruct (length ids =? 1)%nat; apply IH.
  - apply (InvN_core (mux_remove_signal s1 u x)); [reflexivity|apply invn_mux_remove; exact N1].
  - nsame s1 N1.
Qed.

Lemma ncore_msg_modify : forall s m x a, ncore (fst (msg_modify_size s m x a)) = ncore s.
Proof.
  intros. unfold msg_modify_size. destruct (a =? 0); [reflexivity|]. destruct (negb (memb x (gsigs s m))); [reflexivity|].
  destruct (if 0 <? a then _ else _) as [e pos]. destruct e; reflexivity.
Qed.
Lemma ncore_mux_modify : forall s u x a, ncore (fst (mux_modify_size s u x a)) = ncore s.
Proof.
  intros. unfold mux_modify_size. destruct (a =? 0); [reflexivity|]. destruct (negb (memb x (usigs s u))); [reflexivity|].
  destruct (mux_verify_size s u x a); try reflexivity. destruct (groups_of s u x) as [gs|]; [|reflexivity].
  rewrite modify_groups_pos. reflexivity.
Qed.
Lemma ncore_sig_modify : forall s x a, ncore (fst (sig_modify_size s x a)) = ncore s.
Proof. intros. unfold sig_modify_size. destruct (pmux s x); [apply ncore_mux_modify|]. destruct (pmsg s x); [apply ncore_msg_modify|reflexivity]. Qed.
Lemma ncore_refs_modify : forall refs s a, ncore (fst (refs_modify s refs a)) = ncore s.
Proof.
  induction refs as [|r t IH]; intros s a; cbn [refs_modify]; [reflexivity|].
  pose proof (ncore_sig_modify s r a) as P. destruct (sig_modify_size s r a) as [s' e]. cbn [fst] in *.
  destruct e; try exact P. rewrite IH. exact P.
Qed.
Lemma ncore_enum_modify : forall s e a, ncore (fst (enum_modify_size s e a)) = ncore s.
Proof. intros. unfold enum_modify_size. destruct (a =? 0); [reflexivity|apply ncore_refs_modify]. Qed.

Lemma invn_step_mux_remove : forall s u x, InvN s -> InvN (fst (step_mux_remove s u x)).
Proof.
  intros s u x N. unfold step_mux_remove. destruct (negb (memb x (usigs s u))); [exact N|].
  destruct (ufixed s u x).
  - cbn [fst]. set (s1 := set_ugroups _ _). assert (N1 : InvN s1) by (nsame s N).
    apply (InvN_core (mux_remove_signal s1 u x)); [reflexivity|apply invn_mux_remove; exact N1].
  - destruct (ugids s u x); [|exact N]. cbn [fst]. set (s1 := set_ugroups _ _). assert (N1 : InvN s1) by (nsame s N).
    apply (InvN_core (mux_remove_signal s1 u x)); [reflexivity|apply invn_mux_remove; exact N1].
Qed.

Theorem invn_step : forall s o, InvN s -> InvN (fst (step s o)).
Proof.
  intros s o N. destruct o; cbn [step].
  - nsame s N.
  - destruct (size <? 0); [exact N|]. destruct (size =? 0); [exact N|]. cbn [fst]. nsame s N.
  - nsame s N.
  - destruct (venum s e); [cbn [fst]; nsame s N|exact N].
  - destruct (count <? 0); [exact N|]. destruct (count =? 0); [exact N|]. destruct (gsize <? 0); [exact N|]. destruct (gsize =? 0); [exact N|]. destruct (2 ^ 63 - 65 <? gsize); [exact N|].
    cbn [fst]. nsame s N.
  - destruct (vmsg s m && vsig s x); [|exact N]. unfold step_append. destruct (memb x (gnames s m)); [exact N|].
    destruct (verify_append (sz s) (rel s) (glsize s m) (glay s m) x); [exact N|]. cbn [do_append fst]. cbn zeta.
    apply invn_msg_add. nsame s N.
  - destruct (vmsg s m && vsig s x); [|exact N]. unfold step_insert. destruct (memb x (gnames s m)); [exact N|].
    destruct (verify_insert (sz s) (rel s) (glsize s m) (glay s m) x b); [exact N|]. cbn [do_insert fst]. cbn zeta.
    apply invn_msg_add. nsame s N.
  - destruct (vmsg s m); [|exact N]. unfold step_remove. destruct (negb (memb x (gsigs s m))); [exact N|].
    destruct (pmux s x) as [u|]; [apply invn_step_mux_remove; exact N|]. cbn [fst].
    apply (InvN_core (msg_remove_signal s m x)); [reflexivity|apply invn_msg_remove; exact N].
  - destruct (vmsg s m); [|exact N]. unfold step_remove_all. cbn [fst]. destruct N as [N1 N2]. constructor.
    + intros u. cbn. apply N1.
    + intros m' y. cbn. unfold upd. destruct (Nat.eqb m' m); [tauto|apply N2].
  - destruct (vmsg s m); [|exact N]. unfold step_shift. destruct (negb (memb x (gsigs s m))); [exact N|].
    destruct (do_shift_left (sz s) (rel s) (glay s m) x a). cbn [fst]. nsame s N.
  - destruct (vmsg s m); [|exact N]. unfold step_shift. destruct (negb (memb x (gsigs s m))); [exact N|].
    destruct (do_shift_right (sz s) (rel s) (glsize s m) (glay s m) x a). cbn [fst]. nsame s N.
  - destruct (vmsg s m); [unfold step_compact; cbn [fst]; nsame s N|exact N].
  - destruct (vmsg s m); [|exact N]. unfold step_resize. destruct (bytes <? 0); [exact N|]. destruct (gbytes s m =? bytes); [exact N|].
    destruct (2 ^ 60 - 1 <? bytes); [exact N|]. destruct (verify_resize (sz s) (rel s) (glsize s m) (glay s m) (bytes * 8)); [exact N|]. cbn [fst]. nsame s N.
  - destruct (vmsg s m); exact N.
  - destruct (vsig s x); [|exact N]. unfold step_set_type. destruct (kind s x) as [old| |]; try exact N. destruct (size <=? 0); [exact N|].
    pose proof (ncore_sig_modify s x (size - old)) as P. destruct (sig_modify_size s x (size - old)) as [s1 r]. cbn [fst] in P.
    destruct r; cbn [fst]; apply (InvN_core s); try exact N; exact P.
  - destruct (vsig s x && venum s e); [|exact N]. unfold step_set_enum. destruct (kind s x) as [|old|]; try exact N.
    pose proof (ncore_sig_modify s x (esize s e - sz s x)) as P. destruct (sig_modify_size s x (esize s e - sz s x)) as [s1 r]. cbn [fst] in P.
    destruct r; cbn [fst]; apply (InvN_core s); try exact N; exact P.
  - destruct (venum s e); [|exact N]. unfold step_add_value. set (s0 := set_nval _ _).
    assert (N0 : InvN s0) by (nsame s N).
    destruct (verify_value_index s0 e idx); try exact N0.
    destruct (emax s0 e <? idx) eqn:El.
    + pose proof (ncore_enum_modify s0 e (esize_of (emin s0 e) idx - esize s0 e)) as P.
      destruct (enum_modify_size s0 e (esize_of (emin s0 e) idx - esize s0 e)) as [s1 r]. cbn [fst] in P.
      destruct r; cbn [fst]; try (apply (InvN_core s0); [exact P|exact N0]).
      destruct (emax s1 e <? idx); apply (InvN_core s0); try exact N0; exact P.
    + cbn [fst]. rewrite El. nsame s0 N0.
  - destruct (venum s e); [|exact N]. unfold step_remove_value. destruct (negb (memb v (evals s e))); [exact N|]. cbn [fst].
    destruct (vidx s v =? emax s e); nsame s N.
  - destruct (venum s e); [unfold step_remove_all_values; cbn [fst]; nsame s N|exact N].
  - destruct (venum s e); [cbn [fst]; nsame s N|exact N].
  - destruct (vval s v); [|exact N]. unfold step_update_index. destruct (vidx s v =? idx); [exact N|].
    destruct (vpar s v) as [e|]; [|cbn [fst]; nsame s N]. destruct (verify_value_index s e idx); try exact N.
    set (amt := esize_of (emin s e) _ - esize s e).
    pose proof (ncore_enum_modify s e amt) as P. destruct (enum_modify_size s e amt) as [s1 r]. cbn [fst] in P.
    destruct r; cbn [fst]; apply (InvN_core s); try exact N; exact P.
  - destruct (vmux s u && vsig s x); [|exact N]. unfold step_mux_insert.
    destruct (if memb x (unames s u) then false else _); [exact N|].
    destruct gids as [|g0 gr].
    + destruct (memb x (usigs s u)); [exact N|]. destruct (first_err _ _); [exact N|].
      destruct (insert_all (rel s) (ugroups s u) x b) as [pos gs]. cbn [fst]. cbn zeta. apply invn_mux_add. nsame s N.
    + destruct (verify_ids s u x b _ _ _ _); [exact N|].
      destruct (insert_ids (rel s) (ugroups s u) _ x b) as [pos gs]. cbn [fst]. cbn zeta. apply invn_mux_add. nsame s N.
  - destruct (vmux s u); [apply invn_step_mux_remove; exact N|exact N].
  - destruct (vmux s u); [|exact N]. unfold step_mux_clear_group. destruct (verify_gid s u g); [exact N|].
    pose proof (invn_clear_group_loop (gget s u (Z.to_nat g)) s u g N) as P.
    destruct (clear_group_loop s u g (gget s u (Z.to_nat g))) as [s1 p]. exact P.
  - destruct (vmux s u); [|exact N]. unfold step_mux_clear_all. cbn [fst]. cbn zeta.
    apply (InvN_core (fold_left (fun acc x => mux_remove_signal acc u x) (usigs s u) s)); [reflexivity|apply invn_fold_mux_remove; exact N].
  - destruct (vmux s u); [|exact N]. unfold step_mux_shift. destruct (ugids s u x) as [ids|]; [|exact N].
    destruct ids as [|g [|g2 r]]; try exact N. destruct (do_shift_left (sz s) (rel s) (gget s u (Z.to_nat g)) x a). cbn [fst]. nsame s N.
  - destruct (vmux s u); [|exact N]. unfold step_mux_shift. destruct (ugids s u x) as [ids|]; [|exact N].
    destruct ids as [|g [|g2 r]]; try exact N. destruct (do_shift_right (sz s) (rel s) (mux_gsize s u) (gget s u (Z.to_nat g)) x a). cbn [fst]. nsame s N.
  - destruct (vmsg s m); [|exact N]. unfold step_resize_bus. destruct (bytes <? 0); [exact N|]. destruct (gbytes s m =? bytes); [exact N|].
    destruct (2 ^ 60 - 1 <? bytes); [exact N|]. destruct (lim <? bytes); [exact N|].
    unfold step_resize. destruct (bytes <? 0); [exact N|]. destruct (gbytes s m =? bytes); [exact N|].
    destruct (2 ^ 60 - 1 <? bytes); [exact N|]. destruct (verify_resize (sz s) (rel s) (glsize s m) (glay s m) (bytes * 8)); [exact N|]. cbn [fst]. nsame s N.
  - destruct (vsig s x); exact N.
Qed.

Lemma invn_init : InvN init.
Proof. constructor; [intros u; reflexivity|intros m x; cbn; tauto]. Qed.

Lemma invn_run_from : forall ops s, InvN s -> InvN (fold_left (fun s o => fst (step s o)) ops s).
Proof. induction ops as [|o r IH]; intros s N; cbn [fold_left]; [exact N|]. apply IH. apply invn_step. exact N. Qed.

(* every history, with or without the hypotheses *)
Theorem invn_reachable : forall ops, InvN (run ops).
Proof. intros ops. apply invn_run_from. exact invn_init. Qed.

(* ---------------------------------------------------------------------------------------- *)
(* what the name tables say about the tree                                                   *)
(* ---------------------------------------------------------------------------------------- *)

(* the name table of a message names exactly the signals of its layout tree *)
Lemma names_are_tree : forall s m x, InvA s -> InvM s -> InvR s -> InvN s ->
  (memb x (gnames s m) = true <-> in_tree s m x).
Proof.
  intros s m x HA H R N. rewrite memb_In, (n_msg s N), <- memb_In. apply registry_is_tree; assumption.
Qed.

(* the name table of a multiplexer names exactly the signals whose parent it is *)
Lemma mux_names_are_members : forall s u x, InvM s -> InvN s -> (memb x (unames s u) = true <-> pmux s x = Some u).
Proof. intros s u x H N. rewrite (n_mux s N). split; [apply (m_pmux2 s H)|apply (m_pmux3 s H)]. Qed.

(* a signal that is in no layout has a free name everywhere *)
Lemma detached_name_free : forall s m x, InvA s -> InvM s -> InvR s -> InvN s -> ~ attached s x -> memb x (gnames s m) = false.
Proof.
  intros s m x HA H R N Hna. apply Bool.not_true_is_false. intros C. apply (names_are_tree s m x HA H R N) in C.
  apply Hna. destruct C as [t [Ht St]]. destruct St as [->|[n B]]; [exists (LM m); exact Ht|].
  (* below a top-level signal: x has a parent multiplexer, so it sits in one of its groups *)
  destruct n as [|n]; [destruct B|]. assert (Hp : exists u, pmux s x = Some u).
  { destruct n as [|n']; [exists t; exact B|]. apply belowN_S in B. destruct B as [u [E _]]. exists u. exact E. }
  destruct Hp as [u Eu]. apply (usigs_attached s u x H). apply (m_pmux3 s H). exact Eu.
Qed.

(* InsertSignal of a detached signal: accepted exactly when the range is inside the payload and free *)
Lemma insert_detached_accepted_iff : forall s m x b, InvA s -> InvM s -> InvR s -> InvN s -> ~ attached s x ->
  (is_ok (snd (step_insert s m x b)) <-> fits_insert s m x b).
Proof.
  intros s m x b HA H R N Hna. rewrite (insert_accepted_iff s m x b HA).
  rewrite (detached_name_free s m x HA H R N Hna). tauto.
Qed.
