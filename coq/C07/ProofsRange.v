(* C01/C07 — the absolute bit range of a multiplexed signal, at any nesting depth: inside the group
   range of its multiplexer (behind the selector), hence inside every ancestor's, and inside the
   payload of the owning message. Uses the absolute start bit (abs_start_bit_inv) and the
   well-formedness of the groups (InvA). *)
From Coq Require Import ZArith List Bool Arith Lia.
From Acme.C01 Require Import Layout State Model ProofsLayout ProofsInv.
From Acme.C07 Require Import Proofs ProofsReg.
Import ListNotations.
Open Scope Z_scope.

(* a member of a multiplexer sits in (at least) one of its groups *)
Lemma member_in_group : forall s u x, InvM s -> pmux s x = Some u -> exists g, In x (gget s u g).
Proof.
  intros s u x H Ep. pose proof (m_pmux3 s H u x Ep) as Hm. apply (m_usigs s H) in Hm. destruct Hm as [F|F].
  - destruct (m_fixed_mux s H u x F) as [Hmx Hu]. unfold is_mux in Hmx. destruct (kind s u) as [| |c g] eqn:K; try discriminate.
    destruct (m_len s H u c g K Hu) as [El Hc]. destruct (m_fixed s H u x F) as [_ B]. exists 0%nat. apply B. rewrite El. lia.
  - destruct (ugids s u x) as [ids|] eqn:E; [|congruence]. destruct (m_ids s H u x ids E) as (_ & _ & Hne & Hval & Hiff).
    destruct ids as [|g r]; [congruence|]. destruct (Hval g (or_introl eq_refl)) as [Hg0 _].
    exists (Z.to_nat g). apply Hiff. rewrite Z2Nat.id by lia. left; reflexivity.
Qed.

(* one level: behind the selector of the multiplexer and inside its size *)
Lemma range_in_parent : forall s x u, InvA s -> InvM s -> pmux s x = Some u ->
  start_bit s u + selw (mux_count s u) <= start_bit s x
  /\ start_bit s x + sz s x <= start_bit s u + sz s u
  /\ 1 <= selw (mux_count s u).
Proof.
  intros s x u HA H Ep. destruct (member_in_group s u x H Ep) as [g Hin].
  pose proof (a_ok s HA (LG u g)) as Hok. cbn [lay lsz] in Hok. destruct (ok_In _ _ _ _ _ _ Hok Hin) as (B1 & B2 & B3).
  rewrite (abs_start_bit_inv s x u HA H Ep).
  assert (Hmux : is_mux s u = true).
  { pose proof (tree_of_inv s HA H) as T. apply (t_mux s T u x). apply (t_in s T). exact Ep. }
  unfold is_mux in Hmux. destruct (kind s u) as [| |c gs] eqn:K; try discriminate.
  rewrite (mux_size_spec s u c gs K). unfold mux_gsize in B3. unfold mux_count. rewrite K in *.
  destruct (parent_bigger s x u HA H Ep) as (_ & Hu & _). destruct (m_len s H u c gs K Hu) as [_ Hc].
  destruct (selw_spec c Hc) as [Hs _]. lia.
Qed.

(* any ancestor *)
Lemma range_in_ancestor : forall n s a x, InvA s -> InvM s -> belowN n s a x ->
  start_bit s a + selw (mux_count s a) <= start_bit s x /\ start_bit s x + sz s x <= start_bit s a + sz s a.
Proof.
  induction n as [|n IH]; intros s a x HA H B; [destruct B|].
  destruct n as [|n'].
  - cbn [belowN] in B. destruct (range_in_parent s x a HA H B) as (P1 & P2 & _). split; assumption.
  - apply belowN_S in B. destruct B as [u [Ep Bu]]. destruct (IH s a u HA H Bu) as [I1 I2].
    destruct (range_in_parent s x u HA H Ep) as (P1 & P2 & P3). lia.
Qed.

(* inside the payload of the owning message *)
Lemma range_in_message_fuel : forall f s m x, InvA s -> InvM s -> InvR s ->
  root_within f s x = true -> pmsg s x = Some m ->
  0 <= start_bit s x /\ start_bit s x + sz s x <= 8 * gbytes s m.
Proof.
  induction f as [|f IH]; intros s m x HA H R Hr Em; cbn [root_within] in Hr.
  - destruct (pmux s x) eqn:Ep; [discriminate|]. pose proof (r_root s R x m Ep Em) as Hin.
    pose proof (a_ok s HA (LM m)) as Hok. cbn [lay lsz] in Hok. destruct (ok_In _ _ _ _ _ _ Hok Hin) as (B1 & B2 & B3).
    rewrite (start_bit_top s x Ep). rewrite (a_lsize s HA m) in B3. lia.
  - destruct (pmux s x) as [u|] eqn:Ep.
    + assert (Eu : pmsg s u = Some m) by (rewrite <- (r_child s R x u Ep); exact Em).
      destruct (IH s m u HA H R Hr Eu) as [I1 I2]. destruct (range_in_parent s x u HA H Ep) as (P1 & P2 & P3). lia.
    + pose proof (r_root s R x m Ep Em) as Hin.
      pose proof (a_ok s HA (LM m)) as Hok. cbn [lay lsz] in Hok. destruct (ok_In _ _ _ _ _ _ Hok Hin) as (B1 & B2 & B3).
      rewrite (start_bit_top s x Ep). rewrite (a_lsize s HA m) in B3. lia.
Qed.

Lemma range_in_message : forall s m x, InvA s -> InvM s -> InvR s -> in_tree s m x ->
  0 <= start_bit s x /\ start_bit s x + sz s x <= 8 * gbytes s m.
Proof.
  intros s m x HA H R Ht. apply (range_in_message_fuel (nsig s)); try assumption.
  - apply root_within_reach; assumption.
  - apply (r_reg s R). apply registry_is_tree; assumption.
Qed.

Lemma range_reachable : forall ops, ok_hist_f ops -> forall m x, in_tree (run ops) m x ->
  0 <= start_bit (run ops) x /\ start_bit (run ops) x + sz (run ops) x <= 8 * gbytes (run ops) m.
Proof. intros ops Hh m x Ht. destruct (inv3_reachable ops Hh) as (HA & H & R). apply range_in_message; assumption. Qed.
