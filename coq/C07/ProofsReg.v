(* C01/C07 — the registry invariant: the parent-message pointer and the message's registry follow
   the layout tree.  Discharges the link hypothesis of the resize operations and gives the
   "owning message's view" clause of C07. *)
From Coq Require Import ZArith List Bool Arith Lia.
From Acme.C01 Require Import Layout State Model ProofsLayout ProofsInv.
From Acme.C07 Require Import Proofs.
Import ListNotations.
Open Scope Z_scope.

(* ---------------------------------------------------------------------------------------- *)
(* the multiplexer tree (parent pointers and child lists), independent of the group lists    *)
(* ---------------------------------------------------------------------------------------- *)

Record Tree (s : state) : Prop := {
  t_in : forall u x, memb x (usigs s u) = true <-> pmux s x = Some u;
  t_mux : forall u x, memb x (usigs s u) = true -> is_mux s u = true;
  t_wf : forall x u, pmux s x = Some u -> sz s x < sz s u /\ (u < nsig s)%nat /\ (x < nsig s)%nat
}.

Lemma tree_of_inv : forall s, InvA s -> InvM s -> Tree s.
Proof.
  intros s HA H. constructor.
  - intros u x. split; [apply (m_pmux2 s H)|apply (m_pmux3 s H)].
  - intros u x Hm. assert (Ep : pmux s x = Some u) by (apply (m_pmux2 s H); exact Hm).
    apply (m_usigs s H) in Hm. destruct Hm as [F|F]; [exact (proj1 (m_fixed_mux s H u x F))|].
    destruct (ugids s u x) as [ids|] eqn:E; [|congruence]. destruct (m_ids s H u x ids E) as (_ & _ & Hne & Hval & Hiff).
    destruct ids as [|g r]; [congruence|]. destruct (Hval g (or_introl eq_refl)) as [Hg0 _].
    assert (Hin : In x (gget s u (Z.to_nat g))) by (apply Hiff; rewrite Z2Nat.id by lia; left; reflexivity).
    pose proof (a_ok s HA (LG u (Z.to_nat g))) as Hok. cbn [lay lsz] in Hok. pose proof (ok_In _ _ _ _ _ _ Hok Hin) as (B1 & B2 & B3).
    unfold is_mux. unfold mux_gsize in B3. destruct (kind s u); [lia|lia|reflexivity].
  - intros x u E. apply parent_bigger; assumption.
Qed.

(* z is n >= 1 parent steps below x *)
Fixpoint belowN (n : nat) (s : state) (x z : nat) : Prop :=
  match n with
  | O => False
  | S O => pmux s z = Some x
  | S n' => exists u, pmux s z = Some u /\ belowN n' s x u
  end.
Definition Below (s : state) (x z : nat) : Prop := exists n, belowN n s x z.

Lemma belowN_S : forall n s x z, belowN (S (S n)) s x z <-> exists u, pmux s z = Some u /\ belowN (S n) s x u.
Proof. intros. cbn [belowN]. tauto. Qed.

Lemma belowN_top : forall n s x z, belowN (S (S n)) s x z <-> exists c, pmux s c = Some x /\ belowN (S n) s c z.
Proof.
  induction n as [|n IH]; intros s x z.
  - cbn [belowN]. split.
    + intros [u [E Eu]]. exists u. split; assumption.
    + intros [c [Ec E]]. exists c. split; assumption.
  - rewrite belowN_S. split.
    + intros [u [E Hu]]. apply IH in Hu. destruct Hu as [c [Ec Hc]]. exists c. split; [exact Ec|].
      rewrite belowN_S. exists u. split; assumption.
    + intros [c [Ec Hc]]. rewrite belowN_S in Hc. destruct Hc as [u [E Hu]]. exists u. split; [exact E|].
      apply IH. exists c. split; assumption.
Qed.

Lemma belowN_has_child : forall n s c z, belowN (S n) s c z -> exists y, pmux s y = Some c.
Proof.
  induction n as [|n IHn]; intros s c z Hc; [exists z; exact Hc|].
  rewrite belowN_S in Hc. destruct Hc as [u [E Hu]]. apply (IHn s c u Hu).
Qed.

(* the chain of parents: sizes grow strictly, so it has no repetition and is bounded *)
Lemma chain_props_t : forall f s x, Tree s ->
  (forall y, In y (tl (chain f s x)) -> sz s x < sz s y /\ (y < nsig s)%nat) /\ NoDup (chain f s x).
Proof.
  induction f as [|f IH]; intros s x T; cbn [chain].
  - split; [intros y []|constructor; [intros []|constructor]].
  - destruct (pmux s x) as [u|] eqn:E; [|split; [intros y []|constructor; [intros []|constructor]]].
    destruct (t_wf s T x u E) as (Hlt & Hu & Hx). destruct (IH s u T) as [Ht Hnd]. cbn [tl].
    assert (Hall : forall y, In y (chain f s u) -> sz s x < sz s y /\ (y < nsig s)%nat).
    { intros y Hy. destruct f; cbn [chain] in Hy.
      - destruct Hy as [<-|[]]. split; assumption.
      - destruct Hy as [<-|Hy]; [split; assumption|]. assert (Hy' : In y (tl (chain (S f) s u))) by (cbn [chain tl]; exact Hy).
        destruct (Ht y Hy') as [A B]. split; [lia|exact B]. }
    split; [exact Hall|]. constructor; [|exact Hnd]. intros Hin. destruct (Hall x Hin). lia.
Qed.

Lemma belowN_bound : forall n s x z, Tree s -> belowN n s x z -> (n <= nsig s)%nat.
Proof.
  intros n s x z T Hb.
  assert (Hlen : length (chain n s z) = S n).
  { revert z Hb. induction n as [|[|n] IH]; intros z Hb; [destruct Hb| |].
    - cbn [belowN] in Hb. cbn [chain]. rewrite Hb. reflexivity.
    - rewrite belowN_S in Hb. destruct Hb as [u [E Hu]].
      change (chain (S (S n)) s z) with (z :: match pmux s z with Some u => chain (S n) s u | None => [] end).
      rewrite E. cbn [length]. rewrite (IH u Hu). reflexivity. }
  destruct (chain_props_t n s z T) as [Ht Hnd].
  assert (Hnd' : NoDup (tl (chain n s z))) by (destruct (chain n s z); [constructor|inversion Hnd; assumption]).
  assert (Hincl : incl (tl (chain n s z)) (seq 0 (nsig s))) by (intros y Hy; apply in_seq; destruct (Ht y Hy); lia).
  pose proof (NoDup_incl_length Hnd' Hincl) as Hle. rewrite seq_length in Hle.
  destruct (chain n s z) as [|a r]; cbn [length tl] in *; lia.
Qed.

(* desc lists exactly the signals at most f steps below x *)
Lemma desc_iff : forall f s x z, Tree s ->
  (In z (desc f s x) <-> exists n, (1 <= n <= f)%nat /\ belowN n s x z).
Proof.
  induction f as [|f IH]; intros s x z T; cbn [desc].
  - split; [intros []|intros [n [Hn _]]; lia].
  - rewrite in_flat_map. split.
    + intros [c [Hc Hz]]. assert (Epc : pmux s c = Some x) by (apply (t_in s T); apply memb_In; exact Hc).
      destruct Hz as [<-|Hz]; [exists 1%nat; split; [lia|exact Epc]|].
      destruct (is_mux s c); [|destruct Hz]. apply (IH s c z T) in Hz. destruct Hz as [n [Hn Hb]].
      exists (S n). split; [lia|]. destruct n as [|n]; [lia|]. apply belowN_top. exists c. split; assumption.
    + intros [n [Hn Hb]]. destruct n as [|[|n]]; [lia| |].
      * cbn [belowN] in Hb. exists z. split; [apply memb_In; apply (t_in s T); exact Hb|left; reflexivity].
      * apply belowN_top in Hb. destruct Hb as [c [Ec Hc]]. exists c. split; [apply memb_In; apply (t_in s T); exact Ec|].
        right. destruct (belowN_has_child n s c z Hc) as [y Ey].
        rewrite (t_mux s T c y (proj2 (t_in s T c y) Ey)). apply (IH s c z T). exists (S n). split; [lia|exact Hc].
Qed.

Lemma desc_below : forall s x z, Tree s -> (In z (desc (nsig s) s x) <-> Below s x z).
Proof.
  intros s x z T. rewrite (desc_iff (nsig s) s x z T). unfold Below. split.
  - intros [n [_ Hb]]. exists n. exact Hb.
  - intros [n Hb]. exists n. split; [|exact Hb]. split; [destruct n; [destruct Hb|lia]|apply (belowN_bound n s x z T Hb)].
Qed.

(* the set registered / unregistered by Message.addSignal / removeSignal for x *)
Definition subtree (s : state) (x y : nat) : Prop := y = x \/ Below s x y.

Lemma subtree_list : forall s x y, Tree s ->
  (In y (x :: (if is_mux s x then desc (nsig s) s x else [])) <-> subtree s x y).
Proof.
  intros s x y T. unfold subtree. cbn [In]. destruct (is_mux s x) eqn:Em.
  - rewrite (desc_below s x y T). split; intros [E|B]; auto.
  - split; [intros [E|[]]; left; auto|]. intros [E|[n B]]; [left; auto|]. exfalso.
    destruct n as [|n]; [destruct B|]. destruct (belowN_has_child n s x y B) as [c Ec].
    pose proof (t_mux s T x c (proj2 (t_in s T x c) Ec)). congruence.
Qed.

Lemma below_child : forall s x z u, pmux s z = Some u -> subtree s x u -> Below s x z.
Proof.
  intros s x z u E [->|[n B]]; [exists 1%nat; exact E|].
  exists (S n). destruct n as [|n]; [destruct B|]. rewrite belowN_S. exists u. split; assumption.
Qed.

Lemma below_parent : forall s x z, Below s x z -> exists u, pmux s z = Some u /\ subtree s x u.
Proof.
  intros s x z [n B]. destruct n as [|[|n]]; [destruct B| |].
  - exists x. split; [exact B|left; reflexivity].
  - rewrite belowN_S in B. destruct B as [u [E Hu]]. exists u. split; [exact E|right; exists (S n); exact Hu].
Qed.

(* ---------------------------------------------------------------------------------------- *)
(* effect of Message.addSignal / removeSignal on the registry                                *)
(* ---------------------------------------------------------------------------------------- *)

Lemma ladd_all_In : forall xs l y, In y (ladd_all xs l) <-> In y xs \/ In y l.
Proof.
  unfold ladd_all. induction xs as [|a r IH]; intros l y; cbn [fold_left]; [cbn; tauto|].
  rewrite IH, ladd_In. cbn [In]. intuition.
Qed.
Lemma lrem_all_In : forall xs l y, In y (lrem_all xs l) <-> In y l /\ ~ In y xs.
Proof.
  unfold lrem_all. induction xs as [|a r IH]; intros l y; cbn [fold_left]; [cbn; tauto|].
  rewrite IH, lrem_In. cbn [In]. intuition.
Qed.

Lemma pmsg_set_all : forall s xs v y, pmsg (set_pmsg_all s xs v) y = if memb y xs then v else pmsg s y.
Proof. reflexivity. Qed.
Lemma gsigs_set_all : forall s xs v, gsigs (set_pmsg_all s xs v) = gsigs s.
Proof. reflexivity. Qed.

Lemma msg_add_effect : forall s m x, Tree s ->
  (forall y, subtree s x y -> pmsg (msg_add_signal s m x) y = Some m)
  /\ (forall y, ~ subtree s x y -> pmsg (msg_add_signal s m x) y = pmsg s y)
  /\ (forall y, memb y (gsigs (msg_add_signal s m x) m) = true <-> subtree s x y \/ memb y (gsigs s m) = true)
  /\ (forall m', m' <> m -> gsigs (msg_add_signal s m x) m' = gsigs s m').
Proof.
  intros s m x T. unfold msg_add_signal.
  set (ds := if is_mux s x then desc (nsig s) s x else []).
  assert (Hsub : forall y, memb y (x :: ds) = true <-> subtree s x y) by (intros y; rewrite memb_In; apply subtree_list; exact T).
  split; [|split; [|split]].
  - intros y Hy. rewrite pmsg_set_all. apply Hsub in Hy. rewrite Hy. reflexivity.
  - intros y Hy. rewrite pmsg_set_all. destruct (memb y (x :: ds)) eqn:E; [apply Hsub in E; contradiction|reflexivity].
  - intros y. rewrite gsigs_set_all. cbn [gsigs set_gnames set_gsigs]. rewrite upd_same. rewrite !memb_In, ladd_all_In, ladd_In. rewrite <- (subtree_list s x y T). cbn [In]. fold ds. intuition.
  - intros m' NE. rewrite gsigs_set_all. cbn [gsigs set_gnames set_gsigs]. rewrite upd_other by exact NE. reflexivity.
Qed.

Lemma msg_remove_effect : forall s m x, Tree s ->
  (forall y, subtree s x y -> pmsg (msg_remove_signal s m x) y = None)
  /\ (forall y, ~ subtree s x y -> pmsg (msg_remove_signal s m x) y = pmsg s y)
  /\ (forall y, memb y (gsigs (msg_remove_signal s m x) m) = true <-> memb y (gsigs s m) = true /\ ~ subtree s x y)
  /\ (forall m', m' <> m -> gsigs (msg_remove_signal s m x) m' = gsigs s m').
Proof.
  intros s m x T. unfold msg_remove_signal.
  set (ds := if is_mux s x then desc (nsig s) s x else []).
  assert (Hsub : forall y, memb y (x :: ds) = true <-> subtree s x y) by (intros y; rewrite memb_In; apply subtree_list; exact T).
  split; [|split; [|split]].
  - intros y Hy. rewrite pmsg_set_all. apply Hsub in Hy. rewrite Hy. reflexivity.
  - intros y Hy. rewrite pmsg_set_all. destruct (memb y (x :: ds)) eqn:E; [apply Hsub in E; contradiction|reflexivity].
  - intros y. rewrite gsigs_set_all. cbn [gsigs set_gnames set_gsigs]. rewrite upd_same. rewrite !memb_In, lrem_all_In, lrem_In. rewrite <- (subtree_list s x y T). cbn [In]. fold ds. intuition.
  - intros m' NE. rewrite gsigs_set_all. cbn [gsigs set_gnames set_gsigs]. rewrite upd_other by exact NE. reflexivity.
Qed.

(* ---------------------------------------------------------------------------------------- *)
(* the registry invariant                                                                    *)
(* ---------------------------------------------------------------------------------------- *)

Record InvR (s : state) : Prop := {
  r_top : forall m x, In x (glay s m) -> pmsg s x = Some m /\ pmux s x = None;
  r_child : forall x u, pmux s x = Some u -> pmsg s x = pmsg s u;
  r_root : forall x m, pmux s x = None -> pmsg s x = Some m -> In x (glay s m);
  r_reg : forall x m, memb x (gsigs s m) = true <-> pmsg s x = Some m
}.

(* everything below x has x's message *)
Lemma below_pmsg : forall s x z, InvR s -> Below s x z -> pmsg s z = pmsg s x.
Proof.
  intros s x z R [n B]. revert z B. induction n as [|[|n] IH]; intros z B; [destruct B| |].
  - apply (r_child s R z x B).
  - rewrite belowN_S in B. destruct B as [u [E Hu]]. rewrite (r_child s R z u E). apply IH. exact Hu.
Qed.

(* a top-level signal is not a multiplexer child (exclusivity of placement) *)
Lemma top_not_child : forall s x m u, InvA s -> InvM s -> In x (glay s m) -> pmux s x = Some u -> False.
Proof.
  intros s x m u HA H Hin E.
  pose proof (m_pmux3 s H u x E) as Hm. apply (m_usigs s H) in Hm.
  assert (Hg : exists g, In x (gget s u g)).
  { destruct Hm as [F|F].
    - destruct (m_fixed_mux s H u x F) as [Hmx Hu]. unfold is_mux in Hmx. destruct (kind s u) as [| |c g] eqn:K; try discriminate.
      destruct (m_len s H u c g K Hu) as [El Hc]. destruct (m_fixed s H u x F) as [_ B]. exists 0%nat. apply B. rewrite El. lia.
    - destruct (ugids s u x) as [ids|] eqn:Ei; [|congruence]. destruct (m_ids s H u x ids Ei) as (_ & _ & Hne & Hval & Hiff).
      destruct ids as [|g r]; [congruence|]. destruct (Hval g (or_introl eq_refl)) as [Hg0 _].
      exists (Z.to_nat g). apply Hiff. rewrite Z2Nat.id by lia. left; reflexivity. }
  destruct Hg as [g Hg]. exact (a_excl s HA (LM m) (LG u g) x Hin Hg).
Qed.

(* the link hypothesis of the resize operations follows from the three invariants *)
Lemma link_top_of_inv : forall s x, InvA s -> InvM s -> InvR s -> link_top s x.
Proof.
  intros s x HA H R. split.
  - intros m Hin. destruct (r_top s R m x Hin) as [A B]. split; [exact B|split; [exact A|apply (r_reg s R); exact A]].
  - intros NA. assert (Ep : pmux s x = None).
    { destruct (pmux s x) as [u|] eqn:E; [|reflexivity]. exfalso. apply NA. apply (usigs_attached s u x H). apply (m_pmux3 s H). exact E. }
    split; [exact Ep|]. destruct (pmsg s x) as [m|] eqn:E; [|reflexivity]. exfalso. apply NA. exists (LM m). cbn [lay]. apply (r_root s R x m Ep E).
Qed.

(* C07's "owning message's view": the message finds exactly the signals of its layout tree *)
Definition in_tree (s : state) (m x : nat) : Prop := exists t, In t (glay s m) /\ subtree s t x.

Lemma registry_is_tree : forall s m x, InvA s -> InvM s -> InvR s ->
  (memb x (gsigs s m) = true <-> in_tree s m x).
Proof.
  intros s m x HA H R. rewrite (r_reg s R). pose proof (tree_of_inv s HA H) as T. split.
  - (* walk up to the root of x's chain *)
    intros E. assert (Hr : root_within (nsig s) s x = true) by (apply root_within_reach; assumption).
    revert x E Hr. generalize (nsig s) as f. induction f as [|f IH]; intros x E Hr; cbn [root_within] in Hr.
    + destruct (pmux s x) eqn:Ep; [discriminate|]. exists x. split; [apply (r_root s R x m Ep E)|left; reflexivity].
    + destruct (pmux s x) as [u|] eqn:Ep.
      * assert (Eu : pmsg s u = Some m) by (rewrite <- (r_child s R x u Ep); exact E).
        destruct (IH u Eu Hr) as [t [Ht Hs]]. exists t. split; [exact Ht|right]. apply (below_child s t x u Ep Hs).
      * exists x. split; [apply (r_root s R x m Ep E)|left; reflexivity].
  - intros [t [Ht [E|B]]]; [rewrite E; apply (r_top s R m t Ht)|]. rewrite (below_pmsg s t x R B). apply (r_top s R m t Ht).
Qed.

(* ---------------------------------------------------------------------------------------- *)
(* preservation                                                                              *)
(* ---------------------------------------------------------------------------------------- *)

Lemma subtree_dec : forall s x y, Tree s -> subtree s x y \/ ~ subtree s x y.
Proof.
  intros s x y T. destruct (in_dec Nat.eq_dec y (x :: (if is_mux s x then desc (nsig s) s x else []))) as [Hin|Hn].
  - left. apply (subtree_list s x y T). exact Hin.
  - right. intros C. apply Hn. apply (subtree_list s x y T). exact C.
Qed.

Lemma Tree_ext : forall s s', pmux s' = pmux s -> usigs s' = usigs s -> kind s' = kind s -> nsig s' = nsig s ->
  (forall x, sz s' x = sz s x) -> Tree s -> Tree s'.
Proof.
  intros s s' Ep Eu Ek En Esz T. constructor.
  - intros u x. rewrite Ep, Eu. apply (t_in s T).
  - intros u x. rewrite Eu. unfold is_mux. rewrite Ek. apply (t_mux s T).
  - intros x u. rewrite Ep, !Esz, En. apply (t_wf s T).
Qed.

Lemma subtree_ext : forall s s' x y, pmux s' = pmux s -> (subtree s' x y <-> subtree s x y).
Proof.
  intros s s' x y Ep. unfold subtree, Below.
  assert (Hb : forall n z, belowN n s' x z <-> belowN n s x z).
  { induction n as [|[|n] IH]; intros z; cbn [belowN]; [tauto|rewrite Ep; tauto|].
    split; intros [u [E Hu]]; exists u; (split; [rewrite Ep in *; exact E || (rewrite <- Ep; exact E)|apply IH; exact Hu]). }
  split; intros [E|[n B]]; auto; right; exists n; apply Hb; exact B.
Qed.

Definition rcore (s : state) := (glay s, pmsg s, pmux s, gsigs s).

Lemma InvR_core : forall s s', rcore s' = rcore s -> InvR s -> InvR s'.
Proof.
  intros s s' E R. unfold rcore in E. inversion E as [[E1 E2 E3 E4]]. destruct R. constructor.
  - intros m x. rewrite E1, E2, E3. apply r_top0.
  - intros x u. rewrite E3, E2. apply r_child0.
  - intros x m. rewrite E3, E2, E1. apply r_root0.
  - intros x m. rewrite E4, E2. apply r_reg0.
Qed.

(* a parentless, unregistered signal x (with everything below it) joins message m at the top level *)
Lemma InvR_attach_top : forall s s' m x,
  Tree s -> InvR s -> pmux s x = None -> pmsg s x = None ->
  pmux s' = pmux s ->
  (forall y, In y (glay s' m) <-> y = x \/ In y (glay s m)) ->
  (forall m', m' <> m -> glay s' m' = glay s m') ->
  (forall y, subtree s x y -> pmsg s' y = Some m) ->
  (forall y, ~ subtree s x y -> pmsg s' y = pmsg s y) ->
  (forall y, memb y (gsigs s' m) = true <-> subtree s x y \/ memb y (gsigs s m) = true) ->
  (forall m', m' <> m -> gsigs s' m' = gsigs s m') ->
  InvR s'.
Proof.
  intros s s' m x T R Epx Emx Ep Hl Hlo E1 E2 E3 E4.
  assert (Hnone : forall y, subtree s x y -> pmsg s y = None).
  { intros y [->|B]; [exact Emx|]. rewrite (below_pmsg s x y R B). exact Emx. }
  constructor.
  - intros m' y Hin. rewrite Ep. destruct (Nat.eq_dec m' m) as [->|NE].
    + apply Hl in Hin. destruct Hin as [->|Hin]; [split; [apply E1; left; reflexivity|exact Epx]|].
      destruct (r_top s R m y Hin) as [P Q]. split; [|exact Q].
      destruct (subtree_dec s x y T) as [S|NS]; [apply E1; exact S|]. rewrite (E2 y NS). exact P.
    + rewrite Hlo in Hin by exact NE. destruct (r_top s R m' y Hin) as [P Q]. split; [|exact Q].
      destruct (subtree_dec s x y T) as [S|NS]; [rewrite (Hnone y S) in P; discriminate|]. rewrite (E2 y NS). exact P.
  - intros y u Ey. rewrite Ep in Ey. destruct (subtree_dec s x y T) as [S|NS].
    + destruct S as [->|B]; [congruence|]. destruct (below_parent s x y B) as [u' [Eu' Su']].
      assert (u' = u) by congruence. subst u'. rewrite (E1 y (or_intror B)), (E1 u Su'). reflexivity.
    + destruct (subtree_dec s x u T) as [Su|NSu]; [exfalso; apply NS; right; apply (below_child s x y u Ey Su)|].
      rewrite (E2 y NS), (E2 u NSu). apply (r_child s R y u Ey).
  - intros y m' Ey Em. rewrite Ep in Ey. destruct (subtree_dec s x y T) as [S|NS].
    + destruct S as [->|B]; [|destruct (below_parent s x y B) as [u' [Eu' _]]; congruence].
      rewrite (E1 x (or_introl eq_refl)) in Em. inversion Em; subst m'. apply Hl. left; reflexivity.
    + rewrite (E2 y NS) in Em. pose proof (r_root s R y m' Ey Em) as Hin.
      destruct (Nat.eq_dec m' m) as [->|NE]; [apply Hl; right; exact Hin|rewrite Hlo by exact NE; exact Hin].
  - intros y m'. destruct (Nat.eq_dec m' m) as [->|NE].
    + rewrite E3. destruct (subtree_dec s x y T) as [S|NS].
      * rewrite (E1 y S). split; [reflexivity|intros _; left; exact S].
      * rewrite (E2 y NS), <- (r_reg s R y m). split; [intros [C|C]; [contradiction|exact C]|intros C; right; exact C].
    + rewrite E4 by exact NE. rewrite (r_reg s R y m'). destruct (subtree_dec s x y T) as [S|NS].
      * rewrite (E1 y S), (Hnone y S). split; [discriminate|intros C; inversion C; congruence].
      * rewrite (E2 y NS). tauto.
Qed.

(* the subtree of x leaves message m (x was top-level there, or a multiplexer child whose
   multiplexer belongs to m); x loses its parent multiplexer *)
Lemma InvR_detach : forall s s' m x,
  Tree s -> InvR s -> pmsg s x = Some m ->
  (forall y, pmux s' y = upd (pmux s) x None y) ->
  (forall m' y, In y (glay s' m') <-> In y (glay s m') /\ y <> x) ->
  (forall y, subtree s x y -> pmsg s' y = None) ->
  (forall y, ~ subtree s x y -> pmsg s' y = pmsg s y) ->
  (forall y, memb y (gsigs s' m) = true <-> memb y (gsigs s m) = true /\ ~ subtree s x y) ->
  (forall m', m' <> m -> gsigs s' m' = gsigs s m') ->
  InvR s'.
Proof.
  intros s s' m x T R Emx Ep Hl E1 E2 E3 E4.
  assert (Hsome : forall y, subtree s x y -> pmsg s y = Some m).
  { intros y [->|B]; [exact Emx|]. rewrite (below_pmsg s x y R B). exact Emx. }
  assert (Hpm : forall y, y <> x -> pmux s' y = pmux s y) by (intros y NE; rewrite Ep; apply upd_other; exact NE).
  constructor.
  - intros m' y Hin. apply Hl in Hin. destruct Hin as [Hin NE]. destruct (r_top s R m' y Hin) as [P Q].
    rewrite (Hpm y NE). split; [|exact Q].
    assert (NS : ~ subtree s x y) by (intros [C|B]; [contradiction|destruct (below_parent s x y B) as [u [Eu _]]; congruence]).
    rewrite (E2 y NS). exact P.
  - intros y u Ey. rewrite Ep in Ey. unfold upd in Ey. destruct (Nat.eqb_spec y x) as [->|NE]; [discriminate|].
    destruct (subtree_dec s x y T) as [S|NS].
    + destruct S as [C|B]; [contradiction|]. destruct (below_parent s x y B) as [u' [Eu' Su']].
      assert (u' = u) by congruence. subst u'. rewrite (E1 y (or_intror B)), (E1 u Su'). reflexivity.
    + destruct (subtree_dec s x u T) as [Su|NSu]; [exfalso; apply NS; right; apply (below_child s x y u Ey Su)|].
      rewrite (E2 y NS), (E2 u NSu). apply (r_child s R y u Ey).
  - intros y m' Ey Em. rewrite Ep in Ey. unfold upd in Ey. destruct (Nat.eqb_spec y x) as [->|NE].
    + rewrite (E1 x (or_introl eq_refl)) in Em. discriminate.
    + assert (NS : ~ subtree s x y) by (intros [C|B]; [contradiction|destruct (below_parent s x y B) as [u [Eu _]]; congruence]).
      rewrite (E2 y NS) in Em. apply Hl. split; [apply (r_root s R y m' Ey Em)|exact NE].
  - intros y m'. destruct (Nat.eq_dec m' m) as [->|NE].
    + rewrite E3, (r_reg s R y m). destruct (subtree_dec s x y T) as [S|NS].
      * rewrite (E1 y S). split; [intros [_ C]; contradiction|discriminate].
      * rewrite (E2 y NS). tauto.
    + rewrite E4 by exact NE. rewrite (r_reg s R y m'). destruct (subtree_dec s x y T) as [S|NS].
      * rewrite (E1 y S), (Hsome y S). split; [intros C; inversion C; congruence|discriminate].
      * rewrite (E2 y NS). tauto.
Qed.

(* x leaves a multiplexer that belongs to no message: only its parent pointer changes *)
Lemma InvR_unlink : forall s s' x,
  InvR s -> pmsg s x = None ->
  (forall y, pmux s' y = upd (pmux s) x None y) -> glay s' = glay s -> pmsg s' = pmsg s -> gsigs s' = gsigs s ->
  InvR s'.
Proof.
  intros s s' x R Emx Ep El Em Eg. constructor.
  - intros m y. rewrite El, Em, Ep. intros Hin. destruct (r_top s R m y Hin) as [P Q]. split; [exact P|].
    unfold upd. destruct (Nat.eqb y x); [reflexivity|exact Q].
  - intros y u Ey. rewrite Ep in Ey. unfold upd in Ey. destruct (Nat.eqb_spec y x); [discriminate|]. rewrite Em. apply (r_child s R y u Ey).
  - intros y m Ey E. rewrite Em in E. rewrite El. rewrite Ep in Ey. unfold upd in Ey. destruct (Nat.eqb_spec y x) as [->|NE]; [congruence|].
    apply (r_root s R y m Ey E).
  - intros y m. rewrite Eg, Em. apply (r_reg s R).
Qed.

(* a parentless, unregistered x (with its subtree) becomes a child of u, or x already is a child of u *)
Lemma InvR_link : forall s s' u x,
  Tree s -> InvR s ->
  ((pmux s x = None /\ pmsg s x = None) \/ pmux s x = Some u) ->
  ~ subtree s x u ->
  (forall y, pmux s' y = upd (pmux s) x (Some u) y) -> glay s' = glay s ->
  match pmsg s u with
  | Some m =>
      (forall y, subtree s x y -> pmsg s' y = Some m)
      /\ (forall y, ~ subtree s x y -> pmsg s' y = pmsg s y)
      /\ (forall y, memb y (gsigs s' m) = true <-> subtree s x y \/ memb y (gsigs s m) = true)
      /\ (forall m', m' <> m -> gsigs s' m' = gsigs s m')
  | None => pmsg s' = pmsg s /\ gsigs s' = gsigs s
  end ->
  (forall m, ~ In x (glay s m)) ->
  InvR s'.
Proof.
  intros s s' u x T R Hx Hnu Ep El Heff Hnt.
  assert (Hpm : forall y, y <> x -> pmux s' y = pmux s y) by (intros y NE; rewrite Ep; apply upd_other; exact NE).
  assert (Hpx : pmux s' x = Some u) by (rewrite Ep; apply upd_same).
  (* what x's subtree had before *)
  assert (Hold : forall y, subtree s x y -> pmsg s y = pmsg s x).
  { intros y [->|B]; [reflexivity|apply (below_pmsg s x y R B)]. }
  assert (Hxm : pmsg s x = None \/ pmsg s x = pmsg s u).
  { destruct Hx as [[_ E]|E]; [left; exact E|right; apply (r_child s R x u E)]. }
  destruct (pmsg s u) as [m|] eqn:Emu.
  - destruct Heff as (E1 & E2 & E3 & E4). constructor.
    + intros m' y. rewrite El. intros Hin. destruct (r_top s R m' y Hin) as [P Q].
      assert (NEx : y <> x) by (intros ->; exact (Hnt m' Hin)).
      rewrite (Hpm y NEx). split; [|exact Q].
      assert (NS : ~ subtree s x y) by (intros [C|B]; [contradiction|destruct (below_parent s x y B) as [w [Ew _]]; congruence]).
      rewrite (E2 y NS). exact P.
    + intros y w Ey. destruct (Nat.eq_dec y x) as [->|NE].
      * rewrite Hpx in Ey. inversion Ey; subst w. rewrite (E1 x (or_introl eq_refl)), (E2 u Hnu). symmetry. exact Emu.
      * rewrite (Hpm y NE) in Ey. destruct (subtree_dec s x y T) as [S|NS].
        -- destruct S as [C|B]; [contradiction|]. destruct (below_parent s x y B) as [w' [Ew' Sw']].
           assert (w' = w) by congruence. subst w'. rewrite (E1 y (or_intror B)), (E1 w Sw'). reflexivity.
        -- destruct (subtree_dec s x w T) as [Sw|NSw]; [exfalso; apply NS; right; apply (below_child s x y w Ey Sw)|].
           rewrite (E2 y NS), (E2 w NSw). apply (r_child s R y w Ey).
    + intros y m' Ey Em. rewrite El. destruct (Nat.eq_dec y x) as [->|NE]; [congruence|].
      rewrite (Hpm y NE) in Ey.
      assert (NS : ~ subtree s x y) by (intros [C|B]; [contradiction|destruct (below_parent s x y B) as [w [Ew _]]; congruence]).
      rewrite (E2 y NS) in Em. apply (r_root s R y m' Ey Em).
    + intros y m'. destruct (Nat.eq_dec m' m) as [->|NE].
      * rewrite E3. destruct (subtree_dec s x y T) as [S|NS].
        -- rewrite (E1 y S). split; [reflexivity|intros _; left; exact S].
        -- rewrite (E2 y NS), <- (r_reg s R y m). split; [intros [C|C]; [contradiction|exact C]|intros C; right; exact C].
      * rewrite E4 by exact NE. rewrite (r_reg s R y m'). destruct (subtree_dec s x y T) as [S|NS].
        -- rewrite (E1 y S), (Hold y S). destruct Hxm as [E|E]; rewrite E; [split; [discriminate|intros C; inversion C; congruence]|].
           split; intros C; inversion C; congruence.
        -- rewrite (E2 y NS). tauto.
  - destruct Heff as [Em Eg]. constructor.
    + intros m' y. rewrite El, Em. intros Hin. destruct (r_top s R m' y Hin) as [P Q].
      assert (NEx : y <> x) by (intros ->; exact (Hnt m' Hin)). rewrite (Hpm y NEx). split; assumption.
    + intros y w Ey. rewrite Em. destruct (Nat.eq_dec y x) as [->|NE].
      * rewrite Hpx in Ey. inversion Ey; subst w. rewrite Emu. destruct Hxm as [E|E]; exact E.
      * rewrite (Hpm y NE) in Ey. apply (r_child s R y w Ey).
    + intros y m' Ey E. rewrite Em in E. rewrite El. destruct (Nat.eq_dec y x) as [->|NE]; [congruence|].
      rewrite (Hpm y NE) in Ey. apply (r_root s R y m' Ey E).
    + intros y m'. rewrite Eg, Em. apply (r_reg s R).
Qed.

(* RemoveAllSignals *)
Lemma InvR_remove_all : forall s m, InvR s -> InvR (fst (step_remove_all s m)).
Proof.
  intros s m R. unfold step_remove_all. cbn [fst].
  assert (Hreg : forall y, memb y (gsigs s m) = true <-> pmsg s y = Some m) by (intros y; apply (r_reg s R)).
  constructor; cbn [glay pmsg pmux gsigs set_glay set_gnames set_gsigs].
  - intros m' y. rewrite pmsg_set_all. unfold upd. destruct (Nat.eqb_spec m' m) as [->|NE]; [intros []|].
    intros Hin. destruct (r_top s R m' y Hin) as [P Q]. split; [|exact Q].
    destruct (memb y (gsigs s m)) eqn:E; [apply Hreg in E; congruence|exact P].
  - intros y u Ey. rewrite !pmsg_set_all. pose proof (r_child s R y u Ey) as C.
    destruct (memb y (gsigs s m)) eqn:E1; destruct (memb u (gsigs s m)) eqn:E2; try reflexivity; try exact C.
    + apply Hreg in E1. rewrite C in E1. apply Hreg in E1. congruence.
    + apply Hreg in E2. rewrite <- C in E2. apply Hreg in E2. congruence.
  - intros y m' Ey. rewrite pmsg_set_all. destruct (memb y (gsigs s m)) eqn:E; [discriminate|]. intros Em.
    unfold upd. destruct (Nat.eqb_spec m' m) as [->|NE]; [apply Hreg in Em; congruence|apply (r_root s R y m' Ey Em)].
  - intros y m'. rewrite pmsg_set_all. rewrite gsigs_set_all. unfold upd. destruct (Nat.eqb_spec m' m) as [->|NE].
    + cbn. destruct (memb y (gsigs s m)) eqn:E; [split; discriminate|]. split; [discriminate|]. intros C. apply Hreg in C. congruence.
    + rewrite (r_reg s R y m'). destruct (memb y (gsigs s m)) eqn:E; [|tauto]. apply Hreg in E. split; [congruence|discriminate].
Qed.

(* ---------------------------------------------------------------------------------------- *)
(* the tree under link / unlink                                                              *)
(* ---------------------------------------------------------------------------------------- *)

Lemma belowN_smaller : forall n s x z, Tree s -> belowN n s x z -> sz s z < sz s x.
Proof.
  induction n as [|[|n] IH]; intros s x z T B; [destruct B| |].
  - apply (t_wf s T z x B).
  - rewrite belowN_S in B. destruct B as [u [E Hu]]. pose proof (IH s x u T Hu). destruct (t_wf s T z u E). lia.
Qed.

Lemma below_irrefl : forall s x n, Tree s -> ~ belowN n s x x.
Proof. intros s x n T B. pose proof (belowN_smaller n s x x T B). lia. Qed.

(* changing the parent pointer of x alone does not change what is below x *)
Lemma belowN_upd : forall s s' x, Tree s -> Tree s' -> (forall y, y <> x -> pmux s' y = pmux s y) ->
  forall n z, belowN n s' x z <-> belowN n s x z.
Proof.
  intros s s' x T T' Hp. induction n as [|[|n] IH]; intros z; [cbn; tauto| |].
  - cbn [belowN]. destruct (Nat.eq_dec z x) as [->|NE].
    + split; intros C; exfalso; [apply (below_irrefl s' x 1 T'); exact C|apply (below_irrefl s x 1 T); exact C].
    + rewrite (Hp z NE). tauto.
  - rewrite !belowN_S. destruct (Nat.eq_dec z x) as [->|NE].
    + split; intros C; exfalso; [apply (below_irrefl s' x (S (S n)) T'); rewrite belowN_S; exact C|apply (below_irrefl s x (S (S n)) T); rewrite belowN_S; exact C].
    + rewrite (Hp z NE). split; intros [u [E Hu]]; exists u; (split; [exact E|apply IH; exact Hu]).
Qed.

Lemma subtree_upd : forall s s' x y, Tree s -> Tree s' -> (forall z, z <> x -> pmux s' z = pmux s z) ->
  (subtree s' x y <-> subtree s x y).
Proof.
  intros s s' x y T T' Hp. unfold subtree, Below. split; intros [E|[n B]]; auto; right; exists n; apply (belowN_upd s s' x T T' Hp); exact B.
Qed.

Lemma memb_ladd : forall x l y, memb y (ladd x l) = true <-> y = x \/ memb y l = true.
Proof. intros. rewrite !memb_In. apply ladd_In. Qed.
Lemma memb_lrem : forall x l y, memb y (lrem x l) = true <-> memb y l = true /\ y <> x.
Proof. intros. rewrite !memb_In. apply lrem_In. Qed.

(* x stops being a child of u *)
Lemma Tree_unlink : forall s s' u x, Tree s -> pmux s x = Some u ->
  (forall y, pmux s' y = upd (pmux s) x None y) ->
  (forall u', usigs s' u' = if Nat.eqb u' u then lrem x (usigs s u) else usigs s u') ->
  kind s' = kind s -> nsig s' = nsig s -> (forall y, sz s' y = sz s y) -> Tree s'.
Proof.
  intros s s' u x T Ex Ep Eu Ek En Esz. constructor.
  - intros u' y. rewrite Eu, Ep. unfold upd. destruct (Nat.eqb_spec u' u) as [->|NE].
    + rewrite memb_lrem, (t_in s T u y). destruct (Nat.eqb_spec y x) as [->|NEy]; [split; [tauto|discriminate]|tauto].
    + rewrite (t_in s T u' y). destruct (Nat.eqb_spec y x) as [->|NEy]; [split; [congruence|discriminate]|tauto].
  - intros u' y. rewrite Eu. unfold is_mux. rewrite Ek. destruct (Nat.eqb_spec u' u) as [->|NE].
    + rewrite memb_lrem. intros [A _]. apply (t_mux s T u y A).
    + apply (t_mux s T u' y).
  - intros y w. rewrite Ep, !Esz, En. unfold upd. destruct (Nat.eqb y x); [discriminate|apply (t_wf s T)].
Qed.

(* x becomes a child of u *)
Lemma Tree_link : forall s s' u x, Tree s -> (pmux s x = None \/ pmux s x = Some u) ->
  is_mux s u = true -> sz s x < sz s u -> (u < nsig s)%nat -> (x < nsig s)%nat ->
  (forall y, pmux s' y = upd (pmux s) x (Some u) y) ->
  (forall u', usigs s' u' = if Nat.eqb u' u then ladd x (usigs s u) else usigs s u') ->
  kind s' = kind s -> nsig s' = nsig s -> (forall y, sz s' y = sz s y) -> Tree s'.
Proof.
  intros s s' u x T Ex Hmx Hsz Hu Hx Ep Eu Ek En Esz. constructor.
  - intros u' y. rewrite Eu, Ep. unfold upd. destruct (Nat.eqb_spec u' u) as [->|NE].
    + rewrite memb_ladd, (t_in s T u y). destruct (Nat.eqb_spec y x) as [->|NEy]; [split; auto|]. split; [intros [C|C]; [contradiction|exact C]|auto].
    + rewrite (t_in s T u' y). destruct (Nat.eqb_spec y x) as [->|NEy]; [|tauto].
      split; [intros C; destruct Ex as [E|E]; congruence|intros C; inversion C; congruence].
  - intros u' y. rewrite Eu. unfold is_mux. rewrite Ek. destruct (Nat.eqb_spec u' u) as [->|NE].
    + intros _. exact Hmx.
    + apply (t_mux s T u' y).
  - intros y w. rewrite Ep, !Esz, En. unfold upd. destruct (Nat.eqb_spec y x) as [->|NE]; [|apply (t_wf s T)].
    intros C. inversion C; subst w. repeat split; assumption.
Qed.

(* ---------------------------------------------------------------------------------------- *)
(* MultiplexerSignal.removeSignal / addSignal                                                *)
(* ---------------------------------------------------------------------------------------- *)

Lemma sz_mux_remove : forall s u x y, sz (mux_remove_signal s u x) y = sz s y.
Proof. intros. apply sz_reg; autorewrite with reg; reflexivity. Qed.
Lemma sz_mux_add : forall s u x y, sz (mux_add_signal s u x) y = sz s y.
Proof. intros. apply sz_reg; autorewrite with reg; reflexivity. Qed.

Lemma glay_mux_remove' : forall s u x, glay (mux_remove_signal s u x) = glay s.
Proof. intros. autorewrite with reg. reflexivity. Qed.

Lemma pmsg_mux_remove_none : forall s u x, pmsg s u = None -> pmsg (mux_remove_signal s u x) = pmsg s /\ gsigs (mux_remove_signal s u x) = gsigs s.
Proof. intros s u x E. unfold mux_remove_signal. cbn. rewrite E. split; reflexivity. Qed.
Lemma pmsg_mux_add_none : forall s u x, pmsg s u = None -> pmsg (mux_add_signal s u x) = pmsg s /\ gsigs (mux_add_signal s u x) = gsigs s.
Proof. intros s u x E. unfold mux_add_signal. cbn. rewrite E. split; reflexivity. Qed.

Lemma prim_mux_remove : forall s u x, Tree s -> InvR s -> pmux s x = Some u ->
  Tree (mux_remove_signal s u x) /\ InvR (mux_remove_signal s u x).
Proof.
  intros s u x T R Ex.
  assert (Hnt : forall m, ~ In x (glay s m)) by (intros m Hin; destruct (r_top s R m x Hin); congruence).
  assert (T' : Tree (mux_remove_signal s u x)).
  { eapply (Tree_unlink s _ u x T Ex); try (autorewrite with reg; reflexivity).
    - intros y. apply pmux_mux_remove.
    - intros u'. apply usigs_mux_remove.
    - intros y. apply sz_mux_remove. }
  split; [exact T'|].
  destruct (pmsg s u) as [m|] eqn:Emu.
  - (* the multiplexer belongs to message m: the subtree of x is unregistered *)
    set (s3 := set_pmux (set_unames (set_usigs s (upd (usigs s) u (lrem x (usigs s u)))) (upd (unames s) u (lrem x (unames s u)))) (upd (pmux s) x None)).
    assert (Es : mux_remove_signal s u x = msg_remove_signal s3 m x) by (unfold mux_remove_signal; cbn; rewrite Emu; reflexivity).
    assert (T3 : Tree s3).
    { eapply (Tree_unlink s s3 u x T Ex); try reflexivity;
        try (intros u'; cbn; unfold upd; destruct (Nat.eqb u' u); reflexivity). }
    destruct (msg_remove_effect s3 m x T3) as (F1 & F2 & F3 & F4).
    assert (Hsub : forall y, subtree s3 x y <-> subtree s x y).
    { intros y. apply (subtree_upd s s3 x y T T3). intros z NE. cbn. apply upd_other. exact NE. }
    rewrite Es. eapply (InvR_detach s _ m x T R).
    + rewrite (r_child s R x u Ex). exact Emu.
    + intros y. reflexivity.
    + intros m' y. cbn. split; [intros Hin; split; [exact Hin|intros ->; exact (Hnt m' Hin)]|tauto].
    + intros y Hy. apply F1. apply Hsub. exact Hy.
    + intros y Hy. rewrite F2; [reflexivity|]. intros C. apply Hy. apply Hsub. exact C.
    + intros y. rewrite F3. rewrite Hsub. reflexivity.
    + intros m' NE. rewrite F4 by exact NE. reflexivity.
  - destruct (pmsg_mux_remove_none s u x Emu) as [Em Eg].
    eapply (InvR_unlink s _ x R); try assumption.
    + rewrite (r_child s R x u Ex). exact Emu.
    + intros y. apply pmux_mux_remove.
    + autorewrite with reg. reflexivity.
Qed.

Lemma prim_mux_add : forall s u x, Tree s -> InvR s ->
  ((pmux s x = None /\ pmsg s x = None) \/ pmux s x = Some u) ->
  is_mux s u = true -> sz s x < sz s u -> (u < nsig s)%nat -> (x < nsig s)%nat ->
  Tree (mux_add_signal s u x) /\ InvR (mux_add_signal s u x).
Proof.
  intros s u x T R Hx Hmx Hsz Hu Hxl.
  assert (Hnt : forall m, ~ In x (glay s m)).
  { intros m Hin. destruct (r_top s R m x Hin) as [P Q]. destruct Hx as [[_ E]|E]; congruence. }
  assert (Hx' : pmux s x = None \/ pmux s x = Some u) by (destruct Hx as [[E _]|E]; auto).
  assert (T' : Tree (mux_add_signal s u x)).
  { eapply (Tree_link s _ u x T Hx' Hmx Hsz Hu Hxl); try (autorewrite with reg; reflexivity).
    - intros y. apply pmux_mux_add.
    - intros u'. apply usigs_mux_add.
    - intros y. apply sz_mux_add. }
  split; [exact T'|].
  assert (Hnu : ~ subtree s x u).
  { intros [E|[n B]]; [subst; lia|]. pose proof (belowN_smaller n s x u T B). lia. }
  set (s3 := set_pmux (set_unames (set_usigs s (upd (usigs s) u (ladd x (usigs s u)))) (upd (unames s) u (ladd x (unames s u)))) (upd (pmux s) x (Some u))).
  assert (T3 : Tree s3).
  { eapply (Tree_link s s3 u x T Hx' Hmx Hsz Hu Hxl); try reflexivity;
      try (intros u'; cbn; unfold upd; destruct (Nat.eqb u' u); reflexivity). }
  assert (Hsub : forall y, subtree s3 x y <-> subtree s x y).
  { intros y. apply (subtree_upd s s3 x y T T3). intros z NE. cbn. apply upd_other. exact NE. }
  eapply (InvR_link s _ u x T R Hx Hnu).
  - intros y. apply pmux_mux_add.
  - autorewrite with reg. reflexivity.
  - destruct (pmsg s u) as [m|] eqn:Emu.
    + assert (Es : mux_add_signal s u x = msg_add_signal s3 m x) by (unfold mux_add_signal; cbn; rewrite Emu; reflexivity).
      destruct (msg_add_effect s3 m x T3) as (F1 & F2 & F3 & F4). rewrite Es.
      split; [intros y Hy; apply F1; apply Hsub; exact Hy|].
      split; [intros y Hy; rewrite F2; [reflexivity|intros C; apply Hy; apply Hsub; exact C]|].
      split; [intros y; rewrite F3, Hsub; reflexivity|intros m' NE; rewrite F4 by exact NE; reflexivity].
    + apply (pmsg_mux_add_none s u x Emu).
  - exact Hnt.
Qed.

(* ---------------------------------------------------------------------------------------- *)
(* operations that do not touch the registry                                                 *)
(* ---------------------------------------------------------------------------------------- *)

Lemma rcore_msg_modify : forall s m x a, rcore (fst (msg_modify_size s m x a)) = rcore s.
Proof.
  intros. unfold msg_modify_size. destruct (a =? 0); [reflexivity|]. destruct (negb (memb x (gsigs s m))); [reflexivity|].
  destruct (if 0 <? a then _ else _) as [e pos]. destruct e; reflexivity.
Qed.
Lemma rcore_mux_modify : forall s u x a, rcore (fst (mux_modify_size s u x a)) = rcore s.
Proof.
  intros. unfold mux_modify_size. destruct (a =? 0); [reflexivity|]. destruct (negb (memb x (usigs s u))); [reflexivity|].
  destruct (mux_verify_size s u x a); try reflexivity. destruct (groups_of s u x) as [gs|]; [|reflexivity].
  rewrite modify_groups_pos. reflexivity.
Qed.
Lemma rcore_sig_modify : forall s x a, rcore (fst (sig_modify_size s x a)) = rcore s.
Proof. intros. unfold sig_modify_size. destruct (pmux s x); [apply rcore_mux_modify|]. destruct (pmsg s x); [apply rcore_msg_modify|reflexivity]. Qed.
Lemma rcore_refs_modify : forall refs s a, rcore (fst (refs_modify s refs a)) = rcore s.
Proof.
  induction refs as [|r t IH]; intros s a; cbn [refs_modify]; [reflexivity|].
  pose proof (rcore_sig_modify s r a) as P. destruct (sig_modify_size s r a) as [s' e]. cbn [fst] in *.
  destruct e; try exact P. rewrite IH. exact P.
Qed.
Lemma rcore_enum_modify : forall s e a, rcore (fst (enum_modify_size s e a)) = rcore s.
Proof. intros. unfold enum_modify_size. destruct (a =? 0); [reflexivity|apply rcore_refs_modify]. Qed.

Ltac rsame s0 R := apply (InvR_core s0); [reflexivity|exact R].

Lemma invr_set_type : forall s x n, InvR s -> InvR (fst (step_set_type s x n)).
Proof.
  intros s x n R. unfold step_set_type. destruct (kind s x) as [old| |]; try exact R. destruct (n <=? 0); [exact R|].
  pose proof (rcore_sig_modify s x (n - old)) as P. destruct (sig_modify_size s x (n - old)) as [s1 r]. cbn [fst] in P.
  destruct r; cbn [fst]; apply (InvR_core s); try exact R; exact P.
Qed.
Lemma invr_set_enum : forall s x e, InvR s -> InvR (fst (step_set_enum s x e)).
Proof.
  intros s x e R. unfold step_set_enum. destruct (kind s x) as [|old|]; try exact R.
  pose proof (rcore_sig_modify s x (esize s e - sz s x)) as P. destruct (sig_modify_size s x (esize s e - sz s x)) as [s1 r]. cbn [fst] in P.
  destruct r; cbn [fst]; apply (InvR_core s); try exact R; exact P.
Qed.
Lemma invr_add_value : forall s e idx, InvR s -> InvR (fst (step_add_value s e idx)).
Proof.
  intros s e idx R. unfold step_add_value. set (s0 := set_nval _ _).
  assert (R0 : InvR s0) by (rsame s R).
  destruct (verify_value_index s0 e idx); try exact R0.
  destruct (emax s0 e <? idx) eqn:El.
  - pose proof (rcore_enum_modify s0 e (esize_of (emin s0 e) idx - esize s0 e)) as P.
    destruct (enum_modify_size s0 e (esize_of (emin s0 e) idx - esize s0 e)) as [s1 r]. cbn [fst] in P.
    destruct r; cbn [fst]; try (apply (InvR_core s0); [exact P|exact R0]).
    destruct (emax s1 e <? idx); apply (InvR_core s0); try exact R0; exact P.
  - cbn [fst]. rewrite El. rsame s0 R0.
Qed.
Lemma invr_update_index : forall s v idx, InvR s -> InvR (fst (step_update_index s v idx)).
Proof.
  intros s v idx R. unfold step_update_index. destruct (vidx s v =? idx); [exact R|].
  destruct (vpar s v) as [e|]; [|cbn [fst]; rsame s R]. destruct (verify_value_index s e idx); try exact R.
  set (amt := esize_of (emin s e) _ - esize s e).
  pose proof (rcore_enum_modify s e amt) as P. destruct (enum_modify_size s e amt) as [s1 r]. cbn [fst] in P.
  destruct r; cbn [fst]; apply (InvR_core s); try exact R; exact P.
Qed.

(* ---------------------------------------------------------------------------------------- *)
(* attach / detach at message level                                                          *)
(* ---------------------------------------------------------------------------------------- *)

Lemma Tree_set_lists : forall s s', pmux s' = pmux s -> usigs s' = usigs s -> kind s' = kind s -> nsig s' = nsig s ->
  emax s' = emax s -> emin s' = emin s -> Tree s -> Tree s'.
Proof. intros s s' A B C D E F T. apply (Tree_ext s s'); try assumption. intros x. apply sz_reg; assumption. Qed.

Lemma invr_attach_msg : forall s m x pos l, InvA s -> InvM s -> InvR s -> ~ attached s x ->
  (forall y, In y l <-> y = x \/ In y (glay s m)) ->
  InvR (msg_add_signal (set_glay (set_rel s pos) (upd (glay s) m l)) m x).
Proof.
  intros s m x pos l HA H R Hfree Hl.
  pose proof (tree_of_inv s HA H) as T.
  destruct (link_top_of_inv s x HA H R) as [_ Lf]. destruct (Lf Hfree) as [Epx Emx].
  set (s1 := set_glay (set_rel s pos) (upd (glay s) m l)).
  assert (T1 : Tree s1) by (apply (Tree_set_lists s s1); try reflexivity; exact T).
  destruct (msg_add_effect s1 m x T1) as (F1 & F2 & F3 & F4).
  assert (Hsub : forall y, subtree s1 x y <-> subtree s x y) by (intros y; apply subtree_ext; reflexivity).
  eapply (InvR_attach_top s _ m x T R Epx Emx).
  - reflexivity.
  - intros y. cbn. rewrite upd_same. apply Hl.
  - intros m' NE. cbn. rewrite upd_other by exact NE. reflexivity.
  - intros y Hy. apply F1. apply Hsub. exact Hy.
  - intros y Hy. rewrite F2; [reflexivity|]. intros C. apply Hy. apply Hsub. exact C.
  - intros y. rewrite F3, Hsub. reflexivity.
  - intros m' NE. rewrite F4 by exact NE. reflexivity.
Qed.

Lemma invr_append : forall s m x, InvA s -> InvM s -> InvR s -> ~ attached s x -> InvR (fst (step_append s m x)).
Proof.
  intros s m x HA H R Hfree. unfold step_append. destruct (memb x (gnames s m)); [exact R|].
  destruct (verify_append (sz s) (rel s) (glsize s m) (glay s m) x); [exact R|]. cbn [do_append fst].
  apply invr_attach_msg; try assumption. intros y. rewrite in_app_iff. cbn [In]. intuition.
Qed.
Lemma invr_insert : forall s m x b, InvA s -> InvM s -> InvR s -> ~ attached s x -> InvR (fst (step_insert s m x b)).
Proof.
  intros s m x b HA H R Hfree. unfold step_insert. destruct (memb x (gnames s m)); [exact R|].
  destruct (verify_insert (sz s) (rel s) (glsize s m) (glay s m) x b); [exact R|]. cbn [do_insert fst].
  apply invr_attach_msg; try assumption. intros y. apply insert_at_In.
Qed.

(* ---------------------------------------------------------------------------------------- *)
(* multiplexer removal family and Message.RemoveSignal                                       *)
(* ---------------------------------------------------------------------------------------- *)

(* states that differ from s only in the group lists / membership bookkeeping *)
Lemma TR_lists : forall s s', rcore s' = rcore s -> usigs s' = usigs s -> kind s' = kind s -> nsig s' = nsig s ->
  emax s' = emax s -> emin s' = emin s -> Tree s /\ InvR s -> Tree s' /\ InvR s'.
Proof.
  intros s s' Erc Eu Ek En Ex Em [T R]. unfold rcore in Erc. inversion Erc as [[E1 E2 E3 E4]].
  split; [apply (Tree_set_lists s s'); assumption|apply (InvR_core s s'); [unfold rcore; congruence|exact R]].
Qed.

Lemma tr_mux_remove : forall s u x, Tree s /\ InvR s -> Tree (fst (step_mux_remove s u x)) /\ InvR (fst (step_mux_remove s u x)).
Proof.
  intros s u x [T R]. unfold step_mux_remove. destruct (memb x (usigs s u)) eqn:Em; cbn [negb]; [|split; assumption].
  assert (Ex : pmux s x = Some u) by (apply (t_in s T); exact Em).
  destruct (ufixed s u x).
  - cbn [fst]. set (s1 := set_ugroups s _).
    assert (TR1 : Tree s1 /\ InvR s1) by (apply (TR_lists s s1); try reflexivity; split; assumption).
    destruct TR1 as [T1 R1]. destruct (prim_mux_remove s1 u x T1 R1 Ex) as [T2 R2].
    apply (TR_lists (mux_remove_signal s1 u x)); try reflexivity. split; assumption.
  - destruct (ugids s u x) as [ids|]; [|split; assumption]. cbn [fst]. set (s1 := set_ugroups s _).
    assert (TR1 : Tree s1 /\ InvR s1) by (apply (TR_lists s s1); try reflexivity; split; assumption).
    destruct TR1 as [T1 R1]. destruct (prim_mux_remove s1 u x T1 R1 Ex) as [T2 R2].
    apply (TR_lists (mux_remove_signal s1 u x)); try reflexivity. split; assumption.
Qed.

Lemma invr_remove : forall s m x, InvA s -> InvM s -> InvR s -> InvR (fst (step_remove s m x)).
Proof.
  intros s m x HA H R. pose proof (tree_of_inv s HA H) as T. unfold step_remove.
  destruct (memb x (gsigs s m)) eqn:Em; cbn [negb]; [|exact R].
  destruct (pmux s x) as [u|] eqn:Epx; [apply (tr_mux_remove s u x (conj T R))|]. cbn [fst].
  assert (Emx : pmsg s x = Some m) by (apply (r_reg s R); exact Em).
  destruct (msg_remove_effect s m x T) as (F1 & F2 & F3 & F4).
  eapply (InvR_detach s _ m x T R Emx).
  - intros y. cbn. autorewrite with reg. unfold upd. destruct (Nat.eqb_spec y x) as [->|]; [exact Epx|reflexivity].
  - intros m' y. cbn. autorewrite with reg. unfold upd. destruct (Nat.eqb_spec m' m) as [->|NE].
    + apply do_remove_In.
    + split; [intros Hin; split; [exact Hin|]|tauto]. intros ->. destruct (r_top s R m' x Hin). congruence.
  - intros y Hy. cbn. apply F1. exact Hy.
  - intros y Hy. cbn. apply F2. exact Hy.
  - intros y. cbn. apply F3.
  - intros m' NE. cbn. apply F4. exact NE.
Qed.

Lemma tr_clear_group_loop : forall xs s u g, Tree s /\ InvR s -> NoDup xs -> (forall y, In y xs -> pmux s y = Some u) ->
  Tree (fst (clear_group_loop s u g xs)) /\ InvR (fst (clear_group_loop s u g xs)).
Proof.
  induction xs as [|x r IH]; intros s u g TR Hnd Hp; cbn [clear_group_loop]; [exact TR|].
  inversion Hnd as [|? ? Hnx Hnd']; subst.
  destruct (ufixed s u x); [apply IH; [exact TR|exact Hnd'|intros y Hy; apply Hp; right; exact Hy]|].
  set (s1 := set_ugroups s _).
  assert (TR1 : Tree s1 /\ InvR s1) by (apply (TR_lists s s1); try reflexivity; exact TR).
  destruct (ugids s1 u x) as [ids|]; [|exact TR1].
  destruct (length ids =? 1)%nat.
  - destruct TR1 as [T1 R1]. destruct (prim_mux_remove s1 u x T1 R1 (Hp x (or_introl eq_refl))) as [T2 R2].
    apply IH; [|exact Hnd'|].
    + apply (TR_lists (mux_remove_signal s1 u x)); try reflexivity. split; assumption.
    + intros y Hy. cbn. rewrite pmux_mux_remove. rewrite upd_other by (intros ->; contradiction). apply Hp. right; exact Hy.
  - apply IH; [|exact Hnd'|].
    + apply (TR_lists s1); try reflexivity. exact TR1.
    + intros y Hy. apply Hp. right; exact Hy.
Qed.

Lemma invr_mux_clear_group : forall s u g, InvA s -> InvM s -> InvR s -> InvR (fst (step_mux_clear_group s u g)).
Proof.
  intros s u g HA H R. pose proof (tree_of_inv s HA H) as T. unfold step_mux_clear_group. destruct (verify_gid s u g); [exact R|].
  pose proof (tr_clear_group_loop (gget s u (Z.to_nat g)) s u g (conj T R)) as P.
  destruct (clear_group_loop s u g (gget s u (Z.to_nat g))) as [s1 p]. cbn [fst] in *. apply P.
  - eapply ok_NoDup. apply (a_ok s HA (LG u (Z.to_nat g))).
  - intros y Hy. apply (m_pmux s H u (Z.to_nat g) y Hy).
Qed.

Lemma tr_fold_mux_remove : forall xs s u, Tree s /\ InvR s -> NoDup xs -> (forall y, In y xs -> pmux s y = Some u) ->
  Tree (fold_left (fun acc x => mux_remove_signal acc u x) xs s) /\ InvR (fold_left (fun acc x => mux_remove_signal acc u x) xs s).
Proof.
  induction xs as [|x r IH]; intros s u [T R] Hnd Hp; cbn [fold_left]; [split; assumption|].
  inversion Hnd as [|? ? Hnx Hnd']; subst.
  destruct (prim_mux_remove s u x T R (Hp x (or_introl eq_refl))) as [T2 R2].
  apply IH; [split; assumption|exact Hnd'|].
  intros y Hy. rewrite pmux_mux_remove. rewrite upd_other by (intros ->; contradiction). apply Hp. right; exact Hy.
Qed.

Lemma invr_mux_clear_all : forall s u, InvA s -> InvM s -> InvR s -> InvR (fst (step_mux_clear_all s u)).
Proof.
  intros s u HA H R. pose proof (tree_of_inv s HA H) as T. unfold step_mux_clear_all. cbn [fst].
  destruct (tr_fold_mux_remove (usigs s u) s u (conj T R) (m_usigs_nd s H u)) as [T1 R1].
  { intros y Hy. apply (t_in s T). apply memb_In. exact Hy. }
  apply (InvR_core (fold_left (fun acc x => mux_remove_signal acc u x) (usigs s u) s)); [reflexivity|exact R1].
Qed.

(* ---------------------------------------------------------------------------------------- *)
(* InsertSignal                                                                              *)
(* ---------------------------------------------------------------------------------------- *)

Lemma fits_smaller : forall s u x b g, InvA s -> InvM s -> vmux s u = true ->
  verify_insert (sz s) (rel s) (mux_gsize s u) (gget s u g) x b = None -> sz s x < sz s u.
Proof.
  intros s u x b g HA H Hu Hv. apply (verify_insert_range_free s u g x b HA) in Hv. destruct Hv as (V1 & V2 & _).
  unfold vmux in Hu. apply andb_true_iff in Hu. destruct Hu as [Hvs Hmx]. unfold is_mux in Hmx.
  unfold mux_gsize in V2. unfold sz at 2. destruct (kind s u) as [| |c gs] eqn:K; try discriminate.
  destruct (m_len s H u c gs K (vsig_lt s u Hvs)) as [_ Hc]. destruct (selw_spec c Hc) as [W _]. lia.
Qed.

Lemma invr_mux_insert : forall s u x b gids, InvA s -> InvM s -> InvR s -> vmux s u = true -> vsig s x = true ->
  ok_op_w s (OMuxInsert u x b gids) -> InvR (fst (step_mux_insert s u x b gids)).
Proof.
  intros s u x b gids HA H R Hu Hx Hop. cbn [ok_op_w] in Hop. pose proof (tree_of_inv s HA H) as T. unfold step_mux_insert.
  destruct (if memb x (unames s u) then false else match pmsg s u with Some m => memb x (gnames s m) | None => false end); [exact R|].
  assert (Hmux : is_mux s u = true) by (unfold vmux in Hu; apply andb_true_iff in Hu; tauto).
  assert (Hult : (u < nsig s)%nat) by (apply vmux_lt; exact Hu).
  assert (Hxlt : (x < nsig s)%nat) by (apply vsig_lt; exact Hx).
  assert (Hlen : length (ugroups s u) = Z.to_nat (mux_count s u) /\ 1 <= mux_count s u).
  { unfold is_mux in Hmux. unfold mux_count. destruct (kind s u) as [| |c g] eqn:K; try discriminate. apply (m_len s H u c g K Hult). }
  assert (Hlink : (pmux s x = None /\ pmsg s x = None) \/ pmux s x = Some u).
  { destruct Hop as [NA|[P _]]; [left; apply (link_top_of_inv s x HA H R); exact NA|right; apply (m_pmux2 s H); exact P]. }
  (* the common tail: bookkeeping, then addSignal *)
  assert (Htail : forall s2, rcore s2 = rcore s -> usigs s2 = usigs s -> kind s2 = kind s -> nsig s2 = nsig s ->
            emax s2 = emax s -> emin s2 = emin s -> sz s x < sz s u -> InvR (mux_add_signal s2 u x)).
  { intros s2 Erc Eu Ek En Ex Em Hsz. destruct (TR_lists s s2 Erc Eu Ek En Ex Em (conj T R)) as [T2 R2].
    unfold rcore in Erc. inversion Erc as [[E1 E2 E3 E4]].
    apply (prim_mux_add s2 u x T2 R2).
    - rewrite E3, E2. exact Hlink.
    - unfold is_mux. rewrite Ek. exact Hmux.
    - rewrite !(sz_reg s s2 Ek Ex Em). exact Hsz.
    - rewrite En. exact Hult.
    - rewrite En. exact Hxlt. }
  destruct gids as [|g0 gr].
  - destruct (memb x (usigs s u)); [exact R|].
    destruct (first_err (fun l => verify_insert (sz s) (rel s) (mux_gsize s u) l x b) (ugroups s u)) eqn:Ev; [exact R|].
    destruct (insert_all (rel s) (ugroups s u) x b) as [pos gs]. cbn [fst].
    apply Htail; try reflexivity.
    destruct (ugroups s u) as [|l0 r] eqn:Eg; [destruct Hlen as [El Hc]; cbn in El; lia|].
    apply (fits_smaller s u x b 0%nat HA H Hu). unfold gget. rewrite Eg. cbn [nth].
    apply (first_err_none _ _ Ev). left; reflexivity.
  - set (ids := dedup (g0 :: gr) []).
    destruct (verify_ids s u x b (memb x (usigs s u)) (ufixed s u x) (match ugids s u x with Some l => l | None => [] end) ids) eqn:Ev; [exact R|].
    destruct (insert_ids (rel s) (ugroups s u) ids x b) as [pos gs]. cbn [fst].
    apply Htail; try reflexivity.
    unfold verify_ids in Ev. assert (Hin : In g0 ids) by (unfold ids; cbn [dedup membZ existsb]; left; reflexivity).
    pose proof (first_err_none _ _ Ev g0 Hin) as Hv. cbn beta in Hv.
    destruct (verify_gid s u g0); [discriminate|]. destruct (ufixed s u x || membZ g0 _); [discriminate|].
    destruct (memb x (usigs s u) && negb (b =? rel s x)); [discriminate|].
    apply (fits_smaller s u x b (Z.to_nat g0) HA H Hu Hv).
Qed.

(* ---------------------------------------------------------------------------------------- *)
(* every operation                                                                           *)
(* ---------------------------------------------------------------------------------------- *)

Theorem invr_step : forall s o, InvA s -> InvM s -> InvR s -> ok_op_w s o -> InvR (fst (step s o)).
Proof.
  intros s o HA H R Hop. destruct o; cbn [step].
  - rsame s R.
  - destruct (size <? 0); [exact R|]. destruct (size =? 0); [exact R|]. cbn [fst]. rsame s R.
  - rsame s R.
  - destruct (venum s e); [cbn [fst]; rsame s R|exact R].
  - destruct (count <? 0); [exact R|]. destruct (count =? 0); [exact R|]. destruct (gsize <? 0); [exact R|]. destruct (gsize =? 0); [exact R|]. destruct (2 ^ 63 - 65 <? gsize); [exact R|].
    cbn [fst]. rsame s R.
  - destruct (vmsg s m && vsig s x); [apply invr_append; assumption|exact R].
  - destruct (vmsg s m && vsig s x); [apply invr_insert; assumption|exact R].
  - destruct (vmsg s m); [apply invr_remove; assumption|exact R].
  - destruct (vmsg s m); [apply InvR_remove_all; exact R|exact R].
  - destruct (vmsg s m); [|exact R]. unfold step_shift. destruct (negb (memb x (gsigs s m))); [exact R|].
    destruct (do_shift_left (sz s) (rel s) (glay s m) x a). cbn [fst]. rsame s R.
  - destruct (vmsg s m); [|exact R]. unfold step_shift. destruct (negb (memb x (gsigs s m))); [exact R|].
    destruct (do_shift_right (sz s) (rel s) (glsize s m) (glay s m) x a). cbn [fst]. rsame s R.
  - destruct (vmsg s m); [unfold step_compact; cbn [fst]; rsame s R|exact R].
  - destruct (vmsg s m); [|exact R]. unfold step_resize. destruct (bytes <? 0); [exact R|]. destruct (gbytes s m =? bytes); [exact R|].
    destruct (2 ^ 60 - 1 <? bytes); [exact R|]. destruct (verify_resize (sz s) (rel s) (glsize s m) (glay s m) (bytes * 8)); [exact R|]. cbn [fst]. rsame s R.
  - destruct (vmsg s m); exact R.
  - destruct (vsig s x); [apply invr_set_type; exact R|exact R].
  - destruct (vsig s x && venum s e); [apply invr_set_enum; exact R|exact R].
  - destruct (venum s e); [apply invr_add_value; exact R|exact R].
  - destruct (venum s e); [|exact R]. unfold step_remove_value. destruct (negb (memb v (evals s e))); [exact R|]. cbn [fst].
    destruct (vidx s v =? emax s e); rsame s R.
  - destruct (venum s e); [unfold step_remove_all_values; cbn [fst]; rsame s R|exact R].
  - destruct (venum s e); [cbn [fst]; rsame s R|exact R].
  - destruct (vval s v); [apply invr_update_index; exact R|exact R].
  - destruct (vmux s u) eqn:Eu; cbn [andb]; [|exact R]. destruct (vsig s x) eqn:Ex; [|exact R].
    apply invr_mux_insert; assumption.
  - destruct (vmux s u); [|exact R]. apply (tr_mux_remove s u x). split; [apply tree_of_inv; assumption|exact R].
  - destruct (vmux s u); [apply invr_mux_clear_group; assumption|exact R].
  - destruct (vmux s u); [apply invr_mux_clear_all; assumption|exact R].
  - destruct (vmux s u); [|exact R]. unfold step_mux_shift. destruct (ugids s u x) as [ids|]; [|exact R].
    destruct ids as [|g [|g2 r]]; try exact R. destruct (do_shift_left (sz s) (rel s) (gget s u (Z.to_nat g)) x a). cbn [fst]. rsame s R.
  - destruct (vmux s u); [|exact R]. unfold step_mux_shift. destruct (ugids s u x) as [ids|]; [|exact R].
    destruct ids as [|g [|g2 r]]; try exact R. destruct (do_shift_right (sz s) (rel s) (mux_gsize s u) (gget s u (Z.to_nat g)) x a). cbn [fst]. rsame s R.
  - destruct (vmsg s m); [|exact R]. unfold step_resize_bus. destruct (bytes <? 0); [exact R|]. destruct (gbytes s m =? bytes); [exact R|].
    destruct (2 ^ 60 - 1 <? bytes); [exact R|]. destruct (lim <? bytes); [exact R|].
    unfold step_resize. destruct (bytes <? 0); [exact R|]. destruct (gbytes s m =? bytes); [exact R|].
    destruct (2 ^ 60 - 1 <? bytes); [exact R|]. destruct (verify_resize (sz s) (rel s) (glsize s m) (glay s m) (bytes * 8)); [exact R|]. cbn [fst]. rsame s R.
  - destruct (vsig s x); exact R.
Qed.

Lemma invr_init : InvR init.
Proof.
  constructor.
  - intros m x Hin. cbn in Hin. destruct Hin.
  - intros x u E. cbn in E. discriminate.
  - intros x m _ E. cbn in E. discriminate.
  - intros x m. cbn. split; discriminate.
Qed.

(* ---------------------------------------------------------------------------------------- *)
(* the final hypotheses: only the open findings remain                                       *)
(* ---------------------------------------------------------------------------------------- *)

Definition enum_resize_ok_f (s : state) (e : nat) (a : Z) : Prop :=
  (forall x, In x (erefs s e) -> single_moved s (rel s) x a) /\ (0 < a -> unshared s (erefs s e)).

Definition ok_op_f (s : state) (o : op) : Prop :=
  match o with
  | ONewMsg n => msg_size_ok n                                                        (* constructor overflow *)
  | OAppend m x | OInsert m x _ => ~ attached s x                                        (* D20 *)
  | OMuxInsert u x _ _ =>
      ~ attached s x \/ (memb x (usigs s u) = true /\ forall L, In x (lay s L) -> exists g, L = LG u g)   (* D20 *)
  | OSetType x n => single_moved s (rel s) x (n - sz s x)                                (* D35 *)
  | OSetEnum x e => single_moved s (rel s) x (esize s e - sz s x)                        (* D35 *)
  | OAddValue e idx => emax s e < idx -> esize_of (emin s e) idx <> esize s e ->
      enum_resize_ok_f s e (esize_of (emin s e) idx - esize s e)                          (* D35, D36 *)
  | OUpdateIndex v idx =>
      forall e, vpar s v = Some e ->
        esize_of (emin s e) (Z.max (Z.max 0 idx) (max_index s (lrem v (evals s e)))) <> esize s e ->
        enum_resize_ok_f s e (esize_of (emin s e) (Z.max (Z.max 0 idx) (max_index s (lrem v (evals s e)))) - esize s e)   (* D35, D36 *)
  | OSetMinSize e n => forall x, In x (erefs s e) -> attached s x -> esize_of n (emax s e) <= esize s e   (* D03 *)
  | _ => True
  end.

Lemma ok_op_w_of_f : forall s o, InvA s -> InvM s -> InvR s -> ok_op_f s o -> ok_op_w s o.
Proof.
  intros s o HA H R Hf. destruct o; cbn [ok_op_f ok_op_w] in *; try exact Hf; try exact I.
  - split; [apply link_top_of_inv; assumption|exact Hf].
  - split; [apply link_top_of_inv; assumption|exact Hf].
  - intros A B. destruct (Hf A B) as [S U]. split; [|exact U]. intros x Hx. split; [apply link_top_of_inv; assumption|apply S; exact Hx].
  - intros e A B. destruct (Hf e A B) as [S U]. split; [|exact U]. intros x Hx. split; [apply link_top_of_inv; assumption|apply S; exact Hx].
Qed.

Fixpoint ok_hist_f_from (s : state) (ops : list op) : Prop :=
  match ops with
  | [] => True
  | o :: r => ok_op_f s o /\ ok_hist_f_from (fst (step s o)) r
  end.
Definition ok_hist_f (ops : list op) : Prop := ok_hist_f_from init ops.

Lemma inv3_from : forall ops s, InvA s -> InvM s -> InvR s -> ok_hist_f_from s ops ->
  let s' := fold_left (fun s o => fst (step s o)) ops s in
  InvA s' /\ InvM s' /\ InvR s' /\ ok_hist_w_from s ops.
Proof.
  induction ops as [|o r IH]; intros s HA H R Hh; cbn [fold_left ok_hist_w_from]; cbn zeta.
  - split; [exact HA|split; [exact H|split; [exact R|exact I]]].
  - destruct Hh as [Ho Hr]. pose proof (ok_op_w_of_f s o HA H R Ho) as Hw.
    destruct (step_keeps_invariants s o HA H Hw) as [HA' H']. pose proof (invr_step s o HA H R Hw) as R'.
    destruct (IH (fst (step s o)) HA' H' R' Hr) as (A & B & C & D). cbn zeta in *.
    split; [exact A|split; [exact B|split; [exact C|split; [exact Hw|exact D]]]].
Qed.

Theorem inv3_reachable : forall ops, ok_hist_f ops -> InvA (run ops) /\ InvM (run ops) /\ InvR (run ops).
Proof. intros ops Hh. destruct (inv3_from ops init inv_init invm_init invr_init Hh) as (A & B & C & _). split; [exact A|split; [exact B|exact C]]. Qed.

Theorem ok_hist_w_of_f : forall ops, ok_hist_f ops -> ok_hist_w ops.
Proof. intros ops Hh. apply (inv3_from ops init inv_init invm_init invr_init Hh). Qed.

Theorem step_keeps_invariants3 : forall s o, InvA s -> InvM s -> InvR s -> ok_op_f s o ->
  InvA (fst (step s o)) /\ InvM (fst (step s o)) /\ InvR (fst (step s o)).
Proof.
  intros s o HA H R Hf. pose proof (ok_op_w_of_f s o HA H R Hf) as Hw.
  destruct (step_keeps_invariants s o HA H Hw) as [A B]. split; [exact A|split; [exact B|apply invr_step; assumption]].
Qed.

(* the owning message's view, over histories: the registry and the parent-message pointer of every
   signal are exactly the layout tree of the message *)
Theorem message_view_reachable : forall ops, ok_hist_f ops -> forall m x,
  (memb x (gsigs (run ops) m) = true <-> in_tree (run ops) m x)
  /\ (pmsg (run ops) x = Some m <-> in_tree (run ops) m x).
Proof.
  intros ops Hh m x. destruct (inv3_reachable ops Hh) as (HA & H & R).
  pose proof (registry_is_tree (run ops) m x HA H R) as P. split; [exact P|]. rewrite <- (r_reg _ R). exact P.
Qed.

(* ---------------------------------------------------------------------------------------- *)
(* the history-level statements under the final hypotheses                                   *)
(* ---------------------------------------------------------------------------------------- *)

Lemma layout_wf_f : forall ops, ok_hist_f ops -> forall m,
  wf (8 * gbytes (run ops) m) (msg_view (run ops) m).
Proof.
  intros ops Hh m. destruct (inv3_reachable ops Hh) as (H & _ & _).
  unfold msg_view. apply ok_wf. pose proof (a_ok _ H (LM m)) as Hok. cbn [lay lsz] in Hok.
  rewrite (a_lsize _ H m) in Hok. replace (8 * gbytes (run ops) m) with (gbytes (run ops) m * 8) by lia. exact Hok.
Qed.

Lemma groups_wf_f : forall ops, ok_hist_f ops -> forall u g,
  wf (mux_gsize (run ops) u) (group_view (run ops) u g).
Proof.
  intros ops Hh u g. destruct (inv3_reachable ops Hh) as (H & _ & _).
  unfold group_view. apply ok_wf. exact (a_ok _ H (LG u g)).
Qed.

Lemma membership_fixed_f : forall ops, ok_hist_f ops -> forall u x, ufixed (run ops) u x = true ->
  (forall g, (Z.of_nat g < mux_count (run ops) u) -> In x (gget (run ops) u g)) /\ ugids (run ops) u x = None.
Proof. intros ops Hh. apply membership_fixed_w. apply ok_hist_w_of_f. exact Hh. Qed.
Lemma membership_ids_f : forall ops, ok_hist_f ops -> forall u x ids, ugids (run ops) u x = Some ids ->
  (forall g : nat, In x (gget (run ops) u g) <-> In (Z.of_nat g) ids)
  /\ NoDup ids /\ ids <> [] /\ (forall g, In g ids -> 0 <= g < mux_count (run ops) u) /\ ufixed (run ops) u x = false.
Proof. intros ops Hh. apply membership_ids_w. apply ok_hist_w_of_f. exact Hh. Qed.
Lemma membership_cover_f : forall ops, ok_hist_f ops -> forall u g x, In x (gget (run ops) u g) ->
  (ufixed (run ops) u x = true \/ ugids (run ops) u x <> None) /\ pmux (run ops) x = Some u.
Proof. intros ops Hh. apply membership_cover_w. apply ok_hist_w_of_f. exact Hh. Qed.

Lemma abs_start_bit_f : forall ops, ok_hist_f ops -> forall x u, pmux (run ops) x = Some u ->
  start_bit (run ops) x = start_bit (run ops) u + selw (mux_count (run ops) u) + rel (run ops) x.
Proof. intros ops Hh. apply abs_start_bit_full_proved. apply ok_hist_w_of_f. exact Hh. Qed.

Lemma abs_start_bit_top_f : forall s x, pmux s x = None -> start_bit s x = rel s x.
Proof. exact start_bit_top. Qed.

(* variants of C01's per-step lemmas under the final hypotheses *)
Lemma ok_op_of_f : forall s o, InvA s -> InvM s -> InvR s -> ok_op_f s o -> ok_op s o.
Proof. intros s o HA H R Hf. apply ok_op_of_w; try assumption. apply ok_op_w_of_f; assumption. Qed.

Lemma link_ok_of_inv : forall s x, InvA s -> InvM s -> InvR s -> link_ok s x.
Proof. intros s x HA H R. apply link_ok_of_top; try assumption. apply link_top_of_inv; assumption. Qed.
