(* C01/C07 — the registry invariant: the parent-message pointer and the message's registry follow
   the layout tree.  Discharges the link hypothesis of the resize operations and gives the
   "owning message's view" clause of C07. *)
From Coq Require Import ZArith List Bool Arith Lia.
From Acme.C01 Require Import Layout State Model ProofsLayout ProofsInv.
From Acme.C07 Require Import Proofs.
Import ListNotations.
Open Scope Z_scope.

(* ---------------------------------------------------------------------------------------- *)
(* the multiplexer tree (parent pointers and child lists), independent of the group lists    *)
(* ---------------------------------------------------------------------------------------- *)

Record Tree (s : state) : Prop := {
  t_in : forall u x, memb x (usigs s u) = true <-> pmux s x = Some u;
  t_mux : forall u x, memb x (usigs s u) = true -> is_mux s u = true;
  t_wf : forall x u, pmux s x = Some u -> sz s x < sz s u /\ (u < nsig s)%nat /\ (x < nsig s)%nat
}.

Lemma tree_of_inv : forall s, InvA s -> InvM s -> Tree s.
Proof.
  intros s HA H. constructor.
  - intros u x. split; [apply (m_pmux2 s H)|apply (m_pmux3 s H)].
  - intros u x Hm. assert (Ep : pmux s x = Some u) by (apply (m_pmux2 s H); exact Hm).
    apply (m_usigs s H) in Hm. destruct Hm as [F|F]; [exact (proj1 (m_fixed_mux s H u x F))|].
    destruct (ugids s u x) as [ids|] eqn:E; [|congruence]. destruct (m_ids s H u x ids E) as (_ & _ & Hne & Hval & Hiff).
    destruct ids as [|g r]; [congruence|]. destruct (Hval g (or_introl eq_refl)) as [Hg0 _].
    assert (Hin : In x (gget s u (Z.to_nat g))) by (apply Hiff; rewrite Z2Nat.id by lia; left; reflexivity).
    pose proof (a_ok s HA (LG u (Z.to_nat g))) as Hok. cbn [lay lsz] in Hok. pose proof (ok_In _ _ _ _ _ _ Hok Hin) as (B1 & B2 & B3).
    unfold is_mux. unfold mux_gsize in B3. destruct (kind s u); [lia|lia|reflexivity].
  - intros x u E. apply parent_bigger; assumption.
Qed.

(* z is n >= 1 parent steps below x *)
Fixpoint belowN (n : nat) (s : state) (x z : nat) : Prop :=
  match n with
  | O => False
  | S O => pmux s z = Some x
  | S n' => exists u, pmux s z = Some u /\ belowN n' s x u
  end.
Definition Below (s : state) (x z : nat) : Prop := exists n, belowN n s x z.

Lemma belowN_S : forall n s x z, belowN (S (S n)) s x z <-> exists u, pmux s z = Some u /\ belowN (S n) s x u.
Proof. intros. cbn [belowN]. tauto. Qed.

Lemma belowN_top : forall n s x z, belowN (S (S n)) s x z <-> exists c, pmux s c = Some x /\ belowN (S n) s c z.
Proof.
  induction n as [|n IH]; intros s x z.
  - cbn [belowN]. split.
    + intros [u [E Eu]]. exists u. split; assumption.
    + intros [c [Ec E]]. exists c. split; assumption.
  - rewrite belowN_S. split.
    + intros [u [E Hu]]. apply IH in Hu. destruct Hu as [c [Ec Hc]]. exists c. split; [exact Ec|].
      rewrite belowN_S. exists u. split; assumption.
    + intros [c [Ec Hc]]. rewrite belowN_S in Hc. destruct Hc as [u [E Hu]]. exists u. split; [exact E|].
      apply IH. exists c. split; assumption.
Qed.

Lemma belowN_has_child : forall n s c z, belowN (S n) s c z -> exists y, pmux s y = Some c.
Proof.
  induction n as [|n IHn]; intros s c z Hc; [exists z; exact Hc|].
  rewrite belowN_S in Hc. destruct Hc as [u [E Hu]]. apply (IHn s c u Hu).
Qed.

(* the chain of parents: sizes grow strictly, so it has no repetition and is bounded *)
Lemma chain_props_t : forall f s x, Tree s ->
  (forall y, In y (tl (chain f s x)) -> sz s x < sz s y /\ (y < nsig s)%nat) /\ NoDup (chain f s x).
Proof.
  induction f as [|f IH]; intros s x T; cbn [chain].
  - split; [intros y []|constructor; [intros []|constructor]].
  - destruct (pmux s x) as [u|] eqn:E; [|split; [intros y []|constructor; [intros []|constructor]]].
    destruct (t_wf s T x u E) as (Hlt & Hu & Hx). destruct (IH s u T) as [Ht Hnd]. cbn [tl].
    assert (Hall : forall y, In y (chain f s u) -> sz s x < sz s y /\ (y < nsig s)%nat).
    { intros y Hy. destruct f; cbn [chain] in Hy.
      - destruct Hy as [<-|[]]. split; assumption.
      - destruct Hy as [<-|Hy]; [split; assumption|]. assert (Hy' : In y (tl (chain (S f) s u))) by (cbn [chain tl]; exact Hy).
        destruct (Ht y Hy') as [A B]. split; [lia|exact B]. }
    split; [exact Hall|]. constructor; [|exact Hnd]. intros Hin. destruct (Hall x Hin). lia.
Qed.

Lemma belowN_bound : forall n s x z, Tree s -> belowN n s x z -> (n <= nsig s)%nat.
Proof.
  intros n s x z T Hb.
  assert (Hlen : length (chain n s z) = S n).
  { revert z Hb. induction n as [|[|n] IH]; intros z Hb; [destruct Hb| |].
    - cbn [belowN] in Hb. cbn [chain]. rewrite Hb. reflexivity.
    - rewrite belowN_S in Hb. destruct Hb as [u [E Hu]].
      change (chain (S (S n)) s z) with (z :: match pmux s z with Some u => chain (S n) s u | None => [] end).
      rewrite E. cbn [length]. rewrite (IH u Hu). reflexivity. }
  destruct (chain_props_t n s z T) as [Ht Hnd].
  assert (Hnd' : NoDup (tl (chain n s z))) by (destruct (chain n s z); [constructor|inversion Hnd; assumption]).
  assert (Hincl : incl (tl (chain n s z)) (seq 0 (nsig s))) by (intros y Hy; apply in_seq; destruct (Ht y Hy); lia).
  pose proof (NoDup_incl_length Hnd' Hincl) as Hle. rewrite seq_length in Hle.
  destruct (chain n s z) as [|a r]; cbn [length tl] in *; lia.
Qed.

(* desc lists exactly the signals at most f steps below x *)
Lemma desc_iff : forall f s x z, Tree s ->
  (In z (desc f s x) <-> exists n, (1 <= n <= f)%nat /\ belowN n s x z).
Proof.
  induction f as [|f IH]; intros s x z T; cbn [desc].
  - split; [intros []|intros [n [Hn _]]; lia].
  - rewrite in_flat_map. split.
    + intros [c [Hc Hz]]. assert (Epc : pmux s c = Some x) by (apply (t_in s T); apply memb_In; exact Hc).
      destruct Hz as [<-|Hz]; [exists 1%nat; split; [lia|exact Epc]|].
      destruct (is_mux s c); [|destruct Hz]. apply (IH s c z T) in Hz. destruct Hz as [n [Hn Hb]].
      exists (S n). split; [lia|]. destruct n as [|n]; [lia|]. apply belowN_top. exists c. split; assumption.
    + intros [n [Hn Hb]]. destruct n as [|[|n]]; [lia| |].
      * cbn [belowN] in Hb. exists z. split; [apply memb_In; apply (t_in s T); exact Hb|left; reflexivity].
      * apply belowN_top in Hb. destruct Hb as [c [Ec Hc]]. exists c. split; [apply memb_In; apply (t_in s T); exact Ec|].
        right. destruct (belowN_has_child n s c z Hc) as [y Ey].
        rewrite (t_mux s T c y (proj2 (t_in s T c y) Ey)). apply (IH s c z T). exists (S n). split; [lia|exact Hc].
Qed.

Lemma desc_below : forall s x z, Tree s -> (In z (desc (nsig s) s x) <-> Below s x z).
Proof.
  intros s x z T. rewrite (desc_iff (nsig s) s x z T). unfold Below. split.
  - intros [n [_ Hb]]. exists n. exact Hb.
  - intros [n Hb]. exists n. split; [|exact Hb]. split; [destruct n; [destruct Hb|lia]|apply (belowN_bound n s x z T Hb)].
Qed.

(* the set registered / unregistered by Message.addSignal / removeSignal for x *)
Definition subtree (s : state) (x y : nat) : Prop := y = x \/ Below s x y.

Lemma subtree_list : forall s x y, Tree s ->
  (In y (x :: (if is_mux s x then desc (nsig s) s x else [])) <-> subtree s x y).
Proof.
  intros s x y T. unfold subtree. cbn [In]. destruct (is_mux s x) eqn:Em.
  - rewrite (desc_below s x y T). split; intros [E|B]; auto.
  - split; [intros [E|[]]; left; auto|]. intros [E|[n B]]; [left; auto|]. exfalso.
    destruct n as [|n]; [destruct B|]. destruct (belowN_has_child n s x y B) as [c Ec].
    pose proof (t_mux s T x c (proj2 (t_in s T x c) Ec)). congruence.
Qed.

Lemma below_child : forall s x z u, pmux s z = Some u -> subtree s x u -> Below s x z.
Proof.
  intros s x z u E [->|[n B]]; [exists 1%nat; exact E|].
  exists (S n). destruct n as [|n]; [destruct B|]. rewrite belowN_S. exists u. split; assumption.
Qed.

Lemma below_parent : forall s x z, Below s x z -> exists u, pmux s z = Some u /\ subtree s x u.
Proof.
  intros s x z [n B]. destruct n as [|[|n]]; [destruct B| |].
  - exists x. split; [exact B|left; reflexivity].
  - rewrite belowN_S in B. destruct B as [u [E Hu]]. exists u. split; [exact E|right; exists (S n); exact Hu].
Qed.

(* ---------------------------------------------------------------------------------------- *)
(* effect of Message.addSignal / removeSignal on the registry                                *)
(* ---------------------------------------------------------------------------------------- *)

Lemma ladd_all_In : forall xs l y, In y (ladd_all xs l) <-> In y xs \/ In y l.
Proof.
  unfold ladd_all. induction xs as [|a r IH]; intros l y; cbn [fold_left]; [cbn; tauto|].
  rewrite IH, ladd_In. cbn [In]. intuition.
Qed.
Lemma lrem_all_In : forall xs l y, In y (lrem_all xs l) <-> In y l /\ ~ In y xs.
Proof.
  unfold lrem_all. induction xs as [|a r IH]; intros l y; cbn [fold_left]; [cbn; tauto|].
  rewrite IH, lrem_In. cbn [In]. intuition.
Qed.

Lemma pmsg_set_all : forall s xs v y, pmsg (set_pmsg_all s xs v) y = if memb y xs then v else pmsg s y.
Proof. reflexivity. Qed.
Lemma gsigs_set_all : forall s xs v, gsigs (set_pmsg_all s xs v) = gsigs s.
Proof. reflexivity. Qed.

Lemma msg_add_effect : forall s m x, Tree s ->
  (forall y, subtree s x y -> pmsg (msg_add_signal s m x) y = Some m)
  /\ (forall y, ~ subtree s x y -> pmsg (msg_add_signal s m x) y = pmsg s y)
  /\ (forall y, memb y (gsigs (msg_add_signal s m x) m) = true <-> subtree s x y \/ memb y (gsigs s m) = true)
  /\ (forall m', m' <> m -> gsigs (msg_add_signal s m x) m' = gsigs s m').
Proof.
  intros s m x T. unfold msg_add_signal.
  set (ds := if is_mux s x then desc (nsig s) s x else []).
  assert (Hsub : forall y, memb y (x :: ds) = true <-> subtree s x y) by (intros y; rewrite memb_In; apply subtree_list; exact T).
  split; [|split; [|split]].
  - intros y Hy. rewrite pmsg_set_all. apply Hsub in Hy. rewrite Hy. reflexivity.
  - intros y Hy. rewrite pmsg_set_all. destruct (memb y (x :: ds)) eqn:E; [apply Hsub in E; contradiction|reflexivity].
  - intros y. rewrite gsigs_set_all. cbn [gsigs set_gnames set_gsigs]. rewrite upd_same. rewrite !memb_In, ladd_all_In, ladd_In. rewrite <- (subtree_list s x y T). cbn [In]. fold ds. intuition.
  - intros m' NE. rewrite gsigs_set_all. cbn [gsigs set_gnames set_gsigs]. rewrite upd_other by exact NE. reflexivity.
Qed.

Lemma msg_remove_effect : forall s m x, Tree s ->
  (forall y, subtree s x y -> pmsg (msg_remove_signal s m x) y = None)
  /\ (forall y, ~ subtree s x y -> pmsg (msg_remove_signal s m x) y = pmsg s y)
  /\ (forall y, memb y (gsigs (msg_remove_signal s m x) m) = true <-> memb y (gsigs s m) = true /\ ~ subtree s x y)
  /\ (forall m', m' <> m -> gsigs (msg_remove_signal s m x) m' = gsigs s m').
Proof.
  intros s m x T. unfold msg_remove_signal.
  set (ds := if is_mux s x then desc (nsig s) s x else []).
  assert (Hsub : forall y, memb y (x :: ds) = true <-> subtree s x y) by (intros y; rewrite memb_In; apply subtree_list; exact T).
  split; [|split; [|split]].
  - intros y Hy. rewrite pmsg_set_all. apply Hsub in Hy. rewrite Hy. reflexivity.
  - intros y Hy. rewrite pmsg_set_all. destruct (memb y (x :: ds)) eqn:E; [apply Hsub in E; contradiction|reflexivity].
  - intros y. rewrite gsigs_set_all. cbn [gsigs set_gnames set_gsigs]. rewrite upd_same. rewrite !memb_In, lrem_all_In, lrem_In. rewrite <- (subtree_list s x y T). cbn [In]. fold ds. intuition.
  - intros m' NE. rewrite gsigs_set_all. cbn [gsigs set_gnames set_gsigs]. rewrite upd_other by exact NE. reflexivity.
Qed.

(* ---------------------------------------------------------------------------------------- *)
(* the registry invariant                                                                    *)
(* ---------------------------------------------------------------------------------------- *)

Record InvR (s : state) : Prop := {
  r_top : forall m x, In x (glay s m) -> pmsg s x = Some m /\ pmux s x = None;
  r_child : forall x u, pmux s x = Some u -> pmsg s x = pmsg s u;
  r_root : forall x m, pmux s x = None -> pmsg s x = Some m -> In x (glay s m);
  r_reg : forall x m, memb x (gsigs s m) = true <-> pmsg s x = Some m
}.

(* everything below x has x's message *)
Lemma below_pmsg : forall s x z, InvR s -> Below s x z -> pmsg s z = pmsg s x.
Proof.
  intros s x z R [n B]. revert z B. induction n as [|[|n] IH]; intros z B; [destruct B| |].
  - apply (r_child s R z x B).
  - rewrite belowN_S in B. destruct B as [u [E Hu]]. rewrite (r_child s R z u E). apply IH. exact Hu.
Qed.

(* a top-level signal is not a multiplexer child (exclusivity of placement) *)
Lemma top_not_child : forall s x m u, InvA s -> InvM s -> In x (glay s m) -> pmux s x = Some u -> False.
Proof.
  intros s x m u HA H Hin E.
  pose proof (m_pmux3 s H u x E) as Hm. apply (m_usigs s H) in Hm.
  assert (Hg : exists g, In x (gget s u g)).
  { destruct Hm as [F|F].
    - destruct (m_fixed_mux s H u x F) as [Hmx Hu]. unfold is_mux in Hmx. destruct (kind s u) as [| |c g] eqn:K; try discriminate.
      destruct (m_len s H u c g K Hu) as [El Hc]. destruct (m_fixed s H u x F) as [_ B]. exists 0%nat. apply B. rewrite El. lia.
    - destruct (ugids s u x) as [ids|] eqn:Ei; [|congruence]. destruct (m_ids s H u x ids Ei) as (_ & _ & Hne & Hval & Hiff).
      destruct ids as [|g r]; [congruence|]. destruct (Hval g (or_introl eq_refl)) as [Hg0 _].
      exists (Z.to_nat g). apply Hiff. rewrite Z2Nat.id by lia. left; reflexivity. }
  destruct Hg as [g Hg]. exact (a_excl s HA (LM m) (LG u g) x Hin Hg).
Qed.

(* the link hypothesis of the resize operations follows from the three invariants *)
Lemma link_top_of_inv : forall s x, InvA s -> InvM s -> InvR s -> link_top s x.
Proof.
  intros s x HA H R. split.
  - intros m Hin. destruct (r_top s R m x Hin) as [A B]. split; [exact B|split; [exact A|apply (r_reg s R); exact A]].
  - intros NA. assert (Ep : pmux s x = None).
    { destruct (pmux s x) as [u|] eqn:E; [|reflexivity]. exfalso. apply NA. apply (usigs_attached s u x H). apply (m_pmux3 s H). exact E. }
    split; [exact Ep|]. destruct (pmsg s x) as [m|] eqn:E; [|reflexivity]. exfalso. apply NA. exists (LM m). cbn [lay]. apply (r_root s R x m Ep E).
Qed.

(* C07's "owning message's view": the message finds exactly the signals of its layout tree *)
Definition in_tree (s : state) (m x : nat) : Prop := exists t, In t (glay s m) /\ subtree s t x.

Lemma registry_is_tree : forall s m x, InvA s -> InvM s -> InvR s ->
  (memb x (gsigs s m) = true <-> in_tree s m x).
Proof.
  intros s m x HA H R. rewrite (r_reg s R). pose proof (tree_of_inv s HA H) as T. split.
  - (* walk up to the root of x's chain *)
    intros E. assert (Hr : root_within (nsig s) s x = true) by (apply root_within_reach; assumption).
    revert x E Hr. generalize (nsig s) as f. induction f as [|f IH]; intros x E Hr; cbn [root_within] in Hr.
    + destruct (pmux s x) eqn:Ep; [discriminate|]. exists x. split; [apply (r_root s R x m Ep E)|left; reflexivity].
    + destruct (pmux s x) as [u|] eqn:Ep.
      * assert (Eu : pmsg s u = Some m) by (rewrite <- (r_child s R x u Ep); exact E).
        destruct (IH u Eu Hr) as [t [Ht Hs]]. exists t. split; [exact Ht|right]. apply (below_child s t x u Ep Hs).
      * exists x. split; [apply (r_root s R x m Ep E)|left; reflexivity].
  - intros [t [Ht [E|B]]]; [rewrite E; apply (r_top s R m t Ht)|]. rewrite (below_pmsg s t x R B). apply (r_top s R m t Ht).
Qed.

(* ---------------------------------------------------------------------------------------- *)
(* preservation                                                                              *)
(* ---------------------------------------------------------------------------------------- *)

Lemma subtree_dec : forall s x y, Tree s -> subtree s x y \/ ~ subtree s x y.
Proof.
  intros s x y T. destruct (in_dec Nat.eq_dec y (x :: (if is_mux s x then desc (nsig s) s x else []))) as [Hin|Hn].
  - left. apply (subtree_list s x y T). exact Hin.
  - right. intros C. apply Hn. apply (subtree_list s x y T). exact C.
Qed.

Lemma Tree_ext : forall s s', pmux s' = pmux s -> usigs s' = usigs s -> kind s' = kind s -> nsig s' = nsig s ->
  (forall x, sz s' x = sz s x) -> Tree s -> Tree s'.
Proof.
  intros s s' Ep Eu Ek En Esz T. constructor.
  - intros u x. rewrite Ep, Eu. apply (t_in s T).
  - intros u x. rewrite Eu. unfold is_mux. rewrite Ek. apply (t_mux s T).
  - intros x u. rewrite Ep, !Esz, En. apply (t_wf s T).
Qed.

Lemma subtree_ext : forall s s' x y, pmux s' = pmux s -> (subtree s' x y <-> subtree s x y).
Proof.
  intros s s' x y Ep. unfold subtree, Below.
  assert (Hb : forall n z, belowN n s' x z <-> belowN n s x z).
  { induction n as [|[|n] IH]; intros z; cbn [belowN]; [tauto|rewrite Ep; tauto|].
    split; intros [u [E Hu]]; exists u; (split; [rewrite Ep in *; exact E || (rewrite <- Ep; exact E)|apply IH; exact Hu]). }
  split; intros [E|[n B]]; auto; right; exists n; apply Hb; exact B.
Qed.

Definition rcore (s : state) := (glay s, pmsg s, pmux s, gsigs s).

Lemma InvR_core : forall s s', rcore s' = rcore s -> InvR s -> InvR s'.
Proof.
  intros s s' E R. unfold rcore in E. inversion E as [[E1 E2 E3 E4]]. destruct R. constructor.
  - intros m x. rewrite E1, E2, E3. apply r_top0.
  - intros x u. rewrite E3, E2. apply r_child0.
  - intros x m. rewrite E3, E2, E1. apply r_root0.
  - intros x m. rewrite E4, E2. apply r_reg0.
Qed.

(* a parentless, unregistered signal x (with everything below it) joins message m at the top level *)
Lemma InvR_attach_top : forall s s' m x,
  Tree s -> InvR s -> pmux s x = None -> pmsg s x = None ->
  pmux s' = pmux s ->
  (forall y, In y (glay s' m) <-> y = x \/ In y (glay s m)) ->
  (forall m', m' <> m -> glay s' m' = glay s m') ->
  (forall y, subtree s x y -> pmsg s' y = Some m) ->
  (forall y, ~ subtree s x y -> pmsg s' y = pmsg s y) ->
  (forall y, memb y (gsigs s' m) = true <-> subtree s x y \/ memb y (gsigs s m) = true) ->
  (forall m', m' <> m -> gsigs s' m' = gsigs s m') ->
  InvR s'.
Proof.
  intros s s' m x T R Epx Emx Ep Hl Hlo E1 E2 E3 E4.
  assert (Hnone : forall y, subtree s x y -> pmsg s y = None).
  { intros y [->|B]; [exact Emx|]. rewrite (below_pmsg s x y R B). exact Emx. }
  constructor.
  - intros m' y Hin. rewrite Ep. destruct (Nat.eq_dec m' m) as [->|NE].
    + apply Hl in Hin. destruct Hin as [->|Hin]; [split; [apply E1; left; reflexivity|exact Epx]|].
      destruct (r_top s R m y Hin) as [P Q]. split; [|exact Q].
      destruct (subtree_dec s x y T) as [S|NS]; [apply E1; exact S|]. rewrite (E2 y NS). exact P.
    + rewrite Hlo in Hin by exact NE. destruct (r_top s R m' y Hin) as [P Q]. split; [|exact Q].
      destruct (subtree_dec s x y T) as [S|NS]; [rewrite (Hnone y S) in P; discriminate|]. rewrite (E2 y NS). exact P.
  - intros y u Ey. rewrite Ep in Ey. destruct (subtree_dec s x y T) as [S|NS].
    + destruct S as [->|B]; [congruence|]. destruct (below_parent s x y B) as [u' [Eu' Su']].
      assert (u' = u) by congruence. subst u'. rewrite (E1 y (or_intror B)), (E1 u Su'). reflexivity.
    + destruct (subtree_dec s x u T) as [Su|NSu]; [exfalso; apply NS; right; apply (below_child s x y u Ey Su)|].
      rewrite (E2 y NS), (E2 u NSu). apply (r_child s R y u Ey).
  - intros y m' Ey Em. rewrite Ep in Ey. destruct (subtree_dec s x y T) as [S|NS].
    + destruct S as [->|B]; [|destruct (below_parent s x y B) as [u' [Eu' _]]; congruence].
      rewrite (E1 x (or_introl eq_refl)) in Em. inversion Em; subst m'. apply Hl. left; reflexivity.
    + rewrite (E2 y NS) in Em. pose proof (r_root s R y m' Ey Em) as Hin.
      destruct (Nat.eq_dec m' m) as [->|NE]; [apply Hl; right; exact Hin|rewrite Hlo by exact NE; exact Hin].
  - intros y m'. destruct (Nat.eq_dec m' m) as [->|NE].
    + rewrite E3. destruct (subtree_dec s x y T) as [S|NS].
      * rewrite (E1 y S). split; [reflexivity|intros _; left; exact S].
      * rewrite (E2 y NS), <- (r_reg s R y m). split; [intros [C|C]; [contradiction|exact C]|intros C; right; exact C].
    + rewrite E4 by exact NE. rewrite (r_reg s R y m'). destruct (subtree_dec s x y T) as [S|NS].
      * rewrite (E1 y S), (Hnone y S). split; [discriminate|intros C; inversion C; congruence].
      * rewrite (E2 y NS). tauto.
Qed.

(* the subtree of x leaves message m (x was top-level there, or a multiplexer child whose
   multiplexer belongs to m); x loses its parent multiplexer *)
Lemma InvR_detach : forall s s' m x,
  Tree s -> InvR s -> pmsg s x = Some m ->
  (forall y, pmux s' y = upd (pmux s) x None y) ->
  (forall m' y, In y (glay s' m') <-> In y (glay s m') /\ y <> x) ->
  (forall y, subtree s x y -> pmsg s' y = None) ->
  (forall y, ~ subtree s x y -> pmsg s' y = pmsg s y) ->
  (forall y, memb y (gsigs s' m) = true <-> memb y (gsigs s m) = true /\ ~ subtree s x y) ->
  (forall m', m' <> m -> gsigs s' m' = gsigs s m') ->
  InvR s'.
Proof.
  intros s s' m x T R Emx Ep Hl E1 E2 E3 E4.
  assert (Hsome : forall y, subtree s x y -> pmsg s y = Some m).
  { intros y [->|B]; [exact Emx|]. rewrite (below_pmsg s x y R B). exact Emx. }
  assert (Hpm : forall y, y <> x -> pmux s' y = pmux s y) by (intros y NE; rewrite Ep; apply upd_other; exact NE).
  constructor.
  - intros m' y Hin. apply Hl in Hin. destruct Hin as [Hin NE]. destruct (r_top s R m' y Hin) as [P Q].
    rewrite (Hpm y NE). split; [|exact Q].
    assert (NS : ~ subtree s x y) by (intros [C|B]; [contradiction|destruct (below_parent s x y B) as [u [Eu _]]; congruence]).
    rewrite (E2 y NS). exact P.
  - intros y u Ey. rewrite Ep in Ey. unfold upd in Ey. destruct (Nat.eqb_spec y x) as [->|NE]; [discriminate|].
    destruct (subtree_dec s x y T) as [S|NS].
    + destruct S as [C|B]; [contradiction|]. destruct (below_parent s x y B) as [u' [Eu' Su']].
      assert (u' = u) by congruence. subst u'. rewrite (E1 y (or_intror B)), (E1 u Su'). reflexivity.
    + destruct (subtree_dec s x u T) as [Su|NSu]; [exfalso; apply NS; right; apply (below_child s x y u Ey Su)|].
      rewrite (E2 y NS), (E2 u NSu). apply (r_child s R y u Ey).
  - intros y m' Ey Em. rewrite Ep in Ey. unfold upd in Ey. destruct (Nat.eqb_spec y x) as [->|NE].
    + rewrite (E1 x (or_introl eq_refl)) in Em. discriminate.
    + assert (NS : ~ subtree s x y) by (intros [C|B]; [contradiction|destruct (below_parent s x y B) as [u [Eu _]]; congruence]).
      rewrite (E2 y NS) in Em. apply Hl. split; [apply (r_root s R y m' Ey Em)|exact NE].
  - intros y m'. destruct (Nat.eq_dec m' m) as [->|NE].
    + rewrite E3, (r_reg s R y m). destruct (subtree_dec s x y T) as [S|NS].
      * rewrite (E1 y S). split; [intros [_ C]; contradiction|discriminate].
      * rewrite (E2 y NS). tauto.
    + rewrite E4 by exact NE. rewrite (r_reg s R y m'). destruct (subtree_dec s x y T) as [S|NS].
      * rewrite (E1 y S), (Hsome y S). split; [intros C; inversion C; congruence|discriminate].
      * rewrite (E2 y NS). tauto.
Qed.

(* x leaves a multiplexer that belongs to no message: only its parent pointer changes *)
Lemma InvR_unlink : forall s s' x,
  InvR s -> pmsg s x = None ->
  (forall y, pmux s' y = upd (pmux s) x None y) -> glay s' = glay s -> pmsg s' = pmsg s -> gsigs s' = gsigs s ->
  InvR s'.
Proof.
  intros s s' x R Emx Ep El Em Eg. constructor.
  - intros m y. rewrite El, Em, Ep. intros Hin. destruct (r_top s R m y Hin) as [P Q]. split; [exact P|].
    unfold upd. destruct (Nat.eqb y x); [reflexivity|exact Q].
  - intros y u Ey. rewrite Ep in Ey. unfold upd in Ey. destruct (Nat.eqb_spec y x); [discriminate|]. rewrite Em. apply (r_child s R y u Ey).
  - intros y m Ey E. rewrite Em in E. rewrite El. rewrite Ep in Ey. unfold upd in Ey. destruct (Nat.eqb_spec y x) as [->|NE]; [congruence|].
    apply (r_root s R y m Ey E).
  - intros y m. rewrite Eg, Em. apply (r_reg s R).
Qed.

(* a parentless, unregistered x (with its subtree) becomes a child of u, or x already is a child of u *)
Lemma InvR_link : forall s s' u x,
  Tree s -> InvR s ->
  ((pmux s x = None /\ pmsg s x = None) \/ pmux s x = Some u) ->
  ~ subtree s x u ->
  (forall y, pmux s' y = upd (pmux s) x (Some u) y) -> glay s' = glay s ->
  match pmsg s u with
  | Some m =>
      (forall y, subtree s x y -> pmsg s' y = Some m)
      /\ (forall y, ~ subtree s x y -> pmsg s' y = pmsg s y)
      /\ (forall y, memb y (gsigs s' m) = true <-> subtree s x y \/ memb y (gsigs s m) = true)
      /\ (forall m', m' <> m -> gsigs s' m' = gsigs s m')
  | None => pmsg s' = pmsg s /\ gsigs s' = gsigs s
  end ->
  (forall m, ~ In x (glay s m)) ->
  InvR s'.
Proof.
  intros s s' u x T R Hx Hnu Ep El Heff Hnt.
  assert (Hpm : forall y, y <> x -> pmux s' y = pmux s y) by (intros y NE; rewrite Ep; apply upd_other; exact NE).
  assert (Hpx : pmux s' x = Some u) by (rewrite Ep; apply upd_same).
  (* what x's subtree had before *)
  assert (Hold : forall y, subtree s x y -> pmsg s y = pmsg s x).
  { intros y [->|B]; [reflexivity|apply (below_pmsg s x y R B)]. }
  assert (Hxm : pmsg s x = None \/ pmsg s x = pmsg s u).
  { destruct Hx as [[_ E]|E]; [left; exact E|right; apply (r_child s R x u E)]. }
  destruct (pmsg s u) as [m|] eqn:Emu.
  - destruct Heff as (E1 & E2 & E3 & E4). constructor.
    + intros m' y. rewrite El. intros Hin. destruct (r_top s R m' y Hin) as [P Q].
      assert (NEx : y <> x) by (intros ->; exact (Hnt m' Hin)).
      rewrite (Hpm y NEx). split; [|exact Q].
      assert (NS : ~ subtree s x y) by (intros [C|B]; [contradiction|destruct (below_parent s x y B) as [w [Ew _]]; congruence]).
      rewrite (E2 y NS). exact P.
    + intros y w Ey. destruct (Nat.eq_dec y x) as [->|NE].
      * rewrite Hpx in Ey. inversion Ey; subst w. rewrite (E1 x (or_introl eq_refl)), (E2 u Hnu). symmetry. exact Emu.
      * rewrite (Hpm y NE) in Ey. destruct (subtree_dec s x y T) as [S|NS].
        -- destruct S as [C|B]; [contradiction|]. destruct (below_parent s x y B) as [w' [Ew' Sw']].
           assert (w' = w) by congruence. subst w'. rewrite (E1 y (or_intror B)), (E1 w Sw'). reflexivity.
        -- destruct (subtree_dec s x w T) as [Sw|NSw]; [exfalso; apply NS; right; apply (below_child s x y w Ey Sw)|].
           rewrite (E2 y NS), (E2 w NSw). apply (r_child s R y w Ey).
    + intros y m' Ey Em. rewrite El. destruct (Nat.eq_dec y x) as [->|NE]; [congruence|].
      rewrite (Hpm y NE) in Ey.
      assert (NS : ~ subtree s x y) by (intros [C|B]; [contradiction|destruct (below_parent s x y B) as [w [Ew _]]; congruence]).
      rewrite (E2 y NS) in Em. apply (r_root s R y m' Ey Em).
    + intros y m'. destruct (Nat.eq_dec m' m) as [->|NE].
      * rewrite E3. destruct (subtree_dec s x y T) as [S|NS].
        -- rewrite (E1 y S). split; [reflexivity|intros _; left; exact S].
        -- rewrite (E2 y NS), <- (r_reg s R y m). split; [intros [C|C]; [contradiction|exact C]|intros C; right; exact C].
      * rewrite E4 by exact NE. rewrite (r_reg s R y m'). destruct (subtree_dec s x y T) as [S|NS].
        -- rewrite (E1 y S), (Hold y S). destruct Hxm as [E|E]; rewrite E; [split; [discriminate|intros C; inversion C; congruence]|].
           split; intros C; inversion C; congruence.
        -- rewrite (E2 y NS). tauto.
  - destruct Heff as [Em Eg]. constructor.
    + intros m' y. rewrite El, Em. intros Hin. destruct (r_top s R m' y Hin) as [P Q].
      assert (NEx : y <> x) by (intros ->; exact (Hnt m' Hin)). rewrite (Hpm y NEx). split; assumption.
    + intros y w Ey. rewrite Em. destruct (Nat.eq_dec y x) as [->|NE].
      * rewrite Hpx in Ey. inversion Ey; subst w. rewrite Emu. destruct Hxm as [E|E]; exact E.
      * rewrite (Hpm y NE) in Ey. apply (r_child s R y w Ey).
    + intros y m' Ey E. rewrite Em in E. rewrite El. destruct (Nat.eq_dec y x) as [->|NE]; [congruence|].
      rewrite (Hpm y NE) in Ey. apply (r_root s R y m' Ey E).
    + intros y m'. rewrite Eg, Em. apply (r_reg s R).
Qed.

(* RemoveAllSignals *)
Lemma InvR_remove_all : forall s m, InvR s -> InvR (fst (step_remove_all s m)).
Proof.
  intros s m R. unfold step_remove_all. cbn [fst].
  assert (Hreg : forall y, memb y (gsigs s m) = true <-> pmsg s y = Some m) by (intros y; apply (r_reg s R)).
  constructor; cbn [glay pmsg pmux gsigs set_glay set_gnames set_gsigs].
  - intros m' y. rewrite pmsg_set_all. unfold upd. destruct (Nat.eqb_spec m' m) as [->|NE]; [intros []|].
    intros Hin. destruct (r_top s R m' y Hin) as [P Q]. split; [|exact Q].
    destruct (memb y (gsigs s m)) eqn:E; [apply Hreg in E; congruence|exact P].
  - intros y u Ey. rewrite !pmsg_set_all. pose proof (r_child s R y u Ey) as C.
    destruct (memb y (gsigs s m)) eqn:E1; destruct (memb u (gsigs s m)) eqn:E2; try reflexivity; try exact C.
    + apply Hreg in E1. rewrite C in E1. apply Hreg in E1. congruence.
    + apply Hreg in E2. rewrite <- C in E2. apply Hreg in E2. congruence.
  - intros y m' Ey. rewrite pmsg_set_all. destruct (memb y (gsigs s m)) eqn:E; [discriminate|]. intros Em.
    unfold upd. destruct (Nat.eqb_spec m' m) as [->|NE]; [apply Hreg in Em; congruence|apply (r_root s R y m' Ey Em)].
  - intros y m'. rewrite pmsg_set_all. rewrite gsigs_set_all. unfold upd. destruct (Nat.eqb_spec m' m) as [->|NE].
    + cbn. destruct (memb y (gsigs s m)) eqn:E; [split; discriminate|]. split; [discriminate|]. intros C. apply Hreg in C. congruence.
    + rewrite (r_reg s R y m'). destruct (memb y (gsigs s m)) eqn:E; [|tauto]. apply Hreg in E. split; [congruence|discriminate].
Qed.
