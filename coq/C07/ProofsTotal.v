(* C01/C07 — totality facts under the invariants and the final hypotheses:
   no_panic      the model's Panic result (a Go panic) is unreachable;
   refused_same  an operation that is refused (an error, or an unusable handle) leaves the state
                 as it was (for AddValue: as it was after the creation of the value object, which is
                 part of the operation in the model);
   and the acceptance of the detaching operations. *)
From Coq Require Import ZArith List Bool Arith Lia.
From Acme.C01 Require Import Layout State Model ProofsLayout ProofsInv ProofsSpec ProofsAccept.
From Acme.C07 Require Import Proofs ProofsReg.
Import ListNotations.
Open Scope Z_scope.

(* ---------------------------------------------------------------------------------------- *)
(* size changes never panic and never stop half-way                                          *)
(* ---------------------------------------------------------------------------------------- *)

Lemma link_registered : forall s x u, link_ok s x -> pmux s x = Some u ->
  memb x (usigs s u) = true /\ exists gs, groups_of s u x = Some gs.
Proof.
  intros s x u (Ltop & Lgrp & Lnd & Lfree & Lex) Epu.
  assert (Hat : forall L, In x (lay s L) -> memb x (usigs s u) = true /\ exists gs, groups_of s u x = Some gs).
  { intros [m|u' g] HL; [destruct (Ltop m HL) as [C _]; congruence|]. destruct (Lgrp u' g HL) as (P & M & gs & Eg & _).
    assert (u' = u) by congruence. subst u'. split; [exact M|exists gs; exact Eg]. }
  destruct (memb x (usigs s u)) eqn:Em.
  - split; [reflexivity|]. destruct (groups_of s u x) as [gs|] eqn:Eg; [exists gs; reflexivity|]. exfalso.
    assert (NA : ~ attached s x) by (intros [L HL]; destruct (Hat L HL) as [_ [gs E]]; congruence).
    destruct (Lfree NA) as [C _]. congruence.
  - exfalso. assert (NA : ~ attached s x) by (intros [L HL]; destruct (Hat L HL) as [C _]; congruence).
    destruct (Lfree NA) as [C _]. congruence.
Qed.

Lemma sig_verify_no_panic : forall s p x a, link_ok s x -> sig_verify_size (set_rel s p) x a <> VPanic.
Proof.
  intros s p x a Hl. unfold sig_verify_size. change (pmux (set_rel s p) x) with (pmux s x). change (pmsg (set_rel s p) x) with (pmsg s x).
  destruct (pmux s x) as [u|] eqn:Epu.
  - destruct (link_registered s x u Hl Epu) as [Hm [gs Eg]]. unfold mux_verify_size.
    change (usigs (set_rel s p) u) with (usigs s u). change (groups_of (set_rel s p) u x) with (groups_of s u x).
    destruct (a =? 0); [discriminate|]. rewrite Hm, Eg. cbn [negb]. destruct (verify_groups _ _ _ _ _); discriminate.
  - destruct (pmsg s x) as [m|]; [|discriminate]. unfold msg_verify_size. destruct (a =? 0); [discriminate|].
    destruct (negb _); [discriminate|]. destruct (0 <? a); [destruct (verify_grow _ _ _ _ _ _)|destruct (verify_shrink _ _ _)]; discriminate.
Qed.

Lemma sig_modify_no_panic : forall s p x a, link_ok s x -> snd (sig_modify_size (set_rel s p) x a) <> VPanic.
Proof.
  intros s p x a Hl. unfold sig_modify_size. change (pmux (set_rel s p) x) with (pmux s x). change (pmsg (set_rel s p) x) with (pmsg s x).
  destruct (pmux s x) as [u|] eqn:Epu.
  - destruct (link_registered s x u Hl Epu) as [Hm [gs Eg]]. unfold mux_modify_size, mux_verify_size.
    change (usigs (set_rel s p) u) with (usigs s u). change (groups_of (set_rel s p) u x) with (groups_of s u x).
    destruct (a =? 0); [discriminate|]. rewrite Hm, Eg. cbn [negb]. destruct (verify_groups _ _ _ _ _); [discriminate|].
    destruct (modify_groups (set_rel s p) u x a gs) as [s' e]. cbn [snd]. destruct e; discriminate.
  - destruct (pmsg s x) as [m|]; [|discriminate]. unfold msg_modify_size. destruct (a =? 0); [discriminate|].
    destruct (negb _); [discriminate|]. destruct (if 0 <? a then _ else _) as [e pos]. destruct e; discriminate.
Qed.

(* a size change that is not accepted leaves the state as it was *)
Lemma sig_modify_err_same : forall s x a p0 lenG, InvA s -> ok_all s p0 lenG ->
  lenG x = sz s x ->
  (0 < a -> forall L, In x (lay s L) -> forall t, In t (lay s L) -> lenG t = sz s t) ->
  1 <= sz s x + a -> link_ok s x -> single_moved s p0 x a ->
  snd (sig_modify_size (set_rel s p0) x a) <> VOk -> fst (sig_modify_size (set_rel s p0) x a) = set_rel s p0.
Proof.
  intros s x a p0 lenG H Hcur HlenX Hagree Hnew Hl Hs Hne.
  assert (Hv : sig_verify_size (set_rel s p0) x a <> VOk).
  { intros C. apply Hne. apply (sig_modify_ok_iff s x a p0 lenG H Hcur HlenX Hagree Hnew Hl Hs). exact C. }
  unfold sig_modify_size, sig_verify_size in *.
  destruct (pmux (set_rel s p0) x) as [u|].
  - unfold mux_modify_size. unfold mux_verify_size in *. destruct (a =? 0); [reflexivity|].
    destruct (negb (memb x (usigs (set_rel s p0) u))); [reflexivity|].
    destruct (groups_of (set_rel s p0) u x) as [gs|]; [|reflexivity].
    destruct (verify_groups (set_rel s p0) u x a gs); [reflexivity|congruence].
  - destruct (pmsg (set_rel s p0) x) as [m|]; [|reflexivity].
    unfold msg_modify_size. unfold msg_verify_size in Hv. destruct (a =? 0); [reflexivity|].
    destruct (negb (memb x (gsigs (set_rel s p0) m))); [reflexivity|].
    destruct (0 <? a).
    + unfold do_grow. destruct (a =? 0); [reflexivity|]. destruct (verify_grow _ _ _ _ _ _); [reflexivity|congruence].
    + unfold do_shrink. destruct (- a =? 0); [reflexivity|]. destruct (verify_shrink _ _ _); [reflexivity|congruence].
Qed.

Lemma sig_modify_err_same0 : forall s x a, InvA s -> resize_ok s x a -> 1 <= sz s x + a ->
  snd (sig_modify_size s x a) <> VOk -> fst (sig_modify_size s x a) = s.
Proof.
  intros s x a H [Hl Hs] Hnew Hne.
  pose proof (sig_modify_err_same s x a (rel s) (sz s) H (a_ok s H) eq_refl (fun _ _ _ _ _ => eq_refl) Hnew Hl Hs) as P.
  rewrite <- (set_rel_id s) in P. apply P. exact Hne.
Qed.

Lemma refs_verify_no_panic : forall s R a, (forall r, In r R -> link_ok s r) -> refs_verify s R a <> VPanic.
Proof.
  intros s R a Hl. induction R as [|r R' IH]; cbn [refs_verify]; [discriminate|].
  pose proof (sig_verify_no_panic s (rel s) r a (Hl r (or_introl eq_refl))) as P. rewrite <- (set_rel_id s) in P.
  destruct (sig_verify_size s r a); [apply IH; intros r' Hr'; apply Hl; right; exact Hr'|discriminate|congruence].
Qed.

(* ---------------------------------------------------------------------------------------- *)
(* results                                                                                    *)
(* ---------------------------------------------------------------------------------------- *)

Definition refused (r : result) : Prop := match r with RErr _ | RInvalid => True | _ => False end.

(* the state an operation starts from: AddValue first creates the (unattached) value object *)
Definition pre_state (s : state) (o : op) : state :=
  match o with
  | OAddValue e idx =>
    if venum s e then set_nval (set_vpar (set_vidx s (upd (vidx s) (nval s) idx)) (upd (vpar s) (nval s) None)) (S (nval s)) else s
  | _ => s
  end.

(* what AddValue does once the value object exists: ROk, or RErr with the state untouched *)
Lemma add_value_shape : forall s e idx, InvA s -> (forall x, link_ok s x) -> ok_op s (OAddValue e idx) ->
  let s0 := set_nval (set_vpar (set_vidx s (upd (vidx s) (nval s) idx)) (upd (vpar s) (nval s) None)) (S (nval s)) in
  snd (step_add_value s e idx) = ROk \/ exists c, step_add_value s e idx = (s0, RErr c).
Proof.
  intros s e idx H Hlink Hop. cbn zeta.
  pose proof (add_value_accepted_iff s e idx H Hop) as Acc. unfold is_ok in Acc.
  cbn [ok_op] in Hop. unfold step_add_value in *.
  set (v := nval s) in *.
  set (s0 := set_nval (set_vpar (set_vidx s (upd (vidx s) v idx)) (upd (vpar s) v None)) (S v)) in *.
  assert (H0 : InvA s0) by (apply InvA_alloc_val; exact H).
  destruct (verify_value_index s0 e idx) eqn:Ev.
  - (* verified: accepted *)
    left. apply Acc. unfold verify_value_index in Ev. change (eidx s0 e) with (eidx s e) in Ev. change (emax s0 e) with (emax s e) in Ev.
    destruct (membZ idx (eidx s e)) eqn:Em; [discriminate|].
    split; [intros Hin; apply membZ_In in Hin; congruence|]. intros Hlt.
    destruct (Z.ltb_spec (emax s e) idx); [|lia].
    set (amt := esize_of (emin s e) idx - esize s e).
    assert (Hnew : 1 <= esize s0 e + amt).
    { unfold amt. change (esize s0 e) with (esize s e). pose proof (esize_of_pos (emin s e) idx ltac:(pose proof (a_emax s H e); lia)). lia. }
    assert (Hres : amt <> 0 -> enum_resize_ok s0 e amt) by (intros Ne; apply Hop; [exact Hlt|unfold amt in Ne; lia]).
    apply (refs_verify_fits s0 e amt H0 Hnew Hres). exact Ev.
  - right. exists c. reflexivity.
  - exfalso. unfold verify_value_index in Ev. destruct (membZ idx (eidx s0 e)); [discriminate|].
    destruct (emax s0 e <? idx); [|discriminate].
    apply (refs_verify_no_panic s0 (erefs s0 e) _ (fun r _ => Hlink r) Ev).
Qed.

Lemma update_index_shape : forall s v idx, InvA s -> (forall x, link_ok s x) -> ok_op s (OUpdateIndex v idx) ->
  snd (step_update_index s v idx) = ROk \/ exists c, step_update_index s v idx = (s, RErr c).
Proof.
  intros s v idx H Hlink Hop.
  pose proof (update_index_accepted_iff s v idx H Hop) as Acc. unfold is_ok in Acc.
  cbn [ok_op] in Hop. unfold step_update_index in *.
  destruct (Z.eqb_spec (vidx s v) idx) as [E|NE]; [left; reflexivity|].
  destruct (vpar s v) as [e|] eqn:Evp; [|left; reflexivity].
  destruct (verify_value_index s e idx) eqn:Ev.
  - left. apply Acc. right. right. exists e. split; [reflexivity|].
    unfold verify_value_index in Ev. destruct (membZ idx (eidx s e)) eqn:Em; [discriminate|].
    split; [intros Hin; apply membZ_In in Hin; congruence|]. intros Hlt.
    destruct (Z.ltb_spec (emax s e) idx); [|lia].
    set (amt := esize_of (emin s e) idx - esize s e).
    assert (Hothers : max_index s (lrem v (evals s e)) <= emax s e).
    { apply (max_index_bound s (lrem v (evals s e)) (emax s e) (a_emax s H e)). intros v' Hv'. apply lrem_In in Hv'.
      destruct (a_vals s H e v' (proj1 Hv')) as (_ & B & _). exact B. }
    assert (Enm : Z.max (Z.max 0 idx) (max_index s (lrem v (evals s e))) = idx) by (pose proof (a_emax s H e); lia).
    assert (Hnew : 1 <= esize s e + amt).
    { unfold amt. pose proof (esize_of_pos (emin s e) idx ltac:(pose proof (a_emax s H e); lia)). lia. }
    assert (Hres : amt <> 0 -> enum_resize_ok s e amt).
    { intros Ne. pose proof (Hop e eq_refl) as Q. rewrite Enm in Q. apply Q. unfold amt in Ne. lia. }
    apply (refs_verify_fits s e amt H Hnew Hres). exact Ev.
  - right. exists c. reflexivity.
  - exfalso. unfold verify_value_index in Ev. destruct (membZ idx (eidx s e)); [discriminate|].
    destruct (emax s e <? idx); [|discriminate].
    apply (refs_verify_no_panic s (erefs s e) _ (fun r _ => Hlink r) Ev).
Qed.

Lemma set_type_shape : forall s x n, InvA s -> ok_op s (OSetType x n) ->
  snd (step_set_type s x n) = ROk \/ snd (step_set_type s x n) = RInvalid /\ fst (step_set_type s x n) = s
  \/ exists c, step_set_type s x n = (s, RErr c).
Proof.
  intros s x n H Hop. cbn [ok_op] in Hop. unfold step_set_type. destruct (kind s x) as [old| |] eqn:Ek; try (right; left; split; reflexivity).
  destruct (Z.leb_spec n 0); [right; left; split; reflexivity|].
  assert (Eold : sz s x = old) by (unfold sz; rewrite Ek; reflexivity). rewrite Eold in Hop.
  pose proof (sig_modify_err_same0 s x (n - old) H Hop ltac:(lia)) as Same.
  pose proof (sig_modify_no_panic s (rel s) x (n - old) (proj1 Hop)) as NP. rewrite <- (set_rel_id s) in NP.
  destruct (sig_modify_size s x (n - old)) as [s1 r]. cbn [fst snd] in *. destruct r.
  - left. reflexivity.
  - right. right. exists c. rewrite (Same ltac:(discriminate)). reflexivity.
  - congruence.
Qed.

Lemma set_enum_shape : forall s x e, InvA s -> ok_op s (OSetEnum x e) ->
  snd (step_set_enum s x e) = ROk \/ snd (step_set_enum s x e) = RInvalid /\ fst (step_set_enum s x e) = s
  \/ exists c, step_set_enum s x e = (s, RErr c).
Proof.
  intros s x e H Hop. cbn [ok_op] in Hop. unfold step_set_enum. destruct (kind s x) as [|old|] eqn:Ek; try (right; left; split; reflexivity).
  assert (Hnew : 1 <= sz s x + (esize s e - sz s x)).
  { unfold esize. pose proof (esize_of_pos (emin s e) (emax s e) (a_emax s H e)). lia. }
  pose proof (sig_modify_err_same0 s x _ H Hop Hnew) as Same.
  pose proof (sig_modify_no_panic s (rel s) x (esize s e - sz s x) (proj1 Hop)) as NP. rewrite <- (set_rel_id s) in NP.
  destruct (sig_modify_size s x (esize s e - sz s x)) as [s1 r]. cbn [fst snd] in *. destruct r.
  - left. reflexivity.
  - right. right. exists c. rewrite (Same ltac:(discriminate)). reflexivity.
  - congruence.
Qed.

Lemma mux_remove_shape : forall s u x, InvM s ->
  snd (step_mux_remove s u x) = ROk \/ step_mux_remove s u x = (s, RErr NotFound).
Proof.
  intros s u x H. unfold step_mux_remove. destruct (memb x (usigs s u)) eqn:Em; cbn [negb]; [|right; reflexivity].
  destruct (ufixed s u x) eqn:Ef; [left; reflexivity|]. destruct (ugids s u x) eqn:Ei; [left; reflexivity|].
  exfalso. apply (m_usigs s H) in Em. destruct Em; congruence.
Qed.

Lemma clear_group_shape : forall s u g, InvA s -> InvM s -> vmux s u = true ->
  snd (step_mux_clear_group s u g) = ROk \/ exists c, step_mux_clear_group s u g = (s, RErr c).
Proof.
  intros s u g HA H Hu. unfold step_mux_clear_group. unfold verify_gid.
  destruct (Z.ltb_spec g 0); [right; eexists; reflexivity|]. destruct (Z.leb_spec (mux_count s u) g); [right; eexists; reflexivity|].
  left.
  assert (Hlt : (Z.to_nat g < length (ugroups s u))%nat).
  { unfold vmux in Hu. apply andb_true_iff in Hu. destruct Hu as [Hv Hm]. unfold is_mux in Hm. unfold mux_count in *.
    destruct (kind s u) as [| |c gs] eqn:Ek; try discriminate. apply Nat.ltb_lt in Hv.
    destruct (m_len s H u c gs Ek Hv) as [El _]. rewrite El. lia. }
  pose proof (clear_group_loop_ok (gget s u (Z.to_nat g)) s u g H ltac:(lia) Hlt) as P.
  destruct (clear_group_loop s u g (gget s u (Z.to_nat g))) as [s1 p]. cbn [fst snd] in *.
  destruct P as [_ P].
  - pose proof (a_ok s HA (LG u (Z.to_nat g))) as Hok. cbn [lay lsz] in Hok. apply (ok_NoDup _ _ _ _ _ Hok).
  - intros y Hy. exact Hy.
  - rewrite P. reflexivity.
Qed.

Lemma mux_shift_shape : forall left s u x a, InvM s -> exists d, snd (step_mux_shift left s u x a) = RShift d.
Proof.
  intros left s u x a H. unfold step_mux_shift. destruct (ugids s u x) as [ids|] eqn:Ei; [|exists 0; reflexivity].
  destruct ids as [|g [|g2 r]].
  - exfalso. destruct (m_ids s H u x [] Ei) as (_ & _ & C & _). congruence.
  - destruct left.
    + destruct (do_shift_left (sz s) (rel s) (gget s u (Z.to_nat g)) x a) as [pos d]. exists d. reflexivity.
    + destruct (do_shift_right (sz s) (rel s) (mux_gsize s u) (gget s u (Z.to_nat g)) x a) as [pos d]. exists d. reflexivity.
  - exists 0. reflexivity.
Qed.

(* ---------------------------------------------------------------------------------------- *)
(* the two theorems                                                                           *)
(* ---------------------------------------------------------------------------------------- *)

Theorem result_shape : forall s o, InvA s -> InvM s -> InvR s -> ok_op_f s o ->
  (exists d, snd (step s o) = RShift d) \/ snd (step s o) = ROk
  \/ (refused (snd (step s o)) /\ fst (step s o) = pre_state s o).
Proof.
  intros s o HA H R Hf. pose proof (ok_op_of_f s o HA H R Hf) as Hop.
  assert (Hlink : forall x, link_ok s x) by (intros x; apply link_ok_of_inv; assumption).
  destruct o; cbn [step pre_state].
  - right; left; reflexivity.
  - destruct (size <? 0); [right; right; split; [exact I|reflexivity]|]. destruct (size =? 0); [right; right; split; [exact I|reflexivity]|]. right; left; reflexivity.
  - right; left; reflexivity.
  - destruct (venum s e); [right; left; reflexivity|right; right; split; [exact I|reflexivity]].
  - destruct (count <? 0); [right; right; split; [exact I|reflexivity]|]. destruct (count =? 0); [right; right; split; [exact I|reflexivity]|].
    destruct (gsize <? 0); [right; right; split; [exact I|reflexivity]|]. destruct (gsize =? 0); [right; right; split; [exact I|reflexivity]|]. destruct (2 ^ 63 - 65 <? gsize); [right; right; split; [exact I|reflexivity]|]. right; left; reflexivity.
  - destruct (vmsg s m && vsig s x); [|right; right; split; [exact I|reflexivity]]. unfold step_append.
    destruct (memb x (gnames s m)); [right; right; split; [exact I|reflexivity]|].
    destruct (verify_append _ _ _ _ _); [right; right; split; [exact I|reflexivity]|]. right; left; reflexivity.
  - destruct (vmsg s m && vsig s x); [|right; right; split; [exact I|reflexivity]]. unfold step_insert.
    destruct (memb x (gnames s m)); [right; right; split; [exact I|reflexivity]|].
    destruct (verify_insert _ _ _ _ _ _); [right; right; split; [exact I|reflexivity]|]. right; left; reflexivity.
  - destruct (vmsg s m); [|right; right; split; [exact I|reflexivity]]. unfold step_remove.
    destruct (negb (memb x (gsigs s m))); [right; right; split; [exact I|reflexivity]|].
    destruct (pmux s x) as [u|]; [|right; left; reflexivity].
    destruct (mux_remove_shape s u x H) as [E|E]; [right; left; exact E|right; right; rewrite E; split; [exact I|reflexivity]].
  - destruct (vmsg s m); [right; left; reflexivity|right; right; split; [exact I|reflexivity]].
  - destruct (vmsg s m); [|right; right; split; [exact I|reflexivity]]. left. unfold step_shift.
    destruct (negb (memb x (gsigs s m))); [exists 0; reflexivity|]. destruct (do_shift_left _ _ _ _ _) as [pos d]. exists d. reflexivity.
  - destruct (vmsg s m); [|right; right; split; [exact I|reflexivity]]. left. unfold step_shift.
    destruct (negb (memb x (gsigs s m))); [exists 0; reflexivity|]. destruct (do_shift_right _ _ _ _ _ _) as [pos d]. exists d. reflexivity.
  - destruct (vmsg s m); [right; left; reflexivity|right; right; split; [exact I|reflexivity]].
  - destruct (vmsg s m); [|right; right; split; [exact I|reflexivity]]. unfold step_resize.
    destruct (bytes <? 0); [right; right; split; [exact I|reflexivity]|]. destruct (gbytes s m =? bytes); [right; left; reflexivity|].
    destruct (2 ^ 60 - 1 <? bytes); [right; right; split; [exact I|reflexivity]|].
    destruct (verify_resize _ _ _ _ _); [right; right; split; [exact I|reflexivity]|right; left; reflexivity].
  - destruct (vmsg s m); [right; left; reflexivity|right; right; split; [exact I|reflexivity]].
  - destruct (vsig s x); [|right; right; split; [exact I|reflexivity]].
    destruct (set_type_shape s x size HA Hop) as [E|[[E1 E2]|[c E]]].
    + right; left; exact E.
    + right; right. rewrite E1, E2. split; [exact I|reflexivity].
    + right; right. rewrite E. split; [exact I|reflexivity].
  - destruct (vsig s x && venum s e); [|right; right; split; [exact I|reflexivity]].
    destruct (set_enum_shape s x e HA Hop) as [E|[[E1 E2]|[c E]]].
    + right; left; exact E.
    + right; right. rewrite E1, E2. split; [exact I|reflexivity].
    + right; right. rewrite E. split; [exact I|reflexivity].
  - destruct (venum s e); [|right; right; split; [exact I|reflexivity]].
    destruct (add_value_shape s e idx HA Hlink Hop) as [E|[c E]].
    + right; left; exact E.
    + right; right. rewrite E. split; [exact I|reflexivity].
  - destruct (venum s e); [|right; right; split; [exact I|reflexivity]]. unfold step_remove_value.
    destruct (negb (memb v (evals s e))); [right; right; split; [exact I|reflexivity]|right; left; reflexivity].
  - destruct (venum s e); [right; left; reflexivity|right; right; split; [exact I|reflexivity]].
  - destruct (venum s e); [right; left; reflexivity|right; right; split; [exact I|reflexivity]].
  - destruct (vval s v); [|right; right; split; [exact I|reflexivity]].
    destruct (update_index_shape s v idx HA Hlink Hop) as [E|[c E]].
    + right; left; exact E.
    + right; right. rewrite E. split; [exact I|reflexivity].
  - destruct (vmux s u && vsig s x); [|right; right; split; [exact I|reflexivity]]. unfold step_mux_insert.
    destruct (if memb x (unames s u) then false else _); [right; right; split; [exact I|reflexivity]|].
    destruct gids as [|g0 gr].
    + destruct (memb x (usigs s u)); [right; right; split; [exact I|reflexivity]|].
      destruct (first_err _ _); [right; right; split; [exact I|reflexivity]|].
      destruct (insert_all _ _ _ _) as [pos gs]. right; left; reflexivity.
    + destruct (verify_ids _ _ _ _ _ _ _ _); [right; right; split; [exact I|reflexivity]|].
      destruct (insert_ids _ _ _ _ _) as [pos gs]. right; left; reflexivity.
  - destruct (vmux s u); [|right; right; split; [exact I|reflexivity]].
    destruct (mux_remove_shape s u x H) as [E|E]; [right; left; exact E|right; right; rewrite E; split; [exact I|reflexivity]].
  - destruct (vmux s u) eqn:Eu; [|right; right; split; [exact I|reflexivity]].
    destruct (clear_group_shape s u g HA H Eu) as [E|[c E]]; [right; left; exact E|right; right; rewrite E; split; [exact I|reflexivity]].
  - destruct (vmux s u); [right; left; reflexivity|right; right; split; [exact I|reflexivity]].
  - destruct (vmux s u); [|right; right; split; [exact I|reflexivity]]. left. apply mux_shift_shape. exact H.
  - destruct (vmux s u); [|right; right; split; [exact I|reflexivity]]. left. apply mux_shift_shape. exact H.
  - destruct (vmsg s m); [|right; right; split; [exact I|reflexivity]]. unfold step_resize_bus.
    destruct (bytes <? 0); [right; right; split; [exact I|reflexivity]|]. destruct (gbytes s m =? bytes); [right; left; reflexivity|].
    destruct (2 ^ 60 - 1 <? bytes); [right; right; split; [exact I|reflexivity]|]. destruct (lim <? bytes); [right; right; split; [exact I|reflexivity]|].
    unfold step_resize. destruct (bytes <? 0); [right; right; split; [exact I|reflexivity]|]. destruct (gbytes s m =? bytes); [right; left; reflexivity|].
    destruct (2 ^ 60 - 1 <? bytes); [right; right; split; [exact I|reflexivity]|].
    destruct (verify_resize _ _ _ _ _); [right; right; split; [exact I|reflexivity]|right; left; reflexivity].
  - destruct (vsig s x); [right; left; reflexivity|right; right; split; [exact I|reflexivity]].
Qed.

Theorem no_panic : forall s o, InvA s -> InvM s -> InvR s -> ok_op_f s o -> snd (step s o) <> RPanic.
Proof.
  intros s o HA H R Hf C. destruct (result_shape s o HA H R Hf) as [[d E]|[E|[E _]]]; rewrite C in E; [discriminate|discriminate|exact E].
Qed.

Theorem refused_same : forall s o, InvA s -> InvM s -> InvR s -> ok_op_f s o ->
  refused (snd (step s o)) -> fst (step s o) = pre_state s o.
Proof.
  intros s o HA H R Hf Hr. destruct (result_shape s o HA H R Hf) as [[d E]|[E|[_ E]]]; [rewrite E in Hr; destruct Hr|rewrite E in Hr; destruct Hr|exact E].
Qed.

Theorem no_panic_reachable : forall ops o, ok_hist_f (ops ++ [o]) -> snd (step (run ops) o) <> RPanic.
Proof.
  intros ops o Hh.
  assert (Hsplit : forall l s, ok_hist_f_from s (l ++ [o]) ->
            ok_hist_f_from s l /\ ok_op_f (fold_left (fun s o => fst (step s o)) l s) o).
  { induction l as [|a r IH]; intros s0 Hq; cbn [app ok_hist_f_from fold_left] in *.
    - split; [exact I|exact (proj1 Hq)].
    - destruct Hq as [Ha Hr]. destruct (IH _ Hr) as [A B]. split; [split; assumption|exact B]. }
  destruct (Hsplit ops init Hh) as [Hops Ho].
  destruct (inv3_reachable ops Hops) as (HA & H & R). apply no_panic; assumption.
Qed.

(* ---------------------------------------------------------------------------------------- *)
(* acceptance of the detaching operations                                                    *)
(* ---------------------------------------------------------------------------------------- *)

(* Message.RemoveSignal: accepted exactly for a signal of the message's registry (= of its layout tree) *)
Lemma remove_accepted_iff : forall s m x, InvA s -> InvM s -> InvR s ->
  (is_ok (snd (step_remove s m x)) <-> in_tree s m x).
Proof.
  intros s m x HA H R. rewrite <- (registry_is_tree s m x HA H R). unfold step_remove, is_ok.
  destruct (memb x (gsigs s m)) eqn:Em; cbn [negb]; [|split; discriminate].
  split; [reflexivity|intros _].
  destruct (pmux s x) as [u|] eqn:Ep; [|reflexivity].
  destruct (mux_remove_shape s u x H) as [E|E]; [exact E|]. exfalso.
  unfold step_mux_remove in E. rewrite (m_pmux3 s H u x Ep) in E. cbn [negb] in E.
  destruct (ufixed s u x); [discriminate|]. destruct (ugids s u x); discriminate.
Qed.

(* MultiplexerSignal.RemoveSignal: accepted exactly for a member *)
Lemma mux_remove_accepted_iff : forall s u x, InvM s ->
  (is_ok (snd (step_mux_remove s u x)) <-> pmux s x = Some u).
Proof.
  intros s u x H. unfold is_ok. split.
  - intros E. unfold step_mux_remove in E. destruct (memb x (usigs s u)) eqn:Em; cbn [negb] in E; [|discriminate].
    apply (m_pmux2 s H). exact Em.
  - intros Ep. destruct (mux_remove_shape s u x H) as [E|E]; [exact E|]. exfalso.
    unfold step_mux_remove in E. rewrite (m_pmux3 s H u x Ep) in E. cbn [negb] in E.
    destruct (ufixed s u x); [discriminate|]. destruct (ugids s u x); discriminate.
Qed.

(* ClearSignalGroup: accepted exactly for a group id of the multiplexer *)
Lemma mux_clear_group_accepted_iff : forall s u g, InvA s -> InvM s -> vmux s u = true ->
  (is_ok (snd (step_mux_clear_group s u g)) <-> 0 <= g < mux_count s u).
Proof.
  intros s u g HA H Hu. unfold is_ok. split.
  - intros E. unfold step_mux_clear_group, verify_gid in E.
    destruct (Z.ltb_spec g 0); [discriminate|]. destruct (Z.leb_spec (mux_count s u) g); [discriminate|]. lia.
  - intros Hg. destruct (clear_group_shape s u g HA H Hu) as [E|[c E]]; [exact E|]. exfalso.
    unfold step_mux_clear_group, verify_gid in E. destruct (Z.ltb_spec g 0); [lia|]. destruct (Z.leb_spec (mux_count s u) g); [lia|].
    destruct (clear_group_loop s u g (gget s u (Z.to_nat g))) as [s1 p]. destruct p; discriminate.
Qed.

(* RemoveAllSignals, CompactSignals, ClearAllSignalGroups have no refusing path *)
Lemma always_accepted : forall s m u,
  is_ok (snd (step_remove_all s m)) /\ is_ok (snd (step_compact s m)) /\ is_ok (snd (step_mux_clear_all s u)).
Proof. intros. repeat split. Qed.
