(* C08 <-> C10/C11 bridge.  The C10/C11 stream models the exporter's DBC document on its own AST
   (Acme.C10.DbcDoc.doc) and *assumes* the effect of dbc.Write followed by dbc.Parse on it
   (Acme.C10.Export.text_roundtrip: numeric attribute literals re-typed, dead slots zeroed,
   "everything else the exporter emits is read back unchanged (assumed; C08's subject)").
   Here that assumption is connected to the C08 theorems:

     doc_to_file          embeds their document into the C08 AST (the sections the exporter emits);
     doc_to_file_wf       their documents that satisfy [doc_ok] (identifiers, strings, ranges — the
                          "names_ok"-style proviso, stated on THEIR type) are expressible;
     exporter_round_trip  parse (write (doc_to_file d)) = norm_file (doc_to_file d): an instance of
                          parse_write;
     text_roundtrip_is_norm   norm_file (doc_to_file d) is the embedding of THEIR text_roundtrip d
                          (plus the writer's header), under two laws that tie their exact floats to
                          strconv's 'f' text for integral values up to 2^53.

   Their modules are used read-only and never imported unqualified (both ASTs use the same field
   names).  Their strings are byte strings; [s2l] reads them byte by byte (exact for ASCII names). *)
From Coq Require Import Arith NArith ZArith List Bool String Lia.
From Acme.C10 Require DbcDoc Export.
From Acme.C08 Require Import DbcAst Chars DbcLex DbcParse DbcWrite Expr ProofsFormat ProofsSections ProofsFile ProofsGood ProofsRoundTrip ProofsLexPrint.
Import ListNotations.
Module D := Acme.C10.DbcDoc.
Module E := Acme.C10.Export.

Section Bridge.
Variable fb : D.fl -> N.          (* math.Float64bits of the double their exact float stands for *)

Definition zn (z : Z) : N := Z.to_N z.

Definition emb_order (o : D.byte_order) : byte_order :=
  match o with D.LittleEndian => LittleEndian | D.BigEndian => BigEndian end.

Definition emb_vds (l : list (Z * string)) : list value_desc :=
  map (fun p => {| vd_id := zn (fst p); vd_name := s2l (snd p) |}) l.

Definition emb_signal (s : D.dsignal) : signal :=
  {| sg_name := s2l (D.ds_name s); sg_multiplexor := D.ds_muxor s;
     sg_mux := if D.ds_muxed s then Some (zn (D.ds_switch s)) else None;
     sg_start := zn (D.ds_start s); sg_size := zn (D.ds_size s); sg_order := emb_order (D.ds_order s);
     sg_vtype := if D.ds_signed s then Signed else Unsigned;
     sg_factor := fb (D.ds_factor s); sg_offset := fb (D.ds_offset s); sg_min := fb (D.ds_min s); sg_max := fb (D.ds_max s);
     sg_unit := s2l (D.ds_unit s); sg_receivers := map s2l (D.ds_receivers s) |}.

Definition emb_message (m : D.dmessage) : message :=
  {| ms_id := zn (D.dm_id m); ms_name := s2l (D.dm_name m); ms_size := zn (D.dm_size m); ms_tx := s2l (D.dm_tx m);
     ms_signals := map emb_signal (D.dm_signals m) |}.

Definition emb_ref (k : D.okind) (node : string) (msg : Z) (sig : string) : obj_ref :=
  match k with
  | D.OGeneral => ORGeneral
  | D.ONode => ORNode (s2l node)
  | D.OMessage => ORMessage (zn msg)
  | D.OSignal => ORSignal (zn msg) (s2l sig)
  | D.OEnvVar => OREnvVar []          (* the exporter emits no env-var entries *)
  end.

Definition emb_kind (k : D.okind) : attr_kind :=
  match k with D.OGeneral => AKGeneral | D.ONode => AKNode | D.OMessage => AKMessage | D.OSignal => AKSignal | D.OEnvVar => AKEnvVar end.

Definition emb_attr (a : D.dattr) : attribute :=
  {| ad_kind := emb_kind (D.at_kind a); ad_name := s2l (D.at_name a);
     ad_type := match D.at_type a with
                | D.AInt => ATInt (D.at_min_int a) (D.at_max_int a)
                | D.AHex => ATHex (zn (D.at_min_hex a)) (zn (D.at_max_hex a))
                | D.AFloat => ATFloat (fb (D.at_min_fl a)) (fb (D.at_max_fl a))
                | D.AString => ATString
                | D.AEnum => ATEnum (map s2l (D.at_enum a))
                end |}.

Definition emb_val (t : D.vtype) (s : string) (i h : Z) (f : D.fl) : attr_val :=
  match t with
  | D.VInt => AVInt i
  | D.VString => AVString (s2l s)
  | D.VFloat => AVFloat (fb f)
  | D.VHex => AVHex (zn h)
  end.

Definition emb_def (d : D.dattrdef) : attr_default :=
  {| af_name := s2l (D.ad_name d); af_value := emb_val (D.ad_type d) (D.ad_str d) (D.ad_int d) (D.ad_hex d) (D.ad_fl d) |}.

Definition emb_aval (v : D.dattrval) : attr_value :=
  {| av_name := s2l (D.av_name v); av_ref := emb_ref (D.av_kind v) (D.av_node v) (D.av_msg v) (D.av_sig v);
     av_value := emb_val (D.av_type v) (D.av_str v) (D.av_int v) (D.av_hex v) (D.av_fl v) |}.

Definition emb_valenc (v : D.dvalenc) : value_encoding :=
  {| ve_ref := if D.ve_signal v then ERSignal (zn (D.ve_msg v)) (s2l (D.ve_sig v)) else EREnvVar (s2l (D.ve_sig v));
     ve_values := emb_vds (D.ve_values v) |}.

Definition emb_extmux (x : D.dextmux) : ext_mux :=
  {| xm_id := zn (D.em_msg x); xm_muxed := s2l (D.em_muxed x); xm_muxor := s2l (D.em_muxor x);
     xm_ranges := map (fun r => (zn (fst r), zn (snd r))) (D.em_ranges x) |}.

(* the dbc.File the exporter hands to dbc.Write: Version empty, no NS_ / BS_ of its own *)
Definition doc_to_file (d : D.doc) : file :=
  {| f_version := []; f_ns := None; f_bs := None; f_bu := Some (map s2l (D.d_nodes d));
     f_vts := map (fun t => {| vt_name := s2l (D.vt_name t); vt_values := emb_vds (D.vt_values t) |}) (D.d_valtables d);
     f_msgs := map emb_message (D.d_messages d);
     f_txs := []; f_evs := []; f_eds := []; f_sts := [];
     f_cms := map (fun c => {| cm_ref := emb_ref (D.cm_kind c) (D.cm_node c) (D.cm_msg c) (D.cm_sig c); cm_text := s2l (D.cm_text c) |}) (D.d_comments d);
     f_ads := map emb_attr (D.d_attrs d);
     f_afs := map emb_def (D.d_attrdefs d);
     f_avs := map emb_aval (D.d_attrvals d);
     f_ves := map emb_valenc (D.d_valencs d);
     f_srs := []; f_sgs := []; f_svs := [];
     f_xms := map emb_extmux (D.d_extmuxes d) |}.

(* ---- expressibility, stated on their document ---- *)
Variable up : N -> bool.
Hypothesis Hfb : forall f, fin (fb f) = true.      (* their floats stand for finite doubles (their F1) *)

Definition id_ok (s : string) : Prop := expr_ident up (s2l s) = true.
Definition txt_ok (s : string) : Prop := expr_string (s2l s) = true.
Definition u32z (z : Z) : Prop := (0 <= z < 4294967296)%Z.
Definition vds_ok (l : list (Z * string)) : Prop := Forall (fun p => u32z (fst p) /\ txt_ok (snd p)) l.

Definition signal_ok (s : D.dsignal) : Prop :=
  id_ok (D.ds_name s) /\ (D.ds_muxed s = true -> u32z (D.ds_switch s)) /\ u32z (D.ds_start s) /\ u32z (D.ds_size s) /\
  txt_ok (D.ds_unit s) /\ D.ds_receivers s <> [] /\ Forall id_ok (D.ds_receivers s).

Definition ref_ok (k : D.okind) (node : string) (msg : Z) (sig : string) : Prop :=
  match k with
  | D.OGeneral => True
  | D.ONode => id_ok node
  | D.OMessage => u32z msg
  | D.OSignal => u32z msg /\ id_ok sig
  | D.OEnvVar => False
  end.

Definition val_ok (t : D.vtype) (s : string) (i h : Z) : Prop :=
  match t with
  | D.VInt => int64_ok i
  | D.VString => txt_ok s
  | D.VFloat => True
  | D.VHex => u32z h
  end.

Definition doc_ok (d : D.doc) : Prop :=
  Forall id_ok (D.d_nodes d) /\
  Forall (fun t => id_ok (D.vt_name t) /\ vds_ok (D.vt_values t)) (D.d_valtables d) /\
  Forall (fun m => u32z (D.dm_id m) /\ id_ok (D.dm_name m) /\ u32z (D.dm_size m) /\ id_ok (D.dm_tx m) /\ Forall signal_ok (D.dm_signals m)) (D.d_messages d) /\
  Forall (fun c => ref_ok (D.cm_kind c) (D.cm_node c) (D.cm_msg c) (D.cm_sig c) /\ txt_ok (D.cm_text c)) (D.d_comments d) /\
  Forall (fun a => expr_attr_name (s2l (D.at_name a)) = true /\
                   match D.at_type a with
                   | D.AInt => int64_ok (D.at_min_int a) /\ int64_ok (D.at_max_int a)
                   | D.AHex => u32z (D.at_min_hex a) /\ u32z (D.at_max_hex a)
                   | D.AEnum => Forall txt_ok (D.at_enum a)
                   | _ => True
                   end) (D.d_attrs d) /\
  Forall (fun x => expr_attr_name (s2l (D.ad_name x)) = true /\ val_ok (D.ad_type x) (D.ad_str x) (D.ad_int x) (D.ad_hex x)) (D.d_attrdefs d) /\
  Forall (fun v => txt_ok (D.av_name v) /\ ref_ok (D.av_kind v) (D.av_node v) (D.av_msg v) (D.av_sig v) /\
                   val_ok (D.av_type v) (D.av_str v) (D.av_int v) (D.av_hex v)) (D.d_attrvals d) /\
  Forall (fun v => D.ve_signal v = true -> u32z (D.ve_msg v)) (D.d_valencs d) /\
  Forall (fun v => id_ok (D.ve_sig v) /\ vds_ok (D.ve_values v)) (D.d_valencs d) /\
  Forall (fun x => u32z (D.em_msg x) /\ id_ok (D.em_muxed x) /\ id_ok (D.em_muxor x) /\ D.em_ranges x <> [] /\
                   Forall (fun r => u32z (fst r) /\ u32z (snd r)) (D.em_ranges x)) (D.d_extmuxes d).

Lemma zn_u32 : forall z, u32z z -> u32_ok (zn z).
Proof. intros z [H1 H2]. unfold u32_ok, zn. lia. Qed.

Lemma Forall_map' : forall A B (g : A -> B) (P : B -> Prop) l, Forall (fun x => P (g x)) l -> Forall P (map g l).
Proof. intros A B g P l H. induction H; cbn; constructor; assumption. Qed.

Lemma vds_wf : forall l, vds_ok l -> Forall wf_vd (emb_vds l).
Proof.
  intros l H. unfold emb_vds. apply Forall_map'. eapply Forall_impl; [|exact H].
  intros p [H1 H2]. split; cbn [vd_id vd_name]; [apply zn_u32; exact H1|exact H2].
Qed.

Lemma ref_wf : forall k node msg sig, ref_ok k node msg sig -> wf_ref up (emb_ref k node msg sig).
Proof.
  intros k node msg sig H. destruct k; cbn [ref_ok emb_ref wf_ref] in *; try exact I; try exact H.
  - apply zn_u32; exact H.
  - destruct H as [H1 H2]. split; [apply zn_u32; exact H1|exact H2].
  - contradiction.
Qed.

Lemma val_wf : forall t s i h f, val_ok t s i h -> wf_val (emb_val t s i h f).
Proof. intros t s i h f H. destruct t; cbn [val_ok emb_val wf_val] in *; try exact H; [apply Hfb|apply zn_u32; exact H]. Qed.

Lemma signal_wf : forall s, signal_ok s -> wf_signal up (emb_signal s).
Proof.
  intros s (Hn & Hm & Hst & Hsz & Hu & Hne & Hr). unfold wf_signal, emb_signal.
  cbn [sg_name sg_mux sg_start sg_size sg_factor sg_offset sg_min sg_max sg_unit sg_receivers].
  repeat split; try apply Hfb; try (apply zn_u32; assumption); try assumption.
  - destruct (D.ds_muxed s); [apply zn_u32; apply Hm; reflexivity|exact I].
  - destruct (D.ds_receivers s); [congruence|discriminate].
  - unfold idents_ok. apply Forall_map'. exact Hr.
Qed.

Theorem doc_to_file_wf : forall d, doc_ok d -> wf_file up (doc_to_file d).
Proof.
  intros d (Hn & Hvt & Hm & Hc & Ha & Hd & Hv & He1 & He2 & Hx). split.
  - unfold wf_header, ver_of, ns_of, bs_of, bu_of, doc_to_file. cbn [f_version f_ns f_bs f_bu].
    split; [reflexivity|]. split; [apply default_ns_wf|]. split.
    + unfold wf_bs, u32_ok. cbn [bt_baud bt_reg1 bt_reg2]. repeat split; reflexivity.
    + unfold idents_ok. apply Forall_map'. exact Hn.
  - unfold entries_of, doc_to_file.
    cbn [f_vts f_msgs f_txs f_evs f_eds f_sts f_cms f_ads f_afs f_avs f_ves f_srs f_sgs f_svs f_xms map app].
    repeat (apply Forall_app; split); try constructor; rewrite ?map_map; apply Forall_map'; cbn [wf_item].
    + eapply Forall_impl; [|exact Hvt]. intros t [H1 H2]. split; cbn [vt_name vt_values]; [exact H1|apply vds_wf; exact H2].
    + eapply Forall_impl; [|exact Hm]. intros m (H1 & H2 & H3 & H4 & H5). unfold wf_message, emb_message.
      cbn [ms_id ms_name ms_size ms_tx ms_signals]. repeat split; try (apply zn_u32; assumption); try assumption.
      apply Forall_map'. eapply Forall_impl; [|exact H5]. intros s Hs. apply signal_wf; exact Hs.
    + eapply Forall_impl; [|exact Hc]. intros c [H1 H2]. split; cbn [cm_ref cm_text]; [apply ref_wf; exact H1|exact H2].
    + eapply Forall_impl; [|exact Ha]. intros a [H1 H2]. split; cbn [ad_name ad_type emb_attr]; [exact H1|].
      destruct (D.at_type a); cbn [wf_attr_type]; try exact I.
      * exact H2.
      * split; apply Hfb.
      * apply Forall_map'. exact H2.
      * destruct H2 as [H2 H3]. split; apply zn_u32; assumption.
    + eapply Forall_impl; [|exact Hd]. intros x [H1 H2]. split; cbn [af_name af_value emb_def]; [exact H1|apply val_wf; exact H2].
    + eapply Forall_impl; [|exact Hv]. intros v (H1 & H2 & H3). unfold wf_attr_value, emb_aval. cbn [av_name av_ref av_value].
      repeat split; [exact H1|apply ref_wf; exact H2|apply val_wf; exact H3].
    + assert (H12 : Forall (fun v => (D.ve_signal v = true -> u32z (D.ve_msg v)) /\ id_ok (D.ve_sig v) /\ vds_ok (D.ve_values v)) (D.d_valencs d)).
      { rewrite Forall_forall in *. intros v Hin. split; [apply He1; exact Hin|apply He2; exact Hin]. }
      eapply Forall_impl; [|exact H12]. intros v (H1 & H2 & H3). unfold wf_value_encoding, emb_valenc. cbn [ve_ref ve_values].
      split; [|apply vds_wf; exact H3]. destruct (D.ve_signal v); [split; [apply zn_u32; apply H1; reflexivity|exact H2]|exact H2].
    + eapply Forall_impl; [|exact Hx]. intros x (H1 & H2 & H3 & H4 & H5). unfold wf_ext_mux, emb_extmux.
      cbn [xm_id xm_muxed xm_muxor xm_ranges]. repeat split; try assumption; try (apply zn_u32; assumption).
      * destruct (D.em_ranges x); [congruence|discriminate].
      * apply Forall_map'. eapply Forall_impl; [|exact H5]. intros r [Hr1 Hr2]. split; cbn [fst snd]; apply zn_u32; assumption.
Qed.

End Bridge.

(* exporter_round_trip: parse_write instantiated at the exporter's documents *)
Theorem exporter_round_trip : forall (fb : D.fl -> N) ud fmt prs hex,
  ud_ok ud -> oracle_ok fmt prs -> (forall f, fin (fb f) = true) ->
  forall d, doc_ok (peek_digits ud) d ->
  parse ud prs hex (write fmt hex (doc_to_file fb d)) = OOk (norm_file fmt hex (doc_to_file fb d)).
Proof.
  intros fb ud fmt prs hex Hud Hor Hfb d Hd. apply parse_write; try assumption.
  apply doc_to_file_wf; assumption.
Qed.

(* ---- their text_roundtrip is norm_file seen through the embedding ---- *)
Section TextRoundTrip.
Variable fb : D.fl -> N.
Variable fmt : N -> str.
(* the two facts about strconv.FormatFloat(x, 'f', -1, 64) that their model of the re-parse uses:
   a non-integral value is printed with a fraction; an integral value that is exactly representable
   (|x| <= 2^53, their F3) is printed as its integer.  (Above 2^53 the shortest round-tripping decimal
   is NOT the exact integer: there THEIR reparse_def / reparse_val, which return fl_to_Z, differ from
   the implementation — see props/C08/NOTES.md.) *)
Hypothesis Hdec : forall f, D.fl_is_decimal f = true -> has_dot (fmt (fb f)) = true.
Hypothesis Hint : forall f, D.fl_is_decimal f = false -> (Z.abs (E.fl_to_Z f) <= 9007199254740992)%Z ->
  fmt (fb f) = format_int (E.fl_to_Z f).

Definition fl_small (f : D.fl) : Prop := D.fl_is_decimal f = false -> (Z.abs (E.fl_to_Z f) <= 9007199254740992)%Z.

Lemma val_norm_embedding : forall t s i h f,
  (t = D.VHex -> (0 <= h)%Z) -> (t = D.VFloat -> fl_small f) ->
  val_norm fmt false (emb_val fb t s i h f) =
  match t with
  | D.VInt => AVInt i
  | D.VString => AVString (s2l s)
  | D.VHex => AVInt h
  | D.VFloat => if D.fl_is_decimal f then AVFloat (fb f) else AVInt (E.fl_to_Z f)
  end.
Proof.
  intros t s i h f Hh Hf. destruct t; cbn [emb_val val_norm]; try reflexivity.
  - destruct (D.fl_is_decimal f) eqn:Ed.
    + rewrite (Hdec f Ed). reflexivity.
    + specialize (Hf eq_refl Ed). rewrite (Hint f Ed Hf). rewrite format_int_no_dot.
      rewrite parse_int_format; [reflexivity|]. unfold int64_ok. lia.
  - unfold zn. rewrite Z2N.id by (apply Hh; reflexivity). reflexivity.
Qed.

Definition defs_small (d : D.doc) : Prop :=
  Forall (fun x => (D.ad_type x = D.VHex -> (0 <= D.ad_hex x)%Z) /\ (D.ad_type x = D.VFloat -> fl_small (D.ad_fl x))) (D.d_attrdefs d) /\
  Forall (fun x => (D.av_type x = D.VHex -> (0 <= D.av_hex x)%Z) /\ (D.av_type x = D.VFloat -> fl_small (D.av_fl x))) (D.d_attrvals d).

(* the attribute sections of norm_file (doc_to_file d) are the embedding of text_roundtrip d;
   every other section of norm_file (doc_to_file d) is that of doc_to_file d, which is that of
   doc_to_file (text_roundtrip d) since text_roundtrip touches nothing else *)
Theorem text_roundtrip_is_norm : forall d, defs_small d ->
  let n := norm_file fmt false (doc_to_file fb d) in
  let t := doc_to_file fb (E.text_roundtrip d) in
  f_afs n = f_afs t /\ f_avs n = f_avs t /\
  f_bu n = f_bu t /\ f_vts n = f_vts t /\ f_msgs n = f_msgs t /\ f_cms n = f_cms t /\ f_ads n = f_ads t /\
  f_ves n = f_ves t /\ f_xms n = f_xms t /\
  f_txs n = [] /\ f_evs n = [] /\ f_eds n = [] /\ f_sts n = [] /\ f_srs n = [] /\ f_sgs n = [] /\ f_svs n = [].
Proof.
  intros d [Hd Hv] n t. unfold n, t, norm_file, doc_to_file, E.text_roundtrip, bu_of.
  cbn [f_afs f_avs f_bu f_vts f_msgs f_cms f_ads f_ves f_xms f_txs f_evs f_eds f_sts f_srs f_sgs f_svs
       D.d_nodes D.d_valtables D.d_messages D.d_comments D.d_attrs D.d_attrdefs D.d_attrvals D.d_valencs D.d_extmuxes].
  repeat split; try reflexivity.
  - rewrite !map_map. apply map_ext_in. intros x Hx. rewrite Forall_forall in Hd. destruct (Hd x Hx) as [H1 H2].
    unfold norm_default, emb_def, E.reparse_def. cbn [af_name af_value].
    rewrite (val_norm_embedding _ _ _ _ _ H1 H2).
    destruct (D.ad_type x); cbn [D.ad_type D.ad_name D.ad_str D.ad_int D.ad_hex D.ad_fl emb_val]; try reflexivity.
    destruct (D.fl_is_decimal (D.ad_fl x)); reflexivity.
  - rewrite !map_map. apply map_ext_in. intros x Hx. rewrite Forall_forall in Hv. destruct (Hv x Hx) as [H1 H2].
    unfold norm_value, emb_aval, E.reparse_val. cbn [av_name av_ref av_value].
    rewrite (val_norm_embedding _ _ _ _ _ H1 H2).
    destruct (D.av_type x); cbn [D.av_type D.av_kind D.av_name D.av_node D.av_msg D.av_sig D.av_str D.av_int D.av_hex D.av_fl emb_val]; try reflexivity.
    destruct (D.fl_is_decimal (D.av_fl x)); reflexivity.
Qed.

End TextRoundTrip.
