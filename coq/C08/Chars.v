(* C08/C09 — code points, character classes (dbc/scanner.go:16-38), the static tables of
   dbc/keyword.go and dbc/punct.go.  The tables are compared with the running Go package on every
   check run (hook VerifKeywords / VerifPuncts / VerifNewSymbols / VerifAccessTypes). *)
From Coq Require Import NArith List Bool String Ascii.
From Acme.C08 Require Import DbcAst.
Import ListNotations.
Local Open Scope N_scope.

Definition s2l (s : string) : str := map N_of_ascii (list_ascii_of_string s).

Fixpoint str_eqb (a b : str) : bool :=
  match a, b with
  | [], [] => true
  | x :: a', y :: b' => (x =? y) && str_eqb a' b'
  | _, _ => false
  end.

(* Go: isNumber = unicode.IsDigit, which is true for '0'..'9' and for the non-ASCII characters of
   Unicode category Nd.  The category table is not modelled: [ud : N -> bool] says which non-ASCII
   code points are digits (the harness sends, with each text, the Nd characters occurring in it;
   the theorems hold for every [ud] that is false on ASCII).  strconv accepts ASCII digits only:
   the conversions of DbcParse use [ascii_digit]. *)
Definition ascii_digit (c : N) : bool := (48 <=? c) && (c <=? 57).
Definition is_digit (ud : N -> bool) (c : N) : bool := ascii_digit c || ud c.
Definition is_letter (c : N) : bool := ((97 <=? c) && (c <=? 122)) || ((65 <=? c) && (c <=? 90)).
Definition is_hex (ud : N -> bool) (c : N) : bool :=
  is_digit ud c || ((97 <=? c) && (c <=? 102)) || ((65 <=? c) && (c <=? 70)).
Definition is_alnum (ud : N -> bool) (c : N) : bool := is_letter c || is_digit ud c || (c =? 95) || (c =? 45).
Definition no_ud : N -> bool := fun _ => false.
Definition is_space (c : N) : bool := (c =? 32) || (c =? 9) || (c =? 10) || (c =? 13).

Definition ch_quote := 34. Definition ch_plus := 43. Definition ch_minus := 45. Definition ch_dot := 46.
Definition ch_colon := 58. Definition ch_comma := 44. Definition ch_lparen := 40. Definition ch_rparen := 41.
Definition ch_lbrack := 91. Definition ch_rbrack := 93. Definition ch_pipe := 124. Definition ch_semi := 59.
Definition ch_at := 64. Definition ch_nl := 10. Definition ch_tab := 9. Definition ch_sp := 32.
Definition ch_0 := 48. Definition ch_x := 120. Definition ch_X := 88. Definition ch_e := 101. Definition ch_E := 69.
Definition ch_m := 109. Definition ch_M := 77. Definition ch_under := 95.

(* punctKeywords, in punctKind order *)
Definition punct_chars : list N := [58; 44; 40; 41; 91; 93; 124; 59; 64; 43; 45].
Definition is_punct_char (c : N) : bool := existsb (N.eqb c) punct_chars.

Inductive keyword :=
| KwVersion | KwNewSymbols | KwBitTiming | KwNode | KwMessage | KwMessageTransmitter | KwSignal
| KwSignalValueType | KwValueTable | KwValueEncoding | KwEnvVar | KwEnvVarData | KwSignalType
| KwSignalGroup | KwComment | KwAttribute | KwAttributeDefault | KwAttributeValue | KwAttributeInt
| KwAttributeHex | KwAttributeFloat | KwAttributeString | KwAttributeEnum | KwExtendedMux.

Definition kw_VERSION : str := Eval compute in s2l "VERSION".
Definition kw_NS : str := Eval compute in s2l "NS_".
Definition kw_BS : str := Eval compute in s2l "BS_".
Definition kw_BU : str := Eval compute in s2l "BU_".
Definition kw_BO : str := Eval compute in s2l "BO_".
Definition kw_BO_TX_BU : str := Eval compute in s2l "BO_TX_BU_".
Definition kw_SG : str := Eval compute in s2l "SG_".
Definition kw_SIG_VALTYPE : str := Eval compute in s2l "SIG_VALTYPE_".
Definition kw_VAL_TABLE : str := Eval compute in s2l "VAL_TABLE_".
Definition kw_VAL : str := Eval compute in s2l "VAL_".
Definition kw_EV : str := Eval compute in s2l "EV_".
Definition kw_ENVVAR_DATA : str := Eval compute in s2l "ENVVAR_DATA_".
Definition kw_SGTYPE : str := Eval compute in s2l "SGTYPE_".
Definition kw_SIG_GROUP : str := Eval compute in s2l "SIG_GROUP_".
Definition kw_CM : str := Eval compute in s2l "CM_".
Definition kw_BA_DEF : str := Eval compute in s2l "BA_DEF_".
Definition kw_BA_DEF_DEF : str := Eval compute in s2l "BA_DEF_DEF_".
Definition kw_BA : str := Eval compute in s2l "BA_".
Definition kw_INT : str := Eval compute in s2l "INT".
Definition kw_HEX : str := Eval compute in s2l "HEX".
Definition kw_FLOAT : str := Eval compute in s2l "FLOAT".
Definition kw_STRING : str := Eval compute in s2l "STRING".
Definition kw_ENUM : str := Eval compute in s2l "ENUM".
Definition kw_SG_MUL_VAL : str := Eval compute in s2l "SG_MUL_VAL_".

(* keywords (dbc/keyword.go:41-80) in keywordKind order *)
Definition keyword_table : list (str * keyword) :=
  [ (kw_VERSION, KwVersion); (kw_NS, KwNewSymbols); (kw_BS, KwBitTiming); (kw_BU, KwNode);
    (kw_BO, KwMessage); (kw_BO_TX_BU, KwMessageTransmitter); (kw_SG, KwSignal);
    (kw_SIG_VALTYPE, KwSignalValueType); (kw_VAL_TABLE, KwValueTable); (kw_VAL, KwValueEncoding);
    (kw_EV, KwEnvVar); (kw_ENVVAR_DATA, KwEnvVarData); (kw_SGTYPE, KwSignalType);
    (kw_SIG_GROUP, KwSignalGroup); (kw_CM, KwComment); (kw_BA_DEF, KwAttribute);
    (kw_BA_DEF_DEF, KwAttributeDefault); (kw_BA, KwAttributeValue); (kw_INT, KwAttributeInt);
    (kw_HEX, KwAttributeHex); (kw_FLOAT, KwAttributeFloat); (kw_STRING, KwAttributeString);
    (kw_ENUM, KwAttributeEnum); (kw_SG_MUL_VAL, KwExtendedMux) ].

Fixpoint lookup_kw (tbl : list (str * keyword)) (w : str) : option keyword :=
  match tbl with
  | [] => None
  | (k, v) :: r => if str_eqb k w then Some v else lookup_kw r w
  end.
Definition keyword_of (w : str) : option keyword := lookup_kw keyword_table w.
Definition is_keyword_text (w : str) : bool := match keyword_of w with Some _ => true | None => false end.

Definition keyword_index (k : keyword) : N :=
  match k with
  | KwVersion => 0 | KwNewSymbols => 1 | KwBitTiming => 2 | KwNode => 3 | KwMessage => 4
  | KwMessageTransmitter => 5 | KwSignal => 6 | KwSignalValueType => 7 | KwValueTable => 8
  | KwValueEncoding => 9 | KwEnvVar => 10 | KwEnvVarData => 11 | KwSignalType => 12
  | KwSignalGroup => 13 | KwComment => 14 | KwAttribute => 15 | KwAttributeDefault => 16
  | KwAttributeValue => 17 | KwAttributeInt => 18 | KwAttributeHex => 19 | KwAttributeFloat => 20
  | KwAttributeString => 21 | KwAttributeEnum => 22 | KwExtendedMux => 23
  end.

(* newSymbolsValues (dbc/keyword.go:95-124), in order *)
Definition new_symbols_values : list str := Eval compute in map s2l
  [ "NS_DESC_"; "CM_"; "BA_DEF_"; "BA_"; "VAL_"; "VAL_TABLE_"; "CAT_DEF_"; "CAT_"; "FILTER";
    "BA_DEF_DEF_"; "EV_DATA_"; "ENVVAR_DATA_"; "SIG_GROUP_"; "SGTYPE_"; "SGTYPE_VAL_";
    "BA_DEF_SGTYPE_"; "BA_SGTYPE_"; "SIG_TYPE_REF_"; "SIG_VALTYPE_"; "SIGTYPE_VALTYPE_";
    "BO_TX_BU_"; "BA_DEF_REL_"; "BA_REL_"; "BA_DEF_DEF_REL_"; "BU_SG_REL_"; "BU_EV_REL_";
    "BU_BO_REL_"; "SG_MUL_VAL_" ]%string.

(* envVarAccessTypes (dbc/keyword.go:126-135), index = EnvVarAccessType *)
Definition access_names : list str := Eval compute in map s2l
  [ "DUMMY_NODE_VECTOR0"; "DUMMY_NODE_VECTOR1"; "DUMMY_NODE_VECTOR2"; "DUMMY_NODE_VECTOR3";
    "DUMMY_NODE_VECTOR8000"; "DUMMY_NODE_VECTOR8001"; "DUMMY_NODE_VECTOR8002";
    "DUMMY_NODE_VECTOR8003" ]%string.

Fixpoint index_of (l : list str) (w : str) (i : N) : option N :=
  match l with
  | [] => None
  | x :: r => if str_eqb x w then Some i else index_of r w (i + 1)
  end.

Definition mem_str (w : str) (l : list str) : bool := existsb (str_eqb w) l.
