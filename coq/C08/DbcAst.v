(* C08/C09 — the DBC document model: dbc/ast.go without locations.

   The Go structs are flattened unions (a Comment has NodeName, MessageID, SignalName and
   EnvVarName whatever its Kind; an AttributeValue has all four Value* fields).  The writer
   reads only the fields selected by the kind/type tag and the parser fills only those, so the
   model keeps exactly the live fields, as sum types.  The harness projects Go values the same
   way (props/C08/harness/dbccase/project.go).  Go enum types are [uint]; values outside the
   declared constants are printed as nothing by the writer and cannot be produced by the parser:
   they are not documents of the format and have no counterpart here.

   Numbers: uint32 fields are [N], Go int (int64) fields are [Z], float64 fields are the IEEE
   bit pattern as [N] (math.Float64bits) — text <-> float conversion is not modelled, see
   DbcParse.v / DbcWrite.v (oracle arguments [prs] / [fmt]).  Strings are lists of code points. *)
From Coq Require Import NArith ZArith List.
Import ListNotations.

Definition cp := N.
Definition str := list N.

Inductive byte_order := LittleEndian | BigEndian.          (* SignalLittleEndian = 0, SignalBigEndian = 1 *)
Inductive value_type := Unsigned | Signed.
Inductive ev_type := EvInt | EvFloat | EvString.
Inductive ext_value_type := XInteger | XFloat | XDouble.
Inductive attr_kind := AKGeneral | AKNode | AKMessage | AKSignal | AKEnvVar.

Record bit_timing := { bt_baud : N; bt_reg1 : N; bt_reg2 : N }.

Record value_desc := { vd_id : N; vd_name : str }.
Record value_table := { vt_name : str; vt_values : list value_desc }.

Record signal := {
  sg_name : str;
  sg_multiplexor : bool;            (* IsMultiplexor *)
  sg_mux : option N;                (* IsMultiplexed + MuxSwitchValue *)
  sg_start : N; sg_size : N;
  sg_order : byte_order; sg_vtype : value_type;
  sg_factor : N; sg_offset : N; sg_min : N; sg_max : N;     (* float64 bits *)
  sg_unit : str;
  sg_receivers : list str }.

Record message := { ms_id : N; ms_name : str; ms_size : N; ms_tx : str; ms_signals : list signal }.

Record msg_transmitter := { tx_id : N; tx_names : list str }.

Record env_var := {
  ev_name : str; ev_ty : ev_type; ev_min : N; ev_max : N; ev_unit : str; ev_init : N;
  ev_id : N;
  ev_access : N;                    (* EnvVarAccessType 0..7, index into access_names *)
  ev_nodes : list str }.

Record env_var_data := { ed_name : str; ed_size : N }.

Record signal_type := {
  st_name : str; st_size : N; st_order : byte_order; st_vtype : value_type;
  st_factor : N; st_offset : N; st_min : N; st_max : N; st_unit : str; st_default : N;
  st_table : str }.

Record signal_type_ref := { sr_id : N; sr_signal : str; sr_type : str }.

(* the object a comment / attribute value is attached to *)
Inductive obj_ref :=
| ORGeneral
| ORNode (name : str)
| ORMessage (id : N)
| ORSignal (id : N) (name : str)
| OREnvVar (name : str).

Record comment := { cm_ref : obj_ref; cm_text : str }.

Inductive attr_type :=
| ATInt (mn mx : Z)
| ATHex (mn mx : N)
| ATFloat (mn mx : N)
| ATString
| ATEnum (values : list str).

Record attribute := { ad_kind : attr_kind; ad_name : str; ad_type : attr_type }.

Inductive attr_val :=
| AVInt (z : Z)
| AVHex (n : N)
| AVFloat (bits : N)
| AVString (s : str).

Record attr_default := { af_name : str; af_value : attr_val }.
Record attr_value := { av_name : str; av_ref : obj_ref; av_value : attr_val }.

Inductive enc_ref := ERSignal (id : N) (name : str) | EREnvVar (name : str).
Record value_encoding := { ve_ref : enc_ref; ve_values : list value_desc }.

Record signal_group := { sgp_id : N; sgp_name : str; sgp_rep : N; sgp_signals : list str }.
Record sig_ext_value_type := { sv_id : N; sv_signal : str; sv_type : ext_value_type }.
Record ext_mux := { xm_id : N; xm_muxed : str; xm_muxor : str; xm_ranges : list (N * N) }.

Record file := {
  f_version : str;
  f_ns : option (list str);
  f_bs : option bit_timing;
  f_bu : option (list str);
  f_vts : list value_table;
  f_msgs : list message;
  f_txs : list msg_transmitter;
  f_evs : list env_var;
  f_eds : list env_var_data;
  f_sts : list signal_type;
  f_cms : list comment;
  f_ads : list attribute;
  f_afs : list attr_default;
  f_avs : list attr_value;
  f_ves : list value_encoding;
  f_srs : list signal_type_ref;
  f_sgs : list signal_group;
  f_svs : list sig_ext_value_type;
  f_xms : list ext_mux }.

Definition empty_file : file :=
  {| f_version := []; f_ns := None; f_bs := None; f_bu := None; f_vts := []; f_msgs := [];
     f_txs := []; f_evs := []; f_eds := []; f_sts := []; f_cms := []; f_ads := []; f_afs := [];
     f_avs := []; f_ves := []; f_srs := []; f_sgs := []; f_svs := []; f_xms := [] |}.
