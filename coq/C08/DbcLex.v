(* C08/C09 — model of dbc/scanner.go over code points.

   Input: the list of code points bufio.Reader.ReadRune yields (one U+FFFD per invalid byte).
   [read] consumes the head; a NUL character is returned as the scanner's [eof] rune *after*
   being consumed.  [peek] (scanner.go:106-122) looks at the code point at the current peek
   offset and returns [eof] for U+0000, U+FFFD and code points above U+FFFF; every use of a
   peeked character in the scanner is a membership test in a class of ASCII characters, and
   [isEOF] always leads to the same exit as "in no class", so an unpeekable character behaves
   exactly like any other character outside the classes: the model reads the list directly.
   Consecutive peeks advance the peek offset: the second peek of scanNumber's range test and the
   first peeks of scanHexNumber / scanExpNumber look one character further (index 1), the peek in
   scanExpNumber's sign loop at index 2 — written out below by pattern matching.

   Positions (scanner.go:87-101): after each read, col += 1 (+4 more for a tab); a newline
   increments the line and resets col to 0; a token starts where its first character left the
   position.  The end-of-input token produced by a read error keeps the previous token's start. *)
From Coq Require Import NArith List Bool.
From Acme.C08 Require Import DbcAst Chars.
Import ListNotations.
Local Open Scope N_scope.

Inductive tkind :=
| KError | KEOF | KSpace | KIdent | KNumber | KRange | KMux | KString | KKeyword | KPunct.

Definition tkind_index (k : tkind) : N :=
  match k with
  | KError => 0 | KEOF => 1 | KSpace => 2 | KIdent => 3 | KNumber => 4 | KRange => 5 | KMux => 6
  | KString => 7 | KKeyword => 8 | KPunct => 9
  end.

Definition tkind_eqb (a b : tkind) : bool := tkind_index a =? tkind_index b.

Definition pos := (N * N)%type.   (* line, col *)

Definition advance (p : pos) (c : N) : pos :=
  let '(l, col) := p in
  if c =? ch_nl then (l + 1, 0)
  else if c =? ch_tab then (l, col + 5)
  else (l, col + 1).

Definition advance_all (p : pos) (s : list N) : pos := fold_left advance s p.

(* raw token: kind, value, start position *)
Record rtoken := { rt_kind : tkind; rt_value : str; rt_line : N; rt_col : N }.

Section WithDigits.
Variable ud : N -> bool.     (* the non-ASCII digits, see Chars.v *)
Notation is_digit := (is_digit ud).
Notation is_hex := (is_hex ud).
Notation is_alnum := (is_alnum ud).

(* ---- scanText (scanner.go:196-239) ---- *)

(* characters the loop consumes after the first one *)
Fixpoint span_alnum (l : list N) : list N * list N :=
  match l with
  | c :: r => if is_alnum c then let '(w, rest) := span_alnum r in (c :: w, rest) else ([], l)
  | [] => ([], [])
  end.

(* the mux-indicator automaton run over the consumed characters:
   isMuxSwitch stays true while every character is a digit, or an 'M' once a digit was seen *)
Fixpoint mux_auto (w : list N) (is_mux found_num : bool) : bool :=
  match w with
  | [] => is_mux
  | c :: r =>
    if is_mux then
      if is_digit c then mux_auto r true true
      else if negb found_num || negb (c =? ch_M) then mux_auto r false found_num
      else mux_auto r true found_num
    else mux_auto r false found_num
  end.

Definition classify_text (first : N) (w : list N) : tkind :=
  let is_mux := mux_auto w (first =? ch_m) false in
  if (is_mux && negb (match w with [] => true | _ => false end))
     || ((match w with [] => true | _ => false end) && (first =? ch_M))
  then KMux
  else if is_keyword_text (first :: w) then KKeyword
  else KIdent.

(* ---- scanSpace ---- *)
Fixpoint span_space (l : list N) : list N * list N :=
  match l with
  | c :: r => if is_space c then let '(w, rest) := span_space r in (c :: w, rest) else ([], l)
  | [] => ([], [])
  end.

(* ---- scanHexNumber (scanner.go:308-328); [l] starts at the 'x' that scanNumber peeked ---- *)
Fixpoint take_hex (n : nat) (l : list N) : list N * list N :=
  match n with
  | O => ([], l)
  | S n' =>
    match l with
    | c :: r => if is_hex c then let '(w, rest) := take_hex n' r in (c :: w, rest) else ([], l)
    | [] => ([], [])
    end
  end.

Definition scan_hex (l : list N) : tkind * list N * list N :=
  match l with
  | x :: h :: r =>
    if is_hex h then let '(w, rest) := take_hex 8 r in (KNumber, x :: h :: w, rest)
    else (KError, [], l)
  | _ => (KError, [], l)
  end.

(* ---- scanExpNumber (scanner.go:330-373); [l] starts at the 'e' that scanNumber peeked ---- *)
Fixpoint span_digits (l : list N) : list N * list N :=
  match l with
  | c :: r => if is_digit c then let '(w, rest) := span_digits r in (c :: w, rest) else ([], l)
  | [] => ([], [])
  end.

Definition scan_exp (l : list N) : tkind * list N * list N :=
  match l with
  | [] => (KError, [], [])                           (* not reachable: called with 'e' in front *)
  | e :: r =>
    match r with
    | [] => (KError, [e], [])                        (* peek = eof: read the 'e', error *)
    | c :: r1 =>
      if (c =? ch_minus) || (c =? ch_plus) then
        match r1 with
        | d :: _ =>
          if is_digit d then let '(w, rest) := span_digits r1 in (KNumber, e :: c :: w, rest)
          else (KError, [e; c], r1)                  (* two reads, error *)
        | [] => (KError, [e; c], [])
        end
      else if is_digit c then let '(w, rest) := span_digits r in (KNumber, e :: w, rest)
      else (KError, [e], r)
    end
  end.

(* ---- scanNumber (scanner.go:250-306) ---- *)
Definition finish_number (first : N) (has_more is_range : bool) : tkind :=
  if negb has_more && ((first =? ch_minus) || (first =? ch_plus)) then KPunct
  else if is_range then KRange
  else KNumber.

Fixpoint num_loop (l : list N) (first : N) (fd : bool) (prev : N) (has_more is_range : bool) : tkind * list N * list N :=
  match l with
  | [] => (finish_number first has_more is_range, [], [])
  | c :: r =>
    if (first =? ch_0) && ((c =? ch_x) || (c =? ch_X)) then scan_hex l
    else if negb (is_digit c) && negb (c =? ch_dot) then
      if ((c =? ch_e) || (c =? ch_E))
         && negb (prev =? ch_minus) && negb (prev =? ch_plus) && negb (prev =? ch_dot)
      then scan_exp l
      else if (c =? ch_minus) && fd && negb is_range then
        match r with
        | d :: r2 =>
          if is_digit d then
            let '(k, w, rest) := num_loop r2 first fd prev has_more true in (k, c :: d :: w, rest)
          else (finish_number first has_more is_range, [], l)
        | [] => (finish_number first has_more is_range, [], l)
        end
      else (finish_number first has_more is_range, [], l)
    else if (c =? ch_dot) && ((prev =? ch_minus) || (prev =? ch_plus)) then
      (finish_number first has_more is_range, [], l)
    else
      let '(k, w, rest) := num_loop r first fd c true is_range in (k, c :: w, rest)
  end.

(* ---- scanString (scanner.go:375-385): reads up to the closing quote; a NUL character or the
   end of input gives "unclosed string".  Returns closed?, consumed characters, rest ---- *)
Fixpoint str_loop (l : list N) : bool * list N * list N :=
  match l with
  | [] => (false, [], [])
  | c :: r =>
    if c =? ch_quote then (true, [c], r)
    else if c =? 0 then (false, [c], r)
    else let '(b, w, rest) := str_loop r in (b, c :: w, rest)
  end.

End WithDigits.

(* ---- scan (scanner.go:172-194) after the first character [c] has been read ----
   returns kind, the characters consumed after [c], the rest.
   [up] is the digit class as [peek] sees it, [fd] = isNumber(c) for the character read. *)
Definition scan_after' (up : N -> bool) (fd : bool) (c : N) (r : list N) : tkind * list N * list N :=
  if c =? 0 then (KEOF, [], r)
  else if is_space c then let '(w, rest) := span_space r in (KSpace, w, rest)
  else if is_letter c then let '(w, rest) := span_alnum up r in (classify_text up c w, w, rest)
  else if fd || (c =? ch_minus) || (c =? ch_plus) then num_loop up r c fd c false false
  else if c =? ch_quote then
    let '(closed, w, rest) := str_loop r in ((if closed then KString else KError), w, rest)
  else if is_punct_char c then (KPunct, [], r)
  else (KError, [], r).

(* [peek] cannot decode characters above U+FFFF (it tries 1..3 bytes): a digit of a supplementary
   plane starts a number when it is *read* as the first character of a token, but is never seen by
   the loops, which only peek. *)
Definition peek_digits (ud : N -> bool) : N -> bool := fun c => ud c && (c <? 65536).

Section Scan.
Variable ud : N -> bool.

Definition scan_after (c : N) (r : list N) : tkind * list N * list N :=
  scan_after' (peek_digits ud) (is_digit ud c) c r.

(* emitToken: a string token's value drops the two quotes *)
Definition token_value (k : tkind) (c : N) (w : list N) : str :=
  match k with
  | KString => removelast w
  | _ => c :: w
  end.

(* All raw tokens of a text, the final end-of-input token included.
   [start] is the scanner's start marker (startLine, startCol), [p] the current position. *)
Fixpoint lex_fuel (fuel : nat) (inp : list N) (p start : pos) : option (list rtoken) :=
  match fuel with
  | O => None
  | S f =>
    match inp with
    | [] => Some [ {| rt_kind := KEOF; rt_value := []; rt_line := fst start; rt_col := snd start |} ]
    | c :: r =>
      let '(k, w, rest) := scan_after c r in
      let start' := advance p c in
      let p' := advance_all start' w in
      match lex_fuel f rest p' start' with
      | Some ts => Some ({| rt_kind := k; rt_value := token_value k c w;
                            rt_line := fst start'; rt_col := snd start' |} :: ts)
      | None => None
      end
    end
  end.

Definition lex (text : list N) : option (list rtoken) :=
  lex_fuel (S (length text)) text (1, 0) (1, 0).

End Scan.

(* parser.scan (parser.go:91-104): a space token is replaced by the next token (once) *)
Definition is_space_tok (t : rtoken) : bool := tkind_eqb (rt_kind t) KSpace.

Fixpoint pfilter (l : list rtoken) : list rtoken :=
  match l with
  | [] => []
  | t :: r =>
    if is_space_tok t then
      match r with
      | [] => []
      | t2 :: r2 => t2 :: pfilter r2
      end
    else t :: pfilter r
  end.
