(* C08/C09 — model of dbc/parser.go.

   The scanner does not depend on the parser, so the parser model runs over the token list of
   the whole text (DbcLex.lex, spaces dropped the way parser.scan drops them, final end-of-input
   token included; reading past the end yields that token again).  One function per section, in
   the order of parser.go.  [unscan] is always applied to the token just read, so "scan, test,
   unscan" is a test on the head of the list that does not consume it.

   Errors: [PErr n] is a syntax error raised while the current token (parser.currToken) is the
   head of the list that has [n] elements left — the position is looked up afterwards in the
   lexer's position list, so the parser proper is position-free.  [PErrOther] is an error that
   is not a syntax error (parser.go:363-395: BS_ numbers that do not fit uint32 return the
   strconv error unchanged).

   Floats: strconv.ParseFloat is not modelled; [prs : str -> option N] is the oracle
   (text of a number token -> Some bits | None for an error, including out-of-range). *)
From Coq Require Import NArith ZArith List Bool.
From Acme.C08 Require Import DbcAst Chars DbcLex.
Import ListNotations.
Local Open Scope N_scope.

Definition tok := (tkind * str)%type.
Definition eof_tok : tok := (KEOF, []).

Inductive pres (A : Type) :=
| POk (a : A) (rest : list tok)
| PErr (remaining : nat)
| PErrOther.
Arguments POk {A}. Arguments PErr {A}. Arguments PErrOther {A}.

Definition next (ts : list tok) : tok * list tok :=
  match ts with
  | [] => (eof_tok, [])
  | t :: r => (t, r)
  end.

Definition bind {A B} (x : pres A) (f : A -> list tok -> pres B) : pres B :=
  match x with
  | POk a r => f a r
  | PErr n => PErr n
  | PErrOther => PErrOther
  end.
Notation "'do' x , r <- e ; b" := (bind e (fun x r => b)) (at level 200, x name, r name, e at level 100, b at level 200).

Definition kind_is (k : tkind) (t : tok) : bool := tkind_eqb (fst t) k.
Definition is_punct (c : N) (t : tok) : bool :=
  kind_is KPunct t && match snd t with x :: _ => x =? c | [] => false end.
Definition is_kw (k : keyword) (t : tok) : bool :=
  kind_is KKeyword t &&
  match keyword_of (snd t) with Some k' => keyword_index k' =? keyword_index k | None => false end.

(* expectPunct: scan; error at that token if it is not the punctuation *)
Definition expect_punct (c : N) (ts : list tok) : pres unit :=
  let '(t, r) := next ts in
  if is_punct c t then POk tt r else PErr (length ts).

(* scan a token of the given kind and return its value *)
Definition expect_kind (k : tkind) (ts : list tok) : pres str :=
  let '(t, r) := next ts in
  if kind_is k t then POk (snd t) r else PErr (length ts).

(* ---- number conversions ---- *)

Definition digit_val (c : N) : N := c - 48.

Fixpoint dec_value (l : list N) (acc : N) : N :=
  match l with
  | [] => acc
  | c :: r => dec_value r (acc * 10 + digit_val c)
  end.

Definition all_digits (l : list N) : bool :=
  match l with [] => false | _ => forallb ascii_digit l end.

(* strconv.ParseUint(val, 10, 32) *)
Definition parse_uint (v : str) : option N :=
  if all_digits v then
    let n := dec_value v 0 in
    if n <? 4294967296 then Some n else None
  else None.

(* strconv.ParseInt(val, 10, 64) *)
Definition parse_int (v : str) : option Z :=
  let '(neg, body) :=
    match v with
    | c :: r => if c =? ch_minus then (true, r) else if c =? ch_plus then (false, r) else (false, v)
    | [] => (false, v)
    end in
  if all_digits body then
    let n := dec_value body 0 in
    if neg then (if n <=? 9223372036854775808 then Some (- Z.of_N n)%Z else None)
    else (if n <? 9223372036854775808 then Some (Z.of_N n) else None)
  else None.

Definition hex_val (c : N) : N :=
  if ascii_digit c then c - 48 else if 97 <=? c then c - 87 else c - 55.

Fixpoint hex_value (l : list N) (acc : N) : N :=
  match l with
  | [] => acc
  | c :: r => hex_value r (acc * 16 + hex_val c)
  end.

Definition has_hex_prefix (v : str) : bool :=
  match v with
  | a :: b :: _ => (a =? ch_0) && ((b =? ch_x) || (b =? ch_X))
  | _ => false
  end.

(* parser.parseHexInt *)
Definition parse_hex_int (hex : bool) (v : str) : option N :=
  if negb hex then parse_uint v
  else if has_hex_prefix v then
    let body := skipn 2 v in
    match body with
    | [] => None
    | _ => if forallb (is_hex no_ud) body then
             let n := hex_value body 0 in
             if n <? 4294967296 then Some n else None
           else None
    end
  else None.

(* scan a number token and convert it with parseUint; both failures are syntax errors at it *)
Definition p_uint (ts : list tok) : pres N :=
  let '(t, r) := next ts in
  if kind_is KNumber t then
    match parse_uint (snd t) with Some n => POk n r | None => PErr (length ts) end
  else PErr (length ts).

Section WithOracle.
Variable prs : str -> option N.
Variable hex : bool.

Definition p_double (ts : list tok) : pres N :=
  let '(t, r) := next ts in
  if kind_is KNumber t then
    match prs (snd t) with Some b => POk b r | None => PErr (length ts) end
  else PErr (length ts).

(* ---- VERSION (parser.go:289-300) ---- *)
Definition parse_version (ts : list tok) : pres str := expect_kind KString ts.

(* ---- NS_ (parser.go:302-341) ---- *)
Fixpoint ns_loop (ts : list tok) : pres (list str) :=
  match ts with
  | [] => POk [] []
  | t :: r =>
    if kind_is KEOF t then POk [] r
    else if is_kw KwBitTiming t then POk [] ts
    else if kind_is KKeyword t || kind_is KIdent t then
      if mem_str (snd t) new_symbols_values then
        do l, r' <- ns_loop r ; POk (snd t :: l) r'
      else PErr (length ts)
    else ns_loop r
  end.

Definition parse_new_symbols (ts : list tok) : pres (list str) :=
  do _u, r <- expect_punct ch_colon ts ; ns_loop r.

(* ---- BS_ (parser.go:343-398) ---- *)
Definition p_uint_other (ts : list tok) (what_err : bool) : pres N :=
  (* number token expected; a conversion failure is a syntax error at that token too (since the repair
     of the BS_ section, which used to return the bare strconv error: [PErrOther] is no longer produced) *)
  let '(t, r) := next ts in
  if kind_is KNumber t then
    match parse_uint (snd t) with Some n => POk n r | None => PErr (length ts) end
  else PErr (length ts).

Definition parse_bit_timing (ts : list tok) : pres bit_timing :=
  do _u, r <- expect_punct ch_colon ts ;
  let '(t, r1) := next r in
  if is_kw KwNode t then POk {| bt_baud := 0; bt_reg1 := 0; bt_reg2 := 0 |} r
  else
    do baud, r2 <- p_uint_other r true ;
    do _u, r3 <- expect_punct ch_colon r2 ;
    do r1v, r4 <- p_uint_other r3 true ;
    do _u, r5 <- expect_punct ch_comma r4 ;
    do r2v, r6 <- p_uint_other r5 true ;
    POk {| bt_baud := baud; bt_reg1 := r1v; bt_reg2 := r2v |} r6.

(* ---- BU_ (parser.go:408-431) ---- *)
Fixpoint idents_loop (ts : list tok) : list str * list tok :=
  match ts with
  | t :: r => if kind_is KIdent t then let '(l, rest) := idents_loop r in (snd t :: l, rest) else ([], ts)
  | [] => ([], [])
  end.

Definition parse_nodes (ts : list tok) : pres (list str) :=
  do _u, r <- expect_punct ch_colon ts ;
  let '(l, rest) := idents_loop r in POk l rest.

(* ---- value descriptions, VAL_TABLE_ (parser.go:433-488) ---- *)
Fixpoint value_descs (ts : list tok) : pres (list value_desc) :=
  match ts with
  | t :: r =>
    if kind_is KNumber t then
      match parse_uint (snd t) with
      | None => PErr (length ts)
      | Some id =>
        match r with
        | t2 :: r2 =>
          if kind_is KString t2 then
            do l, rest <- value_descs r2 ; POk ({| vd_id := id; vd_name := snd t2 |} :: l) rest
          else PErr (length r)
        | [] => PErr 0%nat
        end
      end
    else POk [] ts
  | [] => POk [] []
  end.

Definition parse_value_table (ts : list tok) : pres value_table :=
  do name, r <- expect_kind KIdent ts ;
  do vals, r1 <- value_descs r ;
  do _u, r2 <- expect_punct ch_semi r1 ;
  POk {| vt_name := name; vt_values := vals |} r2.

(* ---- SG_ (parser.go:561-741) ---- *)
Definition last_is_M (v : str) : bool := match rev v with c :: _ => c =? ch_M | [] => false end.
Definition first_is_m (v : str) : bool := match v with c :: _ => c =? ch_m | [] => false end.

(* the mux indicator: Some (is_multiplexor, switch value) or None = conversion error *)
Definition mux_of (v : str) : option (bool * option N) :=
  let muxor := last_is_M v in
  if first_is_m v then
    let num := if muxor then removelast (tl v) else tl v in
    match parse_uint num with
    | Some n => Some (muxor, Some n)
    | None => None
    end
  else Some (muxor, None).

Definition p_byte_order (ts : list tok) : pres byte_order :=
  let '(t, r) := next ts in
  if kind_is KNumber t then
    match parse_uint (snd t) with
    | Some 0 => POk BigEndian r
    | Some 1 => POk LittleEndian r
    | _ => PErr (length ts)
    end
  else PErr (length ts).

Definition p_sign (ts : list tok) : pres value_type :=
  let '(t, r) := next ts in
  if is_punct ch_plus t then POk Unsigned r
  else if is_punct ch_minus t then POk Signed r
  else PErr (length ts).

Fixpoint comma_idents (ts : list tok) : pres (list str) :=
  (* after the first receiver: { ',' ident } *)
  match ts with
  | t :: r =>
    if is_punct ch_comma t then
      match r with
      | t2 :: r2 =>
        if kind_is KIdent t2 then do l, rest <- comma_idents r2 ; POk (snd t2 :: l) rest
        else PErr (length r)
      | [] => PErr 0%nat
      end
    else POk [] ts
  | [] => POk [] []
  end.

Definition parse_signal (ts : list tok) : pres signal :=
  do name, r <- expect_kind KIdent ts ;
  let '(t, r1) := next r in
  let mux_res :=
    if kind_is KMux t then
      match mux_of (snd t) with
      | Some m => POk m r1
      | None => PErr (length r)
      end
    else POk (false, None) r in
  do m, r2 <- mux_res ;
  do _u, r3 <- expect_punct ch_colon r2 ;
  do start, r4 <- p_uint r3 ;
  do _u, r5 <- expect_punct ch_pipe r4 ;
  do size, r6 <- p_uint r5 ;
  do _u, r7 <- expect_punct ch_at r6 ;
  do bo, r8 <- p_byte_order r7 ;
  do vt, r9 <- p_sign r8 ;
  do _u, r10 <- expect_punct ch_lparen r9 ;
  do factor, r11 <- p_double r10 ;
  do _u, r12 <- expect_punct ch_comma r11 ;
  do offset, r13 <- p_double r12 ;
  do _u, r14 <- expect_punct ch_rparen r13 ;
  do _u, r15 <- expect_punct ch_lbrack r14 ;
  do mn, r16 <- p_double r15 ;
  do _u, r17 <- expect_punct ch_pipe r16 ;
  do mx, r18 <- p_double r17 ;
  do _u, r19 <- expect_punct ch_rbrack r18 ;
  do unit, r20 <- expect_kind KString r19 ;
  do rcv, r21 <- expect_kind KIdent r20 ;
  do more, r22 <- comma_idents r21 ;
  POk {| sg_name := name; sg_multiplexor := fst m; sg_mux := snd m; sg_start := start;
         sg_size := size; sg_order := bo; sg_vtype := vt; sg_factor := factor;
         sg_offset := offset; sg_min := mn; sg_max := mx; sg_unit := unit;
         sg_receivers := rcv :: more |} r22.

(* ---- BO_ (parser.go:502-551) ---- *)
Fixpoint signals_loop (fuel : nat) (ts : list tok) : pres (list signal) :=
  match fuel with
  | O => POk [] ts        (* not reached with fuel = length ts; see parse_fuel_enough *)
  | S f =>
    let '(t, r) := next ts in
    if is_kw KwSignal t then
      do s, r1 <- parse_signal r ;
      do l, r2 <- signals_loop f r1 ;
      POk (s :: l) r2
    else POk [] ts
  end.

Definition parse_message (ts : list tok) : pres message :=
  do id, r <- p_uint ts ;
  do name, r1 <- expect_kind KIdent r ;
  do _u, r2 <- expect_punct ch_colon r1 ;
  do size, r3 <- p_uint r2 ;
  do tx, r4 <- expect_kind KIdent r3 ;
  do sigs, r5 <- signals_loop (length r4) r4 ;
  POk {| ms_id := id; ms_name := name; ms_size := size; ms_tx := tx; ms_signals := sigs |} r5.

(* ---- BO_TX_BU_ (parser.go:743-772) ---- *)
Definition parse_msg_transmitter (ts : list tok) : pres msg_transmitter :=
  do id, r <- p_uint ts ;
  do _u, r1 <- expect_punct ch_colon r ;
  let '(l, r2) := idents_loop r1 in
  do _u, r3 <- expect_punct ch_semi r2 ;
  POk {| tx_id := id; tx_names := l |} r3.

(* ---- EV_ (parser.go:782-907) ---- *)
Definition p_ev_type (ts : list tok) : pres ev_type :=
  let '(t, r) := next ts in
  if kind_is KNumber t then
    match parse_uint (snd t) with
    | Some 0 => POk EvInt r
    | Some 1 => POk EvFloat r
    | Some 2 => POk EvString r
    | _ => PErr (length ts)
    end
  else PErr (length ts).

Definition p_access (ts : list tok) : pres N :=
  let '(t, r) := next ts in
  if kind_is KIdent t then
    match index_of access_names (snd t) 0 with
    | Some i => POk i r
    | None => PErr (length ts)
    end
  else PErr (length ts).

Definition parse_env_var (ts : list tok) : pres env_var :=
  do name, r <- expect_kind KIdent ts ;
  do _u, r1 <- expect_punct ch_colon r ;
  do ty, r2 <- p_ev_type r1 ;
  do _u, r3 <- expect_punct ch_lbrack r2 ;
  do mn, r4 <- p_double r3 ;
  do _u, r5 <- expect_punct ch_pipe r4 ;
  do mx, r6 <- p_double r5 ;
  do _u, r7 <- expect_punct ch_rbrack r6 ;
  do unit, r8 <- expect_kind KString r7 ;
  do init, r9 <- p_double r8 ;
  do id, r10 <- p_uint r9 ;
  do acc, r11 <- p_access r10 ;
  do node, r12 <- expect_kind KIdent r11 ;
  do more, r13 <- comma_idents r12 ;
  do _u, r14 <- expect_punct ch_semi r13 ;
  POk {| ev_name := name; ev_ty := ty; ev_min := mn; ev_max := mx; ev_unit := unit;
         ev_init := init; ev_id := id; ev_access := acc; ev_nodes := node :: more |} r14.

(* ---- ENVVAR_DATA_ (parser.go:909-938) ---- *)
Definition parse_env_var_data (ts : list tok) : pres env_var_data :=
  do name, r <- expect_kind KIdent ts ;
  do _u, r1 <- expect_punct ch_colon r ;
  do size, r2 <- p_uint r1 ;
  do _u, r3 <- expect_punct ch_semi r2 ;
  POk {| ed_name := name; ed_size := size |} r3.

(* ---- SGTYPE_ (parser.go:940-1135): definition or reference ---- *)
Definition parse_signal_type (ts : list tok) : pres (signal_type + signal_type_ref) :=
  let '(t, _r) := next ts in
  match fst t with
  | KIdent =>
    do name, r <- expect_kind KIdent ts ;
    do _u, r1 <- expect_punct ch_colon r ;
    do size, r2 <- p_uint r1 ;
    do _u, r3 <- expect_punct ch_at r2 ;
    do bo, r4 <- p_byte_order r3 ;
    do vt, r5 <- p_sign r4 ;
    do _u, r6 <- expect_punct ch_lparen r5 ;
    do factor, r7 <- p_double r6 ;
    do _u, r8 <- expect_punct ch_comma r7 ;
    do offset, r9 <- p_double r8 ;
    do _u, r10 <- expect_punct ch_rparen r9 ;
    do _u, r11 <- expect_punct ch_lbrack r10 ;
    do mn, r12 <- p_double r11 ;
    do _u, r13 <- expect_punct ch_pipe r12 ;
    do mx, r14 <- p_double r13 ;
    do _u, r15 <- expect_punct ch_rbrack r14 ;
    do unit, r16 <- expect_kind KString r15 ;
    do dflt, r17 <- p_double r16 ;
    do _u, r18 <- expect_punct ch_comma r17 ;
    do table, r19 <- expect_kind KIdent r18 ;
    do _u, r20 <- expect_punct ch_semi r19 ;
    POk (inl {| st_name := name; st_size := size; st_order := bo; st_vtype := vt;
                st_factor := factor; st_offset := offset; st_min := mn; st_max := mx;
                st_unit := unit; st_default := dflt; st_table := table |}) r20
  | KNumber =>
    do id, r <- p_uint ts ;
    do sname, r1 <- expect_kind KIdent r ;
    do _u, r2 <- expect_punct ch_colon r1 ;
    do tname, r3 <- expect_kind KIdent r2 ;
    do _u, r4 <- expect_punct ch_semi r3 ;
    POk (inr {| sr_id := id; sr_signal := sname; sr_type := tname |}) r4
  | _ => PErr (length ts)
  end.

(* ---- object references of CM_ and BA_ ---- *)
Definition p_obj_ref_kw (k : keyword) (ts_at_kw : list tok) (r : list tok) : pres obj_ref :=
  (* [r] follows the keyword token; [ts_at_kw] starts at it *)
  match k with
  | KwNode => do n, r1 <- expect_kind KIdent r ; POk (ORNode n) r1
  | KwMessage => do id, r1 <- p_uint r ; POk (ORMessage id) r1
  | KwSignal => do id, r1 <- p_uint r ; do n, r2 <- expect_kind KIdent r1 ; POk (ORSignal id n) r2
  | KwEnvVar => do n, r1 <- expect_kind KIdent r ; POk (OREnvVar n) r1
  | _ => PErr (length ts_at_kw)
  end.

(* ---- CM_ (parser.go:1137-1206) ---- *)
Definition parse_comment (ts : list tok) : pres comment :=
  let '(t, r) := next ts in
  let ref_res :=
    match fst t with
    | KString => POk ORGeneral ts
    | KKeyword =>
      match keyword_of (snd t) with
      | Some k => p_obj_ref_kw k ts r
      | None => PErr (length ts)
      end
    | _ => PErr (length ts)
    end in
  do ref, r1 <- ref_res ;
  do text, r2 <- expect_kind KString r1 ;
  do _u, r3 <- expect_punct ch_semi r2 ;
  POk {| cm_ref := ref; cm_text := text |} r3.

(* ---- BA_DEF_ (parser.go:1208-1361) ---- *)
Definition has_blank (v : str) : bool :=
  existsb (fun c => (c =? ch_sp) || (c =? ch_tab) || (c =? ch_nl)) v.

Definition p_attr_name (ts : list tok) : pres str :=
  let '(t, r) := next ts in
  if kind_is KString t then
    if has_blank (snd t) then PErr (length ts) else POk (snd t) r
  else PErr (length ts).

Definition p_int (ts : list tok) : pres Z :=
  let '(t, r) := next ts in
  if kind_is KNumber t then
    match parse_int (snd t) with Some z => POk z r | None => PErr (length ts) end
  else PErr (length ts).

Definition p_hex (ts : list tok) : pres N :=
  let '(t, r) := next ts in
  if kind_is KNumber t then
    match parse_hex_int hex (snd t) with Some n => POk n r | None => PErr (length ts) end
  else PErr (length ts).

Fixpoint comma_strings (ts : list tok) : pres (list str) :=
  match ts with
  | t :: r =>
    if is_punct ch_comma t then
      match r with
      | t2 :: r2 =>
        if kind_is KString t2 then do l, rest <- comma_strings r2 ; POk (snd t2 :: l) rest
        else PErr (length r)
      | [] => PErr 0%nat
      end
    else POk [] ts
  | [] => POk [] []
  end.

Definition p_attr_type (ts : list tok) : pres attr_type :=
  let '(t, r) := next ts in
  if kind_is KKeyword t then
    match keyword_of (snd t) with
    | Some KwAttributeInt =>
      do mn, r1 <- p_int r ; do mx, r2 <- p_int r1 ; POk (ATInt mn mx) r2
    | Some KwAttributeHex =>
      do mn, r1 <- p_hex r ; do mx, r2 <- p_hex r1 ; POk (ATHex mn mx) r2
    | Some KwAttributeFloat =>
      do mn, r1 <- p_double r ; do mx, r2 <- p_double r1 ; POk (ATFloat mn mx) r2
    | Some KwAttributeString => POk ATString r
    | Some KwAttributeEnum =>
      let '(t1, r1) := next r in
      if kind_is KString t1 then
        do more, r2 <- comma_strings r1 ; POk (ATEnum (snd t1 :: more)) r2
      else POk (ATEnum []) r
    | _ => PErr (length ts)
    end
  else PErr (length ts).

Definition parse_attribute (ts : list tok) : pres attribute :=
  let '(t, r) := next ts in
  let kind_res :=
    match fst t with
    | KString => POk AKGeneral ts
    | KKeyword =>
      match keyword_of (snd t) with
      | Some KwNode => POk AKNode r
      | Some KwMessage => POk AKMessage r
      | Some KwSignal => POk AKSignal r
      | Some KwEnvVar => POk AKEnvVar r
      | _ => PErr (length ts)
      end
    | _ => PErr (length ts)
    end in
  do kind, r1 <- kind_res ;
  do name, r2 <- p_attr_name r1 ;
  do ty, r3 <- p_attr_type r2 ;
  do _u, r4 <- expect_punct ch_semi r3 ;
  POk {| ad_kind := kind; ad_name := name; ad_type := ty |} r4.

(* ---- attribute value literal of BA_DEF_DEF_ / BA_ (parser.go:1373-1406, 1478-1511) ---- *)
Definition has_dot (v : str) : bool := existsb (fun c => c =? ch_dot) v.

Definition p_attr_val (ts : list tok) : pres attr_val :=
  let '(t, r) := next ts in
  if kind_is KString t then POk (AVString (snd t)) r
  else if kind_is KNumber t then
    if has_hex_prefix (snd t) then
      match parse_hex_int hex (snd t) with Some n => POk (AVHex n) r | None => PErr (length ts) end
    else if has_dot (snd t) then
      match prs (snd t) with Some b => POk (AVFloat b) r | None => PErr (length ts) end
    else
      match parse_int (snd t) with
      | Some z => POk (AVInt z) r
      | None =>
        match prs (snd t) with Some b => POk (AVFloat b) r | None => PErr (length ts) end
      end
  else PErr (length ts).

(* ---- BA_DEF_DEF_ (parser.go:1363-1413) ---- *)
Definition parse_attr_default (ts : list tok) : pres attr_default :=
  do name, r <- p_attr_name ts ;
  do v, r1 <- p_attr_val r ;
  do _u, r2 <- expect_punct ch_semi r1 ;
  POk {| af_name := name; af_value := v |} r2.

(* ---- BA_ (parser.go:1415-1518) ---- *)
Definition parse_attr_value (ts : list tok) : pres attr_value :=
  do name, r <- expect_kind KString ts ;
  let '(t, r1) := next r in
  let ref_res :=
    if kind_is KString t || kind_is KNumber t then POk ORGeneral r
    else if kind_is KKeyword t then
      match keyword_of (snd t) with
      | Some k => p_obj_ref_kw k r r1
      | None => PErr (length r)
      end
    else PErr (length r) in
  do ref, r2 <- ref_res ;
  do v, r3 <- p_attr_val r2 ;
  do _u, r4 <- expect_punct ch_semi r3 ;
  POk {| av_name := name; av_ref := ref; av_value := v |} r4.

(* ---- VAL_ (parser.go:1520-1572) ---- *)
Definition parse_value_encoding (ts : list tok) : pres value_encoding :=
  let '(t, _r) := next ts in
  let ref_res :=
    match fst t with
    | KIdent => do n, r <- expect_kind KIdent ts ; POk (EREnvVar n) r
    | KNumber => do id, r <- p_uint ts ; do n, r1 <- expect_kind KIdent r ; POk (ERSignal id n) r1
    | _ => PErr (length ts)
    end in
  do ref, r1 <- ref_res ;
  do vals, r2 <- value_descs r1 ;
  do _u, r3 <- expect_punct ch_semi r2 ;
  POk {| ve_ref := ref; ve_values := vals |} r3.

(* ---- SIG_GROUP_ (parser.go:1574-1618) ---- *)
Definition parse_signal_group (ts : list tok) : pres signal_group :=
  do id, r <- p_uint ts ;
  do name, r1 <- expect_kind KIdent r ;
  do rep, r2 <- p_uint r1 ;
  do _u, r3 <- expect_punct ch_colon r2 ;
  let '(l, r4) := idents_loop r3 in
  do _u, r5 <- expect_punct ch_semi r4 ;
  POk {| sgp_id := id; sgp_name := name; sgp_rep := rep; sgp_signals := l |} r5.

(* ---- SIG_VALTYPE_ (parser.go:1620-1660) ---- *)
Definition p_ext_type (ts : list tok) : pres ext_value_type :=
  let '(t, r) := next ts in
  if kind_is KNumber t then
    match parse_uint (snd t) with
    | Some 0 => POk XInteger r
    | Some 1 => POk XFloat r
    | Some 2 => POk XDouble r
    | _ => PErr (length ts)
    end
  else PErr (length ts).

Definition parse_sig_ext_value_type (ts : list tok) : pres sig_ext_value_type :=
  do id, r <- p_uint ts ;
  do name, r1 <- expect_kind KIdent r ;
  do ty, r2 <- p_ext_type r1 ;
  do _u, r3 <- expect_punct ch_semi r2 ;
  POk {| sv_id := id; sv_signal := name; sv_type := ty |} r3.

(* ---- SG_MUL_VAL_ (parser.go:1662-1732) ---- *)
Fixpoint split_on (c : N) (l : list N) : list (list N) :=
  (* strings.Split on a one-character separator *)
  match l with
  | [] => [[]]
  | x :: r =>
    if x =? c then [] :: split_on c r
    else match split_on c r with
         | h :: t => (x :: h) :: t
         | [] => [[x]]
         end
  end.

Definition p_range (ts : list tok) : pres (N * N) :=
  let '(t, r) := next ts in
  if kind_is KRange t then
    let parts := split_on ch_minus (snd t) in
    match parse_uint (nth 0 parts []), parse_uint (nth 1 parts []) with
    | Some a, Some b => POk (a, b) r
    | _, _ => PErr (length ts)
    end
  else PErr (length ts).

Fixpoint comma_ranges (ts : list tok) : pres (list (N * N)) :=
  match ts with
  | t :: r =>
    if is_punct ch_comma t then
      match p_range r with
      | POk x r2 =>
        (* structural recursion: r2 is a tail of r by construction of p_range *)
        match r with
        | _ :: r2' => do l, rest <- comma_ranges r2' ; POk (x :: l) rest
        | [] => PErr 0%nat
        end
      | PErr n => PErr n
      | PErrOther => PErrOther
      end
    else POk [] ts
  | [] => POk [] []
  end.

Definition parse_ext_mux (ts : list tok) : pres ext_mux :=
  do id, r <- p_uint ts ;
  do muxed, r1 <- expect_kind KIdent r ;
  do muxor, r2 <- expect_kind KIdent r1 ;
  do first, r3 <- p_range r2 ;
  do more, r4 <- comma_ranges r3 ;
  do _u, r5 <- expect_punct ch_semi r4 ;
  POk {| xm_id := id; xm_muxed := muxed; xm_muxor := muxor; xm_ranges := first :: more |} r5.

(* ---- the file (parser.go:134-287) ---- *)
Inductive item :=
| IVersion (v : str) | INewSymbols (l : list str) | IBitTiming (b : bit_timing) | INodes (l : list str)
| IValueTable (x : value_table) | IMessage (x : message) | IMsgTransmitter (x : msg_transmitter)
| IEnvVar (x : env_var) | IEnvVarData (x : env_var_data) | ISignalType (x : signal_type)
| ISignalTypeRef (x : signal_type_ref) | IComment (x : comment) | IAttribute (x : attribute)
| IAttrDefault (x : attr_default) | IAttrValue (x : attr_value) | IValueEncoding (x : value_encoding)
| ISignalGroup (x : signal_group) | ISigExtValueType (x : sig_ext_value_type) | IExtMux (x : ext_mux).

Record flags := { fl_ver : bool; fl_ns : bool; fl_bu : bool }.
(* parser.foundBitTim is tested but never set (parser.go:344-346): BS_ may repeat *)

Definition lift {A} (f : A -> item) (x : pres A) : pres item :=
  match x with POk a r => POk (f a) r | PErr n => PErr n | PErrOther => PErrOther end.

Definition parse_section (k : keyword) (fl : flags) (ts_at_kw r : list tok) : option (pres item * flags) :=
  (* None: the keyword has no case in the switch of parser.parse and is skipped *)
  match k with
  | KwVersion =>
    Some (if fl_ver fl then (PErr (length ts_at_kw), fl)
          else (lift IVersion (parse_version r), {| fl_ver := true; fl_ns := fl_ns fl; fl_bu := fl_bu fl |}))
  | KwNewSymbols =>
    Some (if fl_ns fl then (PErr (length ts_at_kw), fl)
          else (lift INewSymbols (parse_new_symbols r), {| fl_ver := fl_ver fl; fl_ns := true; fl_bu := fl_bu fl |}))
  | KwBitTiming => Some (lift IBitTiming (parse_bit_timing r), fl)
  | KwNode =>
    Some (if fl_bu fl then (PErr (length ts_at_kw), fl)
          else (lift INodes (parse_nodes r), {| fl_ver := fl_ver fl; fl_ns := fl_ns fl; fl_bu := true |}))
  | KwValueTable => Some (lift IValueTable (parse_value_table r), fl)
  | KwMessage => Some (lift IMessage (parse_message r), fl)
  | KwMessageTransmitter => Some (lift IMsgTransmitter (parse_msg_transmitter r), fl)
  | KwEnvVar => Some (lift IEnvVar (parse_env_var r), fl)
  | KwEnvVarData => Some (lift IEnvVarData (parse_env_var_data r), fl)
  | KwSignalType =>
    Some (lift (fun x => match x with inl a => ISignalType a | inr b => ISignalTypeRef b end)
               (parse_signal_type r), fl)
  | KwComment => Some (lift IComment (parse_comment r), fl)
  | KwAttribute => Some (lift IAttribute (parse_attribute r), fl)
  | KwAttributeDefault => Some (lift IAttrDefault (parse_attr_default r), fl)
  | KwAttributeValue => Some (lift IAttrValue (parse_attr_value r), fl)
  | KwValueEncoding => Some (lift IValueEncoding (parse_value_encoding r), fl)
  | KwSignalGroup => Some (lift ISignalGroup (parse_signal_group r), fl)
  | KwSignalValueType => Some (lift ISigExtValueType (parse_sig_ext_value_type r), fl)
  | KwExtendedMux => Some (lift IExtMux (parse_ext_mux r), fl)
  | KwSignal | KwAttributeInt | KwAttributeHex | KwAttributeFloat | KwAttributeString
  | KwAttributeEnum => None
  end.

Inductive presult :=
| ROk (items : list item)
| RSyntax (remaining : nat)
| ROther
| ROutOfFuel.

Fixpoint parse_loop (fuel : nat) (fl : flags) (ts : list tok) : presult :=
  match fuel with
  | O => ROutOfFuel
  | S f =>
    let '(t, r) := next ts in
    match fst t with
    | KEOF => ROk []
    | KKeyword =>
      match keyword_of (snd t) with
      | None => RSyntax (length ts)     (* not reachable: keyword tokens are in the table *)
      | Some k =>
        match parse_section k fl ts r with
        | None => parse_loop f fl r
        | Some (POk it r', fl') =>
          match parse_loop f fl' r' with
          | ROk l => ROk (it :: l)
          | e => e
          end
        | Some (PErr n, _) => RSyntax n
        | Some (PErrOther, _) => ROther
        end
      end
    | _ => RSyntax (length ts)
    end
  end.

End WithOracle.

(* ---- assembling the File from the entries in file order ---- *)
Definition last_opt {A} (l : list A) : option A := match rev l with x :: _ => Some x | [] => None end.

Definition pick {A} (f : item -> option A) (l : list item) : list A :=
  flat_map (fun i => match f i with Some a => [a] | None => [] end) l.

Definition assemble (l : list item) : file :=
  {| f_version := match last_opt (pick (fun i => match i with IVersion v => Some v | _ => None end) l) with
                  | Some v => v | None => [] end;
     f_ns := last_opt (pick (fun i => match i with INewSymbols v => Some v | _ => None end) l);
     f_bs := last_opt (pick (fun i => match i with IBitTiming v => Some v | _ => None end) l);
     f_bu := last_opt (pick (fun i => match i with INodes v => Some v | _ => None end) l);
     f_vts := pick (fun i => match i with IValueTable v => Some v | _ => None end) l;
     f_msgs := pick (fun i => match i with IMessage v => Some v | _ => None end) l;
     f_txs := pick (fun i => match i with IMsgTransmitter v => Some v | _ => None end) l;
     f_evs := pick (fun i => match i with IEnvVar v => Some v | _ => None end) l;
     f_eds := pick (fun i => match i with IEnvVarData v => Some v | _ => None end) l;
     f_sts := pick (fun i => match i with ISignalType v => Some v | _ => None end) l;
     f_cms := pick (fun i => match i with IComment v => Some v | _ => None end) l;
     f_ads := pick (fun i => match i with IAttribute v => Some v | _ => None end) l;
     f_afs := pick (fun i => match i with IAttrDefault v => Some v | _ => None end) l;
     f_avs := pick (fun i => match i with IAttrValue v => Some v | _ => None end) l;
     f_ves := pick (fun i => match i with IValueEncoding v => Some v | _ => None end) l;
     f_srs := pick (fun i => match i with ISignalTypeRef v => Some v | _ => None end) l;
     f_sgs := pick (fun i => match i with ISignalGroup v => Some v | _ => None end) l;
     f_svs := pick (fun i => match i with ISigExtValueType v => Some v | _ => None end) l;
     f_xms := pick (fun i => match i with IExtMux v => Some v | _ => None end) l |}.

(* ---- the whole pipeline: dbc.Parse ---- *)
Inductive outcome :=
| OOk (f : file)
| OSyntax (line col : N)
| OOther
| OOutOfFuel.

Definition strip (t : rtoken) : tok := (rt_kind t, rt_value t).

(* position of the token that has [n] elements of [pts] left (0: past the end = final eof token) *)
Definition error_pos (pts : list rtoken) (n : nat) : N * N :=
  let idx := (length pts - n)%nat in
  match nth_error pts idx, last_opt pts with
  | Some t, _ => (rt_line t, rt_col t)
  | None, Some t => (rt_line t, rt_col t)
  | None, None => (1, 0)
  end.

Definition parse_tokens (prs : str -> option N) (hex : bool) (pts : list rtoken) : outcome :=
  let ts := map strip pts in
  match parse_loop prs hex (S (length ts)) {| fl_ver := false; fl_ns := false; fl_bu := false |} ts with
  | ROk l => OOk (assemble l)
  | RSyntax n => let '(l, c) := error_pos pts n in OSyntax l c
  | ROther => OOther
  | ROutOfFuel => OOutOfFuel
  end.

Definition parse (ud : N -> bool) (prs : str -> option N) (hex : bool) (text : list N) : outcome :=
  match lex ud text with
  | Some raw => parse_tokens prs hex (pfilter raw)
  | None => OOutOfFuel
  end.
