(* C08 — model of dbc/writer.go.

   The writer is a list of [piece]s: every Printf of writer.go becomes the tokens it prints and
   the blanks between them, in order.  [render] concatenates them: that is the text (compared
   byte for byte with dbc.Write on every check run); [toks_of] forgets the blanks: that is the
   token stream the round-trip theorems feed to the parser model.

   Floats: strconv.FormatFloat(x, 'f', -1, 64) is not modelled; [fmt : N -> str] is the oracle
   (bits -> text). *)
From Coq Require Import NArith ZArith List Bool.
From Acme.C08 Require Import DbcAst Chars DbcLex.
Import ListNotations.
Local Open Scope N_scope.

Inductive piece :=
| Sp (s : str)                    (* blanks *)
| Tk (k : tkind) (v : str).       (* a token with its value; a string is printed between quotes *)

Definition piece_text (p : piece) : str :=
  match p with
  | Sp s => s
  | Tk KString v => ch_quote :: v ++ [ch_quote]
  | Tk _ v => v
  end.

Definition render (ps : list piece) : str := flat_map piece_text ps.

Definition toks_of (ps : list piece) : list (tkind * str) :=
  flat_map (fun p => match p with Tk k v => [(k, v)] | Sp _ => [] end) ps.

(* ---- number formatting ---- *)
Fixpoint digits_fuel (fuel : nat) (n : N) (acc : list N) : list N :=
  match fuel with
  | O => acc
  | S f =>
    let acc' := (48 + n mod 10) :: acc in
    if n / 10 =? 0 then acc' else digits_fuel f (n / 10) acc'
  end.

(* strconv.FormatUint(v, 10) *)
Definition format_uint (n : N) : str := digits_fuel (S (N.to_nat (N.size n))) n [].

(* strconv.FormatInt(v, 10) *)
Definition format_int (z : Z) : str :=
  match z with
  | Zneg p => ch_minus :: format_uint (Npos p)
  | _ => format_uint (Z.to_N z)
  end.

Definition hex_digit (d : N) : N := if d <? 10 then 48 + d else 87 + d.

Fixpoint hex_digits_fuel (fuel : nat) (n : N) (acc : list N) : list N :=
  match fuel with
  | O => acc
  | S f =>
    let acc' := hex_digit (n mod 16) :: acc in
    if n / 16 =? 0 then acc' else hex_digits_fuel f (n / 16) acc'
  end.

(* writer.formatHexInt *)
Definition format_hex (hex : bool) (n : N) : str :=
  if hex then ch_0 :: ch_x :: hex_digits_fuel (S (N.to_nat (N.size n))) n [] else format_uint n.

(* ---- pieces ---- *)
Definition sp : piece := Sp [ch_sp].
Definition nl : piece := Sp [ch_nl].
Definition kw (s : str) : piece := Tk KKeyword s.
Definition pu (c : N) : piece := Tk KPunct [c].
Definition ident (s : str) : piece := Tk KIdent s.
Definition num (s : str) : piece := Tk KNumber s.
Definition unum (n : N) : piece := Tk KNumber (format_uint n).
Definition qs (s : str) : piece := Tk KString s.

(* a bare word whose token kind is whatever the scanner makes of it (NS_ symbols) *)
Definition word (w : str) : piece :=
  Tk (match w with c :: r => classify_text no_ud c r | [] => KIdent end) w.

Section WithOracle.
Variable fmt : N -> str.
Variable hex : bool.

Definition fl (bits : N) : piece := Tk KNumber (fmt bits).

(* writeSlice: the entries, then one more newline if there is at least one *)
Definition w_slice {A} (f : A -> list piece) (l : list A) : list piece :=
  match l with
  | [] => []
  | _ => flat_map f l ++ [nl]
  end.

Definition w_version (v : str) : list piece := [kw kw_VERSION; sp; qs v; nl; nl].

Definition w_new_symbols (l : list str) : list piece :=
  [kw kw_NS; pu ch_colon; nl] ++ flat_map (fun s => [Sp [ch_tab]; word s; nl]) l ++ [nl].

Definition w_bit_timing (b : bit_timing) : list piece :=
  [kw kw_BS; pu ch_colon] ++
  (if (bt_baud b =? 0) && (bt_reg1 b =? 0) && (bt_reg2 b =? 0) then [nl]
   else [unum (bt_baud b); sp; pu ch_colon; sp; unum (bt_reg1 b); pu ch_comma; sp; unum (bt_reg2 b); nl])
  ++ [nl].

Definition w_nodes (l : list str) : list piece :=
  [kw kw_BU; pu ch_colon] ++ flat_map (fun n => [sp; ident n]) l ++ [nl; nl].

Definition w_value_desc (d : value_desc) : list piece := [sp; unum (vd_id d); sp; qs (vd_name d)].

Definition w_value_table (t : value_table) : list piece :=
  [kw kw_VAL_TABLE; sp; ident (vt_name t)] ++ flat_map w_value_desc (vt_values t) ++ [pu ch_semi; nl].

Definition w_byte_order (b : byte_order) : piece :=
  match b with BigEndian => num [48] | LittleEndian => num [49] end.
Definition w_sign (v : value_type) : piece :=
  match v with Unsigned => pu ch_plus | Signed => pu ch_minus end.

Definition w_mux (s : signal) : list piece :=
  match sg_mux s, sg_multiplexor s with
  | Some n, true => [sp; Tk KMux (ch_m :: format_uint n ++ [ch_M])]
  | Some n, false => [sp; Tk KMux (ch_m :: format_uint n)]
  | None, true => [sp; Tk KMux [ch_M]]
  | None, false => []
  end.

(* names separated by "," : " a, b, c" *)
Definition w_comma_names (l : list str) : list piece :=
  match l with
  | [] => []
  | x :: r => [sp; ident x] ++ flat_map (fun n => [pu ch_comma; sp; ident n]) r
  end.

Definition w_signal (s : signal) : list piece :=
  [sp; kw kw_SG; sp; ident (sg_name s)] ++ w_mux s ++
  [sp; pu ch_colon; sp; unum (sg_start s); pu ch_pipe; unum (sg_size s); pu ch_at;
   w_byte_order (sg_order s); w_sign (sg_vtype s);
   sp; pu ch_lparen; fl (sg_factor s); pu ch_comma; fl (sg_offset s); pu ch_rparen;
   sp; pu ch_lbrack; fl (sg_min s); pu ch_pipe; fl (sg_max s); pu ch_rbrack;
   sp; qs (sg_unit s)] ++ w_comma_names (sg_receivers s) ++ [nl].

Definition w_message (m : message) : list piece :=
  [kw kw_BO; sp; unum (ms_id m); sp; ident (ms_name m); sp; pu ch_colon; sp; unum (ms_size m); sp;
   ident (ms_tx m); nl] ++ flat_map w_signal (ms_signals m) ++ [nl].

Definition w_msg_transmitter (t : msg_transmitter) : list piece :=
  [kw kw_BO_TX_BU; sp; unum (tx_id t); sp; pu ch_colon] ++ flat_map (fun n => [sp; ident n]) (tx_names t)
  ++ [pu ch_semi; nl].

Definition w_ev_type (t : ev_type) : piece :=
  match t with EvInt => num [48] | EvFloat => num [49] | EvString => num [50] end.

Definition w_env_var (e : env_var) : list piece :=
  [kw kw_EV; sp; ident (ev_name e); sp; pu ch_colon; sp; w_ev_type (ev_ty e);
   sp; pu ch_lbrack; fl (ev_min e); pu ch_pipe; fl (ev_max e); pu ch_rbrack; sp;
   qs (ev_unit e); sp; fl (ev_init e); sp; unum (ev_id e); sp] ++
  (match nth_error access_names (N.to_nat (ev_access e)) with Some a => [ident a] | None => [] end) ++
  w_comma_names (ev_nodes e) ++ [pu ch_semi; nl].

Definition w_env_var_data (d : env_var_data) : list piece :=
  [kw kw_ENVVAR_DATA; sp; ident (ed_name d); sp; pu ch_colon; sp; unum (ed_size d); sp; pu ch_semi; nl].

Definition w_signal_type (s : signal_type) : list piece :=
  [kw kw_SGTYPE; sp; ident (st_name s); sp; pu ch_colon; sp; unum (st_size s); pu ch_at;
   w_byte_order (st_order s); sp; w_sign (st_vtype s);
   sp; pu ch_lparen; fl (st_factor s); pu ch_comma; fl (st_offset s); pu ch_rparen;
   sp; pu ch_lbrack; fl (st_min s); pu ch_pipe; fl (st_max s); pu ch_rbrack;
   sp; qs (st_unit s); sp; fl (st_default s); sp; pu ch_comma; sp; ident (st_table s); pu ch_semi; nl].

Definition w_obj_ref (r : obj_ref) : list piece :=
  match r with
  | ORGeneral => []
  | ORNode n => [kw kw_BU; sp; ident n; sp]
  | ORMessage id => [kw kw_BO; sp; unum id; sp]
  | ORSignal id n => [kw kw_SG; sp; unum id; sp; ident n; sp]
  | OREnvVar n => [kw kw_EV; sp; ident n; sp]
  end.

Definition w_comment (c : comment) : list piece :=
  [kw kw_CM; sp] ++ w_obj_ref (cm_ref c) ++ [qs (cm_text c); pu ch_semi; nl].

Definition w_attr_kind (k : attr_kind) : list piece :=
  match k with
  | AKGeneral => []
  | AKNode => [kw kw_BU; sp]
  | AKMessage => [kw kw_BO; sp]
  | AKSignal => [kw kw_SG; sp]
  | AKEnvVar => [kw kw_EV; sp]
  end.

Definition w_enum_values (l : list str) : list piece :=
  match l with
  | [] => []
  | x :: r => [sp; qs x] ++ flat_map (fun v => [pu ch_comma; sp; qs v]) r
  end.

Definition w_attr_type (t : attr_type) : list piece :=
  match t with
  | ATInt mn mx => [kw kw_INT; sp; num (format_int mn); sp; num (format_int mx)]
  | ATHex mn mx => [kw kw_HEX; sp; num (format_hex hex mn); sp; num (format_hex hex mx)]
  | ATFloat mn mx => [kw kw_FLOAT; sp; fl mn; sp; fl mx]
  | ATString => [kw kw_STRING]
  | ATEnum l => kw kw_ENUM :: w_enum_values l
  end.

Definition w_attribute (a : attribute) : list piece :=
  [kw kw_BA_DEF; sp] ++ w_attr_kind (ad_kind a) ++ [qs (ad_name a); sp] ++ w_attr_type (ad_type a)
  ++ [pu ch_semi; nl].

Definition w_attr_val (v : attr_val) : piece :=
  match v with
  | AVInt z => num (format_int z)
  | AVHex n => num (format_hex hex n)
  | AVFloat b => fl b
  | AVString s => qs s
  end.

Definition w_attr_default (d : attr_default) : list piece :=
  [kw kw_BA_DEF_DEF; sp; qs (af_name d); sp; w_attr_val (af_value d); pu ch_semi; nl].

Definition w_attr_value (v : attr_value) : list piece :=
  [kw kw_BA; sp; qs (av_name v); sp] ++ w_obj_ref (av_ref v) ++ [w_attr_val (av_value v); pu ch_semi; nl].

Definition w_enc_ref (r : enc_ref) : list piece :=
  match r with
  | ERSignal id n => [unum id; sp; ident n]
  | EREnvVar n => [ident n]
  end.

Definition w_value_encoding (v : value_encoding) : list piece :=
  [kw kw_VAL; sp] ++ w_enc_ref (ve_ref v) ++ flat_map w_value_desc (ve_values v) ++ [pu ch_semi; nl].

Definition w_signal_type_ref (r : signal_type_ref) : list piece :=
  [kw kw_SGTYPE; sp; unum (sr_id r); sp; ident (sr_signal r); sp; pu ch_colon; sp; ident (sr_type r);
   pu ch_semi; nl].

Definition w_signal_group (g : signal_group) : list piece :=
  [kw kw_SIG_GROUP; sp; unum (sgp_id g); sp; ident (sgp_name g); sp; unum (sgp_rep g); sp; pu ch_colon]
  ++ flat_map (fun n => [sp; ident n]) (sgp_signals g) ++ [pu ch_semi; nl].

Definition w_ext_type (t : ext_value_type) : piece :=
  match t with XInteger => num [48] | XFloat => num [49] | XDouble => num [50] end.

Definition w_sig_ext_value_type (v : sig_ext_value_type) : list piece :=
  [kw kw_SIG_VALTYPE; sp; unum (sv_id v); sp; ident (sv_signal v); sp; w_ext_type (sv_type v); pu ch_semi; nl].

Definition w_range (r : N * N) : piece :=
  Tk KRange (format_uint (fst r) ++ ch_minus :: format_uint (snd r)).

Definition w_ranges (l : list (N * N)) : list piece :=
  match l with
  | [] => []
  | x :: r => [sp; w_range x] ++ flat_map (fun y => [pu ch_comma; sp; w_range y]) r
  end.

Definition w_ext_mux (x : ext_mux) : list piece :=
  [kw kw_SG_MUL_VAL; sp; unum (xm_id x); sp; ident (xm_muxed x); sp; ident (xm_muxor x)]
  ++ w_ranges (xm_ranges x) ++ [pu ch_semi; nl].

Definition underscore : str := [ch_under].

(* writer.writeFile (writer.go:81-119) *)
Definition w_file (f : file) : list piece :=
  w_version (match f_version f with [] => underscore | v => v end) ++
  w_new_symbols (match f_ns f with Some l => l | None => new_symbols_values end) ++
  w_bit_timing (match f_bs f with Some b => b | None => {| bt_baud := 0; bt_reg1 := 0; bt_reg2 := 0 |} end) ++
  w_nodes (match f_bu f with Some l => l | None => [] end) ++
  w_slice w_value_table (f_vts f) ++
  w_slice w_message (f_msgs f) ++
  w_slice w_msg_transmitter (f_txs f) ++
  w_slice w_env_var (f_evs f) ++
  w_slice w_env_var_data (f_eds f) ++
  w_slice w_signal_type (f_sts f) ++
  w_slice w_comment (f_cms f) ++
  w_slice w_attribute (f_ads f) ++
  w_slice w_attr_default (f_afs f) ++
  w_slice w_attr_value (f_avs f) ++
  w_slice w_value_encoding (f_ves f) ++
  w_slice w_signal_type_ref (f_srs f) ++
  w_slice w_signal_group (f_sgs f) ++
  w_slice w_sig_ext_value_type (f_svs f) ++
  w_slice w_ext_mux (f_xms f).

Definition write (f : file) : str := render (w_file f).

End WithOracle.
