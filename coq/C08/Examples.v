(* C08 — the hypotheses of the round-trip theorems are satisfiable by non-trivial values. *)
From Coq Require Import Arith NArith ZArith List Bool Lia String.
From Acme.C08 Require Import DbcAst Chars DbcLex DbcParse DbcWrite Expr ProofsFormat ProofsSections ProofsFile.
Import ListNotations.
Local Open Scope string_scope.
Local Open Scope N_scope.

(* an oracle pair satisfying the two assumed laws: print the bit pattern in decimal *)
Definition toy_fmt (b : N) : str := format_uint b.
Definition toy_prs (v : str) : option N :=
  if all_digits v then (if fin (dec_value v 0) then Some (dec_value v 0) else None) else None.

Lemma toy_oracle_ok : oracle_ok toy_fmt toy_prs.
Proof.
  split; intros b Hb; unfold toy_fmt, toy_prs.
  - destruct (format_uint_spec b) as [Hne [Hd Hv]]. rewrite (all_digits_true _ Hne Hd), Hv, Hb. reflexivity.
  - apply format_uint_plain.
Qed.

Lemma toy_prs_finite : forall v b, not_special v = true -> toy_prs v = Some b -> fin b = true.
Proof.
  intros v b _ H. unfold toy_prs in H. destruct (all_digits v); [|discriminate].
  destruct (fin (dec_value v 0)) eqn:E; [|discriminate]. inversion H; subst. exact E.
Qed.

(* a document over several sections: multiplexed signals, an extended mux, comments, attributes
   of every value form, a value table *)
Definition sample_file : file :=
  let s (name : string) (m : option N) (muxor : bool) : signal :=
    {| sg_name := s2l name; sg_multiplexor := muxor; sg_mux := m; sg_start := 7; sg_size := 8;
       sg_order := BigEndian; sg_vtype := Signed; sg_factor := 4607182418800017408; sg_offset := 0;
       sg_min := 0; sg_max := 4652007308841189376; sg_unit := s2l "km/h";
       sg_receivers := [s2l "Vector__XXX"; s2l "ecu-2"] |} in
  {| f_version := s2l "1.0"; f_ns := Some [s2l "CM_"; s2l "FILTER"];
     f_bs := Some {| bt_baud := 500; bt_reg1 := 1; bt_reg2 := 4294967295 |};
     f_bu := Some [s2l "ecu-2"; s2l "m"; s2l "M1"];
     f_vts := [ {| vt_name := s2l "vt"; vt_values := [ {| vd_id := 0; vd_name := s2l "off" |} ] |} ];
     f_msgs := [ {| ms_id := 2147483648; ms_name := s2l "msg"; ms_size := 8; ms_tx := s2l "ecu-2";
                    ms_signals := [ s "sel" None true; s "a" (Some 3) false; s "b" (Some 4294967295) true ] |} ];
     f_txs := [ {| tx_id := 1; tx_names := [s2l "x"] |} ];
     f_evs := []; f_eds := []; f_sts := [];
     f_cms := [ {| cm_ref := ORSignal 1 (s2l "a"); cm_text := s2l "two
lines" |} ];
     f_ads := [ {| ad_kind := AKMessage; ad_name := s2l "GenMsgCycleTime"; ad_type := ATInt (-5) 3600000 |};
                {| ad_kind := AKGeneral; ad_name := s2l "e"; ad_type := ATEnum [] |} ];
     f_afs := [ {| af_name := s2l "GenMsgCycleTime"; af_value := AVInt (-9223372036854775808) |} ];
     f_avs := [ {| av_name := s2l "h"; av_ref := ORMessage 1; av_value := AVHex 255 |};
                {| av_name := s2l "f"; av_ref := ORGeneral; av_value := AVFloat 4602678819172646912 |} ];
     f_ves := []; f_srs := []; f_sgs := []; f_svs := [];
     f_xms := [ {| xm_id := 1; xm_muxed := s2l "a"; xm_muxor := s2l "sel"; xm_ranges := [(0, 0); (2, 4294967295)] |} ] |}.

Lemma sample_file_wf : wf_file no_ud sample_file.
Proof.
  unfold wf_file, wf_header, sample_file. split.
  - repeat split; try reflexivity; try (cbv; reflexivity); repeat constructor.
  - unfold entries_of. cbn [f_vts f_msgs f_txs f_evs f_eds f_sts f_cms f_ads f_afs f_avs f_ves f_srs f_sgs f_svs f_xms map app].
    repeat constructor; try reflexivity; try (cbv; reflexivity); try discriminate; try (unfold u32_ok, int64_ok; cbn; lia).
Qed.

(* the round trip of the sample, by evaluation of the model (independent of the proofs) *)
Example sample_round_trip :
  parse no_ud toy_prs false (write toy_fmt false sample_file) = OOk (norm_file toy_fmt false sample_file)
  /\ parse no_ud toy_prs true (write toy_fmt true sample_file) = OOk (norm_file toy_fmt true sample_file).
Proof. split; vm_compute; reflexivity. Qed.

(* ---- exact equality after a round trip fails in three ways (what [norm_file] identifies) ---- *)
(* a second oracle: like the toy one, and "5.0" is the float with bit pattern 5 *)
Definition toy_prs2 (v : str) : option N := if str_eqb v (s2l "5.0") then Some 5 else toy_prs v.

Definition parse_text (s : string) : outcome := parse no_ud toy_prs2 false (s2l s).
Definition reparse (o : outcome) : outcome :=
  match o with OOk f => parse no_ud toy_prs2 false (write toy_fmt false f) | e => e end.

Definition txt_empty_version : string := "VERSION """" NS_ : BS_: BU_:".
Definition txt_no_header : string := "VERSION ""v""".
Definition txt_float_literal : string := "VERSION ""v"" NS_ : BS_: BU_: BA_ ""x"" 5.0;".
Definition underscore_str : str := s2l "_".

(* 1. an empty version comes back as "_" (writer.go:82-85) *)
Example version_exact_refuted :
  exists f f', parse_text txt_empty_version = OOk f /\ reparse (OOk f) = OOk f' /\
               f_version f = [] /\ f_version f' = underscore_str /\ f' <> f.
Proof.
  eexists; eexists. split; [vm_compute; reflexivity|]. split; [vm_compute; reflexivity|].
  split; [reflexivity|]. split; [reflexivity|]. discriminate.
Qed.

(* 2. absent header sections come back filled with the writer's defaults *)
Example header_exact_refuted :
  exists f f', parse_text txt_no_header = OOk f /\ reparse (OOk f) = OOk f' /\
               f_ns f = None /\ f_ns f' = Some new_symbols_values /\ f_bs f = None /\ f_bs f' <> None /\ f_bu f = None /\ f_bu f' = Some [].
Proof.
  eexists; eexists. split; [vm_compute; reflexivity|]. split; [vm_compute; reflexivity|].
  repeat split; try reflexivity. discriminate.
Qed.

(* 3. a FLOAT literal whose decimal text has no fraction comes back typed INT *)
Example float_retyped_exact_refuted :
  exists f f', parse_text txt_float_literal = OOk f /\ reparse (OOk f) = OOk f' /\
               map av_value (f_avs f) = [AVFloat 5] /\ map av_value (f_avs f') = [AVInt 5%Z].
Proof.
  eexists; eexists. split; [vm_compute; reflexivity|]. split; [vm_compute; reflexivity|]. split; reflexivity.
Qed.

(* ---- documents OUTSIDE [wf_file]: what the property's "identifiers and strings expressible in the DBC
   grammar" leaves out.  For each exclusion a smallest document, and by evaluation of the model: the text
   [write] makes of it is NOT read back as (the normal form of) the document - rejected, or read as another
   document.  So each condition of [wf_file] is needed by [parse_write], none is a convenience. ---- *)
Definition doc_of (ns : option (list str)) (bu : list str) (msgs : list message) (evs : list env_var)
                  (cms : list comment) (ads : list attribute) (xms : list ext_mux) : file :=
  {| f_version := s2l "v"; f_ns := ns; f_bs := Some {| bt_baud := 0; bt_reg1 := 0; bt_reg2 := 0 |};
     f_bu := Some bu; f_vts := []; f_msgs := msgs; f_txs := []; f_evs := evs; f_eds := []; f_sts := [];
     f_cms := cms; f_ads := ads; f_afs := []; f_avs := []; f_ves := []; f_srs := []; f_sgs := []; f_svs := [];
     f_xms := xms |}.
Definition round_trips (f : file) : Prop :=
  parse no_ud toy_prs false (write toy_fmt false f) = OOk (norm_file toy_fmt false f).

Definition sig_with (name : string) (rcv : list str) : signal :=
  {| sg_name := s2l name; sg_multiplexor := false; sg_mux := None; sg_start := 0; sg_size := 8;
     sg_order := LittleEndian; sg_vtype := Unsigned; sg_factor := 1; sg_offset := 0; sg_min := 0; sg_max := 0;
     sg_unit := []; sg_receivers := rcv |}.
Definition msg_with (s : signal) : message :=
  {| ms_id := 1; ms_name := s2l "msg"; ms_size := 8; ms_tx := s2l "A"; ms_signals := [s] |}.

(* the same shape INSIDE wf_file does round-trip (so the failures below are due to the one excluded feature) *)
Example inside_round_trips :
  round_trips (doc_of (Some []) [s2l "A"; s2l "x_"] [msg_with (sig_with "s" [s2l "A"])] []
                      [ {| cm_ref := ORGeneral; cm_text := s2l "t" |} ]
                      [ {| ad_kind := AKGeneral; ad_name := s2l "a_b"; ad_type := ATString |} ]
                      [ {| xm_id := 1; xm_muxed := s2l "s"; xm_muxor := s2l "s"; xm_ranges := [(0, 1)] |} ]).
Proof. vm_compute. reflexivity. Qed.

(* 1. an identifier that starts with '_' (scanner.go: an identifier starts with a letter) *)
Example ident_leading_underscore_refuted : ~ round_trips (doc_of (Some []) [s2l "_x"] [] [] [] [] []).
Proof. vm_compute. intro H. discriminate H. Qed.
(* 2. an identifier shaped like a multiplexer indicator ("m1", "M", "m2M": token kind mux, not ident) *)
Example ident_mux_shaped_refuted :
  ~ round_trips (doc_of (Some []) [s2l "m1"] [] [] [] [] []) /\ ~ round_trips (doc_of (Some []) [s2l "M"] [] [] [] [] []).
Proof. split; vm_compute; intro H; discriminate H. Qed.
(* 3. an identifier that is a keyword *)
Example ident_keyword_refuted : ~ round_trips (doc_of (Some []) [s2l "BO_"] [] [] [] [] []).
Proof. vm_compute. intro H. discriminate H. Qed.
(* 4. empty lists where the grammar wants at least one element: receivers of a signal, access nodes of an
      environment variable, ranges of an extended multiplexing entry *)
Example empty_receivers_refuted : ~ round_trips (doc_of (Some []) [s2l "A"] [msg_with (sig_with "s" [])] [] [] [] []).
Proof. vm_compute. intro H. discriminate H. Qed.
Example empty_access_nodes_refuted :
  ~ round_trips (doc_of (Some []) [s2l "A"] []
       [ {| ev_name := s2l "e"; ev_ty := EvInt; ev_min := 0; ev_max := 0; ev_unit := []; ev_init := 0; ev_id := 0;
            ev_access := 0; ev_nodes := [] |} ] [] [] []).
Proof. vm_compute. intro H. discriminate H. Qed.
Example empty_ranges_refuted :
  ~ round_trips (doc_of (Some []) [s2l "A"] [] [] [] []
       [ {| xm_id := 1; xm_muxed := s2l "a"; xm_muxor := s2l "b"; xm_ranges := [] |} ]).
Proof. vm_compute. intro H. discriminate H. Qed.
(* 5. an NS_ symbol that is not in the parser's table *)
Example foreign_new_symbol_refuted : ~ round_trips (doc_of (Some [s2l "FOO_"]) [s2l "A"] [] [] [] [] []).
Proof. vm_compute. intro H. discriminate H. Qed.
(* 6. a blank inside an attribute name (parser.go rejects it in BA_DEF_) *)
Example blank_in_attribute_name_refuted :
  ~ round_trips (doc_of (Some []) [s2l "A"] [] [] [] [ {| ad_kind := AKGeneral; ad_name := s2l "a b"; ad_type := ATString |} ] []).
Proof. vm_compute. intro H. discriminate H. Qed.
(* 7. a string holding a quote or a NUL character (the scanner's end-of-input character) *)
Example quote_or_nul_in_string_refuted :
  ~ round_trips (doc_of (Some []) [s2l "A"] [] [] [ {| cm_ref := ORGeneral; cm_text := [97; 34; 98] |} ] [] []) /\
  ~ round_trips (doc_of (Some []) [s2l "A"] [] [] [ {| cm_ref := ORGeneral; cm_text := [97; 0; 98] |} ] [] []).
Proof. split; vm_compute; intro H; discriminate H. Qed.

(* the same, with the documents named (for coq/Properties/C08.v) *)
Definition doc_inside : file :=
  doc_of (Some []) [s2l "A"; s2l "x_"] [msg_with (sig_with "s" [s2l "A"])] []
         [ {| cm_ref := ORGeneral; cm_text := s2l "t" |} ]
         [ {| ad_kind := AKGeneral; ad_name := s2l "a_b"; ad_type := ATString |} ]
         [ {| xm_id := 1; xm_muxed := s2l "s"; xm_muxor := s2l "s"; xm_ranges := [(0, 1)] |} ].
Definition doc_ident_underscore : file := doc_of (Some []) [s2l "_x"] [] [] [] [] [].
Definition doc_ident_m1 : file := doc_of (Some []) [s2l "m1"] [] [] [] [] [].
Definition doc_ident_M : file := doc_of (Some []) [s2l "M"] [] [] [] [] [].
Definition doc_ident_keyword : file := doc_of (Some []) [s2l "BO_"] [] [] [] [] [].
Definition doc_no_receivers : file := doc_of (Some []) [s2l "A"] [msg_with (sig_with "s" [])] [] [] [] [].
Definition doc_no_access_nodes : file :=
  doc_of (Some []) [s2l "A"] []
       [ {| ev_name := s2l "e"; ev_ty := EvInt; ev_min := 0; ev_max := 0; ev_unit := []; ev_init := 0; ev_id := 0;
            ev_access := 0; ev_nodes := [] |} ] [] [] [].
Definition doc_no_ranges : file :=
  doc_of (Some []) [s2l "A"] [] [] [] [] [ {| xm_id := 1; xm_muxed := s2l "a"; xm_muxor := s2l "b"; xm_ranges := [] |} ].
Definition doc_foreign_symbol : file := doc_of (Some [s2l "FOO_"]) [s2l "A"] [] [] [] [] [].
Definition doc_blank_attr_name : file :=
  doc_of (Some []) [s2l "A"] [] [] [] [ {| ad_kind := AKGeneral; ad_name := s2l "a b"; ad_type := ATString |} ] [].
Definition doc_quote_in_string : file := doc_of (Some []) [s2l "A"] [] [] [ {| cm_ref := ORGeneral; cm_text := [97; 34; 98] |} ] [] [].
Definition doc_nul_in_string : file := doc_of (Some []) [s2l "A"] [] [] [ {| cm_ref := ORGeneral; cm_text := [97; 0; 98] |} ] [] [].

Example wf_file_exclusions_refuted :
  round_trips doc_inside /\
  ~ round_trips doc_ident_underscore /\ ~ round_trips doc_ident_m1 /\ ~ round_trips doc_ident_M /\
  ~ round_trips doc_ident_keyword /\ ~ round_trips doc_no_receivers /\ ~ round_trips doc_no_access_nodes /\
  ~ round_trips doc_no_ranges /\ ~ round_trips doc_foreign_symbol /\ ~ round_trips doc_blank_attr_name /\
  ~ round_trips doc_quote_in_string /\ ~ round_trips doc_nul_in_string.
Proof.
  split; [vm_compute; reflexivity|].
  repeat split; vm_compute; intro H; discriminate H.
Qed.

Definition neg_zero_bits : N := 9223372036854775808.
Definition two_pow_60_bits : N := 4877398396442247168.

(* 8. floats.  A FLOAT attribute value whose text has no fraction is read back as INT ([float_retyped_exact_refuted]);
      two special cases of that re-typing, with an oracle that prints like strconv on the two values involved:
      the negative zero (bit pattern 2^63) is printed "-0" and comes back as the INT 0 - equal as numbers
      (IEEE: -0.0 == 0.0), the sign of the zero is gone;  the double 2^60 is printed by its SHORTEST decimal
      1152921504606847000 and comes back as that INT - the same double when converted back, another integer. *)
Definition strconv_like_fmt (b : N) : str :=
  if b =? 9223372036854775808 then s2l "-0"                         (* -0.0 *)
  else if b =? 4877398396442247168 then s2l "1152921504606847000"    (* 2^60 *)
  else toy_fmt b.
Definition with_value (v : attr_val) : file :=
  {| f_version := s2l "v"; f_ns := Some []; f_bs := Some {| bt_baud := 0; bt_reg1 := 0; bt_reg2 := 0 |};
     f_bu := Some []; f_vts := []; f_msgs := []; f_txs := []; f_evs := []; f_eds := []; f_sts := [];
     f_cms := []; f_ads := []; f_afs := []; f_avs := [ {| av_name := s2l "x"; av_ref := ORGeneral; av_value := v |} ];
     f_ves := []; f_srs := []; f_sgs := []; f_svs := []; f_xms := [] |}.
Example negative_zero_and_large_float_retyped :
  (exists f', parse no_ud toy_prs false (write strconv_like_fmt false (with_value (AVFloat neg_zero_bits))) = OOk f'
              /\ map av_value (f_avs f') = [AVInt 0%Z]) /\
  (exists f', parse no_ud toy_prs false (write strconv_like_fmt false (with_value (AVFloat two_pow_60_bits))) = OOk f'
              /\ map av_value (f_avs f') = [AVInt 1152921504606847000%Z] /\ (1152921504606847000 <> 2 ^ 60)%Z).
Proof.
  split.
  - eexists. split; [vm_compute; reflexivity|reflexivity].
  - eexists. split; [vm_compute; reflexivity|]. split; [reflexivity|]. vm_compute. discriminate.
Qed.
