(* C08 — the hypotheses of the round-trip theorems are satisfiable by non-trivial values. *)
From Coq Require Import Arith NArith ZArith List Bool Lia String.
From Acme.C08 Require Import DbcAst Chars DbcLex DbcParse DbcWrite Expr ProofsFormat ProofsSections ProofsFile.
Import ListNotations.
Local Open Scope string_scope.
Local Open Scope N_scope.

(* an oracle pair satisfying the two assumed laws: print the bit pattern in decimal *)
Definition toy_fmt (b : N) : str := format_uint b.
Definition toy_prs (v : str) : option N :=
  if all_digits v then (if fin (dec_value v 0) then Some (dec_value v 0) else None) else None.

Lemma toy_oracle_ok : oracle_ok toy_fmt toy_prs.
Proof.
  split; intros b Hb; unfold toy_fmt, toy_prs.
  - destruct (format_uint_spec b) as [Hne [Hd Hv]]. rewrite (all_digits_true _ Hne Hd), Hv, Hb. reflexivity.
  - apply format_uint_plain.
Qed.

Lemma toy_prs_finite : forall v b, not_special v = true -> toy_prs v = Some b -> fin b = true.
Proof.
  intros v b _ H. unfold toy_prs in H. destruct (all_digits v); [|discriminate].
  destruct (fin (dec_value v 0)) eqn:E; [|discriminate]. inversion H; subst. exact E.
Qed.

(* a document over several sections: multiplexed signals, an extended mux, comments, attributes
   of every value form, a value table *)
Definition sample_file : file :=
  let s (name : string) (m : option N) (muxor : bool) : signal :=
    {| sg_name := s2l name; sg_multiplexor := muxor; sg_mux := m; sg_start := 7; sg_size := 8;
       sg_order := BigEndian; sg_vtype := Signed; sg_factor := 4607182418800017408; sg_offset := 0;
       sg_min := 0; sg_max := 4652007308841189376; sg_unit := s2l "km/h";
       sg_receivers := [s2l "Vector__XXX"; s2l "ecu-2"] |} in
  {| f_version := s2l "1.0"; f_ns := Some [s2l "CM_"; s2l "FILTER"];
     f_bs := Some {| bt_baud := 500; bt_reg1 := 1; bt_reg2 := 4294967295 |};
     f_bu := Some [s2l "ecu-2"; s2l "m"; s2l "M1"];
     f_vts := [ {| vt_name := s2l "vt"; vt_values := [ {| vd_id := 0; vd_name := s2l "off" |} ] |} ];
     f_msgs := [ {| ms_id := 2147483648; ms_name := s2l "msg"; ms_size := 8; ms_tx := s2l "ecu-2";
                    ms_signals := [ s "sel" None true; s "a" (Some 3) false; s "b" (Some 4294967295) true ] |} ];
     f_txs := [ {| tx_id := 1; tx_names := [s2l "x"] |} ];
     f_evs := []; f_eds := []; f_sts := [];
     f_cms := [ {| cm_ref := ORSignal 1 (s2l "a"); cm_text := s2l "two
lines" |} ];
     f_ads := [ {| ad_kind := AKMessage; ad_name := s2l "GenMsgCycleTime"; ad_type := ATInt (-5) 3600000 |};
                {| ad_kind := AKGeneral; ad_name := s2l "e"; ad_type := ATEnum [] |} ];
     f_afs := [ {| af_name := s2l "GenMsgCycleTime"; af_value := AVInt (-9223372036854775808) |} ];
     f_avs := [ {| av_name := s2l "h"; av_ref := ORMessage 1; av_value := AVHex 255 |};
                {| av_name := s2l "f"; av_ref := ORGeneral; av_value := AVFloat 4602678819172646912 |} ];
     f_ves := []; f_srs := []; f_sgs := []; f_svs := [];
     f_xms := [ {| xm_id := 1; xm_muxed := s2l "a"; xm_muxor := s2l "sel"; xm_ranges := [(0, 0); (2, 4294967295)] |} ] |}.

Lemma sample_file_wf : wf_file no_ud sample_file.
Proof.
  unfold wf_file, wf_header, sample_file. split.
  - repeat split; try reflexivity; try (cbv; reflexivity); repeat constructor.
  - unfold entries_of. cbn [f_vts f_msgs f_txs f_evs f_eds f_sts f_cms f_ads f_afs f_avs f_ves f_srs f_sgs f_svs f_xms map app].
    repeat constructor; try reflexivity; try (cbv; reflexivity); try discriminate; try (unfold u32_ok, int64_ok; cbn; lia).
Qed.

(* the round trip of the sample, by evaluation of the model (independent of the proofs) *)
Example sample_round_trip :
  parse no_ud toy_prs false (write toy_fmt false sample_file) = OOk (norm_file toy_fmt false sample_file)
  /\ parse no_ud toy_prs true (write toy_fmt true sample_file) = OOk (norm_file toy_fmt true sample_file).
Proof. split; vm_compute; reflexivity. Qed.

(* ---- exact equality after a round trip fails in three ways (what [norm_file] identifies) ---- *)
(* a second oracle: like the toy one, and "5.0" is the float with bit pattern 5 *)
Definition toy_prs2 (v : str) : option N := if str_eqb v (s2l "5.0") then Some 5 else toy_prs v.

Definition parse_text (s : string) : outcome := parse no_ud toy_prs2 false (s2l s).
Definition reparse (o : outcome) : outcome :=
  match o with OOk f => parse no_ud toy_prs2 false (write toy_fmt false f) | e => e end.

Definition txt_empty_version : string := "VERSION """" NS_ : BS_: BU_:".
Definition txt_no_header : string := "VERSION ""v""".
Definition txt_float_literal : string := "VERSION ""v"" NS_ : BS_: BU_: BA_ ""x"" 5.0;".
Definition underscore_str : str := s2l "_".

(* 1. an empty version comes back as "_" (writer.go:82-85) *)
Example version_exact_refuted :
  exists f f', parse_text txt_empty_version = OOk f /\ reparse (OOk f) = OOk f' /\
               f_version f = [] /\ f_version f' = underscore_str /\ f' <> f.
Proof.
  eexists; eexists. split; [vm_compute; reflexivity|]. split; [vm_compute; reflexivity|].
  split; [reflexivity|]. split; [reflexivity|]. discriminate.
Qed.

(* 2. absent header sections come back filled with the writer's defaults *)
Example header_exact_refuted :
  exists f f', parse_text txt_no_header = OOk f /\ reparse (OOk f) = OOk f' /\
               f_ns f = None /\ f_ns f' = Some new_symbols_values /\ f_bs f = None /\ f_bs f' <> None /\ f_bu f = None /\ f_bu f' = Some [].
Proof.
  eexists; eexists. split; [vm_compute; reflexivity|]. split; [vm_compute; reflexivity|].
  repeat split; try reflexivity. discriminate.
Qed.

(* 3. a FLOAT literal whose decimal text has no fraction comes back typed INT *)
Example float_retyped_exact_refuted :
  exists f f', parse_text txt_float_literal = OOk f /\ reparse (OOk f) = OOk f' /\
               map av_value (f_avs f) = [AVFloat 5] /\ map av_value (f_avs f') = [AVInt 5%Z].
Proof.
  eexists; eexists. split; [vm_compute; reflexivity|]. split; [vm_compute; reflexivity|]. split; reflexivity.
Qed.
