(* C08 — what "expressible in the DBC grammar" means, token by token, and the condition under
   which the writer's blanks and punctuation delimit a token (used by lex_print_tokens). *)
From Coq Require Import NArith List Bool.
From Acme.C08 Require Import DbcAst Chars DbcLex DbcWrite.
Import ListNotations.
Local Open Scope N_scope.

(* unicode.IsDigit restricted to ASCII is '0'..'9': the only assumption on the parameter [ud] *)
Definition ud_ok (ud : N -> bool) : Prop := forall c, c < 128 -> ud c = false.

(* blanks and punctuation: the characters the writer puts after a token *)
Definition is_term (c : N) : bool := is_space c || is_punct_char c.
Definition hd_term (R : str) : bool := match R with [] => true | t :: _ => is_term t end.

(* ---- words: identifiers, keywords, mux indicators.  [A-Za-z][A-Za-z0-9_-]* (digits as the
   scanner's peek sees them: ASCII and the non-ASCII digits below U+10000, class [up]), classified
   the way scanText classifies them ---- *)
Definition wf_word (up : N -> bool) (k : tkind) (v : str) : bool :=
  match v with
  | c :: w => is_letter c && forallb (is_alnum up) w && tkind_eqb (classify_text up c w) k
  | [] => false
  end.

(* an identifier of the expressible grammar: a word that scanText classifies as an identifier,
   i.e. not a keyword and not of mux-indicator shape *)
Definition expr_ident (up : N -> bool) (v : str) : bool := wf_word up KIdent v.

(* ---- strings: no quote, no NUL (code points, so valid UTF-8 by construction) ---- *)
Definition expr_string (v : str) : bool := forallb (fun c => negb (c =? ch_quote) && negb (c =? 0)) v.

(* attribute names in BA_DEF_ / BA_DEF_DEF_ additionally contain no blank, tab or newline *)
Definition expr_attr_name (v : str) : bool :=
  expr_string v && negb (existsb (fun c => (c =? ch_sp) || (c =? ch_tab) || (c =? ch_nl)) v).

(* ---- number tokens ---- *)
Definition digit_or_dot (c : N) : bool := ascii_digit c || (c =? ch_dot).
Definition ascii_hex (c : N) : bool := is_hex no_ud c.

(* -?digit(digit|.)*  : what FormatUint / FormatInt / FormatFloat 'f' print *)
Definition plain_number (v : str) : bool :=
  match v with
  | c :: r =>
    if c =? ch_minus then
      match r with d :: r' => ascii_digit d && forallb digit_or_dot r' | [] => false end
    else ascii_digit c && forallb digit_or_dot r
  | [] => false
  end.

(* 0x followed by 1..8 hex digits: what formatHexInt prints in hex mode *)
Definition hex_number (v : str) : bool :=
  match v with
  | a :: b :: h :: hs => (a =? ch_0) && (b =? ch_x) && ascii_hex h && forallb ascii_hex hs && Nat.leb (length hs) 7
  | _ => false
  end.

(* digits '-' digits *)
Definition range_number (v : str) : Prop :=
  exists a b, v = a ++ ch_minus :: b /\ a <> [] /\ b <> [] /\
              forallb ascii_digit a = true /\ forallb ascii_digit b = true.

Definition tok_wf (up : N -> bool) (k : tkind) (v : str) : Prop :=
  match k with
  | KIdent | KKeyword | KMux => wf_word up k v = true
  | KNumber => plain_number v = true \/ hex_number v = true
  | KRange => range_number v
  | KString => expr_string v = true
  | KPunct => match v with [c] => is_punct_char c = true | _ => False end
  | _ => False
  end.

(* what may follow a token without being glued to it *)
Definition ok_after (k : tkind) (v : str) (R : str) : bool :=
  match k with
  | KIdent | KKeyword | KMux => match R with [] => true | t :: _ => is_term t && negb (t =? ch_minus) end
  | KNumber => match R with [] => true | t :: R' => is_term t && (negb (t =? ch_minus) || hd_term R') end
  | KRange => hd_term R
  | KString => true
  | KPunct => match v with
              | [c] => if (c =? ch_plus) || (c =? ch_minus) then hd_term R else true
              | _ => false
              end
  | _ => false
  end.

Definition sp_ok (s : str) : Prop := s <> [] /\ forallb is_space s = true.

(* a list of pieces followed by the text [tail] lexes back to its tokens *)
Fixpoint pok (up : N -> bool) (ps : list piece) (tail : str) : Prop :=
  match ps with
  | [] => True
  | Sp s :: r => sp_ok s /\ pok up r tail
  | Tk k v :: r => tok_wf up k v /\ ok_after k v (render r ++ tail) = true /\ pok up r tail
  end.

Lemma pok_app : forall up a b tail, pok up (a ++ b) tail <-> pok up a (render b ++ tail) /\ pok up b tail.
Proof.
  intros up. induction a as [|p a IH]; intros b tail; cbn [app pok].
  - tauto.
  - destruct p as [s|k v].
    + rewrite IH. tauto.
    + rewrite IH. unfold render at 1. rewrite flat_map_app. fold (render a) (render b).
      rewrite <- app_assoc. tauto.
Qed.

(* number-token texts never spell a special value: strconv.ParseFloat returns +-Inf / NaN without
   error only for texts that, after an optional sign, start with a letter (inf, infinity, nan) *)
Definition not_special (v : str) : bool :=
  match v with
  | [] => true
  | c :: r =>
    if (c =? ch_plus) || (c =? ch_minus) then match r with d :: _ => negb (is_letter d) | [] => true end
    else negb (is_letter c)
  end.

(* ---- finite floats: exponent field (bits 52..62) not all ones ---- *)
Definition fin (bits : N) : bool := negb ((bits / 4503599627370496) mod 2048 =? 2047).

(* the laws of strconv the round-trip theorems assume about the two oracles
   (validated Go-against-Go by every generated document of the check) *)
Definition oracle_ok (fmt : N -> str) (prs : str -> option N) : Prop :=
  (forall b, fin b = true -> prs (fmt b) = Some b) /\          (* ParseFloat (FormatFloat x 'f' -1) = x *)
  (forall b, fin b = true -> plain_number (fmt b) = true).      (* 'f' format: -?digits[.digits] *)
