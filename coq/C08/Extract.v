(* Extraction of the executable C08/C09 model (lexer, parser, writer) for the correspondence check.
   ExtrOcamlBasic + ExtrOcamlString only; N / Z / positive stay inductive; no Extract Constant. *)
From Coq Require Import Extraction ExtrOcamlBasic ExtrOcamlString NArith ZArith List.
From Acme.C08 Require Import DbcAst Chars DbcLex DbcParse DbcWrite.
Extraction Language OCaml.
Extraction "extracted/c08_model.ml" lex pfilter parse_tokens parse write w_file render
  keyword_table keyword_index punct_chars new_symbols_values access_names tkind_index.
