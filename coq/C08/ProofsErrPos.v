(* C09 — the token a syntax error is reported at.  [PErr n] is raised with n = number of tokens
   left when the parser rejected, the rejected token being the head of that remaining list.
   Here: n never exceeds the tokens the parser was given, so "the token with n left" exists in
   the stream, every token before it was consumed, and [error_pos] is the start of exactly that
   token (the end-of-input position only when nothing is left). *)
From Coq Require Import Arith NArith List Bool Lia.
From Acme.C08 Require Import DbcAst Chars DbcLex DbcParse ProofsLex ProofsPos ProofsTotal.
Import ListNotations.

Definition ebound {A} (p : list tok -> pres A) : Prop := forall ts n, p ts = PErr n -> (n <= length ts)%nat.

#[export] Hint Resolve p_double_shrinks ns_loop_shrinks value_descs_shrinks p_byte_order_shrinks p_sign_shrinks
  comma_idents_shrinks parse_signal_shrinks p_ev_type_shrinks p_access_shrinks p_obj_ref_kw_shrinks p_attr_name_shrinks
  p_int_shrinks p_hex_shrinks comma_strings_shrinks p_attr_type_shrinks p_attr_val_shrinks p_ext_type_shrinks p_range_shrinks
  comma_ranges_shrinks signals_loop_shrinks : shr.

Create HintDb ebd discriminated.

(* decompose "body = PErr n": successful prefixes give POk facts, the failing step gives a PErr fact *)
Ltac estep H :=
  match type of H with
  | bind ?e _ = PErr _ =>
    let x := fresh "x" in let E := fresh "E" in
    remember e as x eqn:E in H; symmetry in E; destruct x; cbn [bind] in H; [ | | discriminate H ]
  | (let '(_, _) := ?e in _) = PErr _ =>
    let x := fresh "x" in let E := fresh "E" in
    remember e as x eqn:E in H; symmetry in E; destruct x
  | (if ?b then _ else _) = PErr _ =>
    let x := fresh "x" in let E := fresh "C" in
    remember b as x eqn:E in H; clear E; destruct x; try discriminate H
  | match ?y with _ => _ end = PErr _ =>
    let x := fresh "x" in let E := fresh "M" in
    remember y as x eqn:E in H; symmetry in E; destruct x; try discriminate H
  end.

Ltac efacts :=
  repeat match goal with
  | E : ?p ?ts = PErr ?n |- _ =>
    let Hs := fresh "Hb" in
    assert (Hs : ebound p) by (eauto with ebd);
    apply Hs in E; clear Hs
  end.

Ltac estep_any := match goal with E : _ = PErr _ |- _ => estep E end.
Ltac einv := repeat match goal with
  | E : PErr _ = PErr _ |- _ => injection E as E; subst
  | E : POk _ _ = PErr _ |- _ => discriminate E
  | E : PErrOther = PErr _ |- _ => discriminate E
  end.
Ltac etac H :=
  repeat (estep H); try discriminate H; try (injection H as H); subst;
  repeat estep_any; einv; repeat step_any; inv_ok; einv; facts; efacts; cbn [length] in *; try lia.

Ltac facts2 := repeat match goal with E : idents_loop _ = (_, _) |- _ => apply idents_loop_len in E end; facts.

Lemma expect_punct_eb : forall c, ebound (expect_punct c).
Proof. intros c ts n H. unfold expect_punct in H. etac H. Qed.
Lemma expect_kind_eb : forall k, ebound (expect_kind k).
Proof. intros k ts n H. unfold expect_kind in H. etac H. Qed.
Lemma p_uint_eb : ebound p_uint.
Proof. intros ts n H. unfold p_uint in H. etac H. Qed.
#[export] Hint Resolve expect_punct_eb expect_kind_eb p_uint_eb : ebd.

Section ErrPos.
Variable prs : str -> option N.
Variable hex : bool.

Lemma p_double_eb : ebound (p_double prs).
Proof. intros ts n H. unfold p_double in H. etac H. Qed.
Hint Resolve p_double_eb : ebd.
Lemma parse_version_eb : ebound parse_version.
Proof. unfold parse_version. auto with ebd. Qed.

Lemma ns_loop_eb : ebound ns_loop.
Proof.
  intros ts. induction ts as [|t r IH]; intros n H; cbn in H; [discriminate|].
  repeat estep H; try discriminate.
  - injection H as H. subst. apply IH in E. cbn [length]. lia.
  - injection H as H. subst. cbn [length]. lia.
  - apply IH in H. cbn [length]. lia.
Qed.
Hint Resolve ns_loop_eb : ebd.
Lemma parse_new_symbols_eb : ebound parse_new_symbols.
Proof. intros ts n H. unfold parse_new_symbols in H. etac H. Qed.

Lemma p_uint_other_eb : forall b, ebound (fun ts => p_uint_other ts b).
Proof. intros b ts n H. unfold p_uint_other in H. etac H. Qed.

Lemma parse_bit_timing_eb : ebound parse_bit_timing.
Proof.
  intros ts n H. unfold parse_bit_timing in H. repeat estep H; try discriminate; try (injection H as H); subst;
  repeat match goal with E : p_uint_other _ _ = POk _ _ |- _ => apply (p_uint_other_shrinks true) in E end;
  repeat match goal with E : p_uint_other _ _ = PErr _ |- _ => apply (p_uint_other_eb true) in E end;
  facts; efacts; lia.
Qed.

Lemma parse_nodes_eb : ebound parse_nodes.
Proof. intros ts n H. unfold parse_nodes in H. repeat estep H; try discriminate; try (injection H as H); subst; facts2; efacts; lia. Qed.

Ltac wf_ind ts IH := induction ts as [ts IH] using (well_founded_induction (well_founded_ltof _ (@length tok))).

Lemma value_descs_eb : ebound value_descs.
Proof.
  intros ts. wf_ind ts IH. intros n H. destruct ts as [|t l]; cbn in H; [discriminate|].
  repeat estep H; try discriminate; try (injection H as H; subst; cbn [length]; lia).
  subst. match goal with E : value_descs _ = PErr _ |- _ => apply IH in E; [|unfold ltof; cbn; lia] end.
  injection H as H. subst. cbn [length] in *. lia.
Qed.
Hint Resolve value_descs_eb : ebd.
Lemma parse_value_table_eb : ebound parse_value_table.
Proof. intros ts n H. unfold parse_value_table in H. etac H. Qed.

Lemma p_byte_order_eb : ebound p_byte_order.
Proof. intros ts n H. unfold p_byte_order in H. etac H. Qed.
Lemma p_sign_eb : ebound p_sign.
Proof. intros ts n H. unfold p_sign in H. etac H. Qed.
Hint Resolve p_byte_order_eb p_sign_eb : ebd.

Lemma comma_idents_eb : ebound comma_idents.
Proof.
  intros ts. wf_ind ts IH. intros n H. destruct ts as [|t l]; cbn in H; [discriminate|].
  repeat estep H; try discriminate; try (injection H as H; subst; cbn [length]; lia).
  subst. match goal with E : comma_idents _ = PErr _ |- _ => apply IH in E; [|unfold ltof; cbn; lia] end.
  injection H as H. subst. cbn [length] in *. lia.
Qed.
Hint Resolve comma_idents_eb : ebd.

Lemma parse_signal_eb : ebound (parse_signal prs).
Proof. intros ts n H. unfold parse_signal in H. etac H. Qed.
Hint Resolve parse_signal_eb : ebd.

Lemma signals_loop_eb : forall fuel, ebound (signals_loop prs fuel).
Proof.
  induction fuel as [|f IH]; intros ts n H; cbn in H; [discriminate|].
  repeat estep H; try discriminate; try discriminate H; try (injection H as H); subst; facts; efacts; try lia.
  all: try (match goal with E : signals_loop _ _ _ = PErr _ |- _ => apply IH in E end; lia).
Qed.

Lemma parse_message_eb : ebound (parse_message prs).
Proof.
  intros ts n H. unfold parse_message in H. repeat estep H; try discriminate H; try (injection H as H); subst; facts; efacts; try lia.
  all: try (match goal with E : signals_loop _ _ _ = PErr _ |- _ => apply signals_loop_eb in E end; lia).
Qed.

Lemma parse_msg_transmitter_eb : ebound parse_msg_transmitter.
Proof. intros ts n H. unfold parse_msg_transmitter in H. repeat estep H; try discriminate H; try (injection H as H); subst; facts2; efacts; lia. Qed.

Lemma p_ev_type_eb : ebound p_ev_type.
Proof. intros ts n H. unfold p_ev_type in H. etac H. Qed.
Lemma p_access_eb : ebound p_access.
Proof. intros ts n H. unfold p_access in H. etac H. Qed.
Hint Resolve p_ev_type_eb p_access_eb : ebd.
Lemma parse_env_var_eb : ebound (parse_env_var prs).
Proof. intros ts n H. unfold parse_env_var in H. etac H. Qed.
Lemma parse_env_var_data_eb : ebound parse_env_var_data.
Proof. intros ts n H. unfold parse_env_var_data in H. etac H. Qed.
Lemma parse_signal_type_eb : ebound (parse_signal_type prs).
Proof. intros ts n H. unfold parse_signal_type in H. etac H. Qed.

Lemma p_obj_ref_kw_eb : forall k ts0, (forall ts n, p_obj_ref_kw k ts0 ts = PErr n -> (n <= length ts)%nat \/ n = length ts0).
Proof. intros k ts0 ts n H. unfold p_obj_ref_kw in H. destruct k; try (injection H as H; subst; right; reflexivity); left; etac H. Qed.

Lemma parse_comment_eb : ebound parse_comment.
Proof.
  intros ts n H. unfold parse_comment in H. repeat estep H; try discriminate H; try (injection H as H); subst; repeat estep_any; einv; repeat step_any; inv_ok; einv; facts;
  repeat match goal with E : p_obj_ref_kw _ _ _ = PErr _ |- _ => apply p_obj_ref_kw_eb in E; destruct E as [E|E]; subst end;
  efacts; cbn [length] in *; try lia.
Qed.

Lemma p_attr_name_eb : ebound p_attr_name.
Proof. intros ts n H. unfold p_attr_name in H. etac H. Qed.
Lemma p_int_eb : ebound p_int.
Proof. intros ts n H. unfold p_int in H. etac H. Qed.
Lemma p_hex_eb : ebound (p_hex hex).
Proof. intros ts n H. unfold p_hex in H. etac H. Qed.
Hint Resolve p_attr_name_eb p_int_eb p_hex_eb : ebd.

Lemma comma_strings_eb : ebound comma_strings.
Proof.
  intros ts. wf_ind ts IH. intros n H. destruct ts as [|t l]; cbn in H; [discriminate|].
  repeat estep H; try discriminate; try (injection H as H; subst; cbn [length]; lia).
  subst. match goal with E : comma_strings _ = PErr _ |- _ => apply IH in E; [|unfold ltof; cbn; lia] end.
  injection H as H. subst. cbn [length] in *. lia.
Qed.
Hint Resolve comma_strings_eb : ebd.

Lemma p_attr_type_eb : ebound (p_attr_type prs hex).
Proof. intros ts n H. unfold p_attr_type in H. etac H. Qed.
Hint Resolve p_attr_type_eb : ebd.
Lemma parse_attribute_eb : ebound (parse_attribute prs hex).
Proof. intros ts n H. unfold parse_attribute in H. etac H. Qed.
Lemma p_attr_val_eb : ebound (p_attr_val prs hex).
Proof. intros ts n H. unfold p_attr_val in H. etac H. Qed.
Hint Resolve p_attr_val_eb : ebd.
Lemma parse_attr_default_eb : ebound (parse_attr_default prs hex).
Proof. intros ts n H. unfold parse_attr_default in H. etac H. Qed.
Lemma parse_attr_value_eb : ebound (parse_attr_value prs hex).
Proof.
  intros ts n H. unfold parse_attr_value in H. repeat estep H; try discriminate H; try (injection H as H); subst; repeat estep_any; einv; repeat step_any; inv_ok; einv; facts;
  repeat match goal with E : p_obj_ref_kw _ _ _ = PErr _ |- _ => apply p_obj_ref_kw_eb in E; destruct E as [E|E]; subst end;
  efacts; cbn [length] in *; try lia.
Qed.
Lemma parse_value_encoding_eb : ebound parse_value_encoding.
Proof. intros ts n H. unfold parse_value_encoding in H. etac H. Qed.
Lemma parse_signal_group_eb : ebound parse_signal_group.
Proof. intros ts n H. unfold parse_signal_group in H. repeat estep H; try discriminate H; try (injection H as H); subst; facts2; efacts; lia. Qed.
Lemma p_ext_type_eb : ebound p_ext_type.
Proof. intros ts n H. unfold p_ext_type in H. etac H. Qed.
Hint Resolve p_ext_type_eb : ebd.
Lemma parse_sig_ext_value_type_eb : ebound parse_sig_ext_value_type.
Proof. intros ts n H. unfold parse_sig_ext_value_type in H. etac H. Qed.
Lemma p_range_eb : ebound p_range.
Proof. intros ts n H. unfold p_range in H. etac H. Qed.
Hint Resolve p_range_eb : ebd.
Lemma comma_ranges_eb : ebound comma_ranges.
Proof.
  intros ts. wf_ind ts IH. intros n H. destruct ts as [|t l]; cbn in H; [discriminate|].
  repeat estep H; try discriminate; try (injection H as H; subst; cbn [length]; lia).
  - subst. match goal with E : comma_ranges _ = PErr _ |- _ => apply IH in E; [|unfold ltof; cbn; lia] end.
    injection H as H. subst. cbn [length] in *. lia.
  - injection H as H. subst. match goal with E : p_range _ = PErr _ |- _ => apply p_range_eb in E end. cbn [length] in *. lia.
Qed.
Hint Resolve comma_ranges_eb : ebd.
Lemma parse_ext_mux_eb : ebound parse_ext_mux.
Proof. intros ts n H. unfold parse_ext_mux in H. etac H. Qed.

Lemma lift_eb : forall A (f : A -> item) (p : list tok -> pres A) ts n, ebound p -> lift f (p ts) = PErr n -> (n <= length ts)%nat.
Proof. intros A f p ts n Hp H. unfold lift in H. destruct (p ts) eqn:E; try discriminate. injection H as H. subst. eapply Hp; eauto. Qed.

Lemma parse_section_eb : forall k fl ts0 r n fl',
  parse_section prs hex k fl ts0 r = Some (PErr n, fl') -> (n <= length r)%nat \/ n = length ts0.
Proof.
  intros k fl ts0 r n fl' H. unfold parse_section in H.
  destruct k; try discriminate;
    repeat match type of H with Some (if ?b then _ else _) = _ => destruct b end;
    inversion H as [[H1 H2]]; try (right; reflexivity); left;
    match type of H1 with lift ?f (?p r) = _ => eapply (lift_eb _ f p); [|exact H1] end.
  - apply parse_version_eb.
  - apply parse_new_symbols_eb.
  - apply parse_bit_timing_eb.
  - apply parse_nodes_eb.
  - apply parse_message_eb.
  - apply parse_msg_transmitter_eb.
  - apply parse_sig_ext_value_type_eb.
  - apply parse_value_table_eb.
  - apply parse_value_encoding_eb.
  - apply parse_env_var_eb.
  - apply parse_env_var_data_eb.
  - apply parse_signal_type_eb.
  - apply parse_signal_group_eb.
  - apply parse_comment_eb.
  - apply parse_attribute_eb.
  - apply parse_attr_default_eb.
  - apply parse_attr_value_eb.
  - apply parse_ext_mux_eb.
Qed.

Lemma parse_loop_eb : forall fuel fl ts n, parse_loop prs hex fuel fl ts = RSyntax n -> (n <= length ts)%nat.
Proof.
  induction fuel as [|f IH]; intros fl ts n H; [discriminate|].
  cbn [parse_loop] in H. destruct (next ts) as [t r] eqn:EN. pose proof (next_len _ _ _ EN) as Hr.
  destruct (fst t); try discriminate; try (injection H as H; subst; lia).
  destruct (keyword_of (snd t)) as [k|]; [|injection H as H; subst; lia].
  destruct (parse_section prs hex k fl ts r) as [[[it r'|m|] fl']|] eqn:EP; try discriminate.
  - pose proof (parse_section_shrinks _ _ _ _ _ _ _ _ _ EP) as Hl.
    destruct (parse_loop prs hex f fl' r') eqn:EL; try discriminate. injection H as H. subst. apply IH in EL. lia.
  - injection H as H. subst. destruct (parse_section_eb _ _ _ _ _ _ EP) as [Hb|Hb]; lia.
  - apply IH in H. lia.
Qed.

End ErrPos.

Lemma nth_error_skipn : forall A (l : list A) k, nth_error l k = match skipn k l with x :: _ => Some x | [] => None end.
Proof. intros A l. induction l as [|x l IH]; intros [|k]; cbn; try reflexivity. apply IH. Qed.

(* error_position_offending: the position of a syntax error is the recorded start of the first
   token the parser had not consumed when it rejected — every token before it was consumed by the
   sections parsed so far, none after it was looked at beyond it — and the end-of-input position
   exactly when every token had been consumed *)
Theorem error_position_offending : forall ud prs hex text l c,
  parse ud prs hex text = OSyntax l c ->
  exists raw consumed remaining,
    lex ud text = Some raw /\ pfilter raw = consumed ++ remaining /\
    parse_loop prs hex (S (length (map strip (pfilter raw)))) {| fl_ver := false; fl_ns := false; fl_bu := false |}
               (map strip (pfilter raw)) = RSyntax (length remaining) /\
    (l, c) = match remaining with
             | t :: _ => (rt_line t, rt_col t)
             | [] => match last_opt (pfilter raw) with Some t => (rt_line t, rt_col t) | None => (1%N, 0%N) end
             end.
Proof.
  intros ud prs hex text l c H. unfold parse in H. destruct (lex ud text) as [raw|] eqn:EL; [|discriminate].
  unfold parse_tokens in H.
  destruct (parse_loop prs hex (S (length (map strip (pfilter raw)))) _ (map strip (pfilter raw))) as [| n | |] eqn:EP; try discriminate.
  pose proof (parse_loop_eb _ _ _ _ _ _ EP) as Hn. rewrite map_length in Hn.
  exists raw, (firstn (length (pfilter raw) - n) (pfilter raw)), (skipn (length (pfilter raw) - n) (pfilter raw)).
  split; [reflexivity|]. split; [symmetry; apply firstn_skipn|].
  assert (Hlen : length (skipn (length (pfilter raw) - n) (pfilter raw)) = n) by (rewrite skipn_length; lia).
  split; [rewrite Hlen; exact EP|].
  unfold error_pos in H. rewrite nth_error_skipn in H.
  destruct (skipn (length (pfilter raw) - n) (pfilter raw)) as [|t r].
  - destruct (last_opt (pfilter raw)) as [t|]; inversion H; reflexivity.
  - inversion H; reflexivity.
Qed.
