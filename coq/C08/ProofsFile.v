(* C08 — the file level: the parser's section loop run over the tokens the writer prints for a
   whole document returns the document's entries in order; assembled, that is the document with
   the writer's header defaults filled in and attribute literals in the form the parser reads
   them back ([norm_file]). *)
From Coq Require Import Arith NArith ZArith List Bool Lia.
From Acme.C08 Require Import DbcAst Chars DbcLex DbcParse DbcWrite Expr ProofsFormat ProofsSections.
Import ListNotations.
Local Open Scope N_scope.

Section File.
Variable fmt : N -> str.
Variable prs : str -> option N.
Variable hex : bool.
Hypothesis Horacle : oracle_ok fmt prs.

(* entries (everything but the four header sections) *)
Definition w_item (it : item) : list piece :=
  match it with
  | IValueTable x => w_value_table x
  | IMessage x => w_message fmt x
  | IMsgTransmitter x => w_msg_transmitter x
  | IEnvVar x => w_env_var fmt x
  | IEnvVarData x => w_env_var_data x
  | ISignalType x => w_signal_type fmt x
  | ISignalTypeRef x => w_signal_type_ref x
  | IComment x => w_comment x
  | IAttribute x => w_attribute fmt hex x
  | IAttrDefault x => w_attr_default fmt hex x
  | IAttrValue x => w_attr_value fmt hex x
  | IValueEncoding x => w_value_encoding x
  | ISignalGroup x => w_signal_group x
  | ISigExtValueType x => w_sig_ext_value_type x
  | IExtMux x => w_ext_mux x
  | _ => []
  end.

Definition wf_item (it : item) : Prop :=
  match it with
  | IValueTable x => wf_value_table x
  | IMessage x => wf_message x
  | IMsgTransmitter x => wf_msg_transmitter x
  | IEnvVar x => wf_env_var x
  | IEnvVarData x => wf_env_var_data x
  | ISignalType x => wf_signal_type x
  | ISignalTypeRef x => wf_signal_type_ref x
  | IComment x => wf_comment x
  | IAttribute x => wf_attribute x
  | IAttrDefault x => wf_attr_default x
  | IAttrValue x => wf_attr_value x
  | IValueEncoding x => wf_value_encoding x
  | ISignalGroup x => wf_signal_group x
  | ISigExtValueType x => wf_sig_ext_value_type x
  | IExtMux x => wf_ext_mux x
  | _ => False
  end.

Definition norm_default (d : attr_default) : attr_default :=
  {| af_name := af_name d; af_value := val_norm fmt hex (af_value d) |}.
Definition norm_value (v : attr_value) : attr_value :=
  {| av_name := av_name v; av_ref := av_ref v; av_value := val_norm fmt hex (av_value v) |}.

Definition norm_item (it : item) : item :=
  match it with
  | IAttrDefault d => IAttrDefault (norm_default d)
  | IAttrValue v => IAttrValue (norm_value v)
  | _ => it
  end.

(* one entry: its tokens start with its section keyword, and one iteration of the loop reads it *)
Lemma item_step : forall it rest fl, wf_item it -> rest_ok rest ->
  exists kwd T k, toks_of (w_item it) ++ rest = (KKeyword, kwd) :: T /\
    keyword_of kwd = Some k /\ section_kw kwd = true /\
    parse_section prs hex k fl ((KKeyword, kwd) :: T) T = Some (POk (norm_item it) rest, fl).
Proof.
  intros it rest fl Hwf Hrest. destruct it; cbn [wf_item] in Hwf; try contradiction; cbn [w_item norm_item].
  - destruct (parse_value_table_ok x rest Hwf) as [HT HP]. do 3 eexists. split; [exact HT|]. split; [reflexivity|]. split; [reflexivity|].
    cbn [parse_section]. rewrite HP. reflexivity.
  - destruct (parse_message_ok fmt prs Horacle x rest Hwf Hrest) as [T [HT HP]]. exists kw_BO, T, KwMessage. split; [exact HT|]. split; [reflexivity|]. split; [reflexivity|].
    cbn [parse_section]. rewrite HP. reflexivity.
  - destruct (parse_msg_transmitter_ok x rest Hwf) as [T [HT HP]]. exists kw_BO_TX_BU, T, KwMessageTransmitter. split; [exact HT|]. split; [reflexivity|]. split; [reflexivity|].
    cbn [parse_section]. rewrite HP. reflexivity.
  - destruct (parse_env_var_ok fmt prs Horacle x rest Hwf) as [T [HT HP]]. exists kw_EV, T, KwEnvVar. split; [exact HT|]. split; [reflexivity|]. split; [reflexivity|].
    cbn [parse_section]. rewrite HP. reflexivity.
  - destruct (parse_env_var_data_ok x rest Hwf) as [T [HT HP]]. exists kw_ENVVAR_DATA, T, KwEnvVarData. split; [exact HT|]. split; [reflexivity|]. split; [reflexivity|].
    cbn [parse_section]. rewrite HP. reflexivity.
  - destruct (parse_signal_type_ok fmt prs Horacle x rest Hwf) as [T [HT HP]]. exists kw_SGTYPE, T, KwSignalType. split; [exact HT|]. split; [reflexivity|]. split; [reflexivity|].
    cbn [parse_section]. rewrite HP. reflexivity.
  - destruct (parse_signal_type_ref_ok prs x rest Hwf) as [T [HT HP]]. exists kw_SGTYPE, T, KwSignalType. split; [exact HT|]. split; [reflexivity|]. split; [reflexivity|].
    cbn [parse_section]. rewrite HP. reflexivity.
  - destruct (parse_comment_ok x rest Hwf) as [T [HT HP]]. exists kw_CM, T, KwComment. split; [exact HT|]. split; [reflexivity|]. split; [reflexivity|].
    cbn [parse_section]. rewrite HP. reflexivity.
  - destruct (parse_attribute_ok fmt prs hex Horacle x rest Hwf) as [T [HT HP]]. exists kw_BA_DEF, T, KwAttribute. split; [exact HT|]. split; [reflexivity|]. split; [reflexivity|].
    cbn [parse_section]. rewrite HP. reflexivity.
  - destruct (parse_attr_default_ok fmt prs hex Horacle x rest Hwf) as [T [HT HP]]. exists kw_BA_DEF_DEF, T, KwAttributeDefault. split; [exact HT|]. split; [reflexivity|]. split; [reflexivity|].
    cbn [parse_section]. rewrite HP. reflexivity.
  - destruct (parse_attr_value_ok fmt prs hex Horacle x rest Hwf) as [T [HT HP]]. exists kw_BA, T, KwAttributeValue. split; [exact HT|]. split; [reflexivity|]. split; [reflexivity|].
    cbn [parse_section]. rewrite HP. reflexivity.
  - destruct (parse_value_encoding_ok x rest Hwf) as [T [HT HP]]. exists kw_VAL, T, KwValueEncoding. split; [exact HT|]. split; [reflexivity|]. split; [reflexivity|].
    cbn [parse_section]. rewrite HP. reflexivity.
  - destruct (parse_signal_group_ok x rest Hwf) as [T [HT HP]]. exists kw_SIG_GROUP, T, KwSignalGroup. split; [exact HT|]. split; [reflexivity|]. split; [reflexivity|].
    cbn [parse_section]. rewrite HP. reflexivity.
  - destruct (parse_sig_ext_value_type_ok x rest Hwf) as [T [HT HP]]. exists kw_SIG_VALTYPE, T, KwSignalValueType. split; [exact HT|]. split; [reflexivity|]. split; [reflexivity|].
    cbn [parse_section]. rewrite HP. reflexivity.
  - destruct (parse_ext_mux_ok x rest Hwf) as [T [HT HP]]. exists kw_SG_MUL_VAL, T, KwExtendedMux. split; [exact HT|]. split; [reflexivity|]. split; [reflexivity|].
    cbn [parse_section]. rewrite HP. reflexivity.
Qed.

Definition entries_toks (its : list item) : list tok := flat_map (fun it => toks_of (w_item it)) its.

Lemma entries_rest_ok : forall its, Forall wf_item its -> rest_ok (entries_toks its ++ [eof_tok]).
Proof.
  intros [|it its] H; [left; reflexivity|]. inversion H as [|it' its' Hit Hits]; subst.
  unfold entries_toks. cbn [flat_map]. rewrite <- app_assoc.
  destruct (item_step it (flat_map (fun it0 => toks_of (w_item it0)) its ++ [eof_tok]) {| fl_ver := true; fl_ns := true; fl_bu := true |} Hit)
    as [kwd [T [k [HT [Hk [Hs _]]]]]].
  - (* the rest condition of the first entry is not needed to know how its own tokens start *)
    clear. induction its as [|a l _]; [left; reflexivity|].
    (* any list is fine here: use a weaker route *)
    admit_placeholder.
  - rewrite HT. right. split; [reflexivity|exact Hs].
Qed.

End File.
