(* C08 — the file level: the parser's section loop run over the tokens the writer prints for a
   whole document returns the document's entries in order; assembled, that is the document with
   the writer's header defaults filled in and attribute literals in the form the parser reads
   them back ([norm_file]). *)
From Coq Require Import Arith NArith ZArith List Bool Lia.
From Acme.C08 Require Import DbcAst Chars DbcLex DbcParse DbcWrite Expr ProofsFormat ProofsSections.
Import ListNotations.
Local Open Scope N_scope.

Section File.
Variable up : N -> bool.
Variable fmt : N -> str.
Variable prs : str -> option N.
Variable hex : bool.
Hypothesis Horacle : oracle_ok fmt prs.

(* entries (everything but the four header sections) *)
Definition w_item (it : item) : list piece :=
  match it with
  | IValueTable x => w_value_table x
  | IMessage x => w_message fmt x
  | IMsgTransmitter x => w_msg_transmitter x
  | IEnvVar x => w_env_var fmt x
  | IEnvVarData x => w_env_var_data x
  | ISignalType x => w_signal_type fmt x
  | ISignalTypeRef x => w_signal_type_ref x
  | IComment x => w_comment x
  | IAttribute x => w_attribute fmt hex x
  | IAttrDefault x => w_attr_default fmt hex x
  | IAttrValue x => w_attr_value fmt hex x
  | IValueEncoding x => w_value_encoding x
  | ISignalGroup x => w_signal_group x
  | ISigExtValueType x => w_sig_ext_value_type x
  | IExtMux x => w_ext_mux x
  | _ => []
  end.

Definition wf_item (it : item) : Prop :=
  match it with
  | IValueTable x => wf_value_table up x
  | IMessage x => wf_message up x
  | IMsgTransmitter x => wf_msg_transmitter up x
  | IEnvVar x => wf_env_var up x
  | IEnvVarData x => wf_env_var_data up x
  | ISignalType x => wf_signal_type up x
  | ISignalTypeRef x => wf_signal_type_ref up x
  | IComment x => wf_comment up x
  | IAttribute x => wf_attribute x
  | IAttrDefault x => wf_attr_default x
  | IAttrValue x => wf_attr_value up x
  | IValueEncoding x => wf_value_encoding up x
  | ISignalGroup x => wf_signal_group up x
  | ISigExtValueType x => wf_sig_ext_value_type up x
  | IExtMux x => wf_ext_mux up x
  | _ => False
  end.

Definition norm_default (d : attr_default) : attr_default :=
  {| af_name := af_name d; af_value := val_norm fmt hex (af_value d) |}.
Definition norm_value (v : attr_value) : attr_value :=
  {| av_name := av_name v; av_ref := av_ref v; av_value := val_norm fmt hex (av_value v) |}.

Definition norm_item (it : item) : item :=
  match it with
  | IAttrDefault d => IAttrDefault (norm_default d)
  | IAttrValue v => IAttrValue (norm_value v)
  | _ => it
  end.

(* one entry: its tokens start with its section keyword, and one iteration of the loop reads it *)
Lemma item_step : forall it rest fl, wf_item it -> rest_ok rest ->
  exists kwd T k, toks_of (w_item it) ++ rest = (KKeyword, kwd) :: T /\
    keyword_of kwd = Some k /\ section_kw kwd = true /\
    parse_section prs hex k fl ((KKeyword, kwd) :: T) T = Some (POk (norm_item it) rest, fl).
Proof.
  intros it rest fl Hwf Hrest. destruct it; cbn [wf_item] in Hwf; try contradiction; cbn [w_item norm_item].
  - destruct (parse_value_table_ok up x rest Hwf) as [HT HP]. do 3 eexists. split; [exact HT|]. split; [reflexivity|]. split; [reflexivity|].
    cbn [parse_section]. rewrite HP. reflexivity.
  - destruct (parse_message_ok up fmt prs Horacle x rest Hwf Hrest) as [T [HT HP]]. exists kw_BO, T, KwMessage. split; [exact HT|]. split; [reflexivity|]. split; [reflexivity|].
    cbn [parse_section]. rewrite HP. reflexivity.
  - destruct (parse_msg_transmitter_ok up x rest Hwf) as [T [HT HP]]. exists kw_BO_TX_BU, T, KwMessageTransmitter. split; [exact HT|]. split; [reflexivity|]. split; [reflexivity|].
    cbn [parse_section]. rewrite HP. reflexivity.
  - destruct (parse_env_var_ok up fmt prs Horacle x rest Hwf) as [T [HT HP]]. exists kw_EV, T, KwEnvVar. split; [exact HT|]. split; [reflexivity|]. split; [reflexivity|].
    cbn [parse_section]. rewrite HP. reflexivity.
  - destruct (parse_env_var_data_ok up x rest Hwf) as [T [HT HP]]. exists kw_ENVVAR_DATA, T, KwEnvVarData. split; [exact HT|]. split; [reflexivity|]. split; [reflexivity|].
    cbn [parse_section]. rewrite HP. reflexivity.
  - destruct (parse_signal_type_ok up fmt prs Horacle x rest Hwf) as [T [HT HP]]. exists kw_SGTYPE, T, KwSignalType. split; [exact HT|]. split; [reflexivity|]. split; [reflexivity|].
    cbn [parse_section]. rewrite HP. reflexivity.
  - destruct (parse_signal_type_ref_ok up prs x rest Hwf) as [T [HT HP]]. exists kw_SGTYPE, T, KwSignalType. split; [exact HT|]. split; [reflexivity|]. split; [reflexivity|].
    cbn [parse_section]. rewrite HP. reflexivity.
  - destruct (parse_comment_ok up x rest Hwf) as [T [HT HP]]. exists kw_CM, T, KwComment. split; [exact HT|]. split; [reflexivity|]. split; [reflexivity|].
    cbn [parse_section]. rewrite HP. reflexivity.
  - destruct (parse_attribute_ok fmt prs hex Horacle x rest Hwf) as [T [HT HP]]. exists kw_BA_DEF, T, KwAttribute. split; [exact HT|]. split; [reflexivity|]. split; [reflexivity|].
    cbn [parse_section]. rewrite HP. reflexivity.
  - destruct (parse_attr_default_ok up fmt prs hex Horacle x rest Hwf) as [T [HT HP]]. exists kw_BA_DEF_DEF, T, KwAttributeDefault. split; [exact HT|]. split; [reflexivity|]. split; [reflexivity|].
    cbn [parse_section]. rewrite HP. reflexivity.
  - destruct (parse_attr_value_ok up fmt prs hex Horacle x rest Hwf) as [T [HT HP]]. exists kw_BA, T, KwAttributeValue. split; [exact HT|]. split; [reflexivity|]. split; [reflexivity|].
    cbn [parse_section]. rewrite HP. reflexivity.
  - destruct (parse_value_encoding_ok up x rest Hwf) as [T [HT HP]]. exists kw_VAL, T, KwValueEncoding. split; [exact HT|]. split; [reflexivity|]. split; [reflexivity|].
    cbn [parse_section]. rewrite HP. reflexivity.
  - destruct (parse_signal_group_ok up x rest Hwf) as [T [HT HP]]. exists kw_SIG_GROUP, T, KwSignalGroup. split; [exact HT|]. split; [reflexivity|]. split; [reflexivity|].
    cbn [parse_section]. rewrite HP. reflexivity.
  - destruct (parse_sig_ext_value_type_ok up x rest Hwf) as [T [HT HP]]. exists kw_SIG_VALTYPE, T, KwSignalValueType. split; [exact HT|]. split; [reflexivity|]. split; [reflexivity|].
    cbn [parse_section]. rewrite HP. reflexivity.
  - destruct (parse_ext_mux_ok up x rest Hwf) as [T [HT HP]]. exists kw_SG_MUL_VAL, T, KwExtendedMux. split; [exact HT|]. split; [reflexivity|]. split; [reflexivity|].
    cbn [parse_section]. rewrite HP. reflexivity.
Qed.

Definition entries_toks (its : list item) : list tok := flat_map (fun it => toks_of (w_item it)) its.

Lemma item_head : forall it, wf_item it ->
  exists kwd T, toks_of (w_item it) = (KKeyword, kwd) :: T /\ section_kw kwd = true.
Proof.
  intros it Hwf. destruct it; cbn [wf_item] in Hwf; try contradiction; cbn [w_item].
  all: match goal with |- context [toks_of (?w ?a ?b ?x)] => unfold w | |- context [toks_of (?w ?a ?x)] => unfold w | |- context [toks_of (?w ?x)] => unfold w end.
  all: tk; do 2 eexists; split; [reflexivity|reflexivity].
Qed.

Lemma entries_rest_ok : forall its, Forall wf_item its -> rest_ok (entries_toks its ++ [eof_tok]).
Proof.
  intros [|it its] H; [left; reflexivity|]. inversion H as [|it' its' Hit Hits]; subst.
  unfold entries_toks. cbn [flat_map]. destruct (item_head it Hit) as [kwd [T [HT Hs]]]. rewrite HT.
  cbn [app rest_ok fst snd]. right. split; [reflexivity|exact Hs].
Qed.

(* the loop over the entries *)
Lemma entries_loop : forall its fuel fl, Forall wf_item its -> (length its < fuel)%nat ->
  parse_loop prs hex fuel fl (entries_toks its ++ [eof_tok]) = ROk (map norm_item its).
Proof.
  induction its as [|it its IH]; intros fuel fl Hwf Hf.
  - destruct fuel; [lia|]. reflexivity.
  - inversion Hwf as [|it' its' Hit Hits]; subst. destruct fuel as [|fuel]; [lia|].
    unfold entries_toks. cbn [flat_map]. rewrite <- app_assoc. fold (entries_toks its).
    destruct (item_step it (entries_toks its ++ [eof_tok]) fl Hit (entries_rest_ok its Hits)) as [kwd [T [k [HT [Hk [Hs HP]]]]]].
    unfold tok, str in *. rewrite HT. cbn [parse_loop next fst snd]. rewrite Hk, HP.
    rewrite (IH fuel fl Hits); [reflexivity|cbn in Hf; lia].
Qed.


(* ---- the header ---- *)
Lemma str_eqb_eq : forall a b, str_eqb a b = true -> a = b.
Proof.
  induction a as [|x a IH]; intros [|y b] H; cbn in H; try discriminate; [reflexivity|].
  apply andb_true_iff in H. destruct H as [H1 H2]. apply N.eqb_eq in H1. subst. f_equal. apply IH; exact H2.
Qed.

Definition word_tok (s : str) : tok := (match s with c :: r => classify_text no_ud c r | [] => KIdent end, s).

Definition ns_sym_ok (s : str) : bool :=
  let t := word_tok s in
  negb (kind_is KEOF t) && negb (is_kw KwBitTiming t) && (kind_is KKeyword t || kind_is KIdent t)
  && mem_str s new_symbols_values.

Lemma ns_table_ok : forallb ns_sym_ok new_symbols_values = true.
Proof. vm_compute. reflexivity. Qed.

Lemma ns_sym_ok_mem : forall s, mem_str s new_symbols_values = true -> ns_sym_ok s = true.
Proof.
  intros s H. unfold mem_str in H. apply existsb_exists in H. destruct H as [x [Hin Hx]].
  apply str_eqb_eq in Hx. subst x. pose proof ns_table_ok as HT. rewrite forallb_forall in HT. apply HT; exact Hin.
Qed.

Definition wf_ns (l : list str) : Prop := Forall (fun s => mem_str s new_symbols_values = true) l.

Lemma ns_loop_ok : forall l rest, wf_ns l ->
  ns_loop (toks_of (flat_map (fun s => [Sp [ch_tab]; word s; nl]) l) ++ (KKeyword, kw_BS) :: rest)
  = POk l ((KKeyword, kw_BS) :: rest).
Proof.
  induction l as [|s l IH]; intros rest Hwf.
  - reflexivity.
  - inversion Hwf as [|s' l' Hs Hl]; subst. cbn [flat_map]. rewrite toks_of_app, <- app_assoc.
    change (toks_of [Sp [ch_tab]; word s; nl]) with [word_tok s]. cbn [app ns_loop].
    pose proof (ns_sym_ok_mem s Hs) as Hok. unfold ns_sym_ok in Hok. cbv zeta in Hok.
    repeat (apply andb_true_iff in Hok; destruct Hok as [Hok ?]).
    apply negb_true_iff in Hok. rewrite Hok.
    match goal with H : negb (is_kw KwBitTiming _) = true |- _ => apply negb_true_iff in H; rewrite H end.
    match goal with H : (kind_is KKeyword _ || kind_is KIdent _) = true |- _ => rewrite H end.
    match goal with H : mem_str _ _ = true |- _ => cbn [snd word_tok]; rewrite H end.
    rewrite (IH rest Hl). reflexivity.
Qed.

Definition ver_of (f : file) : str := match f_version f with [] => underscore | v => v end.
Definition ns_of (f : file) : list str := match f_ns f with Some l => l | None => new_symbols_values end.
Definition bs_of (f : file) : bit_timing :=
  match f_bs f with Some b => b | None => {| bt_baud := 0; bt_reg1 := 0; bt_reg2 := 0 |} end.
Definition bu_of (f : file) : list str := match f_bu f with Some l => l | None => [] end.

Definition wf_bs (b : bit_timing) : Prop := u32_ok (bt_baud b) /\ u32_ok (bt_reg1 b) /\ u32_ok (bt_reg2 b).

Lemma p_uint_other_ok : forall n r b, u32_ok n -> p_uint_other ((KNumber, format_uint n) :: r) b = POk n r.
Proof. intros n r b H. unfold p_uint_other, next. change (kind_is KNumber (KNumber, format_uint n)) with true. cbv iota. cbn [snd]. rewrite (parse_uint_format n H). reflexivity. Qed.

Lemma parse_bit_timing_ok : forall b rest, wf_bs b ->
  exists T, toks_of (w_bit_timing b) ++ (KKeyword, kw_BU) :: rest = (KKeyword, kw_BS) :: T /\
            parse_bit_timing T = POk b ((KKeyword, kw_BU) :: rest).
Proof.
  intros [baud r1 r2] rest (H1 & H2 & H3). cbn [bt_baud bt_reg1 bt_reg2] in *. unfold w_bit_timing. cbn [bt_baud bt_reg1 bt_reg2].
  destruct ((baud =? 0) && (r1 =? 0) && (r2 =? 0)) eqn:E.
  - apply andb_true_iff in E. destruct E as [E E3]. apply andb_true_iff in E. destruct E as [E1 E2].
    apply N.eqb_eq in E1, E2, E3. subst. eexists. split; [tk; reflexivity|]. reflexivity.
  - eexists. split; [tk; reflexivity|]. unfold parse_bit_timing. rewrite expect_punct_ok. cbn [bind next].
    change (is_kw KwNode (KNumber, format_uint baud)) with false. cbv iota.
    rewrite p_uint_other_ok by exact H1. cbn [bind]. rewrite expect_punct_ok. cbn [bind].
    rewrite p_uint_other_ok by exact H2. cbn [bind]. rewrite expect_punct_ok. cbn [bind].
    rewrite p_uint_other_ok by exact H3. reflexivity.
Qed.

Definition wf_header (f : file) : Prop :=
  expr_string (ver_of f) = true /\ wf_ns (ns_of f) /\ wf_bs (bs_of f) /\ idents_ok up (bu_of f).

Definition header_pieces (f : file) : list piece :=
  w_version (ver_of f) ++ w_new_symbols (ns_of f) ++ w_bit_timing (bs_of f) ++ w_nodes (bu_of f).

Definition fl0 : flags := {| fl_ver := false; fl_ns := false; fl_bu := false |}.

Lemma loop_step : forall fuel fl kwd k T it r' fl',
  keyword_of kwd = Some k ->
  parse_section prs hex k fl ((KKeyword, kwd) :: T) T = Some (POk it r', fl') ->
  parse_loop prs hex (S fuel) fl ((KKeyword, kwd) :: T) =
  match parse_loop prs hex fuel fl' r' with ROk l => ROk (it :: l) | e => e end.
Proof. intros fuel fl kwd k T it r' fl' Hk HP. cbn [parse_loop next fst snd]. rewrite Hk, HP. reflexivity. Qed.

Lemma header_loop : forall f its fuel, wf_header f -> Forall wf_item its -> (length its + 4 < fuel)%nat ->
  parse_loop prs hex fuel fl0 (toks_of (header_pieces f) ++ entries_toks its ++ [eof_tok]) =
  ROk ([IVersion (ver_of f); INewSymbols (ns_of f); IBitTiming (bs_of f); INodes (bu_of f)] ++ map norm_item its).
Proof.
  intros f its fuel (Hv & Hn & Hb & Hu) Hits Hf.
  do 4 (destruct fuel as [|fuel]; [lia|]).
  set (R := entries_toks its ++ [eof_tok]).
  destruct (parse_bit_timing_ok (bs_of f) ((KPunct, [ch_colon]) :: toks_of (flat_map (fun n => [sp; ident n]) (bu_of f)) ++ R)) as [T [HT HP]]; [exact Hb|].
  assert (Htoks : toks_of (header_pieces f) ++ R =
    (KKeyword, kw_VERSION) :: (KString, ver_of f) :: (KKeyword, kw_NS) :: (KPunct, [ch_colon]) ::
    toks_of (flat_map (fun s => [Sp [ch_tab]; word s; nl]) (ns_of f)) ++ (KKeyword, kw_BS) :: T).
  { unfold tok, str in *. rewrite <- HT. unfold header_pieces, w_version, w_new_symbols, w_nodes. tk. reflexivity. }
  unfold tok, str in *. rewrite Htoks. clear Htoks.
  (* VERSION *)
  erewrite loop_step; [|reflexivity|cbn [parse_section fl_ver fl0]; unfold parse_version; rewrite expect_kind_ok; reflexivity].
  (* NS_ *)
  erewrite loop_step; [|reflexivity|
    cbn [parse_section fl_ns fl_ver fl_bu lift]; unfold parse_new_symbols; rewrite expect_punct_ok; cbn [bind];
    rewrite ns_loop_ok by exact Hn; reflexivity].
  (* BS_ *)
  erewrite loop_step; [|reflexivity|cbn [parse_section lift]; rewrite HP; reflexivity].
  (* BU_ *)
  erewrite loop_step; [|reflexivity|
    cbn [parse_section fl_bu lift]; unfold parse_nodes; rewrite expect_punct_ok; cbn [bind];
    rewrite idents_loop_ok by (left; apply entries_rest_ok; exact Hits); reflexivity].
  subst R. rewrite (entries_loop its fuel _ Hits) by lia. reflexivity.
Qed.

(* ---- assembling ---- *)
Lemma pick_app : forall A (g : item -> option A) a b, pick g (a ++ b) = pick g a ++ pick g b.
Proof. intros. unfold pick. apply flat_map_app. Qed.

Lemma pick_map_some : forall A B (g : item -> option A) (h : B -> item) (k : B -> A) l,
  (forall x, g (h x) = Some (k x)) -> pick g (map h l) = map k l.
Proof. intros A B g h k l H. induction l as [|x l IH]; [reflexivity|]. cbn [map pick flat_map]. rewrite H. cbn [app]. f_equal. exact IH. Qed.

Lemma pick_map_none : forall A B (g : item -> option A) (h : B -> item) l,
  (forall x, g (h x) = None) -> pick g (map h l) = [].
Proof. intros A B g h l H. induction l as [|x l IH]; [reflexivity|]. cbn [map pick flat_map]. rewrite H. exact IH. Qed.

Definition entries_of (f : file) : list item :=
  map IValueTable (f_vts f) ++ map IMessage (f_msgs f) ++ map IMsgTransmitter (f_txs f) ++ map IEnvVar (f_evs f) ++
  map IEnvVarData (f_eds f) ++ map ISignalType (f_sts f) ++ map IComment (f_cms f) ++ map IAttribute (f_ads f) ++
  map IAttrDefault (f_afs f) ++ map IAttrValue (f_avs f) ++ map IValueEncoding (f_ves f) ++
  map ISignalTypeRef (f_srs f) ++ map ISignalGroup (f_sgs f) ++ map ISigExtValueType (f_svs f) ++ map IExtMux (f_xms f).

(* the document the parser returns for the writer's text: header defaults filled in, attribute
   literals in the form they are read back *)
Definition norm_file (f : file) : file :=
  {| f_version := ver_of f; f_ns := Some (ns_of f); f_bs := Some (bs_of f); f_bu := Some (bu_of f);
     f_vts := f_vts f; f_msgs := f_msgs f; f_txs := f_txs f; f_evs := f_evs f; f_eds := f_eds f; f_sts := f_sts f;
     f_cms := f_cms f; f_ads := f_ads f; f_afs := map norm_default (f_afs f); f_avs := map norm_value (f_avs f);
     f_ves := f_ves f; f_srs := f_srs f; f_sgs := f_sgs f; f_svs := f_svs f; f_xms := f_xms f |}.

Lemma assemble_file : forall f,
  assemble ([IVersion (ver_of f); INewSymbols (ns_of f); IBitTiming (bs_of f); INodes (bu_of f)] ++ map norm_item (entries_of f))
  = norm_file f.
Proof.
  intros f. unfold entries_of. rewrite !map_app, !map_map. cbn [norm_item].
  unfold assemble, norm_file. rewrite !pick_app.
  repeat (first [ rewrite (pick_map_some _ _ _ _ (fun x => x)) by (intros; reflexivity)
                | rewrite (pick_map_some _ _ _ _ norm_default) by (intros; reflexivity)
                | rewrite (pick_map_some _ _ _ _ norm_value) by (intros; reflexivity)
                | rewrite pick_map_none by (intros; reflexivity) ]).
  cbn [pick flat_map app last_opt rev]. rewrite ?map_id, ?app_nil_r. reflexivity.
Qed.


(* ---- the writer's token stream is header ++ entries ---- *)
Lemma toks_of_slice : forall A (w : A -> list piece) l, toks_of (w_slice w l) = flat_map (fun x => toks_of (w x)) l.
Proof.
  intros A w l. unfold w_slice. destruct l as [|x l]; [reflexivity|].
  rewrite toks_of_app. change (toks_of [nl]) with (@nil tok). rewrite app_nil_r.
  generalize (x :: l). clear. induction l as [|y l IH]; [reflexivity|]. cbn [flat_map]. rewrite toks_of_app, IH. reflexivity.
Qed.

Lemma entries_toks_app : forall a b, entries_toks (a ++ b) = entries_toks a ++ entries_toks b.
Proof. intros. unfold entries_toks. apply flat_map_app. Qed.

Lemma entries_toks_map : forall A (h : A -> item) l, entries_toks (map h l) = flat_map (fun x => toks_of (w_item (h x))) l.
Proof. intros A h l. unfold entries_toks. induction l as [|x l IH]; [reflexivity|]. cbn [map flat_map]. rewrite IH. reflexivity. Qed.

Lemma toks_of_file : forall f,
  toks_of (w_file fmt hex f) = toks_of (header_pieces f) ++ entries_toks (entries_of f).
Proof.
  intros f. unfold w_file, header_pieces, entries_of. fold (ver_of f) (ns_of f) (bs_of f) (bu_of f).
  rewrite !toks_of_app, !toks_of_slice, !entries_toks_app, !entries_toks_map. cbn [w_item].
  rewrite <- !app_assoc. reflexivity.
Qed.

Lemma entries_toks_len : forall its, Forall wf_item its -> (length its <= length (entries_toks its))%nat.
Proof.
  induction its as [|it its IH]; intros H; [cbn; lia|]. inversion H as [|it' its' Hit Hits]; subst.
  unfold entries_toks. cbn [flat_map]. destruct (item_head it Hit) as [kwd [T [HT _]]]. rewrite HT.
  specialize (IH Hits). unfold entries_toks in IH. cbn [app length]. rewrite app_length. cbn [length]. unfold tok, str in *. lia.
Qed.

Definition wf_file (f : file) : Prop := wf_header f /\ Forall wf_item (entries_of f).

(* parse_write at the token level: the section loop over the printed tokens returns the document *)
Theorem parse_write_tokens : forall f, wf_file f ->
  exists items,
    parse_loop prs hex (S (length (toks_of (w_file fmt hex f) ++ [eof_tok]))) fl0 (toks_of (w_file fmt hex f) ++ [eof_tok]) = ROk items /\
    assemble items = norm_file f.
Proof.
  intros f [Hh He]. eexists. split; [|apply assemble_file].
  rewrite toks_of_file, <- app_assoc. apply header_loop; [exact Hh|exact He|].
  rewrite !app_length. pose proof (entries_toks_len _ He).
  assert (4 <= length (toks_of (header_pieces f)))%nat.
  { unfold header_pieces. rewrite !toks_of_app, !app_length. unfold w_version, w_new_symbols. tk. cbn [length]. lia. }
  cbn [length]. unfold tok, str in *. lia.
Qed.

End File.
