(* C08 — the integer formatters of the writer and the integer conversions of the parser are
   inverse, and the formatted texts are number tokens of the expressible grammar. *)
From Coq Require Import Arith NArith ZArith List Bool Lia ZifyBool ZifyNat ZifyN.
From Acme.C08 Require Import DbcAst Chars DbcLex DbcParse DbcWrite Expr.
Import ListNotations.
Local Open Scope N_scope.
Ltac Zify.zify_post_hook ::= Z.div_mod_to_equations.

Lemma dec_value_app : forall a b acc, dec_value (a ++ b) acc = dec_value b (dec_value a acc).
Proof. induction a as [|x a IH]; intros b acc; cbn; [reflexivity|apply IH]. Qed.

Lemma digits_fuel_S : forall f n acc, digits_fuel (S f) n acc =
  if n / 10 =? 0 then (48 + n mod 10) :: acc else digits_fuel f (n / 10) ((48 + n mod 10) :: acc).
Proof. reflexivity. Qed.

Lemma digits_fuel_spec : forall f n suf, n < 2 ^ N.of_nat f ->
  exists ds, digits_fuel (S f) n suf = ds ++ suf /\ ds <> [] /\ forallb ascii_digit ds = true /\
             (forall acc, dec_value ds acc = acc * 10 ^ N.of_nat (length ds) + n).
Proof.
  induction f as [|f IH]; intros n suf Hn.
  - assert (n = 0) by (change (2 ^ N.of_nat 0) with 1 in Hn; lia). subst. exists [48]. split; [reflexivity|]. split; [discriminate|].
    split; [reflexivity|]. intros acc. cbn [dec_value length]. unfold digit_val. change (N.of_nat 1) with 1. rewrite N.pow_1_r. lia.
  - rewrite digits_fuel_S. destruct (n / 10 =? 0) eqn:E.
    + exists [48 + n mod 10]. split; [reflexivity|]. split; [discriminate|]. split.
      * cbn [forallb]. unfold ascii_digit. lia.
      * intros acc. cbn [dec_value length]. unfold digit_val. change (N.of_nat 1) with 1. rewrite N.pow_1_r. lia.
    + assert (Hn' : n / 10 < 2 ^ N.of_nat f).
      { rewrite Nat2N.inj_succ, N.pow_succ_r' in Hn. lia. }
      destruct (IH (n / 10) ((48 + n mod 10) :: suf) Hn') as [ds [Hds [Hne [Hdig Hval]]]].
      exists (ds ++ [48 + n mod 10]). rewrite Hds, <- app_assoc. split; [reflexivity|]. split; [|split].
      * destruct ds; discriminate.
      * rewrite forallb_app, Hdig. cbn [forallb]. unfold ascii_digit. lia.
      * intros acc. rewrite dec_value_app, Hval. cbn [dec_value]. unfold digit_val.
        rewrite app_length. cbn [length]. rewrite Nat.add_1_r, Nat2N.inj_succ, N.pow_succ_r'. lia.
Qed.

Lemma size_bound : forall n, n < 2 ^ N.of_nat (N.to_nat (N.size n)).
Proof. intros n. rewrite N2Nat.id. apply N.size_gt. Qed.

Lemma format_uint_spec : forall n,
  format_uint n <> [] /\ forallb ascii_digit (format_uint n) = true /\ dec_value (format_uint n) 0 = n.
Proof.
  intros n. unfold format_uint. destruct (digits_fuel_spec _ n [] (size_bound n)) as [ds [Hds [Hne [Hdig Hval]]]].
  rewrite Hds, app_nil_r. repeat split; try assumption. rewrite Hval. lia.
Qed.

Lemma all_digits_true : forall v, v <> [] -> forallb ascii_digit v = true -> all_digits v = true.
Proof. intros v Hne H. unfold all_digits. destruct v; [congruence|exact H]. Qed.

Lemma parse_uint_format : forall n, n < 4294967296 -> parse_uint (format_uint n) = Some n.
Proof.
  intros n Hn. destruct (format_uint_spec n) as [Hne [Hdig Hval]]. unfold parse_uint.
  rewrite (all_digits_true _ Hne Hdig), Hval. replace (n <? 4294967296) with true by lia. reflexivity.
Qed.

Lemma digits_plain : forall v, v <> [] -> forallb ascii_digit v = true -> plain_number v = true.
Proof.
  intros v Hne H. destruct v as [|c r]; [congruence|]. cbn [forallb] in H. apply andb_true_iff in H. destruct H as [Hc Hr].
  cbn [plain_number]. replace (c =? ch_minus) with false by (unfold ascii_digit, ch_minus in *; lia).
  rewrite Hc. cbn [andb]. rewrite forallb_forall in *. intros x Hx. unfold digit_or_dot. rewrite (Hr x Hx). reflexivity.
Qed.

Lemma format_uint_plain : forall n, plain_number (format_uint n) = true.
Proof. intros n. destruct (format_uint_spec n) as [Hne [Hdig _]]. apply digits_plain; assumption. Qed.

Lemma digits_no_prefix : forall v, forallb ascii_digit v = true -> has_hex_prefix v = false.
Proof.
  intros v H. destruct v as [|a [|b r]]; try reflexivity. cbn [forallb] in H.
  apply andb_true_iff in H. destruct H as [_ H]. apply andb_true_iff in H. destruct H as [Hb _].
  cbn [has_hex_prefix]. unfold ascii_digit, ch_x, ch_X in *. lia.
Qed.

Lemma digits_no_dot : forall v, forallb ascii_digit v = true -> has_dot v = false.
Proof.
  induction v as [|c v IH]; intros H; [reflexivity|]. cbn [forallb] in H. apply andb_true_iff in H. destruct H as [Hc Hv].
  unfold has_dot in *. cbn [existsb]. rewrite (IH Hv). unfold ascii_digit, ch_dot in *. lia.
Qed.

(* ---- FormatInt / ParseInt ---- *)
Definition int64_ok (z : Z) : Prop := (-9223372036854775808 <= z <= 9223372036854775807)%Z.

Lemma parse_int_format : forall z, int64_ok z -> parse_int (format_int z) = Some z.
Proof.
  intros z Hz. unfold int64_ok in Hz. destruct z as [|p|p]; unfold format_int.
  - reflexivity.
  - destruct (format_uint_spec (Z.to_N (Z.pos p))) as [Hne [Hdig Hval]].
    unfold parse_int. destruct (format_uint (Z.to_N (Z.pos p))) as [|c r] eqn:E; [congruence|].
    cbn [forallb] in Hdig. pose proof Hdig as Hdig'. apply andb_true_iff in Hdig'. destruct Hdig' as [Hc _].
    replace (c =? ch_minus) with false by (unfold ascii_digit, ch_minus in *; lia).
    replace (c =? ch_plus) with false by (unfold ascii_digit, ch_plus in *; lia).
    rewrite (all_digits_true (c :: r)) by (try discriminate; exact Hdig). rewrite Hval.
    replace (Z.to_N (Z.pos p) <? 9223372036854775808) with true by lia. f_equal; lia.
  - destruct (format_uint_spec (N.pos p)) as [Hne [Hdig Hval]].
    unfold parse_int. change (ch_minus =? ch_minus) with true. cbv iota.
    rewrite (all_digits_true _ Hne Hdig), Hval.
    replace (N.pos p <=? 9223372036854775808) with true by lia. reflexivity.
Qed.

Lemma format_int_plain : forall z, plain_number (format_int z) = true.
Proof.
  intros z. destruct z as [|p|p]; unfold format_int; try apply format_uint_plain.
  destruct (format_uint_spec (N.pos p)) as [Hne [Hdig _]].
  cbn [plain_number]. change (ch_minus =? ch_minus) with true. cbv iota.
  destruct (format_uint (N.pos p)) as [|d r]; [congruence|]. cbn [forallb] in Hdig.
  apply andb_true_iff in Hdig. destruct Hdig as [Hd Hr]. rewrite Hd. cbn [andb].
  rewrite forallb_forall in *. intros x Hx. unfold digit_or_dot. rewrite (Hr x Hx). reflexivity.
Qed.

Lemma format_int_no_prefix : forall z, has_hex_prefix (format_int z) = false.
Proof.
  intros z. destruct z as [|p|p]; unfold format_int; try (apply digits_no_prefix; apply format_uint_spec).
  destruct (format_uint (N.pos p)) as [|b r]; reflexivity.
Qed.

Lemma format_int_no_dot : forall z, has_dot (format_int z) = false.
Proof.
  intros z. destruct z as [|p|p]; unfold format_int; try (apply digits_no_dot; apply format_uint_spec).
  unfold has_dot. cbn [existsb]. change (ch_minus =? ch_dot) with false. cbn [orb].
  apply (digits_no_dot (format_uint (N.pos p))). apply format_uint_spec.
Qed.

(* ---- formatHexInt / parseHexInt ---- *)
Lemma hex_value_app : forall a b acc, hex_value (a ++ b) acc = hex_value b (hex_value a acc).
Proof. induction a as [|x a IH]; intros b acc; cbn; [reflexivity|apply IH]. Qed.

Lemma hex_digits_fuel_S : forall f n acc, hex_digits_fuel (S f) n acc =
  if n / 16 =? 0 then hex_digit (n mod 16) :: acc else hex_digits_fuel f (n / 16) (hex_digit (n mod 16) :: acc).
Proof. reflexivity. Qed.

Lemma hex_digit_ok : forall d, d < 16 -> ascii_hex (hex_digit d) = true /\ hex_val (hex_digit d) = d.
Proof.
  intros d Hd. unfold hex_digit. destruct (d <? 10) eqn:E.
  - unfold ascii_hex, is_hex, is_digit, no_ud, hex_val. replace (ascii_digit (48 + d)) with true by (unfold ascii_digit; lia).
    split; [reflexivity|lia].
  - unfold ascii_hex, is_hex, is_digit, no_ud, hex_val. replace (ascii_digit (87 + d)) with false by (unfold ascii_digit; lia).
    replace (97 <=? 87 + d) with true by lia. split; [|lia]. cbn [orb andb]. lia.
Qed.

Lemma hex_digits_fuel_spec : forall f n suf, n < 2 ^ N.of_nat f ->
  exists ds, hex_digits_fuel (S f) n suf = ds ++ suf /\ ds <> [] /\ forallb ascii_hex ds = true /\
             (forall acc, hex_value ds acc = acc * 16 ^ N.of_nat (length ds) + n).
Proof.
  induction f as [|f IH]; intros n suf Hn.
  - assert (n = 0) by (change (2 ^ N.of_nat 0) with 1 in Hn; lia). subst. exists [48]. split; [reflexivity|]. split; [discriminate|].
    split; [reflexivity|]. intros acc. cbn [hex_value length]. change (hex_val 48) with 0. change (N.of_nat 1) with 1. rewrite N.pow_1_r. lia.
  - rewrite hex_digits_fuel_S. assert (Hm : n mod 16 < 16) by lia. destruct (hex_digit_ok _ Hm) as [Hh Hv].
    destruct (n / 16 =? 0) eqn:E.
    + exists [hex_digit (n mod 16)]. split; [reflexivity|]. split; [discriminate|]. split.
      * cbn [forallb]. rewrite Hh. reflexivity.
      * intros acc. cbn [hex_value length]. rewrite Hv. change (N.of_nat 1) with 1. rewrite N.pow_1_r. lia.
    + assert (Hn' : n / 16 < 2 ^ N.of_nat f).
      { rewrite Nat2N.inj_succ, N.pow_succ_r' in Hn. lia. }
      destruct (IH (n / 16) (hex_digit (n mod 16) :: suf) Hn') as [ds [Hds [Hne [Hdig Hval]]]].
      exists (ds ++ [hex_digit (n mod 16)]). rewrite Hds, <- app_assoc. split; [reflexivity|]. split; [|split].
      * destruct ds; discriminate.
      * rewrite forallb_app, Hdig. cbn [forallb]. rewrite Hh. reflexivity.
      * intros acc. rewrite hex_value_app, Hval. cbn [hex_value]. rewrite Hv.
        rewrite app_length. cbn [length]. rewrite Nat.add_1_r, Nat2N.inj_succ, N.pow_succ_r'. lia.
Qed.

Lemma hex_digits_fuel_len : forall f n suf k, (1 <= k)%nat -> n < 16 ^ N.of_nat k ->
  (length (hex_digits_fuel f n suf) <= length suf + k)%nat.
Proof.
  induction f as [|f IH]; intros n suf k Hk Hn; [cbn; lia|].
  rewrite hex_digits_fuel_S. destruct (n / 16 =? 0) eqn:E; [cbn [length]; lia|].
  destruct k as [|[|k]]; [lia| |].
  - change (16 ^ N.of_nat 1) with 16 in Hn. lia.
  - specialize (IH (n / 16) (hex_digit (n mod 16) :: suf) (S k)). cbn [length] in IH.
    assert (n / 16 < 16 ^ N.of_nat (S k)).
    { rewrite (Nat2N.inj_succ (S k)), N.pow_succ_r' in Hn. lia. }
    lia.
Qed.

Definition u32_ok (n : N) : Prop := n < 4294967296.

Lemma format_hex_true_spec : forall n, u32_ok n ->
  hex_number (format_hex true n) = true /\ parse_hex_int true (format_hex true n) = Some n.
Proof.
  intros n Hn. unfold u32_ok in Hn. unfold format_hex.
  destruct (hex_digits_fuel_spec _ n [] (size_bound n)) as [ds [Hds [Hne [Hdig Hval]]]].
  pose proof (hex_digits_fuel_len (S (N.to_nat (N.size n))) n [] 8) as Hlen.
  rewrite Hds, app_nil_r in *. cbn [length] in Hlen.
  assert (Hl : (length ds <= 8)%nat) by (apply Hlen; [lia|exact Hn]).
  destruct ds as [|h hs]; [congruence|]. cbn [forallb] in Hdig. apply andb_true_iff in Hdig. destruct Hdig as [Hh Hhs].
  split.
  - cbn [hex_number]. change (ch_0 =? ch_0) with true. change (ch_x =? ch_x) with true. rewrite Hh, Hhs. cbn [andb length] in *.
    apply Nat.leb_le. lia.
  - unfold parse_hex_int. cbn [negb has_hex_prefix]. change (ch_0 =? ch_0) with true. change (ch_x =? ch_x) with true.
    cbn [andb orb skipn].
    change (forallb (is_hex no_ud) (h :: hs)) with (ascii_hex h && forallb ascii_hex hs). rewrite Hh, Hhs. cbn [andb].
    rewrite Hval. replace (0 * 16 ^ N.of_nat (length (h :: hs)) + n <? 4294967296) with true by lia.
    f_equal; lia.
Qed.

Lemma hex_number_prefix : forall v, hex_number v = true -> has_hex_prefix v = true.
Proof.
  intros v H. destruct v as [|a [|b [|h hs]]]; try discriminate. cbn [hex_number] in H.
  repeat (apply andb_true_iff in H; destruct H as [H ?]). cbn [has_hex_prefix]. rewrite H.
  match goal with H1 : (b =? ch_x) = true |- _ => rewrite H1 end. reflexivity.
Qed.

(* ---- the number token of a hex-typed value in either mode ---- *)
Lemma format_hex_wf : forall up hex n, u32_ok n -> tok_wf up KNumber (format_hex hex n).
Proof.
  intros up hex n Hn. destruct hex.
  - right. apply format_hex_true_spec; exact Hn.
  - left. apply format_uint_plain.
Qed.

Lemma parse_hex_format : forall hex n, u32_ok n -> parse_hex_int hex (format_hex hex n) = Some n.
Proof.
  intros hex n Hn. destruct hex.
  - apply format_hex_true_spec; exact Hn.
  - unfold parse_hex_int, format_hex. cbn [negb]. apply parse_uint_format; exact Hn.
Qed.

(* ---- mux indicators ---- *)
Lemma mux_auto_digits : forall ds b, forallb ascii_digit ds = true -> ds <> [] \/ b = true ->
  forall tail, mux_auto no_ud (ds ++ tail) true b = mux_auto no_ud tail true (b || negb (match ds with [] => true | _ => false end)).
Proof.
  induction ds as [|d ds IH]; intros b Hd Hne tail.
  - cbn [app]. rewrite orb_false_r. reflexivity.
  - cbn [forallb] in Hd. apply andb_true_iff in Hd. destruct Hd as [H1 H2].
    cbn [app mux_auto]. replace (is_digit no_ud d) with true by (unfold is_digit; rewrite H1; reflexivity). cbv iota.
    rewrite (IH true H2 (or_intror eq_refl) tail). cbn [orb negb]. rewrite orb_true_r. reflexivity.
Qed.

Lemma digits_alnum : forall ds, forallb ascii_digit ds = true -> forallb (is_alnum no_ud) ds = true.
Proof.
  intros ds H. rewrite forallb_forall in *. intros x Hx. specialize (H x Hx).
  unfold is_alnum, is_digit. rewrite H. rewrite orb_true_r. reflexivity.
Qed.

Lemma not_keyword_m : forall w, is_keyword_text (ch_m :: w) = false.
Proof.
  intros w. unfold is_keyword_text, keyword_of, keyword_table. cbn [lookup_kw].
  repeat (match goal with |- context [str_eqb ?k (ch_m :: w)] => change (str_eqb k (ch_m :: w)) with false; cbv iota end).
  reflexivity.
Qed.

Lemma mux_word_m : forall n, wf_word no_ud KMux (ch_m :: format_uint n) = true.
Proof.
  intros n. destruct (format_uint_spec n) as [Hne [Hdig _]]. cbn [wf_word]. change (is_letter ch_m) with true.
  rewrite (digits_alnum _ Hdig). cbn [andb]. unfold classify_text. change (ch_m =? ch_m) with true.
  pose proof (mux_auto_digits (format_uint n) false Hdig (or_introl Hne) []) as H. rewrite app_nil_r in H. rewrite H.
  destruct (format_uint n) as [|d r]; [congruence|]. reflexivity.
Qed.

Lemma mux_word_mM : forall n, wf_word no_ud KMux (ch_m :: format_uint n ++ [ch_M]) = true.
Proof.
  intros n. destruct (format_uint_spec n) as [Hne [Hdig _]]. cbn [wf_word]. change (is_letter ch_m) with true.
  rewrite forallb_app, (digits_alnum _ Hdig). change (forallb (is_alnum no_ud) [ch_M]) with true. cbn [andb].
  unfold classify_text. change (ch_m =? ch_m) with true.
  rewrite (mux_auto_digits (format_uint n) false Hdig (or_introl Hne) [ch_M]).
  destruct (format_uint n) as [|d r]; [congruence|]. reflexivity.
Qed.

Lemma mux_of_m : forall n, u32_ok n -> mux_of (ch_m :: format_uint n) = Some (false, Some n).
Proof.
  intros n Hn. destruct (format_uint_spec n) as [Hne [Hdig _]]. unfold mux_of.
  assert (Hl : last_is_M (ch_m :: format_uint n) = false).
  { unfold last_is_M. cbn [rev]. destruct (rev (format_uint n)) as [|c r] eqn:E.
    - apply (f_equal (@rev _)) in E. rewrite rev_involutive in E. cbn [rev] in E. congruence.
    - cbn [app]. assert (In c (format_uint n)) by (apply in_rev; rewrite E; left; reflexivity).
      rewrite forallb_forall in Hdig. specialize (Hdig c H). unfold ascii_digit, ch_M in *. lia. }
  rewrite Hl. change (first_is_m (ch_m :: format_uint n)) with true. cbv iota. cbn [tl].
  rewrite (parse_uint_format n Hn). reflexivity.
Qed.

Lemma mux_of_mM : forall n, u32_ok n -> mux_of (ch_m :: format_uint n ++ [ch_M]) = Some (true, Some n).
Proof.
  intros n Hn. unfold mux_of.
  assert (Hl : last_is_M (ch_m :: format_uint n ++ [ch_M]) = true).
  { unfold last_is_M. change (ch_m :: format_uint n ++ [ch_M]) with ((ch_m :: format_uint n) ++ [ch_M]).
    rewrite rev_app_distr. reflexivity. }
  rewrite Hl. change (first_is_m (ch_m :: format_uint n ++ [ch_M])) with true. cbv iota. cbn [tl].
  rewrite removelast_app by discriminate. cbn [removelast]. rewrite app_nil_r.
  rewrite (parse_uint_format n Hn). reflexivity.
Qed.

(* ---- ranges ---- *)
Lemma split_on_digits : forall a, forallb ascii_digit a = true -> split_on ch_minus a = [a].
Proof.
  induction a as [|x a IH]; intros H; [reflexivity|]. cbn [forallb] in H. apply andb_true_iff in H. destruct H as [Hx Ha].
  cbn [split_on]. replace (x =? ch_minus) with false by (unfold ascii_digit, ch_minus in *; lia). rewrite (IH Ha). reflexivity.
Qed.

Lemma split_on_range : forall a b, forallb ascii_digit a = true -> forallb ascii_digit b = true ->
  split_on ch_minus (a ++ ch_minus :: b) = [a; b].
Proof.
  induction a as [|x a IH]; intros b Ha Hb; cbn [app split_on].
  - change (ch_minus =? ch_minus) with true. cbv iota. rewrite (split_on_digits b Hb). reflexivity.
  - cbn [forallb] in Ha. apply andb_true_iff in Ha. destruct Ha as [Hx Ha].
    replace (x =? ch_minus) with false by (unfold ascii_digit, ch_minus in *; lia). rewrite (IH b Ha Hb). reflexivity.
Qed.

Lemma range_wf : forall a b, range_number (format_uint a ++ ch_minus :: format_uint b).
Proof.
  intros a b. destruct (format_uint_spec a) as [Ha [Hda _]]. destruct (format_uint_spec b) as [Hb [Hdb _]].
  exists (format_uint a), (format_uint b). auto.
Qed.
