(* C08 — parse_output_expressible: every document the parser model returns is expressible.
   Part A: the lexer only emits well-formed identifier and string tokens.
   Part B: every section parser builds its result from such tokens and checked conversions.
   Part C: the assembled document satisfies wf_file. *)
From Coq Require Import Arith NArith ZArith List Bool Lia ZifyBool ZifyNat ZifyN.
From Acme.C08 Require Import DbcAst Chars DbcLex DbcParse DbcWrite Expr ProofsLex ProofsPos ProofsLexPrint ProofsFormat ProofsSections ProofsFile.
Import ListNotations.
Local Open Scope N_scope.

Lemma tkind_eqb_eq' : forall a b, tkind_eqb a b = true -> a = b.
Proof. intros a b H. destruct a, b; try reflexivity; discriminate H. Qed.

Definition tok_good (up : N -> bool) (t : tok) : Prop :=
  match fst t with
  | KIdent => wf_word up KIdent (snd t) = true
  | KString => expr_string (snd t) = true
  | KNumber => not_special (snd t) = true
  | _ => True
  end.

(* ---- Part A: the lexer ---- *)
Section LexGood.
Variable up : N -> bool.
Hypothesis Hup : ud_ok up.

Lemma digit_not_letter : forall d, is_digit up d = true -> is_letter d = false.
Proof.
  intros d H. unfold is_digit in H. apply orb_true_iff in H. destruct H as [H|H].
  - unfold ascii_digit, is_letter in *. lia.
  - destruct (N.ltb_spec d 128) as [Hs|Hs]; [rewrite (Hup d Hs) in H; discriminate|]. unfold is_letter. lia.
Qed.

(* a number token that starts with a sign continues with a digit *)
Lemma num_loop_sign_head : forall l first rng k w rest,
  (first =? ch_minus) || (first =? ch_plus) = true ->
  num_loop up l first false first false rng = (k, w, rest) ->
  match w with [] => k <> KNumber | d :: _ => is_letter d = false end.
Proof.
  intros l first rng k w rest Hs H. destruct l as [|c r]; cbn [num_loop] in H.
  - inversion H; subst. unfold finish_number. rewrite Hs. cbn. discriminate.
  - assert (H0 : (first =? ch_0) = false) by (unfold ch_plus, ch_minus, ch_0 in *; lia).
    rewrite H0 in H. cbn [andb] in H.
    assert (Hfin : forall X, (finish_number first false rng, @nil N, X) = (k, w, rest) -> match w with [] => k <> KNumber | d :: _ => is_letter d = false end).
    { intros X HH. inversion HH; subst. unfold finish_number. rewrite Hs. cbn. discriminate. }
    assert (Hp : negb (first =? ch_minus) && negb (first =? ch_plus) = false) by (unfold ch_plus, ch_minus in *; lia).
    destruct (negb (is_digit up c) && negb (c =? ch_dot)) eqn:E1.
    + replace (((c =? ch_e) || (c =? ch_E)) && negb (first =? ch_minus) && negb (first =? ch_plus) && negb (first =? ch_dot)) with false in H
        by (destruct ((c =? ch_e) || (c =? ch_E)); cbn [andb]; [rewrite Hp|]; reflexivity).
      rewrite andb_false_r in H. cbn [andb] in H. eapply Hfin; eauto.
    + replace ((c =? ch_dot) && ((first =? ch_minus) || (first =? ch_plus))) with (c =? ch_dot) in H
        by (rewrite Hs, andb_true_r; reflexivity).
      destruct (c =? ch_dot) eqn:Ed; [eapply Hfin; eauto|].
      destruct (num_loop up r first false c true rng) as [[k' w'] rest'] eqn:E. inversion H; subst. rename c into d.
      apply digit_not_letter. destruct (is_digit up d) eqn:Edig; [reflexivity|]. rewrite ?Edig, ?Ed in E1. discriminate E1.
Qed.

Lemma span_alnum_all : forall l w rest, span_alnum up l = (w, rest) -> forallb (is_alnum up) w = true.
Proof.
  induction l as [|c r IH]; intros w rest H; cbn in H.
  - inversion H; reflexivity.
  - destruct (is_alnum up c) eqn:E.
    + destruct (span_alnum up r) as [w' rest'] eqn:E2. inversion H; subst. cbn [forallb]. rewrite E. eapply IH; eauto.
    + inversion H; reflexivity.
Qed.

Lemma str_loop_closed : forall l w rest, str_loop l = (true, w, rest) ->
  exists v, w = v ++ [ch_quote] /\ expr_string v = true.
Proof.
  induction l as [|c r IH]; intros w rest H; cbn in H; [discriminate|].
  destruct (c =? ch_quote) eqn:Eq.
  - inversion H; subst. apply N.eqb_eq in Eq. subst. exists []. split; reflexivity.
  - destruct (c =? 0) eqn:E0; [discriminate|].
    destruct (str_loop r) as [[b w'] rest'] eqn:E. inversion H; subst.
    destruct (IH _ _ eq_refl) as [v [Hv He]]. exists (c :: v). split; [rewrite Hv; reflexivity|].
    unfold expr_string in *. cbn [forallb]. rewrite Eq, E0, He. reflexivity.
Qed.

Definition num_kind (k : tkind) : Prop := k = KPunct \/ k = KRange \/ k = KNumber \/ k = KError.

Lemma finish_number_kinds : forall f m r, num_kind (finish_number f m r).
Proof. intros. unfold finish_number, num_kind. destruct (_ && _); [auto|]. destruct r; auto. Qed.

Lemma scan_hex_kinds : forall l k w rest, scan_hex up l = (k, w, rest) -> num_kind k.
Proof.
  intros l k w rest H. unfold scan_hex, num_kind in *. destruct l as [|x [|h r']]; try (inversion H; auto).
  destruct (is_hex up h); [destruct (take_hex up 8 r')|]; inversion H; auto.
Qed.

Lemma scan_exp_kinds : forall l k w rest, scan_exp up l = (k, w, rest) -> num_kind k.
Proof.
  intros l k w rest H. unfold scan_exp, num_kind in *. destruct l as [|e [|c1 r1]]; try (inversion H; auto).
  destruct ((c1 =? ch_minus) || (c1 =? ch_plus)).
  - destruct r1 as [|d r2]; [inversion H; auto|].
    destruct (is_digit up d); [destruct (span_digits up (d :: r2))|]; inversion H; auto.
  - destruct (is_digit up c1); [destruct (span_digits up (c1 :: r1))|]; inversion H; auto.
Qed.

Lemma num_loop_kinds : forall l first fd prev more rng k w rest,
  num_loop up l first fd prev more rng = (k, w, rest) -> num_kind k.
Proof.
  fix IH 1. intros l first fd prev more rng k w rest H.
  destruct l as [|c r]; cbn [num_loop] in H.
  - inversion H. apply finish_number_kinds.
  - destruct ((first =? ch_0) && ((c =? ch_x) || (c =? ch_X))); [eapply scan_hex_kinds; eauto|].
    assert (Hfin : forall X Y, (finish_number first more rng, X, Y) = (k, w, rest) -> num_kind k).
    { intros X Y HH. inversion HH. apply finish_number_kinds. }
    destruct (negb (is_digit up c) && negb (c =? ch_dot)).
    + destruct (((c =? ch_e) || (c =? ch_E)) && negb (prev =? ch_minus) && negb (prev =? ch_plus) && negb (prev =? ch_dot));
        [eapply scan_exp_kinds; eauto|].
      destruct ((c =? ch_minus) && fd && negb rng).
      * destruct r as [|d r2]; [eapply Hfin; eauto|].
        destruct (is_digit up d); [|eapply Hfin; eauto].
        destruct (num_loop up r2 first fd prev more true) as [[k' w'] rest'] eqn:E.
        inversion H; subst. eapply IH; eauto.
      * eapply Hfin; eauto.
    + destruct ((c =? ch_dot) && ((prev =? ch_minus) || (prev =? ch_plus))); [eapply Hfin; eauto|].
      destruct (num_loop up r first fd c true rng) as [[k' w'] rest'] eqn:E.
      inversion H; subst. eapply IH; eauto.
Qed.

Lemma scan_after'_good : forall fd c r k w rest,
  (c < 128 -> fd = ascii_digit c) ->
  scan_after' up fd c r = (k, w, rest) -> tok_good up (k, token_value k c w).
Proof.
  intros fd c r k w rest Hfd H. unfold scan_after' in H.
  destruct (c =? 0); [inversion H; exact I|].
  destruct (is_space c); [destruct (span_space r); inversion H; exact I|].
  destruct (is_letter c) eqn:Hl.
  { destruct (span_alnum up r) as [w' rest'] eqn:E. inversion H; subst.
    unfold tok_good. cbn [fst snd].
    destruct (classify_text up c w) eqn:Ek; try exact I;
      try (exfalso; unfold classify_text in Ek; destruct (_ || _); [discriminate|]; destruct (is_keyword_text _); discriminate).
    cbn [token_value wf_word]. rewrite Hl, (span_alnum_all _ _ _ E), Ek. reflexivity. }
  destruct (fd || (c =? ch_minus) || (c =? ch_plus)).
  { pose proof (num_loop_kinds _ _ _ _ _ _ _ _ _ H) as Hk. unfold tok_good. cbn [fst snd].
    destruct Hk as [Hk|[Hk|[Hk|Hk]]]; subst; try exact I.
    cbn [token_value not_special]. destruct ((c =? ch_plus) || (c =? ch_minus)) eqn:Es; [|rewrite Hl; reflexivity].
    assert (fd = false) by (rewrite Hfd; unfold ch_plus, ch_minus, ascii_digit in *; lia). subst fd.
    rewrite orb_comm in Es. pose proof (num_loop_sign_head _ _ _ _ _ _ Es H) as Hh. destruct w as [|d w']; [congruence|]. rewrite Hh. reflexivity. }
  destruct (c =? ch_quote).
  { destruct (str_loop r) as [[b w'] rest'] eqn:E. inversion H; subst. destruct b; [|exact I].
    destruct (str_loop_closed _ _ _ E) as [v [Hv He]]. subst w. unfold tok_good. cbn [fst snd token_value].
    rewrite removelast_app by discriminate. cbn [removelast]. rewrite app_nil_r. exact He. }
  destruct (is_punct_char c); inversion H; exact I.
Qed.

End LexGood.

Lemma lex_fuel_good : forall ud, ud_ok ud -> forall fuel inp p start raw,
  lex_fuel ud fuel inp p start = Some raw -> Forall (fun t => tok_good (peek_digits ud) (strip t)) raw.
Proof.
  intros ud Hud. induction fuel as [|f IH]; intros inp p start raw H; [discriminate|].
  destruct inp as [|c r]; cbn [lex_fuel] in H.
  - inversion H; subst. constructor; [exact I|constructor].
  - unfold scan_after in H. destruct (scan_after' (peek_digits ud) (is_digit ud c) c r) as [[k w] rest] eqn:E.
    destruct (lex_fuel ud f rest _ _) as [ts|] eqn:E2; [|discriminate]. inversion H; subst. constructor.
    + unfold strip. cbn [rt_kind rt_value]. eapply scan_after'_good; [exact (ProofsLexPrint.peek_digits_ok ud Hud)| |exact E].
      intros Hc. unfold is_digit. rewrite (Hud c Hc). apply orb_false_r.
    + eapply IH; eauto.
Qed.

Lemma lex_good : forall ud, ud_ok ud -> forall text raw, lex ud text = Some raw ->
  Forall (tok_good (peek_digits ud)) (map strip (pfilter raw)).
Proof.
  intros ud Hud text raw H. unfold lex in H. apply (lex_fuel_good ud Hud) in H.
  rewrite Forall_forall in *. intros t Ht. apply in_map_iff in Ht. destruct Ht as [x [Hx Hin]]. subst.
  apply H. apply ProofsPos.pfilter_In. exact Hin.
Qed.

(* ---- Part B: the parsers ---- *)
Section ParseGood.
Variable up : N -> bool.
Variable prs : str -> option N.
Variable hex : bool.
(* strconv.ParseFloat returns a finite value when it returns no error *)
Hypothesis Hprs_fin : forall v b, not_special v = true -> prs v = Some b -> fin b = true.

Notation tg := (tok_good up).

Definition good {A} (W : A -> Prop) (p : list tok -> pres A) : Prop :=
  forall ts a r, Forall tg ts -> p ts = POk a r -> W a /\ Forall tg r.

Lemma next_good : forall ts t r, Forall tg ts -> next ts = (t, r) -> tg t /\ Forall tg r.
Proof.
  intros [|x l] t r F H; inversion H; subst.
  - split; [exact I|constructor].
  - inversion F; subst. split; assumption.
Qed.

Lemma tg_ident : forall t, tg t -> kind_is KIdent t = true -> expr_ident up (snd t) = true.
Proof. intros [k v] H Hk. unfold kind_is in Hk. cbn [fst] in Hk. apply tkind_eqb_eq' in Hk. subst. exact H. Qed.

Lemma tg_number : forall t, tg t -> kind_is KNumber t = true -> not_special (snd t) = true.
Proof. intros [k v] H Hk. unfold kind_is in Hk. cbn [fst] in Hk. apply tkind_eqb_eq' in Hk. subst. exact H. Qed.

Lemma tg_string : forall t, tg t -> kind_is KString t = true -> expr_string (snd t) = true.
Proof. intros [k v] H Hk. unfold kind_is in Hk. cbn [fst] in Hk. apply tkind_eqb_eq' in Hk. subst. exact H. Qed.

Lemma parse_uint_u32 : forall v n, parse_uint v = Some n -> u32_ok n.
Proof.
  intros v n H. unfold parse_uint in H. destruct (all_digits v); [|discriminate].
  destruct (dec_value v 0 <? 4294967296) eqn:E; [|discriminate]. inversion H; subst. unfold u32_ok. lia.
Qed.

Lemma parse_int_i64 : forall v z, parse_int v = Some z -> int64_ok z.
Proof.
  intros v z H. unfold parse_int in H.
  destruct (match v with
            | [] => (false, v)
            | c :: r => if c =? ch_minus then (true, r) else if c =? ch_plus then (false, r) else (false, v)
            end) as [neg body].
  destruct (all_digits body); [|discriminate]. unfold int64_ok. destruct neg.
  - destruct (dec_value body 0 <=? 9223372036854775808) eqn:E; [|discriminate]. inversion H; subst. lia.
  - destruct (dec_value body 0 <? 9223372036854775808) eqn:E; [|discriminate]. inversion H; subst. lia.
Qed.

Lemma parse_hex_u32 : forall v n, parse_hex_int hex v = Some n -> u32_ok n.
Proof.
  intros v n H. unfold parse_hex_int in H. destruct (negb hex); [eapply parse_uint_u32; eauto|].
  destruct (has_hex_prefix v); [|discriminate]. destruct (skipn 2 v) as [|h body]; [discriminate|].
  destruct (forallb (is_hex no_ud) (h :: body)); [|discriminate].
  destruct (hex_value (h :: body) 0 <? 4294967296) eqn:E; [|discriminate]. injection H as <-. unfold u32_ok. apply N.ltb_lt. exact E.
Qed.

(* one step of a parser body, keeping the facts *)
Ltac gstep H :=
  match type of H with
  | bind ?e _ = POk _ _ =>
    let x := fresh "x" in let E := fresh "E" in
    remember e as x eqn:E in H; symmetry in E; destruct x; cbn [bind] in H; [ | discriminate H | discriminate H ]
  | (let '(_, _) := ?e in _) = POk _ _ =>
    let x := fresh "x" in let E := fresh "E" in
    remember e as x eqn:E in H; symmetry in E; destruct x
  | (if ?b then _ else _) = POk _ _ =>
    let x := fresh "x" in let E := fresh "C" in
    remember b as x eqn:E in H; symmetry in E; destruct x; try discriminate H
  | match ?y with _ => _ end = POk _ _ =>
    let x := fresh "x" in let E := fresh "M" in
    remember y as x eqn:E in H; symmetry in E; destruct x; try discriminate H
  end.
Ltac gstep_any := match goal with H : _ = POk _ _ |- _ => gstep H end.
Ltac ginv := repeat match goal with E : POk _ _ = POk _ _ |- _ => inversion E; subst; clear E end.

Create HintDb gdb discriminated.

Ltac gfacts :=
  repeat match goal with
  | F : Forall (tok_good _) ?ts, E : next ?ts = (_, _) |- _ =>
    let A := fresh "T" in let B := fresh "F" in destruct (next_good _ _ _ F E) as [A B]; clear E
  | F : Forall (tok_good _) ?ts, E : ?p ?ts = POk _ _ |- _ =>
    let G := fresh "G" in let A := fresh "W" in let B := fresh "F" in
    eassert (G : good _ p) by (eauto with gdb); destruct (G _ _ _ F E) as [A B]; clear E G
  end.

Ltac wfun :=
  unfold wf_value_table, wf_message, wf_msg_transmitter, wf_env_var, wf_env_var_data, wf_signal_type, wf_signal_type_ref,
    wf_comment, wf_attribute, wf_attr_default, wf_attr_value, wf_value_encoding, wf_signal_group, wf_sig_ext_value_type,
    wf_ext_mux, wf_signal, wf_range, wf_vd, expr_ident, tok_good in *;
  cbn [fst snd vt_name vt_values ed_name ed_size tx_id tx_names vd_id vd_name wf_ref wf_val wf_attr_type] in *.

Ltac gsolve :=
  wfun;
  repeat match goal with
  | |- _ /\ _ => split
  | |- True => exact I
  end;
  try assumption;
  try (eapply tg_ident; eassumption); try (eapply tg_string; eassumption);
  try (eapply parse_uint_u32; eassumption); try (eapply parse_int_i64; eassumption);
  try (eapply parse_hex_u32; eassumption); try (eapply Hprs_fin; [eapply tg_number; eassumption|eassumption]);
  try discriminate; auto.

Ltac gtac H := repeat gstep H; inversion H; subst; repeat gstep_any; ginv; gfacts; cbn beta in *; gsolve.

Lemma expect_punct_good : forall c, good (fun _ => True) (expect_punct c).
Proof. intros c ts a r F H. unfold expect_punct in H. gtac H. Qed.

Lemma expect_kind_good : forall k, good (fun v => tg (k, v)) (expect_kind k).
Proof.
  intros k ts a r F H. unfold expect_kind in H. repeat gstep H. inversion H; subst. gfacts. split; [|assumption].
  destruct t as [k' v]. unfold kind_is in C. cbn [fst] in C. apply tkind_eqb_eq' in C. subst. exact T.
Qed.

Lemma p_uint_good : good u32_ok p_uint.
Proof. intros ts a r F H. unfold p_uint in H. gtac H. Qed.

Lemma p_double_good : good (fun b => fin b = true) (p_double prs).
Proof. intros ts a r F H. unfold p_double in H. gtac H. Qed.

Lemma p_int_good : good int64_ok p_int.
Proof. intros ts a r F H. unfold p_int in H. gtac H. Qed.

Lemma p_hex_good : good u32_ok (p_hex hex).
Proof. intros ts a r F H. unfold p_hex in H. gtac H. Qed.

Hint Resolve expect_punct_good expect_kind_good p_uint_good p_double_good p_int_good p_hex_good : gdb.


Lemma p_byte_order_good : good (fun _ => True) p_byte_order.
Proof. intros ts a r F H. unfold p_byte_order in H. gtac H. Qed.
Lemma p_sign_good : good (fun _ => True) p_sign.
Proof. intros ts a r F H. unfold p_sign in H. gtac H. Qed.
Lemma p_ev_type_good : good (fun _ => True) p_ev_type.
Proof. intros ts a r F H. unfold p_ev_type in H. gtac H. Qed.
Lemma p_ext_type_good : good (fun _ => True) p_ext_type.
Proof. intros ts a r F H. unfold p_ext_type in H. gtac H. Qed.

Lemma index_of_bound : forall l w i j, index_of l w i = Some j -> j < i + N.of_nat (length l).
Proof.
  induction l as [|x l IH]; intros w i j H; cbn in H; [discriminate|].
  destruct (str_eqb x w); [inversion H; subst; cbn [length]; lia|]. apply IH in H. cbn [length]. lia.
Qed.

Lemma p_access_good : good (fun a => a < 8) p_access.
Proof.
  intros ts a r F H. unfold p_access in H. repeat gstep H. inversion H; subst. gfacts. split; [|assumption].
  apply index_of_bound in M. exact M.
Qed.

Lemma p_attr_name_good : good (fun v => expr_attr_name v = true) p_attr_name.
Proof.
  intros ts a r F H. unfold p_attr_name in H. repeat gstep H. inversion H; subst. gfacts. split; [|assumption].
  unfold expr_attr_name. rewrite (tg_string _ T C). unfold has_blank in C0. rewrite C0. reflexivity.
Qed.

Hint Resolve p_byte_order_good p_sign_good p_ev_type_good p_ext_type_good p_access_good p_attr_name_good : gdb.

Lemma parse_version_good : good (fun v => expr_string v = true) parse_version.
Proof. intros ts a r F H. unfold parse_version in H. gfacts. split; assumption. Qed.

Lemma ns_loop_good : good wf_ns ns_loop.
Proof.
  intros ts. induction ts as [|t l IH]; intros a r F H; cbn in H.
  - inversion H; subst. split; constructor.
  - inversion F as [|t' l' Ht Hl]; subst. repeat gstep H; try (inversion H; subst; split; [constructor|assumption]).
    + inversion H; subst. destruct (IH _ _ Hl E) as [W F']. split; [constructor; assumption|assumption].
    + apply IH; assumption.
Qed.
Hint Resolve ns_loop_good : gdb.

Lemma parse_new_symbols_good : good wf_ns parse_new_symbols.
Proof. intros ts a r F H. unfold parse_new_symbols in H. gtac H. Qed.

Lemma p_uint_other_good : forall b, good u32_ok (fun ts => p_uint_other ts b).
Proof. intros b ts a r F H. unfold p_uint_other in H. gtac H. Qed.

Lemma parse_bit_timing_good : good wf_bs parse_bit_timing.
Proof.
  intros ts a r F H. unfold parse_bit_timing in H. repeat gstep H.
  - inversion H; subst. gfacts. split; [|assumption]. repeat split; unfold u32_ok; cbn; lia.
  - inversion H; subst. gfacts.
    repeat match goal with
    | F : Forall (tok_good _) ?ts, E : p_uint_other ?ts _ = POk _ _ |- _ =>
      let A := fresh "W" in let B := fresh "F" in destruct (p_uint_other_good true _ _ _ F E) as [A B]; clear E; gfacts
    end.
    split; [repeat split; assumption|assumption].
Qed.

Lemma idents_loop_good : forall ts l r, Forall tg ts -> idents_loop ts = (l, r) -> idents_ok up l /\ Forall tg r.
Proof.
  induction ts as [|t ts IH]; intros l r F H; cbn in H.
  - inversion H; subst. split; constructor.
  - inversion F as [|t' l' Ht Hl]; subst. destruct (kind_is KIdent t) eqn:C.
    + destruct (idents_loop ts) as [l0 r0] eqn:E. inversion H; subst. destruct (IH _ _ Hl eq_refl) as [W F'].
      split; [constructor; [eapply tg_ident; eauto|exact W]|exact F'].
    + inversion H; subst. split; [constructor|exact F].
Qed.

Ltac gfacts2 :=
  repeat match goal with
  | F : Forall (tok_good _) ?ts, E : idents_loop ?ts = (_, _) |- _ =>
    let A := fresh "W" in let B := fresh "F" in destruct (idents_loop_good _ _ _ F E) as [A B]; clear E
  end; gfacts;
  repeat match goal with
  | F : Forall (tok_good _) ?ts, E : idents_loop ?ts = (_, _) |- _ =>
    let A := fresh "W" in let B := fresh "F" in destruct (idents_loop_good _ _ _ F E) as [A B]; clear E; gfacts
  end.

Lemma parse_nodes_good : good (idents_ok up) parse_nodes.
Proof. intros ts a r F H. unfold parse_nodes in H. repeat gstep H. inversion H; subst. gfacts2. gsolve. Qed.

Lemma value_descs_good : good (Forall wf_vd) value_descs.
Proof.
  intros ts. induction ts as [ts IH] using (well_founded_induction (well_founded_ltof _ (@length tok))).
  intros a r F H. destruct ts as [|t l]; cbn in H.
  - inversion H; subst. split; constructor.
  - inversion F as [|t' l' Ht Hl]; subst. repeat gstep H; try (inversion H; subst; split; [constructor|assumption]).
    inversion H; subst. inversion Hl as [|t2 l2 Ht2 Hl2]; subst.
    match goal with E : value_descs _ = POk _ _ |- _ => apply IH in E; [|unfold ltof; cbn; lia|exact Hl2]; destruct E as [W F'] end.
    split; [|exact F']. constructor; [|exact W]. split; cbn [vd_id vd_name]; [eapply parse_uint_u32; eauto|eapply tg_string; eauto].
Qed.
Hint Resolve value_descs_good : gdb.

Lemma parse_value_table_good : good (wf_value_table up) parse_value_table.
Proof. intros ts a r F H. unfold parse_value_table in H. gtac H. Qed.

Lemma comma_idents_good : good (idents_ok up) comma_idents.
Proof.
  intros ts. induction ts as [ts IH] using (well_founded_induction (well_founded_ltof _ (@length tok))).
  intros a r F H. destruct ts as [|t l]; cbn in H.
  - inversion H; subst. split; constructor.
  - inversion F as [|t' l' Ht Hl]; subst. repeat gstep H; try (inversion H; subst; split; [constructor|assumption]).
    inversion H; subst. inversion Hl as [|t2 l2 Ht2 Hl2]; subst.
    match goal with E : comma_idents _ = POk _ _ |- _ => apply IH in E; [|unfold ltof; cbn; lia|exact Hl2]; destruct E as [W F'] end.
    split; [|exact F']. constructor; [eapply tg_ident; eauto|exact W].
Qed.
Hint Resolve comma_idents_good : gdb.

Lemma mux_of_good : forall v b m, mux_of v = Some (b, m) -> match m with Some n => u32_ok n | None => True end.
Proof.
  intros v b m H. unfold mux_of in H. destruct (first_is_m v).
  - destruct (parse_uint _) eqn:E; [|discriminate]. inversion H; subst. eapply parse_uint_u32; eauto.
  - inversion H; subst. exact I.
Qed.

Lemma parse_signal_good : good (wf_signal up) (parse_signal prs).
Proof.
  intros ts a r F H. unfold parse_signal in H. repeat gstep H. inversion H; subst. repeat gstep_any; ginv; gfacts.
  - (* with a mux indicator *)
    cbn beta in *. destruct a1 as [mb mm]. pose proof (mux_of_good _ _ _ M) as Hm. unfold wf_signal.
    cbn [sg_name sg_mux sg_start sg_size sg_factor sg_offset sg_min sg_max sg_unit sg_receivers fst snd].
    repeat split; try assumption; try discriminate. constructor; assumption.
  - cbn beta in *. unfold wf_signal.
    cbn [sg_name sg_mux sg_start sg_size sg_factor sg_offset sg_min sg_max sg_unit sg_receivers fst snd].
    repeat split; try assumption; try discriminate. constructor; assumption.
Qed.
Hint Resolve parse_signal_good : gdb.

Lemma signals_loop_good : forall fuel, good (Forall (wf_signal up)) (signals_loop prs fuel).
Proof.
  induction fuel as [|f IH]; intros ts a r F H; cbn in H.
  - inversion H; subst. split; [constructor|assumption].
  - repeat gstep H; try (inversion H; subst; split; [constructor|assumption]).
    inversion H; subst. gfacts.
    try match goal with E : signals_loop _ _ _ = POk _ _, F : Forall _ ?x |- _ => destruct (IH _ _ _ F E) as [W' F'] end.
    split; [constructor; assumption|assumption].
Qed.

Lemma parse_message_good : good (wf_message up) (parse_message prs).
Proof.
  intros ts a r F H. unfold parse_message in H. repeat gstep H. inversion H; subst. gfacts.
  match goal with E : signals_loop _ _ ?x = POk _ _, F : Forall _ ?x |- _ => destruct (signals_loop_good _ _ _ _ F E) as [W' F'] end.
  split; [|assumption]. unfold wf_message. cbn [ms_id ms_name ms_size ms_tx ms_signals]. repeat split; assumption.
Qed.

Lemma parse_msg_transmitter_good : good (wf_msg_transmitter up) parse_msg_transmitter.
Proof. intros ts a r F H. unfold parse_msg_transmitter in H. repeat gstep H. inversion H; subst. gfacts2. gsolve. Qed.

Lemma parse_env_var_good : good (wf_env_var up) (parse_env_var prs).
Proof.
  intros ts a r F H. unfold parse_env_var in H. repeat gstep H. inversion H; subst. gfacts. cbn beta in *.
  split; [|assumption]. unfold wf_env_var. cbn [ev_name ev_min ev_max ev_unit ev_init ev_id ev_access ev_nodes].
  repeat split; try assumption; try discriminate. constructor; assumption.
Qed.

Lemma parse_env_var_data_good : good (wf_env_var_data up) parse_env_var_data.
Proof. intros ts a r F H. unfold parse_env_var_data in H. gtac H. Qed.

Definition wf_st_sum (x : signal_type + signal_type_ref) : Prop :=
  match x with inl a => wf_signal_type up a | inr b => wf_signal_type_ref up b end.

Lemma parse_signal_type_good : good wf_st_sum (parse_signal_type prs).
Proof.
  intros ts a r F H. unfold parse_signal_type in H. repeat gstep H; inversion H; subst; gfacts; cbn beta in *;
    (split; [|assumption]); unfold wf_st_sum, wf_signal_type, wf_signal_type_ref;
    cbn [st_name st_size st_factor st_offset st_min st_max st_unit st_default st_table sr_id sr_signal sr_type];
    repeat split; assumption.
Qed.

Lemma p_obj_ref_kw_good : forall k ts0, good (wf_ref up) (p_obj_ref_kw k ts0).
Proof. intros k ts0 ts a r F H. unfold p_obj_ref_kw in H. destruct k; try discriminate; gtac H. Qed.
Hint Resolve p_obj_ref_kw_good : gdb.

Lemma parse_comment_good : good (wf_comment up) parse_comment.
Proof.
  intros ts a r F H. unfold parse_comment in H. repeat gstep H. inversion H; subst. repeat gstep_any; ginv; gfacts; cbn beta in *;
    (split; [|assumption]); unfold wf_comment; cbn [cm_ref cm_text wf_ref]; split; try assumption; exact I.
Qed.

Lemma comma_strings_good : good (Forall (fun s => expr_string s = true)) comma_strings.
Proof.
  intros ts. induction ts as [ts IH] using (well_founded_induction (well_founded_ltof _ (@length tok))).
  intros a r F H. destruct ts as [|t l]; cbn in H.
  - inversion H; subst. split; constructor.
  - inversion F as [|t' l' Ht Hl]; subst. repeat gstep H; try (inversion H; subst; split; [constructor|assumption]).
    inversion H; subst. inversion Hl as [|t2 l2 Ht2 Hl2]; subst.
    match goal with E : comma_strings _ = POk _ _ |- _ => apply IH in E; [|unfold ltof; cbn; lia|exact Hl2]; destruct E as [W F'] end.
    split; [|exact F']. constructor; [eapply tg_string; eauto|exact W].
Qed.
Hint Resolve comma_strings_good : gdb.

Lemma p_attr_type_good : good wf_attr_type (p_attr_type prs hex).
Proof.
  intros ts a r F H. unfold p_attr_type in H. repeat gstep H; inversion H; subst; gfacts; cbn beta in *;
    (split; [|assumption]); cbn [wf_attr_type]; try (split; assumption); try exact I; try constructor; try assumption.
  eapply tg_string; eauto.
Qed.
Hint Resolve p_attr_type_good : gdb.

Lemma parse_attribute_good : good wf_attribute (parse_attribute prs hex).
Proof.
  intros ts a r F H. unfold parse_attribute in H. repeat gstep H. inversion H; subst. repeat gstep_any; ginv; gfacts; cbn beta in *;
    (split; [|assumption]); unfold wf_attribute; cbn [ad_name ad_type]; split; assumption.
Qed.

Lemma p_attr_val_good : good wf_val (p_attr_val prs hex).
Proof.
  intros ts a r F H. unfold p_attr_val in H. repeat gstep H; inversion H; subst; gfacts; (split; [|assumption]); cbn [wf_val];
    first [ eapply tg_string; eassumption | eapply parse_hex_u32; eassumption | (eapply Hprs_fin; [eapply tg_number; eassumption|eassumption]) | eapply parse_int_i64; eassumption ].
Qed.
Hint Resolve p_attr_val_good : gdb.

Lemma parse_attr_default_good : good wf_attr_default (parse_attr_default prs hex).
Proof.
  intros ts a r F H. unfold parse_attr_default in H. repeat gstep H. inversion H; subst. gfacts. cbn beta in *.
  split; [|assumption]. unfold wf_attr_default. cbn [af_name af_value]. split; assumption.
Qed.

Lemma parse_attr_value_good : good (wf_attr_value up) (parse_attr_value prs hex).
Proof.
  intros ts a r F H. unfold parse_attr_value in H. repeat gstep H. inversion H; subst. repeat gstep_any; ginv; gfacts; cbn beta in *;
    (split; [|assumption]); unfold wf_attr_value; cbn [av_name av_ref av_value wf_ref]; repeat split; try assumption.
Qed.

Lemma parse_value_encoding_good : good (wf_value_encoding up) parse_value_encoding.
Proof.
  intros ts a r F H. unfold parse_value_encoding in H. repeat gstep H; inversion H; subst; repeat gstep_any; ginv; gfacts; cbn beta in *;
    (split; [|assumption]); unfold wf_value_encoding; cbn [ve_ref ve_values]; repeat split; assumption.
Qed.

Lemma parse_signal_group_good : good (wf_signal_group up) parse_signal_group.
Proof.
  intros ts a r F H. unfold parse_signal_group in H. repeat gstep H. inversion H; subst. gfacts2. cbn beta in *.
  split; [|assumption]. unfold wf_signal_group. cbn [sgp_id sgp_name sgp_rep sgp_signals]. repeat split; assumption.
Qed.

Lemma parse_sig_ext_value_type_good : good (wf_sig_ext_value_type up) parse_sig_ext_value_type.
Proof.
  intros ts a r F H. unfold parse_sig_ext_value_type in H. repeat gstep H. inversion H; subst. gfacts. cbn beta in *.
  split; [|assumption]. unfold wf_sig_ext_value_type. cbn [sv_id sv_signal]. split; assumption.
Qed.

Lemma p_range_good : good wf_range p_range.
Proof.
  intros ts a r F H. unfold p_range in H. repeat gstep H. inversion H; subst. gfacts. split; [|assumption].
  unfold wf_range. cbn [fst snd]. split; eapply parse_uint_u32; eauto.
Qed.
Hint Resolve p_range_good : gdb.

Lemma comma_ranges_good : good (Forall wf_range) comma_ranges.
Proof.
  intros ts. induction ts as [ts IH] using (well_founded_induction (well_founded_ltof _ (@length tok))).
  intros a r F H. destruct ts as [|t l]; cbn in H.
  - inversion H; subst. split; constructor.
  - inversion F as [|t' l' Ht Hl]; subst. repeat gstep H; try (inversion H; subst; split; [constructor|assumption]).
    inversion H; subst.
    match goal with E : p_range _ = POk _ _ |- _ => destruct (p_range_good _ _ _ Hl E) as [Wr _] end.
    inversion Hl as [|t2 l2 Ht2 Hl2]; subst.
    match goal with E : comma_ranges _ = POk _ _ |- _ => apply IH in E; [|unfold ltof; cbn; lia|exact Hl2]; destruct E as [W F'] end.
    split; [constructor; assumption|exact F'].
Qed.
Hint Resolve comma_ranges_good : gdb.

Lemma parse_ext_mux_good : good (wf_ext_mux up) parse_ext_mux.
Proof.
  intros ts a r F H. unfold parse_ext_mux in H. repeat gstep H. inversion H; subst. gfacts. cbn beta in *.
  split; [|assumption]. unfold wf_ext_mux. cbn [xm_id xm_muxed xm_muxor xm_ranges].
  repeat split; try assumption; try discriminate. constructor; assumption.
Qed.

End ParseGood.

(* ---- Part C: the file ---- *)
Section FileGood.
Variable up : N -> bool.
Variable prs : str -> option N.
Variable hex : bool.
Hypothesis Hprs_fin : forall v b, not_special v = true -> prs v = Some b -> fin b = true.
Notation tg := (tok_good up).

Definition item_good (it : item) : Prop :=
  match it with
  | IVersion v => expr_string v = true
  | INewSymbols l => wf_ns l
  | IBitTiming b => wf_bs b
  | INodes l => idents_ok up l
  | _ => wf_item up it
  end.

Lemma lift_good : forall A (W : A -> Prop) (h : A -> item) (p : list tok -> pres A) ts it r,
  good up W p -> (forall a, W a -> item_good (h a)) ->
  Forall tg ts -> lift h (p ts) = POk it r -> item_good it /\ Forall tg r.
Proof.
  intros A W h p ts it r Hg Hw F H. unfold lift in H. destruct (p ts) as [a r0| |] eqn:E; try discriminate.
  inversion H; subst. destruct (Hg _ _ _ F E) as [Wa Fr]. split; [apply Hw; exact Wa|exact Fr].
Qed.

Lemma parse_section_good : forall k fl ts0 r it r' fl',
  Forall tg r -> parse_section prs hex k fl ts0 r = Some (POk it r', fl') -> item_good it /\ Forall tg r'.
Proof.
  intros k fl ts0 r it r' fl' F H. unfold parse_section in H.
  destruct k; try discriminate;
    repeat match type of H with Some (if ?b then _ else _) = _ => destruct b end;
    inversion H as [[H1 H2]]; try discriminate; clear H.
  - eapply (lift_good _ _ IVersion); [eapply parse_version_good; eauto| |exact F|exact H1]. auto.
  - eapply (lift_good _ _ INewSymbols); [eapply parse_new_symbols_good; eauto| |exact F|exact H1]. auto.
  - eapply (lift_good _ _ IBitTiming); [eapply parse_bit_timing_good; eauto| |exact F|exact H1]. auto.
  - eapply (lift_good _ _ INodes); [eapply parse_nodes_good; eauto| |exact F|exact H1]. auto.
  - eapply (lift_good _ _ IMessage); [eapply parse_message_good; eauto| |exact F|exact H1]. auto.
  - eapply (lift_good _ _ IMsgTransmitter); [eapply parse_msg_transmitter_good; eauto| |exact F|exact H1]. auto.
  - eapply (lift_good _ _ ISigExtValueType); [eapply parse_sig_ext_value_type_good; eauto| |exact F|exact H1]. auto.
  - eapply (lift_good _ _ IValueTable); [eapply parse_value_table_good; eauto| |exact F|exact H1]. auto.
  - eapply (lift_good _ _ IValueEncoding); [eapply parse_value_encoding_good; eauto| |exact F|exact H1]. auto.
  - eapply (lift_good _ _ IEnvVar); [eapply parse_env_var_good; eauto| |exact F|exact H1]. auto.
  - eapply (lift_good _ _ IEnvVarData); [eapply parse_env_var_data_good; eauto| |exact F|exact H1]. auto.
  - eapply (lift_good _ (wf_st_sum up)); [eapply parse_signal_type_good; eauto| |exact F|exact H1].
    intros [a|b] Hw; exact Hw.
  - eapply (lift_good _ _ ISignalGroup); [eapply parse_signal_group_good; eauto| |exact F|exact H1]. auto.
  - eapply (lift_good _ _ IComment); [eapply parse_comment_good; eauto| |exact F|exact H1]. auto.
  - eapply (lift_good _ _ IAttribute); [eapply parse_attribute_good; eauto| |exact F|exact H1]. auto.
  - eapply (lift_good _ _ IAttrDefault); [eapply parse_attr_default_good; eauto| |exact F|exact H1]. auto.
  - eapply (lift_good _ _ IAttrValue); [eapply parse_attr_value_good; eauto| |exact F|exact H1]. auto.
  - eapply (lift_good _ _ IExtMux); [eapply parse_ext_mux_good; eauto| |exact F|exact H1]. auto.
Qed.

Lemma parse_loop_good : forall fuel fl ts items,
  Forall tg ts -> parse_loop prs hex fuel fl ts = ROk items -> Forall item_good items.
Proof.
  induction fuel as [|f IH]; intros fl ts items F H; [discriminate|].
  cbn [parse_loop] in H. destruct (next ts) as [t r] eqn:EN. destruct (next_good up _ _ _ F EN) as [_ Fr].
  destruct (fst t); try discriminate.
  - inversion H; constructor.
  - destruct (keyword_of (snd t)) as [k|]; [|discriminate].
    destruct (parse_section prs hex k fl ts r) as [[[it r'|n|] fl']|] eqn:EP; try discriminate.
    + destruct (parse_section_good _ _ _ _ _ _ _ Fr EP) as [Hit Fr'].
      destruct (parse_loop prs hex f fl' r') as [l| | |] eqn:EL; try discriminate.
      inversion H; subst. constructor; [exact Hit|]. eapply IH; eauto.
    + eapply IH; eauto.
Qed.

(* assembling *)
Lemma pick_In : forall A (g : item -> option A) l a, In a (pick g l) -> exists it, In it l /\ g it = Some a.
Proof.
  intros A g l a H. unfold pick in H. apply in_flat_map in H. destruct H as [it [Hin Ha]].
  exists it. split; [exact Hin|]. destruct (g it); [destruct Ha as [Ha|[]]; subst; reflexivity|contradiction].
Qed.

Lemma pick_wf : forall A (g : item -> option A) (h : A -> item) l,
  Forall item_good l -> (forall it a, g it = Some a -> it = h a) -> (forall a, item_good (h a) -> wf_item up (h a)) ->
  Forall (wf_item up) (map h (pick g l)).
Proof.
  intros A g h l Hl Hg Hw. rewrite Forall_forall in *. intros x Hx. apply in_map_iff in Hx. destruct Hx as [a [Hx Ha]]. subst.
  destruct (pick_In _ _ _ _ Ha) as [it [Hin Hgi]]. apply Hw. rewrite <- (Hg _ _ Hgi). apply Hl; exact Hin.
Qed.

Lemma last_pick_good : forall A (g : item -> option A) l a,
  Forall item_good l -> last_opt (pick g l) = Some a -> exists it, g it = Some a /\ item_good it.
Proof.
  intros A g l a Hl H. apply ProofsPos.last_opt_In in H. destruct (pick_In _ _ _ _ H) as [it [Hin Hg]].
  exists it. split; [exact Hg|]. rewrite Forall_forall in Hl. apply Hl; exact Hin.
Qed.

Lemma default_ns_wf : wf_ns new_symbols_values.
Proof.
  unfold wf_ns. rewrite Forall_forall. intros s Hs. unfold mem_str. apply existsb_exists. exists s. split; [exact Hs|].
  clear. induction s as [|c s IH]; [reflexivity|]. cbn [str_eqb]. rewrite N.eqb_refl, IH. reflexivity.
Qed.

Lemma assemble_wf : forall l, Forall item_good l -> wf_file up (assemble l).
Proof.
  intros l Hl. split.
  - unfold wf_header, ver_of, ns_of, bs_of, bu_of, assemble. cbn [f_version f_ns f_bs f_bu]. repeat split.
    + destruct (last_opt (pick _ l)) as [v|] eqn:E; [|reflexivity].
      destruct (last_pick_good _ _ _ _ Hl E) as [it [Hg Hi]]. destruct it; try discriminate. inversion Hg; subst.
      destruct v; [reflexivity|exact Hi].
    + destruct (last_opt (pick _ l)) as [v|] eqn:E; [|apply default_ns_wf].
      destruct (last_pick_good _ _ _ _ Hl E) as [it [Hg Hi]]. destruct it; try discriminate. inversion Hg; subst. exact Hi.
    + destruct (last_opt (pick _ l)) as [v|] eqn:E; [|unfold u32_ok; cbn; lia].
      destruct (last_pick_good _ _ _ _ Hl E) as [it [Hg Hi]]. destruct it; try discriminate. inversion Hg; subst. apply Hi.
    + destruct (last_opt (pick _ l)) as [v|] eqn:E; [|unfold u32_ok; cbn; lia].
      destruct (last_pick_good _ _ _ _ Hl E) as [it [Hg Hi]]. destruct it; try discriminate. inversion Hg; subst. apply Hi.
    + destruct (last_opt (pick _ l)) as [v|] eqn:E; [|unfold u32_ok; cbn; lia].
      destruct (last_pick_good _ _ _ _ Hl E) as [it [Hg Hi]]. destruct it; try discriminate. inversion Hg; subst. apply Hi.
    + destruct (last_opt (pick _ l)) as [v|] eqn:E; [|constructor].
      destruct (last_pick_good _ _ _ _ Hl E) as [it [Hg Hi]]. destruct it; try discriminate. inversion Hg; subst. exact Hi.
  - unfold entries_of, assemble.
    cbn [f_vts f_msgs f_txs f_evs f_eds f_sts f_cms f_ads f_afs f_avs f_ves f_srs f_sgs f_svs f_xms].
    repeat (apply Forall_app; split);
      (apply pick_wf; [exact Hl|intros it a Hg; destruct it; inversion Hg; reflexivity|intros a Ha; exact Ha]).
Qed.

End FileGood.

(* parse_output_expressible *)
Theorem parse_output_expressible : forall ud prs hex, ud_ok ud ->
  (forall v b, not_special v = true -> prs v = Some b -> fin b = true) ->
  forall t f, parse ud prs hex t = OOk f -> wf_file (peek_digits ud) f.
Proof.
  intros ud prs hex Hud Hfin t f H. unfold parse in H. destruct (lex ud t) as [raw|] eqn:EL; [|discriminate].
  pose proof (lex_good ud Hud t raw EL) as Hg. unfold parse_tokens in H.
  destruct (parse_loop prs hex _ _ (map strip (pfilter raw))) as [items|n| |] eqn:EP; try discriminate.
  - inversion H; subst. apply assemble_wf. eapply parse_loop_good; eauto.
  - destruct (error_pos (pfilter raw) n); discriminate.
Qed.
