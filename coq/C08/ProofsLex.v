(* C08/C09 — proofs about the lexer model: totality with the fuel bound, consumed-prefix
   decomposition, positions. *)
From Coq Require Import NArith List Bool Lia ZifyBool ZifyNat ZifyN.
From Acme.C08 Require Import DbcAst Chars DbcLex.
Import ListNotations.
Local Open Scope N_scope.

Section Lex.
Variable ud : N -> bool.

Lemma span_alnum_split : forall l w rest, span_alnum ud l = (w, rest) -> l = w ++ rest.
Proof.
  induction l as [|c r IH]; intros w rest H; cbn in H.
  - inversion H; reflexivity.
  - destruct (is_alnum ud c).
    + destruct (span_alnum ud r) as [w' rest'] eqn:E. inversion H; subst. cbn. f_equal. eapply IH; eauto.
    + inversion H; reflexivity.
Qed.

Lemma span_space_split : forall l w rest, span_space l = (w, rest) -> l = w ++ rest.
Proof.
  induction l as [|c r IH]; intros w rest H; cbn in H.
  - inversion H; reflexivity.
  - destruct (is_space c).
    + destruct (span_space r) as [w' rest'] eqn:E. inversion H; subst. cbn. f_equal. eapply IH; eauto.
    + inversion H; reflexivity.
Qed.

Lemma span_digits_split : forall l w rest, span_digits ud l = (w, rest) -> l = w ++ rest.
Proof.
  induction l as [|c r IH]; intros w rest H; cbn in H.
  - inversion H; reflexivity.
  - destruct (is_digit ud c).
    + destruct (span_digits ud r) as [w' rest'] eqn:E. inversion H; subst. cbn. f_equal. eapply IH; eauto.
    + inversion H; reflexivity.
Qed.

Lemma take_hex_split : forall n l w rest, take_hex ud n l = (w, rest) -> l = w ++ rest.
Proof.
  induction n as [|n IH]; intros l w rest H; cbn in H.
  - inversion H; reflexivity.
  - destruct l as [|c r].
    + inversion H; reflexivity.
    + destruct (is_hex ud c).
      * destruct (take_hex ud n r) as [w' rest'] eqn:E. inversion H; subst. cbn. f_equal. eapply IH; eauto.
      * inversion H; reflexivity.
Qed.

Lemma scan_hex_split : forall l k w rest, scan_hex ud l = (k, w, rest) -> l = w ++ rest.
Proof.
  intros l k w rest H. unfold scan_hex in H.
  destruct l as [|x [|h r]]; try (inversion H; reflexivity).
  destruct (is_hex ud h).
  - destruct (take_hex ud 8 r) as [w' rest'] eqn:E. inversion H; subst. cbn. do 2 f_equal.
    eapply take_hex_split; eauto.
  - inversion H; reflexivity.
Qed.

Lemma scan_exp_split : forall l k w rest, scan_exp ud l = (k, w, rest) -> l = w ++ rest.
Proof.
  intros l k w rest H. unfold scan_exp in H.
  destruct l as [|e [|c r1]]; try (inversion H; reflexivity).
  destruct ((c =? ch_minus) || (c =? ch_plus)).
  - destruct r1 as [|d r2]; [inversion H; reflexivity|].
    destruct (is_digit ud d).
    + destruct (span_digits ud (d :: r2)) as [w' rest'] eqn:E. inversion H; subst. cbn. do 2 f_equal.
      eapply span_digits_split; eauto.
    + inversion H; reflexivity.
  - destruct (is_digit ud c).
    + destruct (span_digits ud (c :: r1)) as [w' rest'] eqn:E. inversion H; subst. cbn. f_equal.
      eapply span_digits_split; eauto.
    + inversion H; reflexivity.
Qed.

Lemma num_loop_split : forall l first fd prev more rng k w rest,
  num_loop ud l first fd prev more rng = (k, w, rest) -> l = w ++ rest.
Proof.
  fix IH 1. intros l first fd prev more rng k w rest H.
  destruct l as [|c r]; cbn in H.
  - inversion H; reflexivity.
  - destruct ((first =? ch_0) && ((c =? ch_x) || (c =? ch_X))).
    { eapply scan_hex_split; eauto. }
    destruct (negb (is_digit ud c) && negb (c =? ch_dot)).
    + destruct (((c =? ch_e) || (c =? ch_E)) && negb (prev =? ch_minus) && negb (prev =? ch_plus) && negb (prev =? ch_dot)).
      { eapply scan_exp_split; eauto. }
      destruct ((c =? ch_minus) && fd && negb rng).
      * destruct r as [|d r2]; [inversion H; reflexivity|].
        destruct (is_digit ud d).
        -- destruct (num_loop ud r2 first fd prev more true) as [[k' w'] rest'] eqn:E.
           inversion H; subst. cbn. do 2 f_equal. eapply IH; eauto.
        -- inversion H; reflexivity.
      * inversion H; reflexivity.
    + destruct ((c =? ch_dot) && ((prev =? ch_minus) || (prev =? ch_plus))).
      * inversion H; reflexivity.
      * destruct (num_loop ud r first fd c true rng) as [[k' w'] rest'] eqn:E.
        inversion H; subst. cbn. f_equal. eapply IH; eauto.
Qed.

Lemma str_loop_split : forall l b w rest, str_loop l = (b, w, rest) -> l = w ++ rest.
Proof.
  induction l as [|c r IH]; intros b w rest H; cbn in H.
  - inversion H; reflexivity.
  - destruct (c =? ch_quote); [inversion H; reflexivity|].
    destruct (c =? 0); [inversion H; reflexivity|].
    destruct (str_loop r) as [[b' w'] rest'] eqn:E. inversion H; subst. cbn. f_equal. eapply IH; eauto.
Qed.

End Lex.

Section Lex2.
Variable ud : N -> bool.

(* every scan consumes a prefix of what follows its first character *)
Lemma scan_after_split : forall c r k w rest, scan_after ud c r = (k, w, rest) -> r = w ++ rest.
Proof.
  intros c r k w rest H. unfold scan_after, scan_after' in H.
  destruct (c =? 0); [inversion H; reflexivity|].
  destruct (is_space c).
  { destruct (span_space r) as [w' rest'] eqn:E. inversion H; subst. eapply span_space_split; eauto. }
  destruct (is_letter c).
  { destruct (span_alnum (peek_digits ud) r) as [w' rest'] eqn:E. inversion H; subst. eapply span_alnum_split; eauto. }
  destruct (is_digit ud c || (c =? ch_minus) || (c =? ch_plus)).
  { eapply num_loop_split; eauto. }
  destruct (c =? ch_quote).
  { destruct (str_loop r) as [[b w'] rest'] eqn:E. inversion H; subst. eapply str_loop_split; eauto. }
  destruct (is_punct_char c); inversion H; reflexivity.
Qed.

Lemma scan_after_length : forall c r k w rest, scan_after ud c r = (k, w, rest) -> (length rest <= length r)%nat.
Proof.
  intros c r k w rest H. apply scan_after_split in H. subst. rewrite app_length. lia.
Qed.

(* ---- totality: fuel = length + 1 is enough (every scan consumes at least one character) ---- *)
Lemma lex_fuel_enough : forall fuel inp p start,
  (length inp < fuel)%nat -> exists ts, lex_fuel ud fuel inp p start = Some ts.
Proof.
  induction fuel as [|f IH]; intros inp p start Hlen; [lia|].
  destruct inp as [|c r]; cbn [lex_fuel].
  - eexists; reflexivity.
  - destruct (scan_after ud c r) as [[k w] rest] eqn:E.
    pose proof (scan_after_length _ _ _ _ _ E) as Hl. cbn in Hlen.
    destruct (IH rest (advance_all (advance p c) w) (advance p c)) as [ts Hts]; [lia|].
    rewrite Hts. eexists; reflexivity.
Qed.

Theorem lex_total : forall text, exists ts, lex ud text = Some ts.
Proof. intros text. unfold lex. apply lex_fuel_enough. lia. Qed.

End Lex2.
