(* C08 — lex_print_tokens: lexing the writer's rendering of a list of pieces gives back the
   pieces' tokens.  Positions play no role here, so the proof runs on a position-free copy of
   the lexer loop ([lexk]) that is shown to agree with [lex_fuel]. *)
From Coq Require Import Arith NArith List Bool Lia ZifyBool ZifyNat ZifyN.
From Acme.C08 Require Import DbcAst Chars DbcLex DbcParse DbcWrite Expr ProofsLex.
Import ListNotations.
Local Open Scope N_scope.

Section LexPrint.
(* [ud]: the digit class as peek sees it; [fdf c] = isNumber(c) for a character that was read *)
Variable ud : N -> bool.
Hypothesis Hud : ud_ok ud.
Variable fdf : N -> bool.
Hypothesis Hfdf : forall c, c < 128 -> fdf c = ascii_digit c.
Notation sa c r := (scan_after' ud (fdf c) c r).

(* ---- position-free lexer loop ---- *)
Fixpoint lexk (fuel : nat) (inp : list N) : option (list tok) :=
  match fuel with
  | O => None
  | S f =>
    match inp with
    | [] => Some [eof_tok]
    | c :: r =>
      let '(k, w, rest) := sa c r in
      match lexk f rest with
      | Some ts => Some ((k, token_value k c w) :: ts)
      | None => None
      end
    end
  end.

Lemma lexk_fuel_mono : forall f inp ts, lexk f inp = Some ts -> forall f', (f <= f')%nat -> lexk f' inp = Some ts.
Proof.
  induction f as [|f IH]; intros inp ts H f' Hle; [discriminate|].
  destruct f' as [|f']; [lia|]. destruct inp as [|c r]; cbn [lexk] in *; [exact H|].
  destruct (sa c r) as [[k w] rest].
  destruct (lexk f rest) as [ts'|] eqn:E; [|discriminate].
  rewrite (IH _ _ E f'); [exact H|lia].
Qed.

(* ---- token kinds: only a space character starts a space token ---- *)
Lemma scan_hex_kind : forall l k w rest, scan_hex ud l = (k, w, rest) -> k <> KSpace.
Proof.
  intros l k w rest H. unfold scan_hex in H. destruct l as [|x [|h r']]; try (inversion H; discriminate).
  destruct (is_hex ud h); [destruct (take_hex ud 8 r')|]; inversion H; discriminate.
Qed.

Lemma scan_exp_kind : forall l k w rest, scan_exp ud l = (k, w, rest) -> k <> KSpace.
Proof.
  intros l k w rest H. unfold scan_exp in H. destruct l as [|e [|c1 r1]]; try (inversion H; discriminate).
  destruct ((c1 =? ch_minus) || (c1 =? ch_plus)).
  - destruct r1 as [|d r2]; [inversion H; discriminate|].
    destruct (is_digit ud d); [destruct (span_digits ud (d :: r2))|]; inversion H; discriminate.
  - destruct (is_digit ud c1); [destruct (span_digits ud (c1 :: r1))|]; inversion H; discriminate.
Qed.

Lemma finish_number_kind : forall f m r, finish_number f m r <> KSpace.
Proof. intros. unfold finish_number. destruct (_ && _); [discriminate|]. destruct r; discriminate. Qed.

Lemma num_loop_kind : forall l first fd prev more rng k w rest,
  num_loop ud l first fd prev more rng = (k, w, rest) -> k <> KSpace.
Proof.
  fix IH 1. intros l first fd prev more rng k w rest H.
  destruct l as [|c r]; cbn [num_loop] in H.
  - inversion H. apply finish_number_kind.
  - destruct ((first =? ch_0) && ((c =? ch_x) || (c =? ch_X))).
    { eapply scan_hex_kind; eauto. }
    assert (Hfin : forall X Y, (finish_number first more rng, X, Y) = (k, w, rest) -> k <> KSpace).
    { intros X Y HH. inversion HH. apply finish_number_kind. }
    destruct (negb (is_digit ud c) && negb (c =? ch_dot)).
    + destruct (((c =? ch_e) || (c =? ch_E)) && negb (prev =? ch_minus) && negb (prev =? ch_plus) && negb (prev =? ch_dot)).
      { eapply scan_exp_kind; eauto. }
      destruct ((c =? ch_minus) && fd && negb rng).
      * destruct r as [|d r2]; [eapply Hfin; eauto|].
        destruct (is_digit ud d); [|eapply Hfin; eauto].
        destruct (num_loop ud r2 first fd prev more true) as [[k' w'] rest'] eqn:E.
        inversion H; subst. eapply IH; eauto.
      * eapply Hfin; eauto.
    + destruct ((c =? ch_dot) && ((prev =? ch_minus) || (prev =? ch_plus))); [eapply Hfin; eauto|].
      destruct (num_loop ud r first fd c true rng) as [[k' w'] rest'] eqn:E.
      inversion H; subst. eapply IH; eauto.
Qed.

Lemma classify_text_kind : forall c w, classify_text ud c w <> KSpace.
Proof. intros c w. unfold classify_text. destruct (_ || _); [discriminate|]. destruct (is_keyword_text _); discriminate. Qed.

Lemma scan_after_nonspace : forall c r k w rest,
  is_space c = false -> sa c r = (k, w, rest) -> k <> KSpace.
Proof.
  intros c r k w rest Hc H. unfold scan_after' in H. rewrite Hc in H.
  destruct (c =? 0); [inversion H; discriminate|].
  destruct (is_letter c).
  { destruct (span_alnum ud r). inversion H. apply classify_text_kind. }
  destruct (fdf c || (c =? ch_minus) || (c =? ch_plus)); [eapply num_loop_kind; eauto|].
  destruct (c =? ch_quote).
  { destruct (str_loop r) as [[b w'] rest']. inversion H. destruct b; discriminate. }
  destruct (is_punct_char c); inversion H; discriminate.
Qed.

Lemma span_space_rest : forall l w rest, span_space l = (w, rest) ->
  match rest with [] => True | c :: _ => is_space c = false end.
Proof.
  induction l as [|c r IH]; intros w rest H; cbn in H.
  - inversion H; exact I.
  - destruct (is_space c) eqn:E.
    + destruct (span_space r) as [w' rest'] eqn:E2. inversion H; subst. eapply IH; eauto.
    + inversion H; subst. exact E.
Qed.

Lemma scan_after_space_rest : forall c r w rest, sa c r = (KSpace, w, rest) ->
  match rest with [] => True | c' :: _ => is_space c' = false end.
Proof.
  intros c r w rest H. destruct (is_space c) eqn:Hc.
  - unfold scan_after' in H. destruct (c =? 0); [inversion H|]. rewrite Hc in H.
    destruct (span_space r) as [w' rest'] eqn:E. inversion H; subst. eapply span_space_rest; eauto.
  - exfalso. eapply scan_after_nonspace; eauto.
Qed.

Definition is_sp (t : tok) : bool := kind_is KSpace t.

Fixpoint pfilter_t (l : list tok) : list tok :=
  match l with
  | [] => []
  | t :: r =>
    if is_sp t then
      match r with
      | [] => []
      | t2 :: r2 => t2 :: pfilter_t r2
      end
    else t :: pfilter_t r
  end.

Lemma pfilter_strip : forall raw, map strip (pfilter raw) = pfilter_t (map strip raw).
Proof.
  fix IH 1. intros raw. destruct raw as [|t r]; [reflexivity|]. cbn [pfilter map pfilter_t].
  replace (is_sp (strip t)) with (is_space_tok t) by reflexivity.
  destruct (is_space_tok t).
  - destruct r as [|t2 r2]; [reflexivity|]. cbn [map]. f_equal. apply IH.
  - cbn [map]. f_equal. apply IH.
Qed.

Definition drop_sp (l : list tok) : list tok := filter (fun t => negb (is_sp t)) l.

(* the head of the token list of a text that does not start with a blank is not a space token,
   and a space token is never followed by another one: parser.scan's "skip one space token" is
   "skip all space tokens" *)
Lemma lexk_pfilter : forall f inp l, lexk f inp = Some l ->
  pfilter_t l = drop_sp l /\
  (match inp with [] => True | c :: _ => is_space c = false end ->
   match l with [] => False | t :: _ => is_sp t = false end).
Proof.
  induction f as [|f IH]; intros inp l H; [discriminate|].
  destruct inp as [|c r]; cbn [lexk] in H.
  - inversion H; subst. split; [reflexivity|intros _; reflexivity].
  - destruct (sa c r) as [[k w] rest] eqn:E.
    destruct (lexk f rest) as [l'|] eqn:E2; [|discriminate]. inversion H; subst l.
    destruct (IH _ _ E2) as [IH1 IH2]. split.
    + cbn [pfilter_t drop_sp filter]. change (is_sp (k, token_value k c w)) with (tkind_eqb k KSpace).
      destruct (tkind_eqb k KSpace) eqn:EK; cbn [negb].
      * assert (k = KSpace) by (destruct k; try reflexivity; discriminate EK). subst k.
        (* space token: the rest does not start with a blank, so its first token is not a space *)
        pose proof (scan_after_space_rest _ _ _ _ E) as Hrest. specialize (IH2 Hrest).
        destruct l' as [|t2 r2]; [contradiction|].
        cbn [pfilter_t] in IH1. rewrite IH2 in IH1. exact IH1.
      * fold drop_sp. f_equal. exact IH1.
    + intros Hc. change (is_sp (k, token_value k c w)) with (tkind_eqb k KSpace).
      pose proof (scan_after_nonspace _ _ _ _ _ Hc E) as Hk.
      destruct k; try reflexivity. congruence.
Qed.

(* [Lx inp ts]: the non-space tokens of [inp] are [ts] *)
Definition Lx (inp : list N) (ts : list tok) : Prop :=
  exists f l, lexk f inp = Some l /\ drop_sp l = ts.

Lemma Lx_nil : Lx [] [eof_tok].
Proof. exists 1%nat, [eof_tok]. split; reflexivity. Qed.

(* one scan step *)
Lemma Lx_step : forall c r k w rest ts,
  sa c r = (k, w, rest) -> Lx rest ts ->
  Lx (c :: r) (if tkind_eqb k KSpace then ts else (k, token_value k c w) :: ts).
Proof.
  intros c r k w rest ts E [f [l [Hl1 Hl2]]]. exists (S f). cbn [lexk]. rewrite E, Hl1.
  eexists; split; [reflexivity|].
  cbn [drop_sp filter]. change (is_sp (k, token_value k c w)) with (tkind_eqb k KSpace).
  destruct (tkind_eqb k KSpace); cbn [negb]; [exact Hl2|]. f_equal. exact Hl2.
Qed.

(* ---- facts about the delimiting characters ---- *)
Lemma is_term_cases : forall t, is_term t = true ->
  In t [32; 9; 10; 13; 58; 44; 40; 41; 91; 93; 124; 59; 64; 43; 45].
Proof.
  intros t H. unfold is_term, is_space, is_punct_char, punct_chars in H. cbn [existsb] in H.
  repeat rewrite orb_true_iff in H. cbn [In].
  repeat (destruct H as [H|H]); try (apply N.eqb_eq in H; subst; tauto); discriminate.
Qed.

Ltac term_cases H :=
  apply is_term_cases in H; cbn [In] in H;
  repeat (destruct H as [H|H]); try contradiction; subst.

Lemma ud_small : forall c, c < 128 -> ud c = false.
Proof. exact Hud. Qed.

Lemma term_not_digit : forall t, is_term t = true -> is_digit ud t = false.
Proof. intros t H. unfold is_digit. term_cases H; rewrite ud_small by lia; reflexivity. Qed.

Lemma term_not_hex : forall t, is_term t = true -> is_hex ud t = false.
Proof. intros t H. unfold is_hex, is_digit. term_cases H; rewrite ud_small by lia; reflexivity. Qed.

Lemma term_not_alnum : forall t, is_term t = true -> (t =? ch_minus) = false -> is_alnum ud t = false.
Proof. intros t H Hm. unfold is_alnum, is_digit. term_cases H; try discriminate Hm; rewrite ud_small by lia; reflexivity. Qed.

Lemma term_misc : forall t, is_term t = true ->
  (t =? ch_dot) = false /\ (t =? ch_e) = false /\ (t =? ch_E) = false /\ (t =? ch_x) = false /\ (t =? ch_X) = false.
Proof. intros t H. term_cases H; repeat split; reflexivity. Qed.

Lemma alnum_small : forall c, is_alnum no_ud c = true -> c < 128.
Proof.
  intros c H. unfold is_alnum, is_digit, is_letter, ascii_digit, no_ud in H. lia.
Qed.

Lemma alnum_ud : forall c, is_alnum no_ud c = true -> is_alnum ud c = true.
Proof. intros c H. unfold is_alnum, is_digit in *. unfold no_ud in H. rewrite orb_false_r in H. lia. Qed.

Lemma digit_ud_small : forall c, c < 128 -> is_digit ud c = ascii_digit c.
Proof. intros c H. unfold is_digit. rewrite ud_small by exact H. apply orb_false_r. Qed.

Lemma ascii_digit_ud : forall c, ascii_digit c = true -> is_digit ud c = true.
Proof. intros c H. unfold is_digit. rewrite H. reflexivity. Qed.

Lemma ascii_digit_small : forall c, ascii_digit c = true -> c < 128.
Proof. intros c H. unfold ascii_digit in H. lia. Qed.

(* ---- words ---- *)
Lemma span_alnum_exact : forall w R, forallb (is_alnum ud) w = true ->
  match R with [] => True | t :: _ => is_alnum ud t = false end ->
  span_alnum ud (w ++ R) = (w, R).
Proof.
  induction w as [|c w IH]; intros R Hw HR; cbn [app].
  - destruct R as [|t R']; cbn [span_alnum]; [reflexivity|]. rewrite HR. reflexivity.
  - cbn [forallb] in Hw. apply andb_true_iff in Hw. destruct Hw as [Hc Hw].
    cbn [span_alnum]. rewrite Hc. rewrite (IH R Hw HR). reflexivity.
Qed.

Lemma mux_auto_ud : forall w a b, forallb (is_alnum no_ud) w = true -> mux_auto ud w a b = mux_auto no_ud w a b.
Proof.
  induction w as [|c w IH]; intros a b Hw; [reflexivity|].
  cbn [forallb] in Hw. apply andb_true_iff in Hw. destruct Hw as [Hc Hw].
  cbn [mux_auto]. rewrite (digit_ud_small c (alnum_small _ Hc)).
  unfold is_digit at 1, no_ud. rewrite orb_false_r.
  destruct a; [destruct (ascii_digit c); [|destruct (negb b || negb (c =? ch_M))]|]; apply IH; exact Hw.
Qed.

Lemma classify_text_ud : forall c w, forallb (is_alnum no_ud) w = true -> classify_text ud c w = classify_text no_ud c w.
Proof. intros c w Hw. unfold classify_text. rewrite (mux_auto_ud _ _ _ Hw). reflexivity. Qed.

(* ASCII words keep their classification under every digit class that is false on ASCII *)
Lemma wf_word_up : forall k v, wf_word no_ud k v = true -> wf_word ud k v = true.
Proof.
  intros k [|c w] H; [discriminate|]. cbn [wf_word] in *.
  apply andb_true_iff in H. destruct H as [H Hk]. apply andb_true_iff in H. destruct H as [Hc Hw].
  rewrite Hc, (classify_text_ud _ _ Hw), Hk. cbn [andb]. rewrite andb_true_r.
  rewrite forallb_forall in *. intros x Hx. apply alnum_ud. apply Hw; exact Hx.
Qed.

Lemma tkind_eqb_eq : forall a b, tkind_eqb a b = true -> a = b.
Proof. intros a b H. destruct a, b; try reflexivity; discriminate H. Qed.

Lemma letter_facts : forall c, is_letter c = true -> (c =? 0) = false /\ is_space c = false.
Proof. intros c H. unfold is_letter, is_space in *. split; lia. Qed.

Lemma scan_word : forall k c w R,
  wf_word ud k (c :: w) = true ->
  match R with [] => True | t :: _ => is_term t = true /\ (t =? ch_minus) = false end ->
  sa c (w ++ R) = (k, w, R).
Proof.
  intros k c w R Hwf HR. cbn [wf_word] in Hwf.
  apply andb_true_iff in Hwf. destruct Hwf as [Hwf Hk]. apply andb_true_iff in Hwf. destruct Hwf as [Hc Hw].
  destruct (letter_facts _ Hc) as [H0 Hs]. unfold scan_after'. rewrite H0, Hs, Hc.
  rewrite span_alnum_exact; [|exact Hw|].
  - rewrite (tkind_eqb_eq _ _ Hk). reflexivity.
  - destruct R as [|t R']; [exact I|]. destruct HR as [Ht Hm]. apply term_not_alnum; assumption.
Qed.

Ltac chlia := unfold ch_x, ch_X, ch_minus, ch_plus, ch_dot, ch_e, ch_E, ch_0, ch_M, ch_m, ch_quote, ch_sp, ch_tab, ch_nl,
  ascii_digit, is_space, is_letter in *; lia.

Lemma fdf_minus : fdf ch_minus = false. Proof. rewrite Hfdf by (unfold ch_minus; lia). reflexivity. Qed.
Lemma fdf_plus : fdf ch_plus = false. Proof. rewrite Hfdf by (unfold ch_plus; lia). reflexivity. Qed.

Lemma scan_after_minus : forall r, sa ch_minus r = num_loop ud r ch_minus false ch_minus false false.
Proof.
  intros r. rewrite fdf_minus. unfold scan_after'. change (ch_minus =? 0) with false. change (is_space ch_minus) with false.
  change (is_letter ch_minus) with false. change (ch_minus =? ch_minus) with true. cbv iota.
  rewrite orb_true_r. reflexivity.
Qed.

Lemma scan_after_plus : forall r, sa ch_plus r = num_loop ud r ch_plus false ch_plus false false.
Proof.
  intros r. rewrite fdf_plus. unfold scan_after'. change (ch_plus =? 0) with false. change (is_space ch_plus) with false.
  change (is_letter ch_plus) with false. change (ch_plus =? ch_plus) with true. cbv iota.
  rewrite orb_true_r. reflexivity.
Qed.

Lemma scan_after_digit : forall c r, ascii_digit c = true -> sa c r = num_loop ud r c true c false false.
Proof.
  intros c r H. rewrite (Hfdf c (ascii_digit_small _ H)), H. unfold scan_after'.
  replace (c =? 0) with false by chlia. replace (is_space c) with false by chlia.
  replace (is_letter c) with false by chlia. reflexivity.
Qed.

(* ---- numbers ---- *)
Definition first_ok (first : N) (fd : bool) : Prop := (first = ch_minus /\ fd = false) \/ (ascii_digit first = true /\ fd = true).

Lemma dod_facts : forall x, digit_or_dot x = true ->
  (x =? ch_x) = false /\ (x =? ch_X) = false /\ (x =? ch_minus) = false /\ (x =? ch_plus) = false /\
  (negb (is_digit ud x) && negb (x =? ch_dot)) = false /\ x < 128.
Proof.
  intros x H. unfold digit_or_dot in H. apply orb_true_iff in H. destruct H as [H|H].
  - pose proof (ascii_digit_small _ H) as Hs. rewrite (ascii_digit_ud _ H).
    repeat split; try reflexivity; try exact Hs; chlia.
  - apply N.eqb_eq in H. subst. repeat split; try reflexivity.
    rewrite andb_false_r. reflexivity.
Qed.

Lemma num_loop_plain : forall body first fd prev more R,
  forallb digit_or_dot body = true ->
  (prev =? ch_minus) = false -> (prev =? ch_plus) = false ->
  first_ok first fd ->
  ok_after KNumber [] R = true ->
  num_loop ud (body ++ R) first fd prev more false =
  (finish_number first (more || negb (match body with [] => true | _ => false end)) false, body, R).
Proof.
  induction body as [|x body IH]; intros first fd prev more R Hb Hp1 Hp2 Hf HR; cbn [app].
  - rewrite orb_false_r. destruct R as [|t R']; [reflexivity|].
    cbn [ok_after] in HR. apply andb_true_iff in HR. destruct HR as [Ht HR].
    destruct (term_misc _ Ht) as [Hd [He [HE [Hx HX]]]]. pose proof (term_not_digit _ Ht) as Hnd.
    cbn [num_loop]. rewrite Hx, HX, Hnd, Hd, He, HE. cbn [orb andb negb]. rewrite andb_false_r. cbn [andb].
    destruct (t =? ch_minus) eqn:Hm; cbn [andb]; [|reflexivity].
    destruct Hf as [[Hf Hfd]|[Hf Hfd]]; subst fd.
    + reflexivity.
    + cbn [andb negb].
      cbn [negb orb] in HR. destruct R' as [|d r2]; [reflexivity|].
      cbn [hd_term] in HR. rewrite (term_not_digit _ HR). reflexivity.
  - cbn [forallb] in Hb. apply andb_true_iff in Hb. destruct Hb as [Hx Hb].
    destruct (dod_facts _ Hx) as [H1 [H2 [H3 [H4 [H5 H6]]]]].
    cbn [num_loop]. rewrite H1, H2, H5, Hp1, Hp2. cbn [orb]. rewrite !andb_false_r.
    rewrite (IH first fd x true R Hb H3 H4 Hf HR). cbn [orb negb]. rewrite orb_true_r. reflexivity.
Qed.

Lemma finish_digit : forall c m, ascii_digit c = true -> finish_number c m false = KNumber.
Proof.
  intros c m H. unfold finish_number. unfold ascii_digit in H.
  replace (c =? ch_minus) with false by chlia. replace (c =? ch_plus) with false by chlia.
  rewrite andb_false_r. reflexivity.
Qed.

Lemma digit_facts : forall c, ascii_digit c = true ->
  (c =? 0) = false /\ is_space c = false /\ is_letter c = false /\ (c =? ch_minus) = false /\ (c =? ch_plus) = false.
Proof. intros c H. repeat split; chlia. Qed.

Lemma scan_plain_number : forall c r R,
  plain_number (c :: r) = true -> ok_after KNumber [] R = true ->
  sa c (r ++ R) = (KNumber, r, R).
Proof.
  intros c r R Hwf HR. cbn [plain_number] in Hwf. destruct (c =? ch_minus) eqn:Hm.
  - apply N.eqb_eq in Hm. subst c. destruct r as [|d r']; [discriminate|].
    apply andb_true_iff in Hwf. destruct Hwf as [Hd Hb].
    rewrite scan_after_minus. cbn [app num_loop]. destruct (digit_facts _ Hd) as [_ [_ [_ [Hdm Hdp]]]].
    change (ch_minus =? ch_0) with false. cbn [andb].
    rewrite (ascii_digit_ud _ Hd). cbn [negb andb].
    replace (d =? ch_dot) with false by chlia. cbn [andb].
    rewrite (num_loop_plain r' ch_minus false d true R Hb Hdm Hdp (or_introl (conj eq_refl eq_refl)) HR). reflexivity.
  - apply andb_true_iff in Hwf. destruct Hwf as [Hc Hb].
    destruct (digit_facts _ Hc) as [H0 [Hs [Hl [Hcm Hcp]]]].
    rewrite (scan_after_digit _ _ Hc).
    rewrite (num_loop_plain r c true c false R Hb Hcm Hcp (or_intror (conj Hc eq_refl)) HR).
    rewrite (finish_digit _ _ Hc). reflexivity.
Qed.

Lemma take_hex_exact : forall hs n R, forallb ascii_hex hs = true -> (length hs <= n)%nat ->
  match R with [] => True | t :: _ => is_hex ud t = false end ->
  take_hex ud n (hs ++ R) = (hs, R).
Proof.
  induction hs as [|h hs IH]; intros n R Hh Hn HR; cbn [app].
  - destruct n; [reflexivity|]. destruct R as [|t R']; cbn [take_hex]; [reflexivity|]. rewrite HR. reflexivity.
  - destruct n as [|n]; [cbn in Hn; lia|]. cbn [forallb] in Hh. apply andb_true_iff in Hh. destruct Hh as [H1 H2].
    cbn [take_hex].
    assert (Hhx : is_hex ud h = true).
    { unfold ascii_hex, is_hex, is_digit, no_ud in *. rewrite orb_false_r in H1. lia. }
    rewrite Hhx. rewrite (IH n R H2); [reflexivity| cbn in Hn; lia | exact HR].
Qed.

Lemma scan_hex_number : forall c r R,
  hex_number (c :: r) = true -> ok_after KNumber [] R = true ->
  sa c (r ++ R) = (KNumber, r, R).
Proof.
  intros c r R Hwf HR. cbn [hex_number] in Hwf. destruct r as [|b [|h hs]]; try discriminate.
  repeat (apply andb_true_iff in Hwf; destruct Hwf as [Hwf ?]).
  apply N.eqb_eq in Hwf. subst c. match goal with H : (b =? ch_x) = true |- _ => apply N.eqb_eq in H; subst b end.
  rewrite (scan_after_digit ch_0) by reflexivity. cbn [app num_loop].
  change ((ch_0 =? ch_0) && ((ch_x =? ch_x) || (ch_x =? ch_X))) with true. cbv iota.
  cbn [scan_hex].
  assert (Hhx : is_hex ud h = true).
  { match goal with H : ascii_hex h = true |- _ => unfold ascii_hex, is_hex, is_digit, no_ud in *; rewrite orb_false_r in H end. lia. }
  rewrite Hhx. rewrite (take_hex_exact hs 8 R); [reflexivity|assumption| |].
  - match goal with H : Nat.leb _ _ = true |- _ => apply Nat.leb_le in H; lia end.
  - destruct R as [|t R']; [exact I|]. cbn [ok_after] in HR. apply andb_true_iff in HR. destruct HR as [Ht _].
    apply term_not_hex; exact Ht.
Qed.

(* ---- ranges ---- *)
Lemma num_loop_digits : forall a first fd prev more rng R,
  forallb ascii_digit a = true -> (prev =? ch_minus) = false -> (prev =? ch_plus) = false ->
  exists p', (p' =? ch_minus) = false /\ (p' =? ch_plus) = false /\
    num_loop ud (a ++ R) first fd prev more rng =
    (let '(k, w, rest) := num_loop ud R first fd p' (more || negb (match a with [] => true | _ => false end)) rng in (k, a ++ w, rest)).
Proof.
  induction a as [|x a IH]; intros first fd prev more rng R Ha Hp1 Hp2.
  - exists prev. split; [exact Hp1|]. split; [exact Hp2|]. cbn [app]. rewrite orb_false_r.
    destruct (num_loop ud R first fd prev more rng) as [[k w] rest]. reflexivity.
  - cbn [forallb] in Ha. apply andb_true_iff in Ha. destruct Ha as [Hx Ha].
    assert (Hdd : digit_or_dot x = true) by (unfold digit_or_dot; rewrite Hx; reflexivity).
    destruct (dod_facts _ Hdd) as [H1 [H2 [H3 [H4 [H5 H6]]]]].
    destruct (IH first fd x true rng R Ha H3 H4) as [p' [Hq1 [Hq2 Heq]]].
    exists p'. split; [exact Hq1|]. split; [exact Hq2|].
    cbn [app num_loop]. rewrite H1, H2, H5, Hp1, Hp2. cbn [orb]. rewrite !andb_false_r.
    rewrite Heq. cbn [orb negb]. rewrite orb_true_r.
    destruct (num_loop ud R first fd p' true rng) as [[k w] rest]. reflexivity.
Qed.

Lemma scan_range : forall c r R,
  range_number (c :: r) -> hd_term R = true ->
  sa c (r ++ R) = (KRange, r, R).
Proof.
  intros c r R [a [b [Hv [Ha [Hb [Hda Hdb]]]]]] HR.
  destruct a as [|a0 a]; [congruence|]. cbn [app] in Hv. inversion Hv; subst c r.
  destruct b as [|b0 b]; [congruence|].
  cbn [forallb] in Hda, Hdb. apply andb_true_iff in Hda. destruct Hda as [Ha0 Hda].
  apply andb_true_iff in Hdb. destruct Hdb as [Hb0 Hdb].
  destruct (digit_facts _ Ha0) as [H0 [Hs [Hl [Hcm Hcp]]]].
  rewrite (scan_after_digit _ _ Ha0).
  rewrite <- app_assoc. cbn [app].
  destruct (num_loop_digits a a0 true a0 false false (ch_minus :: b0 :: b ++ R) Hda Hcm Hcp)
    as [p' [Hq1 [Hq2 Heq]]].
  rewrite Heq. clear Heq. cbn [num_loop].
  replace ((a0 =? ch_0) && ((ch_minus =? ch_x) || (ch_minus =? ch_X))) with false by (rewrite andb_false_r; reflexivity).
  rewrite (digit_ud_small ch_minus) by chlia.
  replace (negb (ascii_digit ch_minus) && negb (ch_minus =? ch_dot)) with true by reflexivity.
  replace (((ch_minus =? ch_e) || (ch_minus =? ch_E))) with false by reflexivity. cbn [andb].
  rewrite (ascii_digit_ud _ Hb0). cbn [N.eqb ch_minus Pos.eqb andb negb].
  destruct (num_loop_digits b a0 true p' (false || negb (match a with [] => true | _ => false end)) true R Hdb Hq1 Hq2)
    as [p2 [Hr1 [Hr2 Heq2]]].
  rewrite Heq2. clear Heq2.
  (* at the delimiter, with isRange set *)
  assert (Hend : forall m, num_loop ud R a0 true p2 m true = (KRange, [], R)).
  { intros m. destruct R as [|t R']; cbn [num_loop].
    - unfold finish_number. rewrite Hcm, Hcp. rewrite andb_false_r. reflexivity.
    - cbn [hd_term] in HR. destruct (term_misc _ HR) as [Hd [He [HE [Hx HX]]]].
      rewrite Hx, HX, (term_not_digit _ HR), Hd, He, HE. cbn [orb andb negb]. rewrite !andb_false_r. cbn [andb].
      unfold finish_number. rewrite Hcm, Hcp. rewrite andb_false_r. reflexivity. }
  rewrite Hend. rewrite app_nil_r. reflexivity.
Qed.

(* ---- strings ---- *)
Lemma str_loop_exact : forall v R, expr_string v = true -> str_loop (v ++ ch_quote :: R) = (true, v ++ [ch_quote], R).
Proof.
  induction v as [|c v IH]; intros R H; cbn [app].
  - reflexivity.
  - unfold expr_string in H. cbn [forallb] in H. apply andb_true_iff in H. destruct H as [Hc Hv].
    apply andb_true_iff in Hc. destruct Hc as [Hq H0]. apply negb_true_iff in Hq, H0.
    cbn [str_loop]. rewrite Hq, H0. rewrite (IH R Hv). reflexivity.
Qed.

Lemma scan_string : forall v R, expr_string v = true ->
  sa ch_quote (v ++ ch_quote :: R) = (KString, v ++ [ch_quote], R).
Proof.
  intros v R H. rewrite (Hfdf ch_quote) by (unfold ch_quote; lia). unfold scan_after'. change (ch_quote =? 0) with false. change (is_space ch_quote) with false.
  change (is_letter ch_quote) with false. change (ch_quote =? ch_minus) with false. change (ch_quote =? ch_plus) with false.
  change (ch_quote =? ch_quote) with true. cbv iota.
  change (ascii_digit ch_quote) with false. cbn [orb].
  rewrite (str_loop_exact v R H). reflexivity.
Qed.

(* ---- punctuation ---- *)
Lemma scan_sign : forall c R, (c = ch_plus \/ c = ch_minus) -> hd_term R = true ->
  sa c R = (KPunct, [], R).
Proof.
  intros c R Hc HR.
  assert (Hn : num_loop ud R c false c false false = (KPunct, [], R)).
  { destruct R as [|t R']; cbn [num_loop].
    - destruct Hc; subst; reflexivity.
    - cbn [hd_term] in HR. destruct (term_misc _ HR) as [Hd [He [HE [Hx HX]]]].
      rewrite Hx, HX, (term_not_digit _ HR), Hd, He, HE. cbn [orb andb negb]. rewrite ?andb_false_r. cbn [andb].
      destruct Hc; subst; reflexivity. }
  destruct Hc; subst; [rewrite scan_after_plus|rewrite scan_after_minus]; exact Hn.
Qed.

Lemma scan_punct : forall c R, is_punct_char c = true ->
  (if (c =? ch_plus) || (c =? ch_minus) then hd_term R else true) = true ->
  sa c R = (KPunct, [], R).
Proof.
  intros c R Hc HR.
  assert (Hcases : In c punct_chars).
  { unfold is_punct_char in Hc. apply existsb_exists in Hc. destruct Hc as [x [Hin Hx]]. apply N.eqb_eq in Hx. subst; exact Hin. }
  unfold punct_chars in Hcases. cbn [In] in Hcases.
  repeat (destruct Hcases as [Hcases|Hcases]); try contradiction; subst c;
    try (apply scan_sign; [auto|exact HR]);
    (rewrite Hfdf by lia; reflexivity).
Qed.

(* ---- blanks ---- *)
Lemma span_space_app : forall s R, forallb is_space s = true ->
  span_space (s ++ R) = (let '(w, rest) := span_space R in (s ++ w, rest)).
Proof.
  induction s as [|c s IH]; intros R H; cbn [app].
  - destruct (span_space R); reflexivity.
  - cbn [forallb] in H. apply andb_true_iff in H. destruct H as [Hc Hs].
    cbn [span_space]. rewrite Hc, (IH R Hs). destruct (span_space R); reflexivity.
Qed.

Lemma scan_after_space : forall c r, is_space c = true ->
  sa c r = (let '(w, rest) := span_space r in (KSpace, w, rest)).
Proof. intros c r H. unfold scan_after'. replace (c =? 0) with false by chlia. rewrite H. reflexivity. Qed.

Lemma Lx_sp : forall s R ts, sp_ok s -> Lx R ts -> Lx (s ++ R) ts.
Proof.
  intros s R ts [Hne Hs] HL. destruct s as [|c s]; [congruence|]. cbn [forallb] in Hs.
  apply andb_true_iff in Hs. destruct Hs as [Hc Hs]. cbn [app].
  destruct (span_space R) as [w2 R2] eqn:E2.
  assert (HL2 : Lx R2 ts).
  { destruct R as [|c2 R']; [cbn in E2; inversion E2; subst; exact HL|].
    destruct (is_space c2) eqn:Hc2.
    - destruct HL as [f [l [Hl Hd]]]. destruct f as [|f]; [discriminate|]. cbn [lexk] in Hl.
      rewrite (scan_after_space _ _ Hc2) in Hl. cbn [span_space] in E2. rewrite Hc2 in E2.
      destruct (span_space R') as [w' rest'] eqn:E3. inversion E2; subst w2 R2.
      destruct (lexk f rest') as [l'|] eqn:E4; [|discriminate]. inversion Hl; subst l.
      exists f, l'. split; [exact E4|]. exact Hd.
    - cbn [span_space] in E2. rewrite Hc2 in E2. inversion E2; subst. exact HL. }
  pose proof (Lx_step c (s ++ R) KSpace (s ++ w2) R2 ts) as HS. cbn in HS. apply HS; [|exact HL2].
  rewrite (scan_after_space _ _ Hc), (span_space_app _ _ Hs), E2. reflexivity.
Qed.

(* ---- one token ---- *)
Lemma removelast_app1 : forall (v : list N) x, removelast (v ++ [x]) = v.
Proof. intros v x. rewrite removelast_app by discriminate. cbn. apply app_nil_r. Qed.

Lemma Lx_tok : forall k v R ts,
  tok_wf ud k v -> ok_after k v R = true -> Lx R ts -> Lx (piece_text (Tk k v) ++ R) ((k, v) :: ts).
Proof.
  intros k v R ts Hwf Hok HL.
  destruct k; cbn [tok_wf] in Hwf; try contradiction.
  - (* ident *) destruct v as [|c w]; [discriminate|]. cbn [piece_text app].
    pose proof (Lx_step c (w ++ R) KIdent w R ts) as HS. cbn in HS. apply HS; [|exact HL].
    apply scan_word; [exact Hwf|]. destruct R as [|t R']; [exact I|]. cbn [ok_after] in Hok.
    apply andb_true_iff in Hok. destruct Hok as [H1 H2]. apply negb_true_iff in H2. auto.
  - (* number *) destruct v as [|c w]; [destruct Hwf; discriminate|]. cbn [piece_text app].
    pose proof (Lx_step c (w ++ R) KNumber w R ts) as HS. cbn in HS. apply HS; [|exact HL].
    destruct Hwf as [Hwf|Hwf]; [apply scan_plain_number|apply scan_hex_number]; assumption.
  - (* range *) destruct v as [|c w]; [destruct Hwf as [a [b [Hv [Ha _]]]]; destruct a; [congruence|discriminate]|].
    cbn [piece_text app].
    pose proof (Lx_step c (w ++ R) KRange w R ts) as HS. cbn in HS. apply HS; [|exact HL].
    apply scan_range; assumption.
  - (* mux *) destruct v as [|c w]; [discriminate|]. cbn [piece_text app].
    pose proof (Lx_step c (w ++ R) KMux w R ts) as HS. cbn in HS. apply HS; [|exact HL].
    apply scan_word; [exact Hwf|]. destruct R as [|t R']; [exact I|]. cbn [ok_after] in Hok.
    apply andb_true_iff in Hok. destruct Hok as [H1 H2]. apply negb_true_iff in H2. auto.
  - (* string *) cbn [piece_text app]. rewrite <- app_assoc. cbn [app].
    pose proof (Lx_step ch_quote (v ++ ch_quote :: R) KString (v ++ [ch_quote]) R ts) as HS.
    cbn [tkind_eqb tkind_index N.eqb token_value] in HS. rewrite removelast_app1 in HS.
    apply HS; [|exact HL]. apply scan_string; exact Hwf.
  - (* keyword *) destruct v as [|c w]; [discriminate|]. cbn [piece_text app].
    pose proof (Lx_step c (w ++ R) KKeyword w R ts) as HS. cbn in HS. apply HS; [|exact HL].
    apply scan_word; [exact Hwf|]. destruct R as [|t R']; [exact I|]. cbn [ok_after] in Hok.
    apply andb_true_iff in Hok. destruct Hok as [H1 H2]. apply negb_true_iff in H2. auto.
  - (* punct *) destruct v as [|c [|c2 v']]; try contradiction. cbn [piece_text app].
    pose proof (Lx_step c R KPunct [] R ts) as HS. cbn in HS. apply HS; [|exact HL].
    apply scan_punct; [exact Hwf|exact Hok].
Qed.

(* ---- the pieces ---- *)
Lemma Lx_pieces : forall ps tail ts, pok ud ps tail -> Lx tail ts -> Lx (render ps ++ tail) (toks_of ps ++ ts).
Proof.
  induction ps as [|p ps IH]; intros tail ts Hp HL; [exact HL|].
  unfold render, toks_of. cbn [flat_map]. fold (render ps) (toks_of ps).
  rewrite <- app_assoc. destruct p as [s|k v]; cbn [pok] in Hp.
  - destruct Hp as [Hs Hp]. cbn [piece_text app]. apply Lx_sp; [exact Hs|]. apply IH; assumption.
  - destruct Hp as [Hwf [Hok Hp]]. cbn [app]. apply Lx_tok; [exact Hwf|exact Hok|]. apply IH; assumption.
Qed.

Lemma Lx_render : forall ps, pok ud ps [] -> Lx (render ps) (toks_of ps ++ [eof_tok]).
Proof.
  intros ps Hp. pose proof (Lx_pieces ps [] [eof_tok] Hp Lx_nil) as H. rewrite app_nil_r in H. exact H.
Qed.

End LexPrint.

(* ---- back to the real lexer: [ud] = unicode.IsDigit outside ASCII ---- *)
Section Real.
Variable ud : N -> bool.
Hypothesis Hud : ud_ok ud.

Lemma peek_digits_ok : ud_ok (peek_digits ud).
Proof. intros c Hc. unfold peek_digits. rewrite (Hud c Hc). reflexivity. Qed.

Lemma fdf_ok : forall c, c < 128 -> is_digit ud c = ascii_digit c.
Proof. intros c Hc. unfold is_digit. rewrite (Hud c Hc). apply orb_false_r. Qed.

Notation lexk' := (lexk (peek_digits ud) (is_digit ud)).

Lemma lexk_lex_fuel : forall fuel inp p start,
  option_map (map strip) (lex_fuel ud fuel inp p start) = lexk' fuel inp.
Proof.
  induction fuel as [|f IH]; intros inp p start; [reflexivity|].
  destruct inp as [|c r]; cbn [lex_fuel lexk]; [reflexivity|].
  unfold scan_after. destruct (scan_after' (peek_digits ud) (is_digit ud c) c r) as [[k w] rest].
  rewrite <- (IH rest (advance_all (advance p c) w) (advance p c)).
  destruct (lex_fuel ud f rest _ _); reflexivity.
Qed.

(* the tokens the parser sees *)
Definition tokens_of_text (text : list N) : option (list tok) :=
  option_map (fun raw => map strip (pfilter raw)) (lex ud text).


Lemma Lx_tokens_of_text : forall text ts, Lx (peek_digits ud) (is_digit ud) text ts -> tokens_of_text text = Some ts.
Proof.
  intros text ts [f [l [Hl Hd]]]. unfold tokens_of_text, lex.
  destruct (lex_fuel_enough ud (S (length text)) text (1, 0) (1, 0)) as [raw Hraw]; [lia|].
  pose proof (lexk_lex_fuel (S (length text)) text (1, 0) (1, 0)) as HK. rewrite Hraw in HK.
  cbn [option_map] in *. symmetry in HK.
  assert (H1 : lexk' (Nat.max f (S (length text))) text = Some l) by (eapply lexk_fuel_mono; [exact fdf_ok|exact Hl|apply Nat.le_max_l]).
  assert (H2 : lexk' (Nat.max f (S (length text))) text = Some (map strip raw)) by (eapply lexk_fuel_mono; [exact fdf_ok|exact HK|apply Nat.le_max_r]).
  rewrite H1 in H2. inversion H2 as [H3]. rewrite Hraw. cbn [option_map]. rewrite pfilter_strip, <- H3.
  destruct (lexk_pfilter _ _ _ _ _ Hl) as [Hp _]. rewrite Hp, Hd. reflexivity.
Qed.

(* lex_print_tokens: the parser sees exactly the tokens the writer printed, then end of input *)
Theorem lex_print_tokens : forall ps, pok (peek_digits ud) ps [] ->
  tokens_of_text (render ps) = Some (toks_of ps ++ [eof_tok]).
Proof.
  intros ps Hp. apply Lx_tokens_of_text. apply Lx_render; [exact peek_digits_ok|exact fdf_ok|exact Hp].
Qed.

End Real.
