(* C08 — the writer's pieces are lexable: every token the writer prints for an expressible
   document is well formed for its kind and is followed by a blank or punctuation that delimits
   it ([pok]), so that lex_print_tokens applies to the written text. *)
From Coq Require Import Arith NArith ZArith List Bool Lia.
From Acme.C08 Require Import DbcAst Chars DbcLex DbcParse DbcWrite Expr ProofsLexPrint ProofsFormat ProofsSections ProofsFile.
Import ListNotations.
Local Open Scope N_scope.

Lemma pok_app_intro : forall up a b tail, pok up a (render b ++ tail) -> pok up b tail -> pok up (a ++ b) tail.
Proof. intros. apply pok_app. split; assumption. Qed.

Lemma pok_flat_map : forall up A (f : A -> list piece) l tail,
  (forall x tail', In x l -> pok up (f x) tail') -> pok up (flat_map f l) tail.
Proof.
  intros up A f l tail H. induction l as [|x l IH]; [exact I|]. cbn [flat_map]. apply pok_app_intro.
  - apply H. left; reflexivity.
  - apply IH. intros y t Hy. apply H. right; exact Hy.
Qed.

Lemma render_app : forall a b, render (a ++ b) = render a ++ render b.
Proof. intros. unfold render. apply flat_map_app. Qed.

(* lists whose elements end in a token that needs a delimiter: fine when every element starts
   with a delimiter and the text after the list does too *)
Lemma pok_flat_map_tail : forall up A (f : A -> list piece) (P : str -> Prop) l tail,
  (forall x R, In x l -> P R -> pok up (f x) R) ->
  (forall x R, P (render (f x) ++ R)) ->
  P tail -> pok up (flat_map f l) tail.
Proof.
  intros up A f P l tail H1 H2 Ht. induction l as [|x l IH]; [exact I|]. cbn [flat_map]. apply pok_app_intro.
  - apply H1; [left; reflexivity|]. destruct l as [|y l']; [exact Ht|]. cbn [flat_map]. rewrite render_app, <- app_assoc. apply H2.
  - apply IH. intros y R Hy. apply H1. right; exact Hy.
Qed.

Definition good (R : str) : Prop := match R with [] => True | t :: _ => is_term t = true /\ (t =? ch_minus) = false end.

(* ---- well-formed tokens ---- *)
Lemma wf_unum : forall up n, tok_wf up KNumber (format_uint n).
Proof. intros. left. apply format_uint_plain. Qed.
Lemma wf_inum : forall up z, tok_wf up KNumber (format_int z).
Proof. intros. left. apply format_int_plain. Qed.

Section Pok.
Variable up : N -> bool.
Hypothesis Hup : ud_ok up.
Variable fmt : N -> str.
Variable prs : str -> option N.
Variable hex : bool.
Hypothesis Horacle : oracle_ok fmt prs.

Lemma wf_ascii_word : forall k v, wf_word no_ud k v = true -> wf_word up k v = true.
Proof. intros k v H. exact (wf_word_up up Hup ascii_digit (fun c _ => eq_refl) k v H). Qed.

Lemma wf_fl : forall b, fin b = true -> tok_wf up KNumber (fmt b).
Proof. intros b H. left. destruct Horacle as [_ Hs]. apply Hs; exact H. Qed.

(* the generic step: expose the next piece, prove its two conditions *)
Ltac wf_tac :=
  first [ exact I | reflexivity | assumption | (left; reflexivity) | (apply wf_ascii_word; reflexivity)
        | apply wf_unum | apply wf_inum | apply wf_fl; assumption
        | apply format_hex_wf; assumption | (apply wf_ascii_word; apply mux_word_m) | (apply wf_ascii_word; apply mux_word_mM) | apply range_wf
        | (split; [discriminate|reflexivity]) ].

Ltac after_tac :=
  first [ reflexivity
        | match goal with |- context [flat_map _ ?l] => destruct l; reflexivity end
        | match goal with |- context [match ?l with [] => _ | _ => _ end] => destruct l; reflexivity end ].

Ltac pk :=
  cbv beta delta [sp nl kw pu ident num unum qs fl];
  repeat match goal with
  | |- pok _ [] _ => exact I
  | |- pok _ (Sp _ :: _) _ => split; [split; [discriminate|reflexivity]|]
  | |- pok _ (Tk _ _ :: _) _ => split; [wf_tac|split; [after_tac|]]
  | |- pok _ (_ ++ _) _ => apply pok_app_intro
  end.

Lemma pok_value_desc : forall d tail, wf_vd d -> pok up (w_value_desc d) tail.
Proof. intros d tail [H1 H2]. unfold w_value_desc. pk. Qed.

Lemma pok_value_table : forall t tail, wf_value_table up t -> pok up (w_value_table t) tail.
Proof.
  intros t tail [Hn Hv]. unfold w_value_table. pk.
  apply pok_flat_map. intros d t' Hd. apply pok_value_desc. rewrite Forall_forall in Hv. apply Hv; exact Hd.
Qed.


Lemma good_after : forall v R, good R -> ok_after KIdent v R = true.
Proof. intros v [|t R] H; [reflexivity|]. destruct H as [H1 H2]. cbn [ok_after]. rewrite H1, H2. reflexivity. Qed.

Lemma pok_idents : forall l tail, idents_ok up l -> good tail -> pok up (flat_map (fun n => [sp; ident n]) l) tail.
Proof.
  intros l tail H Ht. apply (pok_flat_map_tail up _ _ good); [| |exact Ht].
  - intros n R Hn HR. unfold idents_ok in H. rewrite Forall_forall in H. specialize (H n Hn).
    cbv delta [sp ident]. split; [split; [discriminate|reflexivity]|]. split; [exact H|]. split; [|exact I].
    cbn [render flat_map app]. apply good_after; exact HR.
  - intros n R. split; reflexivity.
Qed.

Lemma pok_comma_names : forall l tail, idents_ok up l -> good tail -> pok up (w_comma_names l) tail.
Proof.
  intros l tail H Ht. destruct l as [|x l]; [exact I|]. inversion H as [|x' l' Hx Hl]; subst. unfold w_comma_names.
  cbv delta [sp ident pu]. split; [split; [discriminate|reflexivity]|]. split; [exact Hx|]. split.
  - apply good_after. destruct l as [|y l]; cbn [flat_map app render]; [exact Ht|split; reflexivity].
  - cbn [app]. apply (pok_flat_map_tail up _ _ good); [| |exact Ht].
    + intros n R Hn HR. rewrite Forall_forall in Hl. specialize (Hl n Hn).
      split; [reflexivity|]. split; [reflexivity|]. split; [split; [discriminate|reflexivity]|].
      split; [exact Hl|]. split; [|exact I]. cbn [render flat_map app]. apply good_after; exact HR.
    + intros n R. split; reflexivity.
Qed.

Lemma pok_signal : forall s tail, wf_signal up s -> pok up (w_signal fmt s) tail.
Proof.
  intros s tail (Hn & Hm & Hst & Hsz & Hf & Ho & Hmn & Hmx & Hu & Hne & Hr).
  destruct s as [name muxor mux start size bo vt factor offset mn mx unit rcv]; cbn [sg_name sg_mux sg_start sg_size sg_factor sg_offset sg_min sg_max sg_unit sg_receivers sg_multiplexor sg_order sg_vtype] in *.
  unfold w_signal, w_mux. cbn [sg_name sg_mux sg_start sg_size sg_factor sg_offset sg_min sg_max sg_unit sg_receivers sg_multiplexor sg_order sg_vtype].
  destruct bo, vt, mux as [n|], muxor; cbn [w_byte_order w_sign]; pk;
    try (apply pok_comma_names; [exact Hr|split; reflexivity]);
    try (destruct rcv; [congruence|reflexivity]).
Qed.

Lemma pok_message : forall m tail, wf_message up m -> pok up (w_message fmt m) tail.
Proof.
  intros m tail (Hid & Hn & Hsz & Htx & Hs). unfold w_message. pk.
  apply pok_flat_map. intros s t Hin. apply pok_signal. rewrite Forall_forall in Hs. apply Hs; exact Hin.
Qed.

Lemma pok_msg_transmitter : forall t tail, wf_msg_transmitter up t -> pok up (w_msg_transmitter t) tail.
Proof. intros t tail (Hid & Hn). unfold w_msg_transmitter. pk. apply pok_idents; [exact Hn|split; reflexivity]. Qed.

Lemma pok_env_var : forall e tail, wf_env_var up e -> pok up (w_env_var fmt e) tail.
Proof.
  intros e tail (Hn & Hmn & Hmx & Hu & Hi & Hid & Ha & Hne & Hnodes).
  destruct e as [name ty mn mx unit init id acc nodes]; cbn [ev_name ev_ty ev_min ev_max ev_unit ev_init ev_id ev_access ev_nodes] in *.
  unfold w_env_var. cbn [ev_name ev_ty ev_min ev_max ev_unit ev_init ev_id ev_access ev_nodes].
  assert (Hacc : exists a, nth_error access_names (N.to_nat acc) = Some a /\ wf_word up KIdent a = true).
  { assert (H : acc = 0 \/ acc = 1 \/ acc = 2 \/ acc = 3 \/ acc = 4 \/ acc = 5 \/ acc = 6 \/ acc = 7) by lia.
    repeat (destruct H as [H|H]); subst; eexists; (split; [reflexivity|apply wf_ascii_word; reflexivity]). }
  destruct Hacc as [a [Ha1 Ha2]]. rewrite Ha1.
  destruct ty; cbn [w_ev_type]; pk; try (apply pok_comma_names; [exact Hnodes|split; reflexivity]);
    (split; [exact Ha2|split; [destruct nodes; [congruence|reflexivity]|exact I]]).
Qed.

Lemma pok_env_var_data : forall d tail, wf_env_var_data up d -> pok up (w_env_var_data d) tail.
Proof. intros d tail (Hn & Hs). unfold w_env_var_data. pk. Qed.

Lemma pok_signal_type : forall s tail, wf_signal_type up s -> pok up (w_signal_type fmt s) tail.
Proof.
  intros s tail (Hn & Hsz & Hf & Ho & Hmn & Hmx & Hu & Hd & Ht).
  destruct s as [name size bo vt factor offset mn mx unit dflt table]; cbn [st_name st_size st_order st_vtype st_factor st_offset st_min st_max st_unit st_default st_table] in *.
  unfold w_signal_type. cbn [st_name st_size st_order st_vtype st_factor st_offset st_min st_max st_unit st_default st_table].
  destruct bo, vt; cbn [w_byte_order w_sign]; pk.
Qed.

Lemma pok_signal_type_ref : forall r tail, wf_signal_type_ref up r -> pok up (w_signal_type_ref r) tail.
Proof. intros r tail (Hid & Hs & Ht). unfold w_signal_type_ref. pk. Qed.

Lemma pok_comment : forall c tail, wf_comment up c -> pok up (w_comment c) tail.
Proof.
  intros c tail (Hr & Ht). destruct c as [ref text]; cbn [cm_ref cm_text] in *. unfold w_comment. cbn [cm_ref cm_text].
  destruct ref as [|n|id|id n|n]; cbn [w_obj_ref wf_ref] in *; [| | |destruct Hr as [Hr1 Hr2]|]; pk.
Qed.

Lemma pok_enum_values : forall l tail, Forall (fun s => expr_string s = true) l -> pok up (w_enum_values l) tail.
Proof.
  intros l tail H. destruct l as [|x l]; [exact I|]. inversion H as [|x' l' Hx Hl]; subst. unfold w_enum_values. pk.
  apply pok_flat_map. intros v t Hv. rewrite Forall_forall in Hl. specialize (Hl v Hv). pk.
Qed.

Lemma pok_attribute : forall a tail, wf_attribute a -> pok up (w_attribute fmt hex a) tail.
Proof.
  intros a tail (Hn & Ht). destruct a as [kind name ty]; cbn [ad_kind ad_name ad_type] in *.
  assert (Hname : expr_string name = true) by (unfold expr_attr_name in Hn; apply andb_true_iff in Hn; tauto).
  unfold w_attribute. cbn [ad_kind ad_name ad_type].
  destruct ty as [mn mx|mn mx|mn mx| |l]; cbn [w_attr_type wf_attr_type] in *.
  - destruct Ht as [Ht1 Ht2]. destruct kind; cbn [w_attr_kind]; pk.
  - destruct Ht as [Ht1 Ht2]. destruct kind; cbn [w_attr_kind]; pk.
  - destruct Ht as [Ht1 Ht2]. destruct kind; cbn [w_attr_kind]; pk.
  - destruct kind; cbn [w_attr_kind]; pk.
  - destruct kind; cbn [w_attr_kind]; pk; (split; [reflexivity|split; [destruct l; reflexivity|apply pok_enum_values; exact Ht]]).
Qed.

Lemma pok_attr_default : forall d tail, wf_attr_default d -> pok up (w_attr_default fmt hex d) tail.
Proof.
  intros d tail (Hn & Hv). destruct d as [name v]; cbn [af_name af_value] in *.
  assert (Hname : expr_string name = true) by (unfold expr_attr_name in Hn; apply andb_true_iff in Hn; tauto).
  unfold w_attr_default. cbn [af_name af_value]. destruct v; cbn [w_attr_val wf_val] in *; pk.
Qed.

Lemma pok_attr_value : forall v tail, wf_attr_value up v -> pok up (w_attr_value fmt hex v) tail.
Proof.
  intros v tail (Hn & Hr & Hv). destruct v as [name ref val]; cbn [av_name av_ref av_value] in *.
  unfold w_attr_value. cbn [av_name av_ref av_value].
  destruct ref as [|n|id|id n|n]; cbn [w_obj_ref wf_ref] in *; [| | |destruct Hr as [Hr1 Hr2]|];
    destruct val; cbn [w_attr_val wf_val] in *; pk.
Qed.

Lemma pok_value_encoding : forall v tail, wf_value_encoding up v -> pok up (w_value_encoding v) tail.
Proof.
  intros v tail (Hr & Hv). destruct v as [ref vals]; cbn [ve_ref ve_values] in *. unfold w_value_encoding. cbn [ve_ref ve_values].
  destruct ref as [id n|n]; cbn [w_enc_ref]; [destruct Hr as [Hr1 Hr2]|]; pk;
    apply pok_flat_map; intros d t' Hd; apply pok_value_desc; rewrite Forall_forall in Hv; apply Hv; exact Hd.
Qed.

Lemma pok_signal_group : forall g tail, wf_signal_group up g -> pok up (w_signal_group g) tail.
Proof. intros g tail (Hid & Hn & Hr & Hs). unfold w_signal_group. pk. apply pok_idents; [exact Hs|split; reflexivity]. Qed.

Lemma pok_sig_ext_value_type : forall v tail, wf_sig_ext_value_type up v -> pok up (w_sig_ext_value_type v) tail.
Proof. intros v tail (Hid & Hn). unfold w_sig_ext_value_type. destruct (sv_type v); cbn [w_ext_type]; pk. Qed.

Lemma pok_ranges : forall l tail, hd_term tail = true -> pok up (w_ranges l) tail.
Proof.
  intros l tail Ht. destruct l as [|x l]; [exact I|]. unfold w_ranges, w_range. cbv delta [sp pu].
  split; [split; [discriminate|reflexivity]|]. split; [apply range_wf|]. split.
  - destruct l as [|y l]; cbn [flat_map app render]; [exact Ht|reflexivity].
  - apply (pok_flat_map_tail up _ _ (fun R => hd_term R = true)); [| |exact Ht].
    + intros y R _ HR. split; [reflexivity|]. split; [reflexivity|]. split; [split; [discriminate|reflexivity]|].
      split; [apply range_wf|]. split; [exact HR|exact I].
    + intros y R. reflexivity.
Qed.

Lemma pok_ext_mux : forall x tail, wf_ext_mux up x -> pok up (w_ext_mux x) tail.
Proof.
  intros x tail (Hid & H1 & H2 & Hne & Hr). unfold w_ext_mux. pk.
  - split; [exact H2|split; [destruct (xm_ranges x); [congruence|reflexivity]|exact I]].
  - apply pok_ranges; reflexivity.
Qed.

Lemma pok_item : forall it tail, wf_item up it -> pok up (w_item fmt hex it) tail.
Proof.
  intros it tail H. destruct it; cbn [wf_item w_item] in *; try contradiction.
  - apply pok_value_table; exact H.
  - apply pok_message; exact H.
  - apply pok_msg_transmitter; exact H.
  - apply pok_env_var; exact H.
  - apply pok_env_var_data; exact H.
  - apply pok_signal_type; exact H.
  - apply pok_signal_type_ref; exact H.
  - apply pok_comment; exact H.
  - apply pok_attribute; exact H.
  - apply pok_attr_default; exact H.
  - apply pok_attr_value; exact H.
  - apply pok_value_encoding; exact H.
  - apply pok_signal_group; exact H.
  - apply pok_sig_ext_value_type; exact H.
  - apply pok_ext_mux; exact H.
Qed.


(* ---- header ---- *)
Lemma pok_version : forall v tail, expr_string v = true -> pok up (w_version v) tail.
Proof. intros v tail H. unfold w_version. pk. Qed.

Lemma ns_word_pok : forall s tail, mem_str s new_symbols_values = true -> pok up [Sp [ch_tab]; word s; nl] tail.
Proof.
  intros s tail H. unfold mem_str in H. apply existsb_exists in H. destruct H as [x [Hin Hx]].
  apply str_eqb_eq in Hx. subst x. unfold new_symbols_values in Hin. cbn [In] in Hin.
  repeat (destruct Hin as [Hin|Hin]; [subst s;
    (split; [split; [discriminate|reflexivity]|split; [apply wf_ascii_word; vm_compute; reflexivity|split; [reflexivity|split; [split; [discriminate|reflexivity]|exact I]]]])|]).
  contradiction.
Qed.

Lemma pok_new_symbols : forall l tail, wf_ns l -> pok up (w_new_symbols l) tail.
Proof.
  intros l tail H. unfold w_new_symbols. pk.
  apply pok_flat_map. intros s t Hs. apply ns_word_pok. unfold wf_ns in H. rewrite Forall_forall in H. apply H; exact Hs.
Qed.

Lemma pok_bit_timing : forall b tail, wf_bs b -> pok up (w_bit_timing b) tail.
Proof.
  intros b tail (H1 & H2 & H3). unfold w_bit_timing. destruct ((bt_baud b =? 0) && (bt_reg1 b =? 0) && (bt_reg2 b =? 0)); pk.
Qed.

Lemma pok_nodes : forall l tail, idents_ok up l -> pok up (w_nodes l) tail.
Proof. intros l tail H. unfold w_nodes. pk. apply pok_idents; [exact H|split; reflexivity]. Qed.

(* ---- the file ---- *)
Lemma Forall_map_item : forall A (h : A -> item) l, Forall (wf_item up) (map h l) -> forall x, In x l -> wf_item up (h x).
Proof. intros A h l H x Hx. rewrite Forall_forall in H. apply H. apply in_map; exact Hx. Qed.

Lemma pok_slice : forall A (w : A -> list piece) (h : A -> item) l tail,
  (forall x, w_item fmt hex (h x) = w x) -> Forall (wf_item up) (map h l) -> pok up (w_slice w l) tail.
Proof.
  intros A w h l tail Hw H. unfold w_slice. destruct l as [|x0 l0]; [exact I|]. apply pok_app_intro.
  - apply pok_flat_map. intros x t Hx. rewrite <- Hw. apply pok_item. eapply Forall_map_item; eauto.
  - split; [split; [discriminate|reflexivity]|exact I].
Qed.

Lemma pok_file : forall f, wf_file up f -> pok up (w_file fmt hex f) [].
Proof.
  intros f [(Hv & Hn & Hb & Hu) He]. unfold entries_of in He.
  repeat (apply Forall_app in He; destruct He as [? He]).
  unfold w_file. fold (ver_of f) (ns_of f) (bs_of f) (bu_of f).
  apply pok_app_intro; [apply pok_version; exact Hv|].
  apply pok_app_intro; [apply pok_new_symbols; exact Hn|].
  apply pok_app_intro; [apply pok_bit_timing; exact Hb|].
  apply pok_app_intro; [apply pok_nodes; exact Hu|].
  apply pok_app_intro; [eapply (pok_slice _ _ IValueTable); [reflexivity|assumption]|].
  apply pok_app_intro; [eapply (pok_slice _ _ IMessage); [reflexivity|assumption]|].
  apply pok_app_intro; [eapply (pok_slice _ _ IMsgTransmitter); [reflexivity|assumption]|].
  apply pok_app_intro; [eapply (pok_slice _ _ IEnvVar); [reflexivity|assumption]|].
  apply pok_app_intro; [eapply (pok_slice _ _ IEnvVarData); [reflexivity|assumption]|].
  apply pok_app_intro; [eapply (pok_slice _ _ ISignalType); [reflexivity|assumption]|].
  apply pok_app_intro; [eapply (pok_slice _ _ IComment); [reflexivity|assumption]|].
  apply pok_app_intro; [eapply (pok_slice _ _ IAttribute); [reflexivity|assumption]|].
  apply pok_app_intro; [eapply (pok_slice _ _ IAttrDefault); [reflexivity|assumption]|].
  apply pok_app_intro; [eapply (pok_slice _ _ IAttrValue); [reflexivity|assumption]|].
  apply pok_app_intro; [eapply (pok_slice _ _ IValueEncoding); [reflexivity|assumption]|].
  apply pok_app_intro; [eapply (pok_slice _ _ ISignalTypeRef); [reflexivity|assumption]|].
  apply pok_app_intro; [eapply (pok_slice _ _ ISignalGroup); [reflexivity|assumption]|].
  apply pok_app_intro; [eapply (pok_slice _ _ ISigExtValueType); [reflexivity|assumption]|].
  eapply (pok_slice _ _ IExtMux); [reflexivity|assumption].
Qed.

End Pok.
