(* C09 — positions: every token start the lexer records, and therefore every syntax-error
   position the parser reports, is the scanner's position after some prefix of the text. *)
From Coq Require Import Arith NArith List Bool Lia ZifyBool ZifyNat ZifyN.
From Acme.C08 Require Import DbcAst Chars DbcLex DbcParse ProofsLex.
Import ListNotations.
Local Open Scope N_scope.

(* the scanner's position after reading the first [n] characters of the text *)
Definition pos_after (text : list N) (n : nat) : pos := advance_all (1, 0) (firstn n text).

Definition valid_pos (text : list N) (p : pos) : Prop :=
  exists n, (n <= length text)%nat /\ pos_after text n = p.

Lemma advance_all_app : forall a b p, advance_all p (a ++ b) = advance_all (advance_all p a) b.
Proof. intros; unfold advance_all; apply fold_left_app. Qed.

Definition count_nl (s : list N) : N := N.of_nat (length (filter (fun c => c =? ch_nl) s)).

Lemma advance_line : forall s p, fst (advance_all p s) = fst p + count_nl s.
Proof.
  induction s as [|c r IH]; intros [l col]; unfold count_nl in *; cbn [advance_all fold_left filter length].
  - cbn. lia.
  - fold (advance_all (advance (l, col) c) r). rewrite IH. unfold advance.
    destruct (c =? ch_nl) eqn:E; cbn [fst filter length]; rewrite ?E; cbn [length fst].
    + lia.
    + destruct (c =? ch_tab); cbn [fst]; lia.
Qed.

Lemma advance_col : forall s p, snd (advance_all p s) <= snd p + 5 * N.of_nat (length s).
Proof.
  induction s as [|c r IH]; intros [l col]; cbn [advance_all fold_left length].
  - cbn. lia.
  - fold (advance_all (advance (l, col) c) r). specialize (IH (advance (l, col) c)).
    unfold advance in *. destruct (c =? ch_nl); [|destruct (c =? ch_tab)]; cbn [snd] in *; lia.
Qed.

Lemma count_nl_firstn : forall n s, count_nl (firstn n s) <= count_nl s.
Proof.
  unfold count_nl. induction n as [|n IH]; intros s; cbn [firstn filter length]; [lia|].
  destruct s as [|c r]; cbn [firstn filter length]; [lia|].
  specialize (IH r). destruct (c =? ch_nl); cbn [length]; lia.
Qed.

(* what "inside the text" gives in numbers: the line is between 1 and 1 + number of newlines,
   the column is at most 5 per character read *)
Lemma valid_pos_bounds : forall text l c, valid_pos text (l, c) ->
  1 <= l /\ l <= 1 + count_nl text /\ c <= 5 * N.of_nat (length text).
Proof.
  intros text l c [n [Hn Hp]]. unfold pos_after in Hp.
  pose proof (advance_line (firstn n text) (1, 0)) as Hl.
  pose proof (advance_col (firstn n text) (1, 0)) as Hc.
  rewrite Hp in Hl, Hc. cbn [fst snd] in Hl, Hc.
  pose proof (count_nl_firstn n text). pose proof (firstn_le_length n text). lia.
Qed.

Section Pos.
Variable ud : N -> bool.

Lemma lex_fuel_positions : forall fuel text pre inp p start ts,
  text = pre ++ inp ->
  p = advance_all (1, 0) pre ->
  valid_pos text start ->
  lex_fuel ud fuel inp p start = Some ts ->
  Forall (fun t => valid_pos text (rt_line t, rt_col t)) ts.
Proof.
  induction fuel as [|f IH]; intros text pre inp p start ts Htext Hp Hstart H; [discriminate|].
  destruct inp as [|c r]; cbn [lex_fuel] in H.
  - inversion H; subst. constructor; [|constructor]. cbn. destruct start; exact Hstart.
  - destruct (scan_after ud c r) as [[k w] rest] eqn:E.
    pose proof (scan_after_split _ _ _ _ _ _ E) as Hr.
    assert (Hs' : valid_pos text (advance p c)).
    { exists (length (pre ++ [c])). split.
      - subst text. rewrite !app_length. cbn. lia.
      - unfold pos_after. subst text. replace (pre ++ c :: r) with ((pre ++ [c]) ++ r) by (rewrite <- app_assoc; reflexivity).
        rewrite firstn_app, firstn_all, Nat.sub_diag. cbn [firstn]. rewrite app_nil_r.
        rewrite advance_all_app. subst p. reflexivity. }
    destruct (lex_fuel ud f rest (advance_all (advance p c) w) (advance p c)) as [ts'|] eqn:E2; [|discriminate].
    inversion H; subst ts. constructor.
    + cbn. destruct (advance p c); exact Hs'.
    + eapply (IH text (pre ++ c :: w) rest); [ | | exact Hs' | exact E2 ].
      * subst text r. rewrite <- app_assoc. reflexivity.
      * replace (pre ++ c :: w) with ((pre ++ [c]) ++ w) by (rewrite <- app_assoc; reflexivity).
        rewrite !advance_all_app. subst p. reflexivity.
Qed.

Theorem lex_positions : forall text ts, lex ud text = Some ts ->
  Forall (fun t => valid_pos text (rt_line t, rt_col t)) ts.
Proof.
  intros text ts H. unfold lex in H.
  eapply (lex_fuel_positions _ text [] text); eauto.
  exists 0%nat. split; [lia|reflexivity].
Qed.

End Pos.

Lemma pfilter_In : forall l t, In t (pfilter l) -> In t l.
Proof.
  fix IH 1. intros l t H. destruct l as [|a r]; cbn in H; [contradiction|].
  destruct (is_space_tok a).
  - destruct r as [|b r2]; [contradiction|]. destruct H as [H|H]; [right; left; exact H|].
    right; right. apply IH; exact H.
  - destruct H as [H|H]; [left; exact H|]. right. apply IH; exact H.
Qed.

Lemma last_opt_In : forall A (l : list A) x, last_opt l = Some x -> In x l.
Proof.
  intros A l x H. unfold last_opt in H. destruct (rev l) as [|y r] eqn:E; [discriminate|].
  inversion H; subst. apply in_rev. rewrite E. left; reflexivity.
Qed.

Lemma error_pos_cases : forall pts n l c, pts <> [] -> error_pos pts n = (l, c) ->
  exists t, In t pts /\ (rt_line t, rt_col t) = (l, c).
Proof.
  intros pts n l c Hne H. unfold error_pos in H.
  destruct (nth_error pts (length pts - n)) as [t|] eqn:E.
  - exists t. split; [eapply nth_error_In; eauto|exact H].
  - destruct (last_opt pts) as [t|] eqn:E2.
    + exists t. split; [eapply last_opt_In; eauto|exact H].
    + exfalso. unfold last_opt in E2. destruct (rev pts) as [|y r] eqn:ER; [|discriminate].
      apply (f_equal (@rev _)) in ER. rewrite rev_involutive in ER. cbn in ER. congruence.
Qed.

(* the lexer's output ends with the end-of-input token *)
Lemma lex_fuel_last : forall ud fuel inp p start ts, lex_fuel ud fuel inp p start = Some ts ->
  exists ts' t, ts = ts' ++ [t] /\ rt_kind t = KEOF.
Proof.
  induction fuel as [|f IH]; intros inp p start ts H; [discriminate|].
  destruct inp as [|c r]; cbn [lex_fuel] in H.
  - inversion H; subst. exists [], {| rt_kind := KEOF; rt_value := []; rt_line := fst start; rt_col := snd start |}.
    split; reflexivity.
  - destruct (scan_after ud c r) as [[k w] rest].
    destruct (lex_fuel ud f rest _ _) as [ts1|] eqn:E; [|discriminate].
    inversion H; subst ts. destruct (IH _ _ _ _ E) as [ts' [t [Hts Hk]]]. subst ts1.
    eexists (_ :: ts'), t. split; [reflexivity|exact Hk].
Qed.

Lemma pfilter_nonempty : forall l t, is_space_tok t = false -> pfilter (l ++ [t]) <> [].
Proof.
  intros l t Ht. destruct l as [|a r]; cbn.
  - rewrite Ht. discriminate.
  - destruct (is_space_tok a); [|discriminate].
    destruct r as [|b r2]; cbn; discriminate.
Qed.

(* error_position_spec: a syntax error is reported at the recorded start of a token of the text
   (for the end-of-input token: the start marker the scanner kept), which is the scanner's
   position after a prefix of the text. *)
Theorem error_position_spec : forall ud prs hex text l c,
  parse ud prs hex text = OSyntax l c ->
  valid_pos text (l, c) /\
  (exists raw t, lex ud text = Some raw /\ In t raw /\ (rt_line t, rt_col t) = (l, c)).
Proof.
  intros ud prs hex text l c H. unfold parse in H.
  destruct (lex ud text) as [raw|] eqn:EL; [|discriminate].
  pose proof (lex_positions ud text raw EL) as Hpos. rewrite Forall_forall in Hpos.
  unfold parse_tokens in H.
  destruct (parse_loop prs hex (S (length (map strip (pfilter raw)))) _ (map strip (pfilter raw))) eqn:EP; try discriminate.
  destruct (error_pos (pfilter raw) remaining) as [l' c'] eqn:EE. inversion H; subst l' c'.
  assert (Hne : pfilter raw <> []).
  { unfold lex in EL. destruct (lex_fuel_last _ _ _ _ _ _ EL) as [ts' [t [Hts Hk]]]. subst raw.
    apply pfilter_nonempty. unfold is_space_tok. rewrite Hk. reflexivity. }
  destruct (error_pos_cases _ _ _ _ Hne EE) as [t [Hin Ht]].
  apply pfilter_In in Hin. split.
  - rewrite <- Ht. apply Hpos; exact Hin.
  - exists raw, t. auto.
Qed.
