(* C09 — prefix determinism of the parser model.

   [local p]: what [p] returns depends only on the tokens it consumed and on ONE more token.
   * success: ts = pre ++ r (pre consumed, r returned); replacing everything after the first token
     of r by anything gives the same value and the correspondingly replaced rest;
   * error:   ts = pre ++ rem with |rem| = n, the head of rem being the token the error is raised
     at; replacing everything after that token by anything gives the error at the same token.
   Consequences (end of file): the index a syntax error is reported at is determined by the
   tokens up to and including it, and no input sharing the tokens before it is rejected earlier —
   the reported token is the first one at which the prefix stops being viable. *)
From Coq Require Import Arith NArith List Bool Lia.
From Acme.C08 Require Import DbcAst Chars DbcLex DbcParse ProofsLex ProofsTotal ProofsErrPos.
Import ListNotations.

Definition local {A} (p : list tok -> pres A) : Prop :=
  (forall ts a r, p ts = POk a r ->
     exists pre, ts = pre ++ r /\ forall t r' ext, r = t :: r' -> p (pre ++ t :: ext) = POk a (t :: ext)) /\
  (forall ts n, p ts = PErr n ->
     exists pre rem, ts = pre ++ rem /\ length rem = n /\
       forall t r' ext, rem = t :: r' -> p (pre ++ t :: ext) = PErr (S (length ext))).

Lemma local_ret : forall A (a : A), local (fun ts => POk a ts).
Proof.
  intros A a. split.
  - intros ts a' r H. inversion H; subst. exists []. split; [reflexivity|]. intros; reflexivity.
  - intros ts n H. discriminate.
Qed.

Lemma local_err_here : forall A, local (fun ts => @PErr A (length ts)).
Proof.
  intros A. split; [intros ts a r H; discriminate|].
  intros ts n H. inversion H; subst. exists [], ts. split; [reflexivity|]. split; [reflexivity|].
  intros t r' ext _. cbn. reflexivity.
Qed.

Lemma local_bind : forall A B (p : list tok -> pres A) (f : A -> list tok -> pres B),
  local p -> (forall a, local (f a)) -> local (fun ts => bind (p ts) f).
Proof.
  intros A B p f [Hps Hpe] Hf. split.
  - intros ts b r H. destruct (p ts) as [a r1|n|] eqn:E; cbn [bind] in H; try discriminate.
    destruct (Hps _ _ _ E) as [pre1 [Hts Hrep1]]. destruct (Hf a) as [Hfs _].
    destruct (Hfs _ _ _ H) as [pre2 [Hr1 Hrep2]]. exists (pre1 ++ pre2). split; [subst; rewrite app_assoc; reflexivity|].
    intros t r' ext Hr. subst r. rewrite <- app_assoc.
    destruct pre2 as [|u pre2'].
    + cbn [app] in *. rewrite (Hrep1 t r' ext Hr1). cbn [bind]. exact (Hrep2 t r' ext eq_refl).
    + cbn [app] in *. rewrite (Hrep1 u _ (pre2' ++ t :: ext) Hr1). cbn [bind]. exact (Hrep2 t r' ext eq_refl).
  - intros ts n H. destruct (p ts) as [a r1|m|] eqn:E; cbn [bind] in H; try discriminate.
    + destruct (Hps _ _ _ E) as [pre1 [Hts Hrep1]]. destruct (Hf a) as [_ Hfe].
      destruct (Hfe _ _ H) as [pre2 [rem [Hr1 [Hlen Hrep2]]]]. exists (pre1 ++ pre2), rem.
      split; [subst; rewrite app_assoc; reflexivity|]. split; [exact Hlen|].
      intros t r' ext Hr. subst rem. rewrite <- app_assoc.
      destruct pre2 as [|u pre2'].
      * cbn [app] in *. rewrite (Hrep1 t r' ext Hr1). cbn [bind]. exact (Hrep2 t r' ext eq_refl).
      * cbn [app] in *. rewrite (Hrep1 u _ (pre2' ++ t :: ext) Hr1). cbn [bind]. exact (Hrep2 t r' ext eq_refl).
    + inversion H; subst. destruct (Hpe _ _ E) as [pre [rem [Hts [Hlen Hrep]]]]. exists pre, rem.
      split; [exact Hts|]. split; [exact Hlen|]. intros t r' ext Hr. rewrite (Hrep t r' ext Hr). reflexivity.
Qed.

(* a parser that inspects exactly the first token: [g t] decides *)
Lemma local_first : forall A (g : tok -> option A),
  local (fun ts => let '(t, r) := next ts in match g t with Some a => POk a r | None => PErr (length ts) end).
Proof.
  intros A g. split.
  - intros ts a r H. destruct ts as [|t0 l]; cbn [next] in H.
    + destruct (g eof_tok); inversion H; subst. exists []. split; [reflexivity|]. intros; discriminate.
    + destruct (g t0) eqn:E; inversion H; subst. exists [t0]. split; [reflexivity|].
      intros t r' ext _. cbn [app next]. rewrite E. reflexivity.
  - intros ts n H. destruct ts as [|t0 l]; cbn [next] in H.
    + destruct (g eof_tok); inversion H; subst. exists [], []. split; [reflexivity|]. split; [reflexivity|]. intros; discriminate.
    + destruct (g t0) eqn:E; inversion H; subst. exists [], (t0 :: l). split; [reflexivity|]. split; [reflexivity|].
      intros t r' ext Hr. inversion Hr; subst. cbn [app next]. rewrite E. reflexivity.
Qed.

Lemma local_ext : forall A (p q : list tok -> pres A), (forall ts, p ts = q ts) -> local q -> local p.
Proof.
  intros A p q Heq [Hs He]. split.
  - intros ts a r H. rewrite Heq in H. destruct (Hs _ _ _ H) as [pre [H1 H2]]. exists pre. split; [exact H1|].
    intros. rewrite Heq. eapply H2; eauto.
  - intros ts n H. rewrite Heq in H. destruct (He _ _ H) as [pre [rem [H1 [H2 H3]]]]. exists pre, rem. repeat split; try assumption.
    intros. rewrite Heq. eapply H3; eauto.
Qed.

(* the same, at one input *)
Definition local_at {A} (p : list tok -> pres A) (ts : list tok) : Prop :=
  (forall a r, p ts = POk a r ->
     exists pre, ts = pre ++ r /\ forall t r' ext, r = t :: r' -> p (pre ++ t :: ext) = POk a (t :: ext)) /\
  (forall n, p ts = PErr n ->
     exists pre rem, ts = pre ++ rem /\ length rem = n /\
       forall t r' ext, rem = t :: r' -> p (pre ++ t :: ext) = PErr (S (length ext))).

Lemma local_all : forall A (p : list tok -> pres A), (forall ts, local_at p ts) -> local p.
Proof. intros A p H. split; intros ts; apply (H ts). Qed.
Lemma local_at_of : forall A (p : list tok -> pres A) ts, local p -> local_at p ts.
Proof. intros A p ts [H1 H2]. split; [apply H1|apply H2]. Qed.

Lemma local_at_bind : forall A B (p : list tok -> pres A) (f : A -> list tok -> pres B) ts,
  local_at p ts -> (forall a r1, p ts = POk a r1 -> local_at (f a) r1) -> local_at (fun ts => bind (p ts) f) ts.
Proof.
  intros A B p f ts [Hps Hpe] Hf. split.
  - intros b r H. destruct (p ts) as [a r1|n|] eqn:E; cbn [bind] in H; try discriminate.
    destruct (Hps _ _ eq_refl) as [pre1 [Hts Hrep1]]. destruct (Hf a r1 eq_refl) as [Hfs _].
    destruct (Hfs _ _ H) as [pre2 [Hr1 Hrep2]]. exists (pre1 ++ pre2). split; [subst; rewrite app_assoc; reflexivity|].
    intros t r' ext Hr. subst r. rewrite <- app_assoc.
    destruct pre2 as [|u pre2'].
    + cbn [app] in *. rewrite (Hrep1 t r' ext Hr1). cbn [bind]. exact (Hrep2 t r' ext eq_refl).
    + cbn [app] in *. rewrite (Hrep1 u _ (pre2' ++ t :: ext) Hr1). cbn [bind]. exact (Hrep2 t r' ext eq_refl).
  - intros n H. destruct (p ts) as [a r1|m|] eqn:E; cbn [bind] in H; try discriminate.
    + destruct (Hps _ _ eq_refl) as [pre1 [Hts Hrep1]]. destruct (Hf a r1 eq_refl) as [_ Hfe].
      destruct (Hfe _ H) as [pre2 [rem [Hr1 [Hlen Hrep2]]]]. exists (pre1 ++ pre2), rem.
      split; [subst; rewrite app_assoc; reflexivity|]. split; [exact Hlen|].
      intros t r' ext Hr. subst rem. rewrite <- app_assoc.
      destruct pre2 as [|u pre2'].
      * cbn [app] in *. rewrite (Hrep1 t r' ext Hr1). cbn [bind]. exact (Hrep2 t r' ext eq_refl).
      * cbn [app] in *. rewrite (Hrep1 u _ (pre2' ++ t :: ext) Hr1). cbn [bind]. exact (Hrep2 t r' ext eq_refl).
    + inversion H; subst. destruct (Hpe _ eq_refl) as [pre [rem [Hts [Hlen Hrep]]]]. exists pre, rem.
      split; [exact Hts|]. split; [exact Hlen|]. intros t r' ext Hr. rewrite (Hrep t r' ext Hr). reflexivity.
Qed.

(* zero or more items, as long as the first token says so *)
Lemma local_star : forall A (cont : tok -> bool) (item : list tok -> pres A) (loop : list tok -> pres (list A)),
  local item -> (forall ts a r, item ts = POk a r -> (length r < length ts)%nat) ->
  (forall ts, loop ts = match ts with
                        | [] => POk [] []
                        | t :: _ => if cont t then bind (item ts) (fun a r => bind (loop r) (fun l r' => POk (a :: l) r')) else POk [] ts
                        end) ->
  local loop.
Proof.
  intros A cont item loop Hitem Hshr Heq. apply local_all. intros ts.
  induction ts as [ts IH] using (well_founded_induction (well_founded_ltof _ (@length tok))).
  destruct ts as [|t0 l].
  - split.
    + intros a r H. rewrite Heq in H. inversion H; subst. exists []. split; [reflexivity|]. intros; discriminate.
    + intros n H. rewrite Heq in H. discriminate.
  - destruct (cont t0) eqn:Ec.
    + assert (Hb : local_at (fun ts => bind (item ts) (fun a r => bind (loop r) (fun l r' => POk (a :: l) r'))) (t0 :: l)).
      { apply local_at_bind; [apply local_at_of; exact Hitem|]. intros a r1 Hi.
        apply local_at_bind; [apply IH; unfold ltof; apply (Hshr _ _ _ Hi)|]. intros; apply local_at_of; apply local_ret. }
      destruct Hb as [Hbs Hbe]. split.
      * intros a r H. rewrite Heq, Ec in H. destruct (Hbs _ _ H) as [pre [Hts Hrep]]. exists pre. split; [exact Hts|].
        intros t r' ext Hr. rewrite Heq. destruct pre as [|p0 pre'].
        -- cbn [app] in *. subst r. inversion Hr; subst t0 r'. rewrite Ec. exact (Hrep t l ext eq_refl).
        -- cbn [app] in *. inversion Hts; subst p0. rewrite Ec. exact (Hrep t r' ext Hr).
      * intros n H. rewrite Heq, Ec in H. destruct (Hbe _ H) as [pre [rem [Hts [Hlen Hrep]]]]. exists pre, rem.
        split; [exact Hts|]. split; [exact Hlen|]. intros t r' ext Hr. rewrite Heq. destruct pre as [|p0 pre'].
        -- cbn [app] in *. subst rem. inversion Hr; subst t0 r'. rewrite Ec. exact (Hrep t l ext eq_refl).
        -- cbn [app] in *. inversion Hts; subst p0. rewrite Ec. exact (Hrep t r' ext Hr).
    + split.
      * intros a r H. rewrite Heq, Ec in H. inversion H; subst. exists []. split; [reflexivity|].
        intros t r' ext Hr. inversion Hr; subst. cbn [app]. rewrite Heq, Ec. reflexivity.
      * intros n H. rewrite Heq, Ec in H. discriminate.
Qed.

(* the first token selects how to go on, without being consumed *)
Lemma local_peek : forall A (F : tok -> list tok -> pres A),
  (forall t, local (F t)) -> local (fun ts => F (fst (next ts)) ts).
Proof.
  intros A F HF.
  assert (Hh : forall (pre : list tok) t r' ext ts, ts = pre ++ t :: r' -> fst (next (pre ++ t :: ext)) = fst (next ts)).
  { intros pre t r' ext ts H. subst. destruct pre; reflexivity. }
  split.
  - intros ts a r H. cbv beta in H. destruct (HF (fst (next ts))) as [Hs _]. destruct (Hs _ _ _ H) as [pre [Hts Hrep]].
    exists pre. split; [exact Hts|]. intros t r' ext Hr. subst r. rewrite (Hh pre t r' ext ts Hts). eapply Hrep; reflexivity.
  - intros ts n H. cbv beta in H. destruct (HF (fst (next ts))) as [_ He]. destruct (He _ _ H) as [pre [rem [Hts [Hl Hrep]]]].
    exists pre, rem. split; [exact Hts|]. split; [exact Hl|]. intros t r' ext Hr. subst rem.
    rewrite (Hh pre t r' ext ts Hts). eapply Hrep; reflexivity.
Qed.

Lemma local_at_cons : forall A (p q : list tok -> pres A) t0 l,
  (forall l', p (t0 :: l') = q l') -> local_at q l -> local_at p (t0 :: l).
Proof.
  intros A p q t0 l Hpq [Hs He]. split.
  - intros a r H. rewrite Hpq in H. destruct (Hs _ _ H) as [pre [Hl Hrep]]. exists (t0 :: pre).
    split; [subst l; reflexivity|]. intros t r' ext Hr. cbn [app]. rewrite Hpq. eapply Hrep; eauto.
  - intros n H. rewrite Hpq in H. destruct (He _ H) as [pre [rem [Hl [Hn Hrep]]]]. exists (t0 :: pre), rem.
    split; [subst l; reflexivity|]. split; [exact Hn|]. intros t r' ext Hr. cbn [app]. rewrite Hpq. eapply Hrep; eauto.
Qed.

Definition strict {A} (p : list tok -> pres A) : Prop :=
  forall ts a r, p ts = POk a r -> (length r < length ts)%nat.

Lemma strict_bind : forall A B (p : list tok -> pres A) (f : A -> list tok -> pres B),
  strict p -> (forall a, shrinks (f a)) -> strict (fun ts => bind (p ts) f).
Proof.
  intros A B p f Hp Hf ts b r H. cbv beta in H. destruct (p ts) as [a r1|n|] eqn:E; cbn [bind] in H; try discriminate.
  apply Hp in E. apply Hf in H. lia.
Qed.

Lemma strict_first : forall A (g : tok -> option A), g eof_tok = None ->
  strict (fun ts => let '(t, r) := next ts in match g t with Some a => POk a r | None => PErr (length ts) end).
Proof.
  intros A g Hg ts a r H. destruct ts as [|t l]; cbn [next] in H.
  - rewrite Hg in H. discriminate.
  - destruct (g t); inversion H; subst. cbn. lia.
Qed.

Lemma strict_ext : forall A (p q : list tok -> pres A), (forall ts, p ts = q ts) -> strict q -> strict p.
Proof. intros A p q H Hq ts a r E. rewrite H in E. eapply Hq; eauto. Qed.

Create HintDb loc discriminated.

Ltac first_tac g := eapply local_ext; [|apply (local_first _ g)]; intros ts; destruct ts as [|[k v] l]; cbn; try reflexivity.

Lemma expect_punct_local : forall c, local (expect_punct c).
Proof.
  intros c. eapply local_ext; [|apply (local_first _ (fun t => if is_punct c t then Some tt else None))].
  intros ts. unfold expect_punct. destruct (next ts) as [t r]. destruct (is_punct c t); reflexivity.
Qed.

Lemma expect_kind_local : forall k, local (expect_kind k).
Proof.
  intros k. eapply local_ext; [|apply (local_first _ (fun t => if kind_is k t then Some (snd t) else None))].
  intros ts. unfold expect_kind. destruct (next ts) as [t r]. destruct (kind_is k t); reflexivity.
Qed.

Lemma p_uint_local : local p_uint.
Proof.
  eapply local_ext; [|apply (local_first _ (fun t => if kind_is KNumber t then parse_uint (snd t) else None))].
  intros ts. unfold p_uint. destruct (next ts) as [t r]. destruct (kind_is KNumber t); [destruct (parse_uint (snd t))|]; reflexivity.
Qed.

Lemma p_byte_order_local : local p_byte_order.
Proof.
  eapply local_ext; [|apply (local_first _ (fun t => if kind_is KNumber t then
      match parse_uint (snd t) with Some 0%N => Some BigEndian | Some 1%N => Some LittleEndian | _ => None end else None))].
  intros ts. unfold p_byte_order. destruct (next ts) as [t r]. destruct (kind_is KNumber t); [|reflexivity].
  destruct (parse_uint (snd t)) as [[|[p|p|]]|]; reflexivity.
Qed.

Lemma p_sign_local : local p_sign.
Proof.
  eapply local_ext; [|apply (local_first _ (fun t => if is_punct ch_plus t then Some Unsigned else if is_punct ch_minus t then Some Signed else None))].
  intros ts. unfold p_sign. destruct (next ts) as [t r]. destruct (is_punct ch_plus t); [reflexivity|]. destruct (is_punct ch_minus t); reflexivity.
Qed.

Lemma p_ev_type_local : local p_ev_type.
Proof.
  eapply local_ext; [|apply (local_first _ (fun t => if kind_is KNumber t then
      match parse_uint (snd t) with Some 0%N => Some EvInt | Some 1%N => Some EvFloat | Some 2%N => Some EvString | _ => None end else None))].
  intros ts. unfold p_ev_type. destruct (next ts) as [t r]. destruct (kind_is KNumber t); [|reflexivity].
  destruct (parse_uint (snd t)) as [[|[[p|p|]|[p|p|]|]]|]; reflexivity.
Qed.

Lemma p_ext_type_local : local p_ext_type.
Proof.
  eapply local_ext; [|apply (local_first _ (fun t => if kind_is KNumber t then
      match parse_uint (snd t) with Some 0%N => Some XInteger | Some 1%N => Some XFloat | Some 2%N => Some XDouble | _ => None end else None))].
  intros ts. unfold p_ext_type. destruct (next ts) as [t r]. destruct (kind_is KNumber t); [|reflexivity].
  destruct (parse_uint (snd t)) as [[|[[p|p|]|[p|p|]|]]|]; reflexivity.
Qed.

Lemma p_access_local : local p_access.
Proof.
  eapply local_ext; [|apply (local_first _ (fun t => if kind_is KIdent t then index_of access_names (snd t) 0%N else None))].
  intros ts. unfold p_access. destruct (next ts) as [t r]. destruct (kind_is KIdent t); [destruct (index_of access_names (snd t) 0%N)|]; reflexivity.
Qed.

Lemma p_attr_name_local : local p_attr_name.
Proof.
  eapply local_ext; [|apply (local_first _ (fun t => if kind_is KString t then (if has_blank (snd t) then None else Some (snd t)) else None))].
  intros ts. unfold p_attr_name. destruct (next ts) as [t r]. destruct (kind_is KString t); [destruct (has_blank (snd t))|]; reflexivity.
Qed.

Lemma p_int_local : local p_int.
Proof.
  eapply local_ext; [|apply (local_first _ (fun t => if kind_is KNumber t then parse_int (snd t) else None))].
  intros ts. unfold p_int. destruct (next ts) as [t r]. destruct (kind_is KNumber t); [destruct (parse_int (snd t))|]; reflexivity.
Qed.

Lemma p_range_local : local p_range.
Proof.
  eapply local_ext; [|apply (local_first _ (fun t => if kind_is KRange t then
      match parse_uint (nth 0 (split_on ch_minus (snd t)) []), parse_uint (nth 1 (split_on ch_minus (snd t)) []) with
      | Some a, Some b => Some (a, b) | _, _ => None end else None))].
  intros ts. unfold p_range. destruct (next ts) as [t r]. destruct (kind_is KRange t); [|reflexivity].
  destruct (parse_uint (nth 0 (split_on ch_minus (snd t)) [])); [destruct (parse_uint (nth 1 (split_on ch_minus (snd t)) []))|]; reflexivity.
Qed.

#[export] Hint Resolve local_ret local_err_here expect_punct_local expect_kind_local p_uint_local p_byte_order_local p_sign_local
  p_ev_type_local p_ext_type_local p_access_local p_attr_name_local p_int_local p_range_local : loc.

Ltac chain := repeat (apply local_bind; [eauto with loc|intros]); eauto with loc.


(* ---- the loops ---- *)
Lemma expect_punct_strict : forall c, strict (expect_punct c).
Proof.
  intros c. eapply strict_ext; [|apply (strict_first _ (fun t => if is_punct c t then Some tt else None)); reflexivity].
  intros ts. unfold expect_punct. destruct (next ts) as [t r]. destruct (is_punct c t); reflexivity.
Qed.
Lemma expect_kind_strict : forall k, k <> KEOF -> strict (expect_kind k).
Proof.
  intros k Hk. eapply strict_ext; [|apply (strict_first _ (fun t => if kind_is k t then Some (snd t) else None))].
  - intros ts. unfold expect_kind. destruct (next ts) as [t r]. destruct (kind_is k t); reflexivity.
  - destruct k; try reflexivity. congruence.
Qed.
Lemma p_uint_strict : strict p_uint.
Proof.
  eapply strict_ext; [|apply (strict_first _ (fun t => if kind_is KNumber t then parse_uint (snd t) else None)); reflexivity].
  intros ts. unfold p_uint. destruct (next ts) as [t r]. destruct (kind_is KNumber t); [destruct (parse_uint (snd t))|]; reflexivity.
Qed.
Lemma expect_kind_shrinks' : forall k, shrinks (expect_kind k).
Proof.
  intros k ts a r H. unfold expect_kind in H. destruct (next ts) as [t r0] eqn:EN. destruct (kind_is k t); inversion H; subst.
  eapply next_len; eauto.
Qed.

Definition vd_item (ts : list tok) : pres value_desc :=
  bind (p_uint ts) (fun id r => bind (expect_kind KString r) (fun nm r2 => POk {| vd_id := id; vd_name := nm |} r2)).

Lemma value_descs_local : local value_descs.
Proof.
  apply (local_star _ (kind_is KNumber) vd_item).
  - unfold vd_item. chain.
  - unfold vd_item. apply strict_bind; [apply p_uint_strict|]. intros id r nm r2 H.
    destruct (expect_kind KString r) as [s r3| |] eqn:E; cbn [bind] in H; inversion H; subst. eapply expect_kind_shrinks'; eauto.
  - intros ts. destruct ts as [|t r]; [reflexivity|]. cbn [value_descs]. destruct (kind_is KNumber t) eqn:E; [|reflexivity].
    unfold vd_item, p_uint. cbn [next]. rewrite E. destruct (parse_uint (snd t)); cbn [bind]; [|reflexivity].
    unfold expect_kind. destruct r as [|t2 r2]; cbn [next]; [reflexivity|]. destruct (kind_is KString t2); cbn [bind]; reflexivity.
Qed.

Definition ci_item (k : tkind) (ts : list tok) : pres str :=
  bind (expect_punct ch_comma ts) (fun _ r => expect_kind k r).

Lemma ci_item_local : forall k, local (ci_item k).
Proof. intros k. unfold ci_item. chain. Qed.
Lemma ci_item_strict : forall k, strict (ci_item k).
Proof. intros k. unfold ci_item. apply strict_bind; [apply expect_punct_strict|]. intros _. apply expect_kind_shrinks'. Qed.

Lemma comma_idents_local : local comma_idents.
Proof.
  apply (local_star _ (is_punct ch_comma) (ci_item KIdent)); [apply ci_item_local|apply ci_item_strict|].
  intros ts. destruct ts as [|t r]; [reflexivity|]. cbn [comma_idents]. destruct (is_punct ch_comma t) eqn:E; [|reflexivity].
  unfold ci_item, expect_punct. cbn [next]. rewrite E. cbn [bind]. unfold expect_kind.
  destruct r as [|t2 r2]; cbn [next]; [reflexivity|]. destruct (kind_is KIdent t2); cbn [bind]; reflexivity.
Qed.

Lemma comma_strings_local : local comma_strings.
Proof.
  apply (local_star _ (is_punct ch_comma) (ci_item KString)); [apply ci_item_local|apply ci_item_strict|].
  intros ts. destruct ts as [|t r]; [reflexivity|]. cbn [comma_strings]. destruct (is_punct ch_comma t) eqn:E; [|reflexivity].
  unfold ci_item, expect_punct. cbn [next]. rewrite E. cbn [bind]. unfold expect_kind.
  destruct r as [|t2 r2]; cbn [next]; [reflexivity|]. destruct (kind_is KString t2); cbn [bind]; reflexivity.
Qed.

Definition cr_item (ts : list tok) : pres (N * N) := bind (expect_punct ch_comma ts) (fun _ r => p_range r).

Lemma comma_ranges_local : local comma_ranges.
Proof.
  apply (local_star _ (is_punct ch_comma) cr_item).
  - unfold cr_item. chain.
  - unfold cr_item. apply strict_bind; [apply expect_punct_strict|]. intros _. apply p_range_shrinks.
  - intros ts. destruct ts as [|t r]; [reflexivity|]. cbn [comma_ranges]. destruct (is_punct ch_comma t) eqn:E; [|reflexivity].
    unfold cr_item, expect_punct. cbn [next]. rewrite E. cbn [bind]. unfold p_range.
    destruct r as [|t2 r2]; cbn [next]; [reflexivity|]. destruct (kind_is KRange t2); [|reflexivity].
    destruct (parse_uint _); [|reflexivity]. destruct (parse_uint _); reflexivity.
Qed.

Definition idents_wrap (ts : list tok) : pres (list str) := let '(l, rest) := idents_loop ts in POk l rest.

Lemma idents_wrap_local : local idents_wrap.
Proof.
  apply (local_star _ (kind_is KIdent) (expect_kind KIdent)); [apply expect_kind_local|apply expect_kind_strict; discriminate|].
  intros ts. destruct ts as [|t r]; [reflexivity|]. unfold idents_wrap. cbn [idents_loop]. destruct (kind_is KIdent t) eqn:E; [|reflexivity].
  unfold expect_kind. cbn [next]. rewrite E. cbn [bind]. destruct (idents_loop r); reflexivity.
Qed.

Lemma ns_loop_local : local ns_loop.
Proof.
  apply local_all. intros ts. induction ts as [|t0 l IH].
  - split; [|intros n H; discriminate]. intros a r H. inversion H; subst. exists []. split; [reflexivity|]. intros; discriminate.
  - destruct (kind_is KEOF t0) eqn:E1.
    { split; [|intros n H; cbn [ns_loop] in H; rewrite E1 in H; discriminate].
      intros a r H. cbn [ns_loop] in H; rewrite E1 in H. inversion H; subst. exists [t0]. split; [reflexivity|].
      intros t r' ext Hr. cbn [app ns_loop]. rewrite E1. reflexivity. }
    destruct (is_kw KwBitTiming t0) eqn:E2.
    { split; [|intros n H; cbn [ns_loop] in H; rewrite E1, E2 in H; discriminate].
      intros a r H. cbn [ns_loop] in H; rewrite E1, E2 in H. inversion H; subst. exists []. split; [reflexivity|].
      intros t r' ext Hr. inversion Hr; subst. cbn [app ns_loop]. rewrite E1, E2. reflexivity. }
    destruct (kind_is KKeyword t0 || kind_is KIdent t0) eqn:E3.
    + destruct (mem_str (snd t0) new_symbols_values) eqn:E4.
      * apply local_at_cons with (q := fun l => bind (ns_loop l) (fun l0 r' => POk (snd t0 :: l0) r')).
        -- intros l'. cbn [ns_loop]. rewrite E1, E2, E3, E4. reflexivity.
        -- apply local_at_bind; [exact IH|]. intros. apply local_at_of. apply local_ret.
      * split; [intros a r H; cbn [ns_loop] in H; rewrite E1, E2, E3, E4 in H; discriminate|].
        intros n H. cbn [ns_loop] in H; rewrite E1, E2, E3, E4 in H. inversion H; subst.
        exists [], (t0 :: l). split; [reflexivity|]. split; [reflexivity|].
        intros t r' ext Hr. inversion Hr; subst. cbn [app ns_loop]. rewrite E1, E2, E3, E4. reflexivity.
    + apply local_at_cons with (q := ns_loop); [|exact IH]. intros l'. cbn [ns_loop]. rewrite E1, E2, E3. reflexivity.
Qed.

Lemma p_uint_other_local : forall b, local (fun ts => p_uint_other ts b).
Proof.
  intros b. eapply local_ext; [|apply (local_first _ (fun t => if kind_is KNumber t then parse_uint (snd t) else None))].
  intros ts. unfold p_uint_other. destruct (next ts) as [t r]. destruct (kind_is KNumber t); [destruct (parse_uint (snd t))|]; reflexivity.
Qed.

(* consume one token, whatever it is (the section keyword) *)
Definition skip1 (ts : list tok) : pres unit :=
  let '(t, r) := next ts in match (fun _ : tok => Some tt) t with Some a => POk a r | None => PErr (length ts) end.
Lemma skip1_local : local skip1.
Proof. apply (local_first _ (fun _ => Some tt)). Qed.

#[export] Hint Resolve value_descs_local comma_idents_local comma_strings_local comma_ranges_local idents_wrap_local
  ns_loop_local p_uint_other_local skip1_local : loc.

Ltac beq := repeat match goal with |- bind ?e _ = bind ?e _ => destruct e; cbn [bind]; try reflexivity end.

Section Prefix.
Variable prs : str -> option N.
Variable hex : bool.

Lemma p_double_local : local (p_double prs).
Proof.
  eapply local_ext; [|apply (local_first _ (fun t => if kind_is KNumber t then prs (snd t) else None))].
  intros ts. unfold p_double. destruct (next ts) as [t r]. destruct (kind_is KNumber t); [destruct (prs (snd t))|]; reflexivity.
Qed.
Lemma p_hex_local : local (p_hex hex).
Proof.
  eapply local_ext; [|apply (local_first _ (fun t => if kind_is KNumber t then parse_hex_int hex (snd t) else None))].
  intros ts. unfold p_hex. destruct (next ts) as [t r]. destruct (kind_is KNumber t); [destruct (parse_hex_int hex (snd t))|]; reflexivity.
Qed.
Lemma p_attr_val_local : local (p_attr_val prs hex).
Proof.
  eapply local_ext; [|apply (local_first _ (fun t =>
    if kind_is KString t then Some (AVString (snd t))
    else if kind_is KNumber t then
      if has_hex_prefix (snd t) then match parse_hex_int hex (snd t) with Some n => Some (AVHex n) | None => None end
      else if has_dot (snd t) then match prs (snd t) with Some b => Some (AVFloat b) | None => None end
      else match parse_int (snd t) with
           | Some z => Some (AVInt z)
           | None => match prs (snd t) with Some b => Some (AVFloat b) | None => None end
           end
    else None))].
  intros ts. unfold p_attr_val. destruct (next ts) as [t r]. destruct (kind_is KString t); [reflexivity|].
  destruct (kind_is KNumber t); [|reflexivity]. destruct (has_hex_prefix (snd t)); [destruct (parse_hex_int hex (snd t)); reflexivity|].
  destruct (has_dot (snd t)); [destruct (prs (snd t)); reflexivity|]. destruct (parse_int (snd t)); [reflexivity|]. destruct (prs (snd t)); reflexivity.
Qed.
Hint Resolve p_double_local p_hex_local p_attr_val_local : loc.

Lemma parse_version_local : local parse_version.
Proof. unfold parse_version. auto with loc. Qed.
Lemma parse_env_var_data_local : local parse_env_var_data.
Proof. unfold parse_env_var_data. chain. Qed.
Lemma parse_sig_ext_value_type_local : local parse_sig_ext_value_type.
Proof. unfold parse_sig_ext_value_type. chain. Qed.
Lemma parse_attr_default_local : local (parse_attr_default prs hex).
Proof. unfold parse_attr_default. chain. Qed.

(* ---- NS_, BS_, BU_, VAL_TABLE_ ---- *)
Lemma parse_new_symbols_local : local parse_new_symbols.
Proof. unfold parse_new_symbols. chain. Qed.

Definition bt_rest (t : tok) (r : list tok) : pres bit_timing :=
  if is_kw KwNode t then POk {| bt_baud := 0; bt_reg1 := 0; bt_reg2 := 0 |} r
  else
    bind (p_uint_other r true) (fun baud r2 => bind (expect_punct ch_colon r2) (fun _ r3 =>
    bind (p_uint_other r3 true) (fun r1v r4 => bind (expect_punct ch_comma r4) (fun _ r5 =>
    bind (p_uint_other r5 true) (fun r2v r6 => POk {| bt_baud := baud; bt_reg1 := r1v; bt_reg2 := r2v |} r6))))).

Lemma bt_rest_local : forall t, local (bt_rest t).
Proof. intros t. unfold bt_rest. destruct (is_kw KwNode t); chain. Qed.

Lemma parse_bit_timing_local : local parse_bit_timing.
Proof.
  apply local_ext with (q := fun ts => bind (expect_punct ch_colon ts) (fun _ r => bt_rest (fst (next r)) r)).
  - intros ts. unfold parse_bit_timing. beq. destruct rest as [|t l]; reflexivity.
  - apply local_bind; [eauto with loc|]. intros _. apply local_peek. apply bt_rest_local.
Qed.

Lemma parse_nodes_local : local parse_nodes.
Proof.
  apply local_ext with (q := fun ts => bind (expect_punct ch_colon ts) (fun _ r => idents_wrap r)); [reflexivity|chain].
Qed.

Lemma parse_value_table_local : local parse_value_table.
Proof. unfold parse_value_table. chain. Qed.

(* ---- SG_, BO_ ---- *)
Definition mux_sel (t : tok) : list tok -> pres (bool * option N) :=
  if kind_is KMux t
  then (fun ts => let '(t', r) := next ts in
                  match (if kind_is KMux t' then mux_of (snd t') else None) with Some a => POk a r | None => PErr (length ts) end)
  else (fun ts => POk (false, None) ts).

Lemma mux_sel_local : forall t, local (mux_sel t).
Proof. intros t. unfold mux_sel. destruct (kind_is KMux t); [apply local_first|apply local_ret]. Qed.

Definition p_mux (ts : list tok) : pres (bool * option N) :=
  let '(t, r1) := next ts in
  if kind_is KMux t then match mux_of (snd t) with Some m => POk m r1 | None => PErr (length ts) end
  else POk (false, None) ts.

Lemma p_mux_local : local p_mux.
Proof.
  apply local_ext with (q := fun ts => mux_sel (fst (next ts)) ts); [|apply local_peek; apply mux_sel_local].
  intros ts. unfold p_mux, mux_sel. destruct ts as [|t0 l]; cbn [next fst]; [reflexivity|].
  destruct (kind_is KMux t0) eqn:E; [|reflexivity]. cbn [next]. rewrite E. reflexivity.
Qed.
Hint Resolve p_mux_local : loc.

Lemma parse_signal_eq : forall ts, parse_signal prs ts =
  bind (expect_kind KIdent ts) (fun name r => bind (p_mux r) (fun m r2 =>
  bind (expect_punct ch_colon r2) (fun _ r3 => bind (p_uint r3) (fun start r4 =>
  bind (expect_punct ch_pipe r4) (fun _ r5 => bind (p_uint r5) (fun size r6 =>
  bind (expect_punct ch_at r6) (fun _ r7 => bind (p_byte_order r7) (fun bo r8 =>
  bind (p_sign r8) (fun vt r9 => bind (expect_punct ch_lparen r9) (fun _ r10 =>
  bind (p_double prs r10) (fun factor r11 => bind (expect_punct ch_comma r11) (fun _ r12 =>
  bind (p_double prs r12) (fun offset r13 => bind (expect_punct ch_rparen r13) (fun _ r14 =>
  bind (expect_punct ch_lbrack r14) (fun _ r15 => bind (p_double prs r15) (fun mn r16 =>
  bind (expect_punct ch_pipe r16) (fun _ r17 => bind (p_double prs r17) (fun mx r18 =>
  bind (expect_punct ch_rbrack r18) (fun _ r19 => bind (expect_kind KString r19) (fun unit r20 =>
  bind (expect_kind KIdent r20) (fun rcv r21 => bind (comma_idents r21) (fun more r22 =>
  POk {| sg_name := name; sg_multiplexor := fst m; sg_mux := snd m; sg_start := start;
         sg_size := size; sg_order := bo; sg_vtype := vt; sg_factor := factor;
         sg_offset := offset; sg_min := mn; sg_max := mx; sg_unit := unit;
         sg_receivers := rcv :: more |} r22)))))))))))))))))))))).
Proof.
  intros ts. unfold parse_signal. beq. unfold p_mux. destruct (next rest) as [t r1]. reflexivity.
Qed.

Lemma parse_signal_local : local (parse_signal prs).
Proof. eapply local_ext; [apply parse_signal_eq|]. chain. Qed.
Hint Resolve parse_signal_local : loc.

Lemma signals_loop_fuel : forall f1 f2 ts, (length ts <= f1)%nat -> (length ts <= f2)%nat ->
  signals_loop prs f1 ts = signals_loop prs f2 ts.
Proof.
  induction f1 as [|f1 IH]; intros f2 ts H1 H2.
  - destruct ts; [|cbn in H1; lia]. destruct f2; reflexivity.
  - destruct f2 as [|f2].
    + destruct ts; [|cbn in H2; lia]. reflexivity.
    + cbn [signals_loop]. destruct (next ts) as [t r] eqn:EN. destruct (is_kw KwSignal t); [|reflexivity].
      destruct (parse_signal prs r) as [s r1| |] eqn:EP; cbn [bind]; try reflexivity.
      pose proof (parse_signal_shrinks _ _ _ _ EP) as Hs.
      assert (Hr : (S (length r) <= length ts)%nat \/ ts = []) by (destruct ts; inversion EN; subst; cbn; [right; reflexivity|left; lia]).
      destruct Hr as [Hr|Hr].
      * rewrite (IH f2 r1); [reflexivity|lia|lia].
      * subst ts. cbn in EN. inversion EN; subst. cbn in Hs. destruct r1; [|cbn in Hs; lia]. rewrite (IH f2 []); [reflexivity|cbn; lia|cbn; lia].
Qed.

Definition sg_item (ts : list tok) : pres signal :=
  bind ((fun ts => let '(t, r) := next ts in
          match (fun t => if is_kw KwSignal t then Some tt else None) t with Some a => POk a r | None => PErr (length ts) end) ts)
       (fun _ r => parse_signal prs r).

Lemma signals_local : local (fun ts => signals_loop prs (length ts) ts).
Proof.
  apply (local_star _ (is_kw KwSignal) sg_item).
  - unfold sg_item. apply local_bind; [apply local_first|intros; eauto with loc].
  - unfold sg_item. apply strict_bind; [apply strict_first; reflexivity|]. intros _. apply parse_signal_shrinks.
  - intros ts. destruct ts as [|t r]; [reflexivity|]. cbn [length signals_loop next].
    destruct (is_kw KwSignal t) eqn:E; [|reflexivity]. unfold sg_item. cbn [next]. rewrite E. cbn [bind].
    destruct (parse_signal prs r) as [s r1| |] eqn:EP; cbn [bind]; try reflexivity.
    pose proof (parse_signal_shrinks _ _ _ _ EP) as Hs.
    rewrite (signals_loop_fuel (length r) (length r1) r1); [reflexivity|lia|lia].
Qed.
Hint Resolve signals_local : loc.

Lemma parse_message_local : local (parse_message prs).
Proof. unfold parse_message. chain. Qed.

Lemma parse_msg_transmitter_local : local parse_msg_transmitter.
Proof.
  apply local_ext with (q := fun ts => bind (p_uint ts) (fun id r => bind (expect_punct ch_colon r) (fun _ r1 =>
    bind (idents_wrap r1) (fun l r2 => bind (expect_punct ch_semi r2) (fun _ r3 => POk {| tx_id := id; tx_names := l |} r3))))).
  - intros ts. unfold parse_msg_transmitter. beq. unfold idents_wrap. destruct (idents_loop _). reflexivity.
  - chain.
Qed.

(* ---- EV_, SGTYPE_ ---- *)
Lemma parse_env_var_local : local (parse_env_var prs).
Proof. unfold parse_env_var. chain. Qed.

Definition sgtype_sel (t : tok) (ts : list tok) : pres (signal_type + signal_type_ref) :=
  match fst t with
  | KIdent =>
    bind (expect_kind KIdent ts) (fun name r => bind (expect_punct ch_colon r) (fun _ r1 =>
    bind (p_uint r1) (fun size r2 => bind (expect_punct ch_at r2) (fun _ r3 =>
    bind (p_byte_order r3) (fun bo r4 => bind (p_sign r4) (fun vt r5 =>
    bind (expect_punct ch_lparen r5) (fun _ r6 => bind (p_double prs r6) (fun factor r7 =>
    bind (expect_punct ch_comma r7) (fun _ r8 => bind (p_double prs r8) (fun offset r9 =>
    bind (expect_punct ch_rparen r9) (fun _ r10 => bind (expect_punct ch_lbrack r10) (fun _ r11 =>
    bind (p_double prs r11) (fun mn r12 => bind (expect_punct ch_pipe r12) (fun _ r13 =>
    bind (p_double prs r13) (fun mx r14 => bind (expect_punct ch_rbrack r14) (fun _ r15 =>
    bind (expect_kind KString r15) (fun unit r16 => bind (p_double prs r16) (fun dflt r17 =>
    bind (expect_punct ch_comma r17) (fun _ r18 => bind (expect_kind KIdent r18) (fun table r19 =>
    bind (expect_punct ch_semi r19) (fun _ r20 =>
    POk (inl {| st_name := name; st_size := size; st_order := bo; st_vtype := vt;
                st_factor := factor; st_offset := offset; st_min := mn; st_max := mx;
                st_unit := unit; st_default := dflt; st_table := table |}) r20)))))))))))))))))))))
  | KNumber =>
    bind (p_uint ts) (fun id r => bind (expect_kind KIdent r) (fun sname r1 =>
    bind (expect_punct ch_colon r1) (fun _ r2 => bind (expect_kind KIdent r2) (fun tname r3 =>
    bind (expect_punct ch_semi r3) (fun _ r4 =>
    POk (inr {| sr_id := id; sr_signal := sname; sr_type := tname |}) r4)))))
  | _ => PErr (length ts)
  end.

Lemma sgtype_sel_local : forall t, local (sgtype_sel t).
Proof. intros t. unfold sgtype_sel. destruct (fst t); try apply local_err_here; chain. Qed.

Lemma parse_signal_type_local : local (parse_signal_type prs).
Proof.
  apply local_ext with (q := fun ts => sgtype_sel (fst (next ts)) ts); [|apply local_peek; apply sgtype_sel_local].
  intros ts. unfold parse_signal_type, sgtype_sel. destruct ts; reflexivity.
Qed.

(* ---- object references, CM_ ---- *)
Definition obj_at (k : keyword) (ts : list tok) : pres obj_ref :=
  match k with
  | KwNode => bind (skip1 ts) (fun _ r => bind (expect_kind KIdent r) (fun n r1 => POk (ORNode n) r1))
  | KwMessage => bind (skip1 ts) (fun _ r => bind (p_uint r) (fun id r1 => POk (ORMessage id) r1))
  | KwSignal => bind (skip1 ts) (fun _ r => bind (p_uint r) (fun id r1 => bind (expect_kind KIdent r1) (fun n r2 => POk (ORSignal id n) r2)))
  | KwEnvVar => bind (skip1 ts) (fun _ r => bind (expect_kind KIdent r) (fun n r1 => POk (OREnvVar n) r1))
  | _ => PErr (length ts)
  end.

Lemma obj_at_local : forall k, local (obj_at k).
Proof. intros k. unfold obj_at. destruct k; try apply local_err_here; chain. Qed.

Lemma obj_at_eq : forall k t r, p_obj_ref_kw k (t :: r) r = obj_at k (t :: r).
Proof. intros k t r. destruct k; reflexivity. Qed.

Definition cm_sel (t : tok) (ts : list tok) : pres obj_ref :=
  match fst t with
  | KString => POk ORGeneral ts
  | KKeyword => match keyword_of (snd t) with Some k => obj_at k ts | None => PErr (length ts) end
  | _ => PErr (length ts)
  end.

Lemma cm_sel_local : forall t, local (cm_sel t).
Proof.
  intros t. unfold cm_sel. destruct (fst t); try apply local_err_here; try apply local_ret.
  destruct (keyword_of (snd t)); [apply obj_at_local|apply local_err_here].
Qed.

Lemma parse_comment_local : local parse_comment.
Proof.
  apply local_ext with (q := fun ts => bind (cm_sel (fst (next ts)) ts) (fun ref r1 =>
    bind (expect_kind KString r1) (fun text r2 => bind (expect_punct ch_semi r2) (fun _ r3 => POk {| cm_ref := ref; cm_text := text |} r3)))).
  - intros ts. unfold parse_comment, cm_sel. destruct ts as [|[kd v] l]; [reflexivity|]. cbn [next fst snd].
    destruct kd; reflexivity.
  - apply local_bind; [apply local_peek; apply cm_sel_local|]. intros. chain.
Qed.

(* ---- BA_DEF_ ---- *)
Definition enum_sel (t1 : tok) (r : list tok) : pres attr_type :=
  if kind_is KString t1
  then bind (expect_kind KString r) (fun s r1 => bind (comma_strings r1) (fun more r2 => POk (ATEnum (s :: more)) r2))
  else POk (ATEnum []) r.

Lemma enum_sel_local : forall t, local (enum_sel t).
Proof. intros t. unfold enum_sel. destruct (kind_is KString t); chain. Qed.

Definition at_sel (t : tok) (ts : list tok) : pres attr_type :=
  if kind_is KKeyword t then
    match keyword_of (snd t) with
    | Some KwAttributeInt => bind (skip1 ts) (fun _ r => bind (p_int r) (fun mn r1 => bind (p_int r1) (fun mx r2 => POk (ATInt mn mx) r2)))
    | Some KwAttributeHex => bind (skip1 ts) (fun _ r => bind (p_hex hex r) (fun mn r1 => bind (p_hex hex r1) (fun mx r2 => POk (ATHex mn mx) r2)))
    | Some KwAttributeFloat => bind (skip1 ts) (fun _ r => bind (p_double prs r) (fun mn r1 => bind (p_double prs r1) (fun mx r2 => POk (ATFloat mn mx) r2)))
    | Some KwAttributeString => bind (skip1 ts) (fun _ r => POk ATString r)
    | Some KwAttributeEnum => bind (skip1 ts) (fun _ r => enum_sel (fst (next r)) r)
    | _ => PErr (length ts)
    end
  else PErr (length ts).

Lemma at_sel_local : forall t, local (at_sel t).
Proof.
  intros t. unfold at_sel. destruct (kind_is KKeyword t); [|apply local_err_here].
  destruct (keyword_of (snd t)) as [k|]; [|apply local_err_here].
  destruct k; try apply local_err_here; try chain.
  apply local_peek. apply enum_sel_local.
Qed.

Lemma p_attr_type_local : local (p_attr_type prs hex).
Proof.
  apply local_ext with (q := fun ts => at_sel (fst (next ts)) ts); [|apply local_peek; apply at_sel_local].
  intros ts. unfold p_attr_type, at_sel. destruct ts as [|t l]; [reflexivity|]. cbn [next fst].
  destruct (kind_is KKeyword t); [|reflexivity]. destruct (keyword_of (snd t)) as [k|]; [|reflexivity].
  destruct k; try reflexivity. cbn [skip1 next bind]. unfold enum_sel. destruct l as [|t1 r1]; [reflexivity|]. cbn [next fst].
  destruct (kind_is KString t1) eqn:E; [|reflexivity]. unfold expect_kind. cbn [next]. rewrite E. reflexivity.
Qed.
Hint Resolve p_attr_type_local : loc.

Definition ak_sel (t : tok) : list tok -> pres attr_kind :=
  match fst t with
  | KString => fun ts => POk AKGeneral ts
  | KKeyword => fun ts => let '(t', r) := next ts in
      match (fun t' => match keyword_of (snd t') with
                       | Some KwNode => Some AKNode | Some KwMessage => Some AKMessage
                       | Some KwSignal => Some AKSignal | Some KwEnvVar => Some AKEnvVar | _ => None end) t'
      with Some a => POk a r | None => PErr (length ts) end
  | _ => fun ts => PErr (length ts)
  end.

Lemma ak_sel_local : forall t, local (ak_sel t).
Proof. intros t. unfold ak_sel. destruct (fst t); first [apply local_err_here|apply local_ret|apply local_first]. Qed.

Lemma parse_attribute_local : local (parse_attribute prs hex).
Proof.
  apply local_ext with (q := fun ts => bind (ak_sel (fst (next ts)) ts) (fun kind r1 =>
    bind (p_attr_name r1) (fun name r2 => bind (p_attr_type prs hex r2) (fun ty r3 =>
    bind (expect_punct ch_semi r3) (fun _ r4 => POk {| ad_kind := kind; ad_name := name; ad_type := ty |} r4))))).
  - intros ts. unfold parse_attribute, ak_sel. destruct ts as [|[kd v] l]; [reflexivity|]. cbn [next fst snd].
    destruct kd; try reflexivity. cbn [next fst snd]. destruct (keyword_of v) as [k|]; [|reflexivity]. destruct k; reflexivity.
  - apply local_bind; [apply local_peek; apply ak_sel_local|]. intros. chain.
Qed.

(* ---- BA_ ---- *)
Definition av_sel (t : tok) (r : list tok) : pres obj_ref :=
  if kind_is KString t || kind_is KNumber t then POk ORGeneral r
  else if kind_is KKeyword t then
    match keyword_of (snd t) with Some k => obj_at k r | None => PErr (length r) end
  else PErr (length r).

Lemma av_sel_local : forall t, local (av_sel t).
Proof.
  intros t. unfold av_sel. destruct (kind_is KString t || kind_is KNumber t); [apply local_ret|].
  destruct (kind_is KKeyword t); [|apply local_err_here]. destruct (keyword_of (snd t)); [apply obj_at_local|apply local_err_here].
Qed.

Lemma parse_attr_value_local : local (parse_attr_value prs hex).
Proof.
  apply local_ext with (q := fun ts => bind (expect_kind KString ts) (fun name r => bind (av_sel (fst (next r)) r) (fun ref r2 =>
    bind (p_attr_val prs hex r2) (fun v r3 => bind (expect_punct ch_semi r3) (fun _ r4 =>
    POk {| av_name := name; av_ref := ref; av_value := v |} r4))))).
  - intros ts. unfold parse_attr_value, av_sel. beq. destruct rest as [|t l]; [reflexivity|]. cbn [next fst].
    destruct (kind_is KString t || kind_is KNumber t); [reflexivity|]. destruct (kind_is KKeyword t); [|reflexivity].
    destruct (keyword_of (snd t)); [|reflexivity]. rewrite obj_at_eq. reflexivity.
  - apply local_bind; [eauto with loc|]. intros name. apply local_bind; [apply local_peek; apply av_sel_local|]. intros. chain.
Qed.

(* ---- VAL_, SIG_GROUP_, SG_MUL_VAL_ ---- *)
Definition ve_sel (t : tok) (ts : list tok) : pres enc_ref :=
  match fst t with
  | KIdent => bind (expect_kind KIdent ts) (fun n r => POk (EREnvVar n) r)
  | KNumber => bind (p_uint ts) (fun id r => bind (expect_kind KIdent r) (fun n r1 => POk (ERSignal id n) r1))
  | _ => PErr (length ts)
  end.

Lemma ve_sel_local : forall t, local (ve_sel t).
Proof. intros t. unfold ve_sel. destruct (fst t); try apply local_err_here; chain. Qed.

Lemma parse_value_encoding_local : local parse_value_encoding.
Proof.
  apply local_ext with (q := fun ts => bind (ve_sel (fst (next ts)) ts) (fun ref r1 =>
    bind (value_descs r1) (fun vals r2 => bind (expect_punct ch_semi r2) (fun _ r3 => POk {| ve_ref := ref; ve_values := vals |} r3)))).
  - intros ts. unfold parse_value_encoding, ve_sel. destruct ts; reflexivity.
  - apply local_bind; [apply local_peek; apply ve_sel_local|]. intros. chain.
Qed.

Lemma parse_signal_group_local : local parse_signal_group.
Proof.
  apply local_ext with (q := fun ts => bind (p_uint ts) (fun id r => bind (expect_kind KIdent r) (fun name r1 =>
    bind (p_uint r1) (fun rep r2 => bind (expect_punct ch_colon r2) (fun _ r3 => bind (idents_wrap r3) (fun l r4 =>
    bind (expect_punct ch_semi r4) (fun _ r5 => POk {| sgp_id := id; sgp_name := name; sgp_rep := rep; sgp_signals := l |} r5))))))).
  - intros ts. unfold parse_signal_group. beq. unfold idents_wrap. destruct (idents_loop _). reflexivity.
  - chain.
Qed.

Lemma parse_ext_mux_local : local parse_ext_mux.
Proof. unfold parse_ext_mux. chain. Qed.

(* ---- a section, seen from its keyword token ---- *)
Lemma lift_bind : forall A (f : A -> item) (x : pres A), lift f x = bind x (fun a r => POk (f a) r).
Proof. destruct x; reflexivity. Qed.

Lemma lift_local : forall A (f : A -> item) (p : list tok -> pres A),
  local p -> local (fun ts => lift f (p (snd (next ts)))).
Proof.
  intros A f p Hp.
  apply local_ext with (q := fun ts => bind (skip1 ts) (fun _ r => bind (p r) (fun a r' => POk (f a) r'))).
  - intros ts. rewrite lift_bind. destruct ts; reflexivity.
  - chain.
Qed.

Lemma local_other : forall A, local (fun _ : list tok => @PErrOther A).
Proof. intros A. split; intros; discriminate. Qed.

Definition sec (k : keyword) (fl : flags) (ts : list tok) : pres item :=
  match parse_section prs hex k fl ts (snd (next ts)) with Some (x, _) => x | None => PErrOther end.

Hint Resolve parse_version_local parse_new_symbols_local parse_bit_timing_local parse_nodes_local parse_value_table_local
  parse_message_local parse_msg_transmitter_local parse_env_var_local parse_env_var_data_local parse_signal_type_local
  parse_comment_local parse_attribute_local parse_attr_default_local parse_attr_value_local parse_value_encoding_local
  parse_signal_group_local parse_sig_ext_value_type_local parse_ext_mux_local : loc.

Lemma sec_local : forall k fl, local (sec k fl).
Proof.
  intros k fl. unfold sec.
  destruct k; cbv beta iota delta [parse_section];
    try apply local_other;
    try (apply lift_local; eauto with loc; fail).
  - destruct (fl_ver fl); cbv beta iota; [apply local_err_here|apply lift_local; eauto with loc].
  - destruct (fl_ns fl); cbv beta iota; [apply local_err_here|apply lift_local; eauto with loc].
  - destruct (fl_bu fl); cbv beta iota; [apply local_err_here|apply lift_local; eauto with loc].
Qed.

Lemma parse_section_sec : forall k fl ts r x fl',
  parse_section prs hex k fl ts r = Some (x, fl') ->
  forall t2 r2, parse_section prs hex k fl (t2 :: r2) r2 = Some (sec k fl (t2 :: r2), fl').
Proof.
  intros k fl ts r x fl' H t2 r2. unfold sec. cbn [next snd].
  destruct k; cbv beta iota delta [parse_section] in *; try discriminate;
    try (inversion H; subst; reflexivity).
  - destruct (fl_ver fl); inversion H; subst; reflexivity.
  - destruct (fl_ns fl); inversion H; subst; reflexivity.
  - destruct (fl_bu fl); inversion H; subst; reflexivity.
Qed.

Lemma parse_section_none : forall k fl ts r, parse_section prs hex k fl ts r = None ->
  forall ts2 r2, parse_section prs hex k fl ts2 r2 = None.
Proof.
  intros k fl ts r H ts2 r2. destruct k; cbv beta iota delta [parse_section] in *; try discriminate; reflexivity.
Qed.

Lemma rep_app : forall A (p : list tok -> pres A) pre a r,
  (forall t r' ext, r = t :: r' -> p (pre ++ t :: ext) = POk a (t :: ext)) ->
  forall pre2 t r'' ext, r = pre2 ++ t :: r'' -> p (pre ++ pre2 ++ t :: ext) = POk a (pre2 ++ t :: ext).
Proof.
  intros A p pre a r H pre2 t r'' ext Hr. destruct pre2 as [|u pre2']; cbn [app] in *.
  - eapply H; eauto.
  - eapply H; eauto.
Qed.

(* ---- the file loop ---- *)
Theorem parse_loop_local : forall fuel fl ts n, parse_loop prs hex fuel fl ts = RSyntax n ->
  exists pre rem, ts = pre ++ rem /\ length rem = n /\
    forall t r' ext fuel', rem = t :: r' -> (length (pre ++ t :: ext) < fuel')%nat ->
      parse_loop prs hex fuel' fl (pre ++ t :: ext) = RSyntax (S (length ext)).
Proof.
  induction fuel as [|f IH]; intros fl ts n H; [discriminate|].
  cbn [parse_loop] in H. destruct ts as [|t0 l]; cbn [next] in H; [cbn in H; discriminate|].
  destruct (fst t0) eqn:EK; try discriminate;
    try (inversion H; subst n; exists [], (t0 :: l); split; [reflexivity|]; split; [reflexivity|];
         intros t r' ext fuel' Hr Hl; inversion Hr; subst; destruct fuel' as [|f']; [cbn in Hl; lia|];
         cbn [app parse_loop next]; rewrite EK; reflexivity).
  destruct (keyword_of (snd t0)) as [k|] eqn:EW.
  2:{ inversion H; subst n. exists [], (t0 :: l). split; [reflexivity|]. split; [reflexivity|].
      intros t r' ext fuel' Hr Hl. inversion Hr; subst. destruct fuel' as [|f']; [cbn in Hl; lia|].
      cbn [app parse_loop next]. rewrite EK, EW. reflexivity. }
  destruct (parse_section prs hex k fl (t0 :: l) l) as [[x fl']|] eqn:EP.
  - pose proof (parse_section_sec _ _ _ _ _ _ EP) as Hsec.
    assert (Hx : x = sec k fl (t0 :: l)).
    { specialize (Hsec t0 l). rewrite EP in Hsec. inversion Hsec. reflexivity. }
    destruct (sec_local k fl) as [Hss Hse].
    destruct x as [it r'|m|]; [| |discriminate].
    + destruct (parse_loop prs hex f fl' r') as [|n'| |] eqn:EL; try discriminate. inversion H; subst n'.
      destruct (IH _ _ _ EL) as [pre2 [rem [Hr' [Hlen Hrep2]]]].
      destruct (Hss _ _ _ (eq_sym Hx)) as [pre1 [Hts Hrep1]].
      pose proof (parse_section_shrinks _ _ _ _ _ _ _ _ _ EP) as Hshr.
      destruct pre1 as [|p0 pre1'].
      { cbn [app] in Hts. rewrite <- Hts in Hshr. cbn in Hshr. lia. }
      cbn [app] in Hts. inversion Hts as [[Hp0 Hl]]. subst p0.
      exists ((t0 :: pre1') ++ pre2), rem. split; [rewrite <- app_assoc; cbn [app]; congruence|].
      split; [exact Hlen|]. intros t r'' ext fuel' Hrem Hl'. subst rem.
      destruct fuel' as [|f']; [cbn in Hl'; lia|].
      rewrite <- app_assoc. cbn [app parse_loop next]. rewrite EK, EW.
      rewrite (Hsec t0 (pre1' ++ pre2 ++ t :: ext)).
      change (t0 :: pre1' ++ pre2 ++ t :: ext) with ((t0 :: pre1') ++ pre2 ++ t :: ext).
      rewrite (rep_app _ (sec k fl) (t0 :: pre1') it r' Hrep1 pre2 t r'' ext Hr').
      rewrite (Hrep2 t r'' ext f' eq_refl); [reflexivity|].
      rewrite <- app_assoc in Hl'. cbn [app length] in Hl'. rewrite app_length in Hl'. lia.
    + inversion H; subst m.
      destruct (Hse _ _ (eq_sym Hx)) as [pre [rem [Hts [Hlen Hrep]]]].
      exists pre, rem. split; [exact Hts|]. split; [exact Hlen|].
      intros t r'' ext fuel' Hrem Hl'. destruct fuel' as [|f']; [destruct pre; cbn in Hl'; lia|].
      assert (HX : exists X, pre ++ t :: ext = t0 :: X).
      { subst rem. destruct pre as [|p0 pre']; cbn [app] in *; inversion Hts; subst; eauto. }
      destruct HX as [X HX]. pose proof (Hrep t r'' ext Hrem) as Hr. rewrite HX in *.
      cbn [parse_loop next]. rewrite EK, EW, (Hsec t0 X), Hr. reflexivity.
  - destruct (IH _ _ _ H) as [pre [rem [Hl [Hlen Hrep]]]].
    exists (t0 :: pre), rem. split; [subst l; reflexivity|]. split; [exact Hlen|].
    intros t r'' ext fuel' Hrem Hl'. destruct fuel' as [|f']; [cbn in Hl'; lia|].
    cbn [app parse_loop next]. rewrite EK, EW. rewrite (parse_section_none _ _ _ _ EP).
    apply (Hrep t r'' ext f' Hrem). cbn [app length] in Hl'. lia.
Qed.

(* ---- the two consequences, on whole token lists ---- *)
Definition fl0 : flags := {| fl_ver := false; fl_ns := false; fl_bu := false |}.

(* index of the token a syntax error is reported at (what parse_tokens turns into line and column) *)
Definition err_index (ts : list tok) : option nat :=
  match parse_loop prs hex (S (length ts)) fl0 ts with
  | RSyntax n => Some (length ts - n)%nat
  | _ => None
  end.

Lemma err_index_split : forall ts i, err_index ts = Some i ->
  exists pre rem, ts = pre ++ rem /\ length pre = i /\
    parse_loop prs hex (S (length ts)) fl0 ts = RSyntax (length rem) /\
    forall t r' ext, rem = t :: r' ->
      parse_loop prs hex (S (length (pre ++ t :: ext))) fl0 (pre ++ t :: ext) = RSyntax (S (length ext)).
Proof.
  intros ts i H. unfold err_index in H.
  destruct (parse_loop prs hex (S (length ts)) fl0 ts) as [|n| |] eqn:EP; try discriminate. inversion H; subst i.
  destruct (parse_loop_local _ _ _ _ EP) as [pre [rem [Hts [Hlen Hrep]]]].
  exists pre, rem. split; [exact Hts|]. split; [subst ts n; rewrite app_length; lia|]. split; [subst n; reflexivity|].
  intros t r' ext Hr. apply (Hrep t r' ext _ Hr). lia.
Qed.

(* every input sharing the tokens up to and including the offending one fails at that token *)
Theorem error_index_determined : forall ts i, err_index ts = Some i -> (i < length ts)%nat ->
  forall ts', firstn (S i) ts' = firstn (S i) ts -> err_index ts' = Some i.
Proof.
  intros ts i H Hi ts' Hf. destruct (err_index_split _ _ H) as [pre [rem [Hts [Hpre [_ Hrep]]]]].
  destruct rem as [|t r']. { subst ts. rewrite app_nil_r in Hi. lia. }
  assert (Hfi : firstn (S i) ts = pre ++ [t]).
  { subst ts i. replace (S (length pre)) with (length pre + 1)%nat by lia. rewrite firstn_app_2. reflexivity. }
  assert (Hts' : ts' = pre ++ t :: skipn (S i) ts').
  { rewrite <- (firstn_skipn (S i) ts') at 1. rewrite Hf, Hfi, <- app_assoc. reflexivity. }
  remember (skipn (S i) ts') as ext eqn:He. clear He Hf. subst ts'.
  unfold err_index. rewrite (Hrep t r' ext eq_refl).
  f_equal. rewrite app_length. cbn [length]. lia.
Qed.

Lemma app_split_before : forall (pre2 pre other r2 : list tok) t2,
  pre ++ other = pre2 ++ t2 :: r2 -> (length pre2 < length pre)%nat -> exists pre3, pre = pre2 ++ t2 :: pre3.
Proof.
  induction pre2 as [|u pre2 IH]; intros pre other r2 t2 H Hl.
  - destruct pre as [|p pre]; [cbn in Hl; lia|]. cbn [app] in H. inversion H; subst. exists pre. reflexivity.
  - destruct pre as [|p pre]; [cbn in Hl; lia|]. cbn [app] in H. inversion H; subst.
    destruct (IH pre other r2 t2 H2) as [pre3 Hp]; [cbn in Hl; lia|]. exists pre3. cbn [app]. rewrite Hp. reflexivity.
Qed.

(* no input sharing the tokens before the offending one is rejected earlier *)
Theorem error_index_first : forall ts i, err_index ts = Some i ->
  forall ts' j, firstn i ts' = firstn i ts -> err_index ts' = Some j -> (i <= j)%nat.
Proof.
  intros ts i H ts' j Hf H'. destruct (err_index_split _ _ H) as [pre [rem [Hts [Hpre [HP _]]]]].
  destruct (err_index_split _ _ H') as [pre2 [rem2 [Hts2 [Hpre2 [_ Hrep2]]]]].
  destruct (Nat.le_gt_cases i j) as [Hle|Hgt]; [exact Hle|exfalso].
  assert (Hfi : firstn i ts = pre). { subst ts i. rewrite firstn_app, Nat.sub_diag, firstn_all. cbn. apply app_nil_r. }
  assert (Hts' : ts' = pre ++ skipn i ts'). { rewrite <- (firstn_skipn i ts') at 1. rewrite Hf, Hfi. reflexivity. }
  destruct rem2 as [|t2 r2].
  { (* everything consumed: j = |ts'| >= |pre| = i *)
    rewrite app_nil_r in Hts2. subst pre2. rewrite Hts' in Hpre2. rewrite app_length in Hpre2. lia. }
  assert (Hsp : exists pre3, pre = pre2 ++ t2 :: pre3).
  { apply (app_split_before pre2 pre (skipn i ts') r2 t2); [rewrite <- Hts'; exact Hts2|lia]. }
  destruct Hsp as [pre3 Hp].
  pose proof (Hrep2 t2 r2 (pre3 ++ rem) eq_refl) as Hr.
  assert (Hsame : pre2 ++ t2 :: pre3 ++ rem = ts). { rewrite Hts, Hp, <- app_assoc. reflexivity. }
  rewrite Hsame, HP in Hr. inversion Hr as [Hn]. rewrite app_length in Hn. lia.
Qed.

End Prefix.

(* the position dbc.Parse reports is the recorded start of the token with that index (the
   end-of-input position when the index is past the last token) *)
Theorem error_position_index : forall ud prs hex text l c,
  parse ud prs hex text = OSyntax l c ->
  exists raw i, lex ud text = Some raw /\ err_index prs hex (map strip (pfilter raw)) = Some i /\
    (l, c) = match nth_error (pfilter raw) i with
             | Some t => (rt_line t, rt_col t)
             | None => match last_opt (pfilter raw) with Some t => (rt_line t, rt_col t) | None => (1%N, 0%N) end
             end.
Proof.
  intros ud prs hex text l c H. unfold parse in H. destruct (lex ud text) as [raw|] eqn:EL; [|discriminate].
  unfold parse_tokens in H.
  destruct (parse_loop prs hex (S (length (map strip (pfilter raw)))) _ (map strip (pfilter raw))) as [| n | |] eqn:EP; try discriminate.
  exists raw, (length (pfilter raw) - n)%nat. split; [reflexivity|]. split.
  - unfold err_index, fl0. rewrite EP. rewrite map_length. reflexivity.
  - unfold error_pos in H. destruct (nth_error (pfilter raw) (length (pfilter raw) - n)) as [t|].
    + inversion H; reflexivity.
    + destruct (last_opt (pfilter raw)) as [t|]; inversion H; reflexivity.
Qed.
