(* C08 — parse_write: parsing the writer's text of an expressible document gives the document
   back, with the writer's header defaults and the attribute literals in read-back form. *)
From Coq Require Import Arith NArith ZArith List Bool Lia.
From Acme.C08 Require Import DbcAst Chars DbcLex DbcParse DbcWrite Expr ProofsLex ProofsLexPrint ProofsFormat
  ProofsSections ProofsFile ProofsPok ProofsGood.
Import ListNotations.
Local Open Scope N_scope.

Section RoundTrip.
Variable ud : N -> bool.
Variable fmt : N -> str.
Variable prs : str -> option N.
Variable hex : bool.
Hypothesis Hud : ud_ok ud.
Hypothesis Horacle : oracle_ok fmt prs.

Notation up := (peek_digits ud).

Theorem parse_write : forall f, wf_file up f ->
  parse ud prs hex (write fmt hex f) = OOk (norm_file fmt hex f).
Proof.
  intros f Hwf. unfold write.
  pose proof (lex_print_tokens ud Hud (w_file fmt hex f) (pok_file up (peek_digits_ok ud Hud) fmt prs hex Horacle f Hwf)) as HL.
  unfold tokens_of_text in HL. unfold parse.
  destruct (lex ud (render (w_file fmt hex f))) as [raw|]; [|discriminate].
  cbn [option_map] in HL.
  assert (HT : map strip (pfilter raw) = toks_of (w_file fmt hex f) ++ [eof_tok]) by congruence.
  clear HL. unfold parse_tokens. rewrite HT.
  destruct (parse_write_tokens up fmt prs hex Horacle f Hwf) as [items [HP HA]].
  change {| fl_ver := false; fl_ns := false; fl_bu := false |} with fl0. unfold tok, str in *. rewrite HP, HA. reflexivity.
Qed.

(* equivalence of documents: equal after filling the header defaults and reading numeric
   attribute literals back ("compared by value") *)
Definition equiv (a b : file) : Prop := norm_file fmt hex a = norm_file fmt hex b.

Lemma val_norm_idem : forall v, val_norm fmt hex (val_norm fmt hex v) = val_norm fmt hex v.
Proof.
  intros [z|n|b|s]; cbn [val_norm]; try reflexivity.
  - destruct hex; reflexivity.
  - destruct (has_dot (fmt b)) eqn:E; cbn [val_norm]; [rewrite E; reflexivity|].
    destruct (parse_int (fmt b)) eqn:E2; cbn [val_norm]; [reflexivity|]. rewrite E, E2. reflexivity.
Qed.

Lemma norm_file_idem : forall f, norm_file fmt hex (norm_file fmt hex f) = norm_file fmt hex f.
Proof.
  intros f. destruct f as [ver ns bs bu vts msgs txs evs eds sts cms ads afs avs ves srs sgs svs xms]. unfold norm_file, ver_of, ns_of, bs_of, bu_of.
  cbn [f_version f_ns f_bs f_bu f_vts f_msgs f_txs f_evs f_eds f_sts f_cms f_ads f_afs f_avs f_ves f_srs f_sgs f_svs f_xms].
  f_equal.
  - destruct ver; reflexivity.
  - rewrite map_map. apply map_ext. intros d. unfold norm_default. cbn [af_name af_value]. rewrite val_norm_idem. reflexivity.
  - rewrite map_map. apply map_ext. intros v. unfold norm_value. cbn [av_name av_ref av_value]. rewrite val_norm_idem. reflexivity.
Qed.

(* the form of the property statement: parse (write f) = Ok f' with f' equivalent to f *)
Corollary parse_write_equiv : forall f, wf_file up f ->
  exists f', parse ud prs hex (write fmt hex f) = OOk f' /\ equiv f' f.
Proof.
  intros f Hwf. exists (norm_file fmt hex f). split; [apply parse_write; exact Hwf|].
  unfold equiv. apply norm_file_idem.
Qed.

(* parse_write_parse: for every accepted text, writing the parsed document and parsing it again
   yields an equivalent document *)
Theorem parse_write_parse :
  (forall v b, prs v = Some b -> fin b = true) ->
  forall t f, parse ud prs hex t = OOk f ->
  exists f', parse ud prs hex (write fmt hex f) = OOk f' /\ equiv f' f.
Proof.
  intros Hfin t f H. apply parse_write_equiv. eapply parse_output_expressible; eauto.
Qed.

End RoundTrip.
