(* C08 — parse_write: parsing the writer's text of an expressible document gives the document
   back, with the writer's header defaults and the attribute literals in read-back form. *)
From Coq Require Import Arith NArith ZArith List Bool Lia.
From Acme.C08 Require Import DbcAst Chars DbcLex DbcParse DbcWrite Expr ProofsLex ProofsLexPrint ProofsFormat
  ProofsSections ProofsFile ProofsPok ProofsGood.
Import ListNotations.
Local Open Scope N_scope.

Section RoundTrip.
Variable ud : N -> bool.
Variable fmt : N -> str.
Variable prs : str -> option N.
Variable hex : bool.
Hypothesis Hud : ud_ok ud.
Hypothesis Horacle : oracle_ok fmt prs.

Notation up := (peek_digits ud).

Theorem parse_write : forall f, wf_file up f ->
  parse ud prs hex (write fmt hex f) = OOk (norm_file fmt hex f).
Proof.
  intros f Hwf. unfold write.
  pose proof (lex_print_tokens ud Hud (w_file fmt hex f) (pok_file up (peek_digits_ok ud Hud) fmt prs hex Horacle f Hwf)) as HL.
  unfold tokens_of_text in HL. unfold parse.
  destruct (lex ud (render (w_file fmt hex f))) as [raw|]; [|discriminate].
  cbn [option_map] in HL.
  assert (HT : map strip (pfilter raw) = toks_of (w_file fmt hex f) ++ [eof_tok]) by congruence.
  clear HL. unfold parse_tokens. rewrite HT.
  destruct (parse_write_tokens up fmt prs hex Horacle f Hwf) as [items [HP HA]].
  change {| fl_ver := false; fl_ns := false; fl_bu := false |} with fl0. unfold tok, str in *. rewrite HP, HA. reflexivity.
Qed.

(* equivalence of documents: equal after filling the header defaults and reading numeric
   attribute literals back ("compared by value") *)
Definition equiv (a b : file) : Prop := norm_file fmt hex a = norm_file fmt hex b.

Lemma val_norm_idem : forall v, val_norm fmt hex (val_norm fmt hex v) = val_norm fmt hex v.
Proof.
  intros [z|n|b|s]; cbn [val_norm]; try reflexivity.
  - destruct hex; reflexivity.
  - destruct (has_dot (fmt b)) eqn:E; cbn [val_norm]; [rewrite E; reflexivity|].
    destruct (parse_int (fmt b)) eqn:E2; cbn [val_norm]; [reflexivity|]. rewrite E, E2. reflexivity.
Qed.

Lemma norm_file_idem : forall f, norm_file fmt hex (norm_file fmt hex f) = norm_file fmt hex f.
Proof.
  intros f. destruct f as [ver ns bs bu vts msgs txs evs eds sts cms ads afs avs ves srs sgs svs xms]. unfold norm_file, ver_of, ns_of, bs_of, bu_of.
  cbn [f_version f_ns f_bs f_bu f_vts f_msgs f_txs f_evs f_eds f_sts f_cms f_ads f_afs f_avs f_ves f_srs f_sgs f_svs f_xms].
  f_equal.
  - destruct ver; reflexivity.
  - rewrite map_map. apply map_ext. intros d. unfold norm_default. cbn [af_name af_value]. rewrite val_norm_idem. reflexivity.
  - rewrite map_map. apply map_ext. intros v. unfold norm_value. cbn [av_name av_ref av_value]. rewrite val_norm_idem. reflexivity.
Qed.

(* the form of the property statement: parse (write f) = Ok f' with f' equivalent to f *)
Corollary parse_write_equiv : forall f, wf_file up f ->
  exists f', parse ud prs hex (write fmt hex f) = OOk f' /\ equiv f' f.
Proof.
  intros f Hwf. exists (norm_file fmt hex f). split; [apply parse_write; exact Hwf|].
  unfold equiv. apply norm_file_idem.
Qed.

(* parse_write_parse: for every accepted text, writing the parsed document and parsing it again
   yields an equivalent document *)
Theorem parse_write_parse :
  (forall v b, not_special v = true -> prs v = Some b -> fin b = true) ->
  forall t f, parse ud prs hex t = OOk f ->
  exists f', parse ud prs hex (write fmt hex f) = OOk f' /\ equiv f' f.
Proof.
  intros Hfin t f H. apply parse_write_equiv. eapply parse_output_expressible; eauto.
Qed.

(* the same, exactly: the re-parsed document is [norm_file f], and from then on nothing changes
   any more (write/parse is a projection) *)
Theorem parse_write_parse_exact :
  (forall v b, not_special v = true -> prs v = Some b -> fin b = true) ->
  forall t f, parse ud prs hex t = OOk f ->
  parse ud prs hex (write fmt hex f) = OOk (norm_file fmt hex f) /\
  parse ud prs hex (write fmt hex (norm_file fmt hex f)) = OOk (norm_file fmt hex f).
Proof.
  intros Hfin t f H.
  assert (H1 : parse ud prs hex (write fmt hex f) = OOk (norm_file fmt hex f))
    by (apply parse_write; eapply parse_output_expressible; eauto).
  split; [exact H1|].
  rewrite <- (norm_file_idem f) at 2. apply parse_write. eapply parse_output_expressible; eauto.
Qed.

(* what [norm_file] changes, named: a document is a fixed point exactly when its version is not
   empty, its three header sections are present and every numeric attribute literal is already in
   read-back form *)
Definition val_fixed (v : attr_val) : Prop :=
  match v with
  | AVInt _ | AVString _ => True
  | AVHex _ => hex = true
  | AVFloat b => has_dot (fmt b) = true \/ parse_int (fmt b) = None
  end.

Lemma val_norm_fixed : forall v, val_norm fmt hex v = v <-> val_fixed v.
Proof.
  intros [z|n|b|s]; cbn [val_norm val_fixed]; try tauto.
  - destruct hex; split; intros H; try reflexivity; try discriminate; congruence.
  - destruct (has_dot (fmt b)); [tauto|]. destruct (parse_int (fmt b)); split; intros H.
    + discriminate.
    + destruct H; discriminate.
    + right; reflexivity.
    + reflexivity.
Qed.

Definition file_fixed (f : file) : Prop :=
  f_version f <> [] /\ f_ns f <> None /\ f_bs f <> None /\ f_bu f <> None /\
  Forall (fun d => val_fixed (af_value d)) (f_afs f) /\ Forall (fun v => val_fixed (av_value v)) (f_avs f).

Lemma map_fixed : forall A (g : A -> A) l, map g l = l <-> Forall (fun x => g x = x) l.
Proof.
  intros A g l. induction l as [|x l IH]; cbn [map]; [split; constructor|]. split; intros H.
  - injection H as H1 H2. constructor; [exact H1|]. apply IH. exact H2.
  - inversion H as [|x' l' H1 H2]; subst. f_equal; [exact H1|]. apply IH. exact H2.
Qed.

Theorem norm_file_fixed : forall f, norm_file fmt hex f = f <-> file_fixed f.
Proof.
  intros f. destruct f as [ver ns bs bu vts msgs txs evs eds sts cms ads afs avs ves srs sgs svs xms].
  unfold norm_file, file_fixed, ver_of, ns_of, bs_of, bu_of.
  cbn [f_version f_ns f_bs f_bu f_vts f_msgs f_txs f_evs f_eds f_sts f_cms f_ads f_afs f_avs f_ves f_srs f_sgs f_svs f_xms].
  split.
  - intros H. injection H as Hv Hn Hb Hu Haf Hav.
    repeat split.
    + destruct ver; [discriminate Hv|discriminate].
    + destruct ns; [discriminate|discriminate Hn].
    + destruct bs; [discriminate|discriminate Hb].
    + destruct bu; [discriminate|discriminate Hu].
    + apply map_fixed in Haf. rewrite Forall_forall in *. intros d Hd. specialize (Haf d Hd).
      unfold norm_default in Haf. destruct d as [nm v]. cbn [af_name af_value] in *. injection Haf as Hval. apply val_norm_fixed. exact Hval.
    + apply map_fixed in Hav. rewrite Forall_forall in *. intros d Hd. specialize (Hav d Hd).
      unfold norm_value in Hav. destruct d as [nm rf v]. cbn [av_name av_ref av_value] in *. injection Hav as Hval. apply val_norm_fixed. exact Hval.
  - intros (Hv & Hn & Hb & Hu & Haf & Hav). f_equal.
    + destruct ver; [congruence|reflexivity].
    + destruct ns; [reflexivity|congruence].
    + destruct bs; [reflexivity|congruence].
    + destruct bu; [reflexivity|congruence].
    + apply map_fixed. rewrite Forall_forall in *. intros d Hd. specialize (Haf d Hd). destruct d as [nm v]. unfold norm_default.
      cbn [af_name af_value] in *. f_equal. apply val_norm_fixed. exact Haf.
    + apply map_fixed. rewrite Forall_forall in *. intros d Hd. specialize (Hav d Hd). destruct d as [nm rf v]. unfold norm_value.
      cbn [av_name av_ref av_value] in *. f_equal. apply val_norm_fixed. exact Hav.
Qed.

End RoundTrip.
