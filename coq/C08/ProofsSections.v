(* C08 — token-level round trips: for every section, parsing the tokens the writer prints for an
   expressible entry gives the entry back and leaves the rest of the token stream untouched. *)
From Coq Require Import Arith NArith ZArith List Bool Lia.
From Acme.C08 Require Import DbcAst Chars DbcLex DbcParse DbcWrite Expr ProofsFormat.
Import ListNotations.
Local Open Scope N_scope.

Lemma toks_of_app : forall a b, toks_of (a ++ b) = toks_of a ++ toks_of b.
Proof. intros. unfold toks_of. apply flat_map_app. Qed.
Lemma toks_of_sp : forall s r, toks_of (Sp s :: r) = toks_of r.
Proof. reflexivity. Qed.
Lemma toks_of_tk : forall k v r, toks_of (Tk k v :: r) = (k, v) :: toks_of r.
Proof. reflexivity. Qed.
Lemma toks_of_nil : toks_of [] = [].
Proof. reflexivity. Qed.

Lemma toks_of_sp' : forall r, toks_of (sp :: r) = toks_of r. Proof. reflexivity. Qed.
Lemma toks_of_nl : forall r, toks_of (nl :: r) = toks_of r. Proof. reflexivity. Qed.
Lemma toks_of_kw : forall s r, toks_of (kw s :: r) = (KKeyword, s) :: toks_of r. Proof. reflexivity. Qed.
Lemma toks_of_pu : forall c r, toks_of (pu c :: r) = (KPunct, [c]) :: toks_of r. Proof. reflexivity. Qed.
Lemma toks_of_ident : forall s r, toks_of (ident s :: r) = (KIdent, s) :: toks_of r. Proof. reflexivity. Qed.
Lemma toks_of_num : forall s r, toks_of (num s :: r) = (KNumber, s) :: toks_of r. Proof. reflexivity. Qed.
Lemma toks_of_unum : forall n r, toks_of (unum n :: r) = (KNumber, format_uint n) :: toks_of r. Proof. reflexivity. Qed.
Lemma toks_of_qs : forall s r, toks_of (qs s :: r) = (KString, s) :: toks_of r. Proof. reflexivity. Qed.
Lemma toks_of_fl : forall fmt b r, toks_of (fl fmt b :: r) = (KNumber, fmt b) :: toks_of r. Proof. reflexivity. Qed.

Definition tok1 (p : piece) : list tok := toks_of [p].
Lemma toks_of_cons : forall p r, toks_of (p :: r) = tok1 p ++ toks_of r.
Proof. intros. unfold tok1. change (p :: r) with ([p] ++ r). apply toks_of_app. Qed.
Lemma toks_of_bo : forall b r, toks_of (w_byte_order b :: r) = tok1 (w_byte_order b) ++ toks_of r.
Proof. intros; apply toks_of_cons. Qed.
Lemma toks_of_sign : forall b r, toks_of (w_sign b :: r) = tok1 (w_sign b) ++ toks_of r.
Proof. intros; apply toks_of_cons. Qed.
Lemma toks_of_evt : forall b r, toks_of (w_ev_type b :: r) = tok1 (w_ev_type b) ++ toks_of r.
Proof. intros; apply toks_of_cons. Qed.
Lemma toks_of_xt : forall b r, toks_of (w_ext_type b :: r) = tok1 (w_ext_type b) ++ toks_of r.
Proof. intros; apply toks_of_cons. Qed.
Lemma toks_of_rng : forall b r, toks_of (w_range b :: r) = tok1 (w_range b) ++ toks_of r.
Proof. intros; apply toks_of_cons. Qed.
Lemma toks_of_aval : forall fmt hex b r, toks_of (w_attr_val fmt hex b :: r) = tok1 (w_attr_val fmt hex b) ++ toks_of r.
Proof. intros; apply toks_of_cons. Qed.

Ltac tk := repeat (rewrite ?toks_of_app, ?toks_of_bo, ?toks_of_sign, ?toks_of_evt, ?toks_of_xt, ?toks_of_rng, ?toks_of_aval, ?toks_of_sp', ?toks_of_nl, ?toks_of_kw, ?toks_of_pu, ?toks_of_ident, ?toks_of_num,
                           ?toks_of_unum, ?toks_of_qs, ?toks_of_fl, ?toks_of_sp, ?toks_of_tk, ?toks_of_nil; cbn [app]);
           unfold tok, str in *; repeat (rewrite <- app_assoc; cbn [app]).

(* ---- single parser steps on a matching token ---- *)
Lemma expect_punct_ok : forall c r, expect_punct c ((KPunct, [c]) :: r) = POk tt r.
Proof. intros c r. unfold expect_punct, next, is_punct, kind_is. cbn [fst snd]. rewrite N.eqb_refl. reflexivity. Qed.

Lemma expect_kind_ok : forall k v r, expect_kind k ((k, v) :: r) = POk v r.
Proof. intros k v r. unfold expect_kind, next, kind_is, tkind_eqb. cbn [fst snd]. rewrite N.eqb_refl. reflexivity. Qed.

Lemma p_uint_ok : forall n r, u32_ok n -> p_uint ((KNumber, format_uint n) :: r) = POk n r.
Proof. intros n r H. unfold p_uint, next. cbn [fst snd]. change (kind_is KNumber (KNumber, format_uint n)) with true. cbv iota. cbn [snd]. rewrite (parse_uint_format n H). reflexivity. Qed.

(* what may follow a section entry at file level: a section keyword (not SG_) or end of input *)
Definition section_kw (w : str) : bool :=
  match keyword_of w with
  | Some KwSignal | Some KwAttributeInt | Some KwAttributeHex | Some KwAttributeFloat
  | Some KwAttributeString | Some KwAttributeEnum | None => false
  | Some _ => true
  end.

Definition rest_ok (rest : list tok) : Prop :=
  match rest with
  | [] => True
  | t :: _ => (fst t = KEOF) \/ (fst t = KKeyword /\ section_kw (snd t) = true)
  end.

Lemma rest_ok_kind : forall rest k, rest_ok rest -> k <> KEOF -> k <> KKeyword ->
  match rest with [] => True | t :: _ => kind_is k t = false end.
Proof.
  intros [|t r] k H H1 H2; [exact I|]. cbn in H. unfold kind_is. destruct H as [H|[H _]]; rewrite H; destruct k; try reflexivity; congruence.
Qed.

Lemma rest_ok_punct : forall rest c, rest_ok rest ->
  match rest with [] => True | t :: _ => is_punct c t = false end.
Proof.
  intros [|t r] c H; [exact I|]. cbn in H. unfold is_punct, kind_is. destruct H as [H|[H _]]; rewrite H; reflexivity.
Qed.

Lemma rest_ok_not_sg : forall rest, rest_ok rest ->
  match rest with [] => True | t :: _ => is_kw KwSignal t = false end.
Proof.
  intros [|t r] H; [exact I|]. cbn in H. unfold is_kw, kind_is. destruct H as [H|[H Hs]]; rewrite H; [reflexivity|].
  cbn [tkind_eqb tkind_index N.eqb Pos.eqb andb]. unfold section_kw in Hs. destruct (keyword_of (snd t)) as [k|]; [|reflexivity].
  destruct k; try discriminate; reflexivity.
Qed.

Section Sections.
Variable up : N -> bool.      (* the digit class of identifiers, see Expr.v *)
Variable fmt : N -> str.
Variable prs : str -> option N.
Variable hex : bool.
Hypothesis Horacle : oracle_ok fmt prs.

Lemma p_double_ok : forall b r, fin b = true -> p_double prs ((KNumber, fmt b) :: r) = POk b r.
Proof.
  intros b r H. unfold p_double, next. change (kind_is KNumber (KNumber, fmt b)) with true. cbv iota. cbn [snd].
  destruct Horacle as [H1 _]. rewrite (H1 b H). reflexivity.
Qed.

(* ---- value descriptions ---- *)
Definition wf_vd (d : value_desc) : Prop := u32_ok (vd_id d) /\ expr_string (vd_name d) = true.

Lemma value_descs_ok : forall vs rest, Forall wf_vd vs -> rest_ok rest \/ (exists r, rest = (KPunct, [ch_semi]) :: r) ->
  value_descs (toks_of (flat_map w_value_desc vs) ++ rest) = POk vs rest.
Proof.
  induction vs as [|d vs IH]; intros rest Hwf Hrest.
  - cbn [flat_map toks_of app]. destruct rest as [|t r]; [reflexivity|]. cbn [value_descs].
    assert (kind_is KNumber t = false).
    { destruct Hrest as [H|[r' H]]; [exact (rest_ok_kind _ KNumber H ltac:(discriminate) ltac:(discriminate))|inversion H; reflexivity]. }
    rewrite H. reflexivity.
  - inversion Hwf as [|d' vs' [Hid Hname] Hvs]; subst. cbn [flat_map]. unfold w_value_desc at 1. tk.
    cbn [value_descs]. change (kind_is KNumber (KNumber, format_uint (vd_id d))) with true. cbv iota. cbn [snd].
    rewrite (parse_uint_format _ Hid). change (kind_is KString (KString, vd_name d)) with true. cbv iota.
    rewrite (IH rest Hvs Hrest). cbn [bind snd]. destruct d; reflexivity.
Qed.

(* ---- VAL_TABLE_ ---- *)
Definition wf_value_table (t : value_table) : Prop :=
  expr_ident up (vt_name t) = true /\ Forall wf_vd (vt_values t).

Lemma parse_value_table_ok : forall t rest, wf_value_table t ->
  toks_of (w_value_table t) ++ rest =
  (KKeyword, kw_VAL_TABLE) :: (KIdent, vt_name t) :: toks_of (flat_map w_value_desc (vt_values t)) ++ (KPunct, [ch_semi]) :: rest
  /\ parse_value_table ((KIdent, vt_name t) :: toks_of (flat_map w_value_desc (vt_values t)) ++ (KPunct, [ch_semi]) :: rest) = POk t rest.
Proof.
  intros t rest [Hn Hv]. split.
  - unfold w_value_table. tk. reflexivity.
  - unfold parse_value_table. rewrite expect_kind_ok. cbn [bind].
    rewrite value_descs_ok by (try exact Hv; right; eexists; reflexivity). cbn [bind].
    rewrite expect_punct_ok. cbn [bind]. destruct t; reflexivity.
Qed.


Ltac pstep := first
  [ rewrite expect_punct_ok | rewrite expect_kind_ok | rewrite p_uint_ok by assumption
  | rewrite p_double_ok by assumption ]; cbn [bind].

(* ---- identifier lists ---- *)
Definition idents_ok (l : list str) : Prop := Forall (fun n => expr_ident up n = true) l.

Lemma idents_loop_ok : forall l rest, rest_ok rest \/ (exists c r, rest = (KPunct, [c]) :: r) ->
  idents_loop (toks_of (flat_map (fun n => [sp; ident n]) l) ++ rest) = (l, rest).
Proof.
  induction l as [|n l IH]; intros rest Hrest.
  - cbn [flat_map toks_of app]. destruct rest as [|t r]; [reflexivity|]. cbn [idents_loop].
    assert (kind_is KIdent t = false).
    { destruct Hrest as [H|[c [r' H]]]; [exact (rest_ok_kind _ KIdent H ltac:(discriminate) ltac:(discriminate))|inversion H; reflexivity]. }
    rewrite H. reflexivity.
  - cbn [flat_map]. tk. cbn [idents_loop]. change (kind_is KIdent (KIdent, n)) with true. cbv iota.
    rewrite (IH rest Hrest). reflexivity.
Qed.

Definition hd_not (P : tok -> bool) (rest : list tok) : Prop :=
  match rest with [] => True | t :: _ => P t = false end.

Lemma comma_idents_ok : forall l rest, hd_not (is_punct ch_comma) rest ->
  comma_idents (toks_of (flat_map (fun n => [pu ch_comma; sp; ident n]) l) ++ rest) = POk l rest.
Proof.
  induction l as [|n l IH]; intros rest Hrest.
  - cbn [flat_map toks_of app]. destruct rest as [|t r]; [reflexivity|]. cbn [comma_idents]. cbn in Hrest.
    rewrite Hrest. reflexivity.
  - cbn [flat_map]. tk. cbn [comma_idents]. change (is_punct ch_comma (KPunct, [ch_comma])) with true. cbv iota.
    change (kind_is KIdent (KIdent, n)) with true. cbv iota. rewrite (IH rest Hrest). reflexivity.
Qed.

Lemma p_byte_order_ok : forall b r, p_byte_order (tok1 (w_byte_order b) ++ r) = POk b r.
Proof. intros [] r; reflexivity. Qed.
Lemma p_sign_ok : forall v r, p_sign (tok1 (w_sign v) ++ r) = POk v r.
Proof. intros [] r; reflexivity. Qed.
Lemma p_ev_type_ok : forall v r, p_ev_type (tok1 (w_ev_type v) ++ r) = POk v r.
Proof. intros [] r; reflexivity. Qed.
Lemma p_ext_type_ok : forall v r, p_ext_type (tok1 (w_ext_type v) ++ r) = POk v r.
Proof. intros [] r; reflexivity. Qed.

(* ---- SG_ ---- *)
Definition wf_signal (s : signal) : Prop :=
  expr_ident up (sg_name s) = true /\ match sg_mux s with Some n => u32_ok n | None => True end /\
  u32_ok (sg_start s) /\ u32_ok (sg_size s) /\
  fin (sg_factor s) = true /\ fin (sg_offset s) = true /\ fin (sg_min s) = true /\ fin (sg_max s) = true /\
  expr_string (sg_unit s) = true /\ sg_receivers s <> [] /\ idents_ok (sg_receivers s).

Lemma parse_signal_ok : forall s rest, wf_signal s -> rest_ok rest \/ (exists r, rest = (KKeyword, kw_SG) :: r) ->
  exists T, toks_of (w_signal fmt s) ++ rest = (KKeyword, kw_SG) :: T /\ parse_signal prs T = POk s rest.
Proof.
  intros s rest (Hn & Hm & Hst & Hsz & Hf & Ho & Hmn & Hmx & Hu & Hne & Hr) Hrest.
  destruct s as [name muxor mux start size bo vt factor offset mn mx unit rcv]; cbn [sg_name sg_mux sg_start sg_size sg_factor sg_offset sg_min sg_max sg_unit sg_receivers sg_multiplexor sg_order sg_vtype] in *.
  destruct rcv as [|r0 rcv]; [congruence|].
  unfold w_signal. cbn [sg_name sg_mux sg_start sg_size sg_factor sg_offset sg_min sg_max sg_unit sg_receivers sg_multiplexor sg_order sg_vtype].
  eexists. split.
  - tk. reflexivity.
  - unfold parse_signal. pstep.
    assert (Hrest' : rest_ok rest \/ (exists r, rest = (KPunct, [ch_semi]) :: r) \/ True) by auto.
    (* the mux indicator *)
    unfold w_mux; cbn [sg_mux sg_multiplexor].
    destruct mux as [n|]; destruct muxor; tk; cbn [next];
      try change (kind_is KMux (KMux, ?v)) with true; try change (kind_is KMux (KPunct, [ch_colon])) with false; cbv iota; cbn [snd fst].
    all: try rewrite (mux_of_mM n Hm); try rewrite (mux_of_m n Hm); try change (mux_of [ch_M]) with (Some (true, @None N));
      cbn [bind]; repeat pstep;
      rewrite (p_byte_order_ok bo); cbn [bind]; rewrite (p_sign_ok vt); cbn [bind]; repeat pstep;
      unfold w_comma_names; tk; repeat pstep;
      (rewrite comma_idents_ok; [cbn [bind fst snd]; reflexivity|]);
      (destruct Hrest as [H|[r' H]]; [exact (rest_ok_punct _ ch_comma H)|subst rest; reflexivity]).
Qed.


(* ---- BO_ ---- *)
Lemma signals_loop_ok : forall sigs fuel rest, Forall wf_signal sigs -> rest_ok rest -> (length sigs <= fuel)%nat ->
  signals_loop prs fuel (toks_of (flat_map (w_signal fmt) sigs) ++ rest) = POk sigs rest.
Proof.
  induction sigs as [|s sigs IH]; intros fuel rest Hwf Hrest Hf.
  - cbn [flat_map toks_of app]. destruct fuel; [reflexivity|]. cbn [signals_loop].
    destruct rest as [|t r]; [reflexivity|]. cbn [next]. pose proof (rest_ok_not_sg _ Hrest) as H. cbn in H. rewrite H. reflexivity.
  - inversion Hwf as [|s' sigs' Hs Hsigs]; subst. destruct fuel as [|fuel]; [cbn in Hf; lia|].
    cbn [flat_map]. rewrite toks_of_app, <- app_assoc.
    destruct (parse_signal_ok s (toks_of (flat_map (w_signal fmt) sigs) ++ rest) Hs) as [T [HT HP]].
    { destruct sigs as [|s2 sigs2]; [left; exact Hrest|right].
      cbn [flat_map]. unfold w_signal at 1. tk. eexists; reflexivity. }
    rewrite HT. cbn [signals_loop next]. change (is_kw KwSignal (KKeyword, kw_SG)) with true. cbv iota.
    rewrite HP. cbn [bind]. rewrite (IH fuel rest Hsigs Hrest); [reflexivity|cbn in Hf; lia].
Qed.

Lemma signals_len : forall sigs rest, (length sigs <= length (toks_of (flat_map (w_signal fmt) sigs) ++ rest))%nat.
Proof.
  induction sigs as [|s sigs IH]; intros rest; [cbn; lia|].
  cbn [flat_map]. rewrite toks_of_app, <- app_assoc.
  assert (H : exists t T, toks_of (w_signal fmt s) = t :: T) by (unfold w_signal; tk; eauto).
  destruct H as [t [T H]]. rewrite H. specialize (IH rest). cbn [app length]. rewrite !app_length in *. lia.
Qed.

Definition wf_message (m : message) : Prop :=
  u32_ok (ms_id m) /\ expr_ident up (ms_name m) = true /\ u32_ok (ms_size m) /\ expr_ident up (ms_tx m) = true /\
  Forall wf_signal (ms_signals m).

Lemma parse_message_ok : forall m rest, wf_message m -> rest_ok rest ->
  exists T, toks_of (w_message fmt m) ++ rest = (KKeyword, kw_BO) :: T /\ parse_message prs T = POk m rest.
Proof.
  intros m rest (Hid & Hn & Hsz & Htx & Hs) Hrest. destruct m as [id name size tx sigs]; cbn [ms_id ms_name ms_size ms_tx ms_signals] in *.
  unfold w_message. cbn [ms_id ms_name ms_size ms_tx ms_signals]. eexists. split; [tk; reflexivity|].
  unfold parse_message. repeat pstep.
  match goal with |- context [signals_loop prs ?f ?t] =>
    replace (signals_loop prs f t) with (@POk (list signal) sigs rest)
      by (symmetry; apply signals_loop_ok; [exact Hs|exact Hrest|apply signals_len]) end.
  reflexivity.
Qed.

(* ---- BO_TX_BU_ ---- *)
Definition wf_msg_transmitter (t : msg_transmitter) : Prop := u32_ok (tx_id t) /\ idents_ok (tx_names t).

Lemma parse_msg_transmitter_ok : forall t rest, wf_msg_transmitter t ->
  exists T, toks_of (w_msg_transmitter t) ++ rest = (KKeyword, kw_BO_TX_BU) :: T /\ parse_msg_transmitter T = POk t rest.
Proof.
  intros t rest (Hid & Hn). destruct t as [id names]; cbn [tx_id tx_names] in *.
  unfold w_msg_transmitter. cbn [tx_id tx_names]. eexists. split; [tk; reflexivity|].
  unfold parse_msg_transmitter. repeat pstep.
  rewrite idents_loop_ok by (right; eauto). repeat pstep. reflexivity.
Qed.

(* ---- EV_ ---- *)
Definition wf_env_var (e : env_var) : Prop :=
  expr_ident up (ev_name e) = true /\ fin (ev_min e) = true /\ fin (ev_max e) = true /\ expr_string (ev_unit e) = true /\
  fin (ev_init e) = true /\ u32_ok (ev_id e) /\ ev_access e < 8 /\ ev_nodes e <> [] /\ idents_ok (ev_nodes e).

Lemma p_access_ok : forall a, a < 8 ->
  exists s, nth_error access_names (N.to_nat a) = Some s /\ forall r, p_access ((KIdent, s) :: r) = POk a r.
Proof.
  intros a Ha.
  assert (H : a = 0 \/ a = 1 \/ a = 2 \/ a = 3 \/ a = 4 \/ a = 5 \/ a = 6 \/ a = 7) by lia.
  repeat (destruct H as [H|H]); subst; eexists; (split; [reflexivity|intros r; reflexivity]).
Qed.

Lemma parse_env_var_ok : forall e rest, wf_env_var e ->
  exists T, toks_of (w_env_var fmt e) ++ rest = (KKeyword, kw_EV) :: T /\ parse_env_var prs T = POk e rest.
Proof.
  intros e rest (Hn & Hmn & Hmx & Hu & Hi & Hid & Ha & Hne & Hnodes).
  destruct e as [name ty mn mx unit init id acc nodes]; cbn [ev_name ev_ty ev_min ev_max ev_unit ev_init ev_id ev_access ev_nodes] in *.
  destruct nodes as [|n0 nodes]; [congruence|].
  unfold w_env_var. cbn [ev_name ev_ty ev_min ev_max ev_unit ev_init ev_id ev_access ev_nodes].
  destruct (p_access_ok acc Ha) as [s [Hs Hp]]. rewrite Hs.
  eexists. split; [tk; reflexivity|].
  unfold parse_env_var. repeat pstep. rewrite (p_ev_type_ok ty). cbn [bind]. repeat pstep.
  rewrite Hp. cbn [bind]. unfold w_comma_names. tk. repeat pstep.
  rewrite comma_idents_ok by reflexivity. cbn [bind]. repeat pstep. reflexivity.
Qed.

(* ---- ENVVAR_DATA_ ---- *)
Definition wf_env_var_data (d : env_var_data) : Prop := expr_ident up (ed_name d) = true /\ u32_ok (ed_size d).

Lemma parse_env_var_data_ok : forall d rest, wf_env_var_data d ->
  exists T, toks_of (w_env_var_data d) ++ rest = (KKeyword, kw_ENVVAR_DATA) :: T /\ parse_env_var_data T = POk d rest.
Proof.
  intros d rest (Hn & Hs). destruct d as [name size]; cbn [ed_name ed_size] in *.
  unfold w_env_var_data. cbn [ed_name ed_size]. eexists. split; [tk; reflexivity|].
  unfold parse_env_var_data. repeat pstep. reflexivity.
Qed.

(* ---- SGTYPE_ ---- *)
Definition wf_signal_type (s : signal_type) : Prop :=
  expr_ident up (st_name s) = true /\ u32_ok (st_size s) /\ fin (st_factor s) = true /\ fin (st_offset s) = true /\
  fin (st_min s) = true /\ fin (st_max s) = true /\ expr_string (st_unit s) = true /\ fin (st_default s) = true /\
  expr_ident up (st_table s) = true.

Lemma parse_signal_type_ok : forall s rest, wf_signal_type s ->
  exists T, toks_of (w_signal_type fmt s) ++ rest = (KKeyword, kw_SGTYPE) :: T /\ parse_signal_type prs T = POk (inl s) rest.
Proof.
  intros s rest (Hn & Hsz & Hf & Ho & Hmn & Hmx & Hu & Hd & Ht).
  destruct s as [name size bo vt factor offset mn mx unit dflt table]; cbn [st_name st_size st_order st_vtype st_factor st_offset st_min st_max st_unit st_default st_table] in *.
  unfold w_signal_type. cbn [st_name st_size st_order st_vtype st_factor st_offset st_min st_max st_unit st_default st_table].
  eexists. split; [tk; reflexivity|].
  unfold parse_signal_type. cbn [next fst]. repeat pstep.
  rewrite (p_byte_order_ok bo); cbn [bind]; rewrite (p_sign_ok vt); cbn [bind]; repeat pstep. reflexivity.
Qed.

Definition wf_signal_type_ref (r : signal_type_ref) : Prop :=
  u32_ok (sr_id r) /\ expr_ident up (sr_signal r) = true /\ expr_ident up (sr_type r) = true.

Lemma parse_signal_type_ref_ok : forall r rest, wf_signal_type_ref r ->
  exists T, toks_of (w_signal_type_ref r) ++ rest = (KKeyword, kw_SGTYPE) :: T /\ parse_signal_type prs T = POk (inr r) rest.
Proof.
  intros r rest (Hid & Hs & Ht). destruct r as [id sname tname]; cbn [sr_id sr_signal sr_type] in *.
  unfold w_signal_type_ref. cbn [sr_id sr_signal sr_type]. eexists. split; [tk; reflexivity|].
  unfold parse_signal_type. cbn [next fst]. repeat pstep. reflexivity.
Qed.

(* ---- object references (CM_, BA_) ---- *)
Definition wf_ref (r : obj_ref) : Prop :=
  match r with
  | ORGeneral => True
  | ORNode n => expr_ident up n = true
  | ORMessage id => u32_ok id
  | ORSignal id n => u32_ok id /\ expr_ident up n = true
  | OREnvVar n => expr_ident up n = true
  end.

(* ---- CM_ ---- *)
Definition wf_comment (c : comment) : Prop := wf_ref (cm_ref c) /\ expr_string (cm_text c) = true.

Lemma parse_comment_ok : forall c rest, wf_comment c ->
  exists T, toks_of (w_comment c) ++ rest = (KKeyword, kw_CM) :: T /\ parse_comment T = POk c rest.
Proof.
  intros c rest (Hr & Ht). destruct c as [ref text]; cbn [cm_ref cm_text] in *.
  unfold w_comment. cbn [cm_ref cm_text]. eexists. split; [tk; reflexivity|].
  unfold parse_comment. destruct ref as [|n|id|id n|n]; cbn [w_obj_ref wf_ref] in *; tk; cbn [next fst snd].
  - cbn [bind]. repeat pstep. reflexivity.
  - change (keyword_of kw_BU) with (Some KwNode). cbv iota. cbn [p_obj_ref_kw bind]. repeat pstep. reflexivity.
  - change (keyword_of kw_BO) with (Some KwMessage). cbv iota. cbn [p_obj_ref_kw bind]. repeat pstep. reflexivity.
  - destruct Hr as [Hr1 Hr2]. change (keyword_of kw_SG) with (Some KwSignal). cbv iota. cbn [p_obj_ref_kw bind]. repeat pstep. reflexivity.
  - change (keyword_of kw_EV) with (Some KwEnvVar). cbv iota. cbn [p_obj_ref_kw bind]. repeat pstep. reflexivity.
Qed.

(* ---- BA_DEF_ ---- *)
Definition wf_attr_type (t : attr_type) : Prop :=
  match t with
  | ATInt mn mx => int64_ok mn /\ int64_ok mx
  | ATHex mn mx => u32_ok mn /\ u32_ok mx
  | ATFloat mn mx => fin mn = true /\ fin mx = true
  | ATString => True
  | ATEnum l => Forall (fun s => expr_string s = true) l
  end.

Definition wf_attribute (a : attribute) : Prop := expr_attr_name (ad_name a) = true /\ wf_attr_type (ad_type a).

Lemma p_int_ok : forall z r, int64_ok z -> p_int ((KNumber, format_int z) :: r) = POk z r.
Proof. intros z r H. unfold p_int, next. change (kind_is KNumber (KNumber, format_int z)) with true. cbv iota. cbn [snd]. rewrite (parse_int_format z H). reflexivity. Qed.

Lemma p_hex_ok : forall n r, u32_ok n -> p_hex hex ((KNumber, format_hex hex n) :: r) = POk n r.
Proof. intros n r H. unfold p_hex, next. change (kind_is KNumber (KNumber, format_hex hex n)) with true. cbv iota. cbn [snd]. rewrite (parse_hex_format hex n H). reflexivity. Qed.

Lemma comma_strings_ok : forall l rest, hd_not (is_punct ch_comma) rest ->
  comma_strings (toks_of (flat_map (fun v => [pu ch_comma; sp; qs v]) l) ++ rest) = POk l rest.
Proof.
  induction l as [|n l IH]; intros rest Hrest.
  - cbn [flat_map toks_of app]. destruct rest as [|t r]; [reflexivity|]. cbn [comma_strings]. cbn in Hrest.
    rewrite Hrest. reflexivity.
  - cbn [flat_map]. tk. cbn [comma_strings]. change (is_punct ch_comma (KPunct, [ch_comma])) with true. cbv iota.
    change (kind_is KString (KString, n)) with true. cbv iota. rewrite (IH rest Hrest). reflexivity.
Qed.

Lemma attr_name_ok : forall v r, expr_attr_name v = true -> p_attr_name ((KString, v) :: r) = POk v r.
Proof.
  intros v r H. unfold expr_attr_name in H. apply andb_true_iff in H. destruct H as [_ H]. apply negb_true_iff in H.
  unfold p_attr_name, next. change (kind_is KString (KString, v)) with true. cbv iota. cbn [snd]. unfold has_blank. rewrite H. reflexivity.
Qed.

Lemma p_attr_type_ok : forall t rest, wf_attr_type t ->
  p_attr_type prs hex (toks_of (w_attr_type fmt hex t) ++ (KPunct, [ch_semi]) :: rest) = POk t ((KPunct, [ch_semi]) :: rest).
Proof.
  intros t rest Hwf. destruct t as [mn mx|mn mx|mn mx| |l]; cbn [wf_attr_type w_attr_type] in *; tk;
    unfold p_attr_type; cbn [next fst snd];
    try change (keyword_of kw_INT) with (Some KwAttributeInt); try change (keyword_of kw_HEX) with (Some KwAttributeHex);
    try change (keyword_of kw_FLOAT) with (Some KwAttributeFloat); try change (keyword_of kw_STRING) with (Some KwAttributeString);
    try change (keyword_of kw_ENUM) with (Some KwAttributeEnum);
    change (kind_is KKeyword (KKeyword, ?k)) with true; cbv iota.
  - destruct Hwf as [H1 H2]. rewrite (p_int_ok mn _ H1). cbn [bind]. rewrite (p_int_ok mx _ H2). reflexivity.
  - destruct Hwf as [H1 H2]. rewrite (p_hex_ok mn _ H1). cbn [bind]. rewrite (p_hex_ok mx _ H2). reflexivity.
  - destruct Hwf as [H1 H2]. repeat pstep. reflexivity.
  - reflexivity.
  - destruct l as [|x l]; cbn [w_enum_values]; tk.
    + cbn [next]. change (kind_is KString (KPunct, [ch_semi])) with false. reflexivity.
    + cbn [next]. change (kind_is KString (KString, x)) with true. cbv iota.
      rewrite comma_strings_ok by reflexivity. reflexivity.
Qed.

Lemma parse_attribute_ok : forall a rest, wf_attribute a ->
  exists T, toks_of (w_attribute fmt hex a) ++ rest = (KKeyword, kw_BA_DEF) :: T /\ parse_attribute prs hex T = POk a rest.
Proof.
  intros a rest (Hn & Ht). destruct a as [kind name ty]; cbn [ad_kind ad_name ad_type] in *.
  unfold w_attribute. cbn [ad_kind ad_name ad_type]. eexists. split; [tk; reflexivity|].
  unfold parse_attribute. destruct kind; cbn [w_attr_kind]; tk; cbn [next fst snd];
    try change (keyword_of kw_BU) with (Some KwNode); try change (keyword_of kw_BO) with (Some KwMessage);
    try change (keyword_of kw_SG) with (Some KwSignal); try change (keyword_of kw_EV) with (Some KwEnvVar);
    cbv iota; cbn [bind]; rewrite attr_name_ok by exact Hn; cbn [bind]; rewrite p_attr_type_ok by exact Ht; cbn [bind];
    repeat pstep; reflexivity.
Qed.

(* ---- attribute values: what the parser makes of the literal the writer prints ---- *)
Definition val_norm (v : attr_val) : attr_val :=
  match v with
  | AVInt z => AVInt z
  | AVHex n => if hex then AVHex n else AVInt (Z.of_N n)
  | AVFloat b =>
    if has_dot (fmt b) then AVFloat b
    else match parse_int (fmt b) with Some z => AVInt z | None => AVFloat b end
  | AVString s => AVString s
  end.

Definition wf_val (v : attr_val) : Prop :=
  match v with
  | AVInt z => int64_ok z
  | AVHex n => u32_ok n
  | AVFloat b => fin b = true
  | AVString s => expr_string s = true
  end.

Lemma plain_no_prefix : forall v, plain_number v = true -> has_hex_prefix v = false.
Proof.
  intros v H. destruct v as [|a [|b r]]; try reflexivity. cbn [plain_number] in H. cbn [has_hex_prefix].
  destruct (a =? ch_minus) eqn:E.
  - apply N.eqb_eq in E. subst. reflexivity.
  - apply andb_true_iff in H. destruct H as [_ H]. cbn [forallb] in H. apply andb_true_iff in H. destruct H as [Hb _].
    unfold digit_or_dot, ascii_digit, ch_dot, ch_x, ch_X in *. lia.
Qed.

Lemma format_int_of_N : forall n, format_int (Z.of_N n) = format_uint n.
Proof. intros [|p]; reflexivity. Qed.

Lemma p_attr_val_ok : forall v r, wf_val v ->
  p_attr_val prs hex (tok1 (w_attr_val fmt hex v) ++ r) = POk (val_norm v) r.
Proof.
  intros v r Hwf. destruct Horacle as [Hp Hs]. destruct v as [z|n|b|s]; cbn [wf_val w_attr_val val_norm] in *; unfold tok1; tk;
    unfold p_attr_val; cbn [next]; try change (kind_is KString (KNumber, ?x)) with false;
    try change (kind_is KNumber (KNumber, ?x)) with true; try change (kind_is KString (KString, ?x)) with true; cbv iota; cbn [snd].
  - rewrite format_int_no_prefix, format_int_no_dot, (parse_int_format z Hwf). reflexivity.
  - destruct hex.
    + destruct (format_hex_true_spec n Hwf) as [H1 H2]. rewrite (hex_number_prefix _ H1), H2. reflexivity.
    + unfold format_hex. destruct (format_uint_spec n) as [_ [Hd _]].
      rewrite (digits_no_prefix _ Hd), (digits_no_dot _ Hd). rewrite <- format_int_of_N. rewrite parse_int_format; [reflexivity|].
      unfold int64_ok, u32_ok in *. lia.
  - rewrite (plain_no_prefix _ (Hs b Hwf)). destruct (has_dot (fmt b)).
    + rewrite (Hp b Hwf). reflexivity.
    + destruct (parse_int (fmt b)); [reflexivity|]. rewrite (Hp b Hwf). reflexivity.
  - reflexivity.
Qed.

(* ---- BA_DEF_DEF_ ---- *)
Definition wf_attr_default (d : attr_default) : Prop := expr_attr_name (af_name d) = true /\ wf_val (af_value d).

Lemma parse_attr_default_ok : forall d rest, wf_attr_default d ->
  exists T, toks_of (w_attr_default fmt hex d) ++ rest = (KKeyword, kw_BA_DEF_DEF) :: T /\
            parse_attr_default prs hex T = POk {| af_name := af_name d; af_value := val_norm (af_value d) |} rest.
Proof.
  intros d rest (Hn & Hv). destruct d as [name v]; cbn [af_name af_value] in *.
  unfold w_attr_default. cbn [af_name af_value]. eexists. split; [tk; reflexivity|].
  unfold parse_attr_default. rewrite attr_name_ok by exact Hn. cbn [bind]. rewrite p_attr_val_ok by exact Hv. cbn [bind].
  repeat pstep. reflexivity.
Qed.

(* ---- BA_ ---- *)
Definition wf_attr_value (v : attr_value) : Prop :=
  expr_string (av_name v) = true /\ wf_ref (av_ref v) /\ wf_val (av_value v).

Lemma attr_val_first : forall v r, exists t, tok1 (w_attr_val fmt hex v) ++ r = t :: r /\ (kind_is KString t || kind_is KNumber t) = true.
Proof. intros v r. destruct v; eexists; (split; [reflexivity|reflexivity]). Qed.

Lemma parse_attr_value_ok : forall v rest, wf_attr_value v ->
  exists T, toks_of (w_attr_value fmt hex v) ++ rest = (KKeyword, kw_BA) :: T /\
            parse_attr_value prs hex T = POk {| av_name := av_name v; av_ref := av_ref v; av_value := val_norm (av_value v) |} rest.
Proof.
  intros v rest (Hn & Hr & Hv). destruct v as [name ref val]; cbn [av_name av_ref av_value] in *.
  unfold w_attr_value. cbn [av_name av_ref av_value]. eexists. split; [tk; reflexivity|].
  unfold parse_attr_value. pstep.
  destruct ref as [|n|id|id n|n]; cbn [w_obj_ref wf_ref] in *; tk.
  - match goal with |- context [tok1 (w_attr_val fmt hex val) ++ ?r] => destruct (attr_val_first val r) as [t [Ht Hk]] end.
    unfold tok, str in *. rewrite Ht. cbn [next]. rewrite Hk. cbn [bind]. rewrite <- Ht. rewrite p_attr_val_ok by exact Hv. cbn [bind]. repeat pstep. reflexivity.
  - cbn [next fst snd]. change (keyword_of kw_BU) with (Some KwNode). cbn [kind_is fst tkind_eqb tkind_index N.eqb Pos.eqb orb]. cbv iota.
    cbn [p_obj_ref_kw bind]. repeat pstep. rewrite p_attr_val_ok by exact Hv. cbn [bind]. repeat pstep. reflexivity.
  - cbn [next fst snd]. change (keyword_of kw_BO) with (Some KwMessage). cbn [kind_is fst tkind_eqb tkind_index N.eqb Pos.eqb orb]. cbv iota.
    cbn [p_obj_ref_kw bind]. repeat pstep. rewrite p_attr_val_ok by exact Hv. cbn [bind]. repeat pstep. reflexivity.
  - destruct Hr as [Hr1 Hr2]. cbn [next fst snd]. change (keyword_of kw_SG) with (Some KwSignal). cbn [kind_is fst tkind_eqb tkind_index N.eqb Pos.eqb orb]. cbv iota.
    cbn [p_obj_ref_kw bind]. repeat pstep. rewrite p_attr_val_ok by exact Hv. cbn [bind]. repeat pstep. reflexivity.
  - cbn [next fst snd]. change (keyword_of kw_EV) with (Some KwEnvVar). cbn [kind_is fst tkind_eqb tkind_index N.eqb Pos.eqb orb]. cbv iota.
    cbn [p_obj_ref_kw bind]. repeat pstep. rewrite p_attr_val_ok by exact Hv. cbn [bind]. repeat pstep. reflexivity.
Qed.

(* ---- VAL_ ---- *)
Definition wf_value_encoding (v : value_encoding) : Prop :=
  match ve_ref v with ERSignal id n => u32_ok id /\ expr_ident up n = true | EREnvVar n => expr_ident up n = true end /\
  Forall wf_vd (ve_values v).

Lemma parse_value_encoding_ok : forall v rest, wf_value_encoding v ->
  exists T, toks_of (w_value_encoding v) ++ rest = (KKeyword, kw_VAL) :: T /\ parse_value_encoding T = POk v rest.
Proof.
  intros v rest (Hr & Hv). destruct v as [ref vals]; cbn [ve_ref ve_values] in *.
  unfold w_value_encoding. cbn [ve_ref ve_values]. eexists. split; [tk; reflexivity|].
  unfold parse_value_encoding. destruct ref as [id n|n]; cbn [w_enc_ref]; tk; cbn [next fst].
  - destruct Hr as [Hr1 Hr2]. repeat pstep. rewrite value_descs_ok by (try exact Hv; right; eexists; reflexivity); cbn [bind]; repeat pstep; reflexivity.
  - repeat pstep. rewrite value_descs_ok by (try exact Hv; right; eexists; reflexivity); cbn [bind]; repeat pstep; reflexivity.
Qed.

(* ---- SIG_GROUP_ ---- *)
Definition wf_signal_group (g : signal_group) : Prop :=
  u32_ok (sgp_id g) /\ expr_ident up (sgp_name g) = true /\ u32_ok (sgp_rep g) /\ idents_ok (sgp_signals g).

Lemma parse_signal_group_ok : forall g rest, wf_signal_group g ->
  exists T, toks_of (w_signal_group g) ++ rest = (KKeyword, kw_SIG_GROUP) :: T /\ parse_signal_group T = POk g rest.
Proof.
  intros g rest (Hid & Hn & Hr & Hs). destruct g as [id name rep sigs]; cbn [sgp_id sgp_name sgp_rep sgp_signals] in *.
  unfold w_signal_group. cbn [sgp_id sgp_name sgp_rep sgp_signals]. eexists. split; [tk; reflexivity|].
  unfold parse_signal_group. repeat pstep. rewrite idents_loop_ok by (right; eauto). repeat pstep. reflexivity.
Qed.

(* ---- SIG_VALTYPE_ ---- *)
Definition wf_sig_ext_value_type (v : sig_ext_value_type) : Prop := u32_ok (sv_id v) /\ expr_ident up (sv_signal v) = true.

Lemma parse_sig_ext_value_type_ok : forall v rest, wf_sig_ext_value_type v ->
  exists T, toks_of (w_sig_ext_value_type v) ++ rest = (KKeyword, kw_SIG_VALTYPE) :: T /\ parse_sig_ext_value_type T = POk v rest.
Proof.
  intros v rest (Hid & Hn). destruct v as [id name ty]; cbn [sv_id sv_signal sv_type] in *.
  unfold w_sig_ext_value_type. cbn [sv_id sv_signal sv_type]. eexists. split; [tk; reflexivity|].
  unfold parse_sig_ext_value_type. repeat pstep. rewrite (p_ext_type_ok ty). cbn [bind]. repeat pstep. reflexivity.
Qed.

(* ---- SG_MUL_VAL_ ---- *)
Definition wf_range (r : N * N) : Prop := u32_ok (fst r) /\ u32_ok (snd r).
Definition wf_ext_mux (x : ext_mux) : Prop :=
  u32_ok (xm_id x) /\ expr_ident up (xm_muxed x) = true /\ expr_ident up (xm_muxor x) = true /\
  xm_ranges x <> [] /\ Forall wf_range (xm_ranges x).

Lemma p_range_ok : forall x r, wf_range x -> p_range (tok1 (w_range x) ++ r) = POk x r.
Proof.
  intros [a b] r [Ha Hb]. cbn [fst snd] in *. unfold tok1, w_range. cbn [fst snd]. tk. unfold p_range. cbn [next].
  change (kind_is KRange (KRange, ?v)) with true. cbv iota. cbn [snd].
  destruct (format_uint_spec a) as [_ [Hda _]]. destruct (format_uint_spec b) as [_ [Hdb _]].
  rewrite (split_on_range _ _ Hda Hdb). cbn [nth]. rewrite (parse_uint_format a Ha), (parse_uint_format b Hb). reflexivity.
Qed.

Lemma comma_ranges_ok : forall l rest, Forall wf_range l -> hd_not (is_punct ch_comma) rest ->
  comma_ranges (toks_of (flat_map (fun y => [pu ch_comma; sp; w_range y]) l) ++ rest) = POk l rest.
Proof.
  induction l as [|x l IH]; intros rest Hwf Hrest.
  - cbn [flat_map toks_of app]. destruct rest as [|t r]; [reflexivity|]. cbn [comma_ranges]. cbn in Hrest. rewrite Hrest. reflexivity.
  - inversion Hwf as [|x' l' Hx Hl]; subst. cbn [flat_map]. tk. cbn [comma_ranges].
    change (is_punct ch_comma (KPunct, [ch_comma])) with true. cbv iota.
    rewrite p_range_ok by exact Hx. unfold tok1 at 1. destruct x as [a b]. unfold w_range at 1. cbn [fst snd]. tk.
    rewrite (IH rest Hl Hrest). reflexivity.
Qed.

Lemma parse_ext_mux_ok : forall x rest, wf_ext_mux x ->
  exists T, toks_of (w_ext_mux x) ++ rest = (KKeyword, kw_SG_MUL_VAL) :: T /\ parse_ext_mux T = POk x rest.
Proof.
  intros x rest (Hid & H1 & H2 & Hne & Hr). destruct x as [id muxed muxor ranges]; cbn [xm_id xm_muxed xm_muxor xm_ranges] in *.
  destruct ranges as [|r0 ranges]; [congruence|]. inversion Hr as [|r0' rs' Hr0 Hrs]; subst.
  unfold w_ext_mux. cbn [xm_id xm_muxed xm_muxor xm_ranges]. eexists. split; [unfold w_ranges; tk; reflexivity|].
  unfold parse_ext_mux. repeat pstep. rewrite p_range_ok by exact Hr0. cbn [bind].
  rewrite comma_ranges_ok by (try exact Hrs; reflexivity). cbn [bind]. repeat pstep. reflexivity.
Qed.

End Sections.
