(* C09 — the parser model is total: every section parser returns a suffix of its input no longer
   than the input, every iteration of the file loop consumes at least the section keyword, so
   fuel = number of tokens + 1 is never exhausted. *)
From Coq Require Import Arith NArith List Bool Lia.
From Acme.C08 Require Import DbcAst Chars DbcLex DbcParse ProofsLex.
Import ListNotations.

Definition shrinks {A} (p : list tok -> pres A) : Prop :=
  forall ts a r, p ts = POk a r -> (length r <= length ts)%nat.

Lemma next_len : forall ts t r, next ts = (t, r) -> (length r <= length ts)%nat.
Proof. intros [|x l] t r H; inversion H; subst; cbn; lia. Qed.

Lemma next_cons : forall ts t r, next ts = (t, r) -> ts = [] \/ ts = t :: r.
Proof. intros [|x l] t r H; inversion H; subst; auto. Qed.

(* one step of a "do"-chain or of a conditional whose result is known to be POk *)
Ltac step H :=
  match type of H with
  | bind ?e _ = POk _ _ =>
    let x := fresh "x" in let E := fresh "E" in
    remember e as x eqn:E in H; symmetry in E; destruct x; cbn [bind] in H; [ | discriminate H | discriminate H ]
  | (let '(_, _) := ?e in _) = POk _ _ =>
    let x := fresh "x" in let E := fresh "E" in
    remember e as x eqn:E in H; symmetry in E; destruct x
  | (if ?b then _ else _) = POk _ _ =>
    let x := fresh "x" in let E := fresh "E" in
    remember b as x eqn:E in H; clear E; destruct x; try discriminate H
  | match ?y with _ => _ end = POk _ _ =>
    let x := fresh "x" in let E := fresh "E" in
    remember y as x eqn:E in H; symmetry in E; destruct x; try discriminate H
  end.

Create HintDb shr discriminated.

(* turn every "p ts = POk a r" in the context into "length r <= length ts" *)
Ltac facts :=
  repeat match goal with
  | E : next _ = (_, _) |- _ => apply next_len in E
  | E : ?p ?ts = POk _ ?r |- _ =>
    let Hs := fresh "Hs" in
    assert (Hs : shrinks p) by (eauto with shr);
    apply Hs in E; clear Hs
  end.

Ltac step_any := match goal with H : _ = POk _ _ |- _ => step H end.
Ltac inv_ok := repeat match goal with E : POk _ _ = POk _ _ |- _ => inversion E; subst; clear E end.
Ltac shrink_tac H := repeat step H; inversion H; subst; repeat step_any; inv_ok; facts; cbn [length] in *; try lia.

Lemma expect_punct_shrinks : forall c, shrinks (expect_punct c).
Proof. intros c ts a r H. unfold expect_punct in H. shrink_tac H. Qed.
Lemma expect_kind_shrinks : forall k, shrinks (expect_kind k).
Proof. intros c ts a r H. unfold expect_kind in H. shrink_tac H. Qed.
Lemma p_uint_shrinks : shrinks p_uint.
Proof. intros ts a r H. unfold p_uint in H. shrink_tac H. Qed.
#[export] Hint Resolve expect_punct_shrinks expect_kind_shrinks p_uint_shrinks : shr.

Section Total.
Variable prs : str -> option N.
Variable hex : bool.

Lemma p_double_shrinks : shrinks (p_double prs).
Proof. intros ts a r H. unfold p_double in H. shrink_tac H. Qed.
Hint Resolve p_double_shrinks : shr.

Lemma parse_version_shrinks : shrinks parse_version.
Proof. unfold parse_version. auto with shr. Qed.

Lemma ns_loop_shrinks : shrinks ns_loop.
Proof.
  intros ts. induction ts as [|t r IH]; intros a rest H; cbn in H.
  - inversion H; subst; cbn; lia.
  - repeat step H; try (inversion H; subst; cbn; lia).
    + inversion H; subst. match goal with E : ns_loop _ = POk _ _ |- _ => apply IH in E end. cbn; lia.
    + apply IH in H. cbn; lia.
Qed.
Hint Resolve ns_loop_shrinks : shr.

Lemma parse_new_symbols_shrinks : shrinks parse_new_symbols.
Proof. intros ts a r H. unfold parse_new_symbols in H. shrink_tac H. Qed.

Lemma p_uint_other_shrinks : forall b, shrinks (fun ts => p_uint_other ts b).
Proof. intros b ts a r H. unfold p_uint_other in H. shrink_tac H. Qed.

Lemma parse_bit_timing_shrinks : shrinks parse_bit_timing.
Proof.
  intros ts a r H. unfold parse_bit_timing in H.
  repeat step H; try (inversion H; subst; facts; lia).
  all: repeat match goal with E : p_uint_other _ _ = POk _ _ |- _ => apply (p_uint_other_shrinks true) in E end.
  all: inversion H; subst; facts; lia.
Qed.

Lemma idents_loop_len : forall ts l rest, idents_loop ts = (l, rest) -> (length rest <= length ts)%nat.
Proof.
  induction ts as [|t r IH]; intros l rest H; cbn in H.
  - inversion H; subst; cbn; lia.
  - destruct (kind_is KIdent t).
    + destruct (idents_loop r) as [l' rest'] eqn:E. inversion H; subst. specialize (IH _ _ eq_refl). cbn; lia.
    + inversion H; subst; cbn; lia.
Qed.

Ltac facts2 := repeat match goal with E : idents_loop _ = (_, _) |- _ => apply idents_loop_len in E end; facts.

Lemma parse_nodes_shrinks : shrinks parse_nodes.
Proof. intros ts a r H. unfold parse_nodes in H. repeat step H. inversion H; subst. facts2. lia. Qed.

Lemma value_descs_shrinks : shrinks value_descs.
Proof.
  intros ts. induction ts as [ts IH] using (well_founded_induction (well_founded_ltof _ (@length tok))).
  intros a rest H. destruct ts as [|t r]; cbn in H.
  - inversion H; subst; cbn; lia.
  - repeat step H; try (inversion H; subst; cbn; lia).
    inversion H; subst. match goal with E : value_descs _ = POk _ _ |- _ => apply IH in E; [cbn in *; lia | unfold ltof; cbn; lia] end.
Qed.
Hint Resolve value_descs_shrinks : shr.

Lemma parse_value_table_shrinks : shrinks parse_value_table.
Proof. intros ts a r H. unfold parse_value_table in H. shrink_tac H. Qed.

Lemma p_byte_order_shrinks : shrinks p_byte_order.
Proof. intros ts a r H. unfold p_byte_order in H. shrink_tac H. Qed.
Lemma p_sign_shrinks : shrinks p_sign.
Proof. intros ts a r H. unfold p_sign in H. shrink_tac H. Qed.
Hint Resolve p_byte_order_shrinks p_sign_shrinks : shr.

Lemma comma_idents_shrinks : shrinks comma_idents.
Proof.
  intros ts. induction ts as [ts IH] using (well_founded_induction (well_founded_ltof _ (@length tok))).
  intros a rest H. destruct ts as [|t r]; cbn in H.
  - inversion H; subst; cbn; lia.
  - repeat step H; try (inversion H; subst; cbn; lia).
    inversion H; subst. match goal with E : comma_idents _ = POk _ _ |- _ => apply IH in E; [cbn in *; lia | unfold ltof; cbn; lia] end.
Qed.
Hint Resolve comma_idents_shrinks : shr.

Lemma parse_signal_shrinks : shrinks (parse_signal prs).
Proof. intros ts a r H. unfold parse_signal in H. shrink_tac H. Qed.
Hint Resolve parse_signal_shrinks : shr.

Lemma signals_loop_shrinks : forall fuel, shrinks (signals_loop prs fuel).
Proof.
  induction fuel as [|f IH]; intros ts a r H; cbn in H.
  - inversion H; subst; lia.
  - repeat step H; try (inversion H; subst; cbn; lia).
    inversion H; subst. match goal with E : signals_loop _ _ _ = POk _ _ |- _ => apply IH in E end. facts. lia.
Qed.

Lemma parse_message_shrinks : shrinks (parse_message prs).
Proof.
  intros ts a r H. unfold parse_message in H. repeat step H. inversion H; subst.
  match goal with E : signals_loop _ _ _ = POk _ _ |- _ => apply signals_loop_shrinks in E end. facts. lia.
Qed.

Lemma parse_msg_transmitter_shrinks : shrinks parse_msg_transmitter.
Proof. intros ts a r H. unfold parse_msg_transmitter in H. repeat step H. inversion H; subst. facts2. lia. Qed.

Lemma p_ev_type_shrinks : shrinks p_ev_type.
Proof. intros ts a r H. unfold p_ev_type in H. shrink_tac H. Qed.
Lemma p_access_shrinks : shrinks p_access.
Proof. intros ts a r H. unfold p_access in H. shrink_tac H. Qed.
Hint Resolve p_ev_type_shrinks p_access_shrinks : shr.

Lemma parse_env_var_shrinks : shrinks (parse_env_var prs).
Proof. intros ts a r H. unfold parse_env_var in H. shrink_tac H. Qed.
Lemma parse_env_var_data_shrinks : shrinks parse_env_var_data.
Proof. intros ts a r H. unfold parse_env_var_data in H. shrink_tac H. Qed.

Lemma parse_signal_type_shrinks : shrinks (parse_signal_type prs).
Proof. intros ts a r H. unfold parse_signal_type in H. shrink_tac H. Qed.

Lemma p_obj_ref_kw_shrinks : forall k ts0, shrinks (p_obj_ref_kw k ts0).
Proof. intros k ts0 ts a r H. unfold p_obj_ref_kw in H. shrink_tac H. Qed.
Hint Resolve p_obj_ref_kw_shrinks : shr.

Lemma parse_comment_shrinks : shrinks parse_comment.
Proof. intros ts a r H. unfold parse_comment in H. shrink_tac H. Qed.

Lemma p_attr_name_shrinks : shrinks p_attr_name.
Proof. intros ts a r H. unfold p_attr_name in H. shrink_tac H. Qed.
Lemma p_int_shrinks : shrinks p_int.
Proof. intros ts a r H. unfold p_int in H. shrink_tac H. Qed.
Lemma p_hex_shrinks : shrinks (p_hex hex).
Proof. intros ts a r H. unfold p_hex in H. shrink_tac H. Qed.
Hint Resolve p_attr_name_shrinks p_int_shrinks p_hex_shrinks : shr.

Lemma comma_strings_shrinks : shrinks comma_strings.
Proof.
  intros ts. induction ts as [ts IH] using (well_founded_induction (well_founded_ltof _ (@length tok))).
  intros a rest H. destruct ts as [|t r]; cbn in H.
  - inversion H; subst; cbn; lia.
  - repeat step H; try (inversion H; subst; cbn; lia).
    inversion H; subst. match goal with E : comma_strings _ = POk _ _ |- _ => apply IH in E; [cbn in *; lia | unfold ltof; cbn; lia] end.
Qed.
Hint Resolve comma_strings_shrinks : shr.

Lemma p_attr_type_shrinks : shrinks (p_attr_type prs hex).
Proof. intros ts a r H. unfold p_attr_type in H. shrink_tac H. Qed.
Hint Resolve p_attr_type_shrinks : shr.

Lemma parse_attribute_shrinks : shrinks (parse_attribute prs hex).
Proof. intros ts a r H. unfold parse_attribute in H. shrink_tac H. Qed.

Lemma p_attr_val_shrinks : shrinks (p_attr_val prs hex).
Proof. intros ts a r H. unfold p_attr_val in H. shrink_tac H. Qed.
Hint Resolve p_attr_val_shrinks : shr.

Lemma parse_attr_default_shrinks : shrinks (parse_attr_default prs hex).
Proof. intros ts a r H. unfold parse_attr_default in H. shrink_tac H. Qed.
Lemma parse_attr_value_shrinks : shrinks (parse_attr_value prs hex).
Proof. intros ts a r H. unfold parse_attr_value in H. shrink_tac H. Qed.
Lemma parse_value_encoding_shrinks : shrinks parse_value_encoding.
Proof. intros ts a r H. unfold parse_value_encoding in H. shrink_tac H. Qed.
Lemma parse_signal_group_shrinks : shrinks parse_signal_group.
Proof. intros ts a r H. unfold parse_signal_group in H. repeat step H. inversion H; subst. facts2. lia. Qed.
Lemma p_ext_type_shrinks : shrinks p_ext_type.
Proof. intros ts a r H. unfold p_ext_type in H. shrink_tac H. Qed.
Hint Resolve p_ext_type_shrinks : shr.
Lemma parse_sig_ext_value_type_shrinks : shrinks parse_sig_ext_value_type.
Proof. intros ts a r H. unfold parse_sig_ext_value_type in H. shrink_tac H. Qed.

Lemma p_range_shrinks : shrinks p_range.
Proof. intros ts a r H. unfold p_range in H. shrink_tac H. Qed.
Hint Resolve p_range_shrinks : shr.

Lemma comma_ranges_shrinks : shrinks comma_ranges.
Proof.
  intros ts. induction ts as [ts IH] using (well_founded_induction (well_founded_ltof _ (@length tok))).
  intros a rest H. destruct ts as [|t r]; cbn in H.
  - inversion H; subst; cbn; lia.
  - repeat step H; try (inversion H; subst; cbn; lia).
    inversion H; subst. match goal with E : comma_ranges _ = POk _ _ |- _ => apply IH in E; [cbn in *; lia | unfold ltof; cbn; lia] end.
Qed.
Hint Resolve comma_ranges_shrinks : shr.

Lemma parse_ext_mux_shrinks : shrinks parse_ext_mux.
Proof. intros ts a r H. unfold parse_ext_mux in H. shrink_tac H. Qed.

Lemma lift_shrinks : forall A (f : A -> item) (p : list tok -> pres A), shrinks p -> shrinks (fun ts => lift f (p ts)).
Proof. intros A f p Hp ts a r H. unfold lift in H. destruct (p ts) eqn:E; try discriminate. inversion H; subst. eapply Hp; eauto. Qed.

Lemma parse_section_shrinks : forall k fl ts0 r it r' fl',
  parse_section prs hex k fl ts0 r = Some (POk it r', fl') -> (length r' <= length r)%nat.
Proof.
  intros k fl ts0 r it r' fl' H. unfold parse_section in H.
  destruct k; try discriminate;
    repeat match type of H with Some (if ?b then _ else _) = _ => destruct b end;
    inversion H as [[H1 H2]]; try discriminate;
    match type of H1 with lift ?f (?p r) = _ => eapply (lift_shrinks _ f p); [|exact H1] end.
  - apply parse_version_shrinks.
  - apply parse_new_symbols_shrinks.
  - apply parse_bit_timing_shrinks.
  - apply parse_nodes_shrinks.
  - apply parse_message_shrinks.
  - apply parse_msg_transmitter_shrinks.
  - apply parse_sig_ext_value_type_shrinks.
  - apply parse_value_table_shrinks.
  - apply parse_value_encoding_shrinks.
  - apply parse_env_var_shrinks.
  - apply parse_env_var_data_shrinks.
  - apply parse_signal_type_shrinks.
  - apply parse_signal_group_shrinks.
  - apply parse_comment_shrinks.
  - apply parse_attribute_shrinks.
  - apply parse_attr_default_shrinks.
  - apply parse_attr_value_shrinks.
  - apply parse_ext_mux_shrinks.
Qed.

(* parse_fuel_enough *)
Lemma parse_loop_fuel : forall fuel fl ts, (length ts < fuel)%nat -> parse_loop prs hex fuel fl ts <> ROutOfFuel.
Proof.
  induction fuel as [|f IH]; intros fl ts Hlen; [lia|].
  cbn [parse_loop]. destruct (next ts) as [t r] eqn:EN.
  destruct (fst t) eqn:EK; try discriminate.
  destruct (keyword_of (snd t)); [|discriminate].
  destruct (next_cons _ _ _ EN) as [Hnil|Hcons].
  { subst ts. cbn in EN. inversion EN; subst. cbn in EK. discriminate. }
  subst ts. cbn in Hlen.
  destruct (parse_section prs hex k fl (t :: r) r) as [[[it r'|n|] fl']|] eqn:EP; try discriminate.
  - pose proof (parse_section_shrinks _ _ _ _ _ _ _ EP) as Hl.
    specialize (IH fl' r'). destruct (parse_loop prs hex f fl' r'); try discriminate. apply IH. lia.
  - apply IH. lia.
Qed.

End Total.

Theorem parse_tokens_total : forall prs hex pts, parse_tokens prs hex pts <> OOutOfFuel.
Proof.
  intros prs hex pts. unfold parse_tokens.
  pose proof (parse_loop_fuel prs hex (S (length (map strip pts))) {| fl_ver := false; fl_ns := false; fl_bu := false |} (map strip pts)) as H.
  destruct (parse_loop prs hex _ _ _); try discriminate.
  - destruct (error_pos pts remaining); discriminate.
  - exfalso. apply H; [lia|reflexivity].
Qed.

(* parse_total: lexer and parser fuel bounds together — the model of dbc.Parse always returns a
   document, a positioned syntax error or another error *)
Theorem parse_total : forall ud prs hex text, parse ud prs hex text <> OOutOfFuel.
Proof.
  intros ud prs hex text. unfold parse.
  destruct (lex_total ud text) as [ts Hts]. rewrite Hts. apply parse_tokens_total.
Qed.
