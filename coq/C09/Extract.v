(* Extraction of the importer loop skeleton for the correspondence check (ExtrOcamlBasic only). *)
From Coq Require Import Extraction ExtrOcamlBasic NArith List.
From Acme.C09 Require Import ImportSkeleton.
Extraction Language OCaml.
Extraction "extracted/c09_model.ml" expand_signal.
