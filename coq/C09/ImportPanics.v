(* C09 — the panic(err) statements of ImportDBCFile (importer.go, end of importFile): the lookup of the
   placeholder node after nodes, messages and attributes were imported, and its removal when it sends
   nothing.  Stated over the model of the importer (coq/C10/Import.v, read only; the same function
   whose outcome class the harness compares with ImportDBCFile on every run): whenever the steps before
   the final one succeed, the bus they produce holds a node with the placeholder name - exactly one -
   so the lookup finds it and the removal has an entity to remove.  The model itself has no failing
   branch there (it filters); this lemma is what makes leaving the branch out faithful.
   The third statement (ToEnum on an attribute whose Type() is the enum tag) has no counterpart in the
   model, whose attribute definitions are a variant type; see props/C09/NOTES.md. *)
From Coq Require Import String Ascii ZArith List Bool.
From Acme.C10 Require Import DbcDoc BusModel Import Proofs.
Import ListNotations.

Lemma count_not_dummy : forall l, count_occ string_dec (filter not_dummy l) dummy_node = 0%nat.
Proof.
  induction l as [|x l IH]; [reflexivity|]. cbn [filter]. destruct (not_dummy x) eqn:E; [|exact IH].
  cbn [count_occ]. destruct (string_dec x dummy_node) as [He|_]; [|exact IH].
  subst x. unfold not_dummy in E. rewrite String.eqb_refl in E. discriminate.
Qed.

Theorem placeholder_present_before_removal : forall d b, import d = Ok b ->
  exists sm b0 b1,
    import_attributes sm d b0 = Ok b1 /\
    In dummy_node (map n_name (b_nodes b1)) /\
    count_occ string_dec (map n_name (b_nodes b1)) dummy_node = 1%nat /\
    b = (if existsb (fun m => String.eqb (m_sender m) dummy_node) (b_messages b1) then b1
         else set_b_nodes b1 (filter (fun n => negb (String.eqb (n_name n) dummy_node)) (b_nodes b1))).
Proof.
  intros d b H. apply import_inv in H.
  destruct H as [reg [es [se [nodes [st4 [msgs [b1 [_ [_ [Hn [_ [Hb Hbb]]]]]]]]]]]].
  exists (is_sigmap st4), (mkbus (d_filename d) (fst (import_comments (d_comments d))) [] nodes (is_enums st4) msgs), b1.
  split; [exact Hb|].
  apply import_attributes_skel in Hb. unfold bus_skel in Hb.
  cbn [b_name b_desc b_nodes b_enums b_messages] in Hb.
  assert (Hk : map node_skel (b_nodes b1) = map node_skel nodes) by congruence.
  assert (Hnames : map n_name (b_nodes b1) = map n_name nodes).
  { apply (map_ext_skel node_skel (fun k => fst (fst k)) n_name); [reflexivity|assumption]. }
  apply import_nodes_names in Hn. rewrite Hnames, Hn.
  split; [apply in_or_app; right; left; reflexivity|]. split; [|exact Hbb].
  rewrite count_occ_app, count_not_dummy. cbn [count_occ]. destruct (string_dec dummy_node dummy_node); [reflexivity|congruence].
Qed.
