(* C09 — totality of the importer's counter loops (model coq/C09/ImportSkeleton.v). *)
From Coq Require Import Arith NArith ZArith List Bool Lia ZifyBool ZifyNat ZifyN.
From Acme.C09 Require Import ImportSkeleton.
Import ListNotations.
Local Open Scope N_scope.
Ltac Zify.zify_post_hook ::= Z.div_mod_to_equations.

Definition u32 (n : N) : Prop := n < 4294967296.

(* fuel (gc - j) + 1 suffices from position j: every iteration that does not leave the loop has
   j < gc, so j + 1 does not wrap (gc < 2^32; with exactly 2^32 groups and To = 2^32-1 the counter wraps after the last group and the loop does not end — a 32-bit selector, outside the property) and the distance to gc shrinks *)
Lemma expand_range_fuel : forall fuel j to gc seen ids,
  gc < 4294967296 -> u32 j -> u32 to ->
  (N.to_nat gc - N.to_nat j < fuel)%nat ->
  expand_range fuel j to gc seen ids <> XFuel.
Proof.
  induction fuel as [|f IH]; intros j to gc seen ids Hgc Hj Hto Hf; [lia|].
  cbn [expand_range]. destruct (to <? j) eqn:E1; [discriminate|].
  destruct (gc <=? j) eqn:E2; [discriminate|].
  assert (Hw : u32_wrap (j + 1) = j + 1) by (unfold u32_wrap, u32 in *; apply N.mod_small; lia).
  rewrite Hw. destruct (nth (N.to_nat j) seen false); apply IH; unfold u32 in *; try lia.
Qed.

Theorem expand_range_total : forall from to gc seen ids,
  gc < 4294967296 -> u32 from -> u32 to ->
  expand_range (S (N.to_nat gc)) from to gc seen ids <> XFuel.
Proof. intros. apply expand_range_fuel; try assumption. lia. Qed.

(* the record of seen ids: as many ids as marks, marks never exceed the table *)
Definition count_true (l : list bool) : nat := length (filter (fun b => b) l).

Lemma count_true_le : forall l, (count_true l <= length l)%nat.
Proof. intros l. unfold count_true. induction l as [|x l IH]; cbn; [lia|]. destruct x; cbn; lia. Qed.

Lemma set_nth_length : forall l i, length (set_nth l i) = length l.
Proof. induction l as [|x l IH]; intros [|i]; cbn; try reflexivity. rewrite IH. reflexivity. Qed.

Lemma set_nth_count : forall l i, (i < length l)%nat -> nth i l false = false ->
  count_true (set_nth l i) = S (count_true l).
Proof.
  unfold count_true. induction l as [|x l IH]; intros [|i] Hi Hn; cbn in *; try lia.
  - subst. reflexivity.
  - destruct x; cbn; rewrite IH by (try lia; assumption); reflexivity.
Qed.

Lemma expand_range_inv : forall fuel j to gc seen ids seen' ids',
  length seen = N.to_nat gc -> length ids = count_true seen ->
  expand_range fuel j to gc seen ids = XOk seen' ids' ->
  length seen' = N.to_nat gc /\ length ids' = count_true seen'.
Proof.
  induction fuel as [|f IH]; intros j to gc seen ids seen' ids' Hl Hc H; [discriminate|].
  cbn [expand_range] in H. destruct (to <? j); [inversion H; subst; auto|].
  destruct (gc <=? j) eqn:E2; [discriminate|].
  destruct (nth (N.to_nat j) seen false) eqn:En.
  - eapply IH; eauto.
  - eapply IH; [| |exact H].
    + rewrite set_nth_length. exact Hl.
    + rewrite app_length, set_nth_count by (try lia; assumption). cbn [length]. lia.
Qed.

Lemma expand_ranges_spec : forall ranges gc seen ids,
  gc < 4294967296 -> Forall (fun r => u32 (fst r) /\ u32 (snd r)) ranges ->
  length seen = N.to_nat gc -> length ids = count_true seen ->
  match expand_ranges ranges gc seen ids with
  | XOk seen' ids' => (length ids' <= N.to_nat gc)%nat
  | XErr _ => True
  | XFuel => False
  end.
Proof.
  induction ranges as [|[from to] r IH]; intros gc seen ids Hgc Hr Hl Hc; cbn [expand_ranges].
  - rewrite Hc, <- Hl. apply count_true_le.
  - inversion Hr as [|x l [Hf Ht] Hr']; subst. cbn [fst snd] in *.
    destruct (to <? from); [exact I|].
    pose proof (expand_range_total from to gc seen ids Hgc Hf Ht) as Htot.
    destruct (expand_range (S (N.to_nat gc)) from to gc seen ids) as [seen' ids'|j|] eqn:E; [|exact I|congruence].
    destruct (expand_range_inv _ _ _ _ _ _ _ _ Hl Hc E) as [Hl' Hc']. apply IH; assumption.
Qed.

(* import_fuel_enough / import_total for the data-dependent loop nest: for every list of uint32
   ranges and every multiplexer with fewer than 2^32 groups the expansion terminates (error or
   result), and a result never holds more ids than the multiplexer has groups *)
Theorem import_ranges_total : forall ranges gc,
  gc < 4294967296 -> Forall (fun r => u32 (fst r) /\ u32 (snd r)) ranges ->
  match expand_signal ranges gc with
  | XOk _ ids => (length ids <= N.to_nat gc)%nat
  | XErr _ => True
  | XFuel => False
  end.
Proof.
  intros ranges gc Hgc Hr. unfold expand_signal. apply expand_ranges_spec; try assumption.
  - apply repeat_length.
  - unfold count_true. cbn [length]. induction (N.to_nat gc) as [|n IH]; [reflexivity|]. cbn. exact IH.
Qed.

(* the loop as it was (D26): for To = 2^32 - 1 no amount of fuel is enough *)
Theorem import_range_loop_refuted : forall fuel from ids, u32 from ->
  expand_range_unguarded fuel from 4294967295 ids = None.
Proof.
  induction fuel as [|f IH]; intros from ids Hf; [reflexivity|].
  cbn [expand_range_unguarded]. replace (4294967295 <? from) with false by (unfold u32 in Hf; lia).
  apply IH. unfold u32, u32_wrap. lia.
Qed.

(* importer.go:645: the count-down loop runs max(n, 0) times *)
Lemma countdown_fuel : forall fuel j iters, (Z.to_nat (j + 1) < fuel)%nat ->
  countdown fuel j iters = Some (iters + Z.to_nat (j + 1))%nat.
Proof.
  induction fuel as [|f IH]; intros j iters Hf; [lia|]. cbn [countdown].
  destruct (j <? 0)%Z eqn:E.
  - f_equal. lia.
  - rewrite IH by lia. f_equal. lia.
Qed.

Theorem countdown_total : forall n : Z, countdown (S (Z.to_nat n)) (n - 1) 0 = Some (Z.to_nat n).
Proof. intros n. rewrite countdown_fuel by lia. f_equal. lia. Qed.
