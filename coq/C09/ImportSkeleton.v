(* C09 — the control skeleton of the importer that matters for totality (importer.go).

   Every loop of importer.go is a `for ... range` over a slice or map of the parsed document
   (importFile, importComments, importAttributes, importValueTable, importValueEncoding,
   importExtMuxes, importNodes, importMessage, importMuxSignal: one iteration per element, no
   element is added to the collection being ranged over) except two counter loops:

     importer.go:645   for j := muxSigCount - 1; j >= 0; j--          (int, counts down to 0)
     importer.go:743   for j := valRange.From; j <= valRange.To; j++   (uint32, wraps at 2^32)

   The second is the one whose termination depends on data: with To = 2^32-1 the condition
   j <= To never fails (j wraps to 0).  After the repairs b2ffdf4 / f52045e / c48347e the loop
   refuses an inverted range, stops with an error at the first j >= groupCount and records each
   group id once.  This file models exactly that loop nest, with the uint32 wrap written out;
   [expand_range_unguarded] is the loop as it was before b2ffdf4. *)
From Coq Require Import NArith ZArith List Bool.
Import ListNotations.
Local Open Scope N_scope.

Definition u32_wrap (n : N) : N := n mod 4294967296.

Fixpoint set_nth (l : list bool) (i : nat) : list bool :=
  match l, i with
  | [], _ => []
  | _ :: r, O => true :: r
  | x :: r, S i' => x :: set_nth r i'
  end.

Inductive xres :=
| XOk (seen : list bool) (ids : list N)      (* loop left normally *)
| XErr (j : N)                                (* GroupIDError{j, ErrOutOfBounds} *)
| XFuel.                                      (* out of fuel: the model's stand-in for "does not terminate" *)

(* for j := from; j <= to; j++ { if int(j) >= groupCount {return err}; if seen[j] {continue}; seen[j] = true; ids = append(ids, j) } *)
Fixpoint expand_range (fuel : nat) (j to gc : N) (seen : list bool) (ids : list N) : xres :=
  match fuel with
  | O => XFuel
  | S f =>
    if to <? j then XOk seen ids
    else if gc <=? j then XErr j
    else if nth (N.to_nat j) seen false then expand_range f (u32_wrap (j + 1)) to gc seen ids
    else expand_range f (u32_wrap (j + 1)) to gc (set_nth seen (N.to_nat j)) (ids ++ [j])
  end.

(* the loop before the repair: no bound on j *)
Fixpoint expand_range_unguarded (fuel : nat) (j to : N) (ids : list N) : option (list N) :=
  match fuel with
  | O => None
  | S f => if to <? j then Some ids else expand_range_unguarded f (u32_wrap (j + 1)) to (ids ++ [j])
  end.

(* for _, valRange := range dbcExtMux.Ranges { if From > To {return err}; <loop above> } *)
Fixpoint expand_ranges (ranges : list (N * N)) (gc : N) (seen : list bool) (ids : list N) : xres :=
  match ranges with
  | [] => XOk seen ids
  | (from, to) :: r =>
    if to <? from then XErr from
    else match expand_range (S (N.to_nat gc)) from to gc seen ids with
         | XOk seen' ids' => expand_ranges r gc seen' ids'
         | e => e
         end
  end.

(* seenGroupIDs := make([]bool, groupCount); groupIDs := []int{} *)
Definition expand_signal (ranges : list (N * N)) (gc : N) : xres :=
  expand_ranges ranges gc (repeat false (N.to_nat gc)) [].

(* importer.go:645: for j := n - 1; j >= 0; j-- { body } : the number of iterations *)
Fixpoint countdown (fuel : nat) (j : Z) (iters : nat) : option nat :=
  match fuel with
  | O => None
  | S f => if (j <? 0)%Z then Some iters else countdown f (j - 1)%Z (S iters)
  end.
