(* C10 — bit level.
   (1) `gen_filters` / `decode_filters`: model of SignalLayout.generateFilters and of the raw-value
       assembly of SignalLayout.Decode (signal_layout.go) for ONE signal at position `pos`
       (the library's internal numbering), `size` bits, message byte order `o`.
   (2) `dbc_bits` / `dbc_raw`: an INDEPENDENT interpreter of the DBC start-bit convention written
       from the format's rule as a walk over payload bit numbers (bit n = bit (n mod 8) of byte
       (n / 8), bit 0 = least significant):
         Intel    : the start bit is the LSB; significance grows with the bit number;
         Motorola : the start bit is the MSB; the next less significant bit is n-1, except that
                    below bit 0 of a byte the walk continues at bit 7 of the NEXT byte (n+15).
   (3) `pos_of_dbc` / `dbc_of_pos`: the importer's getSignalStartBit and the exporter's getStartBit. *)
From Coq Require Import String Ascii ZArith List Bool.
From Acme.C10 Require Import DbcDoc.
Import ListNotations.
Open Scope Z_scope.

Record bfilter := mkfilter { f_byte : Z; f_mask : Z; f_len : Z; f_off : Z }.

(* the bytes after the first one of a multi-byte signal: `n` bytes left, `rem` bits left *)
Fixpoint rest_filters (n : nat) (i rem : Z) (o : byte_order) : list bfilter :=
  match n with
  | O => []
  | S O =>
      (* last byte *)
      match o with
      | BigEndian => [mkfilter i ((Z.shiftl (2 ^ rem - 1) (8 - rem)) mod 256) rem (8 - rem)]
      | LittleEndian => [mkfilter i ((2 ^ rem - 1) mod 256) rem 0]
      end
  | S k => mkfilter i 255 8 0 :: rest_filters k (i + 1) (rem - 8) o
  end.

Definition gen_filters (pos size : Z) (o : byte_order) : list bfilter :=
  let first := pos / 8 in
  let last := (pos + size - 1) / 8 in
  if first =? last then
    (* single byte: LSB-anchored for BOTH byte orders (D08) *)
    [mkfilter first ((Z.shiftl (2 ^ size - 1) (pos mod 8)) mod 256) size (pos mod 8)]
  else
    let off := pos mod 8 in
    let f0 := match o with
              | BigEndian => mkfilter first (Z.shiftr 255 off) (8 - off) 0
              | LittleEndian => mkfilter first ((Z.shiftl 255 off) mod 256) (8 - off) off
              end in
    f0 :: rest_filters (Z.to_nat (last - first)) (first + 1) (size - (8 - off)) o.

Definition byte_at (data : list Z) (i : Z) : Z := nth (Z.to_nat i) data 0.

Definition filter_value (data : list Z) (f : bfilter) : Z :=
  Z.shiftr (Z.land (byte_at data (f_byte f)) (f_mask f)) (f_off f).

Definition decode_filters (o : byte_order) (data : list Z) (fs : list bfilter) : Z :=
  match o with
  | LittleEndian =>
      fst (fold_left (fun rc f => (Z.lor (fst rc) (Z.shiftl (filter_value data f) (snd rc)), snd rc + f_len f))
                     fs (0, 0))
  | BigEndian =>
      fold_left (fun raw f => Z.lor (Z.shiftl raw (f_len f)) (filter_value data f)) fs 0
  end.

(* what SignalLayout.Decode computes as RawValue for a signal placed at `pos` *)
Definition go_raw (o : byte_order) (pos size : Z) (data : list Z) : Z :=
  decode_filters o data (gen_filters pos size o).

(* ---- independent DBC interpreter ---- *)
Definition bit_at (data : list Z) (n : Z) : Z :=
  if Z.testbit (byte_at data (n / 8)) (n mod 8) then 1 else 0.

(* payload bit numbers from the MOST significant bit of the value to the least significant *)
Fixpoint motorola_walk (k : nat) (n : Z) : list Z :=
  match k with
  | O => []
  | S j => n :: motorola_walk j (if n mod 8 =? 0 then n + 15 else n - 1)
  end.

Fixpoint intel_walk (k : nat) (n : Z) : list Z :=
  match k with
  | O => []
  | S j => n :: intel_walk j (n + 1)
  end.

(* payload bit numbers of the value, least significant first *)
Definition dbc_bits (o : byte_order) (start size : Z) : list Z :=
  match o with
  | LittleEndian => intel_walk (Z.to_nat size) start
  | BigEndian => rev (motorola_walk (Z.to_nat size) start)
  end.

(* value of a list of payload bits, least significant first *)
Fixpoint value_of_bits (data : list Z) (bits : list Z) : Z :=
  match bits with
  | [] => 0
  | n :: r => bit_at data n + 2 * value_of_bits data r
  end.

Definition dbc_raw (o : byte_order) (start size : Z) (data : list Z) : Z :=
  value_of_bits data (dbc_bits o start size).

(* importer.getSignalStartBit / exporter.getStartBit *)
Definition pos_of_dbc (o : byte_order) (start : Z) : Z :=
  match o with LittleEndian => start | BigEndian => start + 7 - 2 * (start mod 8) end.
Definition dbc_of_pos (o : byte_order) (pos : Z) : Z :=
  match o with LittleEndian => pos | BigEndian => pos + 7 - 2 * (pos mod 8) end.

(* D08: the placements on which the single-byte branch of generateFilters is right by accident *)
Definition one_byte (pos size : Z) : bool := pos / 8 =? (pos + size - 1) / 8.
Definition symmetric (pos size : Z) : bool := pos mod 8 =? 8 - (pos mod 8) - size.
Definition d08_excluded (o : byte_order) (pos size : Z) : bool :=
  match o with
  | BigEndian => one_byte pos size && negb (symmetric pos size)
  | LittleEndian => false
  end.
