(* C10 — proof of import_decode_dbc: the raw value assembled by the model of
   SignalLayout.generateFilters / Decode equals the value the independent DBC interpreter
   `dbc_raw` reads, for every payload, for every placement inside a 64-bit payload that is not the
   D08 case.  Structure: (1) every filter with a contiguous mask selects consecutive bits of one
   byte; (2) the little-/big-endian accumulation concatenates those bit lists; (3) for the finite
   domain of placements the resulting bit list IS the DBC walk (checked by computation). *)
From Coq Require Import String Ascii ZArith List Bool Lia.
From Coq Require Import ZifyBool.
From Acme.C10 Require Import DbcDoc BusModel Bits.
Import ListNotations.
Open Scope Z_scope.

(* ---- value_of_bits ---- *)
Lemma value_of_bits_app : forall data l1 l2,
  value_of_bits data (l1 ++ l2) = value_of_bits data l1 + 2 ^ Z.of_nat (length l1) * value_of_bits data l2.
Proof.
  induction l1 as [|n r IH]; intros l2.
  - cbn [app length value_of_bits]. change (Z.of_nat 0) with 0. rewrite Z.pow_0_r. lia.
  - cbn [app length value_of_bits]. rewrite IH. rewrite Nat2Z.inj_succ, Z.pow_succ_r by lia. lia.
Qed.

Lemma bit_at_range : forall data n, 0 <= bit_at data n <= 1.
Proof. intros; unfold bit_at; destruct (Z.testbit _ _); lia. Qed.

Lemma value_of_bits_range : forall data l, 0 <= value_of_bits data l < 2 ^ Z.of_nat (length l).
Proof.
  induction l as [|n r IH].
  - cbn. lia.
  - cbn [value_of_bits length]. rewrite Nat2Z.inj_succ, Z.pow_succ_r by lia.
    pose proof (bit_at_range data n). lia.
Qed.

(* ---- one filter ---- *)
Definition wf_filter (f : bfilter) : bool :=
  (0 <=? f_byte f) && (0 <=? f_off f) && (0 <? f_len f) && (f_off f + f_len f <=? 8)
  && (f_mask f =? Z.shiftl (Z.ones (f_len f)) (f_off f)).

Definition filter_bits (f : bfilter) : list Z :=
  intel_walk (Z.to_nat (f_len f)) (8 * f_byte f + f_off f).

Lemma intel_walk_length : forall k n, length (intel_walk k n) = k.
Proof. induction k; intros; cbn; auto. Qed.

Lemma shiftr_land_shiftl_ones : forall b len off, 0 <= len -> 0 <= off ->
  Z.shiftr (Z.land b (Z.shiftl (Z.ones len) off)) off = Z.land (Z.shiftr b off) (Z.ones len).
Proof.
  intros b len off Hl Ho. apply Z.bits_inj'. intros i Hi.
  rewrite Z.shiftr_spec, Z.land_spec, Z.land_spec, Z.shiftr_spec by lia.
  rewrite Z.shiftl_spec by lia. replace (i + off - off) with i by lia. reflexivity.
Qed.

(* the bits off .. off+k-1 of byte number `byte`, as a value *)
Lemma intel_walk_in_byte : forall data byte k off,
  0 <= byte -> 0 <= off -> off + Z.of_nat k <= 8 ->
  value_of_bits data (intel_walk k (8 * byte + off)) = (byte_at data byte / 2 ^ off) mod 2 ^ Z.of_nat k.
Proof.
  intros data byte k. induction k as [|k IH]; intros off Hb Ho Hk.
  - cbn. rewrite Z.mod_1_r. reflexivity.
  - cbn [intel_walk value_of_bits].
    replace (8 * byte + off + 1) with (8 * byte + (off + 1)) by lia.
    rewrite IH by lia.
    unfold bit_at.
    assert (Hd : (8 * byte + off) / 8 = byte) by (symmetry; apply Z.div_unique with off; lia).
    assert (Hm : (8 * byte + off) mod 8 = off) by (symmetry; apply Z.mod_unique with byte; lia).
    rewrite Hd, Hm.
    set (b := byte_at data byte).
    rewrite Nat2Z.inj_succ, Z.pow_succ_r by lia.
    rewrite Z.rem_mul_r by (try lia; apply Z.pow_pos_nonneg; lia).
    rewrite <- Z.testbit_spec' by lia.
    replace (b / 2 ^ off / 2) with (b / 2 ^ (off + 1)).
    2:{ assert (Hpos : 0 < 2 ^ off) by (apply Z.pow_pos_nonneg; lia).
        rewrite Z.pow_add_r by lia. rewrite Z.pow_1_r. rewrite Z.div_div by lia. reflexivity. }
    destruct (Z.testbit b off); cbn [Z.b2z]; lia.
Qed.

Lemma filter_value_bits : forall data f, wf_filter f = true ->
  filter_value data f = value_of_bits data (filter_bits f).
Proof.
  intros data f H. unfold wf_filter in H.
  rewrite !andb_true_iff in H. destruct H as [[[[H1 H2] H3] H4] H5].
  apply Z.leb_le in H1, H2, H4. apply Z.ltb_lt in H3. apply Z.eqb_eq in H5.
  unfold filter_value, filter_bits. rewrite H5.
  rewrite shiftr_land_shiftl_ones by lia.
  rewrite Z.land_ones by lia. rewrite Z.shiftr_div_pow2 by lia.
  rewrite intel_walk_in_byte by (rewrite ?Z2Nat.id; lia).
  rewrite Z2Nat.id by lia. reflexivity.
Qed.

(* ---- accumulation ---- *)
Lemma lor_shiftl_add : forall a b n, 0 <= n -> 0 <= a < 2 ^ n -> 0 <= b ->
  Z.lor a (Z.shiftl b n) = a + b * 2 ^ n.
Proof.
  intros a b n Hn Ha Hb.
  assert (Hz : Z.land a (Z.shiftl b n) = 0).
  { apply Z.bits_inj'. intros i Hi. rewrite Z.land_spec, Z.bits_0.
    destruct (Z.lt_ge_cases i n) as [Hlt|Hge].
    - rewrite Z.shiftl_spec_low by lia. apply andb_false_r.
    - replace (Z.testbit a i) with false; [reflexivity|].
      symmetry. destruct (Z.eq_dec a 0) as [->|Hne]; [apply Z.bits_0|].
      apply Z.bits_above_log2; [lia|].
      apply Z.log2_lt_pow2; [lia|].
      apply Z.lt_le_trans with (2 ^ n); [lia|]. apply Z.pow_le_mono_r; lia. }
  rewrite <- Z.lxor_lor by exact Hz.
  rewrite <- Z.add_nocarry_lxor by exact Hz.
  rewrite Z.shiftl_mul_pow2 by lia. reflexivity.
Qed.

(* bit list selected by a filter list, least significant bit of the raw value first *)
Definition go_bits (o : byte_order) (fs : list bfilter) : list Z :=
  match o with
  | LittleEndian => concat (map filter_bits fs)
  | BigEndian => concat (rev (map filter_bits fs))
  end.

Lemma filter_bits_length : forall f, 0 <= f_len f -> Z.of_nat (length (filter_bits f)) = f_len f.
Proof. intros f H. unfold filter_bits. rewrite intel_walk_length, Z2Nat.id; lia. Qed.

Lemma wf_len_nonneg : forall f, wf_filter f = true -> 0 < f_len f.
Proof.
  intros f H. unfold wf_filter in H. rewrite !andb_true_iff in H.
  destruct H as [[[[_ _] H3] _] _]. apply Z.ltb_lt in H3. exact H3.
Qed.

Lemma decode_le_spec : forall data fs raw consumed sofar,
  forallb wf_filter fs = true ->
  raw = value_of_bits data sofar -> consumed = Z.of_nat (length sofar) ->
  fst (fold_left (fun rc f => (Z.lor (fst rc) (Z.shiftl (filter_value data f) (snd rc)), snd rc + f_len f))
                 fs (raw, consumed))
  = value_of_bits data (sofar ++ concat (map filter_bits fs)).
Proof.
  intros data fs. induction fs as [|f r IH]; intros raw consumed sofar Hwf Hraw Hc.
  - cbn. rewrite app_nil_r. exact Hraw.
  - cbn [forallb] in Hwf. apply andb_true_iff in Hwf. destruct Hwf as [Hf Hr].
    cbn [fold_left map concat fst snd].
    rewrite app_assoc.
    apply IH; [exact Hr| |].
    + rewrite value_of_bits_app, <- Hraw, <- Hc.
      rewrite filter_value_bits by exact Hf.
      pose proof (value_of_bits_range data sofar) as R1. rewrite <- Hraw, <- Hc in R1.
      pose proof (value_of_bits_range data (filter_bits f)) as R2.
      rewrite lor_shiftl_add; try lia.
    + rewrite app_length, Nat2Z.inj_add, <- Hc.
      rewrite filter_bits_length by (pose proof (wf_len_nonneg f Hf); lia). reflexivity.
Qed.

Lemma decode_be_spec : forall data fs raw sofar,
  forallb wf_filter fs = true ->
  raw = value_of_bits data sofar ->
  fold_left (fun raw f => Z.lor (Z.shiftl raw (f_len f)) (filter_value data f)) fs raw
  = value_of_bits data (concat (rev (map filter_bits fs)) ++ sofar).
Proof.
  intros data fs. induction fs as [|f r IH]; intros raw sofar Hwf Hraw.
  - cbn. exact Hraw.
  - cbn [forallb] in Hwf. apply andb_true_iff in Hwf. destruct Hwf as [Hf Hr].
    cbn [fold_left map rev].
    rewrite concat_app. cbn [concat]. rewrite app_nil_r, <- app_assoc.
    apply IH; [exact Hr|].
    rewrite value_of_bits_app, <- Hraw.
    rewrite filter_value_bits by exact Hf.
    pose proof (wf_len_nonneg f Hf) as Hlen.
    rewrite filter_bits_length by lia.
    pose proof (value_of_bits_range data (filter_bits f)) as R2.
    rewrite filter_bits_length in R2 by lia.
    pose proof (value_of_bits_range data sofar) as R1. rewrite <- Hraw in R1.
    rewrite Z.lor_comm. rewrite lor_shiftl_add; lia.
Qed.

Lemma decode_filters_bits : forall o data fs, forallb wf_filter fs = true ->
  decode_filters o data fs = value_of_bits data (go_bits o fs).
Proof.
  intros [|] data fs H; unfold decode_filters, go_bits.
  - rewrite (decode_le_spec data fs 0 0 []) by (auto; reflexivity). reflexivity.
  - rewrite (decode_be_spec data fs 0 []) by (auto; reflexivity). rewrite app_nil_r. reflexivity.
Qed.

(* ---- the finite domain of placements inside a 64-bit payload ---- *)
Fixpoint list_eqb (a b : list Z) : bool :=
  match a, b with
  | [], [] => true
  | x :: r, y :: s => (x =? y) && list_eqb r s
  | _, _ => false
  end.
Lemma list_eqb_eq : forall a b, list_eqb a b = true -> a = b.
Proof.
  induction a as [|x r IH]; destruct b as [|y s]; cbn; intros H; try discriminate; auto.
  apply andb_true_iff in H. destruct H as [H1 H2]. apply Z.eqb_eq in H1. subst. f_equal. auto.
Qed.

Definition placement_ok (o : byte_order) (pos size : Z) : bool :=
  (pos + size >? 64) || d08_excluded o pos size
  || (forallb wf_filter (gen_filters pos size o)
      && list_eqb (go_bits o (gen_filters pos size o)) (dbc_bits o (dbc_of_pos o pos) size)).

Definition all_placements_ok : bool :=
  forallb (fun o => forallb (fun pos => forallb (fun size => placement_ok o pos size) (zrange 1 64))
                            (zrange 0 64))
          [LittleEndian; BigEndian].

Lemma all_placements_ok_true : all_placements_ok = true.
Proof. vm_compute. reflexivity. Qed.

Lemma In_zrange : forall n from x, from <= x < from + Z.of_nat n -> In x (zrange from n).
Proof.
  induction n as [|n IH]; intros from x H.
  - cbn in H. lia.
  - cbn [zrange]. destruct (Z.eq_dec x from) as [->|Hne]; [left; reflexivity|].
    right. apply IH. rewrite Nat2Z.inj_succ in H. lia.
Qed.

Lemma placement_ok_all : forall o pos size, 0 <= pos -> 1 <= size -> pos + size <= 64 ->
  placement_ok o pos size = true.
Proof.
  intros o pos size Hp Hs Hb.
  pose proof all_placements_ok_true as H. unfold all_placements_ok in H.
  rewrite forallb_forall in H.
  assert (Ho : In o [LittleEndian; BigEndian]) by (destruct o; cbn; auto).
  specialize (H o Ho). rewrite forallb_forall in H.
  specialize (H pos (In_zrange 64 0 pos ltac:(lia))). rewrite forallb_forall in H.
  exact (H size (In_zrange 64 1 size ltac:(lia))).
Qed.

(* import_decode_dbc *)
Theorem go_raw_is_dbc_raw : forall o pos size data,
  0 <= pos -> 1 <= size -> pos + size <= 64 -> d08_excluded o pos size = false ->
  go_raw o pos size data = dbc_raw o (dbc_of_pos o pos) size data.
Proof.
  intros o pos size data Hp Hs Hb Hd.
  pose proof (placement_ok_all o pos size Hp Hs Hb) as H.
  unfold placement_ok in H. rewrite Hd in H.
  assert (Hg : (pos + size >? 64) = false) by lia. rewrite Hg in H.
  cbn [orb] in H. apply andb_true_iff in H. destruct H as [Hwf Heq].
  unfold go_raw, dbc_raw. rewrite decode_filters_bits by exact Hwf.
  rewrite (list_eqb_eq _ _ Heq). reflexivity.
Qed.

(* the excluded case is a real disagreement: big endian, one byte, asymmetric (D08) *)
Theorem go_raw_d08_refuted : exists o pos size data,
  0 <= pos /\ 1 <= size /\ pos + size <= 64 /\ d08_excluded o pos size = true /\
  go_raw o pos size data <> dbc_raw o (dbc_of_pos o pos) size data.
Proof.
  exists BigEndian, 0, 4, [171]. repeat split; try lia; try reflexivity.
  vm_compute. discriminate.
Qed.

(* the hypotheses are satisfiable by non-trivial placements of both byte orders, including a
   big-endian signal narrower than a byte (symmetric placement) and one crossing bytes *)
Example decode_hypotheses_satisfiable :
  d08_excluded BigEndian 2 4 = false /\ d08_excluded BigEndian 4 18 = false /\
  d08_excluded LittleEndian 3 9 = false /\
  go_raw BigEndian 4 18 [226; 173; 237] = 43899.
Proof. repeat split; vm_compute; reflexivity. Qed.
