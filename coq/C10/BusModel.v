(* C10/C11 — plain model of what the properties observe of a Bus (bus.go, node.go, message.go,
   signal.go, mux_signal.go, signal_enum.go, attribute.go) and the canonical projection `proj_bus`.

   A message's signal tree is kept FLAT, the way DBC itself describes it: every signal of every
   depth is one record; `s_parent` is the id of the multiplexer that holds it, `s_groups` the group
   ids it belongs to ([] under a parent = fixed, i.e. every group) and `s_rel` its relStartPos in
   the parent's group layout (= start bit for top-level signals).  Enum definitions live in a
   table (`b_enums`) and enum signals refer to them by index, because SignalEnum objects are
   shared and their size is a dynamic function of the shared object (SetMinSize): cf. D27. *)
From Coq Require Import String Ascii ZArith List Bool.
From Acme.C10 Require Import DbcDoc.
Import ListNotations.
Open Scope Z_scope.

(* ---- attributes ---- *)
Inductive attr_def :=
| DefString (d : string)
| DefInt (d mn mx : Z) (hex : bool)
| DefFloat (d mn mx : fl)
| DefEnum (d : string) (vals : list string).      (* vals: de-duplicated, in index order *)
Inductive attr_val := ValString (s : string) | ValInt (z : Z) | ValFloat (f : fl).
Record attr_asg := mkasg { aa_name : string; aa_def : attr_def; aa_val : attr_val }.

(* ---- enums ---- *)
Record enum_def := mkenum {
  en_name : string;
  en_values : list (Z * string);       (* (index, name), in insertion order *)
  en_maxindex : Z;                     (* stored field SignalEnum.maxIndex *)
  en_minsize : Z }.

(* helpers.go calcSizeFromValue (64-bit int compared as uint64: a negative value needs 64 bits) *)
Definition calc_size_from_value (v : Z) : Z :=
  if v =? 0 then 1 else if v <? 0 then 64
  else if v <? 2 ^ 63 then Z.log2 v + 1 else 64.
(* helpers.go calcValueFromSize *)
Definition calc_value_from_size (s : Z) : Z :=
  if s <=? 0 then 1 else if s <? 63 then 2 ^ s else if s =? 63 then - 2 ^ 63 else 0.
(* SignalEnum.GetSize *)
Definition enum_size (e : enum_def) : Z :=
  let m := calc_size_from_value (en_maxindex e) in
  if en_minsize e >? m then en_minsize e else m.

(* ---- signals ---- *)
Inductive skind := KStandard | KEnum | KMux.
Record signal := mksignal {
  s_id : Z;
  s_name : string;
  s_kind : skind;
  s_rel : Z;
  s_parent : option Z;
  s_groups : list Z;
  s_size : Z;                                   (* standard signals: SignalType.size *)
  s_signed : bool;
  s_scale : fl; s_offset : fl; s_min : fl; s_max : fl;
  s_unit : string;
  s_enum : Z;                                   (* enum signals: index into b_enums *)
  s_gcount : Z; s_gsize : Z;                    (* multiplexers: groupCount, groupSize *)
  s_desc : string;
  s_startval : fl;
  s_sendtype : Z;                               (* SignalSendType as int, 0 = unset *)
  s_attrs : list attr_asg }.

Record message := mkmessage {
  m_canid : Z;
  m_name : string;
  m_size : Z;                                   (* bytes *)
  m_order : byte_order;
  m_cycle : Z; m_delay : Z; m_startdelay : Z;
  m_sendtype : Z;                               (* MessageSendType as int, 0 = unset *)
  m_sender : string;
  m_receivers : list string;
  m_desc : string;
  m_attrs : list attr_asg;
  m_signals : list signal }.

Record node := mknode { n_name : string; n_id : Z; n_desc : string; n_attrs : list attr_asg }.

Record bus := mkbus {
  b_name : string; b_desc : string; b_attrs : list attr_asg;
  b_nodes : list node;                          (* in NodeInterfaces() order = by node id *)
  b_enums : list enum_def;
  b_messages : list message }.

Definition nth_enum (es : list enum_def) (i : Z) : enum_def :=
  nth (Z.to_nat i) es (mkenum "" [] 0 1).

(* MultiplexerSignal.GetGroupCountSize *)
Definition sel_width (s : signal) : Z := calc_size_from_value (s_gcount s - 1).

(* Signal.GetSize *)
Definition sig_size (es : list enum_def) (s : signal) : Z :=
  match s_kind s with
  | KStandard => s_size s
  | KEnum => enum_size (nth_enum es (s_enum s))
  | KMux => s_gsize s + sel_width s
  end.

Definition find_sig (sigs : list signal) (id : Z) : option signal :=
  find (fun s => s_id s =? id) sigs.

(* signal.GetStartBit: parent.GetStartBit() + parent.GetGroupCountSize() + relStartPos *)
Fixpoint abs_start (fuel : nat) (sigs : list signal) (s : signal) : Z :=
  match s_parent s with
  | None => s_rel s
  | Some p =>
      match fuel with
      | O => s_rel s
      | S k => match find_sig sigs p with
               | Some ps => abs_start k sigs ps + sel_width ps + s_rel s
               | None => s_rel s
               end
      end
  end.

Fixpoint zrange (from : Z) (n : nat) : list Z :=
  match n with O => [] | S k => from :: zrange (from + 1) k end.

(* explicit group membership: fixed = every group of the parent *)
Definition membership (sigs : list signal) (s : signal) : list Z :=
  match s_parent s with
  | None => []
  | Some p =>
      match s_groups s with
      | [] => match find_sig sigs p with
              | Some ps => zrange 0 (Z.to_nat (s_gcount ps))
              | None => []
              end
      | g => g
      end
  end.

(* ------------------------------------------------------------------------------------------
   canonical projection (what C10/C11 compare); names after clear_spaces
   ------------------------------------------------------------------------------------------ *)
Section Sorting.
  Context {A : Type} (ltb : A -> A -> bool).
  Fixpoint insert_sorted (x : A) (l : list A) : list A :=
    match l with
    | [] => [x]
    | y :: r => if ltb y x then y :: insert_sorted x r else x :: l
    end.
  (* stable insertion sort: equal keys keep their order (fold_right inserts the last element
     first, and an element goes in front of the equal ones already there) *)
  Definition sort_by (l : list A) : list A := fold_right insert_sorted [] l.
End Sorting.

Definition proj_def (d : attr_def) : attr_def := d.
Definition proj_asg (a : attr_asg) : attr_asg :=
  mkasg (clear_spaces (aa_name a)) (aa_def a) (aa_val a).
Definition proj_attrs (l : list attr_asg) : list attr_asg :=
  sort_by (fun a b => str_ltb (aa_name a) (aa_name b)) (map proj_asg l).

Record psignal := mkpsignal {
  ps_name : string; ps_kind : skind; ps_start : Z;
  ps_size : Z;                      (* standard/enum: size; multiplexer: selector width *)
  ps_signed : bool; ps_scale : fl; ps_offset : fl; ps_min : fl; ps_max : fl; ps_unit : string;
  ps_enum : list (Z * string);      (* sorted by index *)
  ps_parent : string;               (* "" for top level *)
  ps_membership : list Z;
  ps_desc : string; ps_startval : fl; ps_sendtype : Z; ps_attrs : list attr_asg }.

Definition sorted_enum_values (e : enum_def) : list (Z * string) :=
  sort_by (fun a b => fst a <? fst b) (en_values e).

Definition proj_signal (es : list enum_def) (sigs : list signal) (s : signal) : psignal :=
  let std := match s_kind s with KStandard => true | _ => false end in
  mkpsignal (clear_spaces (s_name s)) (s_kind s)
    (abs_start (length sigs) sigs s)
    (match s_kind s with KMux => sel_width s | _ => sig_size es s end)
    (if std then s_signed s else false)
    (if std then s_scale s else fl_one) (if std then s_offset s else fl_zero)
    (if std then s_min s else fl_zero) (if std then s_max s else fl_zero)
    (if std then s_unit s else EmptyString)
    (match s_kind s with KEnum => sorted_enum_values (nth_enum es (s_enum s)) | _ => [] end)
    (match s_parent s with
     | Some p => match find_sig sigs p with Some ps => clear_spaces (s_name ps) | None => EmptyString end
     | None => EmptyString end)
    (membership sigs s)
    (s_desc s) (s_startval s) (s_sendtype s) (proj_attrs (s_attrs s)).

Record pmessage := mkpmessage {
  pm_canid : Z; pm_name : string; pm_size : Z; pm_order : byte_order;
  pm_cycle : Z; pm_delay : Z; pm_startdelay : Z; pm_sendtype : Z;
  pm_sender : string; pm_receivers : list string; pm_desc : string;
  pm_attrs : list attr_asg; pm_signals : list psignal }.

Definition proj_message (es : list enum_def) (m : message) : pmessage :=
  mkpmessage (m_canid m) (clear_spaces (m_name m)) (m_size m)
    (match m_signals m with [] => LittleEndian | _ => m_order m end)
    (m_cycle m) (m_delay m) (m_startdelay m) (m_sendtype m)
    (clear_spaces (m_sender m))
    (sort_by str_ltb (map clear_spaces (m_receivers m)))
    (m_desc m) (proj_attrs (m_attrs m))
    (sort_by (fun a b => str_ltb (ps_name a) (ps_name b))
             (map (proj_signal es (m_signals m)) (m_signals m))).

Record pnode := mkpnode { pn_name : string; pn_desc : string; pn_attrs : list attr_asg }.
Definition proj_node (n : node) : pnode :=
  mkpnode (clear_spaces (n_name n)) (n_desc n) (proj_attrs (n_attrs n)).

Record pbus := mkpbus {
  pb_desc : string; pb_attrs : list attr_asg; pb_nodes : list pnode; pb_messages : list pmessage }.

Definition proj_bus (b : bus) : pbus :=
  mkpbus (b_desc b) (proj_attrs (b_attrs b)) (map proj_node (b_nodes b))
    (sort_by (fun a b => pm_canid a <? pm_canid b) (map (proj_message (b_enums b)) (b_messages b))).

(* results *)
Inductive result (A : Type) := Ok (a : A) | Err (why : string).
Arguments Ok {A} a.
Arguments Err {A} why.
Definition bind {A B} (r : result A) (f : A -> result B) : result B :=
  match r with Ok a => f a | Err w => Err w end.
Notation "'do' x <- r ; k" := (bind r (fun x => k)) (at level 200, x pattern, r at level 100, k at level 200).
