(* C10/C11 — the part of the DBC AST (/repo/dbc/ast.go) that importer.go reads and exporter.go
   writes.  One record per Go struct, one field per Go field that the importer / exporter
   touches (all value slots of the attribute records are kept, as in Go, because the importer
   reads the slot selected by the *attribute's* type, not by the token's type: cf. D27).

   Numbers.  Go `uint32` / `int` fields are unbounded Z here; where the exporter narrows with
   `uint32(x)` the model applies `u32` (Export.v).  ASSUMPTION (stated in every evidence file):
   the integers of a document fit the Go field they are parsed into.

   Floats.  `float64` fields are carried, never computed with, by import/export, except for:
   comparison (attribute range checks, `!= 0`), `math.Mod(x,1) != 0` (isDecimal) and
   `float64(int)`.  A float token `fl` is the exact dyadic rational  fm * 2^fe  of a finite
   double in canonical form (fm odd, or fm = 0 /\ fe = 0).  All four operations are exact on this
   representation provided  (F1) the doubles are finite,  (F2) -0.0 is identified with 0.0,
   (F3) integers converted by float64(int) have magnitude <= 2^53.  The harness converts with
   math.Frexp (exact) and never prints or parses decimal float text on the model side. *)
From Coq Require Import ZArith List Bool String Ascii.
Import ListNotations.
Open Scope Z_scope.

Record fl : Type := mkfl { fm : Z; fe : Z }.

(* canonical form: strip factors of two from the mantissa (fuel: number of bits) *)
Fixpoint fl_norm_aux (fuel : nat) (m e : Z) : fl :=
  match fuel with
  | O => mkfl m e
  | S k => if m =? 0 then mkfl 0 0
           else if Z.even m then fl_norm_aux k (m / 2) (e + 1) else mkfl m e
  end.
Definition fl_norm (m e : Z) : fl := fl_norm_aux (S (Z.to_nat (Z.log2 (Z.abs m)))) m e.

Definition fl_of_Z (z : Z) : fl := fl_norm z 0.              (* float64(int), exact under F3 *)
Definition fl_zero : fl := mkfl 0 0.
Definition fl_one : fl := mkfl 1 0.
Definition fl_eqb (a b : fl) : bool := (fm a =? fm b) && (fe a =? fe b).
Definition fl_is_zero (a : fl) : bool := fm a =? 0.
(* math.Mod(x, 1) != 0  <->  x is not an integer  <->  canonical exponent negative *)
Definition fl_is_decimal (a : fl) : bool := negb (fm a =? 0) && (fe a <? 0).
(* exact comparison of fm a * 2^fe a  with  fm b * 2^fe b *)
Definition fl_ltb (a b : fl) : bool :=
  let e := Z.min (fe a) (fe b) in
  fm a * 2 ^ (fe a - e) <? fm b * 2 ^ (fe b - e).
Definition fl_leb (a b : fl) : bool := negb (fl_ltb b a).

(* int(float64): truncation toward zero *)
Definition fl_trunc (a : fl) : Z :=
  if fe a >=? 0 then fm a * 2 ^ (fe a) else Z.quot (fm a) (2 ^ (- fe a)).

Lemma fl_eqb_eq : forall a b, fl_eqb a b = true <-> a = b.
Proof.
  intros [m1 e1] [m2 e2]; unfold fl_eqb; cbn [fm fe]. rewrite andb_true_iff, !Z.eqb_eq.
  split; [intros [-> ->]; reflexivity | intros H; inversion H; auto].
Qed.

Inductive byte_order := LittleEndian | BigEndian.
Definition bo_eqb (a b : byte_order) : bool :=
  match a, b with LittleEndian, LittleEndian | BigEndian, BigEndian => true | _, _ => false end.

(* dbc.Signal *)
Record dsignal := mkdsignal {
  ds_name : string;
  ds_muxor : bool;              (* IsMultiplexor *)
  ds_muxed : bool;              (* IsMultiplexed *)
  ds_switch : Z;                (* MuxSwitchValue *)
  ds_size : Z;
  ds_start : Z;                 (* DBC start bit (Intel: lsb, Motorola: msb, sawtooth) *)
  ds_order : byte_order;
  ds_signed : bool;
  ds_factor : fl; ds_offset : fl; ds_min : fl; ds_max : fl;
  ds_unit : string;
  ds_receivers : list string }.

(* dbc.Message *)
Record dmessage := mkdmessage {
  dm_id : Z; dm_name : string; dm_size : Z; dm_tx : string; dm_signals : list dsignal }.

(* dbc.ValueTable / dbc.ValueEncoding; a value description is (ID, Name) *)
Record dvaltable := mkdvaltable { vt_name : string; vt_values : list (Z * string) }.
Record dvalenc := mkdvalenc {
  ve_signal : bool;             (* Kind == ValueEncodingSignal *)
  ve_msg : Z; ve_sig : string; ve_values : list (Z * string) }.

(* dbc.CommentKind / dbc.AttributeKind share the numbering General/Node/Message/Signal/EnvVar *)
Inductive okind := OGeneral | ONode | OMessage | OSignal | OEnvVar.
Record dcomment := mkdcomment {
  cm_kind : okind; cm_text : string; cm_node : string; cm_msg : Z; cm_sig : string }.

Inductive atype := AInt | AFloat | AString | AEnum | AHex.          (* dbc.AttributeType *)
Record dattr := mkdattr {
  at_kind : okind; at_type : atype; at_name : string;
  at_min_int : Z; at_max_int : Z; at_min_hex : Z; at_max_hex : Z;
  at_min_fl : fl; at_max_fl : fl; at_enum : list string }.

Inductive vtype := VInt | VString | VFloat | VHex.    (* AttributeDefaultType / AttributeValueType *)
Record dattrdef := mkdattrdef {
  ad_type : vtype; ad_name : string; ad_str : string; ad_int : Z; ad_hex : Z; ad_fl : fl }.
Record dattrval := mkdattrval {
  av_kind : okind; av_type : vtype; av_name : string;
  av_node : string; av_msg : Z; av_sig : string;
  av_str : string; av_int : Z; av_hex : Z; av_fl : fl }.

(* dbc.ExtendedMux (SG_MUL_VAL_) *)
Record dextmux := mkdextmux {
  em_msg : Z; em_muxor : string; em_muxed : string; em_ranges : list (Z * Z) }.

(* dbc.File, restricted to the sections import/export use *)
Record doc := mkdoc {
  d_filename : string;
  d_nodes : list string;            (* Nodes.Names *)
  d_valtables : list dvaltable;
  d_messages : list dmessage;
  d_comments : list dcomment;
  d_attrs : list dattr;
  d_attrdefs : list dattrdef;
  d_attrvals : list dattrval;
  d_valencs : list dvalenc;
  d_extmuxes : list dextmux }.

Definition dummy_node : string := "Vector__XXX".

(* ---- string helpers shared by Import / Export ---- *)
Definition is_space (c : ascii) : bool :=
  let n := nat_of_ascii c in
  (Nat.eqb n 32 || Nat.eqb n 9 || Nat.eqb n 10 || Nat.eqb n 11 || Nat.eqb n 12 || Nat.eqb n 13)%bool.

Fixpoint trim_left (s : string) : string :=
  match s with
  | EmptyString => EmptyString
  | String c r => if is_space c then trim_left r else s
  end.
Fixpoint all_space (s : string) : bool :=
  match s with EmptyString => true | String c r => is_space c && all_space r end.
Fixpoint trim_right (s : string) : string :=
  match s with
  | EmptyString => EmptyString
  | String c r => if all_space s then EmptyString else String c (trim_right r)
  end.
Fixpoint spaces_to_underscore (s : string) : string :=
  match s with
  | EmptyString => EmptyString
  | String c r => String (if Nat.eqb (nat_of_ascii c) 32 then "_"%char else c) (spaces_to_underscore r)
  end.
(* helpers.go clearSpaces: strings.ReplaceAll(strings.TrimSpace(s), " ", "_")   (ASCII names) *)
Definition clear_spaces (s : string) : string := spaces_to_underscore (trim_right (trim_left s)).

Definition str_ltb (a b : string) : bool :=
  match String.compare a b with Lt => true | _ => false end.
