(* C11 — executable model of /repo/exporter.go: `export : bus -> doc`, and `text_roundtrip`, the
   modelled effect on the AST of dbc.Write followed by dbc.Parse (hex numbers disabled) for the
   sections the exporter emits (C08 owns that pair; here it is an assumption validated by the
   correspondence run, which goes through the real text). *)
From Coq Require Import String Ascii ZArith List Bool.
From Acme.C10 Require Import DbcDoc BusModel Import.
Import ListNotations.
Open Scope Z_scope.

Definition u32 (z : Z) : Z := z mod 2 ^ 32.

(* the exporter's accumulators: the dbc.File being assembled, the de-duplication maps, the enums *)
Record eacc := mkeacc {
  ea_comments : list dcomment;
  ea_attrs : list dattr;
  ea_attrdefs : list dattrdef;
  ea_attrvals : list dattrval;
  ea_valencs : list dvalenc;
  ea_extmuxes : list dextmux;
  ea_messages : list dmessage;
  ea_sigs : list dsignal;                 (* currDBCMsg.Signals *)
  ea_names : list (okind * string);       (* attNames / nodeAttNames / msgAttNames / sigAttNames *)
  ea_enums : list Z }.                    (* sigEnums, in order of first use *)

Definition okind_eqb (a b : okind) : bool :=
  match a, b with
  | OGeneral, OGeneral | ONode, ONode | OMessage, OMessage | OSignal, OSignal | OEnvVar, OEnvVar => true
  | _, _ => false
  end.

Definition zero_attr (k : okind) (t : atype) (name : string) : dattr :=
  mkdattr k t name 0 0 0 0 fl_zero fl_zero [].
Definition zero_def (t : vtype) (name : string) : dattrdef := mkdattrdef t name EmptyString 0 0 fl_zero.

(* exportAttribute: definition + default *)
Definition export_attribute (k : okind) (name : string) (d : attr_def) : dattr * dattrdef :=
  match d with
  | DefString dv => (zero_attr k AString name, mkdattrdef VString name dv 0 0 fl_zero)
  | DefInt dv mn mx true =>
      (mkdattr k AHex name 0 0 (u32 mn) (u32 mx) fl_zero fl_zero [],
       mkdattrdef VHex name EmptyString 0 (u32 dv) fl_zero)
  | DefInt dv mn mx false =>
      (mkdattr k AInt name mn mx 0 0 fl_zero fl_zero [], mkdattrdef VInt name EmptyString dv 0 fl_zero)
  | DefFloat dv mn mx =>
      (mkdattr k AFloat name 0 0 0 0 mn mx [],
       mkdattrdef VFloat name EmptyString 0 0 dv)
  | DefEnum dv vals =>
      (mkdattr k AEnum name 0 0 0 0 fl_zero fl_zero vals, mkdattrdef VString name dv 0 0 fl_zero)
  end.

(* exportAttributeAssignment *)
Definition export_assignment (k : okind) (node : string) (msg : Z) (sig : string)
           (a : attr_asg) (acc : eacc) : eacc :=
  let name := clear_spaces (aa_name a) in
  let seen := existsb (fun p => okind_eqb (fst p) k && String.eqb (snd p) name) (ea_names acc) in
  let '(da, dd) := export_attribute k name (aa_def a) in
  let av0 := mkdattrval k VInt name node msg sig EmptyString 0 0 fl_zero in
  let av :=
    match aa_def a, aa_val a with
    | DefString _, ValString s => mkdattrval k VString name node msg sig s 0 0 fl_zero
    | DefInt _ _ _ true, ValInt z => mkdattrval k VHex name node msg sig EmptyString 0 (u32 z) fl_zero
    | DefInt _ _ _ false, ValInt z => mkdattrval k VInt name node msg sig EmptyString z 0 fl_zero
    | DefFloat _ _ _, ValFloat f => mkdattrval k VFloat name node msg sig EmptyString 0 0 f
    | DefEnum _ vals, ValString s => mkdattrval k VInt name node msg sig EmptyString (index_of s vals 0) 0 fl_zero
    | _, _ => av0      (* a Go type assertion would panic: excluded by well-formedness *)
    end in
  mkeacc (ea_comments acc)
         (if seen then ea_attrs acc else ea_attrs acc ++ [da])
         (if seen then ea_attrdefs acc else ea_attrdefs acc ++ [dd])
         (ea_attrvals acc ++ [av]) (ea_valencs acc) (ea_extmuxes acc) (ea_messages acc) (ea_sigs acc)
         (if seen then ea_names acc else ea_names acc ++ [(k, name)]) (ea_enums acc).

Definition add_comment (c : dcomment) (acc : eacc) : eacc :=
  mkeacc (ea_comments acc ++ [c]) (ea_attrs acc) (ea_attrdefs acc) (ea_attrvals acc) (ea_valencs acc)
         (ea_extmuxes acc) (ea_messages acc) (ea_sigs acc) (ea_names acc) (ea_enums acc).
Definition add_sig (s : dsignal) (acc : eacc) : eacc :=
  mkeacc (ea_comments acc) (ea_attrs acc) (ea_attrdefs acc) (ea_attrvals acc) (ea_valencs acc)
         (ea_extmuxes acc) (ea_messages acc) (ea_sigs acc ++ [s]) (ea_names acc) (ea_enums acc).
Definition set_sigs (l : list dsignal) (acc : eacc) : eacc :=
  mkeacc (ea_comments acc) (ea_attrs acc) (ea_attrdefs acc) (ea_attrvals acc) (ea_valencs acc)
         (ea_extmuxes acc) (ea_messages acc) l (ea_names acc) (ea_enums acc).
Definition add_valenc (v : dvalenc) (e : Z) (acc : eacc) : eacc :=
  mkeacc (ea_comments acc) (ea_attrs acc) (ea_attrdefs acc) (ea_attrvals acc) (ea_valencs acc ++ [v])
         (ea_extmuxes acc) (ea_messages acc) (ea_sigs acc) (ea_names acc)
         (if mem_z e (ea_enums acc) then ea_enums acc else ea_enums acc ++ [e]).
Definition add_extmux (x : dextmux) (acc : eacc) : eacc :=
  mkeacc (ea_comments acc) (ea_attrs acc) (ea_attrdefs acc) (ea_attrvals acc) (ea_valencs acc)
         (ea_extmuxes acc ++ [x]) (ea_messages acc) (ea_sigs acc) (ea_names acc) (ea_enums acc).
Definition add_message (m : dmessage) (acc : eacc) : eacc :=
  mkeacc (ea_comments acc) (ea_attrs acc) (ea_attrdefs acc) (ea_attrvals acc) (ea_valencs acc)
         (ea_extmuxes acc) (ea_messages acc ++ [m]) [] (ea_names acc) (ea_enums acc).

Definition sort_attrs (l : list attr_asg) : list attr_asg :=
  sort_by (fun a b => str_ltb (aa_name a) (aa_name b)) l.

(* the well-known attributes of special_attributes.go *)
Definition msg_cycle_att : attr_def := DefInt 0 0 3600000 false.
Definition msg_delay_att : attr_def := DefInt 0 0 1000 false.
Definition msg_start_delay_att : attr_def := DefInt 0 0 100000 false.
Definition msg_send_att : attr_def := DefEnum "NoMsgSendType" msg_send_types.
Definition sig_start_att : attr_def := DefFloat fl_zero fl_zero (fl_of_Z 10000).
Definition sig_send_att : attr_def := DefEnum "NoSigSendType" sig_send_types.

(* exporter.getStartBit *)
Definition dbc_start_bit (start : Z) (o : byte_order) : Z :=
  match o with
  | LittleEndian => u32 start
  | BigEndian => u32 (start + 7 - 2 * (start mod 8))
  end.

Definition set_switch (v : Z) (ds : dsignal) : dsignal :=
  mkdsignal (ds_name ds) (ds_muxor ds) (ds_muxed ds) v (ds_size ds) (ds_start ds) (ds_order ds)
            (ds_signed ds) (ds_factor ds) (ds_offset ds) (ds_min ds) (ds_max ds) (ds_unit ds) (ds_receivers ds).
Fixpoint set_last_switch (v : Z) (l : list dsignal) : list dsignal :=
  match l with
  | [] => []
  | [x] => [set_switch v x]
  | x :: r => x :: set_last_switch v r
  end.

(* SG_MUL_VAL_ ranges of an ascending id list (the loop at the end of exportMultiplexerSignal) *)
Fixpoint ranges_aux (from prev : Z) (l : list Z) : list (Z * Z) :=
  match l with
  | [] => [(u32 from, u32 prev)]
  | x :: r => if x =? prev + 1 then ranges_aux from x r else (u32 from, u32 prev) :: ranges_aux x x r
  end.
Definition ranges_of (l : list Z) : list (Z * Z) :=
  match l with [] => [] | x :: r => ranges_aux x x r end.

Section ExportSignals.
  Variable es : list enum_def.
  Variable sigs : list signal.            (* every signal of the message *)
  Variable order : byte_order.
  Variable msgid : Z.
  Variable receivers : list string.       (* dbcSig.Receivers, already sanitised *)
  Variable many_muxes : bool.             (* currMsgMuxCount > 1 *)

  Definition children (p : signal) : list signal :=
    sort_by (fun a b => s_rel a <? s_rel b)
            (filter (fun c => match s_parent c with Some q => q =? s_id p | None => false end) sigs).

  (* exportSignal / exportStandardSignal / exportEnumSignal / exportMultiplexerSignal *)
  Fixpoint export_signal (fuel : nat) (s : signal) (acc : eacc) : eacc :=
    let name := clear_spaces (s_name s) in
    let acc := if String.eqb (s_desc s) EmptyString then acc
               else add_comment (mkdcomment OSignal (s_desc s) EmptyString msgid name) acc in
    let asgs := sort_attrs (s_attrs s)
                ++ (if fl_is_zero (s_startval s) then [] else [mkasg "GenSigStartValue" sig_start_att (ValFloat (s_startval s))])
                ++ (if s_sendtype s =? 0 then [] else
                      [mkasg "GenSigSendType" sig_send_att (ValString (nth (Z.to_nat (s_sendtype s)) sig_send_types "NoSigSendType"%string))]) in
    let acc := fold_left (fun a x => export_assignment OSignal EmptyString msgid name x a) asgs acc in
    let muxed := match s_parent s with Some _ => true | None => false end in
    let start := dbc_start_bit (abs_start (length sigs) sigs s) order in
    match s_kind s with
    | KStandard =>
        add_sig (mkdsignal name false muxed 0 (u32 (s_size s)) start order (s_signed s)
                           (s_scale s) (s_offset s) (s_min s) (s_max s) (s_unit s) receivers) acc
    | KEnum =>
        let e := nth_enum es (s_enum s) in
        let acc := add_sig (mkdsignal name false muxed 0 (u32 (enum_size e)) start order false
                                      fl_one fl_zero fl_zero (fl_of_Z (en_maxindex e)) EmptyString receivers) acc in
        add_valenc (mkdvalenc true msgid name (map (fun p => (u32 (fst p), snd p)) (sorted_enum_values e)))
                   (s_enum s) acc
    | KMux =>
        let acc := add_sig (mkdsignal name true muxed 0 (u32 (sel_width s)) start order false
                                      fl_one fl_zero fl_zero (fl_of_Z (s_gcount s - 1)) EmptyString receivers) acc in
        match fuel with
        | O => acc
        | S k =>
            let kids := children s in
            (* walk the groups in id order; the first visit exports the child *)
            let '(acc, names, gmap, nested, extended) :=
              fold_left (fun st id =>
                fold_left (fun st c =>
                  let '(acc, names, gmap, nested, extended) := st in
                  if negb (in_group c id) then st else
                  let cn := clear_spaces (s_name c) in
                  let nested := nested || match s_kind c with KMux => true | _ => false end in
                  match lookup String.eqb cn gmap with
                  | None =>
                      let acc := export_signal k c acc in
                      (set_sigs (set_last_switch (u32 id) (ea_sigs acc)) acc,
                       names ++ [cn], (cn, [id]) :: gmap, nested, extended)
                  | Some g => (acc, names, (cn, g ++ [id]) :: gmap, nested, true)
                  end) kids st)
              (zrange 0 (Z.to_nat (s_gcount s))) (acc, [], [], muxed || many_muxes, false) in
            if negb extended && negb nested then acc else
            fold_left (fun acc cn =>
              let g := match lookup String.eqb cn gmap with Some g => g | None => [] end in
              if negb nested && Nat.eqb (length g) 1 then acc
              else add_extmux (mkdextmux msgid name cn (ranges_of g)) acc) names acc
        end
    end.
End ExportSignals.

(* exportMessage *)
Definition export_message (es : list enum_def) (m : message) (acc : eacc) : eacc :=
  let msgid := u32 (m_canid m) in
  let acc := if String.eqb (m_desc m) EmptyString then acc
             else add_comment (mkdcomment OMessage (m_desc m) EmptyString msgid EmptyString) acc in
  let asgs := sort_attrs (m_attrs m)
              ++ (if m_cycle m =? 0 then [] else [mkasg "GenMsgCycleTime" msg_cycle_att (ValInt (m_cycle m))])
              ++ (if m_delay m =? 0 then [] else [mkasg "GenMsgDelayTime" msg_delay_att (ValInt (m_delay m))])
              ++ (if m_startdelay m =? 0 then [] else [mkasg "GenMsgStartDelayTime" msg_start_delay_att (ValInt (m_startdelay m))])
              ++ (if m_sendtype m =? 0 then [] else
                    [mkasg "GenMsgSendType" msg_send_att (ValString (nth (Z.to_nat (m_sendtype m)) msg_send_types "NoMsgSendType"%string))]) in
  let acc := fold_left (fun a x => export_assignment OMessage EmptyString msgid EmptyString x a) asgs acc in
  let recs := match m_receivers m with
              | [] => [dummy_node]
              | l => map clear_spaces (sort_by str_ltb l)
              end in
  let tops := sort_by (fun a b => s_rel a <? s_rel b)
                      (filter (fun s => match s_parent s with None => true | _ => false end) (m_signals m)) in
  let many := Nat.ltb 1 (length (filter (fun s => match s_kind s with KMux => true | _ => false end) tops)) in
  let acc := fold_left (fun a s => export_signal es (m_signals m) (m_order m) msgid recs many (length (m_signals m)) s a)
                       tops (set_sigs [] acc) in
  add_message (mkdmessage msgid (clear_spaces (m_name m)) (u32 (m_size m)) (clear_spaces (m_sender m)) (ea_sigs acc)) acc.

(* exportNodeInterfaces + exportBus *)
Definition export (b : bus) : doc :=
  let acc0 := mkeacc [] [] [] [] [] [] [] [] [] [] in
  let acc1 := if String.eqb (b_desc b) EmptyString then acc0
              else add_comment (mkdcomment OGeneral (b_desc b) EmptyString 0 EmptyString) acc0 in
  let acc2 := fold_left (fun a x => export_assignment OGeneral EmptyString 0 EmptyString x a)
                        (sort_attrs (b_attrs b)) acc1 in
  let acc3 := fold_left (fun a n =>
                let name := clear_spaces (n_name n) in
                let a := if String.eqb (n_desc n) EmptyString then a
                         else add_comment (mkdcomment ONode (n_desc n) name 0 EmptyString) a in
                let a := fold_left (fun a x => export_assignment ONode name 0 EmptyString x a)
                                   (sort_attrs (n_attrs n)) a in
                fold_left (fun a m => export_message (b_enums b) m a)
                          (filter (fun m => String.eqb (m_sender m) (n_name n)) (b_messages b)) a)
              (b_nodes b) acc2 in
  mkdoc (b_name b) (map (fun n => clear_spaces (n_name n)) (b_nodes b))
        (map (fun i => let e := nth_enum (b_enums b) i in
                       mkdvaltable (clear_spaces (en_name e)) (map (fun p => (u32 (fst p), snd p)) (sorted_enum_values e)))
             (ea_enums acc3))
        (ea_messages acc3) (ea_comments acc3) (ea_attrs acc3) (ea_attrdefs acc3) (ea_attrvals acc3)
        (ea_valencs acc3) (ea_extmuxes acc3).

(* ------------------------------------------------------------------------------------------
   dbc.Write followed by dbc.Parse, as seen on the AST (hex numbers disabled):
   * a number token without '.' is read back as an INT value whatever its section meant
     (a float that is an integer is printed without '.', a hex value is printed in decimal);
   * the slots not selected by the token kind are zero;
   * everything else the exporter emits is read back unchanged (assumed; C08's subject).
   ------------------------------------------------------------------------------------------ *)
(* the integer a float token denotes when it is integral *)
Definition fl_to_Z (f : fl) : Z := fm f * 2 ^ (fe f).

Definition reparse_def (d : dattrdef) : dattrdef :=
  match ad_type d with
  | VString => mkdattrdef VString (ad_name d) (ad_str d) 0 0 fl_zero
  | VInt => mkdattrdef VInt (ad_name d) EmptyString (ad_int d) 0 fl_zero
  | VHex => mkdattrdef VInt (ad_name d) EmptyString (ad_hex d) 0 fl_zero
  | VFloat => if fl_is_decimal (ad_fl d) then mkdattrdef VFloat (ad_name d) EmptyString 0 0 (ad_fl d)
              else mkdattrdef VInt (ad_name d) EmptyString (fl_to_Z (ad_fl d)) 0 fl_zero
  end.
Definition reparse_val (v : dattrval) : dattrval :=
  let mk t s i f := mkdattrval (av_kind v) t (av_name v) (av_node v) (av_msg v) (av_sig v) s i 0 f in
  match av_type v with
  | VString => mk VString (av_str v) 0 fl_zero
  | VInt => mk VInt EmptyString (av_int v) fl_zero
  | VHex => mk VInt EmptyString (av_hex v) fl_zero
  | VFloat => if fl_is_decimal (av_fl v) then mk VFloat EmptyString 0 (av_fl v)
              else mk VInt EmptyString (fl_to_Z (av_fl v)) fl_zero
  end.
Definition text_roundtrip (d : doc) : doc :=
  mkdoc (d_filename d) (d_nodes d) (d_valtables d) (d_messages d) (d_comments d) (d_attrs d)
        (map reparse_def (d_attrdefs d)) (map reparse_val (d_attrvals d)) (d_valencs d) (d_extmuxes d).

Definition export_import (b : bus) : result bus := import (text_roundtrip (export b)).
