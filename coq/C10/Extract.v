(* Extraction of the executable C10/C11 model for the correspondence checks.
   ExtrOcamlBasic + ExtrOcamlString only: Z / positive stay inductive. *)
From Coq Require Import Extraction ExtrOcamlBasic ExtrOcamlString ZArith List String.
From Acme.C10 Require Import DbcDoc BusModel Import Export Bits Tok.
Extraction Language OCaml.
Extraction "extracted/c10_model.ml" run_import run_export_import run_proj.
