(* C10 — executable model of /repo/importer.go: `import : doc -> result bus`.
   One definition per Go function, same order of decisions.  Go maps written with `m[k] = v` are
   association lists with the newest binding first (`lookup` returns the newest).  Keys built with
   fmt.Sprintf("%d_%s", id, name) are pairs (the format is injective: the first '_' ends the digits).
   Layout checks (SignalLayout.verifyBeforeInsert, MultiplexerSignal.InsertSignal) are written over
   the flat signal list of BusModel.v: a group layout holds the children of one multiplexer that
   are members of that group. *)
From Coq Require Import String Ascii ZArith List Bool.
From Acme.C10 Require Import DbcDoc BusModel.
Import ListNotations.
Open Scope Z_scope.

Definition key := (Z * string)%type.
Definition key_eqb (a b : key) : bool := (fst a =? fst b) && String.eqb (snd a) (snd b).

Fixpoint lookup {A K} (eqb : K -> K -> bool) (k : K) (l : list (K * A)) : option A :=
  match l with
  | [] => None
  | (k', v) :: r => if eqb k k' then Some v else lookup eqb k r
  end.
Definition mem_str (s : string) (l : list string) : bool := existsb (String.eqb s) l.
Definition mem_z (z : Z) (l : list Z) : bool := existsb (Z.eqb z) l.

Fixpoint dedup_str (seen : list string) (l : list string) : list string :=
  match l with
  | [] => []
  | x :: r => if mem_str x seen then dedup_str seen r else x :: dedup_str (x :: seen) r
  end.

(* MultiplexerSignal.InsertSignal drops duplicated group ids (first occurrence kept) *)
Fixpoint dedup_z (seen : list Z) (l : list Z) : list Z :=
  match l with
  | [] => []
  | x :: r => if mem_z x seen then dedup_z seen r else x :: dedup_z (x :: seen) r
  end.

Fixpoint replace_nth {A} (n : nat) (x : A) (l : list A) : list A :=
  match l, n with
  | [], _ => []
  | _ :: r, O => x :: r
  | y :: r, S k => y :: replace_nth k x r
  end.

(* ------------------------------------------------------------------------------------------ *)
(* importer environment (maps filled before the messages are read, read-only afterwards) and    *)
(* importer state (what importing a signal can change)                                          *)
(* ------------------------------------------------------------------------------------------ *)
Record ienv := mkienv {
  ie_node_desc : list (string * string);
  ie_msg_desc : list (Z * string);
  ie_sig_desc : list (key * string);
  ie_sig_enums : list (key * Z);            (* signalEnums: key -> index into is_enums *)
  ie_ext_muxes : list (key * dextmux) }.

Record istate := mkistate {
  is_enums : list enum_def;                 (* every SignalEnum object; the registry is a prefix *)
  is_sigmap : list (key * (nat * Z));       (* signals: key -> (message position, signal id) *)
  is_enum_refs : list Z }.                  (* one entry per NewEnumSignal: the enum it references *)

(* importComments: bus description and the three comment maps *)
Definition import_comments (cs : list dcomment)
  : string * (list (string * string) * list (Z * string) * list (key * string)) :=
  fold_left (fun '(bdesc, (nd, md, sd)) c =>
    match cm_kind c with
    | OGeneral => (cm_text c, (nd, md, sd))
    | ONode => (bdesc, ((cm_node c, cm_text c) :: nd, md, sd))
    | OMessage => (bdesc, (nd, (cm_msg c, cm_text c) :: md, sd))
    | OSignal => (bdesc, (nd, md, ((cm_msg c, cm_sig c), cm_text c) :: sd))
    | OEnvVar => (bdesc, (nd, md, sd))
    end) cs (EmptyString, ([], [], [])).

Definition set_enums (st : istate) (es : list enum_def) : istate :=
  mkistate es (is_sigmap st) (is_enum_refs st).
Definition set_sigmap (st : istate) (sm : list (key * (nat * Z))) : istate :=
  mkistate (is_enums st) sm (is_enum_refs st).
Definition add_enum_ref (st : istate) (e : Z) : istate :=
  mkistate (is_enums st) (is_sigmap st) (e :: is_enum_refs st).

(* NewSignalEnum + AddValue for each value (index unique, then name unique; maxIndex updated) *)
Fixpoint enum_add_values (e : enum_def) (vs : list (Z * string)) : result enum_def :=
  match vs with
  | [] => Ok e
  | (idx, nm) :: r =>
      if mem_z idx (map fst (en_values e)) then Err "enum value index duplicated"
      else if mem_str nm (map snd (en_values e)) then Err "enum value name duplicated"
      else enum_add_values
             (mkenum (en_name e) (en_values e ++ [(idx, nm)])
                     (if idx >? en_maxindex e then idx else en_maxindex e) (en_minsize e)) r
  end.
Definition new_enum (name : string) (vs : list (Z * string)) : result enum_def :=
  enum_add_values (mkenum name [] 0 1) vs.

(* importValueTable: the registry *)
Definition import_value_table (reg : list enum_def) (vt : dvaltable) : result (list enum_def) :=
  do e <- new_enum (vt_name vt) (vt_values vt);
  Ok (reg ++ [e]).

(* the registry-matching loop of importValueEncoding: same length and, position by position in
   index order, same name and index; an empty list never matches *)
Fixpoint same_values (a b : list (Z * string)) : bool :=
  match a, b with
  | [], [] => true
  | (i, n) :: ra, (j, m) :: rb => (i =? j) && String.eqb n m && same_values ra rb
  | _, _ => false
  end.
Fixpoint find_in_registry (vals : list (Z * string)) (reg : list enum_def) (pos : Z) : option Z :=
  match reg with
  | [] => None
  | e :: r =>
      if negb (Nat.eqb (length vals) O)
         && Nat.eqb (length vals) (length (en_values e))
         && same_values (sorted_enum_values e) vals
      then Some pos else find_in_registry vals r (pos + 1)
  end.

(* importValueEncoding: (all enums, signalEnums); the first `nreg` enums are the registry *)
Definition import_value_encoding (nreg : nat) (acc : list enum_def * list (key * Z)) (ve : dvalenc)
  : result (list enum_def * list (key * Z)) :=
  let '(es, se) := acc in
  if negb (ve_signal ve) then Ok acc else
  let values := sort_by (fun a b => fst a <? fst b) (ve_values ve) in
  let k := (ve_msg ve, ve_sig ve) in
  match find_in_registry values (firstn nreg es) 0 with
  | Some i => Ok (es, (k, i) :: se)
  | None =>
      do e <- new_enum (String.append (ve_sig ve) "_Enum") values;
      Ok (es ++ [e], (k, Z.of_nat (length es)) :: se)
  end.

(* importExtMuxes *)
Definition import_ext_muxes (l : list dextmux) : list (key * dextmux) :=
  fold_left (fun acc em => ((em_msg em, em_muxed em), em) :: acc) l [].

(* importNodes: ids by position, dummy names skipped, placeholder node (id 1024) added last *)
Fixpoint import_nodes_aux (descs : list (string * string)) (names : list string) (idx : Z)
         (acc : list node) : result (list node) :=
  match names with
  | [] => Ok acc
  | nm :: r =>
      if String.eqb nm dummy_node then import_nodes_aux descs r (idx + 1) acc
      else if mem_str nm (map n_name acc) then Err "node name duplicated"
      else if mem_z idx (map n_id acc) then Err "node id duplicated"
      else
        let d := match lookup String.eqb nm descs with Some d => d | None => EmptyString end in
        import_nodes_aux descs r (idx + 1) (acc ++ [mknode nm idx d []])
  end.
Definition import_nodes (descs : list (string * string)) (names : list string) : result (list node) :=
  do ns <- import_nodes_aux descs names 0 [];
  if mem_z 1024 (map n_id ns) then Err "node id duplicated"
  else Ok (ns ++ [mknode dummy_node 1024 EmptyString []]).

(* ------------------------------------------------------------------------------------------ *)
(* signals                                                                                     *)
(* ------------------------------------------------------------------------------------------ *)

(* importer.getSignalStartBit *)
Definition get_start_bit (ds : dsignal) : Z :=
  match ds_order ds with
  | LittleEndian => ds_start ds
  | BigEndian => ds_start ds + 7 - 2 * (ds_start ds mod 8)
  end.

Definition blank_signal (id : Z) (name : string) (k : skind) : signal :=
  mksignal id name k 0 None [] 0 false fl_one fl_zero fl_zero fl_zero EmptyString 0 0 0
           EmptyString fl_zero 0 [].

Definition set_desc (s : signal) (d : string) : signal :=
  mksignal (s_id s) (s_name s) (s_kind s) (s_rel s) (s_parent s) (s_groups s) (s_size s) (s_signed s)
           (s_scale s) (s_offset s) (s_min s) (s_max s) (s_unit s) (s_enum s) (s_gcount s) (s_gsize s)
           d (s_startval s) (s_sendtype s) (s_attrs s).
Definition place (s : signal) (rel : Z) (parent : option Z) (groups : list Z) : signal :=
  mksignal (s_id s) (s_name s) (s_kind s) rel parent groups (s_size s) (s_signed s)
           (s_scale s) (s_offset s) (s_min s) (s_max s) (s_unit s) (s_enum s) (s_gcount s) (s_gsize s)
           (s_desc s) (s_startval s) (s_sendtype s) (s_attrs s).

(* a detached signal with everything below it *)
Definition subtree := (signal * list signal)%type.

(* importSignalType + NewStandardSignal + unit.  The flag type is used exactly when the file's
   factor, offset and range are the flag's (1, 0, [0,1]), so it carries the file's values too. *)
Definition import_standard (id : Z) (ds : dsignal) : result signal :=
  if ds_size ds <=? 0 then Err "signal size is zero"
  else
    Ok (mksignal id (ds_name ds) KStandard 0 None [] (ds_size ds) (ds_signed ds)
                 (ds_factor ds) (ds_offset ds) (ds_min ds) (ds_max ds)
                 (ds_unit ds) 0 0 0 EmptyString fl_zero 0 []).

(* importSignal: returns the signal and the state (enum min size, signals map) *)
(* the enum object of an enum signal (importSignal): the enum the VAL_ line resolved to, or a
   clone of it when it is already referenced by a signal of another size; SetMinSize when the file's
   size is larger; refused when the values do not fit.  Returns the index used and the new table. *)
Definition enum_for_signal (es : list enum_def) (refs : list Z) (ei0 size : Z) : result (Z * list enum_def) :=
  let e0 := nth_enum es ei0 in
  let shared := mem_z ei0 refs && negb (enum_size e0 =? size) in
  let ei := if shared then Z.of_nat (length es) else ei0 in
  let es0 := if shared then es ++ [mkenum (en_name e0) (en_values e0) (en_maxindex e0) 1] else es in
  let e := nth_enum es0 ei in
  let es1 := if enum_size e <? size
             then replace_nth (Z.to_nat ei) (mkenum (en_name e) (en_values e) (en_maxindex e) size) es0
             else es0 in
  if enum_size (nth_enum es1 ei) >? size then Err "value description does not fit in the signal"
  else Ok (ei, es1).

Definition import_signal (env : ienv) (st : istate) (mpos : nat) (msgid : Z) (id : Z) (ds : dsignal)
  : result (signal * istate) :=
  let k := (msgid, ds_name ds) in
  do sst <-
    match lookup key_eqb k (ie_sig_enums env) with
    | Some ei0 =>
        do (ei, es1) <- enum_for_signal (is_enums st) (is_enum_refs st) ei0 (ds_size ds);
        Ok (mksignal id (ds_name ds) KEnum 0 None [] 0 false fl_one fl_zero fl_zero fl_zero
                     EmptyString ei 0 0 EmptyString fl_zero 0 [], add_enum_ref (set_enums st es1) ei)
    | None => do s <- import_standard id ds; Ok (s, st)
    end;
  let '(s, st1) := sst in
  let s1 := match lookup key_eqb k (ie_sig_desc env) with Some d => set_desc s d | None => s end in
  Ok (s1, set_sigmap st1 ((k, (mpos, id)) :: is_sigmap st1)).

(* ---- layouts ---- *)
Definition overlaps (a1 a2 b1 b2 : Z) : bool := (a1 <? b2) && (b1 <? a2).

(* is child c (of the multiplexer under consideration) a member of group g *)
Definition in_group (c : signal) (g : Z) : bool :=
  match s_groups c with [] => true | gs => mem_z g gs end.

(* SignalLayout.verifyBeforeInsert on a layout of `lsize` bits holding `members` *)
Definition verify_insert (es : list enum_def) (lsize : Z) (members : list signal)
           (size start : Z) : result unit :=
  if start <? 0 then Err "start bit negative"
  else if size >? lsize then Err "signal size out of bounds"
  else if start + size >? lsize then Err "no space left"
  else if existsb (fun m => overlaps start (start + size) (s_rel m) (s_rel m + sig_size es m)) members
       then Err "start bit intersects"
  else Ok tt.

Definition insert_by_rel (s : signal) (l : list signal) : list signal :=
  insert_sorted (fun a b => s_rel a <? s_rel b) s l.

(* Message.InsertSignal: name against every registered name of the message, layout against the
   top-level signals; a multiplexer brings its descendants along *)
Definition msg_insert (es : list enum_def) (msize : Z) (sigs : list signal) (t : subtree) (start : Z)
  : result (list signal) :=
  let '(s, below) := t in
  if mem_str (s_name s) (map s_name sigs) then Err "signal name duplicated"
  (* Message.verifyNestedSignalNames: the descendants of an incoming multiplexer against the
     message registry and among themselves *)
  else if existsb (fun x => mem_str (s_name x) (map s_name sigs)) below then Err "nested signal name duplicated"
  else if negb (Nat.eqb (length (dedup_str [] (map s_name (s :: below)))) (length (s :: below)))
       then Err "nested signal name duplicated"
  else
    do _ <- verify_insert es (msize * 8) (filter (fun x => match s_parent x with None => true | _ => false end) sigs)
                          (sig_size es s) start;
    Ok (sigs ++ [place s start None []] ++ below).

(* MultiplexerSignal.InsertSignal on a detached multiplexer `mx` whose direct children are `kids` *)
Definition mux_insert (es : list enum_def) (mx : signal) (kids : list signal) (c : signal)
           (rel : Z) (group_ids : list Z) : result signal :=
  if mem_str (s_name c) (map s_name kids) then Err "signal name duplicated"
  else
    let size := sig_size es c in
    match group_ids with
    | [] =>
        do _ <- verify_insert es (s_gsize mx) kids size rel;
        Ok (place c rel (Some (s_id mx)) [])
    | _ =>
        let gids := dedup_z [] group_ids in
        do _ <- fold_left (fun acc g =>
                  do _ <- acc;
                  if (g <? 0) || (g >=? s_gcount mx) then Err "group id out of bounds"
                  else verify_insert es (s_gsize mx) (filter (fun k => in_group k g) kids) size rel)
                gids (Ok tt);
        Ok (place c rel (Some (s_id mx)) (sort_by Z.ltb gids))
    end.

(* the range loop of importMuxSignal: ids from..to; an inverted range and an id >= groupCount are refused *)
Fixpoint expand_ranges (gcount : Z) (rs : list (Z * Z)) : result (list Z) :=
  match rs with
  | [] => Ok []
  | (from, to) :: r =>
      if from >? to then Err "inverted range"
      else if to >=? gcount then Err "group id out of bounds"
      else do rest <- expand_ranges gcount r; Ok (zrange from (Z.to_nat (to - from + 1)) ++ rest)
  end.

(* the group ids a multiplexed signal is inserted with (importMuxSignal): the SG_MUL_VAL_ ranges
   when the extended section lists the signal (all groups = fixed), else its switch value, else fixed *)
Definition child_groups (env : ienv) (msgid gcount : Z) (s : signal) (ds : dsignal) : result (list Z) :=
  match lookup key_eqb (msgid, s_name s) (ie_ext_muxes env) with
  | Some em =>
      do g0 <- expand_ranges gcount (em_ranges em);
      let g := dedup_z [] g0 in      (* overlapping ranges name a group once *)
      Ok (if Z.of_nat (length g) =? gcount then [] else g)
  | None => Ok (if ds_muxed ds then [ds_switch ds] else [])
  end.

(* the insertion loop of importMuxSignal: direct children and everything below them *)
Definition mux_children (env : ienv) (es : list enum_def) (msgid : Z) (mx : signal) (mstart msize : Z)
           (muxed : list (subtree * dsignal)) : result (list signal * list signal) :=
  fold_left (fun acc (p : subtree * dsignal) =>
               do (kids, belows) <- acc;
               let rel := get_start_bit (snd p) - mstart - msize in
               do gids <- child_groups env msgid (s_gcount mx) (fst (fst p)) (snd p);
               do c <- mux_insert es mx kids (fst (fst p)) rel gids;
               Ok (kids ++ [c], belows ++ snd (fst p)))
            muxed (Ok ([], [])).

(* importMuxSignal *)
Definition import_mux_signal (env : ienv) (st : istate) (mpos : nat) (msgid : Z) (msize : Z) (id : Z) (dm : dsignal)
           (muxed : list (subtree * dsignal)) : result (subtree * istate) :=
  let es := is_enums st in
  (* a multiplexed signal that ends beyond the message is refused before the groups are sized *)
  if existsb (fun p : subtree * dsignal => sig_size es (fst (fst p)) + get_start_bit (snd p) >? msize * 8) muxed
  then Err "multiplexed signal ends beyond the message" else
  let end_bit := fold_left (fun acc (p : subtree * dsignal) =>
                   let e := sig_size es (fst (fst p)) + get_start_bit (snd p) in if e >? acc then e else acc) muxed 0 in
  let mstart := get_start_bit dm in
  let msize := ds_size dm in
  (* without multiplexed signals the file does not tell the group size: the smallest one *)
  let gsize := if end_bit >? 0 then end_bit - mstart - msize else 1 in
  let gcount := calc_value_from_size msize in
  if msize =? 0 then Err "multiplexor switch of size zero"
  else if gcount <=? 0 then Err "group count not positive"
  else if gsize <=? 0 then Err "group size not positive"
  else
    let mx := mksignal id (ds_name dm) KMux 0 None [] 0 false fl_one fl_zero fl_zero fl_zero EmptyString
                       0 gcount gsize EmptyString fl_zero 0 [] in
    do kb <- mux_children env es msgid mx mstart msize muxed;
    let k := (msgid, ds_name dm) in
    let mx1 := match lookup key_eqb k (ie_sig_desc env) with Some d => set_desc mx d | None => mx end in
    Ok ((mx1, fst kb ++ snd kb), set_sigmap st ((k, (mpos, id)) :: is_sigmap st)).

(* ---- importMessage ---- *)
Fixpoint index_from {A} (i : Z) (l : list A) : list (Z * A) :=
  match l with [] => [] | x :: r => (i, x) :: index_from (i + 1) r end.

Definition app_nth {A} (n : nat) (x : A) (l : list (list A)) : list (list A) :=
  replace_nth n (nth n l [] ++ [x]) l.

(* state threaded through the signals of one message *)
Definition mstate := (istate * list signal)%type.

Definition import_message_signals (env : ienv) (st : istate) (mpos : nat) (dm : dmessage)
  : result (istate * list signal) :=
  let msgid := dm_id dm in
  let isigs := index_from 0 (sort_by (fun a b => get_start_bit a <? get_start_bit b) (dm_signals dm)) in
  let muxes := filter (fun p => ds_muxor (snd p)) isigs in
  let top_insert (acc : mstate) (t : subtree) (start : Z) : result mstate :=
      let '(st0, sigs) := acc in
      do sigs' <- msg_insert (is_enums st0) (dm_size dm) sigs t start; Ok (st0, sigs') in
  match muxes with
  | [] =>
      (* a multiplexed signal needs a multiplexor switch in its message *)
      if existsb (fun p : Z * dsignal => ds_muxed (snd p)) isigs then Err "multiplexor switch is required" else
      fold_left (fun acc '(id, ds) =>
        do (st0, sigs) <- acc;
        do (s, st1) <- import_signal env st0 mpos msgid id ds;
        top_insert (st1, sigs) (s, []) (get_start_bit ds)) isigs (Ok (st, []))
  | [(mid, dmx)] =>
      (* one multiplexer: multiplexed signals, plus the plain signals lying between the switch and
         the last multiplexed start, become its children; the only switch cannot be multiplexed itself *)
      if ds_muxed dmx then Err "multiplexor switch is required" else
      do r1 <- fold_left (fun acc '(id, ds) =>
                 do (st0, muxed, stds, last) <- acc;
                 if id =? mid then Ok (st0, muxed, stds, last) else
                 do (s, st1) <- import_signal env st0 mpos msgid id ds;
                 let sp := get_start_bit ds in
                 if ds_muxed ds
                 then Ok (st1, muxed ++ [((s, []), ds)], stds, if sp >? last then sp else last)
                 else Ok (st1, muxed, stds ++ [((s, []), ds)], last))
               isigs (Ok (st, [], [], -1));
      let '(st1, muxed, stds, last) := r1 in
      let mstart := get_start_bit dmx in
      do r2 <- fold_left (fun acc '(t, ds) =>
                 do (ms, muxed2) <- acc;
                 let sp := get_start_bit ds in
                 if (sp >? mstart) && (sp <? last) then Ok (ms, muxed2 ++ [(t, ds)])
                 else do ms' <- top_insert ms t sp; Ok (ms', muxed2))
               stds (Ok ((st1, []), muxed));
      let '((st2, sigs), muxed2) := r2 in
      do (mt, st3) <- import_mux_signal env st2 mpos msgid (dm_size dm) mid dmx muxed2;
      top_insert (st3, sigs) mt mstart
  | _ =>
      let nmux := length muxes in
      (* muxSigNames: name -> position in muxSignals, later entries override *)
      let mux_names := fold_left (fun acc '(i, (_, ds)) => (ds_name ds, i) :: acc)
                                 (combine (seq 0 nmux) muxes) [] in
      let mux_idx (nm : string) : option nat := lookup String.eqb nm mux_names in
      do r1 <- fold_left (fun acc '(id, ds) =>
                 do (ms, groups) <- acc;
                 if ds_muxor ds then Ok (ms, groups) else
                 do (s, st1) <- import_signal env (fst ms) mpos msgid id ds;
                 if ds_muxed ds then
                   match lookup key_eqb (msgid, ds_name ds) (ie_ext_muxes env) with
                   | None => Err "extended multiplexing is required"
                   | Some em =>
                       match mux_idx (em_muxor em) with
                       | None => Err "multiplexor not found"
                       | Some mi => Ok ((st1, snd ms), app_nth mi ((s, []), ds) groups)
                       end
                   end
                 else do ms' <- top_insert (st1, snd ms) (s, []) (get_start_bit ds); Ok (ms', groups))
               isigs (Ok ((st, []), repeat [] nmux));
      (* for j := muxSigCount-1 .. 0 *)
      do r2 <- fold_left (fun acc j =>
                 do (ms, groups) <- acc;
                 let '(mid, dmx) := nth j muxes (0, mkdsignal EmptyString false false 0 0 0 LittleEndian false
                                                          fl_one fl_zero fl_zero fl_zero EmptyString []) in
                 do (mt, st1) <- import_mux_signal env (fst ms) mpos msgid (dm_size dm) mid dmx (nth j groups []);
                 match lookup key_eqb (msgid, ds_name dmx) (ie_ext_muxes env) with
                 | None =>
                     (* a multiplexed multiplexor has to name its own multiplexor *)
                     if ds_muxed dmx then Err "extended multiplexing is required" else
                     do ms' <- top_insert (st1, snd ms) mt (get_start_bit dmx); Ok (ms', groups)
                 | Some em =>
                     match mux_idx (em_muxor em) with
                     | None => Err "multiplexor not found"
                     | Some mi =>
                         (* the multiplexor has to be placed before the multiplexer it selects *)
                         if Nat.leb j mi then Err "multiplexor not placed before its multiplexer"
                         else Ok ((st1, snd ms), app_nth mi (mt, dmx) groups)
                     end
                 end)
               (rev (seq 0 nmux)) (Ok r1);
      Ok (fst r2)
  end.

Definition import_message (env : ienv) (acc : istate * list message) (nodes : list node) (dm : dmessage)
  : result (istate * list message) :=
  let '(st, msgs) := acc in
  let mpos := length msgs in
  let desc := match lookup Z.eqb (dm_id dm) (ie_msg_desc env) with Some d => d | None => EmptyString end in
  let sorted := sort_by (fun a b => get_start_bit a <? get_start_bit b) (dm_signals dm) in
  let order := match sorted with [] => LittleEndian | s :: _ => ds_order s end in
  if negb (forallb (fun s => bo_eqb (ds_order s) order) sorted) then Err "byte order differs within the message"
  else
    let recs := filter (fun r => negb (String.eqb r dummy_node))
                       (dedup_str [] (flat_map ds_receivers sorted)) in
    if negb (forallb (fun r => mem_str r (map n_name nodes)) recs) then Err "receiver node not found"
    else if negb (mem_str (dm_tx dm) (map n_name nodes)) then Err "transmitter node not found"
    else if mem_str (dm_name dm) (map m_name (filter (fun m => String.eqb (m_sender m) (dm_tx dm)) msgs))
         then Err "message name duplicated"
    else if dm_size dm >? 8 then Err "message size too big"
    else if mem_z (dm_id dm) (map m_canid msgs) then Err "static CAN-ID duplicated"
    else
      do (st1, sigs) <- import_message_signals env st mpos dm;
      Ok (st1, msgs ++ [mkmessage (dm_id dm) (dm_name dm) (dm_size dm) order 0 0 0 0 (dm_tx dm) recs desc [] sigs]).

(* ------------------------------------------------------------------------------------------ *)
(* attributes                                                                                  *)
(* ------------------------------------------------------------------------------------------ *)
Definition new_int_attr (d mn mx : Z) (hex : bool) : result attr_def :=
  if mn >? mx then Err "min greater than max"
  else if d >? mx then Err "default greater than max"
  else if d <? mn then Err "default lower than min"
  else Ok (DefInt d mn mx hex).
Definition new_float_attr (d mn mx : fl) : result attr_def :=
  if fl_ltb mx mn then Err "min greater than max"
  else if fl_ltb mx d then Err "default greater than max"
  else if fl_ltb d mn then Err "default lower than min"
  else Ok (DefFloat d mn mx).

(* getAttributeDefaultInt / getAttributeDefaultFloat: the number is read from the slot the
   parser filled (integer, hex or decimal token), whatever the type of the attribute *)
Definition default_int (df : dattrdef) : Z :=
  match ad_type df with VHex => ad_hex df | VFloat => fl_trunc (ad_fl df) | _ => ad_int df end.
Definition default_float (df : dattrdef) : fl :=
  match ad_type df with VInt => fl_of_Z (ad_int df) | VHex => fl_of_Z (ad_hex df) | _ => ad_fl df end.

(* one attribute definition (the switch of importAttributes) *)
Definition import_attr_def (a : dattr) (df : dattrdef) : result attr_def :=
  match at_type a with
  | AString => Ok (DefString (ad_str df))
  | AInt => new_int_attr (default_int df) (at_min_int a) (at_max_int a) false
  | AHex => new_int_attr (default_int df) (at_min_hex a) (at_max_hex a) true
  | AFloat => new_float_attr (default_float df) (at_min_fl a) (at_max_fl a)
  | AEnum => match at_enum a with
             | [] => Err "enum attribute without values"
             | v :: _ => Ok (DefEnum v (dedup_str [] (at_enum a)))
             end
  end.

(* withAttributes.addAttributeAssignment: value conforms to the attribute *)
Definition check_value (d : attr_def) (v : attr_val) : bool :=
  match v, d with
  | ValInt z, DefInt _ mn mx _ => (mn <=? z) && (z <=? mx)
  | ValFloat f, DefFloat _ mn mx => fl_leb mn f && fl_leb f mx
  | ValString _, DefString _ => true
  | ValString s, DefEnum _ vals => mem_str s vals
  | _, _ => false
  end.

Fixpoint assign (name : string) (d : attr_def) (v : attr_val) (l : list attr_asg) : list attr_asg :=
  match l with
  | [] => [mkasg name d v]
  | a :: r => if String.eqb (aa_name a) name then mkasg name d v :: r else a :: assign name d v r
  end.
Definition try_assign (name : string) (d : attr_def) (v : attr_val) (l : list attr_asg)
  : result (list attr_asg) :=
  if check_value d v then Ok (assign name d v l) else Err "attribute value does not conform".

(* the value switch of importAttributes *)
Definition attr_value (d : attr_def) (av : dattrval) : result attr_val :=
  match av_type av with
  | VString => Ok (ValString (av_str av))
  | VInt =>
      match d with
      | DefEnum _ vals =>
          if (av_int av <? 0) || (av_int av >=? Z.of_nat (length vals)) then Err "enum value index out of bounds"
          else Ok (ValString (nth (Z.to_nat (av_int av)) vals EmptyString))
      | DefFloat _ _ _ => Ok (ValFloat (fl_of_Z (av_int av)))
      | _ => Ok (ValInt (av_int av))
      end
  | VHex => Ok (ValInt (av_hex av))
  | VFloat => Ok (ValFloat (av_fl av))
  end.

(* special_attributes.go *)
Definition msg_send_types : list string :=
  ["NoMsgSendType"; "Cyclic"; "CyclicIfActive"; "CyclicAndTriggered"; "CyclicIfActiveAndTriggered"]%string.
Definition sig_send_types : list string :=
  ["NoSigSendType"; "Cyclic"; "OnWrite"; "OnWriteWithRepetition"; "OnChange"; "OnChangeWithRepetition";
   "IfActive"; "IfActiveWithRepetition"]%string.
Fixpoint index_of (s : string) (l : list string) (i : Z) : Z :=
  match l with [] => 0 | x :: r => if String.eqb s x then i else index_of s r (i + 1) end.
(* messageSendTypeFromDBC / signalSendTypeFromDBC: position in the table, 0 when absent *)
Definition msg_send_type_from_dbc (s : string) : Z := index_of s msg_send_types 0.
Definition sig_send_type_from_dbc (s : string) : Z := index_of s sig_send_types 0.

Inductive special := SpMsgCycle | SpMsgDelay | SpMsgStartDelay | SpMsgSend | SpSigStart | SpSigSend.
Definition special_of (name : string) : option special :=
  if String.eqb name "GenMsgCycleTime" then Some SpMsgCycle
  else if String.eqb name "GenMsgDelayTime" then Some SpMsgDelay
  else if String.eqb name "GenMsgStartDelayTime" then Some SpMsgStartDelay
  else if String.eqb name "GenMsgSendType" then Some SpMsgSend
  else if String.eqb name "GenSigStartValue" then Some SpSigStart
  else if String.eqb name "GenSigSendType" then Some SpSigSend
  else None.

Definition set_m_attrs (m : message) (a : list attr_asg) : message :=
  mkmessage (m_canid m) (m_name m) (m_size m) (m_order m) (m_cycle m) (m_delay m) (m_startdelay m)
            (m_sendtype m) (m_sender m) (m_receivers m) (m_desc m) a (m_signals m).
Definition set_m_times (m : message) (c d sd st : Z) : message :=
  mkmessage (m_canid m) (m_name m) (m_size m) (m_order m) c d sd st
            (m_sender m) (m_receivers m) (m_desc m) (m_attrs m) (m_signals m).
Definition set_m_signals (m : message) (s : list signal) : message :=
  mkmessage (m_canid m) (m_name m) (m_size m) (m_order m) (m_cycle m) (m_delay m) (m_startdelay m)
            (m_sendtype m) (m_sender m) (m_receivers m) (m_desc m) (m_attrs m) s.
Definition set_s_attrs (s : signal) (a : list attr_asg) : signal :=
  mksignal (s_id s) (s_name s) (s_kind s) (s_rel s) (s_parent s) (s_groups s) (s_size s) (s_signed s)
           (s_scale s) (s_offset s) (s_min s) (s_max s) (s_unit s) (s_enum s) (s_gcount s) (s_gsize s)
           (s_desc s) (s_startval s) (s_sendtype s) a.
Definition set_s_special (s : signal) (sv : fl) (st : Z) : signal :=
  mksignal (s_id s) (s_name s) (s_kind s) (s_rel s) (s_parent s) (s_groups s) (s_size s) (s_signed s)
           (s_scale s) (s_offset s) (s_min s) (s_max s) (s_unit s) (s_enum s) (s_gcount s) (s_gsize s)
           (s_desc s) sv st (s_attrs s).

(* a well-known attribute value of the wrong dynamic type is an error *)
Definition assign_message (name : string) (d : attr_def) (v : attr_val) (m : message) : result message :=
  match special_of name with
  | Some SpMsgCycle =>
      match v with ValInt z => Ok (set_m_times m z (m_delay m) (m_startdelay m) (m_sendtype m))
                 | _ => Err "well-known attribute value of the wrong type" end
  | Some SpMsgDelay =>
      match v with ValInt z => Ok (set_m_times m (m_cycle m) z (m_startdelay m) (m_sendtype m))
                 | _ => Err "well-known attribute value of the wrong type" end
  | Some SpMsgStartDelay =>
      match v with ValInt z => Ok (set_m_times m (m_cycle m) (m_delay m) z (m_sendtype m))
                 | _ => Err "well-known attribute value of the wrong type" end
  | Some SpMsgSend =>
      match v with ValString s => Ok (set_m_times m (m_cycle m) (m_delay m) (m_startdelay m) (msg_send_type_from_dbc s))
                 | _ => Err "well-known attribute value of the wrong type" end
  | Some _ => Ok m
  | None => do a <- try_assign name d v (m_attrs m); Ok (set_m_attrs m a)
  end.

Definition assign_signal (name : string) (d : attr_def) (v : attr_val) (s : signal) : result signal :=
  match special_of name with
  | Some SpSigStart =>
      match v with
      | ValFloat f => Ok (set_s_special s f (s_sendtype s))
      | ValInt z => Ok (set_s_special s (fl_of_Z z) (s_sendtype s))
      | ValString _ => Ok s
      end
  | Some SpSigSend =>
      match v with ValString t => Ok (set_s_special s (s_startval s) (sig_send_type_from_dbc t))
                 | _ => Err "well-known attribute value of the wrong type" end
  | Some _ => Ok s
  | None => do a <- try_assign name d v (s_attrs s); Ok (set_s_attrs s a)
  end.

Fixpoint update_first {A} (p : A -> bool) (f : A -> result A) (l : list A) : result (list A) :=
  match l with
  | [] => Ok []
  | x :: r => if p x then (do y <- f x; Ok (y :: r)) else (do r' <- update_first p f r; Ok (x :: r'))
  end.
Fixpoint update_nth {A} (n : nat) (f : A -> result A) (l : list A) : result (list A) :=
  match l, n with
  | [], _ => Ok []
  | x :: r, O => do y <- f x; Ok (y :: r)
  | x :: r, S k => do r' <- update_nth k f r; Ok (x :: r')
  end.

Definition set_b_attrs (b : bus) (a : list attr_asg) : bus :=
  mkbus (b_name b) (b_desc b) a (b_nodes b) (b_enums b) (b_messages b).
Definition set_b_nodes (b : bus) (n : list node) : bus :=
  mkbus (b_name b) (b_desc b) (b_attrs b) n (b_enums b) (b_messages b).
Definition set_b_messages (b : bus) (m : list message) : bus :=
  mkbus (b_name b) (b_desc b) (b_attrs b) (b_nodes b) (b_enums b) m.

(* importAttributes *)
Definition import_attributes (sigmap : list (key * (nat * Z))) (d : doc) (b : bus) : result bus :=
  let defmap := fold_left (fun acc df => (ad_name df, df) :: acc) (d_attrdefs d) [] in
  do attrs <- fold_left (fun acc a =>
                do l <- acc;
                match lookup String.eqb (at_name a) defmap with
                | None => Err "attribute default is required"
                | Some df => do ad <- import_attr_def a df; Ok ((at_name a, ad) :: l)
                end) (d_attrs d) (Ok []);
  fold_left (fun acc av =>
    do b0 <- acc;
    let name := av_name av in
    match lookup String.eqb name attrs with
    | None => Ok b0
    | Some ad =>
        do v <- attr_value ad av;
        match av_kind av with
        | OGeneral => do a <- try_assign name ad v (b_attrs b0); Ok (set_b_attrs b0 a)
        | ONode =>
            if String.eqb (av_node av) dummy_node then Ok b0 else
            do ns <- update_first (fun n => String.eqb (n_name n) (av_node av))
                       (fun n => do a <- try_assign name ad v (n_attrs n);
                                 Ok (mknode (n_name n) (n_id n) (n_desc n) a)) (b_nodes b0);
            Ok (set_b_nodes b0 ns)
        | OMessage =>
            do ms <- update_first (fun m => m_canid m =? av_msg av) (assign_message name ad v) (b_messages b0);
            Ok (set_b_messages b0 ms)
        | OSignal =>
            match lookup key_eqb (av_msg av, av_sig av) sigmap with
            | None => Ok b0
            | Some (mpos, sid) =>
                do ms <- update_nth mpos (fun m =>
                           do ss <- update_first (fun s => s_id s =? sid) (assign_signal name ad v) (m_signals m);
                           Ok (set_m_signals m ss)) (b_messages b0);
                Ok (set_b_messages b0 ms)
            end
        | OEnvVar => Ok b0
        end
    end) (d_attrvals d) (Ok b).

(* ------------------------------------------------------------------------------------------ *)
(* importFile                                                                                  *)
(* ------------------------------------------------------------------------------------------ *)
Definition import (d : doc) : result bus :=
  let '(bdesc, (nd, md, sd)) := import_comments (d_comments d) in
  do reg <- fold_left (fun acc vt => do r <- acc; import_value_table r vt) (d_valtables d) (Ok []);
  do es_se <- fold_left (fun acc ve => do a <- acc; import_value_encoding (length reg) a ve)
                        (d_valencs d) (Ok (reg, []));
  let env := mkienv nd md sd (snd es_se) (import_ext_muxes (d_extmuxes d)) in
  do nodes <- import_nodes nd (d_nodes d);
  do (st4, msgs) <- fold_left (fun acc dm => do a <- acc; import_message env a nodes dm)
                               (d_messages d) (Ok (mkistate (fst es_se) [] [], []));
  let b0 := mkbus (d_filename d) bdesc [] nodes (is_enums st4) msgs in
  do b1 <- import_attributes (is_sigmap st4) d b0;
  (* the placeholder node is removed when it sends nothing *)
  if existsb (fun m => String.eqb (m_sender m) dummy_node) (b_messages b1) then Ok b1
  else Ok (set_b_nodes b1 (filter (fun n => negb (String.eqb (n_name n) dummy_node)) (b_nodes b1))).
