(* C10 — proofs about the model of the importer (Import.v). *)
From Coq Require Import String Ascii ZArith List Bool Lia.
From Coq Require Import ZifyBool.
From Acme.C10 Require Import DbcDoc BusModel Import Bits BitsProofs.
Import ListNotations.
Open Scope Z_scope.
Ltac Zify.zify_post_hook ::= Z.div_mod_to_equations.

(* the Motorola start-bit conversion is an involution on bit numbers *)
Lemma start_bit_inverse :
  forall o p, 0 <= p -> pos_of_dbc o (dbc_of_pos o p) = p /\ dbc_of_pos o (pos_of_dbc o p) = p.
Proof.
  intros [|] p Hp; unfold pos_of_dbc, dbc_of_pos; split; try reflexivity.
  - assert (H : (p + 7 - 2 * (p mod 8)) mod 8 = 7 - p mod 8) by lia. rewrite H. lia.
  - assert (H : (p + 7 - 2 * (p mod 8)) mod 8 = 7 - p mod 8) by lia. rewrite H. lia.
Qed.

Lemma get_start_bit_pos : forall ds, get_start_bit ds = pos_of_dbc (ds_order ds) (ds_start ds).
Proof. intros ds. unfold get_start_bit, pos_of_dbc. destruct (ds_order ds); reflexivity. Qed.

(* import_decode_dbc: a signal imported at the position the importer computes from the file's
   start bit is decoded to the raw value the DBC rule prescribes for the file's start bit *)
Lemma import_decode_dbc : forall ds data,
  0 <= ds_start ds -> 1 <= ds_size ds -> get_start_bit ds + ds_size ds <= 64 ->
  d08_excluded (ds_order ds) (get_start_bit ds) (ds_size ds) = false ->
  go_raw (ds_order ds) (get_start_bit ds) (ds_size ds) data
  = dbc_raw (ds_order ds) (ds_start ds) (ds_size ds) data.
Proof.
  intros ds data Hs Hz Hb Hd.
  assert (Hp : 0 <= get_start_bit ds).
  { rewrite get_start_bit_pos. unfold pos_of_dbc. destruct (ds_order ds); lia. }
  rewrite go_raw_is_dbc_raw by assumption.
  rewrite get_start_bit_pos.
  destruct (start_bit_inverse (ds_order ds) (ds_start ds) Hs) as [_ H]. rewrite H. reflexivity.
Qed.

(* ------------------------------------------------------------------------------------------ *)
(* generic facts about the result monad and folds                                              *)
(* ------------------------------------------------------------------------------------------ *)
Lemma bind_ok : forall {A B} (r : result A) (f : A -> result B) b,
  bind r f = Ok b -> exists a, r = Ok a /\ f a = Ok b.
Proof. intros A B [a|w] f b H; cbn in H; [eauto | discriminate]. Qed.

Lemma fold_result_err : forall {A B} (f : result A -> B -> result A),
  (forall x w, f (Err w) x = Err w) -> forall l w, fold_left f l (Err w) = Err w.
Proof. intros A B f Hf l. induction l as [|x r IH]; intros w; cbn; [reflexivity|]. rewrite Hf. apply IH. Qed.

Lemma fold_result_inv : forall {A B} (f : result A -> B -> result A) (P : A -> Prop),
  (forall x w, f (Err w) x = Err w) ->
  (forall a x a', P a -> f (Ok a) x = Ok a' -> P a') ->
  forall l a0 a, P a0 -> fold_left f l (Ok a0) = Ok a -> P a.
Proof.
  intros A B f P Herr Hstep l. induction l as [|x r IH]; intros a0 a H0 H; cbn in H.
  - inversion H; subst; assumption.
  - destruct (f (Ok a0) x) as [a1|w] eqn:E.
    + eapply IH; [|exact H]. eapply Hstep; eauto.
    + rewrite fold_result_err in H by assumption. discriminate.
Qed.

(* ------------------------------------------------------------------------------------------ *)
(* the skeleton of a bus: everything importAttributes cannot change                             *)
(* ------------------------------------------------------------------------------------------ *)
Definition sig_skel (s : signal) :=
  (s_id s, s_name s, s_kind s, s_rel s, s_parent s, s_groups s, s_size s, s_signed s,
   (s_scale s, s_offset s, s_min s, s_max s, s_unit s, s_enum s, s_gcount s, s_gsize s, s_desc s)).
Definition msg_skel (m : message) :=
  (m_canid m, m_name m, m_size m, m_order m, m_sender m, m_receivers m, m_desc m, map sig_skel (m_signals m)).
Definition node_skel (n : node) := (n_name n, n_id n, n_desc n).
Definition bus_skel (b : bus) :=
  (b_name b, b_desc b, map node_skel (b_nodes b), b_enums b, map msg_skel (b_messages b)).

Lemma update_first_skel : forall {A S} (skel : A -> S) p f l l',
  (forall x y, f x = Ok y -> skel y = skel x) ->
  update_first p f l = Ok l' -> map skel l' = map skel l.
Proof.
  intros A S skel p f l. induction l as [|x r IH]; intros l' Hf H; cbn in H.
  - inversion H; reflexivity.
  - destruct (p x).
    + apply bind_ok in H. destruct H as [y [Hy H]]. inversion H; subst. cbn. rewrite (Hf _ _ Hy). reflexivity.
    + apply bind_ok in H. destruct H as [r' [Hr H]]. inversion H; subst. cbn. rewrite (IH _ Hf Hr). reflexivity.
Qed.

Lemma update_nth_skel : forall {A S} (skel : A -> S) n f l l',
  (forall x y, f x = Ok y -> skel y = skel x) ->
  update_nth n f l = Ok l' -> map skel l' = map skel l.
Proof.
  intros A S skel n f l. revert n. induction l as [|x r IH]; intros n l' Hf H; cbn in H.
  - destruct n; inversion H; reflexivity.
  - destruct n.
    + apply bind_ok in H. destruct H as [y [Hy H]]. inversion H; subst. cbn. rewrite (Hf _ _ Hy). reflexivity.
    + apply bind_ok in H. destruct H as [r' [Hr H]]. inversion H; subst. cbn. rewrite (IH _ _ Hf Hr). reflexivity.
Qed.

Lemma try_assign_ok : forall name d v l l', try_assign name d v l = Ok l' -> True.
Proof. trivial. Qed.

Lemma assign_message_skel : forall name d v m m', assign_message name d v m = Ok m' -> msg_skel m' = msg_skel m.
Proof.
  intros name d v m m' H. unfold assign_message in H.
  destruct (special_of name) as [[| | | | |]|]; try (destruct v; inversion H; subst; reflexivity);
    try (inversion H; subst; reflexivity).
  apply bind_ok in H. destruct H as [a [_ H]]. inversion H; subst. reflexivity.
Qed.

Lemma assign_signal_skel : forall name d v s s', assign_signal name d v s = Ok s' -> sig_skel s' = sig_skel s.
Proof.
  intros name d v s s' H. unfold assign_signal in H.
  destruct (special_of name) as [[| | | | |]|]; try (destruct v; inversion H; subst; reflexivity);
    try (inversion H; subst; reflexivity).
  apply bind_ok in H. destruct H as [a [_ H]]. inversion H; subst. reflexivity.
Qed.

Lemma import_attributes_skel : forall sm d b b',
  import_attributes sm d b = Ok b' -> bus_skel b' = bus_skel b.
Proof.
  intros sm d b b' H. unfold import_attributes in H.
  apply bind_ok in H. destruct H as [attrs [_ H]].
  revert H. apply (fold_result_inv _ (fun x => bus_skel x = bus_skel b)); [reflexivity| |reflexivity].
  intros a av a' Ha Hs. cbn [bind] in Hs.
  destruct (lookup String.eqb (av_name av) attrs) as [ad|]; [|inversion Hs; subst; assumption].
  apply bind_ok in Hs. destruct Hs as [v [_ Hs]].
  rewrite <- Ha. clear Ha.
  destruct (av_kind av).
  - apply bind_ok in Hs. destruct Hs as [x [_ Hs]]. inversion Hs; subst. reflexivity.
  - destruct (String.eqb (av_node av) dummy_node); [inversion Hs; subst; reflexivity|].
    apply bind_ok in Hs. destruct Hs as [ns [Hn Hs]]. inversion Hs; subst.
    assert (Hmap : map node_skel ns = map node_skel (b_nodes a)).
    { eapply update_first_skel; [|exact Hn]. intros x y Hxy.
      apply bind_ok in Hxy. destruct Hxy as [q [_ Hxy]]. inversion Hxy; subst. reflexivity. }
    unfold bus_skel; cbn [b_name b_desc b_nodes b_enums b_messages set_b_nodes]. rewrite Hmap. reflexivity.
  - apply bind_ok in Hs. destruct Hs as [ms [Hm Hs]]. inversion Hs; subst.
    assert (Hmap : map msg_skel ms = map msg_skel (b_messages a)).
    { eapply update_first_skel; [|exact Hm]. intros x y Hxy. eapply assign_message_skel; eauto. }
    unfold bus_skel; cbn [b_name b_desc b_nodes b_enums b_messages set_b_messages]. rewrite Hmap. reflexivity.
  - destruct (lookup key_eqb (av_msg av, av_sig av) sm) as [[mpos sid]|]; [|inversion Hs; subst; reflexivity].
    apply bind_ok in Hs. destruct Hs as [ms [Hm Hs]]. inversion Hs; subst.
    assert (Hmap : map msg_skel ms = map msg_skel (b_messages a)).
    { eapply update_nth_skel; [|exact Hm]. intros x y Hxy.
      apply bind_ok in Hxy. destruct Hxy as [ss [Hss Hxy]]. inversion Hxy; subst.
      assert (Hsig : map sig_skel ss = map sig_skel (m_signals x)).
      { eapply update_first_skel; [|exact Hss]. intros s s' Hs'. eapply assign_signal_skel; eauto. }
      unfold msg_skel; cbn [m_canid m_name m_size m_order m_sender m_receivers m_desc m_signals set_m_signals].
      rewrite Hsig. reflexivity. }
    unfold bus_skel; cbn [b_name b_desc b_nodes b_enums b_messages set_b_messages]. rewrite Hmap. reflexivity.
  - inversion Hs; subst; reflexivity.
Qed.

(* ------------------------------------------------------------------------------------------ *)
(* nodes                                                                                       *)
(* ------------------------------------------------------------------------------------------ *)
Definition not_dummy (n : string) : bool := negb (String.eqb n dummy_node).

Lemma import_nodes_aux_names : forall descs names idx acc ns,
  import_nodes_aux descs names idx acc = Ok ns ->
  map n_name ns = map n_name acc ++ filter not_dummy names.
Proof.
  intros descs names. induction names as [|nm r IH]; intros idx acc ns H; cbn in H.
  - inversion H; subst. cbn. rewrite app_nil_r. reflexivity.
  - cbn [filter]. unfold not_dummy at 1. destruct (String.eqb nm dummy_node) eqn:E; cbn [negb].
    + eapply IH; eauto.
    + destruct (mem_str nm (map n_name acc)); [discriminate|].
      destruct (mem_z idx (map n_id acc)); [discriminate|].
      apply IH in H. rewrite H, map_app. cbn. rewrite <- app_assoc. reflexivity.
Qed.

Lemma import_nodes_names : forall descs names ns,
  import_nodes descs names = Ok ns -> map n_name ns = filter not_dummy names ++ [dummy_node].
Proof.
  intros descs names ns H. unfold import_nodes in H.
  apply bind_ok in H. destruct H as [ns0 [H0 H]].
  destruct (mem_z 1024 (map n_id ns0)); [discriminate|]. inversion H; subst.
  apply import_nodes_aux_names in H0. cbn in H0. rewrite map_app, H0. reflexivity.
Qed.

(* node names are pairwise distinct (the importer refuses a duplicate) *)
Lemma mem_str_false_not_in : forall s l, mem_str s l = false -> ~ In s l.
Proof.
  intros s l H Hin. unfold mem_str in H.
  assert (existsb (String.eqb s) l = true) by (apply existsb_exists; exists s; split; [assumption|apply String.eqb_refl]).
  congruence.
Qed.

Lemma nodup_snoc : forall {A} (l : list A) x, NoDup l -> ~ In x l -> NoDup (l ++ [x]).
Proof.
  intros A l x Hnd Hx. induction Hnd as [|y l Hy Hl IH]; cbn.
  - constructor; [intros []|constructor].
  - constructor.
    + rewrite in_app_iff. cbn. intros [H|[H|[]]]; [auto|]. subst. apply Hx. left. reflexivity.
    + apply IH. intros H. apply Hx. right. assumption.
Qed.

Lemma import_nodes_aux_nodup : forall descs names idx acc ns,
  NoDup (map n_name acc) -> ~ In dummy_node (map n_name acc) ->
  import_nodes_aux descs names idx acc = Ok ns ->
  NoDup (map n_name ns) /\ ~ In dummy_node (map n_name ns).
Proof.
  intros descs names. induction names as [|nm r IH]; intros idx acc ns Hnd Hdm H; cbn in H.
  - inversion H; subst. auto.
  - destruct (String.eqb nm dummy_node) eqn:E; [eapply IH; eauto|].
    destruct (mem_str nm (map n_name acc)) eqn:Em; [discriminate|].
    destruct (mem_z idx (map n_id acc)); [discriminate|].
    apply IH in H; [assumption| |].
    + rewrite map_app. cbn. apply nodup_snoc; [assumption|].
      apply mem_str_false_not_in. assumption.
    + rewrite map_app, in_app_iff. cbn. intros [Hi|[Hi|[]]]; [auto|].
      subst. rewrite String.eqb_refl in E. discriminate.
Qed.

(* ------------------------------------------------------------------------------------------ *)
(* messages                                                                                    *)
(* ------------------------------------------------------------------------------------------ *)
Definition sorted_signals (dm : dmessage) : list dsignal :=
  sort_by (fun a b => get_start_bit a <? get_start_bit b) (dm_signals dm).
(* receivers of a message: union of the signals' receivers without the placeholder *)
Definition recs_of (dm : dmessage) : list string :=
  filter not_dummy (dedup_str [] (flat_map ds_receivers (sorted_signals dm))).
Definition order_of (dm : dmessage) : byte_order :=
  match sorted_signals dm with [] => LittleEndian | s :: _ => ds_order s end.

Definition msg_head (m : message) := (m_canid m, m_name m, m_size m, m_sender m, m_receivers m, m_order m).
Definition dmsg_head (dm : dmessage) := (dm_id dm, dm_name dm, dm_size dm, dm_tx dm, recs_of dm, order_of dm).

Lemma import_message_inv : forall env st msgs nodes dm st' msgs',
  import_message env (st, msgs) nodes dm = Ok (st', msgs') ->
  exists m sigs,
    msgs' = msgs ++ [m] /\ msg_head m = dmsg_head dm /\ m_signals m = sigs /\
    import_message_signals env st (length msgs) dm = Ok (st', sigs) /\
    m_desc m = match lookup Z.eqb (dm_id dm) (ie_msg_desc env) with Some d => d | None => EmptyString end /\
    m_attrs m = [] /\ m_cycle m = 0 /\ m_delay m = 0 /\ m_startdelay m = 0 /\ m_sendtype m = 0 /\
    forallb (fun r => mem_str r (map n_name nodes)) (recs_of dm) = true /\
    mem_str (dm_tx dm) (map n_name nodes) = true /\
    dm_size dm <= 8 /\ mem_z (dm_id dm) (map m_canid msgs) = false /\
    forallb (fun s => bo_eqb (ds_order s) (order_of dm)) (sorted_signals dm) = true.
Proof.
  intros env st msgs nodes dm st' msgs' H. unfold import_message in H.
  fold (sorted_signals dm) in H. fold (order_of dm) in H.
  destruct (forallb (fun s => bo_eqb (ds_order s) (order_of dm)) (sorted_signals dm)) eqn:Eo; cbn [negb] in H; [|discriminate].
  change (filter (fun r : string => negb (r =? dummy_node)%string)
                 (dedup_str [] (flat_map ds_receivers (sorted_signals dm)))) with (recs_of dm) in H.
  destruct (forallb (fun r => mem_str r (map n_name nodes)) (recs_of dm)) eqn:Er; cbn [negb] in H; [|discriminate].
  destruct (mem_str (dm_tx dm) (map n_name nodes)) eqn:Et; cbn [negb] in H; [|discriminate].
  destruct (mem_str (dm_name dm) _); [discriminate|].
  destruct (dm_size dm >? 8) eqn:Es; [discriminate|].
  destruct (mem_z (dm_id dm) (map m_canid msgs)) eqn:Ei; [discriminate|].
  apply bind_ok in H. destruct H as [[st1 sigs] [Hs H]]. inversion H; subst.
  eexists; exists sigs. repeat split; try reflexivity; try assumption. lia.
Qed.

Lemma import_messages_fold : forall env nodes dms st msgs st' msgs',
  fold_left (fun acc dm => do a <- acc; import_message env a nodes dm) dms (Ok (st, msgs)) = Ok (st', msgs') ->
  map msg_head msgs' = map msg_head msgs ++ map dmsg_head dms.
Proof.
  intros env nodes dms. induction dms as [|dm r IH]; intros st msgs st' msgs' H; cbn [fold_left] in H.
  - inversion H; subst. cbn. rewrite app_nil_r. reflexivity.
  - cbn [bind] in H.
    destruct (import_message env (st, msgs) nodes dm) as [[st1 msgs1]|w] eqn:E.
    + apply IH in H. apply import_message_inv in E.
      destruct E as [m [sigs [Hm [Hh _]]]]. subst msgs1.
      rewrite H, map_app. cbn. rewrite Hh, <- app_assoc. reflexivity.
    + rewrite fold_result_err in H by reflexivity. discriminate.
Qed.

(* ---- the top-level structure of `import` ---- *)
Definition doc_env (d : doc) (se : list (key * Z)) : ienv :=
  let '(_, (nd, md, sd)) := import_comments (d_comments d) in
  mkienv nd md sd se (import_ext_muxes (d_extmuxes d)).

Lemma import_inv : forall d b, import d = Ok b ->
  exists reg es se nodes st4 msgs b1,
    fold_left (fun acc vt => do r <- acc; import_value_table r vt) (d_valtables d) (Ok []) = Ok reg /\
    fold_left (fun acc ve => do a <- acc; import_value_encoding (length reg) a ve) (d_valencs d) (Ok (reg, [])) = Ok (es, se) /\
    import_nodes (ie_node_desc (doc_env d se)) (d_nodes d) = Ok nodes /\
    fold_left (fun acc dm => do a <- acc; import_message (doc_env d se) a nodes dm) (d_messages d)
              (Ok (mkistate es [] [], [])) = Ok (st4, msgs) /\
    import_attributes (is_sigmap st4) d (mkbus (d_filename d) (fst (import_comments (d_comments d))) [] nodes (is_enums st4) msgs) = Ok b1 /\
    b = (if existsb (fun m => String.eqb (m_sender m) dummy_node) (b_messages b1) then b1
         else set_b_nodes b1 (filter (fun n => negb (String.eqb (n_name n) dummy_node)) (b_nodes b1))).
Proof.
  intros d b H. unfold import in H. unfold doc_env.
  destruct (import_comments (d_comments d)) as [bdesc [[nd md] sd]] eqn:Ec.
  apply bind_ok in H. destruct H as [reg [H1 H]].
  apply bind_ok in H. destruct H as [[es se] [H2 H]].
  apply bind_ok in H. destruct H as [nodes [Hn H]].
  apply bind_ok in H. destruct H as [[st4 msgs] [Hm H]].
  apply bind_ok in H. destruct H as [b1 [Hb H]].
  exists reg, es, se, nodes, st4, msgs, b1. cbn [fst snd ie_node_desc] in *.
  repeat split; try assumption.
  destruct (existsb _ _); inversion H; reflexivity.
Qed.

Definition head_of_skel (k : Z * string * Z * byte_order * string * list string * string * list
   (Z * string * skind * Z * option Z * list Z * Z * bool * (fl * fl * fl * fl * string * Z * Z * Z * string)))
  := let '(c, n, sz, o, snd_, recs, _, _) := k in (c, n, sz, snd_, recs, o).
Lemma msg_head_skel : forall m, msg_head m = head_of_skel (msg_skel m).
Proof. intros m. reflexivity. Qed.

Lemma map_ext_skel : forall {A S T} (skel : A -> S) (g : S -> T) (f : A -> T) l l',
  (forall x, f x = g (skel x)) -> map skel l = map skel l' -> map f l = map f l'.
Proof.
  intros A S T skel g f l l' Hf H.
  rewrite (map_ext f (fun x => g (skel x))) by assumption.
  rewrite (map_ext f (fun x => g (skel x)) Hf l').
  rewrite <- (map_map skel g l), <- (map_map skel g l'). rewrite H. reflexivity.
Qed.

Lemma existsb_map : forall {A B} (g : A -> B) p l, existsb p (map g l) = existsb (fun x => p (g x)) l.
Proof. intros A B g p l. induction l; cbn; [reflexivity|]. rewrite IHl. reflexivity. Qed.

Lemma filter_map_comm : forall {A B} (g : A -> B) p l, filter p (map g l) = map g (filter (fun x => p (g x)) l).
Proof. intros A B g p l. induction l; cbn; [reflexivity|]. destruct (p (g a)); cbn; rewrite IHl; reflexivity. Qed.

Lemma filter_idem : forall {A} (p : A -> bool) l, filter p (filter p l) = filter p l.
Proof.
  intros A p l. induction l; cbn; [reflexivity|]. destruct (p a) eqn:E; cbn; rewrite ?E, IHl; reflexivity.
Qed.

Lemma import_messages_heads : forall d b, import d = Ok b ->
  map msg_head (b_messages b) = map dmsg_head (d_messages d).
Proof.
  intros d b H. apply import_inv in H.
  destruct H as [reg [es [se [nodes [st4 [msgs [b1 [_ [_ [_ [Hm [Hb Hbb]]]]]]]]]]]].
  apply import_attributes_skel in Hb. unfold bus_skel in Hb.
  cbn [b_name b_desc b_nodes b_enums b_messages] in Hb.
  assert (Hk : map msg_skel (b_messages b1) = map msg_skel msgs) by congruence.
  assert (Hb' : b_messages b = b_messages b1) by (subst b; destruct (existsb _ _); reflexivity).
  rewrite Hb'. rewrite (map_ext_skel msg_skel head_of_skel msg_head _ msgs msg_head_skel Hk).
  apply import_messages_fold in Hm. cbn [map app] in Hm. exact Hm.
Qed.

(* import_nodes: exactly the file's nodes, in order, plus the placeholder sender when a message names none *)
Lemma import_nodes_thm : forall d b, import d = Ok b ->
  map n_name (b_nodes b) =
  filter not_dummy (d_nodes d)
  ++ (if existsb (fun dm => String.eqb (dm_tx dm) dummy_node) (d_messages d) then [dummy_node] else []).
Proof.
  intros d b H. pose proof (import_messages_heads d b H) as Hh. apply import_inv in H.
  destruct H as [reg [es [se [nodes [st4 [msgs [b1 [_ [_ [Hn [Hm [Hb Hbb]]]]]]]]]]]].
  apply import_attributes_skel in Hb. unfold bus_skel in Hb.
  cbn [b_name b_desc b_nodes b_enums b_messages] in Hb.
  assert (Hk : map node_skel (b_nodes b1) = map node_skel nodes) by congruence.
  assert (Hnames : map n_name (b_nodes b1) = map n_name nodes).
  { apply (map_ext_skel node_skel (fun k => fst (fst k)) n_name); [reflexivity|assumption]. }
  apply import_nodes_names in Hn.
  assert (Hsend : existsb (fun m => String.eqb (m_sender m) dummy_node) (b_messages b1)
                  = existsb (fun dm => String.eqb (dm_tx dm) dummy_node) (d_messages d)).
  { assert (Hb' : b_messages b = b_messages b1) by (subst b; destruct (existsb _ _); reflexivity).
    rewrite Hb' in Hh.
    assert (Hs : map m_sender (b_messages b1) = map dm_tx (d_messages d)).
    { rewrite (map_ext m_sender (fun m => snd (fst (fst (msg_head m))))) by reflexivity.
      rewrite (map_ext dm_tx (fun m => snd (fst (fst (dmsg_head m))))) by reflexivity.
      rewrite <- (map_map msg_head (fun h => snd (fst (fst h)))), <- (map_map dmsg_head (fun h => snd (fst (fst h)))), Hh. reflexivity. }
    rewrite <- (existsb_map m_sender (fun s => String.eqb s dummy_node)).
    rewrite <- (existsb_map dm_tx (fun s => String.eqb s dummy_node)). rewrite Hs. reflexivity. }
  rewrite Hsend in Hbb. subst b.
  destruct (existsb (fun dm => String.eqb (dm_tx dm) dummy_node) (d_messages d)).
  - rewrite Hnames, Hn. reflexivity.
  - cbn [b_nodes set_b_nodes].
    rewrite <- (filter_map_comm n_name not_dummy). rewrite Hnames, Hn.
    rewrite filter_app, filter_idem. cbn. rewrite app_nil_r. reflexivity.
Qed.

(* ------------------------------------------------------------------------------------------ *)
(* signals of a message without multiplexor switch                                              *)
(* ------------------------------------------------------------------------------------------ *)
Definition sig_comment (env : ienv) (msgid : Z) (name : string) : string :=
  match lookup key_eqb (msgid, name) (ie_sig_desc env) with Some d => d | None => EmptyString end.

(* what the file says about one signal, as far as the plain model record shows it *)
Definition sig_faithful (env : ienv) (msgid : Z) (ds : dsignal) (s : signal) : Prop :=
  s_name s = ds_name ds /\ s_rel s = get_start_bit ds /\ s_parent s = None /\ s_groups s = [] /\
  s_desc s = sig_comment env msgid (ds_name ds) /\
  match lookup key_eqb (msgid, ds_name ds) (ie_sig_enums env) with
  | None => s_kind s = KStandard /\ s_size s = ds_size ds /\ 0 < ds_size ds /\ s_signed s = ds_signed ds /\
            s_scale s = ds_factor ds /\ s_offset s = ds_offset ds /\ s_min s = ds_min ds /\
            s_max s = ds_max ds /\ s_unit s = ds_unit ds
  | Some e => s_kind s = KEnum
  end.

Lemma import_signal_spec : forall env st mpos msgid id ds s st',
  import_signal env st mpos msgid id ds = Ok (s, st') ->
  s_id s = id /\ sig_faithful env msgid ds (place s (get_start_bit ds) None []).
Proof.
  intros env st mpos msgid id ds s st' H. unfold import_signal in H.
  apply bind_ok in H. destruct H as [[s0 st0] [H0 H]].
  assert (Hs : s = match lookup key_eqb (msgid, ds_name ds) (ie_sig_desc env) with Some d => set_desc s0 d | None => s0 end)
    by (inversion H; reflexivity).
  unfold sig_faithful, sig_comment.
  destruct (lookup key_eqb (msgid, ds_name ds) (ie_sig_enums env)) as [ei0|] eqn:Ee.
  - apply bind_ok in H0. destruct H0 as [[ei es1] [_ H0]].
    inversion H0; subst s0. subst s.
    destruct (lookup key_eqb (msgid, ds_name ds) (ie_sig_desc env)); cbn; repeat split; reflexivity.
  - apply bind_ok in H0. destruct H0 as [s1 [H1 H0]]. inversion H0; subst s0 st0. clear H0.
    unfold import_standard in H1. destruct (ds_size ds <=? 0) eqn:Ez; [discriminate|].
    inversion H1; subst s1. subst s.
    destruct (lookup key_eqb (msgid, ds_name ds) (ie_sig_desc env)); cbn; repeat split; try reflexivity; lia.
Qed.

Lemma msg_insert_plain : forall es msize sigs s start sigs',
  msg_insert es msize sigs (s, []) start = Ok sigs' -> sigs' = sigs ++ [place s start None []].
Proof.
  intros es msize sigs s start sigs' H. unfold msg_insert in H.
  destruct (mem_str (s_name s) (map s_name sigs)); [discriminate|].
  cbn [existsb] in H.
  match type of H with (if ?c then _ else _) = _ => destruct c; [discriminate|] end.
  apply bind_ok in H. destruct H as [u [_ H]]. inversion H. reflexivity.
Qed.

Lemma plain_signals_fold : forall env mpos msgid msize isigs st sigs st' sigs',
  fold_left (fun acc (p : Z * dsignal) => let '(id, ds) := p in
      do (st0, sg) <- acc;
      do (s, st1) <- import_signal env st0 mpos msgid id ds;
      (let '(st2, sg2) := (st1, sg) in
       do sg' <- msg_insert (is_enums st2) msize sg2 (s, []) (get_start_bit ds); Ok (st2, sg')))
    isigs (Ok (st, sigs)) = Ok (st', sigs') ->
  exists new, sigs' = sigs ++ new /\ Forall2 (sig_faithful env msgid) (map snd isigs) new /\
              map s_id new = map fst isigs.
Proof.
  intros env mpos msgid msize isigs. induction isigs as [|[id ds] r IH]; intros st sigs st' sigs' H; cbn [fold_left] in H.
  - inversion H; subst. exists []. rewrite app_nil_r. repeat split; constructor.
  - cbn [bind] in H.
    destruct (import_signal env st mpos msgid id ds) as [[s st1]|w] eqn:E; cbn [bind] in H.
    2:{ rewrite fold_result_err in H; [discriminate|]. intros [i x] w'. reflexivity. }
    destruct (msg_insert (is_enums st1) msize sigs (s, []) (get_start_bit ds)) as [sg'|w] eqn:Em; cbn [bind] in H.
    2:{ rewrite fold_result_err in H; [discriminate|]. intros [i x] w'. reflexivity. }
    apply IH in H. destruct H as [new [Hn [Hf Hid]]].
    apply msg_insert_plain in Em. subst sg'.
    apply import_signal_spec in E. destruct E as [Hi Hfa].
    exists (place s (get_start_bit ds) None [] :: new). rewrite Hn, <- app_assoc. cbn [app map fst snd].
    repeat split; [constructor; assumption|]. cbn. rewrite Hi, Hid. reflexivity.
Qed.

Definition no_muxor (dm : dmessage) : Prop := forallb (fun ds => negb (ds_muxor ds)) (dm_signals dm) = true.

Lemma In_insert_sorted : forall {A} (ltb : A -> A -> bool) x y l, In x (insert_sorted ltb y l) <-> x = y \/ In x l.
Proof.
  intros A ltb x y l. induction l as [|z r IH]; cbn.
  - split; intros [H|H]; auto. 
  - destruct (ltb z y); cbn; [rewrite IH|]; intuition.
Qed.
Lemma In_sort_by : forall {A} (ltb : A -> A -> bool) x l, In x (sort_by ltb l) <-> In x l.
Proof.
  intros A ltb x l. induction l as [|y r IH]; cbn; [reflexivity|].
  rewrite In_insert_sorted, IH. intuition.
Qed.
Lemma index_from_snd : forall {A} (l : list A) i, map snd (index_from i l) = l.
Proof. intros A l. induction l; intros i; cbn; [reflexivity|]. rewrite IHl. reflexivity. Qed.
Lemma filter_nil : forall {A} (p : A -> bool) l, (forall x, In x l -> p x = false) -> filter p l = [].
Proof.
  intros A p l. induction l as [|x r IH]; intros H; cbn; [reflexivity|].
  rewrite (H x (or_introl eq_refl)). apply IH. intros y Hy. apply H. right. assumption.
Qed.

Lemma no_muxor_filter : forall dm, no_muxor dm ->
  filter (fun p : Z * dsignal => ds_muxor (snd p)) (index_from 0 (sorted_signals dm)) = [].
Proof.
  intros dm H. apply filter_nil. intros [i ds] Hin. cbn.
  assert (Hds : In ds (sorted_signals dm)).
  { rewrite <- (index_from_snd (sorted_signals dm) 0). apply in_map_iff. exists (i, ds). auto. }
  unfold sorted_signals in Hds. rewrite In_sort_by in Hds.
  unfold no_muxor in H. rewrite forallb_forall in H. specialize (H ds Hds).
  destruct (ds_muxor ds); [discriminate|reflexivity].
Qed.

Lemma import_message_signals_plain : forall env st mpos dm st' sigs,
  no_muxor dm ->
  import_message_signals env st mpos dm = Ok (st', sigs) ->
  Forall2 (sig_faithful env (dm_id dm)) (sorted_signals dm) sigs.
Proof.
  intros env st mpos dm st' sigs Hn H. unfold import_message_signals in H.
  fold (sorted_signals dm) in H. rewrite (no_muxor_filter dm Hn) in H.
  destruct (existsb _ _); [discriminate|].
  apply plain_signals_fold in H. destruct H as [new [Hs [Hf _]]].
  cbn [app] in Hs. subst sigs. rewrite index_from_snd in Hf. exact Hf.
Qed.

(* ---- per message relation through the message fold ---- *)
Definition msg_comment (env : ienv) (msgid : Z) : string :=
  match lookup Z.eqb msgid (ie_msg_desc env) with Some d => d | None => EmptyString end.

Definition msg_faithful (env : ienv) (dm : dmessage) (m : message) : Prop :=
  msg_head m = dmsg_head dm /\ m_desc m = msg_comment env (dm_id dm) /\
  (no_muxor dm -> Forall2 (sig_faithful env (dm_id dm)) (sorted_signals dm) (m_signals m)).

Lemma import_messages_fold_rel : forall env nodes dms st msgs st' msgs',
  fold_left (fun acc dm => do a <- acc; import_message env a nodes dm) dms (Ok (st, msgs)) = Ok (st', msgs') ->
  exists new, msgs' = msgs ++ new /\ Forall2 (msg_faithful env) dms new.
Proof.
  intros env nodes dms. induction dms as [|dm r IH]; intros st msgs st' msgs' H; cbn [fold_left] in H.
  - inversion H; subst. exists []. rewrite app_nil_r. split; constructor.
  - cbn [bind] in H.
    destruct (import_message env (st, msgs) nodes dm) as [[st1 msgs1]|w] eqn:E.
    + apply IH in H. destruct H as [new [Hn Hf]]. apply import_message_inv in E.
      destruct E as [m [sigs [Hm [Hh [Hsg [Hsig [Hd _]]]]]]]. subst msgs1.
      exists (m :: new). rewrite Hn, <- app_assoc. split; [reflexivity|].
      constructor; [|assumption]. unfold msg_faithful. repeat split; try assumption.
      intros Hno. rewrite Hsg. eapply import_message_signals_plain; eauto.
    + rewrite fold_result_err in H by reflexivity. discriminate.
Qed.

Lemma Forall2_skel : forall {A B S} (R : A -> B -> Prop) (skel : B -> S) l l1 l2,
  (forall a x y, skel x = skel y -> R a x -> R a y) ->
  map skel l1 = map skel l2 -> Forall2 R l l1 -> Forall2 R l l2.
Proof.
  intros A B S R skel l l1 l2 HR Hm HF. revert l2 Hm.
  induction HF as [|a x l l1 Hax HF IH]; intros l2 Hm.
  - destruct l2; [constructor|discriminate].
  - destruct l2 as [|y l2]; [discriminate|]. cbn in Hm. inversion Hm.
    constructor; [eapply HR; eauto|]. apply IH. assumption.
Qed.

Lemma sig_faithful_skel : forall env msgid ds s s', sig_skel s = sig_skel s' ->
  sig_faithful env msgid ds s -> sig_faithful env msgid ds s'.
Proof.
  intros env msgid ds s s' Hk H. unfold sig_skel in Hk. inversion Hk.
  unfold sig_faithful in *. destruct (lookup key_eqb (msgid, ds_name ds) (ie_sig_enums env)); intuition congruence.
Qed.

Lemma msg_faithful_skel : forall env dm m m', msg_skel m = msg_skel m' ->
  msg_faithful env dm m -> msg_faithful env dm m'.
Proof.
  intros env dm m m' Hk [H1 [H2 H3]]. unfold msg_skel in Hk. inversion Hk.
  unfold msg_faithful, msg_head in *. repeat split; try congruence.
  intros Hno. specialize (H3 Hno).
  eapply (Forall2_skel _ sig_skel); [|eassumption|exact H3].
  intros a x y Hxy. apply sig_faithful_skel. assumption.
Qed.

(* which signals have a value table: the keys of the VAL_ lines of signals *)
Definition has_valenc (d : doc) (k : key) : Prop :=
  exists ve, In ve (d_valencs d) /\ ve_signal ve = true /\ (ve_msg ve, ve_sig ve) = k.

Lemma valenc_fold_keys : forall nreg ves es se es' se',
  fold_left (fun acc ve => do a <- acc; import_value_encoding nreg a ve) ves (Ok (es, se)) = Ok (es', se') ->
  forall k, In k (map fst se') <-> In k (map fst se) \/ exists ve, In ve ves /\ ve_signal ve = true /\ (ve_msg ve, ve_sig ve) = k.
Proof.
  intros nreg ves. induction ves as [|ve r IH]; intros es se es' se' H k; cbn [fold_left] in H.
  - inversion H; subst. split; [auto|]. intros [Hin|[ve [[] _]]]. assumption.
  - cbn [bind] in H.
    destruct (import_value_encoding nreg (es, se) ve) as [[es1 se1]|w] eqn:E.
    2:{ rewrite fold_result_err in H by reflexivity. discriminate. }
    rewrite (IH _ _ _ _ H k). clear IH H.
    unfold import_value_encoding in E. destruct (ve_signal ve) eqn:Es; cbn [negb] in E.
    + assert (Hse : map fst se1 = (ve_msg ve, ve_sig ve) :: map fst se).
      { destruct (find_in_registry _ _ _); [inversion E; reflexivity|].
        apply bind_ok in E. destruct E as [e [_ E]]. inversion E. reflexivity. }
      rewrite Hse. cbn [In]. split.
      * intros [[Hk|Hin]|[v [Hv Hp]]]; [right; exists ve; cbn; auto | auto | right; exists v; cbn; tauto].
      * intros [Hin|[v [[Hv|Hv] [Hp1 Hp2]]]]; [auto | subst v; left; left; assumption | right; exists v; auto].
    + inversion E; subst. split.
      * intros [Hin|[v [Hv Hp]]]; [auto | right; exists v; cbn; tauto].
      * intros [Hin|[v [[Hv|Hv] [Hp1 Hp2]]]]; [auto | subst v; congruence | right; exists v; auto].
Qed.

Lemma lookup_some_in : forall {A} (k : key) (l : list (key * A)),
  (exists v, lookup key_eqb k l = Some v) <-> In k (map fst l).
Proof.
  intros A k l. induction l as [|[k' v'] r IH]; cbn.
  - split; [intros [v H]; discriminate | intros []].
  - destruct (key_eqb k k') eqn:E.
    + split; [intros _; left | intros _; eauto].
      unfold key_eqb in E. apply andb_true_iff in E. destruct E as [E1 E2].
      apply Z.eqb_eq in E1. apply String.eqb_eq in E2. destruct k, k'; cbn in *; congruence.
    + rewrite IH. split; [auto|]. intros [H|H]; [|assumption].
      subst k'. unfold key_eqb in E. rewrite Z.eqb_refl, String.eqb_refl in E. discriminate.
Qed.

(* import_signal_faithful (+ import_messages): the i-th message of the bus is the i-th message of
   the file; when it has no multiplexor switch its signals are the file's signals in position
   order, each with the file's name, position, comment, and either (no VAL_ line) kind standard
   with the file's size, signedness, factor, offset, minimum, maximum and unit or (VAL_ line) kind enum *)
Lemma import_signal_faithful : forall d b, import d = Ok b ->
  exists se,
    (forall k, (exists e, lookup key_eqb k se = Some e) <-> has_valenc d k) /\
    Forall2 (msg_faithful (doc_env d se)) (d_messages d) (b_messages b).
Proof.
  intros d b H. apply import_inv in H.
  destruct H as [reg [es [se [nodes [st4 [msgs [b1 [_ [Hv [_ [Hm [Hb Hbb]]]]]]]]]]]].
  exists se. split.
  - intros k. rewrite lookup_some_in. rewrite (valenc_fold_keys _ _ _ _ _ _ Hv k). cbn [map In].
    unfold has_valenc. tauto.
  - apply import_attributes_skel in Hb. unfold bus_skel in Hb.
    cbn [b_name b_desc b_nodes b_enums b_messages] in Hb.
    assert (Hk : map msg_skel msgs = map msg_skel (b_messages b1)) by congruence.
    assert (Hb' : b_messages b = b_messages b1) by (subst b; destruct (existsb _ _); reflexivity).
    rewrite Hb'. apply import_messages_fold_rel in Hm. destruct Hm as [new [Hn Hf]]. cbn [app] in Hn. subst new.
    eapply (Forall2_skel _ msg_skel); [|exact Hk|exact Hf].
    intros a x y Hxy. apply msg_faithful_skel. assumption.
Qed.

(* ------------------------------------------------------------------------------------------ *)
(* validity of the result over the plain model: names and ids unique, references resolved       *)
(* ------------------------------------------------------------------------------------------ *)
Lemma mem_str_true_in : forall s l, mem_str s l = true -> In s l.
Proof.
  intros s l H. unfold mem_str in H. apply existsb_exists in H. destruct H as [x [Hx He]].
  apply String.eqb_eq in He. subst. assumption.
Qed.
Lemma mem_z_false_not_in : forall z l, mem_z z l = false -> ~ In z l.
Proof.
  intros z l H Hin. unfold mem_z in H.
  assert (existsb (Z.eqb z) l = true) by (apply existsb_exists; exists z; split; [assumption|apply Z.eqb_refl]).
  congruence.
Qed.

Definition msg_valid (names : list string) (m : message) : Prop :=
  In (m_sender m) names /\ incl (m_receivers m) names /\ m_size m <= 8 /\ ~ In dummy_node (m_receivers m).

Lemma recs_of_not_dummy : forall dm, ~ In dummy_node (recs_of dm).
Proof.
  intros dm H. unfold recs_of in H. apply filter_In in H. destruct H as [_ H].
  unfold not_dummy in H. rewrite String.eqb_refl in H. discriminate.
Qed.

Lemma import_messages_fold_valid : forall env nodes dms st msgs st' msgs',
  fold_left (fun acc dm => do a <- acc; import_message env a nodes dm) dms (Ok (st, msgs)) = Ok (st', msgs') ->
  NoDup (map m_canid msgs) -> Forall (msg_valid (map n_name nodes)) msgs ->
  NoDup (map m_canid msgs') /\ Forall (msg_valid (map n_name nodes)) msgs'.
Proof.
  intros env nodes dms. induction dms as [|dm r IH]; intros st msgs st' msgs' H Hnd Hv; cbn [fold_left] in H.
  - inversion H; subst. auto.
  - cbn [bind] in H.
    destruct (import_message env (st, msgs) nodes dm) as [[st1 msgs1]|w] eqn:E.
    2:{ rewrite fold_result_err in H by reflexivity. discriminate. }
    apply import_message_inv in E.
    destruct E as [m [sigs [Hm [Hh [_ [_ [_ [_ [_ [_ [_ [_ [Hr [Ht [Hs [Hi _]]]]]]]]]]]]]]]].
    subst msgs1. unfold msg_head, dmsg_head in Hh. injection Hh as Hc Hnm Hsz Hsn Hrc Ho.
    eapply IH; [exact H| |].
    + rewrite map_app. cbn. apply nodup_snoc; [assumption|]. rewrite Hc. apply mem_z_false_not_in. assumption.
    + apply Forall_app. split; [assumption|]. constructor; [|constructor].
      unfold msg_valid. rewrite Hsn, Hrc, Hsz. repeat split.
      * apply mem_str_true_in. assumption.
      * intros x Hx. rewrite forallb_forall in Hr. apply mem_str_true_in. apply Hr. assumption.
      * assumption.
      * apply recs_of_not_dummy.
Qed.

Lemma NoDup_filter : forall {A} (p : A -> bool) l, NoDup l -> NoDup (filter p l).
Proof.
  intros A p l H. induction H as [|x l Hx Hl IH]; cbn; [constructor|].
  destruct (p x); [constructor; [|assumption]|assumption].
  intros Hin. apply filter_In in Hin. tauto.
Qed.

Lemma import_valid : forall d b, import d = Ok b ->
  NoDup (map n_name (b_nodes b)) /\ NoDup (map m_canid (b_messages b)) /\
  Forall (msg_valid (map n_name (b_nodes b))) (b_messages b).
Proof.
  intros d b H. pose proof (import_nodes_thm d b H) as Hnames. apply import_inv in H.
  destruct H as [reg [es [se [nodes [st4 [msgs [b1 [_ [_ [Hn [Hm [Hb Hbb]]]]]]]]]]]].
  apply import_attributes_skel in Hb. unfold bus_skel in Hb.
  cbn [b_name b_desc b_nodes b_enums b_messages] in Hb.
  assert (Hk : map msg_skel (b_messages b1) = map msg_skel msgs) by congruence.
  assert (Hkn : map node_skel (b_nodes b1) = map node_skel nodes) by congruence.
  assert (Hb' : b_messages b = b_messages b1) by (subst b; destruct (existsb _ _); reflexivity).
  assert (Hnn : map n_name (b_nodes b1) = map n_name nodes).
  { apply (map_ext_skel node_skel (fun k => fst (fst k)) n_name); [reflexivity|assumption]. }
  (* node names of the importer's node list *)
  assert (Hnd : NoDup (map n_name nodes) /\ In dummy_node (map n_name nodes)).
  { unfold import_nodes in Hn. apply bind_ok in Hn. destruct Hn as [ns0 [H0 Hn]].
    destruct (mem_z 1024 (map n_id ns0)); [discriminate|]. inversion Hn; subst nodes.
    apply import_nodes_aux_nodup in H0; [|constructor|intros []]. destruct H0 as [H1 H2].
    rewrite map_app. cbn. split; [apply nodup_snoc; assumption|]. rewrite in_app_iff. right. left. reflexivity. }
  destruct Hnd as [Hnd Hdummy].
  destruct (import_messages_fold_valid _ _ _ _ _ _ _ Hm ltac:(constructor) ltac:(constructor)) as [Hc Hv].
  assert (Hcan : NoDup (map m_canid (b_messages b1))).
  { replace (map m_canid (b_messages b1)) with (map m_canid msgs); [assumption|].
    symmetry. apply (map_ext_skel msg_skel (fun k => fst (fst (fst (fst (fst (fst (fst k))))))) m_canid); [reflexivity|assumption]. }
  assert (Hval : Forall (msg_valid (map n_name nodes)) (b_messages b1)).
  { assert (Hh : map (fun m => (m_sender m, m_receivers m, m_size m)) (b_messages b1)
                 = map (fun m => (m_sender m, m_receivers m, m_size m)) msgs).
    { apply (map_ext_skel msg_skel (fun k => let '(c, n, sz, o, sn, rc, dd, sg) := k in (sn, rc, sz))); [reflexivity|assumption]. }
    clear - Hv Hh. revert Hv Hh. generalize (b_messages b1) as l1. induction msgs as [|m r IH]; intros l1 Hv Hh.
    - destruct l1; [constructor|discriminate].
    - destruct l1 as [|m1 l1]; [discriminate|]. cbn in Hh. inversion Hh. inversion Hv; subst.
      constructor; [|apply IH; assumption]. unfold msg_valid in *. congruence. }
  split; [|split].
  - subst b. destruct (existsb _ _); [rewrite Hnn; assumption|].
    cbn [b_nodes set_b_nodes]. rewrite <- (filter_map_comm n_name not_dummy), Hnn. apply NoDup_filter. assumption.
  - rewrite Hb'. assumption.
  - rewrite Hb'. subst b. destruct (existsb (fun m => (m_sender m =? dummy_node)%string) (b_messages b1)) eqn:Ee.
    + rewrite Hnn. assumption.
    + cbn [b_nodes set_b_nodes]. rewrite <- (filter_map_comm n_name not_dummy), Hnn.
      (* no message is sent by the placeholder, and receivers never are the placeholder *)
      rewrite Forall_forall in *. intros m Hin. specialize (Hval m Hin).
      destruct Hval as [V1 [V2 [V3 V4]]]. unfold msg_valid. repeat split; try assumption.
      * apply filter_In. split; [assumption|]. unfold not_dummy.
        destruct (String.eqb (m_sender m) dummy_node) eqn:Es; [|reflexivity].
        assert (existsb (fun m => (m_sender m =? dummy_node)%string) (b_messages b1) = true)
          by (apply existsb_exists; exists m; auto). congruence.
      * intros x Hx. apply filter_In. split; [apply V2; assumption|]. unfold not_dummy.
        destruct (String.eqb x dummy_node) eqn:Es; [|reflexivity].
        apply String.eqb_eq in Es. subst x. contradiction.
Qed.

(* ---- receivers = union of the signals' receivers (as a duplicate-free set without the placeholder) ---- *)
Lemma dedup_str_in : forall l seen x, In x (dedup_str seen l) <-> In x l /\ ~ In x seen.
Proof.
  induction l as [|y r IH]; intros seen x; cbn.
  - tauto.
  - destruct (mem_str y seen) eqn:E.
    + rewrite IH. apply mem_str_true_in in E. split; [tauto|]. intros [[H|H] Hn]; [subst; contradiction|tauto].
    + cbn. rewrite IH. apply mem_str_false_not_in in E. cbn. split.
      * intros [H|[H1 H2]]; [subst; tauto|tauto].
      * intros [[H|H] Hn]; [auto|]. destruct (string_dec y x); [auto|right; tauto].
Qed.
Lemma dedup_str_nodup : forall l seen, NoDup (dedup_str seen l).
Proof.
  induction l as [|y r IH]; intros seen; cbn; [constructor|].
  destruct (mem_str y seen); [apply IH|]. constructor; [|apply IH].
  rewrite dedup_str_in. cbn. tauto.
Qed.

Lemma recs_of_spec : forall dm r,
  In r (recs_of dm) <-> r <> dummy_node /\ exists s, In s (dm_signals dm) /\ In r (ds_receivers s).
Proof.
  intros dm r. unfold recs_of. rewrite filter_In, dedup_str_in, in_flat_map. unfold not_dummy.
  split.
  - intros [[[s [Hs Hr]] _] Hd]. split.
    + intros ->. rewrite String.eqb_refl in Hd. discriminate.
    + exists s. unfold sorted_signals in Hs. rewrite In_sort_by in Hs. auto.
  - intros [Hd [s [Hs Hr]]]. split; [split; [|tauto]|].
    + exists s. unfold sorted_signals. rewrite In_sort_by. auto.
    + destruct (String.eqb r dummy_node) eqn:E; [apply String.eqb_eq in E; contradiction|reflexivity].
Qed.
Lemma recs_of_nodup : forall dm, NoDup (recs_of dm).
Proof. intros dm. unfold recs_of. apply NoDup_filter, dedup_str_nodup. Qed.

(* ------------------------------------------------------------------------------------------ *)
(* full statement of signal faithfulness (what is NOT proved yet is marked)                     *)
(* ------------------------------------------------------------------------------------------ *)
Definition valenc_values (d : doc) (k : key) (vals : list (Z * string)) : Prop :=
  exists ve rest, d_valencs d = rest ++ [ve] ++ filter (fun v => negb (ve_signal v && key_eqb k (ve_msg v, ve_sig v))) (d_valencs d)
                  /\ vals = sort_by (fun a b => fst a <? fst b) (ve_values ve).

(* every signal of every message, multiplexed or not, at its absolute position, with the file's
   size; value table => enum with exactly those values; otherwise the file's type data.
   Proved: import_signal_faithful (messages without multiplexor switch; kind, position, comment,
   type data).  Not proved: the enum VALUES and the enum signal's SIZE, and messages with
   multiplexor switches (these are covered by the correspondence run only). *)
Definition import_signal_faithful_full_statement : Prop :=
  forall d b, import d = Ok b ->
  exists se, (forall k, (exists e, lookup key_eqb k se = Some e) <-> has_valenc d k) /\
  Forall2 (fun dm m =>
    forall ds, In ds (dm_signals dm) ->
    exists s, In s (m_signals m) /\ s_name s = ds_name ds /\
      abs_start (length (m_signals m)) (m_signals m) s = get_start_bit ds /\
      (match s_kind s with KMux => sel_width s | _ => sig_size (b_enums b) s end) = ds_size ds /\
      s_desc s = sig_comment (doc_env d se) (dm_id dm) (ds_name ds) /\
      (ds_muxor ds = true -> s_kind s = KMux) /\
      (ds_muxor ds = false -> has_valenc d (dm_id dm, ds_name ds) ->
         s_kind s = KEnum /\ exists vals, valenc_values d (dm_id dm, ds_name ds) vals /\
                                          sorted_enum_values (nth_enum (b_enums b) (s_enum s)) = vals) /\
      (ds_muxor ds = false -> ~ has_valenc d (dm_id dm, ds_name ds) ->
         s_kind s = KStandard /\ s_signed s = ds_signed ds /\ s_scale s = ds_factor ds /\
         s_offset s = ds_offset ds /\ s_min s = ds_min ds /\ s_max s = ds_max ds /\ s_unit s = ds_unit ds))
    (d_messages d) (b_messages b).

(* ------------------------------------------------------------------------------------------ *)
(* the hypotheses are satisfiable: a document with two nodes, a Motorola message with a signal   *)
(* narrower than a byte, a value table, a comment, a float attribute whose default is written    *)
(* as an integer, and a message without transmitter                                            *)
(* ------------------------------------------------------------------------------------------ *)
Local Open Scope string_scope.
Definition example_doc : doc :=
  mkdoc "ex.dbc" ["ECU"; "GW"] [mkdvaltable "OnOff" [(0, "off"); (1, "on")]]
    [ mkdmessage 256 "Status" 2 "ECU"
        [ mkdsignal "speed" false false 0 10 3 BigEndian false (mkfl 1 (-1)) fl_zero fl_zero (mkfl 1023 (-1)) "km/h" ["GW"];
          mkdsignal "state" false false 0 2 7 BigEndian false fl_one fl_zero fl_zero fl_one "" ["GW"; "Vector__XXX"] ];
      mkdmessage 512 "Orphan" 1 "Vector__XXX"
        [ mkdsignal "flag" false false 0 1 0 LittleEndian false fl_one fl_zero fl_zero fl_one "" ["Vector__XXX"] ] ]
    [ mkdcomment OSignal "vehicle speed" "" 256 "speed" ]
    [ mkdattr OMessage AFloat "Weight" 0 0 0 0 fl_zero (mkfl 100 0) [] ]
    [ mkdattrdef VInt "Weight" "" 7 0 fl_zero ]
    [ mkdattrval OMessage VFloat "Weight" "" 256 "" "" 0 0 (mkfl 5 (-1)) ]
    [ mkdvalenc true 256 "state" [(1, "on"); (0, "off")] ]
    [].

Example import_example :
  exists b, import example_doc = Ok b /\
    map n_name (b_nodes b) = ["ECU"; "GW"; "Vector__XXX"]%string /\
    map (fun m => (m_canid m, m_sender m, m_receivers m)) (b_messages b)
      = [(256, "ECU", ["GW"]); (512, "Vector__XXX", [])]%string /\
    no_muxor (nth 0 (d_messages example_doc) (mkdmessage 0 "" 0 "" [])) /\
    map (fun s => (s_name s, s_rel s, s_kind s)) (m_signals (nth 0 (b_messages b) (mkmessage 0 "" 0 LittleEndian 0 0 0 0 "" [] "" [] [])))
      = [("state", 0, KEnum); ("speed", 4, KStandard)]%string.
Proof. eexists. split; [vm_compute; reflexivity|]. repeat split. Qed.
