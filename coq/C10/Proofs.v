(* C10 — proofs about the model of the importer (Import.v). *)
From Coq Require Import String Ascii ZArith List Bool Lia.
From Coq Require Import ZifyBool.
From Acme.C10 Require Import DbcDoc BusModel Import Bits BitsProofs.
Import ListNotations.
Open Scope Z_scope.
Ltac Zify.zify_post_hook ::= Z.div_mod_to_equations.

(* the Motorola start-bit conversion is an involution on bit numbers *)
Lemma start_bit_inverse :
  forall o p, 0 <= p -> pos_of_dbc o (dbc_of_pos o p) = p /\ dbc_of_pos o (pos_of_dbc o p) = p.
Proof.
  intros [|] p Hp; unfold pos_of_dbc, dbc_of_pos; split; try reflexivity.
  - assert (H : (p + 7 - 2 * (p mod 8)) mod 8 = 7 - p mod 8) by lia. rewrite H. lia.
  - assert (H : (p + 7 - 2 * (p mod 8)) mod 8 = 7 - p mod 8) by lia. rewrite H. lia.
Qed.

Lemma get_start_bit_pos : forall ds, get_start_bit ds = pos_of_dbc (ds_order ds) (ds_start ds).
Proof. intros ds. unfold get_start_bit, pos_of_dbc. destruct (ds_order ds); reflexivity. Qed.

(* import_decode_dbc: a signal imported at the position the importer computes from the file's
   start bit is decoded to the raw value the DBC rule prescribes for the file's start bit *)
Lemma import_decode_dbc : forall ds data,
  0 <= ds_start ds -> 1 <= ds_size ds -> get_start_bit ds + ds_size ds <= 64 ->
  d08_excluded (ds_order ds) (get_start_bit ds) (ds_size ds) = false ->
  go_raw (ds_order ds) (get_start_bit ds) (ds_size ds) data
  = dbc_raw (ds_order ds) (ds_start ds) (ds_size ds) data.
Proof.
  intros ds data Hs Hz Hb Hd.
  assert (Hp : 0 <= get_start_bit ds).
  { rewrite get_start_bit_pos. unfold pos_of_dbc. destruct (ds_order ds); lia. }
  rewrite go_raw_is_dbc_raw by assumption.
  rewrite get_start_bit_pos.
  destruct (start_bit_inverse (ds_order ds) (ds_start ds) Hs) as [_ H]. rewrite H. reflexivity.
Qed.

(* ------------------------------------------------------------------------------------------ *)
(* generic facts about the result monad and folds                                              *)
(* ------------------------------------------------------------------------------------------ *)
Lemma bind_ok : forall {A B} (r : result A) (f : A -> result B) b,
  bind r f = Ok b -> exists a, r = Ok a /\ f a = Ok b.
Proof. intros A B [a|w] f b H; cbn in H; [eauto | discriminate]. Qed.

Lemma fold_result_err : forall {A B} (f : result A -> B -> result A),
  (forall x w, f (Err w) x = Err w) -> forall l w, fold_left f l (Err w) = Err w.
Proof. intros A B f Hf l. induction l as [|x r IH]; intros w; cbn; [reflexivity|]. rewrite Hf. apply IH. Qed.

Lemma fold_result_inv : forall {A B} (f : result A -> B -> result A) (P : A -> Prop),
  (forall x w, f (Err w) x = Err w) ->
  (forall a x a', P a -> f (Ok a) x = Ok a' -> P a') ->
  forall l a0 a, P a0 -> fold_left f l (Ok a0) = Ok a -> P a.
Proof.
  intros A B f P Herr Hstep l. induction l as [|x r IH]; intros a0 a H0 H; cbn in H.
  - inversion H; subst; assumption.
  - destruct (f (Ok a0) x) as [a1|w] eqn:E.
    + eapply IH; [|exact H]. eapply Hstep; eauto.
    + rewrite fold_result_err in H by assumption. discriminate.
Qed.

(* ------------------------------------------------------------------------------------------ *)
(* the skeleton of a bus: everything importAttributes cannot change                             *)
(* ------------------------------------------------------------------------------------------ *)
Definition sig_skel (s : signal) :=
  (s_id s, s_name s, s_kind s, s_rel s, s_parent s, s_groups s, s_size s, s_signed s,
   (s_scale s, s_offset s, s_min s, s_max s, s_unit s, s_enum s, s_gcount s, s_gsize s, s_desc s)).
Definition msg_skel (m : message) :=
  (m_canid m, m_name m, m_size m, m_order m, m_sender m, m_receivers m, m_desc m, map sig_skel (m_signals m)).
Definition node_skel (n : node) := (n_name n, n_id n, n_desc n).
Definition bus_skel (b : bus) :=
  (b_name b, b_desc b, map node_skel (b_nodes b), b_enums b, map msg_skel (b_messages b)).

Lemma update_first_skel : forall {A S} (skel : A -> S) p f l l',
  (forall x y, f x = Ok y -> skel y = skel x) ->
  update_first p f l = Ok l' -> map skel l' = map skel l.
Proof.
  intros A S skel p f l. induction l as [|x r IH]; intros l' Hf H; cbn in H.
  - inversion H; reflexivity.
  - destruct (p x).
    + apply bind_ok in H. destruct H as [y [Hy H]]. inversion H; subst. cbn. rewrite (Hf _ _ Hy). reflexivity.
    + apply bind_ok in H. destruct H as [r' [Hr H]]. inversion H; subst. cbn. rewrite (IH _ Hf Hr). reflexivity.
Qed.

Lemma update_nth_skel : forall {A S} (skel : A -> S) n f l l',
  (forall x y, f x = Ok y -> skel y = skel x) ->
  update_nth n f l = Ok l' -> map skel l' = map skel l.
Proof.
  intros A S skel n f l. revert n. induction l as [|x r IH]; intros n l' Hf H; cbn in H.
  - destruct n; inversion H; reflexivity.
  - destruct n.
    + apply bind_ok in H. destruct H as [y [Hy H]]. inversion H; subst. cbn. rewrite (Hf _ _ Hy). reflexivity.
    + apply bind_ok in H. destruct H as [r' [Hr H]]. inversion H; subst. cbn. rewrite (IH _ _ Hf Hr). reflexivity.
Qed.

Lemma try_assign_ok : forall name d v l l', try_assign name d v l = Ok l' -> True.
Proof. trivial. Qed.

Lemma assign_message_skel : forall name d v m m', assign_message name d v m = Ok m' -> msg_skel m' = msg_skel m.
Proof.
  intros name d v m m' H. unfold assign_message in H.
  destruct (special_of name) as [[| | | | |]|]; try (destruct v; inversion H; subst; reflexivity);
    try (inversion H; subst; reflexivity).
  apply bind_ok in H. destruct H as [a [_ H]]. inversion H; subst. reflexivity.
Qed.

Lemma assign_signal_skel : forall name d v s s', assign_signal name d v s = Ok s' -> sig_skel s' = sig_skel s.
Proof.
  intros name d v s s' H. unfold assign_signal in H.
  destruct (special_of name) as [[| | | | |]|]; try (destruct v; inversion H; subst; reflexivity);
    try (inversion H; subst; reflexivity).
  apply bind_ok in H. destruct H as [a [_ H]]. inversion H; subst. reflexivity.
Qed.

Lemma import_attributes_skel : forall sm d b b',
  import_attributes sm d b = Ok b' -> bus_skel b' = bus_skel b.
Proof.
  intros sm d b b' H. unfold import_attributes in H.
  apply bind_ok in H. destruct H as [attrs [_ H]].
  revert H. apply (fold_result_inv _ (fun x => bus_skel x = bus_skel b)); [reflexivity| |reflexivity].
  intros a av a' Ha Hs. cbn [bind] in Hs.
  destruct (lookup String.eqb (av_name av) attrs) as [ad|]; [|inversion Hs; subst; assumption].
  apply bind_ok in Hs. destruct Hs as [v [_ Hs]].
  rewrite <- Ha. clear Ha.
  destruct (av_kind av).
  - apply bind_ok in Hs. destruct Hs as [x [_ Hs]]. inversion Hs; subst. reflexivity.
  - destruct (String.eqb (av_node av) dummy_node); [inversion Hs; subst; reflexivity|].
    apply bind_ok in Hs. destruct Hs as [ns [Hn Hs]]. inversion Hs; subst.
    assert (Hmap : map node_skel ns = map node_skel (b_nodes a)).
    { eapply update_first_skel; [|exact Hn]. intros x y Hxy.
      apply bind_ok in Hxy. destruct Hxy as [q [_ Hxy]]. inversion Hxy; subst. reflexivity. }
    unfold bus_skel; cbn [b_name b_desc b_nodes b_enums b_messages set_b_nodes]. rewrite Hmap. reflexivity.
  - apply bind_ok in Hs. destruct Hs as [ms [Hm Hs]]. inversion Hs; subst.
    assert (Hmap : map msg_skel ms = map msg_skel (b_messages a)).
    { eapply update_first_skel; [|exact Hm]. intros x y Hxy. eapply assign_message_skel; eauto. }
    unfold bus_skel; cbn [b_name b_desc b_nodes b_enums b_messages set_b_messages]. rewrite Hmap. reflexivity.
  - destruct (lookup key_eqb (av_msg av, av_sig av) sm) as [[mpos sid]|]; [|inversion Hs; subst; reflexivity].
    apply bind_ok in Hs. destruct Hs as [ms [Hm Hs]]. inversion Hs; subst.
    assert (Hmap : map msg_skel ms = map msg_skel (b_messages a)).
    { eapply update_nth_skel; [|exact Hm]. intros x y Hxy.
      apply bind_ok in Hxy. destruct Hxy as [ss [Hss Hxy]]. inversion Hxy; subst.
      assert (Hsig : map sig_skel ss = map sig_skel (m_signals x)).
      { eapply update_first_skel; [|exact Hss]. intros s s' Hs'. eapply assign_signal_skel; eauto. }
      unfold msg_skel; cbn [m_canid m_name m_size m_order m_sender m_receivers m_desc m_signals set_m_signals].
      rewrite Hsig. reflexivity. }
    unfold bus_skel; cbn [b_name b_desc b_nodes b_enums b_messages set_b_messages]. rewrite Hmap. reflexivity.
  - inversion Hs; subst; reflexivity.
Qed.

(* ------------------------------------------------------------------------------------------ *)
(* nodes                                                                                       *)
(* ------------------------------------------------------------------------------------------ *)
Definition not_dummy (n : string) : bool := negb (String.eqb n dummy_node).

Lemma import_nodes_aux_names : forall descs names idx acc ns,
  import_nodes_aux descs names idx acc = Ok ns ->
  map n_name ns = map n_name acc ++ filter not_dummy names.
Proof.
  intros descs names. induction names as [|nm r IH]; intros idx acc ns H; cbn in H.
  - inversion H; subst. cbn. rewrite app_nil_r. reflexivity.
  - cbn [filter]. unfold not_dummy at 1. destruct (String.eqb nm dummy_node) eqn:E; cbn [negb].
    + eapply IH; eauto.
    + destruct (mem_str nm (map n_name acc)); [discriminate|].
      destruct (mem_z idx (map n_id acc)); [discriminate|].
      apply IH in H. rewrite H, map_app. cbn. rewrite <- app_assoc. reflexivity.
Qed.

Lemma import_nodes_names : forall descs names ns,
  import_nodes descs names = Ok ns -> map n_name ns = filter not_dummy names ++ [dummy_node].
Proof.
  intros descs names ns H. unfold import_nodes in H.
  apply bind_ok in H. destruct H as [ns0 [H0 H]].
  destruct (mem_z 1024 (map n_id ns0)); [discriminate|]. inversion H; subst.
  apply import_nodes_aux_names in H0. cbn in H0. rewrite map_app, H0. reflexivity.
Qed.

(* node names are pairwise distinct (the importer refuses a duplicate) *)
Lemma mem_str_false_not_in : forall s l, mem_str s l = false -> ~ In s l.
Proof.
  intros s l H Hin. unfold mem_str in H.
  assert (existsb (String.eqb s) l = true) by (apply existsb_exists; exists s; split; [assumption|apply String.eqb_refl]).
  congruence.
Qed.

Lemma nodup_snoc : forall {A} (l : list A) x, NoDup l -> ~ In x l -> NoDup (l ++ [x]).
Proof.
  intros A l x Hnd Hx. induction Hnd as [|y l Hy Hl IH]; cbn.
  - constructor; [intros []|constructor].
  - constructor.
    + rewrite in_app_iff. cbn. intros [H|[H|[]]]; [auto|]. subst. apply Hx. left. reflexivity.
    + apply IH. intros H. apply Hx. right. assumption.
Qed.

Lemma import_nodes_aux_nodup : forall descs names idx acc ns,
  NoDup (map n_name acc) -> ~ In dummy_node (map n_name acc) ->
  import_nodes_aux descs names idx acc = Ok ns ->
  NoDup (map n_name ns) /\ ~ In dummy_node (map n_name ns).
Proof.
  intros descs names. induction names as [|nm r IH]; intros idx acc ns Hnd Hdm H; cbn in H.
  - inversion H; subst. auto.
  - destruct (String.eqb nm dummy_node) eqn:E; [eapply IH; eauto|].
    destruct (mem_str nm (map n_name acc)) eqn:Em; [discriminate|].
    destruct (mem_z idx (map n_id acc)); [discriminate|].
    apply IH in H; [assumption| |].
    + rewrite map_app. cbn. apply nodup_snoc; [assumption|].
      apply mem_str_false_not_in. assumption.
    + rewrite map_app, in_app_iff. cbn. intros [Hi|[Hi|[]]]; [auto|].
      subst. rewrite String.eqb_refl in E. discriminate.
Qed.

(* ------------------------------------------------------------------------------------------ *)
(* messages                                                                                    *)
(* ------------------------------------------------------------------------------------------ *)
Definition sorted_signals (dm : dmessage) : list dsignal :=
  sort_by (fun a b => get_start_bit a <? get_start_bit b) (dm_signals dm).
(* receivers of a message: union of the signals' receivers without the placeholder *)
Definition recs_of (dm : dmessage) : list string :=
  filter not_dummy (dedup_str [] (flat_map ds_receivers (sorted_signals dm))).
Definition order_of (dm : dmessage) : byte_order :=
  match sorted_signals dm with [] => LittleEndian | s :: _ => ds_order s end.

Definition msg_head (m : message) := (m_canid m, m_name m, m_size m, m_sender m, m_receivers m, m_order m).
Definition dmsg_head (dm : dmessage) := (dm_id dm, dm_name dm, dm_size dm, dm_tx dm, recs_of dm, order_of dm).

Lemma import_message_inv : forall st msgs nodes dm st' msgs',
  import_message (st, msgs) nodes dm = Ok (st', msgs') ->
  exists m sigs,
    msgs' = msgs ++ [m] /\ msg_head m = dmsg_head dm /\ m_signals m = sigs /\
    import_message_signals st (length msgs) dm = Ok (st', sigs) /\
    m_desc m = match lookup Z.eqb (dm_id dm) (is_msg_desc st) with Some d => d | None => EmptyString end /\
    m_attrs m = [] /\ m_cycle m = 0 /\ m_delay m = 0 /\ m_startdelay m = 0 /\ m_sendtype m = 0 /\
    forallb (fun r => mem_str r (map n_name nodes)) (recs_of dm) = true /\
    mem_str (dm_tx dm) (map n_name nodes) = true /\
    dm_size dm <= 8 /\ mem_z (dm_id dm) (map m_canid msgs) = false /\
    forallb (fun s => bo_eqb (ds_order s) (order_of dm)) (sorted_signals dm) = true.
Proof.
  intros st msgs nodes dm st' msgs' H. unfold import_message in H.
  fold (sorted_signals dm) in H. fold (order_of dm) in H.
  destruct (forallb (fun s => bo_eqb (ds_order s) (order_of dm)) (sorted_signals dm)) eqn:Eo; cbn [negb] in H; [|discriminate].
  change (filter (fun r : string => negb (r =? dummy_node)%string)
                 (dedup_str [] (flat_map ds_receivers (sorted_signals dm)))) with (recs_of dm) in H.
  destruct (forallb (fun r => mem_str r (map n_name nodes)) (recs_of dm)) eqn:Er; cbn [negb] in H; [|discriminate].
  destruct (mem_str (dm_tx dm) (map n_name nodes)) eqn:Et; cbn [negb] in H; [|discriminate].
  destruct (mem_str (dm_name dm) _); [discriminate|].
  destruct (dm_size dm >? 8) eqn:Es; [discriminate|].
  destruct (mem_z (dm_id dm) (map m_canid msgs)) eqn:Ei; [discriminate|].
  apply bind_ok in H. destruct H as [[st1 sigs] [Hs H]]. inversion H; subst.
  eexists; exists sigs. repeat split; try reflexivity; try assumption. lia.
Qed.

Lemma import_messages_fold : forall nodes dms st msgs st' msgs',
  fold_left (fun acc dm => do a <- acc; import_message a nodes dm) dms (Ok (st, msgs)) = Ok (st', msgs') ->
  map msg_head msgs' = map msg_head msgs ++ map dmsg_head dms.
Proof.
  intros nodes dms. induction dms as [|dm r IH]; intros st msgs st' msgs' H; cbn [fold_left] in H.
  - inversion H; subst. cbn. rewrite app_nil_r. reflexivity.
  - cbn [bind] in H.
    destruct (import_message (st, msgs) nodes dm) as [[st1 msgs1]|w] eqn:E.
    + apply IH in H. apply import_message_inv in E.
      destruct E as [m [sigs [Hm [Hh _]]]]. subst msgs1.
      rewrite H, map_app. cbn. rewrite Hh, <- app_assoc. reflexivity.
    + rewrite fold_result_err in H by reflexivity. discriminate.
Qed.

(* ---- the top-level structure of `import` ---- *)
Lemma import_inv : forall d b, import d = Ok b ->
  exists bdesc st0 st3 nodes st4 msgs b1,
    import_comments (d_comments d) = (bdesc, st0) /\
    import_nodes (is_node_desc st3) (d_nodes d) = Ok nodes /\
    is_node_desc st3 = is_node_desc st0 /\ is_msg_desc st3 = is_msg_desc st0 /\ is_sig_desc st3 = is_sig_desc st0 /\
    fold_left (fun acc dm => do a <- acc; import_message a nodes dm) (d_messages d) (Ok (st3, [])) = Ok (st4, msgs) /\
    import_attributes (is_sigmap st4) d (mkbus (d_filename d) bdesc [] nodes (is_enums st4) msgs) = Ok b1 /\
    b = (if existsb (fun m => String.eqb (m_sender m) dummy_node) (b_messages b1) then b1
         else set_b_nodes b1 (filter (fun n => negb (String.eqb (n_name n) dummy_node)) (b_nodes b1))).
Proof.
  intros d b H. unfold import in H.
  destruct (import_comments (d_comments d)) as [bdesc st0] eqn:Ec.
  apply bind_ok in H. destruct H as [st1 [H1 H]].
  apply bind_ok in H. destruct H as [st2 [H2 H]].
  apply bind_ok in H. destruct H as [nodes [Hn H]].
  apply bind_ok in H. destruct H as [[st4 msgs] [Hm H]].
  apply bind_ok in H. destruct H as [b1 [Hb H]].
  assert (Hd1 : is_node_desc st1 = is_node_desc st0 /\ is_msg_desc st1 = is_msg_desc st0 /\ is_sig_desc st1 = is_sig_desc st0).
  { revert H1. apply (fold_result_inv _ (fun s => is_node_desc s = is_node_desc st0 /\ is_msg_desc s = is_msg_desc st0 /\ is_sig_desc s = is_sig_desc st0));
      [reflexivity| |auto].
    intros a x a' Ha Hx. cbn [bind] in Hx. unfold import_value_table in Hx.
    apply bind_ok in Hx. destruct Hx as [e [_ Hx]]. inversion Hx; subst. exact Ha. }
  assert (Hd2 : is_node_desc st2 = is_node_desc st0 /\ is_msg_desc st2 = is_msg_desc st0 /\ is_sig_desc st2 = is_sig_desc st0).
  { revert H2. apply (fold_result_inv _ (fun s => is_node_desc s = is_node_desc st0 /\ is_msg_desc s = is_msg_desc st0 /\ is_sig_desc s = is_sig_desc st0));
      [reflexivity| |exact Hd1].
    intros a x a' Ha Hx. cbn [bind] in Hx. unfold import_value_encoding in Hx.
    destruct (negb (ve_signal x)); [inversion Hx; subst; exact Ha|].
    destruct (find_in_registry _ _ _); [inversion Hx; subst; exact Ha|].
    apply bind_ok in Hx. destruct Hx as [e [_ Hx]]. inversion Hx; subst. exact Ha. }
  exists bdesc, st0, (import_ext_muxes st2 (d_extmuxes d)), nodes, st4, msgs, b1.
  repeat split; try assumption; try (cbn; apply Hd2).
  destruct (existsb _ _); inversion H; reflexivity.
Qed.

Definition head_of_skel (k : Z * string * Z * byte_order * string * list string * string * list
   (Z * string * skind * Z * option Z * list Z * Z * bool * (fl * fl * fl * fl * string * Z * Z * Z * string)))
  := let '(c, n, sz, o, snd_, recs, _, _) := k in (c, n, sz, snd_, recs, o).
Lemma msg_head_skel : forall m, msg_head m = head_of_skel (msg_skel m).
Proof. intros m. reflexivity. Qed.

Lemma map_ext_skel : forall {A S T} (skel : A -> S) (g : S -> T) (f : A -> T) l l',
  (forall x, f x = g (skel x)) -> map skel l = map skel l' -> map f l = map f l'.
Proof.
  intros A S T skel g f l l' Hf H.
  rewrite (map_ext f (fun x => g (skel x))) by assumption.
  rewrite (map_ext f (fun x => g (skel x)) Hf l').
  rewrite <- !map_map. rewrite H. reflexivity.
Qed.

Lemma existsb_map : forall {A B} (g : A -> B) p l, existsb p (map g l) = existsb (fun x => p (g x)) l.
Proof. intros A B g p l. induction l; cbn; [reflexivity|]. rewrite IHl. reflexivity. Qed.

Lemma filter_map_comm : forall {A B} (g : A -> B) p l, filter p (map g l) = map g (filter (fun x => p (g x)) l).
Proof. intros A B g p l. induction l; cbn; [reflexivity|]. destruct (p (g a)); cbn; rewrite IHl; reflexivity. Qed.

Lemma filter_idem : forall {A} (p : A -> bool) l, filter p (filter p l) = filter p l.
Proof.
  intros A p l. induction l; cbn; [reflexivity|]. destruct (p a) eqn:E; cbn; rewrite ?E, IHl; reflexivity.
Qed.

Lemma import_messages_heads : forall d b, import d = Ok b ->
  map msg_head (b_messages b) = map dmsg_head (d_messages d).
Proof.
  intros d b H. apply import_inv in H.
  destruct H as [bdesc [st0 [st3 [nodes [st4 [msgs [b1 [_ [_ [_ [_ [_ [Hm [Hb Hbb]]]]]]]]]]]]]].
  apply import_attributes_skel in Hb. unfold bus_skel in Hb. cbn in Hb.
  assert (Hk : map msg_skel (b_messages b1) = map msg_skel msgs) by (inversion Hb; assumption).
  assert (Hb' : b_messages b = b_messages b1) by (subst b; destruct (existsb _ _); reflexivity).
  rewrite Hb'. rewrite (map_ext_skel msg_skel head_of_skel msg_head _ msgs msg_head_skel Hk).
  apply import_messages_fold in Hm. cbn in Hm. exact Hm.
Qed.

(* import_nodes: exactly the file's nodes, in order, plus the placeholder sender when a message names none *)
Lemma import_nodes_thm : forall d b, import d = Ok b ->
  map n_name (b_nodes b) =
  filter not_dummy (d_nodes d)
  ++ (if existsb (fun dm => String.eqb (dm_tx dm) dummy_node) (d_messages d) then [dummy_node] else []).
Proof.
  intros d b H. pose proof (import_messages_heads d b H) as Hh. apply import_inv in H.
  destruct H as [bdesc [st0 [st3 [nodes [st4 [msgs [b1 [_ [Hn [_ [_ [_ [Hm [Hb Hbb]]]]]]]]]]]]]].
  apply import_attributes_skel in Hb. unfold bus_skel in Hb. cbn in Hb.
  assert (Hk : map node_skel (b_nodes b1) = map node_skel nodes) by (inversion Hb; assumption).
  assert (Hnames : map n_name (b_nodes b1) = map n_name nodes).
  { apply (map_ext_skel node_skel (fun k => fst (fst k)) n_name); [reflexivity|assumption]. }
  apply import_nodes_names in Hn.
  assert (Hsend : existsb (fun m => String.eqb (m_sender m) dummy_node) (b_messages b1)
                  = existsb (fun dm => String.eqb (dm_tx dm) dummy_node) (d_messages d)).
  { assert (Hb' : b_messages b = b_messages b1) by (subst b; destruct (existsb _ _); reflexivity).
    rewrite Hb' in Hh.
    assert (Hs : map m_sender (b_messages b1) = map dm_tx (d_messages d)).
    { rewrite (map_ext m_sender (fun m => snd (fst (fst (msg_head m))))) by reflexivity.
      rewrite (map_ext dm_tx (fun m => snd (fst (fst (dmsg_head m))))) by reflexivity.
      rewrite <- (map_map msg_head), <- (map_map dmsg_head), Hh. reflexivity. }
    rewrite <- (existsb_map m_sender (fun s => String.eqb s dummy_node)).
    rewrite <- (existsb_map dm_tx (fun s => String.eqb s dummy_node)). rewrite Hs. reflexivity. }
  rewrite Hsend in Hbb. subst b.
  destruct (existsb (fun dm => String.eqb (dm_tx dm) dummy_node) (d_messages d)).
  - rewrite Hnames, Hn. reflexivity.
  - cbn [b_nodes set_b_nodes].
    rewrite <- (filter_map_comm n_name not_dummy). rewrite Hnames, Hn.
    rewrite filter_app, filter_idem. cbn. rewrite app_nil_r. reflexivity.
Qed.
