(* C10 — proofs about the model (Import.v, Bits.v). *)
From Coq Require Import String Ascii ZArith List Bool Lia.
From Coq Require Import ZifyBool.
From Acme.C10 Require Import DbcDoc BusModel Import Bits.
Import ListNotations.
Open Scope Z_scope.
Ltac Zify.zify_post_hook ::= Z.div_mod_to_equations.

(* the Motorola start-bit conversion is an involution on bit numbers *)
Lemma start_bit_inverse :
  forall o p, 0 <= p -> pos_of_dbc o (dbc_of_pos o p) = p /\ dbc_of_pos o (pos_of_dbc o p) = p.
Proof.
  intros [|] p Hp; unfold pos_of_dbc, dbc_of_pos; split; try reflexivity.
  - assert (H : (p + 7 - 2 * (p mod 8)) mod 8 = 7 - p mod 8) by lia. rewrite H. lia.
  - assert (H : (p + 7 - 2 * (p mod 8)) mod 8 = 7 - p mod 8) by lia. rewrite H. lia.
Qed.
