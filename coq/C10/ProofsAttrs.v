(* C10 — importAttributes, the part that can be stated without locating an entity: the attribute
   definitions the importer uses (one per BA_DEF_, default from the last BA_DEF_DEF_ of that name, number
   read from the slot the parser filled) and the attribute assignments of the BUS: exactly the BA_ lines
   without object, in file order, each value read with `attr_value` (integer literal for a float attribute
   accepted, enum index resolved), later lines of one name replacing earlier ones.  A value that does not
   conform makes the import fail, so on success every assignment conforms. *)
From Coq Require Import String Ascii ZArith List Bool Lia.
From Acme.C10 Require Import DbcDoc BusModel Import Proofs.
Import ListNotations.
Open Scope Z_scope.

Definition def_map (d : doc) : result (list (string * attr_def)) :=
  let defmap := fold_left (fun acc df => (ad_name df, df) :: acc) (d_attrdefs d) [] in
  fold_left (fun acc a =>
     do l <- acc;
     match lookup String.eqb (at_name a) defmap with
     | None => Err "attribute default is required"
     | Some df => do ad <- import_attr_def a df; Ok ((at_name a, ad) :: l)
     end) (d_attrs d) (Ok []).

Definition gen_step (amap : list (string * attr_def)) (l : list attr_asg) (av : dattrval) : list attr_asg :=
  match av_kind av with
  | OGeneral =>
      match lookup String.eqb (av_name av) amap with
      | Some ad => match attr_value ad av with
                   | Ok v => if check_value ad v then assign (av_name av) ad v l else l
                   | Err _ => l
                   end
      | None => l
      end
  | _ => l
  end.

Definition astep (amap : list (string * attr_def)) (sm : list (key * (nat * Z))) (acc : result bus) (av : dattrval) : result bus :=
  do b0 <- acc;
  let name := av_name av in
  match lookup String.eqb name amap with
  | None => Ok b0
  | Some ad =>
      do v <- attr_value ad av;
      match av_kind av with
      | OGeneral => do a <- try_assign name ad v (b_attrs b0); Ok (set_b_attrs b0 a)
      | ONode =>
          if String.eqb (av_node av) dummy_node then Ok b0 else
          do ns <- update_first (fun n => String.eqb (n_name n) (av_node av))
                     (fun n => do a <- try_assign name ad v (n_attrs n);
                               Ok (mknode (n_name n) (n_id n) (n_desc n) a)) (b_nodes b0);
          Ok (set_b_nodes b0 ns)
      | OMessage =>
          do ms <- update_first (fun m => m_canid m =? av_msg av) (assign_message name ad v) (b_messages b0);
          Ok (set_b_messages b0 ms)
      | OSignal =>
          match lookup key_eqb (av_msg av, av_sig av) sm with
          | None => Ok b0
          | Some (mpos, sid) =>
              do ms <- update_nth mpos (fun m =>
                         do ss <- update_first (fun s => s_id s =? sid) (assign_signal name ad v) (m_signals m);
                         Ok (set_m_signals m ss)) (b_messages b0);
              Ok (set_b_messages b0 ms)
          end
      | OEnvVar => Ok b0
      end
  end.

Lemma import_attributes_unfold : forall sm d b,
  import_attributes sm d b = (do amap <- def_map d; fold_left (astep amap sm) (d_attrvals d) (Ok b)).
Proof. reflexivity. Qed.

Lemma astep_general : forall amap sm b0 av b1, astep amap sm (Ok b0) av = Ok b1 ->
  b_attrs b1 = gen_step amap (b_attrs b0) av /\
  (av_kind av = OGeneral -> forall ad, lookup String.eqb (av_name av) amap = Some ad ->
     exists v, attr_value ad av = Ok v /\ check_value ad v = true).
Proof.
  intros amap sm b0 av b1 H. unfold astep in H. cbn [bind] in H. unfold gen_step.
  destruct (lookup String.eqb (av_name av) amap) as [ad|] eqn:El.
  2:{ inversion H; subst. split; [destruct (av_kind av); reflexivity|intros _ ad Had; discriminate Had]. }
  destruct (attr_value ad av) as [v|w] eqn:Ev; cbn [bind] in H; [|discriminate].
  destruct (av_kind av) eqn:Ek.
  - unfold try_assign in H. destruct (check_value ad v) eqn:Ec; cbn [bind] in H; [|discriminate]. inversion H; subst.
    split; [reflexivity|]. intros _ ad' Had. inversion Had; subst. exists v. auto.
  - split; [|intros Hk; discriminate Hk]. destruct (String.eqb (av_node av) dummy_node); [inversion H; reflexivity|].
    apply bind_ok in H. destruct H as [ns [_ H]]. inversion H; reflexivity.
  - split; [|intros Hk; discriminate Hk]. apply bind_ok in H. destruct H as [ms [_ H]]. inversion H; reflexivity.
  - split; [|intros Hk; discriminate Hk]. destruct (lookup key_eqb _ sm) as [[mpos sid]|]; [|inversion H; reflexivity].
    apply bind_ok in H. destruct H as [ms [_ H]]. inversion H; reflexivity.
  - split; [|intros Hk; discriminate Hk]. inversion H; reflexivity.
Qed.

Lemma astep_fold_general : forall amap sm avs b0 b1, fold_left (astep amap sm) avs (Ok b0) = Ok b1 ->
  b_attrs b1 = fold_left (gen_step amap) avs (b_attrs b0) /\
  forall av ad, In av avs -> av_kind av = OGeneral -> lookup String.eqb (av_name av) amap = Some ad ->
    exists v, attr_value ad av = Ok v /\ check_value ad v = true.
Proof.
  intros amap sm avs. induction avs as [|av r IH]; intros b0 b1 H; cbn [fold_left] in H.
  - inversion H; subst. split; [reflexivity|intros av ad []].
  - destruct (astep amap sm (Ok b0) av) as [b0'|w] eqn:E.
    2:{ rewrite fold_result_err in H; [discriminate|intros x w'; reflexivity]. }
    destruct (astep_general _ _ _ _ _ E) as [A1 A2]. destruct (IH _ _ H) as [I1 I2]. split.
    + cbn [fold_left]. rewrite I1, A1. reflexivity.
    + intros av' ad [<-|Hin] Hk Hl; [apply A2; assumption|apply I2; assumption].
Qed.

Lemma def_map_provenance : forall d amap, def_map d = Ok amap ->
  forall name ad, In (name, ad) amap ->
    exists a df, In a (d_attrs d) /\ at_name a = name /\ In df (d_attrdefs d) /\ ad_name df = name /\
                 import_attr_def a df = Ok ad.
Proof.
  intros d amap H. unfold def_map in H. cbv zeta in H.
  set (defmap := fold_left (fun acc df => (ad_name df, df) :: acc) (d_attrdefs d) []) in *.
  assert (Hdm : forall name df, lookup String.eqb name defmap = Some df -> In df (d_attrdefs d) /\ ad_name df = name).
  { assert (G : forall l acc name df, lookup String.eqb name (fold_left (fun acc df => (ad_name df, df) :: acc) l acc) = Some df ->
               (In df l /\ ad_name df = name) \/ lookup String.eqb name acc = Some df).
    { induction l as [|x r IH]; intros acc name df Hl; cbn [fold_left] in Hl; [right; assumption|].
      destruct (IH _ _ _ Hl) as [[H1 H2]|H1]; [left; split; [right; assumption|assumption]|].
      cbn [lookup] in H1. destruct (String.eqb name (ad_name x)) eqn:E; [|right; assumption].
      inversion H1; subst. apply String.eqb_eq in E. left. split; [left; reflexivity|symmetry; assumption]. }
    intros name df Hl. destruct (G _ _ _ _ Hl) as [Hg|Hg]; [assumption|discriminate Hg]. }
  assert (G2 : forall l acc res, (forall name ad, In (name, ad) acc -> exists a df, In a (d_attrs d) /\ at_name a = name /\ In df (d_attrdefs d) /\ ad_name df = name /\ import_attr_def a df = Ok ad) ->
             incl l (d_attrs d) ->
             fold_left (fun acc a => do l <- acc; match lookup String.eqb (at_name a) defmap with
                 | None => Err "attribute default is required"
                 | Some df => do ad <- import_attr_def a df; Ok ((at_name a, ad) :: l) end) l (Ok acc) = Ok res ->
             forall name ad, In (name, ad) res -> exists a df, In a (d_attrs d) /\ at_name a = name /\ In df (d_attrdefs d) /\ ad_name df = name /\ import_attr_def a df = Ok ad).
  { induction l as [|a r IH]; intros acc res Hacc Hincl Hf; cbn [fold_left] in Hf; [inversion Hf; subst; exact Hacc|].
    cbn [bind] in Hf. destruct (lookup String.eqb (at_name a) defmap) as [df|] eqn:El.
    2:{ rewrite fold_result_err in Hf; [discriminate|intros x w'; reflexivity]. }
    destruct (import_attr_def a df) as [ad0|w] eqn:Ei; cbn [bind] in Hf.
    2:{ rewrite fold_result_err in Hf; [discriminate|intros x w'; reflexivity]. }
    eapply IH; [|intros x Hx; apply Hincl; right; assumption|exact Hf].
    intros name ad [Hin|Hin]; [|apply Hacc; assumption]. inversion Hin; subst.
    destruct (Hdm _ _ El) as [D1 D2]. exists a, df. split; [apply Hincl; left; reflexivity|auto]. }
  eapply G2; [|apply incl_refl|exact H]. intros name ad [].
Qed.

Theorem import_bus_attributes : forall d b, import d = Ok b ->
  exists amap, def_map d = Ok amap /\
    b_attrs b = fold_left (gen_step amap) (d_attrvals d) [] /\
    (forall av ad, In av (d_attrvals d) -> av_kind av = OGeneral -> lookup String.eqb (av_name av) amap = Some ad ->
       exists v, attr_value ad av = Ok v /\ check_value ad v = true) /\
    (forall name ad, In (name, ad) amap ->
       exists a df, In a (d_attrs d) /\ at_name a = name /\ In df (d_attrdefs d) /\ ad_name df = name /\
                    import_attr_def a df = Ok ad).
Proof.
  intros d b H. apply import_inv in H.
  destruct H as [reg [es [se [nodes [st4 [msgs [b1 [_ [_ [_ [_ [Hb Hbb]]]]]]]]]]]].
  rewrite import_attributes_unfold in Hb. apply bind_ok in Hb. destruct Hb as [amap [Hd Hf]].
  exists amap. split; [assumption|]. destruct (astep_fold_general _ _ _ _ _ Hf) as [F1 F2]. cbn [b_attrs] in F1.
  assert (Hba : b_attrs b = b_attrs b1) by (subst b; destruct (existsb _ _); reflexivity).
  split; [rewrite Hba; exact F1|]. split; [exact F2|]. apply def_map_provenance. assumption.
Qed.

(* the int-or-decimal reading, spelled out on the literal forms *)
Theorem attr_value_literals : forall av,
  (forall d mn mx, av_type av = VInt -> attr_value (DefFloat d mn mx) av = Ok (ValFloat (fl_of_Z (av_int av)))) /\
  (forall d mn mx, av_type av = VFloat -> attr_value (DefFloat d mn mx) av = Ok (ValFloat (av_fl av))) /\
  (forall d mn mx h, av_type av = VInt -> attr_value (DefInt d mn mx h) av = Ok (ValInt (av_int av))) /\
  (forall d mn mx h, av_type av = VHex -> attr_value (DefInt d mn mx h) av = Ok (ValInt (av_hex av))).
Proof. intros av. unfold attr_value. repeat split; intros; rewrite H; reflexivity. Qed.
