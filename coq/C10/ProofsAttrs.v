(* C10 — importAttributes, the part that can be stated without locating an entity: the attribute
   definitions the importer uses (one per BA_DEF_, default from the last BA_DEF_DEF_ of that name, number
   read from the slot the parser filled) and the attribute assignments of the BUS: exactly the BA_ lines
   without object, in file order, each value read with `attr_value` (integer literal for a float attribute
   accepted, enum index resolved), later lines of one name replacing earlier ones.  A value that does not
   conform makes the import fail, so on success every assignment conforms. *)
From Coq Require Import String Ascii ZArith List Bool Lia.
From Acme.C10 Require Import DbcDoc BusModel Import Proofs.
Import ListNotations.
Open Scope Z_scope.

Definition def_map (d : doc) : result (list (string * attr_def)) :=
  let defmap := fold_left (fun acc df => (ad_name df, df) :: acc) (d_attrdefs d) [] in
  fold_left (fun acc a =>
     do l <- acc;
     match lookup String.eqb (at_name a) defmap with
     | None => Err "attribute default is required"
     | Some df => do ad <- import_attr_def a df; Ok ((at_name a, ad) :: l)
     end) (d_attrs d) (Ok []).

Definition gen_step (amap : list (string * attr_def)) (l : list attr_asg) (av : dattrval) : list attr_asg :=
  match av_kind av with
  | OGeneral =>
      match lookup String.eqb (av_name av) amap with
      | Some ad => match attr_value ad av with
                   | Ok v => if check_value ad v then assign (av_name av) ad v l else l
                   | Err _ => l
                   end
      | None => l
      end
  | _ => l
  end.

Definition astep (amap : list (string * attr_def)) (sm : list (key * (nat * Z))) (acc : result bus) (av : dattrval) : result bus :=
  do b0 <- acc;
  let name := av_name av in
  match lookup String.eqb name amap with
  | None => Ok b0
  | Some ad =>
      do v <- attr_value ad av;
      match av_kind av with
      | OGeneral => do a <- try_assign name ad v (b_attrs b0); Ok (set_b_attrs b0 a)
      | ONode =>
          if String.eqb (av_node av) dummy_node then Ok b0 else
          do ns <- update_first (fun n => String.eqb (n_name n) (av_node av))
                     (fun n => do a <- try_assign name ad v (n_attrs n);
                               Ok (mknode (n_name n) (n_id n) (n_desc n) a)) (b_nodes b0);
          Ok (set_b_nodes b0 ns)
      | OMessage =>
          do ms <- update_first (fun m => m_canid m =? av_msg av) (assign_message name ad v) (b_messages b0);
          Ok (set_b_messages b0 ms)
      | OSignal =>
          match lookup key_eqb (av_msg av, av_sig av) sm with
          | None => Ok b0
          | Some (mpos, sid) =>
              do ms <- update_nth mpos (fun m =>
                         do ss <- update_first (fun s => s_id s =? sid) (assign_signal name ad v) (m_signals m);
                         Ok (set_m_signals m ss)) (b_messages b0);
              Ok (set_b_messages b0 ms)
          end
      | OEnvVar => Ok b0
      end
  end.

Lemma import_attributes_unfold : forall sm d b,
  import_attributes sm d b = (do amap <- def_map d; fold_left (astep amap sm) (d_attrvals d) (Ok b)).
Proof. reflexivity. Qed.

Lemma astep_general : forall amap sm b0 av b1, astep amap sm (Ok b0) av = Ok b1 ->
  b_attrs b1 = gen_step amap (b_attrs b0) av /\
  (av_kind av = OGeneral -> forall ad, lookup String.eqb (av_name av) amap = Some ad ->
     exists v, attr_value ad av = Ok v /\ check_value ad v = true).
Proof.
  intros amap sm b0 av b1 H. unfold astep in H. cbn [bind] in H. unfold gen_step.
  destruct (lookup String.eqb (av_name av) amap) as [ad|] eqn:El.
  2:{ inversion H; subst. split; [destruct (av_kind av); reflexivity|intros _ ad Had; discriminate Had]. }
  destruct (attr_value ad av) as [v|w] eqn:Ev; cbn [bind] in H; [|discriminate].
  destruct (av_kind av) eqn:Ek.
  - unfold try_assign in H. destruct (check_value ad v) eqn:Ec; cbn [bind] in H; [|discriminate]. inversion H; subst.
    split; [reflexivity|]. intros _ ad' Had. inversion Had; subst. exists v. auto.
  - split; [|intros Hk; discriminate Hk]. destruct (String.eqb (av_node av) dummy_node); [inversion H; reflexivity|].
    apply bind_ok in H. destruct H as [ns [_ H]]. inversion H; reflexivity.
  - split; [|intros Hk; discriminate Hk]. apply bind_ok in H. destruct H as [ms [_ H]]. inversion H; reflexivity.
  - split; [|intros Hk; discriminate Hk]. destruct (lookup key_eqb _ sm) as [[mpos sid]|]; [|inversion H; reflexivity].
    apply bind_ok in H. destruct H as [ms [_ H]]. inversion H; reflexivity.
  - split; [|intros Hk; discriminate Hk]. inversion H; reflexivity.
Qed.

Lemma astep_fold_general : forall amap sm avs b0 b1, fold_left (astep amap sm) avs (Ok b0) = Ok b1 ->
  b_attrs b1 = fold_left (gen_step amap) avs (b_attrs b0) /\
  forall av ad, In av avs -> av_kind av = OGeneral -> lookup String.eqb (av_name av) amap = Some ad ->
    exists v, attr_value ad av = Ok v /\ check_value ad v = true.
Proof.
  intros amap sm avs. induction avs as [|av r IH]; intros b0 b1 H; cbn [fold_left] in H.
  - inversion H; subst. split; [reflexivity|intros av ad []].
  - destruct (astep amap sm (Ok b0) av) as [b0'|w] eqn:E.
    2:{ rewrite fold_result_err in H; [discriminate|intros x w'; reflexivity]. }
    destruct (astep_general _ _ _ _ _ E) as [A1 A2]. destruct (IH _ _ H) as [I1 I2]. split.
    + cbn [fold_left]. rewrite I1, A1. reflexivity.
    + intros av' ad [<-|Hin] Hk Hl; [apply A2; assumption|apply I2; assumption].
Qed.

Lemma def_map_provenance : forall d amap, def_map d = Ok amap ->
  forall name ad, In (name, ad) amap ->
    exists a df, In a (d_attrs d) /\ at_name a = name /\ In df (d_attrdefs d) /\ ad_name df = name /\
                 import_attr_def a df = Ok ad.
Proof.
  intros d amap H. unfold def_map in H. cbv zeta in H.
  set (defmap := fold_left (fun acc df => (ad_name df, df) :: acc) (d_attrdefs d) []) in *.
  assert (Hdm : forall name df, lookup String.eqb name defmap = Some df -> In df (d_attrdefs d) /\ ad_name df = name).
  { assert (G : forall l acc name df, lookup String.eqb name (fold_left (fun acc df => (ad_name df, df) :: acc) l acc) = Some df ->
               (In df l /\ ad_name df = name) \/ lookup String.eqb name acc = Some df).
    { induction l as [|x r IH]; intros acc name df Hl; cbn [fold_left] in Hl; [right; assumption|].
      destruct (IH _ _ _ Hl) as [[H1 H2]|H1]; [left; split; [right; assumption|assumption]|].
      cbn [lookup] in H1. destruct (String.eqb name (ad_name x)) eqn:E; [|right; assumption].
      inversion H1; subst. apply String.eqb_eq in E. left. split; [left; reflexivity|symmetry; assumption]. }
    intros name df Hl. destruct (G _ _ _ _ Hl) as [Hg|Hg]; [assumption|discriminate Hg]. }
  assert (G2 : forall l acc res, (forall name ad, In (name, ad) acc -> exists a df, In a (d_attrs d) /\ at_name a = name /\ In df (d_attrdefs d) /\ ad_name df = name /\ import_attr_def a df = Ok ad) ->
             incl l (d_attrs d) ->
             fold_left (fun acc a => do l <- acc; match lookup String.eqb (at_name a) defmap with
                 | None => Err "attribute default is required"
                 | Some df => do ad <- import_attr_def a df; Ok ((at_name a, ad) :: l) end) l (Ok acc) = Ok res ->
             forall name ad, In (name, ad) res -> exists a df, In a (d_attrs d) /\ at_name a = name /\ In df (d_attrdefs d) /\ ad_name df = name /\ import_attr_def a df = Ok ad).
  { induction l as [|a r IH]; intros acc res Hacc Hincl Hf; cbn [fold_left] in Hf; [inversion Hf; subst; exact Hacc|].
    cbn [bind] in Hf. destruct (lookup String.eqb (at_name a) defmap) as [df|] eqn:El.
    2:{ rewrite fold_result_err in Hf; [discriminate|intros x w'; reflexivity]. }
    destruct (import_attr_def a df) as [ad0|w] eqn:Ei; cbn [bind] in Hf.
    2:{ rewrite fold_result_err in Hf; [discriminate|intros x w'; reflexivity]. }
    eapply IH; [|intros x Hx; apply Hincl; right; assumption|exact Hf].
    intros name ad [Hin|Hin]; [|apply Hacc; assumption]. inversion Hin; subst.
    destruct (Hdm _ _ El) as [D1 D2]. exists a, df. split; [apply Hincl; left; reflexivity|auto]. }
  eapply G2; [|apply incl_refl|exact H]. intros name ad [].
Qed.

Theorem import_bus_attributes : forall d b, import d = Ok b ->
  exists amap, def_map d = Ok amap /\
    b_attrs b = fold_left (gen_step amap) (d_attrvals d) [] /\
    (forall av ad, In av (d_attrvals d) -> av_kind av = OGeneral -> lookup String.eqb (av_name av) amap = Some ad ->
       exists v, attr_value ad av = Ok v /\ check_value ad v = true) /\
    (forall name ad, In (name, ad) amap ->
       exists a df, In a (d_attrs d) /\ at_name a = name /\ In df (d_attrdefs d) /\ ad_name df = name /\
                    import_attr_def a df = Ok ad).
Proof.
  intros d b H. apply import_inv in H.
  destruct H as [reg [es [se [nodes [st4 [msgs [b1 [_ [_ [_ [_ [Hb Hbb]]]]]]]]]]]].
  rewrite import_attributes_unfold in Hb. apply bind_ok in Hb. destruct Hb as [amap [Hd Hf]].
  exists amap. split; [assumption|]. destruct (astep_fold_general _ _ _ _ _ Hf) as [F1 F2]. cbn [b_attrs] in F1.
  assert (Hba : b_attrs b = b_attrs b1) by (subst b; destruct (existsb _ _); reflexivity).
  split; [rewrite Hba; exact F1|]. split; [exact F2|]. apply def_map_provenance. assumption.
Qed.

(* the int-or-decimal reading, spelled out on the literal forms *)
Theorem attr_value_literals : forall av,
  (forall d mn mx, av_type av = VInt -> attr_value (DefFloat d mn mx) av = Ok (ValFloat (fl_of_Z (av_int av)))) /\
  (forall d mn mx, av_type av = VFloat -> attr_value (DefFloat d mn mx) av = Ok (ValFloat (av_fl av))) /\
  (forall d mn mx h, av_type av = VInt -> attr_value (DefInt d mn mx h) av = Ok (ValInt (av_int av))) /\
  (forall d mn mx h, av_type av = VHex -> attr_value (DefInt d mn mx h) av = Ok (ValInt (av_hex av))).
Proof. intros av. unfold attr_value. repeat split; intros; rewrite H; reflexivity. Qed.

(* ---------------- the dedicated message fields come from the well-known attributes ---------------- *)
Section MsgFields.
  Variables (d : doc) (amap : list (string * attr_def)).

  Definition msrc (name : string) (v : attr_val) (m : message) : Prop :=
    exists av ad, In av (d_attrvals d) /\ av_kind av = OMessage /\ av_name av = name /\ av_msg av = m_canid m /\
                  lookup String.eqb name amap = Some ad /\ attr_value ad av = Ok v.
  Definition MF (m : message) : Prop :=
    (m_cycle m <> 0 -> msrc "GenMsgCycleTime" (ValInt (m_cycle m)) m) /\
    (m_delay m <> 0 -> msrc "GenMsgDelayTime" (ValInt (m_delay m)) m) /\
    (m_startdelay m <> 0 -> msrc "GenMsgStartDelayTime" (ValInt (m_startdelay m)) m) /\
    (m_sendtype m <> 0 -> exists s, msrc "GenMsgSendType" (ValString s) m /\ m_sendtype m = msg_send_type_from_dbc s).

  Lemma special_of_name : forall name sp, special_of name = Some sp ->
    name = match sp with
           | SpMsgCycle => "GenMsgCycleTime" | SpMsgDelay => "GenMsgDelayTime" | SpMsgStartDelay => "GenMsgStartDelayTime"
           | SpMsgSend => "GenMsgSendType" | SpSigStart => "GenSigStartValue" | SpSigSend => "GenSigSendType" end%string.
  Proof.
    intros name sp H. unfold special_of in H.
    repeat match type of H with (if String.eqb ?a ?b then _ else _) = _ =>
      destruct (String.eqb a b) eqn:E; [apply String.eqb_eq in E; inversion H; subst; reflexivity|clear E] end.
    discriminate H.
  Qed.

  Lemma MF_same : forall m m', m_canid m' = m_canid m -> m_cycle m' = m_cycle m -> m_delay m' = m_delay m ->
    m_startdelay m' = m_startdelay m -> m_sendtype m' = m_sendtype m -> MF m -> MF m'.
  Proof. intros m m' H0 H1 H2 H3 H4 H. unfold MF, msrc in *. rewrite H0, H1, H2, H3, H4. exact H. Qed.

  Lemma assign_message_MF : forall av ad v m m',
    In av (d_attrvals d) -> av_kind av = OMessage -> av_msg av = m_canid m ->
    lookup String.eqb (av_name av) amap = Some ad -> attr_value ad av = Ok v ->
    MF m -> assign_message (av_name av) ad v m = Ok m' -> MF m' /\ m_canid m' = m_canid m.
  Proof.
    intros av ad v m m' Hin Hk Hmsg Hl Hv HM H. unfold assign_message in H.
    destruct (special_of (av_name av)) as [sp|] eqn:Es.
    - pose proof (special_of_name _ _ Es) as Hn.
      assert (Hsrc : forall x, msrc (av_name av) x m -> forall m2, m_canid m2 = m_canid m -> msrc (av_name av) x m2).
      { intros x [a [b Hx]] m2 Hc. exists a, b. rewrite Hc. exact Hx. }
      assert (Hme : msrc (av_name av) v m) by (exists av, ad; auto 10).
      destruct HM as [M1 [M2 [M3 M4]]].
      destruct sp; try (inversion H; subst; split; [repeat split; assumption|reflexivity]);
        destruct v as [s|z|f]; try discriminate H; inversion H; subst m'; clear H; (split; [|reflexivity]);
        unfold MF, msrc in *; cbn [m_cycle m_delay m_startdelay m_sendtype m_canid set_m_times]; rewrite Hn in *.
      + repeat split; try assumption. intros _. exists av, ad. auto 10.
      + repeat split; try assumption. intros _. exists av, ad. auto 10.
      + repeat split; try assumption. intros _. exists av, ad. auto 10.
      + repeat split; try assumption. intros _. exists s. split; [exists av, ad; auto 10|reflexivity].
    - apply bind_ok in H. destruct H as [a [_ H]]. inversion H; subst. split; [|reflexivity].
      eapply MF_same; [| | | | |exact HM]; reflexivity.
  Qed.

  Lemma update_first_inv : forall {A} (p : A -> bool) (f : A -> result A) (Q : A -> Prop) l l',
    update_first p f l = Ok l' -> Forall Q l -> (forall x y, In x l -> p x = true -> f x = Ok y -> Q x -> Q y) -> Forall Q l'.
  Proof.
    intros A p f Q l. induction l as [|x r IH]; intros l' H HQ Hf; cbn [update_first] in H; [inversion H; constructor|].
    inversion HQ as [|? ? Hx Hr]; subst. destruct (p x) eqn:E.
    - apply bind_ok in H. destruct H as [y [Hy H]]. inversion H; subst. constructor; [eapply Hf; eauto; left; reflexivity|assumption].
    - apply bind_ok in H. destruct H as [r' [Hr' H]]. inversion H; subst. constructor; [assumption|].
      eapply IH; eauto. intros a b Ha. apply Hf. right. assumption.
  Qed.
  Lemma update_nth_inv : forall {A} (f : A -> result A) (Q : A -> Prop) n l l',
    update_nth n f l = Ok l' -> Forall Q l -> (forall x y, f x = Ok y -> Q x -> Q y) -> Forall Q l'.
  Proof.
    intros A f Q n. induction n as [|n IH]; intros [|x r] l' H HQ Hf; cbn [update_nth] in H; try (inversion H; constructor; fail).
    - inversion HQ; subst. apply bind_ok in H. destruct H as [y [Hy H]]. inversion H; subst. constructor; [eapply Hf; eauto|assumption].
    - inversion HQ; subst. apply bind_ok in H. destruct H as [r' [Hr' H]]. inversion H; subst. constructor; [assumption|eapply IH; eauto].
  Qed.

  Lemma astep_MF : forall sm b0 av b1, In av (d_attrvals d) -> astep amap sm (Ok b0) av = Ok b1 ->
    Forall MF (b_messages b0) -> Forall MF (b_messages b1).
  Proof.
    intros sm b0 av b1 Hin H HM. unfold astep in H. cbn [bind] in H.
    destruct (lookup String.eqb (av_name av) amap) as [ad|] eqn:El; [|inversion H; subst; assumption].
    destruct (attr_value ad av) as [v|w] eqn:Ev; cbn [bind] in H; [|discriminate].
    destruct (av_kind av) eqn:Ek.
    - apply bind_ok in H. destruct H as [a [_ H]]. inversion H; subst. exact HM.
    - destruct (String.eqb (av_node av) dummy_node); [inversion H; subst; assumption|].
      apply bind_ok in H. destruct H as [ns [_ H]]. inversion H; subst. exact HM.
    - apply bind_ok in H. destruct H as [ms [Hu H]]. inversion H; subst. cbn [b_messages set_b_messages].
      eapply update_first_inv; [exact Hu|exact HM|].
      intros x y _ Hp Hf Hx. apply Z.eqb_eq in Hp. symmetry in Hp.
      destruct (assign_message_MF av ad v x y Hin Ek Hp El Ev Hx Hf) as [Hy _]. exact Hy.
    - destruct (lookup key_eqb _ sm) as [[mpos sid]|]; [|inversion H; subst; assumption].
      apply bind_ok in H. destruct H as [ms [Hu H]]. inversion H; subst. cbn [b_messages set_b_messages].
      eapply update_nth_inv; [exact Hu|exact HM|].
      intros x y Hf Hx. apply bind_ok in Hf. destruct Hf as [ss [_ Hf]]. inversion Hf; subst.
      eapply MF_same; [| | | | |exact Hx]; reflexivity.
    - inversion H; subst. exact HM.
  Qed.
End MsgFields.

Lemma import_messages_zero_fields : forall env nodes dms st msgs st' msgs',
  fold_left (fun acc dm => do a <- acc; import_message env a nodes dm) dms (Ok (st, msgs)) = Ok (st', msgs') ->
  Forall (fun m => m_cycle m = 0 /\ m_delay m = 0 /\ m_startdelay m = 0 /\ m_sendtype m = 0) msgs ->
  Forall (fun m => m_cycle m = 0 /\ m_delay m = 0 /\ m_startdelay m = 0 /\ m_sendtype m = 0) msgs'.
Proof.
  intros env nodes dms. induction dms as [|dm r IH]; intros st msgs st' msgs' H HZ; cbn [fold_left] in H.
  - inversion H; subst. assumption.
  - cbn [bind] in H. destruct (import_message env (st, msgs) nodes dm) as [[st1 msgs1]|w] eqn:E.
    2:{ rewrite fold_result_err in H by reflexivity. discriminate. }
    apply import_message_inv in E. destruct E as [m [sigs [Hm [_ [_ [_ [_ [_ [Z1 [Z2 [Z3 Z4]]]]]]]]]]]. 
    eapply IH; [exact H|]. subst msgs1. apply Forall_app. split; [assumption|]. constructor; [|constructor].
    destruct Z4 as [Z4 _] || idtac. auto.
Qed.

Lemma astep_fold_MF : forall d amap sm avs b0 b1, incl avs (d_attrvals d) ->
  fold_left (astep amap sm) avs (Ok b0) = Ok b1 -> Forall (MF d amap) (b_messages b0) -> Forall (MF d amap) (b_messages b1).
Proof.
  intros d amap sm avs. induction avs as [|av r IH]; intros b0 b1 Hi H HM; cbn [fold_left] in H; [inversion H; subst; assumption|].
  destruct (astep amap sm (Ok b0) av) as [b0'|w] eqn:E.
  2:{ rewrite fold_result_err in H; [discriminate|intros x w'; reflexivity]. }
  eapply IH; [intros x Hx; apply Hi; right; assumption|exact H|].
  eapply astep_MF; [apply Hi; left; reflexivity|exact E|exact HM].
Qed.

Theorem import_message_fields : forall d b, import d = Ok b ->
  exists amap, def_map d = Ok amap /\ Forall (MF d amap) (b_messages b).
Proof.
  intros d b H. apply import_inv in H.
  destruct H as [reg [es [se [nodes [st4 [msgs [b1 [_ [_ [_ [Hm [Hb Hbb]]]]]]]]]]]].
  rewrite import_attributes_unfold in Hb. apply bind_ok in Hb. destruct Hb as [amap [Hd Hf]].
  exists amap. split; [assumption|].
  assert (Hbm : b_messages b = b_messages b1) by (subst b; destruct (existsb _ _); reflexivity).
  rewrite Hbm. eapply astep_fold_MF; [apply incl_refl|exact Hf|]. cbn [b_messages].
  pose proof (import_messages_zero_fields _ _ _ _ _ _ _ Hm (Forall_nil _)) as HZ.
  eapply Forall_impl; [|exact HZ]. intros m [Z1 [Z2 [Z3 Z4]]]. unfold MF. rewrite Z1, Z2, Z3, Z4.
  repeat split; intros Hc; exfalso; apply Hc; reflexivity.
Qed.
