(* C10 — importAttributes on NODES and MESSAGES of any accepted document: every attribute assignment the
   imported node / message carries comes from a BA_ line of that object kind that names this node / this
   message's CAN-ID, under the definition the importer built for that name, with the value read by
   `attr_value` from the line and conforming to the definition (`check_value`).  Together with
   ProofsAttrs (bus-level assignments, dedicated message fields, definitions). *)
From Coq Require Import String Ascii ZArith List Bool Lia.
From Acme.C10 Require Import DbcDoc BusModel Import Proofs ProofsAttrs.
Import ListNotations.
Open Scope Z_scope.

Lemma assign_all : forall (Q : attr_asg -> Prop) name ad v l,
  (forall a, In a l -> Q a) -> Q (mkasg name ad v) -> forall a, In a (assign name ad v l) -> Q a.
Proof.
  intros Q name ad v l. induction l as [|x r IH]; intros Hl Hq a Ha; cbn [assign] in Ha.
  - destruct Ha as [<-|[]]. exact Hq.
  - destruct (String.eqb (aa_name x) name).
    + destruct Ha as [<-|Ha]; [exact Hq|apply Hl; right; assumption].
    + destruct Ha as [<-|Ha]; [apply Hl; left; reflexivity|]. apply IH; [intros y Hy; apply Hl; right; assumption|exact Hq|exact Ha].
Qed.

Lemma try_assign_all : forall (Q : attr_asg -> Prop) name ad v l l',
  try_assign name ad v l = Ok l' -> (forall a, In a l -> Q a) -> (check_value ad v = true -> Q (mkasg name ad v)) ->
  forall a, In a l' -> Q a.
Proof.
  intros Q name ad v l l' H Hl Hq. unfold try_assign in H. destruct (check_value ad v) eqn:E; [|discriminate].
  inversion H; subst. apply assign_all; [exact Hl|apply Hq; reflexivity].
Qed.

Section Provenance.
  Variables (d : doc) (amap : list (string * attr_def)).

  Definition asrc (k : okind) (T : dattrval -> Prop) (a : attr_asg) : Prop :=
    exists av, In av (d_attrvals d) /\ av_kind av = k /\ T av /\ av_name av = aa_name a /\
      lookup String.eqb (aa_name a) amap = Some (aa_def a) /\
      attr_value (aa_def a) av = Ok (aa_val a) /\ check_value (aa_def a) (aa_val a) = true.

  Definition NA (n : node) : Prop := forall a, In a (n_attrs n) -> asrc ONode (fun av => av_node av = n_name n) a.
  Definition MA (m : message) : Prop := forall a, In a (m_attrs m) -> asrc OMessage (fun av => av_msg av = m_canid m) a.

  Lemma astep_NA : forall sm b0 av b1, In av (d_attrvals d) -> astep amap sm (Ok b0) av = Ok b1 ->
    Forall NA (b_nodes b0) -> Forall NA (b_nodes b1).
  Proof.
    intros sm b0 av b1 Hin H HN. unfold astep in H. cbn [bind] in H.
    destruct (lookup String.eqb (av_name av) amap) as [ad|] eqn:El; [|inversion H; subst; assumption].
    destruct (attr_value ad av) as [v|w] eqn:Ev; cbn [bind] in H; [|discriminate].
    destruct (av_kind av) eqn:Ek.
    - apply bind_ok in H. destruct H as [a [_ H]]. inversion H; subst. exact HN.
    - destruct (String.eqb (av_node av) dummy_node); [inversion H; subst; assumption|].
      apply bind_ok in H. destruct H as [ns [Hu H]]. inversion H; subst. cbn [b_nodes set_b_nodes].
      eapply update_first_inv; [exact Hu|exact HN|].
      intros x y _ Hp Hf Hx. apply String.eqb_eq in Hp.
      apply bind_ok in Hf. destruct Hf as [a' [Ht Hf]]. inversion Hf; subst y. unfold NA. cbn [n_attrs n_name].
      eapply try_assign_all; [exact Ht|exact Hx|]. intros Hc. exists av. cbn [aa_name aa_def aa_val]. auto 10.
    - apply bind_ok in H. destruct H as [ms [_ H]]. inversion H; subst. exact HN.
    - destruct (lookup key_eqb _ sm) as [[mpos sid]|]; [|inversion H; subst; assumption].
      apply bind_ok in H. destruct H as [ms [_ H]]. inversion H; subst. exact HN.
    - inversion H; subst. exact HN.
  Qed.

  Lemma assign_message_MA : forall av ad v m m',
    In av (d_attrvals d) -> av_kind av = OMessage -> av_msg av = m_canid m ->
    lookup String.eqb (av_name av) amap = Some ad -> attr_value ad av = Ok v ->
    MA m -> assign_message (av_name av) ad v m = Ok m' -> MA m' /\ m_canid m' = m_canid m.
  Proof.
    intros av ad v m m' Hin Hk Hmsg Hl Hv HM H. unfold assign_message in H.
    destruct (special_of (av_name av)) as [[]|].
    1-4: destruct v; try discriminate; inversion H; subst; split; [exact HM|reflexivity].
    1-2: inversion H; subst; split; [exact HM|reflexivity].
    apply bind_ok in H. destruct H as [a' [Ht H]]. inversion H; subst m'. split; [|reflexivity].
    unfold MA. cbn [m_attrs set_m_attrs m_canid].
    eapply try_assign_all; [exact Ht|exact HM|]. intros Hc. exists av. cbn [aa_name aa_def aa_val]. auto 10.
  Qed.

  Lemma astep_MA : forall sm b0 av b1, In av (d_attrvals d) -> astep amap sm (Ok b0) av = Ok b1 ->
    Forall MA (b_messages b0) -> Forall MA (b_messages b1).
  Proof.
    intros sm b0 av b1 Hin H HM. unfold astep in H. cbn [bind] in H.
    destruct (lookup String.eqb (av_name av) amap) as [ad|] eqn:El; [|inversion H; subst; assumption].
    destruct (attr_value ad av) as [v|w] eqn:Ev; cbn [bind] in H; [|discriminate].
    destruct (av_kind av) eqn:Ek.
    - apply bind_ok in H. destruct H as [a [_ H]]. inversion H; subst. exact HM.
    - destruct (String.eqb (av_node av) dummy_node); [inversion H; subst; assumption|].
      apply bind_ok in H. destruct H as [ns [_ H]]. inversion H; subst. exact HM.
    - apply bind_ok in H. destruct H as [ms [Hu H]]. inversion H; subst. cbn [b_messages set_b_messages].
      eapply update_first_inv; [exact Hu|exact HM|].
      intros x y _ Hp Hf Hx. apply Z.eqb_eq in Hp. symmetry in Hp.
      destruct (assign_message_MA av ad v x y Hin Ek Hp El Ev Hx Hf) as [Hy _]. exact Hy.
    - destruct (lookup key_eqb _ sm) as [[mpos sid]|]; [|inversion H; subst; assumption].
      apply bind_ok in H. destruct H as [ms [Hu H]]. inversion H; subst. cbn [b_messages set_b_messages].
      eapply update_nth_inv; [exact Hu|exact HM|].
      intros x y Hf Hx. apply bind_ok in Hf. destruct Hf as [ss [_ Hf]]. inversion Hf; subst y. exact Hx.
    - inversion H; subst. exact HM.
  Qed.
End Provenance.

Lemma astep_fold_NA_MA : forall d amap sm avs b0 b1, incl avs (d_attrvals d) ->
  fold_left (astep amap sm) avs (Ok b0) = Ok b1 ->
  Forall (NA d amap) (b_nodes b0) /\ Forall (MA d amap) (b_messages b0) ->
  Forall (NA d amap) (b_nodes b1) /\ Forall (MA d amap) (b_messages b1).
Proof.
  intros d amap sm avs. induction avs as [|av r IH]; intros b0 b1 Hi H HM; cbn [fold_left] in H; [inversion H; subst; assumption|].
  destruct (astep amap sm (Ok b0) av) as [b0'|w] eqn:E.
  2:{ rewrite fold_result_err in H; [discriminate|intros x w'; reflexivity]. }
  eapply IH; [intros x Hx; apply Hi; right; assumption|exact H|]. destruct HM as [H1 H2]. split.
  - eapply astep_NA; [apply Hi; left; reflexivity|exact E|exact H1].
  - eapply astep_MA; [apply Hi; left; reflexivity|exact E|exact H2].
Qed.

Lemma import_nodes_aux_attrs : forall descs names idx acc ns,
  import_nodes_aux descs names idx acc = Ok ns -> Forall (fun n => n_attrs n = []) acc -> Forall (fun n => n_attrs n = []) ns.
Proof.
  intros descs names. induction names as [|nm r IH]; intros idx acc ns H Ha; cbn [import_nodes_aux] in H; [inversion H; subst; assumption|].
  destruct (String.eqb nm dummy_node); [eapply IH; eauto|].
  destruct (mem_str nm (map n_name acc)); [discriminate|]. destruct (mem_z idx (map n_id acc)); [discriminate|].
  eapply IH; [exact H|]. apply Forall_app. split; [assumption|]. constructor; [reflexivity|constructor].
Qed.

Lemma import_messages_no_attrs : forall env nodes dms st msgs st' msgs',
  fold_left (fun acc dm => do a <- acc; import_message env a nodes dm) dms (Ok (st, msgs)) = Ok (st', msgs') ->
  Forall (fun m => m_attrs m = []) msgs -> Forall (fun m => m_attrs m = []) msgs'.
Proof.
  intros env nodes dms. induction dms as [|dm r IH]; intros st msgs st' msgs' H HZ; cbn [fold_left] in H.
  - inversion H; subst. assumption.
  - cbn [bind] in H. destruct (import_message env (st, msgs) nodes dm) as [[st1 msgs1]|w] eqn:E.
    2:{ rewrite fold_result_err in H by reflexivity. discriminate. }
    apply import_message_inv in E. destruct E as [m [sigs [Hm [_ [_ [_ [_ [Ha _]]]]]]]].
    eapply IH; [exact H|]. subst msgs1. apply Forall_app. split; [assumption|]. constructor; [exact Ha|constructor].
Qed.

Theorem import_node_message_attributes : forall d b, import d = Ok b ->
  exists amap, def_map d = Ok amap /\ Forall (NA d amap) (b_nodes b) /\ Forall (MA d amap) (b_messages b).
Proof.
  intros d b H. apply import_inv in H.
  destruct H as [reg [es [se [nodes [st4 [msgs [b1 [_ [_ [Hn [Hm [Hb Hbb]]]]]]]]]]]].
  rewrite import_attributes_unfold in Hb. apply bind_ok in Hb. destruct Hb as [amap [Hd Hf]].
  exists amap. split; [assumption|].
  assert (H0 : Forall (NA d amap) (b_nodes b1) /\ Forall (MA d amap) (b_messages b1)).
  { eapply astep_fold_NA_MA; [apply incl_refl|exact Hf|]. cbn [b_nodes b_messages]. split.
    - unfold import_nodes in Hn. apply bind_ok in Hn. destruct Hn as [ns [Hn1 Hn2]].
      destruct (mem_z 1024 (map n_id ns)); [discriminate|]. inversion Hn2; subst nodes.
      pose proof (import_nodes_aux_attrs _ _ _ _ _ Hn1 (Forall_nil _)) as HA.
      apply Forall_app. split.
      + eapply Forall_impl; [|exact HA]. intros n Hna a Ha. rewrite Hna in Ha. destruct Ha.
      + constructor; [intros a []|constructor].
    - pose proof (import_messages_no_attrs _ _ _ _ _ _ _ Hm (Forall_nil _)) as HA.
      eapply Forall_impl; [|exact HA]. intros m Hma a Ha. rewrite Hma in Ha. destruct Ha. }
  destruct H0 as [H1 H2]. subst b. destruct (existsb _ _); [split; assumption|].
  cbn [b_nodes b_messages set_b_nodes]. split; [|assumption].
  apply Forall_forall. intros n Hn'. apply filter_In in Hn'. destruct Hn' as [Hn' _]. rewrite Forall_forall in H1. apply H1. assumption.
Qed.
