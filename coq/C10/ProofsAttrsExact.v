(* C10 — importAttributes on NODES and MESSAGES, exactly: the attribute assignments of an imported node are the
   BA_ BU_ lines naming it, in file order, read with `attr_value` under the imported definition, later lines of
   one attribute replacing earlier ones (completeness and last-line-wins; ProofsAttrsAll gives soundness only);
   the same for the user attributes of a message (BA_ BO_ lines with its CAN-ID whose name is not a well-known
   one - those go to the dedicated fields, ProofsAttrs.import_message_fields). *)
From Coq Require Import String Ascii ZArith List Bool Lia.
From Acme.C10 Require Import DbcDoc BusModel Import Proofs ProofsAttrs ProofsAttrsAll.
Import ListNotations.
Open Scope Z_scope.

Definition val_step (amap : list (string * attr_def)) (l : list attr_asg) (av : dattrval) : list attr_asg :=
  match lookup String.eqb (av_name av) amap with
  | Some ad => match attr_value ad av with
               | Ok v => if check_value ad v then assign (av_name av) ad v l else l
               | Err _ => l
               end
  | None => l
  end.
Definition node_step (amap : list (string * attr_def)) (nm : string) (l : list attr_asg) (av : dattrval) : list attr_asg :=
  match av_kind av with
  | ONode => if String.eqb (av_node av) dummy_node then l else if String.eqb nm (av_node av) then val_step amap l av else l
  | _ => l
  end.
Definition msg_step (amap : list (string * attr_def)) (cid : Z) (l : list attr_asg) (av : dattrval) : list attr_asg :=
  match av_kind av with
  | OMessage => if cid =? av_msg av then match special_of (av_name av) with Some _ => l | None => val_step amap l av end else l
  | _ => l
  end.

(* the four dedicated fields of a message: cycle, delay and start-delay time, send type *)
Definition mfields (m : message) : Z * Z * Z * Z := (m_cycle m, m_delay m, m_startdelay m, m_sendtype m).
Definition fld_step (amap : list (string * attr_def)) (cid : Z) (f : Z * Z * Z * Z) (av : dattrval) : Z * Z * Z * Z :=
  match av_kind av with
  | OMessage =>
      if cid =? av_msg av then
        match lookup String.eqb (av_name av) amap with
        | Some ad =>
            match attr_value ad av with
            | Ok v =>
                let '(c, dl, sd, st) := f in
                match special_of (av_name av), v with
                | Some SpMsgCycle, ValInt z => (z, dl, sd, st)
                | Some SpMsgDelay, ValInt z => (c, z, sd, st)
                | Some SpMsgStartDelay, ValInt z => (c, dl, z, st)
                | Some SpMsgSend, ValString t => (c, dl, sd, msg_send_type_from_dbc t)
                | _, _ => f
                end
            | Err _ => f
            end
        | None => f
        end
      else f
  | _ => f
  end.

Lemma Forall2_same : forall {A} (R : A -> A -> Prop) l, (forall x, In x l -> R x x) -> Forall2 R l l.
Proof. intros A R l. induction l as [|x r IH]; intros H; constructor; [apply H; left; reflexivity|apply IH; intros y Hy; apply H; right; assumption]. Qed.

Lemma update_first_key : forall {A K} (key : A -> K) (k : K) (p : A -> bool) (f : A -> result A) l l',
  (forall x, p x = true <-> key x = k) -> NoDup (map key l) -> update_first p f l = Ok l' ->
  Forall2 (fun x y => if p x then f x = Ok y else y = x) l l'.
Proof.
  intros A K key k p f l. induction l as [|x r IH]; intros l' Hp Hnd H; cbn [update_first] in H; [inversion H; constructor|].
  cbn [map] in Hnd. inversion Hnd as [|? ? Hni Hr]; subst. destruct (p x) eqn:E.
  - apply bind_ok in H. destruct H as [y [Hy H]]. inversion H; subst. constructor; [rewrite E; exact Hy|].
    apply Forall2_same. intros z Hz. destruct (p z) eqn:Ez; [|reflexivity]. exfalso. apply Hni.
    apply Hp in E. apply Hp in Ez. rewrite E, <- Ez. apply in_map. assumption.
  - apply bind_ok in H. destruct H as [r' [Hr' H]]. inversion H; subst. constructor; [rewrite E; reflexivity|]. apply IH; assumption.
Qed.

Lemma update_nth_F2 : forall {A} (f : A -> result A) (R : A -> A -> Prop) n l l',
  update_nth n f l = Ok l' -> (forall x y, f x = Ok y -> R x y) -> (forall x, R x x) -> Forall2 R l l'.
Proof.
  intros A f R n. induction n as [|n IH]; intros [|x r] l' H Hf Hr; cbn [update_nth] in H; try (inversion H; constructor; fail).
  - apply bind_ok in H. destruct H as [y [Hy H]]. inversion H; subst. constructor; [apply Hf; assumption|apply Forall2_same; intros; apply Hr].
  - apply bind_ok in H. destruct H as [r' [Hr' H]]. inversion H; subst. constructor; [apply Hr|eapply IH; eauto].
Qed.

Lemma Forall2_impl' : forall {A B} (P Q : A -> B -> Prop) l l', (forall a b, P a b -> Q a b) -> Forall2 P l l' -> Forall2 Q l l'.
Proof. intros A B P Q l l' Hi H. induction H; constructor; auto. Qed.

Lemma Forall2_comp : forall {A} (R1 R2 R3 : A -> A -> Prop) l0 l1 l2,
  Forall2 R1 l0 l1 -> Forall2 R2 l1 l2 -> (forall x y z, R1 x y -> R2 y z -> R3 x z) -> Forall2 R3 l0 l2.
Proof.
  intros A R1 R2 R3 l0 l1 l2 H. revert l2. induction H as [|x y r0 r1 Hxy Hr IH]; intros l2 H2 Hc; inversion H2 as [|? z ? r2 Hyz Hr2]; subst; constructor; [eapply Hc; eauto|apply IH; assumption].
Qed.

Lemma Forall2_right_all : forall {A} (R : A -> A -> Prop) (P Q : A -> Prop) l l',
  Forall2 R l l' -> Forall P l -> (forall x y, P x -> R x y -> Q y) -> Forall Q l'.
Proof.
  intros A R P Q l l' H. induction H as [|x y r r' Hxy Hr IH]; intros HP Hq; [constructor|]. inversion HP; subst. constructor; [eapply Hq; eauto|apply IH; assumption].
Qed.

Lemma Forall2_names : forall {A B} (R : A -> A -> Prop) (key : A -> B) l l',
  Forall2 R l l' -> (forall x y, R x y -> key y = key x) -> map key l' = map key l.
Proof. intros A B R key l l' H Hk. induction H; [reflexivity|]. cbn [map]. rewrite IHForall2, (Hk _ _ H). reflexivity. Qed.

Section Exact.
  Variable amap : list (string * attr_def).

  Definition NR (av : dattrval) (n0 n1 : node) : Prop := n_name n1 = n_name n0 /\ n_attrs n1 = node_step amap (n_name n0) (n_attrs n0) av.
  Definition MR (av : dattrval) (m0 m1 : message) : Prop :=
    m_canid m1 = m_canid m0 /\ m_attrs m1 = msg_step amap (m_canid m0) (m_attrs m0) av /\ mfields m1 = fld_step amap (m_canid m0) (mfields m0) av.

  Lemma node_step_other : forall nm l av, av_kind av <> ONode -> node_step amap nm l av = l.
  Proof. intros nm l av H. unfold node_step. destruct (av_kind av); try reflexivity. exfalso. apply H. reflexivity. Qed.
  Lemma msg_step_other : forall c l av, av_kind av <> OMessage -> msg_step amap c l av = l.
  Proof. intros c l av H. unfold msg_step. destruct (av_kind av); try reflexivity. exfalso. apply H. reflexivity. Qed.
  Lemma val_step_none : forall l av, lookup String.eqb (av_name av) amap = None -> val_step amap l av = l.
  Proof. intros l av H. unfold val_step. rewrite H. reflexivity. Qed.
  Lemma node_step_none : forall nm l av, lookup String.eqb (av_name av) amap = None -> node_step amap nm l av = l.
  Proof. intros nm l av H. unfold node_step. rewrite (val_step_none l av H). destruct (av_kind av); try reflexivity. destruct (String.eqb (av_node av) dummy_node), (String.eqb nm (av_node av)); reflexivity. Qed.
  Lemma msg_step_none : forall c l av, lookup String.eqb (av_name av) amap = None -> msg_step amap c l av = l.
  Proof. intros c l av H. unfold msg_step. rewrite (val_step_none l av H). destruct (av_kind av); try reflexivity. destruct (c =? av_msg av), (special_of (av_name av)); reflexivity. Qed.

  Lemma fld_step_other : forall c f av, av_kind av <> OMessage -> fld_step amap c f av = f.
  Proof. intros c f av H. unfold fld_step. destruct (av_kind av); try reflexivity. exfalso. apply H. reflexivity. Qed.
  Lemma fld_step_none : forall c f av, lookup String.eqb (av_name av) amap = None -> fld_step amap c f av = f.
  Proof. intros c f av H. unfold fld_step. rewrite H. destruct (av_kind av); try reflexivity. destruct (c =? av_msg av); reflexivity. Qed.

  Lemma astep_exact : forall sm b0 av b1,
    NoDup (map n_name (b_nodes b0)) -> NoDup (map m_canid (b_messages b0)) ->
    astep amap sm (Ok b0) av = Ok b1 ->
    Forall2 (NR av) (b_nodes b0) (b_nodes b1) /\ Forall2 (MR av) (b_messages b0) (b_messages b1).
  Proof.
    intros sm b0 av b1 Hnn Hnc H. unfold astep in H. cbn [bind] in H.
    assert (Hsame : forall P : Prop, P -> P) by auto.
    destruct (lookup String.eqb (av_name av) amap) as [ad|] eqn:El.
    2:{ inversion H; subst. split; apply Forall2_same; intros x _.
        - split; [reflexivity|rewrite node_step_none; auto].
        - split; [reflexivity|]. rewrite msg_step_none, fld_step_none by assumption. split; reflexivity. }
    destruct (attr_value ad av) as [v|w] eqn:Ev; cbn [bind] in H; [|discriminate].
    assert (HN0 : av_kind av <> ONode -> Forall2 (NR av) (b_nodes b0) (b_nodes b0))
      by (intros Hk; apply Forall2_same; intros x _; split; [reflexivity|rewrite node_step_other; auto]).
    assert (HM0 : av_kind av <> OMessage -> Forall2 (MR av) (b_messages b0) (b_messages b0))
      by (intros Hk; apply Forall2_same; intros x _; split; [reflexivity|rewrite msg_step_other, fld_step_other by assumption; split; reflexivity]).
    destruct (av_kind av) eqn:Ek.
    - apply bind_ok in H. destruct H as [a [_ H]]. inversion H; subst. cbn [b_nodes b_messages set_b_attrs]. split; [apply HN0|apply HM0]; discriminate.
    - split.
      2:{ assert (b_messages b1 = b_messages b0).
          { destruct (String.eqb (av_node av) dummy_node); [inversion H; reflexivity|]. apply bind_ok in H. destruct H as [ns [_ H]]. inversion H; reflexivity. }
          rewrite H0. apply HM0. discriminate. }
      destruct (String.eqb (av_node av) dummy_node) eqn:Ed.
      + inversion H; subst. apply Forall2_same. intros x _. split; [reflexivity|]. unfold node_step. rewrite Ek, Ed. reflexivity.
      + apply bind_ok in H. destruct H as [ns [Hu H]]. inversion H; subst. cbn [b_nodes set_b_nodes].
        pose proof (update_first_key n_name (av_node av) _ _ _ _ (fun x => String.eqb_eq (n_name x) (av_node av)) Hnn Hu) as HF.
        eapply Forall2_impl'; [|exact HF]. intros x y Hxy. cbn beta in Hxy. unfold NR, node_step. rewrite Ek, Ed.
        destruct (String.eqb (n_name x) (av_node av)) eqn:Ex.
        * apply bind_ok in Hxy. destruct Hxy as [a' [Ht Hy]]. inversion Hy; subst y. cbn [n_name n_attrs]. split; [reflexivity|].
          unfold val_step. rewrite El, Ev. unfold try_assign in Ht. destruct (check_value ad v); [inversion Ht; reflexivity|discriminate].
        * subst y. split; reflexivity.
    - split.
      { assert (b_nodes b1 = b_nodes b0) by (apply bind_ok in H; destruct H as [ms [_ H]]; inversion H; reflexivity).
        rewrite H0. apply HN0. discriminate. }
      apply bind_ok in H. destruct H as [ms [Hu H]]. inversion H; subst. cbn [b_messages set_b_messages].
      pose proof (update_first_key m_canid (av_msg av) _ _ _ _ (fun x => Z.eqb_eq (m_canid x) (av_msg av)) Hnc Hu) as HF.
      eapply Forall2_impl'; [|exact HF]. intros x y Hxy. cbn beta in Hxy. unfold MR, msg_step, fld_step. rewrite Ek.
      destruct (m_canid x =? av_msg av) eqn:Ex.
      + rewrite El, Ev. unfold assign_message in Hxy. unfold mfields. destruct (special_of (av_name av)) as [[]|].
        1-4: destruct v; try discriminate; inversion Hxy; subst; cbn [m_canid m_attrs m_cycle m_delay m_startdelay m_sendtype set_m_times]; repeat split.
        1-2: inversion Hxy; subst; destruct v; repeat split.
        apply bind_ok in Hxy. destruct Hxy as [a' [Ht Hy]]. inversion Hy; subst y. cbn [m_canid m_attrs set_m_attrs m_cycle m_delay m_startdelay m_sendtype]. split; [reflexivity|]. split; [|destruct v; reflexivity].
        unfold val_step. rewrite El, Ev. unfold try_assign in Ht. destruct (check_value ad v); [inversion Ht; reflexivity|discriminate].
      + subst y. repeat split.
    - split.
      { assert (b_nodes b1 = b_nodes b0).
        { destruct (lookup key_eqb _ sm) as [[mpos sid]|]; [|inversion H; reflexivity]. apply bind_ok in H. destruct H as [ms [_ H]]. inversion H; reflexivity. }
        rewrite H0. apply HN0. discriminate. }
      destruct (lookup key_eqb _ sm) as [[mpos sid]|]; [|inversion H; subst; apply HM0; discriminate].
      apply bind_ok in H. destruct H as [ms [Hu H]]. inversion H; subst. cbn [b_messages set_b_messages].
      eapply update_nth_F2; [exact Hu| |].
      + intros x y Hf. apply bind_ok in Hf. destruct Hf as [ss [_ Hf]]. inversion Hf; subst y. split; [reflexivity|]. unfold mfields. cbn [m_attrs set_m_signals m_cycle m_delay m_startdelay m_sendtype m_canid].
        rewrite msg_step_other, fld_step_other by (rewrite Ek; discriminate). split; reflexivity.
      + intros x. split; [reflexivity|]. rewrite msg_step_other, fld_step_other by (rewrite Ek; discriminate). split; reflexivity.
    - inversion H; subst. split; [apply HN0|apply HM0]; discriminate.
  Qed.

  Lemma astep_fold_exact : forall sm avs b0 b1,
    NoDup (map n_name (b_nodes b0)) -> NoDup (map m_canid (b_messages b0)) ->
    fold_left (astep amap sm) avs (Ok b0) = Ok b1 ->
    Forall2 (fun n0 n1 => n_name n1 = n_name n0 /\ n_attrs n1 = fold_left (node_step amap (n_name n0)) avs (n_attrs n0)) (b_nodes b0) (b_nodes b1) /\
    Forall2 (fun m0 m1 => m_canid m1 = m_canid m0 /\ m_attrs m1 = fold_left (msg_step amap (m_canid m0)) avs (m_attrs m0) /\
                          mfields m1 = fold_left (fld_step amap (m_canid m0)) avs (mfields m0)) (b_messages b0) (b_messages b1).
  Proof.
    intros sm avs. induction avs as [|av r IH]; intros b0 b1 Hnn Hnc H; cbn [fold_left] in H.
    - inversion H; subst. split; apply Forall2_same; intros x _; repeat split.
    - destruct (astep amap sm (Ok b0) av) as [b0'|w] eqn:E.
      2:{ rewrite fold_result_err in H; [discriminate|intros x w'; reflexivity]. }
      destruct (astep_exact _ _ _ _ Hnn Hnc E) as [A1 A2].
      assert (Hn1 : map n_name (b_nodes b0') = map n_name (b_nodes b0)) by (eapply Forall2_names; [exact A1|intros x y [K _]; exact K]).
      assert (Hc1 : map m_canid (b_messages b0') = map m_canid (b_messages b0)) by (eapply Forall2_names; [exact A2|intros x y [K _]; exact K]).
      destruct (IH b0' b1 ltac:(rewrite Hn1; assumption) ltac:(rewrite Hc1; assumption) H) as [I1 I2]. cbn [fold_left]. split.
      + eapply Forall2_comp; [exact A1|exact I1|]. intros x y z [N1 N2] [K1 K2]. split; [congruence|]. rewrite K2, N1, N2. reflexivity.
      + eapply Forall2_comp; [exact A2|exact I2|]. intros x y z [N1 [N2 N3]] [K1 [K2 K3]]. split; [congruence|]. rewrite K2, K3, N1, N2, N3. split; reflexivity.
  Qed.
End Exact.

Theorem import_node_message_attributes_exact : forall d b, import d = Ok b ->
  exists amap, def_map d = Ok amap /\
    Forall (fun n => n_attrs n = fold_left (node_step amap (n_name n)) (d_attrvals d) []) (b_nodes b) /\
    Forall (fun m => m_attrs m = fold_left (msg_step amap (m_canid m)) (d_attrvals d) [] /\
                     mfields m = fold_left (fld_step amap (m_canid m)) (d_attrvals d) (0, 0, 0, 0)) (b_messages b).
Proof.
  intros d b H. apply import_inv in H.
  destruct H as [reg [es [se [nodes [st4 [msgs [b1 [_ [_ [Hn [Hm [Hb Hbb]]]]]]]]]]]].
  rewrite import_attributes_unfold in Hb. apply bind_ok in Hb. destruct Hb as [amap [Hd Hf]].
  exists amap. split; [assumption|].
  assert (Hnd : NoDup (map n_name nodes) /\ Forall (fun n => n_attrs n = []) nodes).
  { unfold import_nodes in Hn. apply bind_ok in Hn. destruct Hn as [ns0 [H0 Hn]].
    destruct (mem_z 1024 (map n_id ns0)); [discriminate|]. inversion Hn; subst nodes.
    pose proof (import_nodes_aux_attrs _ _ _ _ _ H0 (Forall_nil _)) as HA.
    apply import_nodes_aux_nodup in H0; [|constructor|intros []]. destruct H0 as [H1 H2]. split.
    - rewrite map_app. cbn. apply nodup_snoc; assumption.
    - apply Forall_app. split; [assumption|]. constructor; [reflexivity|constructor]. }
  destruct Hnd as [Hnd Hna].
  destruct (import_messages_fold_valid _ _ _ _ _ _ _ Hm ltac:(constructor) ltac:(constructor)) as [Hc _].
  pose proof (import_messages_no_attrs _ _ _ _ _ _ _ Hm (Forall_nil _)) as Hma.
  destruct (astep_fold_exact amap (is_sigmap st4) (d_attrvals d) (mkbus (d_filename d) (fst (import_comments (d_comments d))) [] nodes (is_enums st4) msgs) b1 Hnd Hc Hf) as [F1 F2]. cbn [b_nodes b_messages] in F1, F2.
  assert (G1 : Forall (fun n => n_attrs n = fold_left (node_step amap (n_name n)) (d_attrvals d) []) (b_nodes b1)).
  { eapply Forall2_right_all; [exact F1|exact Hna|]. cbn beta. intros x y Hx [N1 N2]. rewrite N2, N1, Hx. reflexivity. }
  pose proof (import_messages_zero_fields _ _ _ _ _ _ _ Hm (Forall_nil _)) as Hmz.
  assert (Hmaz : Forall (fun m => m_attrs m = [] /\ mfields m = (0, 0, 0, 0)) msgs).
  { rewrite Forall_forall in *. intros m Hin. split; [apply Hma; assumption|]. destruct (Hmz m Hin) as [Z1 [Z2 [Z3 Z4]]]. unfold mfields. rewrite Z1, Z2, Z3, Z4. reflexivity. }
  assert (G2 : Forall (fun m => m_attrs m = fold_left (msg_step amap (m_canid m)) (d_attrvals d) [] /\
                                mfields m = fold_left (fld_step amap (m_canid m)) (d_attrvals d) (0, 0, 0, 0)) (b_messages b1)).
  { eapply Forall2_right_all; [exact F2|exact Hmaz|]. cbn beta. intros x y [Hx Hz] [N1 [N2 N3]]. rewrite N2, N3, N1, Hx, Hz. split; reflexivity. }
  subst b. destruct (existsb _ _); [split; assumption|].
  cbn [b_nodes b_messages set_b_nodes]. split; [|assumption].
  apply Forall_forall. intros n Hn'. apply filter_In in Hn'. destruct Hn' as [Hn' _]. rewrite Forall_forall in G1. apply G1. assumption.
Qed.
