(* C10 — importAttributes on SIGNALS of any accepted document, and what the importer's signals map means.
   (1) every entry ((msgid, name), (mpos, id)) of the signals map points to the message at position mpos of
       the imported bus, that message has CAN-ID msgid, and a signal of that message with id `id` is named
       `name` (`sigmap_sound`);
   (2) every attribute assignment an imported signal carries, a start value different from 0 and a send type
       different from 0 come from a BA_ line of kind SG_ whose (message id, signal name) the map resolves to
       this message position and this signal id, under the importer's definition for that attribute name, with
       the value read by `attr_value` (an integer start value is converted) and - for user attributes -
       conforming to the definition. *)
From Coq Require Import String Ascii ZArith List Bool Lia.
From Acme.C10 Require Import DbcDoc BusModel Import Proofs ProofsEnum ProofsLayout ProofsFaithful ProofsMux ProofsIds
     ProofsAttrs ProofsAttrsAll ProofsTraverse.
Import ListNotations.
Open Scope Z_scope.
Local Open Scope string_scope.
Local Open Scope Z_scope.

(* ---------------- fresh signals carry no attribute data; the map grows by entries of this message ---------------- *)
Definition ZP (s : signal) : Prop := s_attrs s = [] /\ s_startval s = fl_zero /\ s_sendtype s = 0.
Definition QM (sm0 : list (key * (nat * Z))) (mpos : nat) (dm : dmessage) (st : istate) : Prop :=
  forall k v, In (k, v) (is_sigmap st) ->
    In (k, v) sm0 \/ exists id ds, In (id, ds) (index_from 0 (sorted_signals dm)) /\ k = (dm_id dm, ds_name ds) /\ v = (mpos, id).

Lemma import_message_signals_fresh : forall env st mpos dm st' sigs,
  import_message_signals env st mpos dm = Ok (st', sigs) ->
  (forall x, In x sigs -> ZP x) /\ QM (is_sigmap st) mpos dm st'.
Proof.
  intros env st mpos dm st' sigs H.
  apply (import_message_signals_G env mpos dm ZP (QM (is_sigmap st) mpos dm)) with (st := st); try assumption.
  - intros s rel p g Hs. exact Hs.
  - intros s dsc Hs. exact Hs.
  - intros st0 id ds s st1 Hq Hin Hi. unfold import_signal in Hi.
    apply bind_ok in Hi. destruct Hi as [[s0 st2] [H0 Hi]]. inversion Hi; subst s st1. clear Hi.
    assert (Hz : ZP s0 /\ is_sigmap st2 = is_sigmap st0).
    { destruct (lookup key_eqb (dm_id dm, ds_name ds) (ie_sig_enums env)).
      - apply bind_ok in H0. destruct H0 as [[ei es1] [_ H0]]. inversion H0; subst. split; [repeat split|reflexivity].
      - apply bind_ok in H0. destruct H0 as [s1 [H1 H0]]. inversion H0; subst. unfold import_standard in H1.
        destruct (ds_size ds <=? 0); [discriminate|]. inversion H1; subst. split; [repeat split|reflexivity]. }
    destruct Hz as [Hz Hsm]. split.
    + destruct (lookup key_eqb _ (ie_sig_desc env)); exact Hz.
    + intros k v Hkv. cbn [is_sigmap set_sigmap] in Hkv. destruct Hkv as [Hkv|Hkv].
      * inversion Hkv; subst. right. exists id, ds. auto.
      * rewrite Hsm in Hkv. apply Hq. assumption.
  - intros id name gc gs _ _. repeat split.
  - intros st0 id dmx Hq Hin k v Hkv. cbn [is_sigmap set_sigmap] in Hkv. destruct Hkv as [Hkv|Hkv].
    + inversion Hkv; subst. right. exists id, dmx. auto.
    + apply Hq. assumption.
  - intros k v Hkv. left. assumption.
Qed.

(* ---------------- the signals map is sound ---------------- *)
Definition entry_ok (msgs : list message) (e : key * (nat * Z)) : Prop :=
  exists m, nth_error msgs (fst (snd e)) = Some m /\ m_canid m = fst (fst e) /\
            forall s, In s (m_signals m) -> s_id s = snd (snd e) -> s_name s = snd (fst e).
Definition sm_ok (msgs : list message) (sm : list (key * (nat * Z))) : Prop := Forall (entry_ok msgs) sm.

Lemma entry_ok_app : forall msgs m e, entry_ok msgs e -> entry_ok (msgs ++ [m]) e.
Proof.
  intros msgs m e [x [H1 H2]]. exists x. split; [|exact H2]. rewrite nth_error_app1; [exact H1|].
  apply nth_error_Some. rewrite H1. discriminate.
Qed.

Lemma import_messages_sm : forall env nodes dms st msgs st' msgs',
  fold_left (fun acc dm => do a <- acc; import_message env a nodes dm) dms (Ok (st, msgs)) = Ok (st', msgs') ->
  sm_ok msgs (is_sigmap st) /\ Forall (fun m => Forall ZP (m_signals m)) msgs ->
  sm_ok msgs' (is_sigmap st') /\ Forall (fun m => Forall ZP (m_signals m)) msgs'.
Proof.
  intros env nodes dms. induction dms as [|dm r IH]; intros st msgs st' msgs' H HZ; cbn [fold_left] in H.
  - inversion H; subst. assumption.
  - cbn [bind] in H. destruct (import_message env (st, msgs) nodes dm) as [[st1 msgs1]|w] eqn:E.
    2:{ rewrite fold_result_err in H by reflexivity. discriminate. }
    apply import_message_inv in E. destruct E as [m [sigs [Hm [Hh [Hs [Hi _]]]]]].
    eapply IH; [exact H|]. subst msgs1. destruct HZ as [Z1 Z2].
    destruct (import_message_signals_fresh _ _ _ _ _ _ Hi) as [F1 F2].
    pose proof (import_message_signals_src _ _ _ _ _ _ Hi) as [Hsrc _].
    assert (Hcan : m_canid m = dm_id dm) by (unfold msg_head, dmsg_head in Hh; inversion Hh; reflexivity).
    split.
    + apply Forall_forall. intros [k [mp id]] He. destruct (F2 _ _ He) as [Hold|[i [ds [Hin [Hk Hv]]]]].
      * apply entry_ok_app. unfold sm_ok in Z1. rewrite Forall_forall in Z1. apply (Z1 _ Hold).
      * inversion Hv; subst mp id. subst k. exists m. cbn [fst snd]. split; [|split; [exact Hcan|]].
        -- rewrite nth_error_app2 by lia. rewrite Nat.sub_diag. reflexivity.
        -- intros s Hsin Hid. rewrite Hs in Hsin. specialize (Hsrc s Hsin). unfold ProofsIds.P in Hsrc. rewrite Hid in Hsrc.
           apply (src_functional dm i); [exact Hsrc|apply in_src; exact Hin].
    + apply Forall_app. split; [assumption|]. constructor; [|constructor]. rewrite Hs. apply Forall_forall. exact F1.
Qed.

(* ---------------- provenance of signal attribute data ---------------- *)
Section SigProvenance.
  Variables (d : doc) (amap : list (string * attr_def)) (sm : list (key * (nat * Z))).

  Definition targets (p : nat) (s : signal) (av : dattrval) : Prop :=
    lookup key_eqb (av_msg av, av_sig av) sm = Some (p, s_id s).
  Definition SG (p : nat) (s : signal) : Prop :=
    (forall a, In a (s_attrs s) -> asrc d amap OSignal (targets p s) a) /\
    (s_startval s <> fl_zero ->
       exists av ad v, In av (d_attrvals d) /\ av_kind av = OSignal /\ av_name av = "GenSigStartValue" /\ targets p s av /\
         lookup String.eqb "GenSigStartValue" amap = Some ad /\ attr_value ad av = Ok v /\
         (v = ValFloat (s_startval s) \/ exists z, v = ValInt z /\ s_startval s = fl_of_Z z)) /\
    (s_sendtype s <> 0 ->
       exists av ad t, In av (d_attrvals d) /\ av_kind av = OSignal /\ av_name av = "GenSigSendType" /\ targets p s av /\
         lookup String.eqb "GenSigSendType" amap = Some ad /\ attr_value ad av = Ok (ValString t) /\
         s_sendtype s = sig_send_type_from_dbc t).
  Definition SA (p : nat) (m : message) : Prop := Forall (SG p) (m_signals m).
  Definition SAs (msgs : list message) : Prop := forall i m, nth_error msgs i = Some m -> SA i m.

  Lemma ZP_SG : forall p s, ZP s -> SG p s.
  Proof.
    intros p s [Z1 [Z2 Z3]]. unfold SG. rewrite Z1, Z2, Z3. split; [intros a []|]. split; intros Hc; exfalso; apply Hc; reflexivity.
  Qed.

  Lemma assign_signal_SG : forall av ad v p s s',
    In av (d_attrvals d) -> av_kind av = OSignal -> targets p s av ->
    lookup String.eqb (av_name av) amap = Some ad -> attr_value ad av = Ok v ->
    SG p s -> assign_signal (av_name av) ad v s = Ok s' -> SG p s' /\ s_id s' = s_id s.
  Proof.
    intros av ad v p s s' Hin Hk Ht Hl Hv [G1 [G2 G3]] H. unfold assign_signal in H.
    destruct (special_of (av_name av)) as [sp|] eqn:Es.
    - pose proof (special_of_name _ _ Es) as Hn.
      destruct sp; try (inversion H; subst; split; [split; [exact G1|split; [exact G2|exact G3]]|reflexivity]).
      + (* start value *)
        destruct v as [x|z|f].
        * inversion H; subst. split; [split; [exact G1|split; [exact G2|exact G3]]|reflexivity].
        * inversion H; subst s'. split; [|reflexivity]. unfold SG, targets in *. cbn [s_attrs s_startval s_sendtype s_id set_s_special].
          split; [exact G1|]. split; [|exact G3]. intros _. exists av, ad, (ValInt z). rewrite <- Hn. split; [assumption|]. split; [assumption|].
          split; [reflexivity|]. split; [assumption|]. split; [assumption|]. split; [assumption|]. right. exists z. auto.
        * inversion H; subst s'. split; [|reflexivity]. unfold SG, targets in *. cbn [s_attrs s_startval s_sendtype s_id set_s_special].
          split; [exact G1|]. split; [|exact G3]. intros _. exists av, ad, (ValFloat f). rewrite <- Hn. split; [assumption|]. split; [assumption|].
          split; [reflexivity|]. split; [assumption|]. split; [assumption|]. split; [assumption|]. left. reflexivity.
      + (* send type *)
        destruct v as [x|z|f]; try discriminate. inversion H; subst s'. split; [|reflexivity].
        unfold SG, targets in *. cbn [s_attrs s_startval s_sendtype s_id set_s_special].
        split; [exact G1|]. split; [exact G2|]. intros _. exists av, ad, x. rewrite <- Hn. auto 10.
    - apply bind_ok in H. destruct H as [a' [Hta H]]. inversion H; subst s'. split; [|reflexivity].
      unfold SG, targets in *. cbn [s_attrs s_startval s_sendtype s_id set_s_attrs]. split; [|split; [exact G2|exact G3]].
      eapply try_assign_all; [exact Hta|exact G1|]. intros Hc. exists av. cbn [aa_name aa_def aa_val]. auto 10.
  Qed.

  Lemma update_first_nth : forall {A} (p : A -> bool) (f : A -> result A) l l',
    update_first p f l = Ok l' -> forall i y, nth_error l' i = Some y ->
    nth_error l i = Some y \/ exists x, nth_error l i = Some x /\ p x = true /\ f x = Ok y.
  Proof.
    intros A p f l. induction l as [|x r IH]; intros l' H i y Hy; cbn [update_first] in H.
    - inversion H; subst. destruct i; discriminate.
    - destruct (p x) eqn:E.
      + apply bind_ok in H. destruct H as [z [Hz H]]. inversion H; subst. destruct i; cbn [nth_error] in *; [|left; assumption].
        inversion Hy; subst. right. exists x. auto.
      + apply bind_ok in H. destruct H as [r' [Hr' H]]. inversion H; subst. destruct i; cbn [nth_error] in *; [left; assumption|].
        apply (IH _ Hr' i y Hy).
  Qed.
  Lemma update_nth_nth : forall {A} (f : A -> result A) n l l',
    update_nth n f l = Ok l' -> forall i y, nth_error l' i = Some y ->
    (i <> n /\ nth_error l i = Some y) \/ (i = n /\ exists x, nth_error l n = Some x /\ f x = Ok y).
  Proof.
    intros A f n. induction n as [|n IH]; intros [|x r] l' H i y Hy; cbn [update_nth] in H.
    - inversion H; subst. destruct i; discriminate.
    - apply bind_ok in H. destruct H as [z [Hz H]]. inversion H; subst. destruct i; cbn [nth_error] in *.
      + inversion Hy; subst. right. split; [reflexivity|]. exists x. auto.
      + left. split; [lia|assumption].
    - inversion H; subst. destruct i; discriminate.
    - apply bind_ok in H. destruct H as [r' [Hr' H]]. inversion H; subst. destruct i; cbn [nth_error] in *.
      + left. split; [lia|assumption].
      + destruct (IH _ _ Hr' i y Hy) as [[H1 H2]|[H1 H2]]; [left; split; [lia|assumption]|right; split; [lia|assumption]].
  Qed.

  Lemma assign_message_signals : forall name ad v m m', assign_message name ad v m = Ok m' -> m_signals m' = m_signals m.
  Proof.
    intros name ad v m m' H. unfold assign_message in H. destruct (special_of name) as [[]|].
    1-4: destruct v; try discriminate; inversion H; reflexivity.
    1-2: inversion H; reflexivity.
    apply bind_ok in H. destruct H as [a [_ H]]. inversion H; reflexivity.
  Qed.

  Lemma astep_SAs : forall b0 av b1, In av (d_attrvals d) -> astep amap sm (Ok b0) av = Ok b1 ->
    SAs (b_messages b0) -> SAs (b_messages b1).
  Proof.
    intros b0 av b1 Hin H HM. unfold astep in H. cbn [bind] in H.
    destruct (lookup String.eqb (av_name av) amap) as [ad|] eqn:El; [|inversion H; subst; assumption].
    destruct (attr_value ad av) as [v|w] eqn:Ev; cbn [bind] in H; [|discriminate].
    destruct (av_kind av) eqn:Ek.
    - apply bind_ok in H. destruct H as [a [_ H]]. inversion H; subst. exact HM.
    - destruct (String.eqb (av_node av) dummy_node); [inversion H; subst; assumption|].
      apply bind_ok in H. destruct H as [ns [_ H]]. inversion H; subst. exact HM.
    - apply bind_ok in H. destruct H as [ms [Hu H]]. inversion H; subst. cbn [b_messages set_b_messages].
      intros i y Hy. destruct (update_first_nth _ _ _ _ Hu i y Hy) as [Hsame|[x [Hx [_ Hf]]]]; [apply HM; assumption|].
      unfold SA. rewrite (assign_message_signals _ _ _ _ _ Hf). apply (HM i x Hx).
    - destruct (lookup key_eqb (av_msg av, av_sig av) sm) as [[mpos sid]|] eqn:Elk; [|inversion H; subst; assumption].
      apply bind_ok in H. destruct H as [ms [Hu H]]. inversion H; subst. cbn [b_messages set_b_messages].
      intros i y Hy. destruct (update_nth_nth _ _ _ _ Hu i y Hy) as [[_ Hsame]|[-> [x [Hx Hf]]]]; [apply HM; assumption|].
      apply bind_ok in Hf. destruct Hf as [ss [Hss Hf]]. inversion Hf; subst y. unfold SA. cbn [m_signals set_m_signals].
      pose proof (HM mpos x Hx) as HSx. unfold SA in HSx.
      eapply update_first_inv; [exact Hss|exact HSx|].
      intros s s' _ Hp Hfs Hs. apply Z.eqb_eq in Hp.
      assert (Ht : targets mpos s av) by (unfold targets; rewrite Elk, Hp; reflexivity).
      destruct (assign_signal_SG av ad v mpos s s' Hin Ek Ht El Ev Hs Hfs) as [Hs' _]. exact Hs'.
    - inversion H; subst. exact HM.
  Qed.

  (* the attribute steps keep positions, CAN-IDs, signal ids and signal names *)
  Definition shape (m : message) := (m_canid m, map (fun s => (s_id s, s_name s)) (m_signals m)).

  Lemma update_first_map : forall {A B} (g : A -> B) (p : A -> bool) (f : A -> result A) l l',
    update_first p f l = Ok l' -> (forall x y, f x = Ok y -> g y = g x) -> map g l' = map g l.
  Proof.
    intros A B g p f l. induction l as [|x r IH]; intros l' H Hg; cbn [update_first] in H; [inversion H; reflexivity|].
    destruct (p x).
    - apply bind_ok in H. destruct H as [y [Hy H]]. inversion H; subst. cbn [map]. rewrite (Hg _ _ Hy). reflexivity.
    - apply bind_ok in H. destruct H as [r' [Hr' H]]. inversion H; subst. cbn [map]. rewrite (IH _ Hr' Hg). reflexivity.
  Qed.
  Lemma update_nth_map : forall {A B} (g : A -> B) (f : A -> result A) n l l',
    update_nth n f l = Ok l' -> (forall x y, f x = Ok y -> g y = g x) -> map g l' = map g l.
  Proof.
    intros A B g f n. induction n as [|n IH]; intros [|x r] l' H Hg; cbn [update_nth] in H; try (inversion H; reflexivity).
    - apply bind_ok in H. destruct H as [y [Hy H]]. inversion H; subst. cbn [map]. rewrite (Hg _ _ Hy). reflexivity.
    - apply bind_ok in H. destruct H as [r' [Hr' H]]. inversion H; subst. cbn [map]. rewrite (IH _ _ Hr' Hg). reflexivity.
  Qed.

  Lemma assign_signal_idname : forall name ad v s s', assign_signal name ad v s = Ok s' -> (s_id s', s_name s') = (s_id s, s_name s).
  Proof.
    intros name ad v s s' H. unfold assign_signal in H. destruct (special_of name) as [[]|].
    1-4,6: try (inversion H; reflexivity).
    - destruct v; inversion H; reflexivity.
    - destruct v; try discriminate; inversion H; reflexivity.
    - apply bind_ok in H. destruct H as [a [_ H]]. inversion H; reflexivity.
  Qed.

  Lemma assign_message_canid : forall name ad v m m', assign_message name ad v m = Ok m' -> m_canid m' = m_canid m.
  Proof.
    intros name ad v m m' H. unfold assign_message in H. destruct (special_of name) as [[]|].
    1-4: destruct v; try discriminate; inversion H; reflexivity.
    1-2: inversion H; reflexivity.
    apply bind_ok in H. destruct H as [a [_ H]]. inversion H; reflexivity.
  Qed.

  Lemma astep_shape : forall b0 av b1, astep amap sm (Ok b0) av = Ok b1 -> map shape (b_messages b1) = map shape (b_messages b0).
  Proof.
    intros b0 av b1 H. unfold astep in H. cbn [bind] in H.
    destruct (lookup String.eqb (av_name av) amap) as [ad|]; [|inversion H; subst; reflexivity].
    destruct (attr_value ad av) as [v|w]; cbn [bind] in H; [|discriminate].
    destruct (av_kind av).
    - apply bind_ok in H. destruct H as [a [_ H]]. inversion H; subst. reflexivity.
    - destruct (String.eqb (av_node av) dummy_node); [inversion H; subst; reflexivity|].
      apply bind_ok in H. destruct H as [ns [_ H]]. inversion H; subst. reflexivity.
    - apply bind_ok in H. destruct H as [ms [Hu H]]. inversion H; subst. cbn [b_messages set_b_messages].
      eapply update_first_map; [exact Hu|]. intros x y Hf. unfold shape.
      rewrite (assign_message_signals _ _ _ _ _ Hf), (assign_message_canid _ _ _ _ _ Hf). reflexivity.
    - destruct (lookup key_eqb (av_msg av, av_sig av) sm) as [[mpos sid]|]; [|inversion H; subst; reflexivity].
      apply bind_ok in H. destruct H as [ms [Hu H]]. inversion H; subst. cbn [b_messages set_b_messages].
      eapply update_nth_map; [exact Hu|]. intros x y Hf.
      apply bind_ok in Hf. destruct Hf as [ss [Hss Hf]]. inversion Hf; subst y. unfold shape. cbn [m_canid m_signals set_m_signals].
      f_equal. eapply update_first_map; [exact Hss|]. intros s s' Hs. apply (assign_signal_idname _ _ _ _ _ Hs).
    - inversion H; subst. reflexivity.
  Qed.
End SigProvenance.

Lemma astep_fold_SAs : forall d amap sm avs b0 b1, incl avs (d_attrvals d) ->
  fold_left (astep amap sm) avs (Ok b0) = Ok b1 -> SAs d amap sm (b_messages b0) ->
  SAs d amap sm (b_messages b1) /\ map shape (b_messages b1) = map shape (b_messages b0).
Proof.
  intros d amap sm avs. induction avs as [|av r IH]; intros b0 b1 Hi H HM; cbn [fold_left] in H; [inversion H; subst; auto|].
  destruct (astep amap sm (Ok b0) av) as [b0'|w] eqn:E.
  2:{ rewrite fold_result_err in H; [discriminate|intros x w'; reflexivity]. }
  destruct (IH b0' b1) as [I1 I2]; [intros x Hx; apply Hi; right; assumption|exact H| |].
  - eapply astep_SAs; [apply Hi; left; reflexivity|exact E|exact HM].
  - split; [exact I1|]. rewrite I2. eapply astep_shape. exact E.
Qed.

Lemma sm_ok_shape : forall msgs msgs' sm, map shape msgs' = map shape msgs -> sm_ok msgs sm -> sm_ok msgs' sm.
Proof.
  intros msgs msgs' sm Hsh H. unfold sm_ok in *. eapply Forall_impl; [|exact H]. intros [k [mp id]] [m [H1 [H2 H3]]]. cbn [fst snd] in *.
  assert (Hn : nth_error (map shape msgs) mp = Some (shape m)) by (rewrite nth_error_map, H1; reflexivity).
  rewrite <- Hsh, nth_error_map in Hn. destruct (nth_error msgs' mp) as [m'|] eqn:E; [|discriminate].
  cbn [option_map] in Hn. inversion Hn as [[Hc Hs]]. exists m'. cbn [fst snd]. split; [exact E|]. split; [congruence|].
  intros s Hs' Hid. assert (Hin : In (s_id s, s_name s) (map (fun s => (s_id s, s_name s)) (m_signals m))).
  { rewrite <- Hs. apply (in_map (fun s => (s_id s, s_name s))). assumption. }
  apply in_map_iff in Hin. destruct Hin as [s0 [E0 Hs0]]. pose proof (f_equal fst E0) as E1. pose proof (f_equal snd E0) as E2. cbn [fst snd] in E1, E2.
  rewrite <- E2. apply H3; [assumption|congruence].
Qed.

Theorem import_signal_attributes : forall d b, import d = Ok b ->
  exists amap sm, def_map d = Ok amap /\ sm_ok (b_messages b) sm /\ SAs d amap sm (b_messages b).
Proof.
  intros d b H. apply import_inv in H.
  destruct H as [reg [es [se [nodes [st4 [msgs [b1 [_ [_ [_ [Hm [Hb Hbb]]]]]]]]]]]].
  rewrite import_attributes_unfold in Hb. apply bind_ok in Hb. destruct Hb as [amap [Hd Hf]].
  exists amap, (is_sigmap st4). split; [assumption|].
  destruct (import_messages_sm _ _ _ _ _ _ _ Hm) as [S1 S2]; [split; constructor|].
  assert (Hbm : b_messages b = b_messages b1) by (subst b; destruct (existsb _ _); reflexivity).
  rewrite Hbm.
  destruct (astep_fold_SAs d amap (is_sigmap st4) _ _ _ (incl_refl _) Hf) as [A1 A2].
  { cbn [b_messages]. intros i m Hi. unfold SA. apply nth_error_In in Hi. rewrite Forall_forall in S2.
    eapply Forall_impl; [|apply (S2 m Hi)]. intros s Hs. apply ZP_SG. assumption. }
  cbn [b_messages] in A2. split; [eapply sm_ok_shape; [exact A2|exact S1]|exact A1].
Qed.

(* nodes, messages and signals together (the bus level and the dedicated message fields are
   ProofsAttrs.import_bus_attributes / import_message_fields) *)
Theorem import_attributes_spec : forall d b, import d = Ok b ->
  exists amap sm, def_map d = Ok amap /\
    Forall (NA d amap) (b_nodes b) /\ Forall (MA d amap) (b_messages b) /\
    sm_ok (b_messages b) sm /\ SAs d amap sm (b_messages b).
Proof.
  intros d b H. destruct (import_signal_attributes d b H) as [amap [sm [Hd [H1 H2]]]].
  destruct (import_node_message_attributes d b H) as [amap' [Hd' [H3 H4]]].
  assert (amap' = amap) by congruence. subst amap'. exists amap, sm. auto.
Qed.
